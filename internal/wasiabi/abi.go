// Package wasiabi tabulates the 46 functions of wasi_snapshot_preview1 as exported by wazero:
// a role per parameter (what the integer means to the callee) and, per function, the guest
// memory regions the call is allowed to write given its arguments and the input structures
// found in memory (property C15). The table is written from the WASI snapshot-01 documentation
// quoted in the function comments of /repo/imports/wasi_snapshot_preview1; a check verifies it
// against the signatures the host module really exports.
package wasiabi

import "encoding/binary"

// Role says what a parameter means.
type Role uint8

const (
	Fd           Role = iota + 1 // file descriptor
	PtrOut                       // pointer to a fixed-size result (Size bytes)
	PtrBufOut                    // pointer to an output buffer whose byte length is parameter Pair
	LenBufOut                    // byte length of the output buffer at parameter Pair
	PtrPath                      // pointer to an input string whose length is parameter Pair
	LenPath                      // length of the string at parameter Pair
	PtrIovsOut                   // pointer to an iovec array (8 bytes each) whose targets are OUTPUT; count is parameter Pair
	PtrIovsIn                    // pointer to a ciovec array (input only); count is parameter Pair
	CountIovs                    // number of iovecs at parameter Pair
	PtrSubs                      // poll_oneoff: pointer to subscriptions (48 bytes each), count is parameter Pair
	PtrEvents                    // poll_oneoff: pointer to the event output array (32 bytes each), count is parameter Pair
	CountSubs                    // poll_oneoff: number of subscriptions
	PtrVecOut                    // args_get/environ_get: pointer array, 4 bytes per configured value
	PtrVecBufOut                 // args_get/environ_get: string data, size known from the configuration
	Flags                        // bit set (Defined = mask of the bits the documentation defines)
	Enum                         // small enumeration 0..Max
	U64                          // 64-bit scalar; Kind says which (offset, size, cookie, timestamp, rights, precision)
	U32                          // 32-bit scalar without structure (exit code, signal)
)

var roleNames = map[Role]string{Fd: "fd", PtrOut: "ptr-out", PtrBufOut: "ptr-buf-out", LenBufOut: "len-buf-out", PtrPath: "ptr-path",
	LenPath: "len-path", PtrIovsOut: "ptr-iovs-out", PtrIovsIn: "ptr-iovs-in", CountIovs: "count-iovs", PtrSubs: "ptr-subs",
	PtrEvents: "ptr-events", CountSubs: "count-subs", PtrVecOut: "ptr-vec-out", PtrVecBufOut: "ptr-vecbuf-out", Flags: "flags",
	Enum: "enum", U64: "u64", U32: "u32"}

func (r Role) String() string { return roleNames[r] }

// IsPointer reports whether the role is a guest address.
func (r Role) IsPointer() bool {
	switch r {
	case PtrOut, PtrBufOut, PtrPath, PtrIovsOut, PtrIovsIn, PtrSubs, PtrEvents, PtrVecOut, PtrVecBufOut:
		return true
	}
	return false
}

// IsLength reports whether the role is a byte length or an element count.
func (r Role) IsLength() bool {
	switch r {
	case LenBufOut, LenPath, CountIovs, CountSubs:
		return true
	}
	return false
}

// Param is one parameter of a WASI function.
type Param struct {
	Name    string
	Role    Role
	I64     bool   // value type i64 (else i32)
	Size    uint32 // PtrOut: bytes written
	Pair    int    // index of the paired parameter (pointer<->length), -1 if none
	Defined uint32 // Flags: mask of defined bits
	Max     uint32 // Enum: largest defined value
	Kind    string // U64/U32: offset | len | size | cookie | timestamp | rights | precision | exitcode | signal
	Vec     string // PtrVecOut/PtrVecBufOut: "args" or "environ"
}

// Descriptor kinds a function wants in order to get past its early validation.
const (
	WantAny      = "any"
	WantFile     = "file"
	WantDir      = "dir"
	WantPreopen  = "preopen"
	WantConn     = "conn"
	WantListener = "listener"
)

// Func is one WASI function.
type Func struct {
	Name   string
	Params []Param
	Want   string // preferred kind of descriptor for the (first) fd parameter
	Stub   bool   // always returns ENOSYS
	NoRet  bool   // proc_exit: no result, never returns
}

func fd() Param                     { return Param{Name: "fd", Role: Fd, Pair: -1} }
func out(n string, sz uint32) Param { return Param{Name: n, Role: PtrOut, Size: sz, Pair: -1} }
func u64(n, kind string) Param      { return Param{Name: n, Role: U64, I64: true, Kind: kind, Pair: -1} }
func u32(n, kind string) Param      { return Param{Name: n, Role: U32, Kind: kind, Pair: -1} }
func flags(n string, def uint32) Param {
	return Param{Name: n, Role: Flags, Defined: def, Pair: -1}
}
func flags64(n string) Param { return Param{Name: n, Role: U64, I64: true, Kind: "rights", Pair: -1} }
func enum(n string, max uint32) Param {
	return Param{Name: n, Role: Enum, Max: max, Pair: -1}
}
func named(p Param, n string) Param { p.Name = n; return p }

// path returns a (pointer, length) parameter pair starting at parameter index i.
func path(i int, pn, ln string) []Param {
	return []Param{{Name: pn, Role: PtrPath, Pair: i + 1}, {Name: ln, Role: LenPath, Pair: i}}
}
func bufOut(i int, pn, ln string) []Param {
	return []Param{{Name: pn, Role: PtrBufOut, Pair: i + 1}, {Name: ln, Role: LenBufOut, Pair: i}}
}
func iovs(i int, pn, ln string, output bool) []Param {
	r := PtrIovsIn
	if output {
		r = PtrIovsOut
	}
	return []Param{{Name: pn, Role: r, Pair: i + 1}, {Name: ln, Role: CountIovs, Pair: i}}
}

func cat(ps ...any) []Param {
	var r []Param
	for _, p := range ps {
		switch v := p.(type) {
		case Param:
			r = append(r, v)
		case []Param:
			r = append(r, v...)
		}
	}
	return r
}

// Flag masks from the snapshot-01 documentation.
const (
	LookupFlagsDefined = 0x1  // symlink_follow
	OflagsDefined      = 0xf  // creat, directory, excl, trunc
	FdflagsDefined     = 0x1f // append, dsync, nonblock, rsync, sync
	FstflagsDefined    = 0xf  // atim, atim_now, mtim, mtim_now
	RiflagsDefined     = 0x3  // recv_peek, recv_waitall
	SiflagsDefined     = 0x0
	SdflagsDefined     = 0x3 // rd, wr
)

// Table lists the 46 functions in the order of the specification.
var Table = []Func{
	{Name: "args_get", Params: []Param{{Name: "argv", Role: PtrVecOut, Vec: "args", Pair: -1}, {Name: "argv_buf", Role: PtrVecBufOut, Vec: "args", Pair: -1}}},
	{Name: "args_sizes_get", Params: cat(out("result.argc", 4), out("result.argv_len", 4))},
	{Name: "environ_get", Params: []Param{{Name: "environ", Role: PtrVecOut, Vec: "environ", Pair: -1}, {Name: "environ_buf", Role: PtrVecBufOut, Vec: "environ", Pair: -1}}},
	{Name: "environ_sizes_get", Params: cat(out("result.environc", 4), out("result.environv_len", 4))},
	{Name: "clock_res_get", Params: cat(enum("id", 3), out("result.resolution", 8))},
	{Name: "clock_time_get", Params: cat(enum("id", 3), u64("precision", "precision"), out("result.timestamp", 8))},
	{Name: "fd_advise", Want: WantFile, Params: cat(fd(), u64("offset", "offset"), u64("len", "len"), enum("advice", 5))},
	{Name: "fd_allocate", Want: WantFile, Params: cat(fd(), u64("offset", "offset"), u64("len", "len"))},
	{Name: "fd_close", Want: WantAny, Params: cat(fd())},
	{Name: "fd_datasync", Want: WantFile, Params: cat(fd())},
	{Name: "fd_fdstat_get", Want: WantAny, Params: cat(fd(), out("result.stat", 24))},
	{Name: "fd_fdstat_set_flags", Want: WantFile, Params: cat(fd(), flags("flags", FdflagsDefined))},
	{Name: "fd_fdstat_set_rights", Want: WantAny, Stub: true, Params: cat(fd(), flags64("fs_rights_base"), flags64("fs_rights_inheriting"))},
	{Name: "fd_filestat_get", Want: WantAny, Params: cat(fd(), out("result.filestat", 64))},
	{Name: "fd_filestat_set_size", Want: WantFile, Params: cat(fd(), u64("size", "size"))},
	{Name: "fd_filestat_set_times", Want: WantFile, Params: cat(fd(), u64("atim", "timestamp"), u64("mtim", "timestamp"), flags("fst_flags", FstflagsDefined))},
	{Name: "fd_pread", Want: WantFile, Params: cat(fd(), iovs(1, "iovs", "iovs_len", true), u64("offset", "offset"), out("result.nread", 4))},
	{Name: "fd_prestat_get", Want: WantPreopen, Params: cat(fd(), out("result.prestat", 8))},
	{Name: "fd_prestat_dir_name", Want: WantPreopen, Params: cat(fd(), bufOut(1, "result.path", "result.path_len"))},
	{Name: "fd_pwrite", Want: WantFile, Params: cat(fd(), iovs(1, "iovs", "iovs_len", false), u64("offset", "offset"), out("result.nwritten", 4))},
	{Name: "fd_read", Want: WantFile, Params: cat(fd(), iovs(1, "iovs", "iovs_len", true), out("result.nread", 4))},
	{Name: "fd_readdir", Want: WantDir, Params: cat(fd(), bufOut(1, "buf", "buf_len"), u64("cookie", "cookie"), out("result.bufused", 4))},
	{Name: "fd_renumber", Want: WantFile, Params: cat(fd(), named(fd(), "to"))},
	{Name: "fd_seek", Want: WantFile, Params: cat(fd(), u64("offset", "offset"), enum("whence", 2), out("result.newoffset", 8))},
	{Name: "fd_sync", Want: WantFile, Params: cat(fd())},
	{Name: "fd_tell", Want: WantFile, Params: cat(fd(), out("result.offset", 8))},
	{Name: "fd_write", Want: WantFile, Params: cat(fd(), iovs(1, "iovs", "iovs_len", false), out("result.nwritten", 4))},
	{Name: "path_create_directory", Want: WantDir, Params: cat(fd(), path(1, "path", "path_len"))},
	{Name: "path_filestat_get", Want: WantDir, Params: cat(fd(), flags("flags", LookupFlagsDefined), path(2, "path", "path_len"), out("result.filestat", 64))},
	{Name: "path_filestat_set_times", Want: WantDir, Params: cat(fd(), flags("flags", LookupFlagsDefined), path(2, "path", "path_len"),
		u64("atim", "timestamp"), u64("mtim", "timestamp"), flags("fst_flags", FstflagsDefined))},
	{Name: "path_link", Want: WantDir, Params: cat(named(fd(), "old_fd"), flags("old_flags", LookupFlagsDefined), path(2, "old_path", "old_path_len"),
		named(fd(), "new_fd"), path(5, "new_path", "new_path_len"))},
	{Name: "path_open", Want: WantDir, Params: cat(fd(), flags("dirflags", LookupFlagsDefined), path(2, "path", "path_len"), flags("oflags", OflagsDefined),
		flags64("fs_rights_base"), flags64("fs_rights_inheriting"), flags("fdflags", FdflagsDefined), out("result.opened_fd", 4))},
	{Name: "path_readlink", Want: WantDir, Params: cat(fd(), path(1, "path", "path_len"), bufOut(3, "buf", "buf_len"), out("result.bufused", 4))},
	{Name: "path_remove_directory", Want: WantDir, Params: cat(fd(), path(1, "path", "path_len"))},
	{Name: "path_rename", Want: WantDir, Params: cat(fd(), path(1, "old_path", "old_path_len"), named(fd(), "new_fd"), path(4, "new_path", "new_path_len"))},
	{Name: "path_symlink", Want: WantDir, Params: cat(path(0, "old_path", "old_path_len"), fd(), path(3, "new_path", "new_path_len"))},
	{Name: "path_unlink_file", Want: WantDir, Params: cat(fd(), path(1, "path", "path_len"))},
	{Name: "poll_oneoff", Params: []Param{{Name: "in", Role: PtrSubs, Pair: 2}, {Name: "out", Role: PtrEvents, Pair: 2},
		{Name: "nsubscriptions", Role: CountSubs, Pair: 0}, out("result.nevents", 4)}},
	{Name: "proc_exit", NoRet: true, Params: cat(u32("rval", "exitcode"))},
	{Name: "proc_raise", Stub: true, Params: cat(u32("sig", "signal"))},
	{Name: "sched_yield"},
	{Name: "random_get", Params: cat(bufOut(0, "buf", "buf_len"))},
	{Name: "sock_accept", Want: WantListener, Params: cat(fd(), flags("flags", FdflagsDefined), out("result.fd", 4))},
	{Name: "sock_recv", Want: WantConn, Params: cat(fd(), iovs(1, "ri_data", "ri_data_len", true), flags("ri_flags", RiflagsDefined),
		out("result.ro_datalen", 4), out("result.ro_flags", 2))},
	{Name: "sock_send", Want: WantConn, Params: cat(fd(), iovs(1, "si_data", "si_data_len", false), flags("si_flags", SiflagsDefined), out("result.so_datalen", 4))},
	{Name: "sock_shutdown", Want: WantConn, Params: cat(fd(), flags("how", SdflagsDefined))},
}

// ByName indexes Table.
var ByName = func() map[string]*Func {
	m := map[string]*Func{}
	for i := range Table {
		m[Table[i].Name] = &Table[i]
	}
	return m
}()

// Region is a range of guest addresses (64-bit arithmetic: it may extend past the memory).
type Region struct {
	Off uint64 `json:"off"`
	Len uint64 `json:"len"`
	Why string `json:"why"`
	// Fixed marks a fixed-size result: it is stored as a whole or not at all, so when it does not lie
	// fully inside the memory it designates nothing (no partial store before the fault).
	Fixed bool `json:"fixed,omitempty"`
}

// Env is what the output sizes of args_get/environ_get depend on.
type Env struct {
	Argc, ArgvBytes, Environc, EnvironBytes uint32
}

// Sizes of the structures involved.
const (
	IovecSize        = 8
	SubscriptionSize = 48
	EventSize        = 32
)

// OutputRegions returns the regions of guest memory the call may write, given its arguments
// and the contents of guest memory before the call (for iovec arrays). Regions are computed
// without 32-bit wrap-around and are not clipped to the memory; the caller clips.
func (f *Func) OutputRegions(args []uint64, mem []byte, env Env) []Region {
	var rs []Region
	for i, p := range f.Params {
		if i >= len(args) {
			break
		}
		a := uint64(uint32(args[i]))
		switch p.Role {
		case PtrOut:
			rs = append(rs, Region{Off: a, Len: uint64(p.Size), Why: p.Name, Fixed: true})
		case PtrBufOut:
			rs = append(rs, Region{Off: a, Len: uint64(uint32(args[p.Pair])), Why: p.Name})
		case PtrEvents:
			rs = append(rs, Region{Off: a, Len: uint64(uint32(args[p.Pair])) * EventSize, Why: p.Name})
		case PtrVecOut:
			n := env.Argc
			if p.Vec == "environ" {
				n = env.Environc
			}
			rs = append(rs, Region{Off: a, Len: uint64(n) * 4, Why: p.Name})
		case PtrVecBufOut:
			n := env.ArgvBytes
			if p.Vec == "environ" {
				n = env.EnvironBytes
			}
			rs = append(rs, Region{Off: a, Len: uint64(n), Why: p.Name})
		case PtrIovsOut:
			count := uint64(uint32(args[p.Pair]))
			for k := uint64(0); k < count; k++ {
				at := a + k*IovecSize
				if at+IovecSize > uint64(len(mem)) {
					break // this and all later iovecs are not (fully) in memory: nothing designated
				}
				buf := binary.LittleEndian.Uint32(mem[at:])
				l := binary.LittleEndian.Uint32(mem[at+4:])
				if l != 0 {
					rs = append(rs, Region{Off: uint64(buf), Len: uint64(l), Why: p.Name + "[]"})
				}
			}
		}
	}
	return rs
}
