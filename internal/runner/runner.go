// Package runner executes a generated module with a call script on one engine and records
// its canonical observable behaviour (a Trace) for differential / metamorphic comparison.
package runner

import (
	"context"
	"crypto/sha256"
	"encoding/hex"
	"fmt"
	"runtime"
	"strings"
	"time"

	"github.com/tetratelabs/wazero"
	"github.com/tetratelabs/wazero/api"
	"github.com/tetratelabs/wazero/experimental/table"
	"github.com/tetratelabs/wazero/sys"

	"verif/internal/wasmgen"
	"verif/internal/wz"
)

// Call is one step of a script: call export Fn with Args (raw bits, one per parameter; v128
// takes two entries).
type Call struct {
	Fn   string   `json:"fn"`
	Args []uint64 `json:"args"`
}

// Step is the observed outcome of a call.
type Step struct {
	Kind    string   `json:"kind"`
	Detail  string   `json:"detail,omitempty"`
	Exit    uint32   `json:"exit,omitempty"`
	Results []uint64 `json:"results,omitempty"`
}

// Trace is everything the properties call "observable".
type Trace struct {
	Inst     wz.Outcome `json:"inst"`
	Steps    []Step     `json:"steps"`
	HostLog  []string   `json:"hostlog"`
	MemPages uint32     `json:"mempages"`
	MemHash  string     `json:"memhash"`
	Globals  []string   `json:"globals"`
	Tables   []string   `json:"tables"`
}

// Options tune a run.
type Options struct {
	FuelPerCall int32 // value the fuel global is reset to before every call (0 = leave)
	ModuleCfg   wazero.ModuleConfig
	Ctx         context.Context
	KeepOpen    bool // do not close the runtime (caller does)
	NoFinal     bool // skip final-state capture
	// Hook, if set, is called after instantiation (before the script).
	Hook func(mod api.Module)
	// Lib, if set, is instantiated first under the name "lib" (the main module imports from it).
	Lib *wasmgen.Module
	// CancelAfterCall gives every call a context of its own that is cancelled once the call has
	// returned (the `defer cancel()` idiom): nothing is cancelled while guest code runs.
	CancelAfterCall bool
}

// Host implements the deterministic environment: imported functions return values computed
// from their arguments and the number of calls so far, and log every call.
// GlobalLog collects, in global order, what several hosts (instances) report.
type GlobalLog struct {
	Entered []string // "<module name>.<function index>" per enter() report
	Calls   []string // host function calls "<name>(args)->results"
}

type Host struct {
	Global  *GlobalLog // optional sink shared by several hosts
	Log     []string   // log of the most recently used module (kept for single-instance runs)
	MaxLog  int
	mod     *wasmgen.Module
	nesting int
	per     map[api.Module]*modState
	cur     *modState
	// Foreign lists host-function calls that reached this Host although the calling guest was
	// instantiated through a session that owns a different Host (another runtime's host module):
	// an isolation failure between runtimes (C11).
	Foreign []string
}

type hostKey struct{}

// arrive checks that the call was made by a guest of a session served by this Host.
func (h *Host) arrive(ctx context.Context, fn string) {
	if o, _ := ctx.Value(hostKey{}).(*Host); o != nil && o != h && len(h.Foreign) < 8 {
		h.Foreign = append(h.Foreign, fn)
		o.Foreign = append(o.Foreign, fn)
	}
}

// modState is the host-side state of one calling instance: the host functions behave as
// pure functions of (arguments, number of calls made by that instance).
type modState struct {
	calls   uint64
	log     []string
	entered []uint32 // function indices reported by the generator's enter hook (C20 ground truth)
}

func (h *Host) state(mod api.Module) *modState {
	if h.per == nil {
		h.per = map[api.Module]*modState{}
	}
	st := h.per[mod]
	if st == nil {
		st = &modState{}
		h.per[mod] = st
	}
	h.cur = st
	return st
}

// EnteredOf returns the sequence of function entries reported by the enter hook.
func (h *Host) EnteredOf(mod api.Module) []uint32 {
	if st := h.per[mod]; st != nil {
		return st.entered
	}
	return nil
}

// LogOf returns the host-call log of one instance.
func (h *Host) LogOf(mod api.Module) []string {
	if st := h.per[mod]; st != nil {
		return st.log
	}
	return nil
}

func mix(x uint64) uint64 {
	x ^= x >> 33
	x *= 0xff51afd7ed558ccd
	x ^= x >> 33
	x *= 0xc4ceb9fe1a85ec53
	x ^= x >> 33
	return x
}

func (h *Host) log(st *modState, s string) {
	if h.MaxLog == 0 || len(st.log) < h.MaxLog {
		st.log = append(st.log, s)
	}
}

// Instantiate creates the "env" host module for the module's imports in rt.
func (h *Host) Instantiate(ctx context.Context, rt wazero.Runtime, m *wasmgen.Module) error {
	h.mod = m
	imps := m.HostImports()
	b := rt.NewHostModuleBuilder(hostModule(m))
	n := 0
	for _, f := range imps {
		if strings.HasPrefix(f.HostName, "wasi:") || strings.HasPrefix(f.HostName, "lib:") {
			continue
		}
		f := f
		n++
		var fn api.GoModuleFunction
		var gfn api.GoFunction
		switch f.HostName {
		case "enter":
			fn = api.GoModuleFunc(func(ctx context.Context, mod api.Module, stack []uint64) {
				h.arrive(ctx, "enter")
				st := h.state(mod)
				if len(st.entered) < 100000 {
					st.entered = append(st.entered, uint32(stack[0]))
				}
				if h.Global != nil {
					h.Global.Entered = append(h.Global.Entered, fmt.Sprintf("%s.%d", mod.Name(), uint32(stack[0])))
				}
			})
		case "grow":
			fn = api.GoModuleFunc(func(ctx context.Context, mod api.Module, stack []uint64) {
				h.arrive(ctx, "grow")
				d := uint32(stack[0]) & 1
				h.log(h.state(mod), fmt.Sprintf("grow(%d)", d))
				res := uint32(0xffffffff)
				if m.HasMemory {
					if prev, ok := mod.Memory().Grow(d); ok {
						res = prev
					}
				}
				stack[0] = uint64(res)
			})
		case "closer":
			fn = api.GoModuleFunc(func(ctx context.Context, mod api.Module, stack []uint64) {
				h.arrive(ctx, "closer")
				arg := uint32(stack[0])
				h.log(h.state(mod), fmt.Sprintf("closer(%d)", arg))
				if h.Global != nil && arg&7 != 1 { // (a call that ends by unwinding has no results to record)
					h.Global.Calls = append(h.Global.Calls, fmt.Sprintf("closer(%x,)->0,", arg))
				}
				if arg&7 == 0 {
					// closes the calling module and returns normally: the guest keeps running until it
					// reaches a termination check (close-on-context-done runtimes) or returns
					_ = mod.CloseWithExitCode(ctx, 7)
				}
				if arg&7 == 1 {
					// the way WASI proc_exit ends a guest: close the caller, then unwind with the exit error
					_ = mod.CloseWithExitCode(ctx, 9)
					panic(sys.NewExitError(9))
				}
				stack[0] = 0
			})
		case "callback":
			fn = api.GoModuleFunc(func(ctx context.Context, mod api.Module, stack []uint64) {
				h.arrive(ctx, "callback")
				arg := uint32(stack[0])
				h.log(h.state(mod), fmt.Sprintf("callback(%d)", arg))
				stack[0] = 0
				if h.nesting >= 6 {
					return
				}
				// call back into the first exported ()->() function, if any
				for _, e := range m.Exports() {
					if len(e.Sig.P) == 0 && len(e.Sig.R) == 0 {
						h.nesting++
						_, err := mod.ExportedFunction(e.Export).Call(ctx)
						h.nesting--
						if err != nil {
							panic(err) // propagate the guest's failure through the host frame
						}
						stack[0] = 1
						break
					}
				}
			})
		default:
			if len(f.HostName) > 1 && (f.HostName[len(f.HostName)-1]-'0')%3 == 1 {
				// every third plain host function is an api.GoFunction (no module parameter: the
				// engines call it through a different path): a pure function of its arguments,
				// logged only in the global log since the calling instance is unknown to it
				gfn = api.GoFunc(func(ctx context.Context, stack []uint64) {
					h.arrive(ctx, f.HostName)
					acc := uint64(0x51ed270b9e3779b9)
					var sb strings.Builder
					sb.WriteString(f.HostName)
					sb.WriteByte('(')
					for i, p := range f.Sig.P {
						v := stack[i]
						if p == wasmgen.I32 || p == wasmgen.F32 {
							v &= 0xffffffff
						}
						fmt.Fprintf(&sb, "%x,", v)
						acc = mix(acc ^ v)
					}
					sb.WriteString(")->")
					for i, r := range f.Sig.R {
						v := mix(acc + uint64(i))
						switch r {
						case wasmgen.I32, wasmgen.F32:
							v &= 0xffffffff
						case wasmgen.ExternRef:
							v &= 0xff
						}
						stack[i] = v
						fmt.Fprintf(&sb, "%x,", v)
					}
					if h.Global != nil {
						h.Global.Calls = append(h.Global.Calls, sb.String())
					}
				})
				break
			}
			fn = api.GoModuleFunc(func(ctx context.Context, mod api.Module, stack []uint64) {
				h.arrive(ctx, f.HostName)
				st := h.state(mod)
				st.calls++
				acc := st.calls * 0x9e3779b97f4a7c15
				var sb strings.Builder
				sb.WriteString(f.HostName)
				sb.WriteByte('(')
				for i, p := range f.Sig.P {
					v := stack[i]
					if p == wasmgen.I32 || p == wasmgen.F32 {
						v &= 0xffffffff
					}
					fmt.Fprintf(&sb, "%x,", v)
					acc = mix(acc ^ v)
				}
				sb.WriteString(")->")
				for i, r := range f.Sig.R {
					v := mix(acc + uint64(i))
					switch r {
					case wasmgen.I32, wasmgen.F32:
						v &= 0xffffffff
					case wasmgen.ExternRef:
						v &= 0xff
					}
					stack[i] = v
					fmt.Fprintf(&sb, "%x,", v)
				}
				h.log(st, sb.String())
				if h.Global != nil {
					h.Global.Calls = append(h.Global.Calls, sb.String())
				}
			})
		}
		if fn == nil {
			b = b.NewFunctionBuilder().WithGoFunction(gfn, f.Sig.P, f.Sig.R).Export(f.HostName)
			continue
		}
		b = b.NewFunctionBuilder().WithGoModuleFunction(fn, f.Sig.P, f.Sig.R).Export(f.HostName)
	}
	if n == 0 {
		return nil
	}
	_, err := b.Instantiate(ctx)
	return err
}

// Run instantiates m in a fresh runtime created from cfg and executes the script.
func Run(cfg wazero.RuntimeConfig, m *wasmgen.Module, script []Call, opt Options) (tr Trace) {
	ctx := opt.Ctx
	if ctx == nil {
		ctx = context.Background()
	}
	rt := wazero.NewRuntimeWithConfig(ctx, cfg)
	if !opt.KeepOpen {
		defer rt.Close(ctx)
	}
	return RunIn(ctx, rt, m, script, opt)
}

// RunIn is Run inside an existing runtime (the module is instantiated anonymously).
func RunIn(ctx context.Context, rt wazero.Runtime, m *wasmgen.Module, script []Call, opt Options) (tr Trace) {
	h := &Host{MaxLog: 2000}
	if rt.Module(hostModule(m)) == nil {
		if err := h.Instantiate(ctx, rt, m); err != nil {
			tr.Inst = wz.Outcome{Kind: wz.KOther, Detail: "host module: " + err.Error()}
			return
		}
	}
	var libFuel api.MutableGlobal
	if opt.Lib != nil {
		hl := &Host{MaxLog: 2000}
		if rt.Module(hostModule(opt.Lib)) == nil {
			if err := hl.Instantiate(ctx, rt, opt.Lib); err != nil {
				tr.Inst = wz.Outcome{Kind: wz.KOther, Detail: "lib host module: " + err.Error()}
				return
			}
		}
		var lerr error
		func() {
			defer func() {
				if r := recover(); r != nil {
					lerr = fmt.Errorf("panic escaped Instantiate(lib): %v", r)
				}
			}()
			var lm api.Module
			lm, lerr = rt.InstantiateWithConfig(ctx, opt.Lib.Bytes, wazero.NewModuleConfig().WithName("lib").WithStartFunctions())
			if lerr == nil && opt.Lib.FuelGlob != "" {
				libFuel, _ = lm.ExportedGlobal(opt.Lib.FuelGlob).(api.MutableGlobal)
			}
		}()
		if lerr != nil {
			o := wz.Classify(lerr)
			tr.Inst = wz.Outcome{Kind: "lib-failed", Detail: o.String()}
			if o.Kind == wz.KInternal || strings.HasPrefix(lerr.Error(), "panic escaped") {
				tr.Inst = wz.Outcome{Kind: wz.KInternal, Detail: "lib: " + firstLine(lerr)}
			}
			return
		}
	}
	mc := opt.ModuleCfg
	if mc == nil {
		mc = wazero.NewModuleConfig()
	}
	mc = mc.WithName("").WithStartFunctions()
	var mod api.Module
	func() {
		defer func() {
			if r := recover(); r != nil {
				tr.Inst = wz.Outcome{Kind: wz.KInternal, Detail: fmt.Sprintf("panic escaped Instantiate: %v", r)}
			}
		}()
		cm, err := rt.CompileModule(ctx, m.Bytes)
		if err != nil {
			tr.Inst = wz.Outcome{Kind: wz.KOther, Detail: "compile: " + firstLine(err)}
			return
		}
		mod, err = rt.InstantiateModule(ctx, cm, mc)
		tr.Inst = wz.Classify(err)
	}()
	if h.cur != nil {
		tr.HostLog = h.cur.log // calls made by the start function
	}
	if mod == nil || tr.Inst.Kind != wz.KOK {
		if tr.Inst.Kind == wz.KOK {
			tr.Inst = wz.Outcome{Kind: wz.KOther, Detail: "nil module"}
		}
		return
	}
	if opt.Hook != nil {
		opt.Hook(mod)
	}
	sigs := map[string]wasmgen.Sig{}
	for _, e := range m.Exports() {
		sigs[e.Export] = e.Sig
	}
	var fuel api.MutableGlobal
	if m.FuelGlob != "" {
		fuel, _ = mod.ExportedGlobal(m.FuelGlob).(api.MutableGlobal)
	}
	// One api.Function handle per export is kept for the whole script (the common embedding
	// pattern): state that a call engine wrongly carries from one call to the next is only
	// visible this way.
	handles := map[string]api.Function{}
	for _, c := range script {
		f := handles[c.Fn]
		if f == nil {
			f = mod.ExportedFunction(c.Fn)
			handles[c.Fn] = f
		}
		if f == nil {
			tr.Steps = append(tr.Steps, Step{Kind: "no-such-export"})
			continue
		}
		if fuel != nil && opt.FuelPerCall > 0 {
			fuel.Set(uint64(uint32(opt.FuelPerCall)))
		}
		if libFuel != nil && opt.FuelPerCall > 0 {
			libFuel.Set(uint64(uint32(opt.FuelPerCall)))
		}
		cctx, cancel := ctx, context.CancelFunc(nil)
		if opt.CancelAfterCall {
			cctx, cancel = context.WithCancel(ctx)
		}
		res, out := wz.SafeCall(cctx, f, c.Args...)
		if cancel != nil {
			cancel()
			// let anything that (wrongly) still watches the finished call's context run
			runtime.Gosched()
			if out.Kind != wz.KOK {
				time.Sleep(300 * time.Microsecond)
			}
		}
		st := Step{Kind: out.Kind, Detail: out.Detail, Exit: out.Exit}
		if out.Kind == wz.KOK {
			st.Results = canonResults(sigs[c.Fn].R, res)
		}
		tr.Steps = append(tr.Steps, st)
	}
	tr.HostLog = h.LogOf(mod)
	if !opt.NoFinal {
		Final(ctx, mod, m, &tr)
	}
	return
}

func hostModule(m *wasmgen.Module) string {
	if m.HostModule != "" {
		return m.HostModule
	}
	return "env"
}

func firstLine(err error) string { return strings.SplitN(err.Error(), "\n", 2)[0] }

// canonResults masks 32-bit values and reduces funcref results (opaque pointers) to nullness.
func canonResults(rt []byte, res []uint64) []uint64 {
	out := make([]uint64, 0, len(res))
	i := 0
	for _, t := range rt {
		if i >= len(res) {
			break
		}
		switch t {
		case wasmgen.I32, wasmgen.F32:
			out = append(out, res[i]&0xffffffff)
		case wasmgen.FuncRef:
			if res[i] != 0 {
				out = append(out, 1)
			} else {
				out = append(out, 0)
			}
		case wasmgen.V128:
			out = append(out, res[i])
			i++
			if i < len(res) {
				out = append(out, res[i])
			}
		default:
			out = append(out, res[i])
		}
		i++
	}
	return out
}

// Final captures memory, globals and tables of mod into tr.
func Final(ctx context.Context, mod api.Module, m *wasmgen.Module, tr *Trace) {
	if m.HasMemory {
		mem := mod.ExportedMemory("memory")
		pages, _ := mem.Grow(0)
		tr.MemPages = pages
		h := sha256.New()
		const chunk = 1 << 20
		total := uint64(pages) * 65536
		if total <= 64<<20 {
			for off := uint64(0); off < total; off += chunk {
				n := uint64(chunk)
				if total-off < n {
					n = total - off
				}
				b, ok := mem.Read(uint32(off), uint32(n))
				if !ok {
					h.Write([]byte("unreadable"))
					break
				}
				h.Write(b)
			}
		} else {
			// big memories: first and last MiB and every 256th page
			for p := uint64(0); p < uint64(pages); p += 256 {
				b, _ := mem.Read(uint32(p*65536), 65536)
				h.Write(b)
			}
			b, _ := mem.Read(uint32(total-65536), 65536)
			h.Write(b)
		}
		tr.MemHash = hex.EncodeToString(h.Sum(nil)[:12])
	}
	call := func(name string, args ...uint64) string {
		f := mod.ExportedFunction(name)
		if f == nil {
			return "-"
		}
		r, err := f.Call(ctx, args...)
		if err != nil {
			return "err:" + firstLine(err)
		}
		if len(r) == 0 {
			return ""
		}
		return fmt.Sprintf("%x", r[0])
	}
	globals := m.Globals
	if m.Sink != nil {
		globals = append(append([]wasmgen.GlobalInfo{}, globals...), *m.Sink)
	}
	for _, g := range globals {
		eg := mod.ExportedGlobal(g.Export)
		if eg == nil {
			tr.Globals = append(tr.Globals, "missing")
			continue
		}
		switch g.Type {
		case wasmgen.V128:
			tr.Globals = append(tr.Globals, call(fmt.Sprintf("glo%d", g.Index))+":"+call(fmt.Sprintf("ghi%d", g.Index)))
		case wasmgen.FuncRef:
			tr.Globals = append(tr.Globals, "null="+call(fmt.Sprintf("gnull%d", g.Index)))
		case wasmgen.I32, wasmgen.F32:
			tr.Globals = append(tr.Globals, fmt.Sprintf("%x", eg.Get()&0xffffffff))
		default:
			tr.Globals = append(tr.Globals, fmt.Sprintf("%x", eg.Get()))
		}
	}
	// tables: size and per slot null-ness / function identity
	var types []wasmgen.Sig
	seen := map[string]bool{}
	for _, f := range m.Funcs {
		k := string(f.Sig.P) + "|" + string(f.Sig.R)
		if !seen[k] {
			seen[k] = true
			types = append(types, f.Sig)
		}
	}
	for _, t := range m.Tables {
		szs := call(fmt.Sprintf("tsize%d", t.Index))
		if szs == "-" { // no helper (feature set without table.size): skip
			continue
		}
		var size uint64
		fmt.Sscanf(szs, "%x", &size)
		var sb strings.Builder
		fmt.Fprintf(&sb, "t%d[%d]:", t.Index, size)
		for i := uint64(0); i < size && i < 64; i++ {
			null := call(fmt.Sprintf("tnull%d", t.Index), i)
			if null != "0" {
				sb.WriteString("_ ")
				continue
			}
			if t.Elem != wasmgen.FuncRef {
				sb.WriteString("x ")
				continue
			}
			sb.WriteString(funcIdentity(mod, t.Index, uint32(i), types) + " ")
		}
		tr.Tables = append(tr.Tables, sb.String())
	}
}

func funcIdentity(mod api.Module, ti, slot uint32, types []wasmgen.Sig) string {
	for _, s := range types {
		id := func() (id string) {
			defer func() {
				if recover() != nil {
					id = ""
				}
			}()
			f := table.LookupFunction(mod, ti, slot, s.P, s.R)
			d := f.Definition()
			if d.GoFunction() != nil || strings.HasPrefix(d.ModuleName(), "env") {
				return "imp" // host functions: experimental LookupFunction is unreliable for them
			}
			return fmt.Sprintf("%s.%d", d.ModuleName(), d.Index())
		}()
		if id != "" {
			return id
		}
	}
	return "imp" // every lookup panicked: a host function (LookupFunction does not support them reliably)
}

// Diff returns a description of the first difference between two traces ("" if equal).
func Diff(a, b *Trace, an, bn string) string {
	if a.Inst != b.Inst {
		return fmt.Sprintf("instantiation: %s=%v %s=%v", an, a.Inst, bn, b.Inst)
	}
	if len(a.Steps) != len(b.Steps) {
		return fmt.Sprintf("number of steps: %d vs %d", len(a.Steps), len(b.Steps))
	}
	for i := range a.Steps {
		x, y := a.Steps[i], b.Steps[i]
		if x.Kind != y.Kind || x.Detail != y.Detail || x.Exit != y.Exit || !eqU64(x.Results, y.Results) {
			return fmt.Sprintf("step %d: %s=%s %s=%s", i, an, x.String(), bn, y.String())
		}
	}
	if len(a.HostLog) != len(b.HostLog) {
		return fmt.Sprintf("host call log length: %s=%d %s=%d", an, len(a.HostLog), bn, len(b.HostLog))
	}
	for i := range a.HostLog {
		if a.HostLog[i] != b.HostLog[i] {
			return fmt.Sprintf("host call %d: %s=%s %s=%s", i, an, a.HostLog[i], bn, b.HostLog[i])
		}
	}
	if a.MemPages != b.MemPages {
		return fmt.Sprintf("final memory pages: %s=%d %s=%d", an, a.MemPages, bn, b.MemPages)
	}
	if a.MemHash != b.MemHash {
		return fmt.Sprintf("final memory contents differ: %s=%s %s=%s", an, a.MemHash, bn, b.MemHash)
	}
	if fmt.Sprint(a.Globals) != fmt.Sprint(b.Globals) {
		return fmt.Sprintf("final globals: %s=%v %s=%v", an, a.Globals, bn, b.Globals)
	}
	if fmt.Sprint(a.Tables) != fmt.Sprint(b.Tables) {
		return fmt.Sprintf("final tables: %s=%v %s=%v", an, a.Tables, bn, b.Tables)
	}
	return ""
}

func (s Step) String() string {
	switch s.Kind {
	case wz.KOK:
		return fmt.Sprintf("ok%x", s.Results)
	case wz.KExit:
		return fmt.Sprintf("exit(%d)", s.Exit)
	}
	return s.Kind + ":" + s.Detail
}

func eqU64(a, b []uint64) bool {
	if len(a) != len(b) {
		return false
	}
	for i := range a {
		if a[i] != b[i] {
			return false
		}
	}
	return true
}

// HasKind reports whether any step (or instantiation) has the given kind.
func (t *Trace) HasKind(k string) bool {
	if t.Inst.Kind == k {
		return true
	}
	for _, s := range t.Steps {
		if s.Kind == k {
			return true
		}
	}
	return false
}

// ---- multi-instance sessions (C11) ----

// Session holds one runtime, the host environment and one compiled module from which
// several instances can be created and driven step by step.
type Session struct {
	RT        wazero.Runtime
	Host      *Host
	served    *Host // the Host whose host module the guests of this session import
	CM        wazero.CompiledModule
	FromBytes bool // instantiate from the binary (code closes with the instance) instead of the kept CompiledModule
	M         *wasmgen.Module
	sigs      map[string]wasmgen.Sig
}

// NewSession compiles m in rt and instantiates the host environment (once per runtime).
func NewSession(ctx context.Context, rt wazero.Runtime, m *wasmgen.Module) (*Session, error) {
	s := &Session{RT: rt, Host: &Host{MaxLog: 2000}, M: m, sigs: map[string]wasmgen.Sig{}}
	if hm := rt.Module(hostModule(m)); hm == nil {
		if err := s.Host.Instantiate(ctx, rt, m); err != nil {
			return nil, err
		}
		s.served = s.Host
	} // (otherwise another session's Host serves this runtime: calls are not attributed)
	cm, err := rt.CompileModule(ctx, m.Bytes)
	if err != nil {
		return nil, err
	}
	s.CM = cm
	for _, e := range m.Exports() {
		s.sigs[e.Export] = e.Sig
	}
	return s, nil
}

// Inst is one instance of a session.
type Inst struct {
	S    *Session
	Mod  api.Module
	Tr   Trace
	fuel api.MutableGlobal
	fns  map[string]api.Function // one handle per export, reused across calls
}

// Instantiate creates an anonymous instance with the given module config (nil = default).
func (s *Session) Instantiate(ctx context.Context, mc wazero.ModuleConfig) *Inst {
	return s.InstantiateNamed(ctx, mc, "")
}

// ResetFuel refills the instance's fuel global.
func (in *Inst) ResetFuel(fuel int32) {
	if in.Mod != nil && in.fuel != nil && fuel > 0 && !in.Mod.IsClosed() {
		in.fuel.Set(uint64(uint32(fuel)))
	}
}

// InstantiateNamed creates an instance under the given name ("" = anonymous).
func (s *Session) InstantiateNamed(ctx context.Context, mc wazero.ModuleConfig, name string) *Inst {
	if mc == nil {
		mc = wazero.NewModuleConfig()
	}
	in := &Inst{S: s}
	if s.served != nil {
		ctx = context.WithValue(ctx, hostKey{}, s.served)
	}
	func() {
		defer func() {
			if r := recover(); r != nil {
				in.Tr.Inst = wz.Outcome{Kind: wz.KInternal, Detail: fmt.Sprintf("panic escaped Instantiate: %v", r)}
			}
		}()
		s.Host.cur = nil
		var mod api.Module
		var err error
		if s.FromBytes {
			// Runtime.InstantiateWithConfig: the compiled code is owned by the instance and is
			// released when the instance is closed (also when it closes itself mid-call)
			mod, err = s.RT.InstantiateWithConfig(ctx, s.M.Bytes, mc.WithName(name).WithStartFunctions())
		} else {
			mod, err = s.RT.InstantiateModule(ctx, s.CM, mc.WithName(name).WithStartFunctions())
		}
		in.Tr.Inst = wz.Classify(err)
		if err == nil {
			in.Mod = mod
		}
	}()
	if in.Mod == nil {
		if s.Host.cur != nil {
			in.Tr.HostLog = s.Host.cur.log
		}
		return in
	}
	if s.M.FuelGlob != "" {
		in.fuel, _ = in.Mod.ExportedGlobal(s.M.FuelGlob).(api.MutableGlobal)
	}
	return in
}

// Call performs one script step on the instance.
func (in *Inst) Call(ctx context.Context, c Call, fuel int32) {
	if in.Mod == nil {
		return
	}
	f := in.fns[c.Fn]
	if f == nil {
		f = in.Mod.ExportedFunction(c.Fn)
		if in.fns == nil {
			in.fns = map[string]api.Function{}
		}
		in.fns[c.Fn] = f
	}
	if f == nil {
		in.Tr.Steps = append(in.Tr.Steps, Step{Kind: "no-such-export"})
		return
	}
	if in.fuel != nil && fuel > 0 && !in.Mod.IsClosed() {
		in.fuel.Set(uint64(uint32(fuel)))
	}
	if in.S.served != nil {
		ctx = context.WithValue(ctx, hostKey{}, in.S.served)
	}
	res, out := wz.SafeCall(ctx, f, c.Args...)
	st := Step{Kind: out.Kind, Detail: out.Detail, Exit: out.Exit}
	if out.Kind == wz.KOK {
		st.Results = canonResults(in.S.sigs[c.Fn].R, res)
	}
	in.Tr.Steps = append(in.Tr.Steps, st)
}

// Finish captures the final state and the instance's host log.
func (in *Inst) Finish(ctx context.Context) *Trace {
	if in.Mod != nil {
		in.Tr.HostLog = in.S.Host.LogOf(in.Mod)
		if !in.Mod.IsClosed() {
			Final(ctx, in.Mod, in.S.M, &in.Tr)
		}
	}
	return &in.Tr
}
