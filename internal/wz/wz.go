// Package wz holds helpers shared by the checks for driving wazero through its public API:
// engine selection and classification of returned errors into kinds.
package wz

import (
	"context"
	"errors"
	"fmt"
	"runtime"
	"strings"

	"github.com/tetratelabs/wazero"
	"github.com/tetratelabs/wazero/api"
	"github.com/tetratelabs/wazero/experimental"
	"github.com/tetratelabs/wazero/sys"
)

// Engines lists the two engine names.
var Engines = []string{"interpreter", "compiler"}

// AllFeatures is the feature set of property C01.
const AllFeatures = api.CoreFeaturesV2 | experimental.CoreFeaturesThreads | experimental.CoreFeaturesTailCall

// Config returns a fresh RuntimeConfig for the engine with all features enabled.
func Config(engine string) wazero.RuntimeConfig {
	var c wazero.RuntimeConfig
	if engine == "compiler" {
		c = wazero.NewRuntimeConfigCompiler()
	} else {
		c = wazero.NewRuntimeConfigInterpreter()
	}
	return c.WithCoreFeatures(AllFeatures)
}

// Kinds of outcome of a call.
const (
	KOK       = "ok"
	KExit     = "exit"           // sys.ExitError
	KTrap     = "trap"           // wasm error: <kind>; detail in Outcome.Detail
	KStack    = "stack-overflow" // call-stack exhaustion
	KPanic    = "host-panic"     // host function panicked with a non-runtime value
	KInternal = "internal"       // Go runtime error / BUG inside wazero: never acceptable
	KOther    = "error"          // any other error (link error, closed, ...)
)

// Outcome classifies an error returned by wazero.
type Outcome struct {
	Kind   string `json:"kind"`
	Detail string `json:"detail,omitempty"`
	Exit   uint32 `json:"exit,omitempty"`
}

func (o Outcome) String() string {
	switch o.Kind {
	case KExit:
		return fmt.Sprintf("exit(%d)", o.Exit)
	case KOK:
		return "ok"
	}
	return o.Kind + ":" + o.Detail
}

var trapKinds = []string{
	"unreachable", "out of bounds memory access", "invalid table access", "indirect call type mismatch",
	"integer divide by zero", "integer overflow", "invalid conversion to integer", "unaligned atomic",
	"expected shared memory", "too many waiters",
}

// Classify maps an error from Call/Instantiate to an Outcome. Error text beyond the first
// line (stack traces) is ignored.
func Classify(err error) Outcome {
	if err == nil {
		return Outcome{Kind: KOK}
	}
	var ee *sys.ExitError
	if errors.As(err, &ee) {
		return Outcome{Kind: KExit, Exit: ee.ExitCode()}
	}
	msg := err.Error()
	first := strings.SplitN(msg, "\n", 2)[0]
	var re runtime.Error
	if errors.As(err, &re) {
		return Outcome{Kind: KInternal, Detail: first}
	}
	if strings.Contains(msg, "BUG") || strings.Contains(first, "runtime error:") {
		return Outcome{Kind: KInternal, Detail: first}
	}
	if strings.Contains(first, "stack overflow") {
		return Outcome{Kind: KStack}
	}
	if i := strings.Index(first, "wasm error: "); i >= 0 { // may be prefixed, e.g. by "start function[..] failed: "
		d := first[i+len("wasm error: "):]
		for _, k := range trapKinds {
			if d == k {
				return Outcome{Kind: KTrap, Detail: k}
			}
		}
		return Outcome{Kind: KTrap, Detail: d}
	}
	if strings.Contains(first, "(recovered by wazero)") {
		return Outcome{Kind: KPanic, Detail: strings.TrimSuffix(first, " (recovered by wazero)")}
	}
	return Outcome{Kind: KOther, Detail: first}
}

// SafeCall calls f and converts a panic escaping the API into an "internal" outcome.
func SafeCall(ctx context.Context, f api.Function, args ...uint64) (res []uint64, out Outcome) {
	defer func() {
		if r := recover(); r != nil {
			out = Outcome{Kind: KInternal, Detail: fmt.Sprintf("panic escaped Call: %v", r)}
		}
	}()
	r, err := f.Call(ctx, args...)
	return r, Classify(err)
}

// Safely runs fn converting an escaping panic into an error tagged as internal.
func Safely(fn func() error) (err error, panicked any) {
	defer func() {
		if r := recover(); r != nil {
			panicked = r
		}
	}()
	return fn(), nil
}
