// Package wasiproxy builds a guest module that imports every function exported by wazero's
// wasi_snapshot_preview1 host module and exports one forwarding wrapper per function, so that
// checks can issue WASI calls that originate in a real guest with its own linear memory.
package wasiproxy

import (
	"context"
	"fmt"
	"sort"

	"github.com/tetratelabs/wazero"
	"github.com/tetratelabs/wazero/api"
	"github.com/tetratelabs/wazero/imports/wasi_snapshot_preview1"

	"verif/internal/wasmenc"
	"verif/internal/wz"
)

// Sig is a WASI function signature.
type Sig struct {
	Name       string
	Params     []api.ValueType
	ParamNames []string
	Results    []api.ValueType
}

// Proxy is an instantiated proxy guest.
type Proxy struct {
	RT    wazero.Runtime
	Mod   api.Module
	Mem   api.Memory
	Sigs  map[string]Sig
	Names []string
}

// Signatures instantiates WASI in rt (if not yet) and returns the exported signatures.
func Signatures(ctx context.Context, rt wazero.Runtime) (map[string]Sig, []string, error) {
	m := rt.Module(wasi_snapshot_preview1.ModuleName)
	if m == nil {
		if _, err := wasi_snapshot_preview1.Instantiate(ctx, rt); err != nil {
			return nil, nil, err
		}
		m = rt.Module(wasi_snapshot_preview1.ModuleName)
	}
	sigs := map[string]Sig{}
	var names []string
	for name, d := range m.ExportedFunctionDefinitions() {
		sigs[name] = Sig{Name: name, Params: d.ParamTypes(), ParamNames: d.ParamNames(), Results: d.ResultTypes()}
		names = append(names, name)
	}
	sort.Strings(names)
	return sigs, names, nil
}

// Binary builds the proxy module: memory (minPages, maxPages<0 = none) exported as
// "memory", a wrapper export per WASI function.
func Binary(sigs map[string]Sig, names []string, minPages uint32, maxPages int64) []byte {
	m := &wasmenc.Module{}
	for _, n := range names {
		s := sigs[n]
		m.ImportFunc(wasi_snapshot_preview1.ModuleName, n, s.Params, s.Results)
	}
	for i, n := range names {
		s := sigs[n]
		b := wasmenc.NewB()
		for k := range s.Params {
			b.LocalGet(uint32(k))
		}
		b.Call(uint32(i))
		idx := m.AddFunc(s.Params, s.Results, nil, b.Bytes())
		m.ExportFunc(n, idx)
	}
	// The same functions once more, reached through a table: "indirect:<name>" does
	// call_indirect on the slot that holds the imported host function.
	for i, n := range names {
		s := sigs[n]
		b := wasmenc.NewB()
		for k := range s.Params {
			b.LocalGet(uint32(k))
		}
		b.I32Const(int32(i)).CallIndirect(m.AddType(s.Params, s.Results), 0)
		idx := m.AddFunc(s.Params, s.Results, nil, b.Bytes())
		m.ExportFunc(IndirectPrefix+n, idx)
	}
	all := make([]uint32, len(names))
	for i := range all {
		all[i] = uint32(i)
	}
	m.Tables = [][]byte{wasmenc.TableType(0x70, uint32(len(names)), int64(len(names)))}
	m.Elems = [][]byte{wasmenc.ActiveElemFuncs(0, all)}
	m.Mems = [][]byte{wasmenc.Limits(minPages, maxPages, false)}
	m.Exports = append(m.Exports, wasmenc.Export{Name: "memory", Kind: wasmenc.KMem, Idx: 0})
	return m.Encode()
}

// IndirectPrefix + a WASI function name is the export that calls it through call_indirect.
const IndirectPrefix = "indirect:"

// CallIndirect is Call through the table (call_indirect on the imported host function).
func (p *Proxy) CallIndirect(ctx context.Context, name string, args ...uint64) (uint32, wz.Outcome) {
	f := p.Mod.ExportedFunction(IndirectPrefix + name)
	if f == nil {
		return 0, wz.Outcome{Kind: wz.KOther, Detail: "no such wasi function " + name}
	}
	if len(args) != len(p.Sigs[name].Params) {
		return 0, wz.Outcome{Kind: wz.KOther, Detail: fmt.Sprintf("harness: %s wants %d args, got %d", name, len(p.Sigs[name].Params), len(args))}
	}
	res, out := wz.SafeCall(ctx, f, args...)
	if out.Kind == wz.KOK && len(res) > 0 {
		return uint32(res[0]), out
	}
	return 0, out
}

// New creates WASI + proxy in rt. modCfg may be nil (default NewModuleConfig()).
func New(ctx context.Context, rt wazero.Runtime, modCfg wazero.ModuleConfig, minPages uint32, maxPages int64) (*Proxy, error) {
	sigs, names, err := Signatures(ctx, rt)
	if err != nil {
		return nil, err
	}
	if modCfg == nil {
		modCfg = wazero.NewModuleConfig()
	}
	cm, err := rt.CompileModule(ctx, Binary(sigs, names, minPages, maxPages))
	if err != nil {
		return nil, err
	}
	mod, err := rt.InstantiateModule(ctx, cm, modCfg)
	if err != nil {
		return nil, err
	}
	return &Proxy{RT: rt, Mod: mod, Mem: mod.Memory(), Sigs: sigs, Names: names}, nil
}

// Call invokes the WASI function through the guest wrapper. It returns the errno (0 when
// the function has no result) and the classified outcome.
func (p *Proxy) Call(ctx context.Context, name string, args ...uint64) (uint32, wz.Outcome) {
	f := p.Mod.ExportedFunction(name)
	if f == nil {
		return 0, wz.Outcome{Kind: wz.KOther, Detail: "no such wasi function " + name}
	}
	if len(args) != len(p.Sigs[name].Params) {
		return 0, wz.Outcome{Kind: wz.KOther, Detail: fmt.Sprintf("harness: %s wants %d args, got %d", name, len(p.Sigs[name].Params), len(args))}
	}
	res, out := wz.SafeCall(ctx, f, args...)
	if out.Kind == wz.KOK && len(res) > 0 {
		return uint32(res[0]), out
	}
	return 0, out
}

// Errno numbers used by checks.
const (
	ESUCCESS  = 0
	EBADF     = 8
	EEXIST    = 20
	EFAULT    = 21
	EINVAL    = 28
	EIO       = 29
	EISDIR    = 31
	ENOENT    = 44
	ENOSYS    = 52
	ENOTDIR   = 54
	ENOTEMPTY = 55
	ENOTSUP   = 58
	EPERM     = 63
	EROFS     = 69
	EACCES    = 2
	ENOTCAPABLE = 76
)
