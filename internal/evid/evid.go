// Package evid is the per-process evidence recorder and rapid front end used by every
// check package. A check process ("shard") is started by the driver (/verif/check) with
// VERIF_* environment variables; it records cases, samples, violations and known-finding
// hits, and writes one shard file which the driver merges into evidence/<id>.json.
package evid

import (
	"crypto/sha256"
	"encoding/binary"
	"encoding/hex"
	"encoding/json"
	"flag"
	"fmt"
	"hash/fnv"
	"os"
	"path/filepath"
	"sort"
	"strconv"
	"strings"
	"sync"
	"testing"

	"pgregory.net/rapid"
)

// ViolationRec is one property violation found by this shard.
type ViolationRec struct {
	Check  string `json:"check"`
	Msg    string `json:"msg"`
	Replay string `json:"replay"`
}

// KnownRec is a known finding (listed in known_findings.json) that still reproduces.
type KnownRec struct {
	ID  string `json:"id"`
	Msg string `json:"msg"`
}

type shardFile struct {
	Property    string            `json:"property"`
	Shard       int               `json:"shard"`
	Evaluations int64             `json:"evaluations"`
	BulkNT      int64             `json:"bulk_distinct_nontrivial"`
	Hashes      []string          `json:"nontrivial_hashes"`
	Labels      map[string]int64  `json:"labels"`
	Samples     []json.RawMessage `json:"samples"`
	Violations  []ViolationRec    `json:"violations"`
	Known       []KnownRec        `json:"known"`
	Notes       []string          `json:"notes"`
	Incomplete  []string          `json:"incomplete"`
}

var (
	mu       sync.Mutex
	property string
	evals    int64
	bulkNT   int64
	hashes   = map[uint64]struct{}{}
	labels   = map[string]int64{}
	samples  []json.RawMessage
	sampleN  = map[string]int{}
	viols    []ViolationRec
	known    []KnownRec
	notes    []string
	incompl  []string
	frozen   = map[string]bool{} // per check name: a failure was seen, stop counting (rapid is shrinking)
	lastFail = map[string]*failRec{}
	curCheck string
)

type failRec struct {
	replay any
	msg    string
}

func envInt(k string, d int) int {
	if v, err := strconv.Atoi(os.Getenv(k)); err == nil {
		return v
	}
	return d
}

// Seed is VERIF_SEED (default 1).
func Seed() uint64 { return uint64(envInt("VERIF_SEED", 1)) }

// Tier is "quick" or "thorough".
func Tier() string {
	if os.Getenv("VERIF_TIER") == "thorough" {
		return "thorough"
	}
	return "quick"
}

// Thorough reports whether the thorough tier is running.
func Thorough() bool { return Tier() == "thorough" }

// Shard returns this process' shard index and the number of shards.
func Shard() (int, int) {
	n := envInt("VERIF_SHARDS", 1)
	if n < 1 {
		n = 1
	}
	return envInt("VERIF_SHARD", 0), n
}

// Mine reports whether item i of an enumeration belongs to this shard.
func Mine(i int) bool {
	s, n := Shard()
	return i%n == s
}

// Scale picks the total case count for the tier and divides it among shards
// (at least 1). VERIF_SCALE (percent) scales both.
func Scale(quick, thorough int) int {
	n := quick
	if Thorough() {
		n = thorough
	}
	n = n * envInt("VERIF_SCALE", 100) / 100
	_, sh := Shard()
	n = (n + sh - 1) / sh
	if n < 1 {
		n = 1
	}
	return n
}

// ReplayPath is the replay file to execute (VERIF_REPLAY), or "".
func ReplayPath() string { return os.Getenv("VERIF_REPLAY") }

// Root is the /verif directory.
func Root() string {
	if r := os.Getenv("VERIF_ROOT"); r != "" {
		return r
	}
	return "/verif"
}

// WorkDir is a scratch directory private to this shard (created).
func WorkDir() string {
	d := os.Getenv("VERIF_WORK")
	if d == "" {
		d = filepath.Join(os.TempDir(), "verif-work")
	}
	os.MkdirAll(d, 0o755)
	return d
}

// Main is called from TestMain.
func Main(m *testing.M, prop string) {
	property = prop
	flag.Parse()
	code := m.Run()
	flush()
	os.Exit(code)
}

func flush() {
	out := os.Getenv("VERIF_SHARD_OUT")
	if out == "" {
		return
	}
	mu.Lock()
	defer mu.Unlock()
	sh, _ := Shard()
	sf := shardFile{Property: property, Shard: sh, Evaluations: evals, BulkNT: bulkNT, Labels: labels,
		Samples: samples, Violations: viols, Known: known, Notes: notes, Incomplete: incompl}
	for h := range hashes {
		sf.Hashes = append(sf.Hashes, strconv.FormatUint(h, 16))
	}
	sort.Strings(sf.Hashes)
	b, _ := json.Marshal(sf)
	tmp := out + ".tmp"
	if err := os.WriteFile(tmp, b, 0o644); err == nil {
		os.Rename(tmp, out)
	}
}

// Hash64 hashes the canonical form of a case.
func Hash64(parts ...any) uint64 {
	h := fnv.New64a()
	for _, p := range parts {
		switch v := p.(type) {
		case []byte:
			h.Write(v)
		case string:
			h.Write([]byte(v))
		default:
			fmt.Fprintf(h, "%v", v)
		}
		h.Write([]byte{0})
	}
	return h.Sum64()
}

func isFrozen() bool { return frozen[curCheck] }

// Case records one evaluated case. key identifies it for distinctness; nontrivial says
// whether it satisfies the check's stated rule. labels are generator-health classes.
func Case(key uint64, nontrivial bool, lbls ...string) {
	mu.Lock()
	defer mu.Unlock()
	if isFrozen() {
		return
	}
	evals++
	if nontrivial {
		hashes[key] = struct{}{}
		labels["nontrivial"]++
	}
	for _, l := range lbls {
		labels[l]++
	}
}

// Bulk records n evaluations of which nt are distinct and non-trivial by construction
// (used by exhaustive enumerations whose elements are distinct by definition).
func Bulk(n, nt int64, lbls ...string) {
	mu.Lock()
	defer mu.Unlock()
	if isFrozen() {
		return
	}
	evals += n
	bulkNT += nt
	for _, l := range lbls {
		labels[l] += n
	}
}

// Label bumps a generator-health counter.
func Label(l string, n int64) {
	mu.Lock()
	defer mu.Unlock()
	if isFrozen() {
		return
	}
	labels[l] += n
}

// Sample keeps up to max samples of class cls (the first ones seen).
func Sample(cls string, max int, v any) {
	mu.Lock()
	defer mu.Unlock()
	if isFrozen() || sampleN[cls] >= max {
		return
	}
	b, err := json.Marshal(map[string]any{"class": cls, "case": v})
	if err != nil {
		return
	}
	if len(b) > 6000 {
		b, _ = json.Marshal(map[string]any{"class": cls, "case_truncated": string(b[:6000])})
	}
	sampleN[cls]++
	samples = append(samples, b)
}

// WantSample reports whether Sample(cls,max,..) would still store something (so callers
// can avoid building expensive printouts).
func WantSample(cls string, max int) bool {
	mu.Lock()
	defer mu.Unlock()
	return !isFrozen() && sampleN[cls] < max
}

// Note adds a free-text note to the evidence.
func Note(format string, a ...any) {
	mu.Lock()
	defer mu.Unlock()
	notes = append(notes, fmt.Sprintf(format, a...))
}

// Incomplete records that a part of the check could not run (infrastructure, exit 2).
func Incomplete(format string, a ...any) {
	mu.Lock()
	defer mu.Unlock()
	incompl = append(incompl, fmt.Sprintf(format, a...))
}

// Journal writes the case about to be executed to VERIF_JOURNAL so that the driver can
// attribute a process death to it. v must be a replayable case (same form as replay files).
func Journal(v any) {
	p := os.Getenv("VERIF_JOURNAL")
	if p == "" {
		return
	}
	b, err := json.Marshal(v)
	if err != nil {
		return
	}
	os.WriteFile(p, b, 0o644)
}

func replayDir() string {
	d := os.Getenv("VERIF_REPLAY_DIR")
	if d == "" {
		d = filepath.Join(Root(), "replays", property)
	}
	os.MkdirAll(d, 0o755)
	return d
}

func writeReplay(check string, replay any, msg string) string {
	b, err := json.MarshalIndent(map[string]any{"property": property, "check": check, "message": msg, "case": replay}, "", " ")
	if err != nil {
		b = []byte(fmt.Sprintf(`{"property":%q,"check":%q,"message":%q}`, property, check, msg))
	}
	sum := sha256.Sum256(b)
	p := filepath.Join(replayDir(), fmt.Sprintf("%s-%s-%s.json", property, sanitize(check), hex.EncodeToString(sum[:5])))
	os.WriteFile(p, b, 0o644)
	return p
}

func sanitize(s string) string {
	return strings.Map(func(r rune) rune {
		if r >= 'a' && r <= 'z' || r >= 'A' && r <= 'Z' || r >= '0' && r <= '9' || r == '-' || r == '_' {
			return r
		}
		return '_'
	}, s)
}

// Violation records a violation immediately (for non-rapid enumerations) and returns the
// replay path. The caller should also fail its *testing.T.
func Violation(check string, replay any, format string, a ...any) string {
	msg := fmt.Sprintf(format, a...)
	p := writeReplay(check, replay, msg)
	mu.Lock()
	viols = append(viols, ViolationRec{Check: check, Msg: firstLines(msg, 12), Replay: p})
	mu.Unlock()
	flush()
	return p
}

// ViolationCount returns the number of violations recorded so far by this process.
func ViolationCount() int {
	mu.Lock()
	defer mu.Unlock()
	return len(viols)
}

// KnownFinding records that the listed finding id still reproduces.
func KnownFinding(id, format string, a ...any) {
	mu.Lock()
	defer mu.Unlock()
	known = append(known, KnownRec{ID: id, Msg: fmt.Sprintf(format, a...)})
}

func firstLines(s string, n int) string {
	l := strings.Split(s, "\n")
	if len(l) > n {
		l = append(l[:n], "...")
	}
	return strings.Join(l, "\n")
}

// TB is the subset of testing.TB / *rapid.T that Fail needs.
type TB interface {
	Fatalf(format string, args ...any)
	Helper()
}

// Fail is how a rapid property reports a violation: it remembers the (latest, hence after
// shrinking the minimal) failing case for the running Check and fails the rapid test.
func Fail(t TB, replay any, format string, a ...any) {
	t.Helper()
	msg := fmt.Sprintf(format, a...)
	mu.Lock()
	frozen[curCheck] = true
	lastFail[curCheck] = &failRec{replay: replay, msg: msg}
	mu.Unlock()
	t.Fatalf("%s", msg)
}

// Check runs a rapid property under the name given, with `checks` cases for this shard and
// a seed derived from VERIF_SEED, the shard and the name. On failure the minimal failing
// case (the last one passed to Fail) is written as a replay file and recorded.
func Check(t *testing.T, name string, checks int, prop func(*rapid.T)) bool {
	t.Helper()
	sh, _ := Shard()
	seed := Hash64("seed", Seed(), sh, name)&0x7fffffffffffffff | 1
	flag.Set("rapid.seed", strconv.FormatUint(seed, 10))
	flag.Set("rapid.checks", strconv.Itoa(checks))
	flag.Set("rapid.nofailfile", "true")
	if os.Getenv("VERIF_SHRINKTIME") != "" {
		flag.Set("rapid.shrinktime", os.Getenv("VERIF_SHRINKTIME"))
	} else {
		flag.Set("rapid.shrinktime", "20s")
	}
	mu.Lock()
	curCheck = name
	mu.Unlock()
	ok := t.Run(name, func(t *testing.T) {
		rapid.Check(t, prop)
	})
	mu.Lock()
	fr := lastFail[name]
	curCheck = ""
	mu.Unlock()
	if !ok {
		if fr != nil {
			p := writeReplay(name, fr.replay, fr.msg)
			mu.Lock()
			viols = append(viols, ViolationRec{Check: name, Msg: firstLines(fr.msg, 12), Replay: p})
			mu.Unlock()
		} else {
			Incomplete("check %s failed without a recorded violation (harness error or panic in harness)", name)
		}
		flush()
	}
	return ok
}

// LoadReplay reads a replay file and unmarshals its "case" member into v. It returns the
// "check" name stored in the file.
func LoadReplay(path string, v any) (string, error) {
	b, err := os.ReadFile(path)
	if err != nil {
		return "", err
	}
	var env struct {
		Check string          `json:"check"`
		Case  json.RawMessage `json:"case"`
	}
	if err := json.Unmarshal(b, &env); err != nil {
		return "", err
	}
	if len(env.Case) == 0 { // bare case (journal file)
		return "", json.Unmarshal(b, v)
	}
	return env.Check, json.Unmarshal(env.Case, v)
}

// U64s renders values as hex for samples.
func U64s(v []uint64) []string {
	r := make([]string, len(v))
	for i, x := range v {
		r[i] = "0x" + strconv.FormatUint(x, 16)
	}
	return r
}

// Key turns bytes into a 64-bit key.
func Key(b []byte) uint64 {
	s := sha256.Sum256(b)
	return binary.LittleEndian.Uint64(s[:8])
}

type knownFile struct {
	Findings []struct {
		ID       string `json:"id"`
		Property string `json:"property"`
		Status   string `json:"status"`
		What     string `json:"what"`
	} `json:"findings"`
}

var (
	knownOnce sync.Once
	knownOpen = map[string]bool{}
)

// KnownOpen reports whether finding id is listed as an open finding in
// /verif/known_findings.json. The file is only read, never written.
func KnownOpen(id string) bool {
	knownOnce.Do(func() {
		b, err := os.ReadFile(filepath.Join(Root(), "known_findings.json"))
		if err != nil {
			return
		}
		var kf knownFile
		if json.Unmarshal(b, &kf) != nil {
			return
		}
		for _, f := range kf.Findings {
			if f.Status == "open" {
				knownOpen[f.ID] = true
			}
		}
	})
	return knownOpen[id]
}

// Finding reports a failure that belongs to the finding class `id`: if the finding is
// listed as open it is recorded as a KNOWN-FINDING, otherwise it is a violation.
// It returns true when it was a violation.
func Finding(id, check string, replay any, format string, a ...any) bool {
	if KnownOpen(id) {
		KnownFinding(id, format, a...)
		return false
	}
	Violation(check, replay, format, a...)
	return true
}
