// Package guardmem is an experimental.MemoryAllocator that makes out-of-bounds accesses of
// generated code visible: a linear memory lives inside a PROT_NONE reservation
// [guard][max bytes][guard]; only the current size is committed read-write. Any address that
// machine code can form from a 32-bit base plus a 32-bit offset, with either sign- or
// zero-extension mistakes, falls into the reservation, and touching anything but committed
// bytes raises SIGSEGV (which kills the supervised test process). In "moving" mode every
// growth moves the memory to a new reservation and revokes access to the old one, so a stale
// cached base pointer faults immediately.
package guardmem

import (
	"fmt"
	"sync"
	"syscall"

	"github.com/tetratelabs/wazero/experimental"
)

// Guard is the size of the inaccessible region on each side of a memory.
const Guard = 8 << 30

// Allocator implements experimental.MemoryAllocator.
type Allocator struct {
	Moving bool
	mu     sync.Mutex
	live   map[*Mem]bool
	Allocs int
}

// New returns an allocator; moving selects move-on-grow.
func New(moving bool) *Allocator { return &Allocator{Moving: moving, live: map[*Mem]bool{}} }

// Mem is one linear memory.
type Mem struct {
	a    *Allocator
	full []byte // whole reservation
	max  uint64
	size uint64
	old  [][]byte // revoked reservations (moving mode), unmapped on Free
}

func reserve(max uint64) []byte {
	n := Guard + max + Guard
	b, err := syscall.Mmap(-1, 0, int(n), syscall.PROT_NONE, syscall.MAP_ANON|syscall.MAP_PRIVATE|syscall.MAP_NORESERVE)
	if err != nil {
		panic(fmt.Sprintf("guardmem: reserving %d bytes: %v", n, err))
	}
	return b
}

func pageUp(n uint64) uint64 { return (n + 4095) &^ 4095 }

// Allocate implements experimental.MemoryAllocator.
func (a *Allocator) Allocate(cap, max uint64) experimental.LinearMemory {
	if max < cap {
		max = cap
	}
	m := &Mem{a: a, full: reserve(pageUp(max)), max: max}
	a.mu.Lock()
	a.live[m] = true
	a.Allocs++
	a.mu.Unlock()
	return m
}

// Reallocate implements experimental.LinearMemory.
func (m *Mem) Reallocate(size uint64) []byte {
	if size > m.max {
		return nil
	}
	if m.a.Moving && size != m.size && m.size > 0 {
		nf := reserve(pageUp(m.max))
		if err := syscall.Mprotect(nf[Guard:Guard+pageUp(size)], syscall.PROT_READ|syscall.PROT_WRITE); err != nil {
			panic("guardmem: mprotect: " + err.Error())
		}
		copy(nf[Guard:Guard+size], m.full[Guard:Guard+m.size])
		// revoke the old mapping: a stale base pointer now faults
		if err := syscall.Mprotect(m.full[Guard:Guard+pageUp(m.size)], syscall.PROT_NONE); err != nil {
			panic("guardmem: mprotect: " + err.Error())
		}
		m.old = append(m.old, m.full)
		m.full = nf
		m.size = size
		return m.full[Guard : Guard+size : Guard+m.max]
	}
	if size > m.size {
		if err := syscall.Mprotect(m.full[Guard+pageUp(m.size):Guard+pageUp(size)], syscall.PROT_READ|syscall.PROT_WRITE); err != nil {
			panic("guardmem: mprotect: " + err.Error())
		}
	}
	m.size = size
	return m.full[Guard : Guard+size : Guard+m.max]
}

// Free implements experimental.LinearMemory.
func (m *Mem) Free() {
	m.a.mu.Lock()
	delete(m.a.live, m)
	m.a.mu.Unlock()
	m.unmap()
}

func (m *Mem) unmap() {
	if m.full != nil {
		syscall.Munmap(m.full)
		m.full = nil
	}
	for _, o := range m.old {
		syscall.Munmap(o)
	}
	m.old = nil
}

// Release unmaps whatever was not freed by the runtime (harness hygiene).
func (a *Allocator) Release() {
	a.mu.Lock()
	defer a.mu.Unlock()
	for m := range a.live {
		m.unmap()
		delete(a.live, m)
	}
}
