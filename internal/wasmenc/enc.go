// Package wasmenc is a small, independent WebAssembly binary encoder used by the checks to
// build guest modules (it shares no code with wazero).
package wasmenc

import (
	"encoding/binary"
	"math"
)

// Value types.
const (
	I32       byte = 0x7f
	I64       byte = 0x7e
	F32       byte = 0x7d
	F64       byte = 0x7c
	V128      byte = 0x7b
	FuncRef   byte = 0x70
	ExternRef byte = 0x6f
)

// Extern kinds.
const (
	KFunc   byte = 0
	KTable  byte = 1
	KMem    byte = 2
	KGlobal byte = 3
)

type FuncType struct{ P, R []byte }

type Import struct {
	Mod, Name string
	Kind      byte
	Desc      []byte // type index / table type / limits / global type
}

type Export struct {
	Name string
	Kind byte
	Idx  uint32
}

type Func struct {
	Type   uint32
	Locals []byte // one value type per local
	Body   []byte // without the final end
	Name   string
}

type Global struct {
	Type byte
	Mut  bool
	Init []byte // constant expression without end
}

type Custom struct {
	Name string
	Data []byte
}

type Module struct {
	Types      []FuncType
	Imports    []Import
	Funcs      []Func
	Tables     [][]byte // raw table types
	Mems       [][]byte // raw limits
	Globals    []Global
	Exports    []Export
	Start      *uint32
	Elems      [][]byte // raw element segments
	Datas      [][]byte // raw data segments
	DataCnt    bool
	Customs    []Custom // appended after the data section
	ModuleName string   // if set (or any Func.Name), a name section is emitted
}

func U32(v uint32) []byte { return U64(uint64(v)) }

func U64(v uint64) []byte {
	var b []byte
	for {
		c := byte(v & 0x7f)
		v >>= 7
		if v != 0 {
			b = append(b, c|0x80)
		} else {
			return append(b, c)
		}
	}
}

func S64(v int64) []byte {
	var b []byte
	for {
		c := byte(v & 0x7f)
		s := c&0x40 != 0
		v >>= 7
		if (v == 0 && !s) || (v == -1 && s) {
			return append(b, c)
		}
		b = append(b, c|0x80)
	}
}

func S32(v int32) []byte { return S64(int64(v)) }

func Name(s string) []byte { return append(U32(uint32(len(s))), s...) }

// Limits encodes limits; max<0 means no maximum. shared adds the shared flag (needs max).
func Limits(min uint32, max int64, shared bool) []byte {
	if max < 0 {
		return append([]byte{0}, U32(min)...)
	}
	flag := byte(1)
	if shared {
		flag = 3
	}
	return Cat([]byte{flag}, U32(min), U32(uint32(max)))
}

// TableType encodes a table type.
func TableType(elem byte, min uint32, max int64) []byte {
	return append([]byte{elem}, Limits(min, max, false)...)
}

// GlobalType encodes a global type (for imports).
func GlobalType(t byte, mut bool) []byte {
	if mut {
		return []byte{t, 1}
	}
	return []byte{t, 0}
}

func P(v uint32) *uint32 { return &v }

func Cat(bs ...[]byte) []byte {
	var r []byte
	for _, b := range bs {
		r = append(r, b...)
	}
	return r
}

func Vec(items [][]byte) []byte {
	r := U32(uint32(len(items)))
	for _, i := range items {
		r = append(r, i...)
	}
	return r
}

func Section(id byte, body []byte) []byte {
	return Cat([]byte{id}, U32(uint32(len(body))), body)
}

// ActiveData: active data segment for memory 0 at constant offset.
func ActiveData(offset int32, bytes []byte) []byte {
	return Cat([]byte{0, 0x41}, S32(offset), []byte{0x0b}, U32(uint32(len(bytes))), bytes)
}

// ActiveDataExpr: active data segment with an arbitrary offset expression (without end).
func ActiveDataExpr(expr []byte, bytes []byte) []byte {
	return Cat([]byte{0}, expr, []byte{0x0b}, U32(uint32(len(bytes))), bytes)
}

// PassiveData: passive data segment.
func PassiveData(bytes []byte) []byte {
	return Cat([]byte{1}, U32(uint32(len(bytes))), bytes)
}

// ActiveElemFuncs: active element segment for table 0 of function indices at a constant offset.
func ActiveElemFuncs(offset int32, funcs []uint32) []byte {
	r := Cat([]byte{0, 0x41}, S32(offset), []byte{0x0b}, U32(uint32(len(funcs))))
	for _, f := range funcs {
		r = append(r, U32(f)...)
	}
	return r
}

// ActiveElemFuncsTable: active segment for table t (flag 2, elemkind funcref).
func ActiveElemFuncsTable(table uint32, offsetExpr []byte, funcs []uint32) []byte {
	r := Cat([]byte{2}, U32(table), offsetExpr, []byte{0x0b, 0x00}, U32(uint32(len(funcs))))
	for _, f := range funcs {
		r = append(r, U32(f)...)
	}
	return r
}

// PassiveElemFuncs: passive element segment (flag 1, elemkind funcref).
func PassiveElemFuncs(funcs []uint32) []byte {
	r := Cat([]byte{1, 0x00}, U32(uint32(len(funcs))))
	for _, f := range funcs {
		r = append(r, U32(f)...)
	}
	return r
}

// DeclElemFuncs: declarative element segment (flag 3).
func DeclElemFuncs(funcs []uint32) []byte {
	r := Cat([]byte{3, 0x00}, U32(uint32(len(funcs))))
	for _, f := range funcs {
		r = append(r, U32(f)...)
	}
	return r
}

func (m *Module) Encode() []byte {
	out := []byte{0, 'a', 's', 'm', 1, 0, 0, 0}
	if len(m.Types) > 0 {
		var it [][]byte
		for _, t := range m.Types {
			it = append(it, Cat([]byte{0x60}, U32(uint32(len(t.P))), t.P, U32(uint32(len(t.R))), t.R))
		}
		out = append(out, Section(1, Vec(it))...)
	}
	if len(m.Imports) > 0 {
		var it [][]byte
		for _, i := range m.Imports {
			it = append(it, Cat(Name(i.Mod), Name(i.Name), []byte{i.Kind}, i.Desc))
		}
		out = append(out, Section(2, Vec(it))...)
	}
	if len(m.Funcs) > 0 {
		var it [][]byte
		for _, f := range m.Funcs {
			it = append(it, U32(f.Type))
		}
		out = append(out, Section(3, Vec(it))...)
	}
	if len(m.Tables) > 0 {
		out = append(out, Section(4, Vec(m.Tables))...)
	}
	if len(m.Mems) > 0 {
		out = append(out, Section(5, Vec(m.Mems))...)
	}
	if len(m.Globals) > 0 {
		var it [][]byte
		for _, g := range m.Globals {
			mut := byte(0)
			if g.Mut {
				mut = 1
			}
			it = append(it, Cat([]byte{g.Type, mut}, g.Init, []byte{0x0b}))
		}
		out = append(out, Section(6, Vec(it))...)
	}
	if len(m.Exports) > 0 {
		var it [][]byte
		for _, e := range m.Exports {
			it = append(it, Cat(Name(e.Name), []byte{e.Kind}, U32(e.Idx)))
		}
		out = append(out, Section(7, Vec(it))...)
	}
	if m.Start != nil {
		out = append(out, Section(8, U32(*m.Start))...)
	}
	if len(m.Elems) > 0 {
		out = append(out, Section(9, Vec(m.Elems))...)
	}
	if m.DataCnt {
		out = append(out, Section(12, U32(uint32(len(m.Datas))))...)
	}
	if len(m.Funcs) > 0 {
		var it [][]byte
		for _, f := range m.Funcs {
			// run-length encode locals
			var loc [][]byte
			for i := 0; i < len(f.Locals); {
				j := i
				for j < len(f.Locals) && f.Locals[j] == f.Locals[i] {
					j++
				}
				loc = append(loc, Cat(U32(uint32(j-i)), []byte{f.Locals[i]}))
				i = j
			}
			body := Cat(Vec(loc), f.Body, []byte{0x0b})
			it = append(it, Cat(U32(uint32(len(body))), body))
		}
		out = append(out, Section(10, Vec(it))...)
	}
	if len(m.Datas) > 0 {
		out = append(out, Section(11, Vec(m.Datas))...)
	}
	named := m.ModuleName != ""
	for _, f := range m.Funcs {
		if f.Name != "" {
			named = true
		}
	}
	if named {
		body := Name("name")
		if m.ModuleName != "" {
			body = append(body, Section(0, Name(m.ModuleName))...)
		}
		nimp := uint32(0)
		for _, i := range m.Imports {
			if i.Kind == KFunc {
				nimp++
			}
		}
		var it [][]byte
		for i, f := range m.Funcs {
			if f.Name != "" {
				it = append(it, Cat(U32(nimp+uint32(i)), Name(f.Name)))
			}
		}
		if len(it) > 0 {
			body = append(body, Section(1, Vec(it))...)
		}
		out = append(out, Section(0, body)...)
	}
	for _, c := range m.Customs {
		out = append(out, Section(0, Cat(Name(c.Name), c.Data))...)
	}
	return out
}

// NumImportedFuncs counts function imports.
func (m *Module) NumImportedFuncs() uint32 {
	n := uint32(0)
	for _, i := range m.Imports {
		if i.Kind == KFunc {
			n++
		}
	}
	return n
}

// AddType returns the index of the function type, adding it if needed.
func (m *Module) AddType(p, r []byte) uint32 {
	for i, t := range m.Types {
		if string(t.P) == string(p) && string(t.R) == string(r) {
			return uint32(i)
		}
	}
	m.Types = append(m.Types, FuncType{append([]byte{}, p...), append([]byte{}, r...)})
	return uint32(len(m.Types) - 1)
}

// ImportFunc appends a function import and returns its function index. All function
// imports must be added before AddFunc is used.
func (m *Module) ImportFunc(mod, name string, p, r []byte) uint32 {
	t := m.AddType(p, r)
	idx := m.NumImportedFuncs()
	m.Imports = append(m.Imports, Import{mod, name, KFunc, U32(t)})
	return idx
}

// AddFunc appends a function and returns its function index (imports counted).
func (m *Module) AddFunc(p, r []byte, locals []byte, body []byte) uint32 {
	t := m.AddType(p, r)
	m.Funcs = append(m.Funcs, Func{Type: t, Locals: locals, Body: body})
	return m.NumImportedFuncs() + uint32(len(m.Funcs)-1)
}

// ExportFunc exports function index idx under name.
func (m *Module) ExportFunc(name string, idx uint32) {
	m.Exports = append(m.Exports, Export{name, KFunc, idx})
}

// ---- instruction builder ----

// B is a byte-code builder.
type B struct{ b []byte }

func NewB() *B                 { return &B{} }
func (c *B) Bytes() []byte      { return c.b }
func (c *B) Raw(b ...byte) *B   { c.b = append(c.b, b...); return c }
func (c *B) Append(b []byte) *B { c.b = append(c.b, b...); return c }

func (c *B) Unreachable() *B       { return c.Raw(0x00) }
func (c *B) Nop() *B               { return c.Raw(0x01) }
func (c *B) Block(bt ...byte) *B   { return c.Raw(0x02).bt(bt) }
func (c *B) Loop(bt ...byte) *B    { return c.Raw(0x03).bt(bt) }
func (c *B) If(bt ...byte) *B      { return c.Raw(0x04).bt(bt) }
func (c *B) BlockT(t uint32) *B    { return c.Raw(0x02).Append(S64(int64(t))) }
func (c *B) LoopT(t uint32) *B     { return c.Raw(0x03).Append(S64(int64(t))) }
func (c *B) IfT(t uint32) *B       { return c.Raw(0x04).Append(S64(int64(t))) }
func (c *B) Else() *B              { return c.Raw(0x05) }
func (c *B) End() *B               { return c.Raw(0x0b) }
func (c *B) Br(l uint32) *B        { return c.Raw(0x0c).Append(U32(l)) }
func (c *B) BrIf(l uint32) *B      { return c.Raw(0x0d).Append(U32(l)) }
func (c *B) Return() *B            { return c.Raw(0x0f) }
func (c *B) Call(f uint32) *B      { return c.Raw(0x10).Append(U32(f)) }
func (c *B) Drop() *B              { return c.Raw(0x1a) }
func (c *B) Select() *B            { return c.Raw(0x1b) }
func (c *B) LocalGet(i uint32) *B  { return c.Raw(0x20).Append(U32(i)) }
func (c *B) LocalSet(i uint32) *B  { return c.Raw(0x21).Append(U32(i)) }
func (c *B) LocalTee(i uint32) *B  { return c.Raw(0x22).Append(U32(i)) }
func (c *B) GlobalGet(i uint32) *B { return c.Raw(0x23).Append(U32(i)) }
func (c *B) GlobalSet(i uint32) *B { return c.Raw(0x24).Append(U32(i)) }
func (c *B) TableGet(t uint32) *B  { return c.Raw(0x25).Append(U32(t)) }
func (c *B) TableSet(t uint32) *B  { return c.Raw(0x26).Append(U32(t)) }
func (c *B) MemorySize() *B        { return c.Raw(0x3f, 0) }
func (c *B) MemoryGrow() *B        { return c.Raw(0x40, 0) }
func (c *B) I32Const(v int32) *B   { return c.Raw(0x41).Append(S32(v)) }
func (c *B) I64Const(v int64) *B   { return c.Raw(0x42).Append(S64(v)) }
func (c *B) RefNull(t byte) *B     { return c.Raw(0xd0, t) }
func (c *B) RefIsNull() *B         { return c.Raw(0xd1) }
func (c *B) RefFunc(f uint32) *B   { return c.Raw(0xd2).Append(U32(f)) }

func (c *B) F32Const(bits uint32) *B {
	var x [4]byte
	binary.LittleEndian.PutUint32(x[:], bits)
	return c.Raw(0x43).Append(x[:])
}

func (c *B) F64Const(bits uint64) *B {
	var x [8]byte
	binary.LittleEndian.PutUint64(x[:], bits)
	return c.Raw(0x44).Append(x[:])
}

func (c *B) F32(v float32) *B { return c.F32Const(math.Float32bits(v)) }
func (c *B) F64(v float64) *B { return c.F64Const(math.Float64bits(v)) }

func (c *B) V128Const(lo, hi uint64) *B {
	var x [16]byte
	binary.LittleEndian.PutUint64(x[:8], lo)
	binary.LittleEndian.PutUint64(x[8:], hi)
	return c.Raw(0xfd).Append(U32(12)).Append(x[:])
}

// BrTable emits br_table with the given labels and default.
func (c *B) BrTable(labels []uint32, def uint32) *B {
	c.Raw(0x0e).Append(U32(uint32(len(labels))))
	for _, l := range labels {
		c.Append(U32(l))
	}
	return c.Append(U32(def))
}

// CallIndirect emits call_indirect type, table.
func (c *B) CallIndirect(typ, table uint32) *B {
	return c.Raw(0x11).Append(U32(typ)).Append(U32(table))
}

// ReturnCall / ReturnCallIndirect (tail-call proposal).
func (c *B) ReturnCall(f uint32) *B { return c.Raw(0x12).Append(U32(f)) }
func (c *B) ReturnCallIndirect(typ, table uint32) *B {
	return c.Raw(0x13).Append(U32(typ)).Append(U32(table))
}

// Mem emits a plain load/store opcode (0x28..0x3e) with align (log2) and offset.
func (c *B) Mem(op byte, align uint32, offset uint32) *B {
	return c.Raw(op).Append(U32(align)).Append(U32(offset))
}

// FC emits a 0xfc-prefixed instruction with raw immediates.
func (c *B) FC(sub uint32, imm ...byte) *B { return c.Raw(0xfc).Append(U32(sub)).Raw(imm...) }

// FD emits a 0xfd-prefixed (SIMD) instruction with raw immediates.
func (c *B) FD(sub uint32, imm ...byte) *B { return c.Raw(0xfd).Append(U32(sub)).Raw(imm...) }

// FDMem emits a SIMD memory instruction with memarg.
func (c *B) FDMem(sub uint32, align, offset uint32) *B {
	return c.Raw(0xfd).Append(U32(sub)).Append(U32(align)).Append(U32(offset))
}

// FE emits a 0xfe-prefixed (atomic) memory instruction with memarg.
func (c *B) FE(sub uint32, align, offset uint32) *B {
	return c.Raw(0xfe).Append(U32(sub)).Append(U32(align)).Append(U32(offset))
}

func (c *B) MemoryCopy() *B           { return c.FC(10, 0, 0) }
func (c *B) MemoryFill() *B           { return c.FC(11, 0) }
func (c *B) MemoryInit(seg uint32) *B { return c.Raw(0xfc).Append(U32(8)).Append(U32(seg)).Raw(0) }
func (c *B) DataDrop(seg uint32) *B   { return c.Raw(0xfc).Append(U32(9)).Append(U32(seg)) }
func (c *B) TableInit(seg, table uint32) *B {
	return c.Raw(0xfc).Append(U32(12)).Append(U32(seg)).Append(U32(table))
}
func (c *B) ElemDrop(seg uint32) *B { return c.Raw(0xfc).Append(U32(13)).Append(U32(seg)) }
func (c *B) TableCopy(dst, src uint32) *B {
	return c.Raw(0xfc).Append(U32(14)).Append(U32(dst)).Append(U32(src))
}
func (c *B) TableGrow(t uint32) *B { return c.Raw(0xfc).Append(U32(15)).Append(U32(t)) }
func (c *B) TableSize(t uint32) *B { return c.Raw(0xfc).Append(U32(16)).Append(U32(t)) }
func (c *B) TableFill(t uint32) *B { return c.Raw(0xfc).Append(U32(17)).Append(U32(t)) }

func (c *B) bt(bt []byte) *B {
	if len(bt) == 0 {
		return c.Raw(0x40)
	}
	return c.Raw(bt[0])
}

// Common opcodes (single byte) for readability.
const (
	OpI32Load    = 0x28
	OpI64Load    = 0x29
	OpF32Load    = 0x2a
	OpF64Load    = 0x2b
	OpI32Load8S  = 0x2c
	OpI32Load8U  = 0x2d
	OpI32Load16S = 0x2e
	OpI32Load16U = 0x2f
	OpI64Load8S  = 0x30
	OpI64Load8U  = 0x31
	OpI64Load16S = 0x32
	OpI64Load16U = 0x33
	OpI64Load32S = 0x34
	OpI64Load32U = 0x35
	OpI32Store   = 0x36
	OpI64Store   = 0x37
	OpF32Store   = 0x38
	OpF64Store   = 0x39
	OpI32Store8  = 0x3a
	OpI32Store16 = 0x3b
	OpI64Store8  = 0x3c
	OpI64Store16 = 0x3d
	OpI64Store32 = 0x3e

	OpI32Eqz  = 0x45
	OpI32Eq   = 0x46
	OpI32Ne   = 0x47
	OpI32LtS  = 0x48
	OpI32LtU  = 0x49
	OpI32GtS  = 0x4a
	OpI32GtU  = 0x4b
	OpI32LeS  = 0x4c
	OpI32LeU  = 0x4d
	OpI32GeS  = 0x4e
	OpI32GeU  = 0x4f
	OpI64Eqz  = 0x50
	OpI64Eq   = 0x51
	OpI64Ne   = 0x52
	OpF32Eq   = 0x5b
	OpF64Eq   = 0x61
	OpI32Add  = 0x6a
	OpI32Sub  = 0x6b
	OpI32Mul  = 0x6c
	OpI32DivS = 0x6d
	OpI32DivU = 0x6e
	OpI32RemS = 0x6f
	OpI32RemU = 0x70
	OpI32And  = 0x71
	OpI32Or   = 0x72
	OpI32Xor  = 0x73
	OpI32Shl  = 0x74
	OpI32ShrS = 0x75
	OpI32ShrU = 0x76
	OpI64Add  = 0x7c
	OpI64Sub  = 0x7d
	OpI64Mul  = 0x7e
	OpI64DivS = 0x7f
	OpI64And  = 0x83
	OpI64Or   = 0x84
	OpI64Xor  = 0x85
	OpI64Shl  = 0x86
	OpI64ShrU = 0x88
	OpF32Add  = 0x92
	OpF64Add  = 0xa0

	OpI32WrapI64        = 0xa7
	OpI32TruncF32S      = 0xa8
	OpI64ExtendI32S     = 0xac
	OpI64ExtendI32U     = 0xad
	OpI32ReinterpretF32 = 0xbc
	OpI64ReinterpretF64 = 0xbd
	OpF32ReinterpretI32 = 0xbe
	OpF64ReinterpretI64 = 0xbf
)
