// Package fsmodel is a small POSIX-style reference model of a file system as seen through
// WASI preview1 descriptors: inodes (regular files with byte content, directories), names
// that map to inodes, and a descriptor table (lowest-free allocation, per-descriptor offset,
// access mode and append flag). It shares no code with wazero. An unlinked-but-open file
// keeps working because descriptors refer to inodes, not to names.
//
// Every operation returns an Expect that says what a conforming implementation must do:
// succeed, fail with one of a set of errno values (empty set = any failure), or that the
// model makes no prediction (Unspecified; the model state is then left unchanged). When the
// expectation is success the model state has been advanced accordingly.
//
// The errno predictions follow Linux where POSIX leaves a choice (unlink of a directory is
// EISDIR, rename onto a non-empty directory is ENOTEMPTY or EEXIST).
package fsmodel

import (
	"sort"
	"strings"
)

// WASI preview1 errno numbers used by the model.
const (
	EBADF     = 8
	EEXIST    = 20
	EINVAL    = 28
	EISDIR    = 31
	ENOENT    = 44
	ENOTDIR   = 54
	ENOTEMPTY = 55
)

// Inode is a file or a directory.
type Inode struct {
	ID     int
	Dir    bool
	Data   []byte
	Ents   map[string]*Inode
	Parent *Inode // directories: containing directory (nil for a root or a removed directory)
	Nlink  int    // 0 once the last name is gone
	Root   bool
}

// Desc is an open descriptor.
type Desc struct {
	Ino     *Inode
	Off     int64
	Append  bool
	Read    bool
	Write   bool
	Preopen bool
	Stdio   bool
	Root    *Inode   // root of the mount the descriptor belongs to
	Path    []string // components from the mount root used when it was opened

	// bookkeeping for the checks' non-triviality rules
	SeqIO bool // fd_read / fd_write happened on it
	PosIO bool // fd_pread / fd_pwrite happened on it
	Lists int  // complete directory listings performed on it
}

// Expect is the predicted outcome class of a call.
type Expect struct {
	OK          bool
	Errnos      []uint32 // when !OK: acceptable errno values; empty = any non-zero errno
	Unspecified bool     // no prediction; nothing may be compared; model state unchanged
	// Either: success and failure are both acceptable (POSIX and WASI implementations
	// differ); the model followed the observed outcome: the effect was applied iff the call
	// succeeded, a failed call left the state unchanged.
	Either bool
	Why    string
}

func ok() Expect                          { return Expect{OK: true} }
func fail(why string, e ...uint32) Expect { return Expect{Errnos: e, Why: why} }
func unspec(why string) Expect            { return Expect{Unspecified: true, Why: why} }

// Matches reports whether an observed errno is compatible with the expectation.
func (e Expect) Matches(errno uint32) bool {
	if e.Unspecified || e.Either {
		return true
	}
	if e.OK {
		return errno == 0
	}
	if errno == 0 {
		return false
	}
	if len(e.Errnos) == 0 {
		return true
	}
	for _, x := range e.Errnos {
		if x == errno {
			return true
		}
	}
	return false
}

// Model is the whole state.
type Model struct {
	FDs    map[int32]*Desc
	Roots  []*Inode
	nextID int
	// ReadOnly: the mounts cannot be modified through the guest (fs.FS mounts): every
	// mutating path call must fail and leave the tree as it is; opens that ask for
	// writing/creating/truncating are outside the model (property C17 covers them).
	ReadOnly bool
	// NoTrailingSlash: a trailing slash on a path is not significant. io/fs paths have no
	// such spelling (fs.ValidPath) and wazero's adapter for fs.FS mounts cleans it away
	// before the lookup, so "file/" names the file there.
	NoTrailingSlash bool
	// Freed records descriptor numbers that were released by close or renumber.
	Freed map[int32]bool
	// Reused is set when an open returned a number that had been released before.
	Reused bool
}

// New creates a model with stdio at 0..2 and npre empty mounts pre-opened at 3...
func New(npre int) *Model {
	m := &Model{FDs: map[int32]*Desc{}, Freed: map[int32]bool{}}
	for i := int32(0); i < 3; i++ {
		m.FDs[i] = &Desc{Stdio: true}
	}
	for i := 0; i < npre; i++ {
		r := m.newInode(true)
		r.Root = true
		r.Nlink = 1
		m.Roots = append(m.Roots, r)
		m.FDs[int32(3+i)] = &Desc{Ino: r, Read: true, Preopen: true, Root: r}
	}
	return m
}

// Seed creates an entry below mount root i before the guest starts (content that already
// exists on the host). It reports false when the parent is missing or the name is taken.
func (m *Model) Seed(root int, path string, dir bool, data []byte) bool {
	if root < 0 || root >= len(m.Roots) {
		return false
	}
	parent, name, t, errno := m.walk(m.Roots[root], path)
	if errno != 0 || parent == nil || t != nil {
		return false
	}
	n := m.newInode(dir)
	n.Nlink = 1
	if dir {
		n.Parent = parent
	} else {
		n.Data = append([]byte{}, data...)
	}
	parent.Ents[name] = n
	return true
}

func (m *Model) newInode(dir bool) *Inode {
	m.nextID++
	n := &Inode{ID: m.nextID, Dir: dir}
	if dir {
		n.Ents = map[string]*Inode{}
	}
	return n
}

// LowestFree is the descriptor number the next open must return.
func (m *Model) LowestFree() int32 {
	for fd := int32(0); ; fd++ {
		if _, used := m.FDs[fd]; !used {
			return fd
		}
	}
}

// SortedFDs returns the open descriptor numbers in ascending order.
func (m *Model) SortedFDs() []int32 {
	var r []int32
	for fd := range m.FDs {
		r = append(r, fd)
	}
	sort.Slice(r, func(i, j int) bool { return r[i] < r[j] })
	return r
}

// Names returns the sorted entry names of a directory inode.
func Names(d *Inode) []string {
	var r []string
	for n := range d.Ents {
		r = append(r, n)
	}
	sort.Strings(r)
	return r
}

// Resolve walks components from dir; nil when something is missing or not a directory.
func Resolve(dir *Inode, comps []string) *Inode {
	cur := dir
	for _, c := range comps {
		if cur == nil || !cur.Dir {
			return nil
		}
		cur = cur.Ents[c]
	}
	return cur
}

// NameValid reports whether the name a directory descriptor was opened under still leads
// to the same directory (wazero addresses paths below an opened directory, and re-opens a
// directory for fd_readdir, by that name; FileEntry.Name is documented to drift on rename).
func (d *Desc) NameValid() bool {
	if d.Stdio || d.Ino == nil {
		return false
	}
	if d.Preopen {
		return true
	}
	return Resolve(d.Root, d.Path) == d.Ino
}

// resolved is the result of resolving a path below a directory descriptor.
type resolved struct {
	parent  *Inode   // directory holding the last component (nil when self)
	name    string   // last component
	target  *Inode   // what the path names (nil if the last component is missing)
	errno   uint32   // failure in an intermediate component (ENOENT / ENOTDIR)
	escape  bool     // absolute path, or ".." climbs above the directory descriptor
	empty   bool     // "" or only slashes
	mustDir bool     // trailing slash: the path must name a directory
	self    bool     // the path normalises to the descriptor's directory itself (".", "a/..")
	stack   []string // names from the descriptor's directory down to the target
}

// clean normalises a relative path lexically, exactly like path.Clean: empty and "."
// components vanish, "name/.." pairs cancel. The reference model of the property has no
// notion of dot components, and wazero's atPath normalises guest paths this way before any
// lookup, so "f/." is "f" and "missing/../x" is "x" (POSIX would walk the tree and answer
// ENOTDIR / ENOENT for those). ok is false when the path climbs above its start.
func clean(path string) (comps []string, ok bool) {
	for _, c := range strings.Split(path, "/") {
		switch c {
		case "", ".":
		case "..":
			if len(comps) == 0 {
				return nil, false
			}
			comps = comps[:len(comps)-1]
		default:
			comps = append(comps, c)
		}
	}
	return comps, true
}

// CleansToSelf reports whether the path normalises to the directory it is relative to.
func CleansToSelf(path string) bool {
	c, ok := clean(path)
	return ok && len(c) == 0 && !strings.HasPrefix(path, "/")
}

// resolvePath normalises the path lexically and then looks the remaining names up: every
// name but the last must be an existing directory, a trailing slash on the original
// spelling demands a directory. Absolute paths and paths that climb above the descriptor's
// directory are refused.
func (m *Model) resolvePath(dir *Inode, path string) (r resolved) {
	if strings.HasPrefix(path, "/") {
		r.escape = true
		return
	}
	if strings.Trim(path, "/") == "" {
		r.empty = true
		return
	}
	comps, ok := clean(path)
	if !ok {
		r.escape = true
		return
	}
	r.mustDir = strings.HasSuffix(path, "/") && !m.NoTrailingSlash
	if len(comps) == 0 {
		r.self, r.target = true, dir
		return
	}
	cur := dir
	for _, c := range comps[:len(comps)-1] {
		nx := cur.Ents[c]
		if nx == nil {
			r.errno = ENOENT
			return
		}
		if !nx.Dir {
			r.errno = ENOTDIR
			return
		}
		cur = nx
	}
	r.name = comps[len(comps)-1]
	r.parent, r.target, r.stack = cur, cur.Ents[r.name], comps
	return
}

// escapes reports whether the spelling alone shows that the path is absolute or climbs above
// the directory it is relative to. Such a call fails whatever the descriptor is (wazero
// judges the path before the descriptor), so no particular errno is predicted.
func escapes(path string) bool {
	if strings.HasPrefix(path, "/") {
		return true
	}
	_, ok := clean(path)
	return !ok
}

var failEscape = Expect{Why: "absolute path or path leaving the directory descriptor"}

// walk is resolvePath for plain paths (seeding): parent, last name, target, errno.
func (m *Model) walk(dir *Inode, path string) (parent *Inode, name string, target *Inode, errno uint32) {
	r := m.resolvePath(dir, path)
	if r.escape || r.empty || r.self {
		return nil, ".", dir, 0
	}
	return r.parent, r.name, r.target, r.errno
}

// dirOf returns the descriptor's directory inode or the expectation for why a path call
// through it must fail.
func (m *Model) dirOf(fd int32) (*Desc, *Expect) {
	d := m.FDs[fd]
	if d == nil {
		e := fail("descriptor is not open", EBADF)
		return nil, &e
	}
	if d.Stdio {
		e := unspec("path call relative to stdio")
		return nil, &e
	}
	if !d.Ino.Dir {
		e := fail("descriptor is not a directory", ENOTDIR)
		return nil, &e
	}
	if !d.NameValid() {
		e := unspec("directory descriptor whose name drifted (renamed/removed since open)")
		return nil, &e
	}
	return d, nil
}

// Open flags of PathOpen.
type Open struct {
	Creat, Excl, Trunc, Directory, Append, Read, Write bool
}

// Meaningful reports whether the combination is inside the model's domain.
func (o Open) Meaningful() bool {
	if !o.Read && !o.Write {
		return false
	}
	if (o.Creat || o.Trunc || o.Append) && !o.Write {
		return false // the read-only + create/truncate corner is not modelled (C17)
	}
	if o.Excl && !o.Creat {
		return false // undefined in POSIX
	}
	if o.Directory && (o.Write || o.Creat || o.Trunc || o.Append || o.Excl) {
		return false
	}
	return true
}

// PathOpen models path_open. It returns the expectation and the descriptor number a
// successful call must return.
func (m *Model) PathOpen(dirfd int32, path string, o Open) (Expect, int32) {
	if escapes(path) && m.FDs[dirfd] != nil && !m.FDs[dirfd].Stdio || escapes(path) && m.FDs[dirfd] == nil {
		return failEscape, -1
	}
	d, e := m.dirOf(dirfd)
	if e != nil {
		return *e, -1
	}
	if !o.Meaningful() {
		return unspec("flag combination outside the model"), -1
	}
	if m.ReadOnly && (o.Write || o.Creat || o.Trunc || o.Append || o.Excl) {
		return unspec("write/create open on a read-only mount"), -1
	}
	r := m.resolvePath(d.Ino, path)
	switch {
	case r.empty:
		return unspec("empty path"), -1
	case r.escape:
		return fail("absolute path or path leaving the directory descriptor"), -1
	case r.errno != 0:
		return fail("intermediate component", r.errno), -1
	}
	parent, name, t := r.parent, r.name, r.target
	if r.mustDir && o.Creat {
		return fail("O_CREAT with a trailing slash"), -1
	}
	if t == nil {
		if !o.Creat {
			return fail("name does not exist", ENOENT), -1
		}
		t = m.newInode(false)
		t.Nlink = 1
		parent.Ents[name] = t
	} else {
		if !t.Dir && r.mustDir {
			return fail("trailing slash on a file", ENOTDIR), -1
		}
		if o.Creat && o.Excl {
			return fail("name exists and O_EXCL", EEXIST), -1
		}
		if t.Dir && o.Write {
			return fail("directory opened for writing", EISDIR), -1
		}
		if !t.Dir && o.Directory {
			return fail("O_DIRECTORY on a file", ENOTDIR), -1
		}
		if !t.Dir && o.Trunc {
			t.Data = nil
		}
	}
	fd := m.LowestFree()
	if m.Freed[fd] {
		m.Reused = true
	}
	nd := &Desc{Ino: t, Read: o.Read, Write: o.Write, Append: o.Append && !t.Dir, Root: d.Root}
	nd.Path = append(append([]string{}, d.Path...), r.stack...)
	m.FDs[fd] = nd
	return ok(), fd
}

// FdClose models fd_close.
func (m *Model) FdClose(fd int32) Expect {
	d := m.FDs[fd]
	if d == nil {
		return fail("descriptor is not open", EBADF)
	}
	if d.Stdio || d.Preopen {
		return unspec("closing stdio or a pre-open")
	}
	delete(m.FDs, fd)
	m.Freed[fd] = true
	return ok()
}

// FdRenumber models fd_renumber: `from` is moved to `to`; a descriptor open at `to` is
// closed; onto itself is a no-op. When a pre-opened directory is involved an implementation
// may refuse (wazero: ENOTSUP) or perform the move (dup2 semantics): the model then follows
// the observed outcome (observedOK) - a refused call changes nothing.
func (m *Model) FdRenumber(from, to int32, observedOK bool) Expect {
	d := m.FDs[from]
	if d == nil {
		return fail("source descriptor is not open", EBADF)
	}
	if to < 0 || d.Stdio {
		return unspec("renumbering stdio")
	}
	t := m.FDs[to]
	if t != nil && t.Stdio {
		return unspec("renumbering onto stdio")
	}
	either := d.Preopen || (t != nil && t.Preopen)
	if either && !observedOK {
		return Expect{Either: true, Why: "renumbering from/onto a pre-open may be refused"}
	}
	if from != to {
		m.FDs[to] = d
		delete(m.FDs, from)
		m.Freed[from] = true
	}
	if either {
		return Expect{Either: true, Why: "renumbering from/onto a pre-open may be refused"}
	}
	return ok()
}

func (m *Model) fileOf(fd int32, write bool) (*Desc, *Expect) {
	d := m.FDs[fd]
	if d == nil {
		e := fail("descriptor is not open", EBADF)
		return nil, &e
	}
	if d.Stdio {
		e := unspec("stdio")
		return nil, &e
	}
	if d.Ino.Dir {
		e := fail("file I/O on a directory descriptor")
		return nil, &e
	}
	if write && !d.Write {
		e := fail("descriptor not open for writing")
		return nil, &e
	}
	if !write && !d.Read {
		e := fail("descriptor not open for reading")
		return nil, &e
	}
	return d, nil
}

func readAt(n *Inode, off int64, total int) []byte {
	if off >= int64(len(n.Data)) || total <= 0 {
		return nil
	}
	end := off + int64(total)
	if end > int64(len(n.Data)) {
		end = int64(len(n.Data))
	}
	return append([]byte{}, n.Data[off:end]...)
}

func writeAt(n *Inode, off int64, data []byte) {
	end := off + int64(len(data))
	if end > int64(len(n.Data)) {
		n.Data = append(n.Data, make([]byte, end-int64(len(n.Data)))...)
	}
	copy(n.Data[off:], data)
}

// FdRead models fd_read of `total` (>0) bytes: returns the bytes that must be read.
func (m *Model) FdRead(fd int32, total int) (Expect, []byte) {
	if total <= 0 {
		return unspec("zero-length read"), nil
	}
	d, e := m.fileOf(fd, false)
	if e != nil {
		return *e, nil
	}
	b := readAt(d.Ino, d.Off, total)
	d.Off += int64(len(b))
	d.SeqIO = true
	return ok(), b
}

// FdPread models fd_pread: like FdRead at an explicit offset; the descriptor offset stays.
func (m *Model) FdPread(fd int32, total int, off int64) (Expect, []byte) {
	if total <= 0 || off < 0 {
		return unspec("zero-length or negative-offset pread"), nil
	}
	d, e := m.fileOf(fd, false)
	if e != nil {
		return *e, nil
	}
	d.PosIO = true
	return ok(), readAt(d.Ino, off, total)
}

// FdWrite models fd_write: all bytes are written at the offset (at EOF in append mode).
func (m *Model) FdWrite(fd int32, data []byte) (Expect, int) {
	if len(data) == 0 {
		return unspec("zero-length write"), 0
	}
	d, e := m.fileOf(fd, true)
	if e != nil {
		return *e, 0
	}
	if d.Append {
		d.Off = int64(len(d.Ino.Data))
	}
	writeAt(d.Ino, d.Off, data)
	d.Off += int64(len(data))
	d.SeqIO = true
	return ok(), len(data)
}

// FdPwrite models fd_pwrite.
func (m *Model) FdPwrite(fd int32, data []byte, off int64) (Expect, int) {
	if len(data) == 0 || off < 0 {
		return unspec("zero-length or negative-offset pwrite"), 0
	}
	d, e := m.fileOf(fd, true)
	if e != nil {
		return *e, 0
	}
	if d.Append {
		return unspec("pwrite on an append-mode descriptor (Linux appends regardless of the offset)"), 0
	}
	writeAt(d.Ino, off, data)
	d.PosIO = true
	return ok(), len(data)
}

// FdSeek models fd_seek (whence 0=set, 1=cur, 2=end) and fd_tell (0, cur).
func (m *Model) FdSeek(fd int32, off int64, whence int) (Expect, int64) {
	d := m.FDs[fd]
	if d == nil {
		return fail("descriptor is not open", EBADF), 0
	}
	if d.Stdio || d.Ino.Dir {
		return unspec("seek on stdio or a directory"), 0
	}
	var base int64
	switch whence {
	case 0:
	case 1:
		base = d.Off
	case 2:
		base = int64(len(d.Ino.Data))
	default:
		return fail("invalid whence"), 0
	}
	n := base + off
	if n < 0 {
		return fail("resulting offset is negative"), 0
	}
	d.Off = n
	return ok(), n
}

// FdFilestat models fd_filestat_get: file type and (for files) size.
func (m *Model) FdFilestat(fd int32) (Expect, bool, int64) {
	d := m.FDs[fd]
	if d == nil {
		return fail("descriptor is not open", EBADF), false, 0
	}
	if d.Stdio {
		return unspec("stdio"), false, 0
	}
	return ok(), d.Ino.Dir, int64(len(d.Ino.Data))
}

// FdSetSize models fd_filestat_set_size.
func (m *Model) FdSetSize(fd int32, size int64) Expect {
	if size < 0 {
		return unspec("negative size")
	}
	d, e := m.fileOf(fd, true)
	if e != nil {
		return *e
	}
	n := d.Ino
	if size <= int64(len(n.Data)) {
		n.Data = n.Data[:size]
	} else {
		n.Data = append(n.Data, make([]byte, size-int64(len(n.Data)))...)
	}
	return ok()
}

// PathFilestat models path_filestat_get.
func (m *Model) PathFilestat(dirfd int32, path string) (Expect, bool, int64) {
	if escapes(path) && m.FDs[dirfd] != nil && !m.FDs[dirfd].Stdio || escapes(path) && m.FDs[dirfd] == nil {
		return failEscape, false, 0
	}
	d, e := m.dirOf(dirfd)
	if e != nil {
		return *e, false, 0
	}
	r := m.resolvePath(d.Ino, path)
	switch {
	case r.empty:
		return unspec("empty path"), false, 0
	case r.escape:
		return fail("absolute path or path leaving the directory descriptor"), false, 0
	case r.errno != 0:
		return fail("intermediate component", r.errno), false, 0
	}
	t := r.target
	if t == nil {
		return fail("name does not exist", ENOENT), false, 0
	}
	if r.mustDir && !t.Dir {
		return fail("trailing slash on a file", ENOTDIR), false, 0
	}
	return ok(), t.Dir, int64(len(t.Data))
}

// Mkdir models path_create_directory.
func (m *Model) Mkdir(dirfd int32, path string) Expect {
	if m.ReadOnly {
		return fail("read-only mount")
	}
	if escapes(path) && m.FDs[dirfd] != nil && !m.FDs[dirfd].Stdio || escapes(path) && m.FDs[dirfd] == nil {
		return failEscape
	}
	d, e := m.dirOf(dirfd)
	if e != nil {
		return *e
	}
	r := m.resolvePath(d.Ino, path)
	switch {
	case r.empty:
		return unspec("empty path")
	case r.escape:
		return fail("absolute path or path leaving the directory descriptor")
	case r.self:
		return unspec("mkdir of the descriptor's own directory")
	}
	// a trailing slash is allowed for mkdir (POSIX)
	parent, name, t, errno := r.parent, r.name, r.target, r.errno
	if errno == ENOTDIR {
		// wazero's DirFS.Mkdir deliberately reports ENOENT here; the property does not
		// single out this case, so both are accepted.
		return fail("intermediate component is a file", ENOTDIR, ENOENT)
	}
	if errno != 0 {
		return fail("intermediate component", errno)
	}
	if t != nil {
		return fail("name exists", EEXIST)
	}
	n := m.newInode(true)
	n.Nlink = 1
	n.Parent = parent
	parent.Ents[name] = n
	return ok()
}

// Rmdir models path_remove_directory.
func (m *Model) Rmdir(dirfd int32, path string) Expect {
	if m.ReadOnly {
		return fail("read-only mount")
	}
	if escapes(path) && m.FDs[dirfd] != nil && !m.FDs[dirfd].Stdio || escapes(path) && m.FDs[dirfd] == nil {
		return failEscape
	}
	d, e := m.dirOf(dirfd)
	if e != nil {
		return *e
	}
	r := m.resolvePath(d.Ino, path)
	switch {
	case r.empty:
		return unspec("empty path")
	case r.escape:
		return fail("absolute path or path leaving the directory descriptor")
	case r.self:
		return unspec("rmdir of the descriptor's own directory")
	}
	parent, name, t, errno := r.parent, r.name, r.target, r.errno
	if errno != 0 {
		return fail("intermediate component", errno)
	}
	switch {
	case t == nil:
		return fail("name does not exist", ENOENT)
	case !t.Dir:
		return fail("not a directory", ENOTDIR)
	case len(t.Ents) > 0:
		return fail("directory not empty", ENOTEMPTY)
	}
	delete(parent.Ents, name)
	t.Parent = nil
	t.Nlink = 0
	return ok()
}

// Unlink models path_unlink_file.
func (m *Model) Unlink(dirfd int32, path string) Expect {
	if m.ReadOnly {
		return fail("read-only mount")
	}
	if escapes(path) && m.FDs[dirfd] != nil && !m.FDs[dirfd].Stdio || escapes(path) && m.FDs[dirfd] == nil {
		return failEscape
	}
	d, e := m.dirOf(dirfd)
	if e != nil {
		return *e
	}
	r := m.resolvePath(d.Ino, path)
	switch {
	case r.empty:
		return unspec("empty path")
	case r.escape:
		return fail("absolute path or path leaving the directory descriptor")
	case r.self:
		return unspec("unlink of the descriptor's own directory")
	}
	parent, name, t, errno := r.parent, r.name, r.target, r.errno
	if errno != 0 {
		return fail("intermediate component", errno)
	}
	switch {
	case t == nil:
		return fail("name does not exist", ENOENT)
	case t.Dir:
		return fail("is a directory", EISDIR)
	case r.mustDir:
		return fail("trailing slash on a file", ENOTDIR)
	}
	delete(parent.Ents, name)
	t.Nlink--
	return ok()
}

func isAncestorOrSelf(a, d *Inode) bool {
	for x := d; x != nil; x = x.Parent {
		if x == a {
			return true
		}
	}
	return false
}

// Rename models path_rename within one mount.
func (m *Model) Rename(oldfd int32, oldPath string, newfd int32, newPath string) Expect {
	if m.ReadOnly {
		return fail("read-only mount")
	}
	if escapes(oldPath) || escapes(newPath) {
		if a, b := m.FDs[oldfd], m.FDs[newfd]; (a == nil || !a.Stdio) && (b == nil || !b.Stdio) {
			return failEscape
		}
	}
	od, eo := m.dirOf(oldfd)
	nd, en := m.dirOf(newfd)
	switch {
	case eo != nil && eo.Unspecified:
		return *eo
	case en != nil && en.Unspecified:
		return *en
	case eo != nil && en != nil:
		return fail("both descriptors unusable", append(append([]uint32{}, eo.Errnos...), en.Errnos...)...)
	case eo != nil:
		return *eo
	case en != nil:
		return *en
	}
	if od.Root != nd.Root {
		return unspec("rename across mounts")
	}
	ro, rn := m.resolvePath(od.Ino, oldPath), m.resolvePath(nd.Ino, newPath)
	switch {
	case ro.empty || rn.empty:
		return unspec("empty path")
	case ro.escape || rn.escape:
		return fail("absolute path or path leaving the directory descriptor")
	case ro.self || rn.self:
		return unspec("rename of the descriptor's own directory")
	}
	op, oname, ot, e1 := ro.parent, ro.name, ro.target, ro.errno
	np, nname, nt, e2 := rn.parent, rn.name, rn.target, rn.errno
	var errs []uint32
	if e1 != 0 {
		errs = append(errs, e1)
	} else if ot == nil {
		errs = append(errs, ENOENT)
	}
	if e2 != 0 {
		errs = append(errs, e2)
	}
	if len(errs) > 0 {
		return fail("old name missing or a parent unusable", errs...)
	}
	if !ot.Dir && (ro.mustDir || rn.mustDir) {
		return fail("trailing slash although the source is not a directory", ENOTDIR)
	}
	if op == np && oname == nname {
		return ok() // same existing name: no-op
	}
	if ot.Dir && isAncestorOrSelf(ot, np) {
		return fail("directory moved below itself")
	}
	if nt != nil {
		if nt.Dir && isAncestorOrSelf(nt, op) {
			return fail("target is an ancestor of the source")
		}
		switch {
		case ot.Dir && !nt.Dir:
			return fail("directory onto file", ENOTDIR)
		case !ot.Dir && nt.Dir:
			return fail("file onto directory", EISDIR)
		case ot.Dir && len(nt.Ents) > 0:
			return fail("directory onto non-empty directory", ENOTEMPTY, EEXIST)
		}
		nt.Nlink--
		if nt.Dir {
			nt.Parent = nil
			nt.Nlink = 0
		}
	}
	delete(op.Ents, oname)
	np.Ents[nname] = ot
	if ot.Dir {
		ot.Parent = np
	}
	return ok()
}

// RenameSameMissing reports whether old and new spell the same directory entry (same
// components from the mount root) and that entry cannot be resolved: it is missing, or one
// of its parents is missing or a file (the class of finding C16-rename-same-missing).
func (m *Model) RenameSameMissing(oldfd int32, oldPath string, newfd int32, newPath string) bool {
	od, eo := m.dirOf(oldfd)
	nd, en := m.dirOf(newfd)
	if eo != nil || en != nil || od.Root != nd.Root {
		return false
	}
	ca, _ := clean(oldPath)
	cb, _ := clean(newPath)
	a := append(append([]string{}, od.Path...), ca...)
	b := append(append([]string{}, nd.Path...), cb...)
	if strings.Join(a, "/") != strings.Join(b, "/") {
		return false
	}
	r := m.resolvePath(od.Ino, oldPath)
	return r.errno != 0 || (r.target == nil && !r.self && !r.escape && !r.empty)
}

// Listing models what a complete fd_readdir pass must yield (without "." and ".."):
// name -> is directory.
func (m *Model) Listing(fd int32) (Expect, map[string]bool) {
	d := m.FDs[fd]
	if d == nil {
		return fail("descriptor is not open", EBADF), nil
	}
	if d.Stdio {
		return unspec("stdio"), nil
	}
	if !d.Ino.Dir {
		return fail("not a directory"), nil
	}
	r := map[string]bool{}
	for n, i := range d.Ino.Ents {
		r[n] = i.Dir
	}
	d.Lists++
	if !d.NameValid() {
		// The directory was renamed or removed since the descriptor was opened. The
		// descriptor still names that directory: reading it may fail (wazero re-opens a
		// directory by name for its first read and answers ENOENT), but if it succeeds it
		// lists that directory, never another one that took over the name.
		return Expect{Either: true, Why: "directory renamed/removed since open: may fail, must not list another directory"}, r
	}
	return ok(), r
}

// Tree flattens the tree below root: path -> "dir" or "file:<content>".
func Tree(root *Inode) map[string]string {
	out := map[string]string{}
	var rec func(d *Inode, prefix string)
	rec = func(d *Inode, prefix string) {
		for _, n := range Names(d) {
			c := d.Ents[n]
			p := prefix + n
			if c.Dir {
				out[p] = "dir"
				rec(c, p+"/")
			} else {
				out[p] = "file:" + string(c.Data)
			}
		}
	}
	rec(root, "")
	return out
}

// Paths lists every existing path below dir (relative, sorted), with whether it is a directory.
func Paths(dir *Inode) (all []string, dirs []string) {
	var rec func(d *Inode, prefix string, depth int)
	rec = func(d *Inode, prefix string, depth int) {
		for _, n := range Names(d) {
			c := d.Ents[n]
			p := prefix + n
			all = append(all, p)
			if c.Dir {
				dirs = append(dirs, p)
				if depth < 6 {
					rec(c, p+"/", depth+1)
				}
			}
		}
	}
	rec(dir, "", 0)
	return
}
