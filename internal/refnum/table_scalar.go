package refnum

import "math/bits"

var (
	pI32   = Param{I32, SInt}
	pI64   = Param{I64, SInt}
	pF32   = Param{F32, SFloat}
	pF64   = Param{F64, SFloat}
	pCnt32 = Param{I32, SCount}
	pCnt64 = Param{I64, SCount64}
)

func b2u(b bool) uint64 {
	if b {
		return 1
	}
	return 0
}

func val(x uint64) Res { return Res{V: V{x, 0}} }

type ibin func(x, y uint64) (uint64, string)

// integer binary operators for width n (operands zero-extended, result masked by caller)
func intBinops(n int) []struct {
	name string
	f    ibin
	trap bool
	cnt  bool
} {
	m := mask(n)
	ok := func(f func(x, y uint64) uint64) ibin {
		return func(x, y uint64) (uint64, string) { return f(x, y) & m, "" }
	}
	minS := uint64(1) << uint(n-1)
	return []struct {
		name string
		f    ibin
		trap bool
		cnt  bool
	}{
		{"add", ok(func(x, y uint64) uint64 { return x + y }), false, false},
		{"sub", ok(func(x, y uint64) uint64 { return x - y }), false, false},
		{"mul", ok(func(x, y uint64) uint64 { return x * y }), false, false},
		{"div_s", func(x, y uint64) (uint64, string) {
			if y == 0 {
				return 0, TrapDivZero
			}
			if x == minS && y == m { // MIN / -1
				return 0, TrapOverflow
			}
			return uint64(sx(x, n)/sx(y, n)) & m, "" // Go's / truncates toward zero
		}, true, false},
		{"div_u", func(x, y uint64) (uint64, string) {
			if y == 0 {
				return 0, TrapDivZero
			}
			return x / y, ""
		}, true, false},
		{"rem_s", func(x, y uint64) (uint64, string) {
			if y == 0 {
				return 0, TrapDivZero
			}
			if y == m { // x rem -1 = 0 (also for MIN; avoids Go's own overflow case)
				return 0, ""
			}
			return uint64(sx(x, n)%sx(y, n)) & m, "" // sign of the dividend
		}, true, false},
		{"rem_u", func(x, y uint64) (uint64, string) {
			if y == 0 {
				return 0, TrapDivZero
			}
			return x % y, ""
		}, true, false},
		{"and", ok(func(x, y uint64) uint64 { return x & y }), false, false},
		{"or", ok(func(x, y uint64) uint64 { return x | y }), false, false},
		{"xor", ok(func(x, y uint64) uint64 { return x ^ y }), false, false},
		{"shl", ok(func(x, y uint64) uint64 { return x << (y % uint64(n)) }), false, true},
		{"shr_s", ok(func(x, y uint64) uint64 { return uint64(sx(x, n) >> (y % uint64(n))) }), false, true},
		{"shr_u", ok(func(x, y uint64) uint64 { return x >> (y % uint64(n)) }), false, true},
		{"rotl", ok(func(x, y uint64) uint64 {
			k := y % uint64(n)
			if k == 0 {
				return x
			}
			return x<<k | x>>(uint64(n)-k)
		}), false, true},
		{"rotr", ok(func(x, y uint64) uint64 {
			k := y % uint64(n)
			if k == 0 {
				return x
			}
			return x>>k | x<<(uint64(n)-k)
		}), false, true},
	}
}

func intCmps(n int) []func(x, y uint64) bool {
	return []func(x, y uint64) bool{
		func(x, y uint64) bool { return x == y },
		func(x, y uint64) bool { return x != y },
		func(x, y uint64) bool { return sx(x, n) < sx(y, n) },
		func(x, y uint64) bool { return x < y },
		func(x, y uint64) bool { return sx(x, n) > sx(y, n) },
		func(x, y uint64) bool { return x > y },
		func(x, y uint64) bool { return sx(x, n) <= sx(y, n) },
		func(x, y uint64) bool { return x <= y },
		func(x, y uint64) bool { return sx(x, n) >= sx(y, n) },
		func(x, y uint64) bool { return x >= y },
	}
}

var cmpNames = []string{"eq", "ne", "lt_s", "lt_u", "gt_s", "gt_u", "le_s", "le_u", "ge_s", "ge_u"}
var fcmpNames = []string{"eq", "ne", "lt", "gt", "le", "ge"}

func clz(x uint64, n int) uint64 {
	if n == 32 {
		return uint64(bits.LeadingZeros32(uint32(x)))
	}
	return uint64(bits.LeadingZeros64(x))
}

func ctz(x uint64, n int) uint64 {
	x &= mask(n)
	if x == 0 {
		return uint64(n)
	}
	c := uint64(0)
	for x&1 == 0 {
		x >>= 1
		c++
	}
	return c
}

func popcnt(x uint64) uint64 {
	c := uint64(0)
	for ; x != 0; x &= x - 1 {
		c++
	}
	return c
}

func init() {
	sc := func(name string, code byte, params []Param, result Param, eval func(a []V) Res) *Op {
		return register(&Op{Name: name, Enc: []byte{code}, Params: params, Result: result,
			Eval: func(a []V, _ []byte) Res { return eval(a) }})
	}
	// ---- integer test / compare ----
	for wi, n := range []int{32, 64} {
		n := n
		ty, pt := "i32", pI32
		base := byte(0x45)
		if wi == 1 {
			ty, pt = "i64", pI64
			base = 0x50
		}
		m := mask(n)
		sc(ty+".eqz", base, []Param{pt}, pI32, func(a []V) Res { return val(b2u(a[0][0]&m == 0)) })
		for i, f := range intCmps(n) {
			f := f
			sc(ty+"."+cmpNames[i], base+1+byte(i), []Param{pt, pt}, pI32, func(a []V) Res {
				return val(b2u(f(a[0][0]&m, a[1][0]&m)))
			})
		}
	}
	// ---- float compare ----
	for i := 0; i < 6; i++ {
		i := i
		sc("f32."+fcmpNames[i], 0x5b+byte(i), []Param{pF32, pF32}, pI32, func(a []V) Res {
			return val(fcmp(i, float64(f32(uint32(a[0][0]))), float64(f32(uint32(a[1][0])))))
		})
	}
	for i := 0; i < 6; i++ {
		i := i
		sc("f64."+fcmpNames[i], 0x61+byte(i), []Param{pF64, pF64}, pI32, func(a []V) Res {
			return val(fcmp(i, f64(a[0][0]), f64(a[1][0])))
		})
	}
	// ---- integer unary / binary ----
	for wi, n := range []int{32, 64} {
		n := n
		ty, pt, pc := "i32", pI32, pCnt32
		base := byte(0x67)
		if wi == 1 {
			ty, pt, pc = "i64", pI64, pCnt64
			base = 0x79
		}
		m := mask(n)
		sc(ty+".clz", base, []Param{pt}, pt, func(a []V) Res { return val(clz(a[0][0]&m, n)) })
		sc(ty+".ctz", base+1, []Param{pt}, pt, func(a []V) Res { return val(ctz(a[0][0], n)) })
		sc(ty+".popcnt", base+2, []Param{pt}, pt, func(a []V) Res { return val(popcnt(a[0][0] & m)) })
		for i, b := range intBinops(n) {
			b := b
			p2 := pt
			if b.cnt {
				p2 = pc
			}
			o := sc(ty+"."+b.name, base+3+byte(i), []Param{pt, p2}, pt, func(a []V) Res {
				r, trap := b.f(a[0][0]&m, a[1][0]&m)
				if trap != "" {
					return Res{Trap: trap}
				}
				return val(r)
			})
			o.MayTrap = b.trap
		}
	}
	// ---- float unary / binary ----
	un32 := []struct {
		n string
		f fun32
		d bool
	}{{"abs", FAbs32, false}, {"neg", FNeg32, false}, {"ceil", FCeil32, true}, {"floor", FFloor32, true},
		{"trunc", FTrunc32, true}, {"nearest", FNearest32, true}, {"sqrt", FSqrt32, true}}
	for i, u := range un32 {
		u := u
		o := sc("f32."+u.n, 0x8b+byte(i), []Param{pF32}, pF32, func(a []V) Res {
			r, c := u.f(uint32(a[0][0]))
			return Res{V: V{uint64(r), 0}, NaN: [4]uint8{c}}
		})
		o.NaNNondet = u.d
	}
	bin32 := []struct {
		n string
		f fbin32
		d bool
	}{{"add", FAdd32, true}, {"sub", FSub32, true}, {"mul", FMul32, true}, {"div", FDiv32, true},
		{"min", FMin32, true}, {"max", FMax32, true}, {"copysign", FCopysign32, false}}
	for i, u := range bin32 {
		u := u
		o := sc("f32."+u.n, 0x92+byte(i), []Param{pF32, pF32}, pF32, func(a []V) Res {
			r, c := u.f(uint32(a[0][0]), uint32(a[1][0]))
			return Res{V: V{uint64(r), 0}, NaN: [4]uint8{c}}
		})
		o.NaNNondet = u.d
	}
	un64 := []struct {
		n string
		f fun64
		d bool
	}{{"abs", FAbs64, false}, {"neg", FNeg64, false}, {"ceil", FCeil64, true}, {"floor", FFloor64, true},
		{"trunc", FTrunc64, true}, {"nearest", FNearest64, true}, {"sqrt", FSqrt64, true}}
	for i, u := range un64 {
		u := u
		o := sc("f64."+u.n, 0x99+byte(i), []Param{pF64}, pF64, func(a []V) Res {
			r, c := u.f(a[0][0])
			return Res{V: V{r, 0}, NaN: [4]uint8{c}}
		})
		o.NaNNondet = u.d
	}
	bin64 := []struct {
		n string
		f fbin64
		d bool
	}{{"add", FAdd64, true}, {"sub", FSub64, true}, {"mul", FMul64, true}, {"div", FDiv64, true},
		{"min", FMin64, true}, {"max", FMax64, true}, {"copysign", FCopysign64, false}}
	for i, u := range bin64 {
		u := u
		o := sc("f64."+u.n, 0xa0+byte(i), []Param{pF64, pF64}, pF64, func(a []V) Res {
			r, c := u.f(a[0][0], a[1][0])
			return Res{V: V{r, 0}, NaN: [4]uint8{c}}
		})
		o.NaNNondet = u.d
	}
	// ---- conversions ----
	sc("i32.wrap_i64", 0xa7, []Param{pI64}, pI32, func(a []V) Res { return val(a[0][0] & 0xffffffff) })
	trunc := func(name string, code byte, from Param, to Param, bits int, signed bool) {
		o := sc(name, code, []Param{from}, to, func(a []V) Res {
			x := a[0][0]
			if from.T == F32 {
				x = b64(float64(f32(uint32(x)))) // exact; NaN stays NaN
			}
			v, trap, _ := Trunc(x, bits, signed)
			if trap != "" {
				return Res{Trap: trap}
			}
			return val(v)
		})
		o.MayTrap = true
	}
	trunc("i32.trunc_f32_s", 0xa8, pF32, pI32, 32, true)
	trunc("i32.trunc_f32_u", 0xa9, pF32, pI32, 32, false)
	trunc("i32.trunc_f64_s", 0xaa, pF64, pI32, 32, true)
	trunc("i32.trunc_f64_u", 0xab, pF64, pI32, 32, false)
	sc("i64.extend_i32_s", 0xac, []Param{pI32}, pI64, func(a []V) Res { return val(uint64(sx(a[0][0], 32))) })
	sc("i64.extend_i32_u", 0xad, []Param{pI32}, pI64, func(a []V) Res { return val(a[0][0] & 0xffffffff) })
	trunc("i64.trunc_f32_s", 0xae, pF32, pI64, 64, true)
	trunc("i64.trunc_f32_u", 0xaf, pF32, pI64, 64, false)
	trunc("i64.trunc_f64_s", 0xb0, pF64, pI64, 64, true)
	trunc("i64.trunc_f64_u", 0xb1, pF64, pI64, 64, false)
	conv := func(name string, code byte, from Param, to Param, bits int, signed bool) {
		sc(name, code, []Param{from}, to, func(a []V) Res {
			if to.T == F32 {
				return val(uint64(Convert32(a[0][0], bits, signed)))
			}
			return val(Convert64(a[0][0], bits, signed))
		})
	}
	conv("f32.convert_i32_s", 0xb2, pI32, pF32, 32, true)
	conv("f32.convert_i32_u", 0xb3, pI32, pF32, 32, false)
	conv("f32.convert_i64_s", 0xb4, pI64, pF32, 64, true)
	conv("f32.convert_i64_u", 0xb5, pI64, pF32, 64, false)
	sc("f32.demote_f64", 0xb6, []Param{pF64}, pF32, func(a []V) Res {
		r, c := FDemote(a[0][0])
		return Res{V: V{uint64(r), 0}, NaN: [4]uint8{c}}
	}).NaNNondet = true
	conv("f64.convert_i32_s", 0xb7, pI32, pF64, 32, true)
	conv("f64.convert_i32_u", 0xb8, pI32, pF64, 32, false)
	conv("f64.convert_i64_s", 0xb9, pI64, pF64, 64, true)
	conv("f64.convert_i64_u", 0xba, pI64, pF64, 64, false)
	sc("f64.promote_f32", 0xbb, []Param{pF32}, pF64, func(a []V) Res {
		r, c := FPromote(uint32(a[0][0]))
		return Res{V: V{r, 0}, NaN: [4]uint8{c}}
	}).NaNNondet = true
	// reinterpretations are bit exact: results are compared as raw bits (Shape SInt).
	sc("i32.reinterpret_f32", 0xbc, []Param{pF32}, pI32, func(a []V) Res { return val(a[0][0] & 0xffffffff) })
	sc("i64.reinterpret_f64", 0xbd, []Param{pF64}, pI64, func(a []V) Res { return val(a[0][0]) })
	sc("f32.reinterpret_i32", 0xbe, []Param{pI32}, Param{F32, SInt}, func(a []V) Res { return val(a[0][0] & 0xffffffff) })
	sc("f64.reinterpret_i64", 0xbf, []Param{pI64}, Param{F64, SInt}, func(a []V) Res { return val(a[0][0]) })
	// ---- sign extension ----
	sc("i32.extend8_s", 0xc0, []Param{pI32}, pI32, func(a []V) Res { return val(uint64(sx(a[0][0], 8)) & 0xffffffff) })
	sc("i32.extend16_s", 0xc1, []Param{pI32}, pI32, func(a []V) Res { return val(uint64(sx(a[0][0], 16)) & 0xffffffff) })
	sc("i64.extend8_s", 0xc2, []Param{pI64}, pI64, func(a []V) Res { return val(uint64(sx(a[0][0], 8))) })
	sc("i64.extend16_s", 0xc3, []Param{pI64}, pI64, func(a []V) Res { return val(uint64(sx(a[0][0], 16))) })
	sc("i64.extend32_s", 0xc4, []Param{pI64}, pI64, func(a []V) Res { return val(uint64(sx(a[0][0], 32))) })
	// ---- saturating truncation (0xfc prefix) ----
	sat := func(name string, sub byte, from Param, to Param, bits int, signed bool) {
		register(&Op{Name: name, Enc: []byte{0xfc, sub}, Params: []Param{from}, Result: to,
			Eval: func(a []V, _ []byte) Res {
				x := a[0][0]
				if from.T == F32 {
					x = b64(float64(f32(uint32(x))))
				}
				return val(TruncSat(x, bits, signed))
			}})
	}
	sat("i32.trunc_sat_f32_s", 0, pF32, pI32, 32, true)
	sat("i32.trunc_sat_f32_u", 1, pF32, pI32, 32, false)
	sat("i32.trunc_sat_f64_s", 2, pF64, pI32, 32, true)
	sat("i32.trunc_sat_f64_u", 3, pF64, pI32, 32, false)
	sat("i64.trunc_sat_f32_s", 4, pF32, pI64, 64, true)
	sat("i64.trunc_sat_f32_u", 5, pF32, pI64, 64, false)
	sat("i64.trunc_sat_f64_s", 6, pF64, pI64, 64, true)
	sat("i64.trunc_sat_f64_u", 7, pF64, pI64, 64, false)
}
