package refnum

import "sort"

// Boundary operand sets (deduplicated, sorted). They are used by the operand generator of
// check C05 and by SelfTest.

func dedup64(in []uint64) []uint64 {
	m := map[uint64]bool{}
	var out []uint64
	for _, v := range in {
		if !m[v] {
			m[v] = true
			out = append(out, v)
		}
	}
	sort.Slice(out, func(i, j int) bool { return out[i] < out[j] })
	return out
}

// BoundaryI32 : integers interesting for 32-bit arithmetic, compares, conversions.
func BoundaryI32() []uint64 {
	v := []uint64{0, 1, 2, 3, 5, 7, 10, 0xffffffff, 0xfffffffe, 0xfffffffd, 0x80000000, 0x80000001, 0x7fffffff, 0x7ffffffe,
		0x7f, 0x80, 0x81, 0xff, 0x100, 0x7fff, 0x8000, 0x8001, 0xffff, 0x10000, 0xffffff80, 0xffffff7f, 0xffff8000, 0xffff7fff,
		0x55555555, 0xaaaaaaaa, 0x0f0f0f0f, 0xf0f0f0f0, 0x00ff00ff, 0x12345678, 0xdeadbeef, 0x40000000, 0xc0000000,
		// halfway cases of int -> f32 conversion
		16777216, 16777217, 16777218, 16777219, 0x7fffffc0, 0x7fffffbf, 0x7fffffc1, 0xffffff80, 0xffffff7f, 0xffffff81,
		0x80000040, 0x80000041, 0x8000003f, 0xff000001, 0xfeffffff,
		// counts
		8, 15, 16, 17, 31, 32, 33, 63, 64, 65}
	for _, k := range []uint{4, 8, 15, 16, 23, 24, 30} {
		v = append(v, 1<<k-1, 1<<k, 1<<k+1, (-(uint64(1) << k))&0xffffffff)
	}
	return dedup64(v)
}

// BoundaryI64 : integers interesting for 64-bit arithmetic and conversions.
func BoundaryI64() []uint64 {
	v := []uint64{0, 1, 2, 3, 7, 10, ^uint64(0), ^uint64(0) - 1, ^uint64(0) - 2, 1 << 63, 1<<63 + 1, 1<<63 - 1, 1<<63 - 2,
		0x7fffffff, 0x80000000, 0x80000001, 0xffffffff, 0x100000000, 0x100000001, 0xffffffff80000000, 0xffffffff7fffffff, 0xffffffff00000000,
		0x7f, 0x80, 0xff, 0x7fff, 0x8000, 0xffff, 0xffffffffffffff80, 0xffffffffffff8000,
		0x5555555555555555, 0xaaaaaaaaaaaaaaaa, 0x0123456789abcdef, 0xfedcba9876543210, 0x00000000ffffffff, 0x4000000000000000,
		// f64 conversion halfway cases
		1 << 53, 1<<53 + 1, 1<<53 + 2, 1<<53 + 3, 1<<53 - 1, 0x7ffffffffffffc00, 0x7ffffffffffffbff, 0x7ffffffffffffdff, 0x7ffffffffffffe00,
		0x8000000000000400, 0x8000000000000401, 0x80000000000003ff, 0xfffffffffffff800, 0xfffffffffffffbff, 0xfffffffffffffc00, 0xfffffffffffffc01,
		// f32 conversion halfway cases
		1 << 24, 1<<24 + 1, 1<<24 + 3, 0x7fffff4000000000, 0x7fffff3fffffffff, 0x7fffff4000000001, 0x7fffffc000000000, 0x7fffffbfffffffff,
		0xffffff7fffffffff, 0xffffff8000000000, 0xffffff8000000001, 0xffffff0000000000, 0x8000004000000000, 0x8000004000000001, 0x800000c000000000,
		0x0020000020000000, 0x0020000020000001, 0x0020000060000000,
		// counts
		8, 16, 31, 32, 33, 63, 64, 65, 127, 128}
	for _, k := range []uint{8, 16, 24, 31, 32, 33, 52, 53, 62} {
		v = append(v, 1<<k-1, 1<<k, 1<<k+1, -(uint64(1) << k))
	}
	return dedup64(v)
}

// BoundaryCount : shift / rotate counts (as 64-bit values; truncate for i32).
func BoundaryCount() []uint64 {
	return dedup64([]uint64{0, 1, 2, 3, 4, 5, 6, 7, 8, 9, 15, 16, 17, 24, 31, 32, 33, 40, 47, 48, 63, 64, 65, 71, 72, 127, 128, 129, 255, 256,
		0x7fffffff, 0x80000000, 0xffffffff, 0xffffffe0, 0xfffffff8, 0xffffffc1})
}

// BoundaryCount64 adds counts that only exist for i64 operands.
func BoundaryCount64() []uint64 {
	return dedup64(append(BoundaryCount(), 1<<32, 1<<32+1, 1<<32+63, 1<<63, ^uint64(0), ^uint64(0)-63, 1<<40+33))
}

// BoundaryI16 : at least 128 values of 16-bit lanes.
func BoundaryI16() []uint64 {
	var v []uint64
	for i := uint64(0); i <= 17; i++ {
		v = append(v, i, (-i)&0xffff)
	}
	for k := uint(1); k <= 15; k++ {
		p := uint64(1) << k
		v = append(v, p-1, p, p+1, (-p)&0xffff, (-p-1)&0xffff, (-p+1)&0xffff)
	}
	v = append(v, 0x7f, 0x80, 0x81, 0xff, 0x100, 0x5555, 0xaaaa, 0x3333, 0xcccc, 0x0f0f, 0xf0f0, 0x00ff, 0xff00, 0x1234, 0xfedc,
		0x7ffe, 0x7fff, 0x8000, 0x8001, 0x8002, 0xfffe, 0xffff, 0x5a82, 0xa57e, 0xb505, 0x4afb, 0x3fff, 0x4000, 0x4001, 0xbfff, 0xc000, 0xc001,
		0x00b5, 0x0b50, 0x6000, 0xa000, 0x7f80, 0x807f, 0x7f7f, 0x8080)
	for i := uint64(1); len(dedup64(v)) < 160; i++ {
		v = append(v, (i*0x9e37)&0xffff)
	}
	return dedup64(v)
}

func f32pm(v []uint64, pos ...uint32) []uint64 {
	for _, p := range pos {
		v = append(v, uint64(p), uint64(p|0x80000000))
	}
	return v
}

// BoundaryF32 : binary32 bit patterns.
func BoundaryF32() []uint64 {
	var v []uint64
	v = f32pm(v,
		0x00000000,                                     // 0
		0x00000001, 0x00000002, 0x007fffff, 0x00400000, // subnormals
		0x00800000, 0x00800001, 0x00ffffff, 0x01000000, // smallest normals
		0x3f800000, 0x3f800001, 0x3f7fffff, 0x3fc00000, // 1, 1+ulp, 1-ulp, 1.5
		0x3f000000, 0x3effffff, 0x3f000001, // 0.5, 0.5-ulp (0.49999997), 0.5+ulp
		0x40000000, 0x40200000, 0x40600000, 0x40900000, 0x40b00000, // 2, 2.5, 3.5, 4.5, 5.5
		0x3f400000, 0x3e800000, 0x3fe00000, // .75 .25 1.75
		0x4b000000, 0x4affffff, 0x4b000001, 0x4a800001, 0x4b800000, 0x4b7fffff, // 2^23, 2^23-0.5, 2^23+1, 2^22+.5, 2^24, 2^24-1
		0x4afffffe, 0x4afffffd, // 8388607, 8388606.5
		0x33800000, 0x33000000, 0x34000000, 0x33800001, // 2^-24 (half ulp of 1), 2^-25, 2^-23, just above half ulp
		0x3f800800, 0x3f801000, 0x3f7ff000, // 1+2^-12 (square is a tie), 1+2^-11
		0x4f000000, 0x4effffff, 0x4f000001, // 2^31, 2^31-128 (2147483520), next above
		0xcf000000&0x7fffffff, 0x4f800000, 0x4f7fffff, 0x4f800001, // 2^32, 2^32-256
		0x5f000000, 0x5effffff, 0x5f000001, 0x5f800000, 0x5f7fffff, 0x5f800001, // 2^63, 2^64 neighbourhoods
		0x47000000, 0x46fffe00, 0x47800000, 0x477fff00, 0x43000000, 0x42fe0000, 0x43800000, 0x437f0000, // 2^15, 32767, 2^16, 65535, 128, 127, 256, 255
		0x7f7fffff, 0x7f7ffffe, 0x7f000000, 0x7e800000, // MAX, MAX-ulp, 2^127, 2^126
		0x7f800000,                                                                         // inf
		0x7fc00000, 0x7fc00001, 0x7fe00000, 0x7fffffff, 0x7f800001, 0x7fa00000, 0x7fbfffff, // NaNs: canonical, quiet+payload, signalling
		0x3eaaaaab, 0x40490fdb, 0x402df854, 0x41200000, 0x3dcccccd, 0x5d5e0b6b, 0x1e3ce508, // 1/3 pi e 10 0.1 1e18 1e-20
		0x00000003, 0x007ffffe, 0x3fffffff, 0x40400000, 0x0c000000, 0x0c800000, // 3 ulp, ..., 1.99999988, 3, tiny normals whose products are subnormal
		0x20000000, 0x1f800000, 0x5f3504f3, 0x3fb504f3, // 2^-63, 2^-64, sqrt(2)*2^63, sqrt 2
	)
	v = append(v, 0xcf000001, 0xbf7fffff, 0xbf800000, 0xdf000001) // -2^31-256 (first i32_s overflow), -0.99999994, -1, -2^63-ulp
	return dedup64(v)
}

func f64pm(v []uint64, pos ...uint64) []uint64 {
	for _, p := range pos {
		v = append(v, p, p|1<<63)
	}
	return v
}

// BoundaryF64 : binary64 bit patterns.
func BoundaryF64() []uint64 {
	var v []uint64
	v = f64pm(v,
		0,
		1, 2, 0x000fffffffffffff, 0x0008000000000000,
		0x0010000000000000, 0x0010000000000001, 0x001fffffffffffff, 0x0020000000000000,
		0x3ff0000000000000, 0x3ff0000000000001, 0x3fefffffffffffff, 0x3ff8000000000000,
		0x3fe0000000000000, 0x3fdfffffffffffff, 0x3fe0000000000001,
		0x4000000000000000, 0x4004000000000000, 0x400c000000000000, 0x4012000000000000, 0x4016000000000000,
		0x3fe8000000000000, 0x3fd0000000000000, 0x3ffc000000000000,
		0x4330000000000000, 0x432fffffffffffff, 0x4330000000000001, 0x4320000000000001, 0x4340000000000000, 0x433fffffffffffff, // 2^52 neighbourhood, 2^53
		0x432ffffffffffffe, 0x432ffffffffffffd,
		0x3ca0000000000000, 0x3c90000000000000, 0x3cb0000000000000, 0x3ca0000000000001, // 2^-53 (half ulp of 1) ...
		0x3ff0000004000000, 0x3ff0000008000000, // 1+2^-26: square is 1+2^-25+2^-52 (not a tie but sticky), 1+2^-25
		0x3ff0000000000800, 0x3ff0000010000000, 0x3ff0000020000000, // products with ties: (1+2^-27)... mixed
		0x41e0000000000000, 0x41dfffffffc00000, 0x41dfffffffffffff, 0x41e0000000000001, 0x41dfffffffe00000, // 2^31, 2^31-1, just below 2^31, above, 2147483647.5
		0x41e0000000200000, 0x41e00000001fffff, 0x41e0000000100000, // 2^31+1 (=-(-2147483649) boundary), just below, 2^31+0.5
		0x41f0000000000000, 0x41efffffffe00000, 0x41efffffffffffff, 0x41effffffff00000, // 2^32, 2^32-1, just below 2^32, 2^32-0.5
		0x43e0000000000000, 0x43dfffffffffffff, 0x43e0000000000001, 0x43f0000000000000, 0x43efffffffffffff, 0x43f0000000000001, // 2^63, 2^64
		0x40e0000000000000, 0x40dfffc000000000, 0x40f0000000000000, 0x40efffe000000000, 0x4060000000000000, 0x405fc00000000000, // 2^15 32767 2^16 65535 128 127
		0x7fefffffffffffff, 0x7feffffffffffffe, 0x7fe0000000000000,
		0x7ff0000000000000,
		0x7ff8000000000000, 0x7ff8000000000001, 0x7ffc000000000000, 0x7fffffffffffffff, 0x7ff0000000000001, 0x7ff4000000000000, 0x7ff7ffffffffffff,
		0x7ff8000020000000, 0x7ff0000020000000, 0x7ff0000000000400, // NaNs whose payload matters for demotion
		// demotion boundaries: f32 MAX, halfway to overflow, just below; f32 min normal / subnormal halfway cases
		0x47efffffe0000000, 0x47effffff0000000, 0x47efffffefffffff, 0x47effffff0000001, 0x47f0000000000000,
		0x3810000000000000, 0x380fffffffffffff, 0x380ffffff0000000, 0x36a0000000000000, 0x3690000000000000, 0x3690000000000001, 0x36a8000000000000, 0x36b8000000000000,
		0x3ff0000010000000, 0x3ff0000030000000, 0x3ff000002fffffff, 0x3ff0000010000001, // ties of demotion: 1+2^-24, 1+3*2^-24
		0x3fd5555555555555, 0x400921fb54442d18, 0x4005bf0a8b145769, 0x4024000000000000, 0x3fb999999999999a, 0x43abc16d674ec800, 0x3bc79ca10c924223,
		3, 0x000ffffffffffffe, 0x3fffffffffffffff, 0x4008000000000000, 0x2000000000000000, 0x1ff0000000000000, 0x5fe6a09e667f3bcd, 0x3ff6a09e667f3bcd,
	)
	v = append(v, 0xc1e0000000200000, 0xc1e00000001fffff, 0xc1e0000000100000, 0xbfefffffffffffff, 0xbff0000000000000, 0xc3e0000000000001)
	return dedup64(v)
}

// BoundaryI8 : all 256 byte values.
func BoundaryI8() []uint64 {
	v := make([]uint64, 256)
	for i := range v {
		v[i] = uint64(i)
	}
	return v
}
