package refnum

import "math"

// ffmt describes an IEEE-754 binary interchange format.
type ffmt struct {
	mbits int // fraction bits (23 / 52)
	ebits int // exponent bits (8 / 11)
}

var (
	fmt32 = ffmt{23, 8}
	fmt64 = ffmt{52, 11}
)

func (f ffmt) bias() int        { return 1<<uint(f.ebits-1) - 1 }
func (f ffmt) emax() uint64     { return 1<<uint(f.ebits) - 1 }
func (f ffmt) fracMask() uint64 { return 1<<uint(f.mbits) - 1 }
func (f ffmt) signBit() uint64  { return 1 << uint(f.mbits+f.ebits) }
func (f ffmt) quiet() uint64    { return 1 << uint(f.mbits-1) }
func (f ffmt) exp(b uint64) uint64 {
	return b >> uint(f.mbits) & f.emax()
}
func (f ffmt) isNaN(b uint64) bool { return f.exp(b) == f.emax() && b&f.fracMask() != 0 }
func (f ffmt) isInf(b uint64) bool { return f.exp(b) == f.emax() && b&f.fracMask() == 0 }
func (f ffmt) isZero(b uint64) bool {
	return b&^f.signBit() == 0
}
func (f ffmt) canonNaN() uint64 { return f.emax()<<uint(f.mbits) | f.quiet() }

// isCanon: canonical NaN = payload is exactly the quiet bit (either sign).
func (f ffmt) isCanon(b uint64) bool {
	return f.isNaN(b) && b&f.fracMask() == f.quiet()
}

// nanRes is the NaN outcome of an arithmetic operator for the given inputs (spec: nans_N{z*}):
// if every NaN input is canonical (or there is none) the result is a canonical NaN, otherwise
// any arithmetic NaN.
func (f ffmt) nanRes(in ...uint64) (uint64, uint8) {
	for _, b := range in {
		if f.isNaN(b) && !f.isCanon(b) {
			return f.canonNaN(), NaNArith
		}
	}
	return f.canonNaN(), NaNCanon
}

// rounding modes for roundInt
const (
	rCeil = iota
	rFloor
	rTrunc
	rNearest
)

// roundInt implements fceil/ffloor/ftrunc/fnearest at bit level.
func (f ffmt) roundInt(b uint64, mode int) (uint64, uint8) {
	if f.isNaN(b) {
		return f.nanRes(b)
	}
	if f.isInf(b) || f.isZero(b) {
		return b, Exact
	}
	sign := b & f.signBit()
	neg := sign != 0
	e := int(f.exp(b)) - f.bias()
	m := b & f.fracMask()
	one := uint64(f.bias()) << uint(f.mbits) // bits of 1.0
	if e >= f.mbits {
		return b, Exact // already an integer
	}
	if e < 0 { // 0 < |x| < 1 (includes subnormals)
		switch mode {
		case rTrunc:
			return sign, Exact
		case rFloor:
			if neg {
				return sign | one, Exact // -1
			}
			return 0, Exact
		case rCeil:
			if neg {
				return sign, Exact // -0
			}
			return one, Exact
		default: // nearest, ties to even
			if e == -1 && m != 0 { // 0.5 < |x| < 1
				return sign | one, Exact
			}
			return sign, Exact // |x| <= 0.5 -> 0 (0.5 ties to even 0)
		}
	}
	fb := uint(f.mbits - e) // number of fractional bits, 1..mbits
	fmask := uint64(1)<<fb - 1
	frac := m & fmask
	if frac == 0 {
		return b, Exact
	}
	down := b &^ fmask     // towards zero
	up := down + (1 << fb) // away from zero (carry into the exponent is correct)
	switch mode {
	case rTrunc:
		return down, Exact
	case rFloor:
		if neg {
			return up, Exact
		}
		return down, Exact
	case rCeil:
		if neg {
			return down, Exact
		}
		return up, Exact
	}
	half := uint64(1) << (fb - 1)
	switch {
	case frac > half:
		return up, Exact
	case frac < half:
		return down, Exact
	}
	// tie: choose the even integer
	var odd bool
	if int(fb) == f.mbits {
		odd = true // integer part is the implicit leading 1
	} else {
		odd = m>>fb&1 == 1
	}
	if odd {
		return up, Exact
	}
	return down, Exact
}

// ---- f32 ----

func f32(b uint32) float32 { return math.Float32frombits(b) }
func b32(x float32) uint32 { return math.Float32bits(x) }
func f64(b uint64) float64 { return math.Float64frombits(b) }
func b64(x float64) uint64 { return math.Float64bits(x) }

func isNaN32(b uint32) bool { return b&0x7f800000 == 0x7f800000 && b&0x7fffff != 0 }
func isNaN64(b uint64) bool {
	return b&0x7ff0000000000000 == 0x7ff0000000000000 && b&0xfffffffffffff != 0
}

func nan32(in ...uint32) (uint32, uint8) {
	for _, b := range in {
		if isNaN32(b) && b&0x7fffff != 0x400000 {
			return 0x7fc00000, NaNArith
		}
	}
	return 0x7fc00000, NaNCanon
}

func nan64(in ...uint64) (uint64, uint8) {
	for _, b := range in {
		if isNaN64(b) && b&0xfffffffffffff != 0x8000000000000 {
			return 0x7ff8000000000000, NaNArith
		}
	}
	return 0x7ff8000000000000, NaNCanon
}

// Binary arithmetic. The fast path is Go's own float arithmetic (IEEE-754 round to nearest
// even on amd64, no fusing); SelfTest cross-checks it against exact rational arithmetic.

type fbin32 func(a, b uint32) (uint32, uint8)
type fbin64 func(a, b uint64) (uint64, uint8)
type fun32 func(a uint32) (uint32, uint8)
type fun64 func(a uint64) (uint64, uint8)

func arith32(a, b uint32, r float32) (uint32, uint8) {
	if r != r {
		return nan32(a, b)
	}
	return b32(r), Exact
}

func arith64(a, b uint64, r float64) (uint64, uint8) {
	if r != r {
		return nan64(a, b)
	}
	return b64(r), Exact
}

func FAdd32(a, b uint32) (uint32, uint8) { return arith32(a, b, float32(f32(a)+f32(b))) }
func FSub32(a, b uint32) (uint32, uint8) { return arith32(a, b, float32(f32(a)-f32(b))) }
func FMul32(a, b uint32) (uint32, uint8) { return arith32(a, b, float32(f32(a)*f32(b))) }
func FDiv32(a, b uint32) (uint32, uint8) { return arith32(a, b, float32(f32(a)/f32(b))) }
func FAdd64(a, b uint64) (uint64, uint8) { return arith64(a, b, f64(a)+f64(b)) }
func FSub64(a, b uint64) (uint64, uint8) { return arith64(a, b, f64(a)-f64(b)) }
func FMul64(a, b uint64) (uint64, uint8) { return arith64(a, b, f64(a)*f64(b)) }
func FDiv64(a, b uint64) (uint64, uint8) { return arith64(a, b, f64(a)/f64(b)) }

func FSqrt64(a uint64) (uint64, uint8) {
	r := math.Sqrt(f64(a))
	if r != r {
		return nan64(a)
	}
	return b64(r), Exact
}

// FSqrt32: sqrt of a binary32 computed in binary64 and rounded once more is correctly
// rounded (53 >= 2*24+2); SelfTest verifies it with the exact validity predicate.
func FSqrt32(a uint32) (uint32, uint8) {
	r := float32(math.Sqrt(float64(f32(a))))
	if r != r {
		return nan32(a)
	}
	return b32(r), Exact
}

// fmin / fmax (spec 4.3.3): NaN if either is NaN; zeros of opposite sign: min -0, max +0.
func FMin32(a, b uint32) (uint32, uint8) {
	if isNaN32(a) || isNaN32(b) {
		return nan32(a, b)
	}
	x, y := f32(a), f32(b)
	if x == y { // equal, or zeros of either sign
		return a | b, Exact // equal non-zero: a==b bitwise; zeros: negative if either is negative
	}
	if x < y {
		return a, Exact
	}
	return b, Exact
}

func FMax32(a, b uint32) (uint32, uint8) {
	if isNaN32(a) || isNaN32(b) {
		return nan32(a, b)
	}
	x, y := f32(a), f32(b)
	if x == y {
		return a & b, Exact // zeros: positive if either is positive
	}
	if x > y {
		return a, Exact
	}
	return b, Exact
}

func FMin64(a, b uint64) (uint64, uint8) {
	if isNaN64(a) || isNaN64(b) {
		return nan64(a, b)
	}
	x, y := f64(a), f64(b)
	if x == y {
		return a | b, Exact
	}
	if x < y {
		return a, Exact
	}
	return b, Exact
}

func FMax64(a, b uint64) (uint64, uint8) {
	if isNaN64(a) || isNaN64(b) {
		return nan64(a, b)
	}
	x, y := f64(a), f64(b)
	if x == y {
		return a & b, Exact
	}
	if x > y {
		return a, Exact
	}
	return b, Exact
}

// pmin(a,b) = b < a ? b : a ; pmax(a,b) = a < b ? b : a  (bit exact, NaNs propagate as-is)
func FPMin32(a, b uint32) (uint32, uint8) {
	if f32(b) < f32(a) {
		return b, Exact
	}
	return a, Exact
}
func FPMax32(a, b uint32) (uint32, uint8) {
	if f32(a) < f32(b) {
		return b, Exact
	}
	return a, Exact
}
func FPMin64(a, b uint64) (uint64, uint8) {
	if f64(b) < f64(a) {
		return b, Exact
	}
	return a, Exact
}
func FPMax64(a, b uint64) (uint64, uint8) {
	if f64(a) < f64(b) {
		return b, Exact
	}
	return a, Exact
}

func FCopysign32(a, b uint32) (uint32, uint8) { return a&0x7fffffff | b&0x80000000, Exact }
func FCopysign64(a, b uint64) (uint64, uint8) {
	return a&0x7fffffffffffffff | b&0x8000000000000000, Exact
}
func FAbs32(a uint32) (uint32, uint8) { return a & 0x7fffffff, Exact }
func FNeg32(a uint32) (uint32, uint8) { return a ^ 0x80000000, Exact }
func FAbs64(a uint64) (uint64, uint8) { return a & 0x7fffffffffffffff, Exact }
func FNeg64(a uint64) (uint64, uint8) { return a ^ 0x8000000000000000, Exact }

func round32(mode int) fun32 {
	return func(a uint32) (uint32, uint8) {
		r, c := fmt32.roundInt(uint64(a), mode)
		return uint32(r), c
	}
}
func round64(mode int) fun64 {
	return func(a uint64) (uint64, uint8) { return fmt64.roundInt(a, mode) }
}

var (
	FCeil32, FFloor32, FTrunc32, FNearest32 = round32(rCeil), round32(rFloor), round32(rTrunc), round32(rNearest)
	FCeil64, FFloor64, FTrunc64, FNearest64 = round64(rCeil), round64(rFloor), round64(rTrunc), round64(rNearest)
)

// comparisons
func fcmp(kind int, x, y float64) uint64 {
	var r bool
	switch kind {
	case 0:
		r = x == y
	case 1:
		r = x != y
	case 2:
		r = x < y
	case 3:
		r = x > y
	case 4:
		r = x <= y
	default:
		r = x >= y
	}
	if r {
		return 1
	}
	return 0
}

// ---- conversions ----

// FDemote: binary64 -> binary32, round to nearest even (Go's conversion; SelfTest checks it
// against big.Float). NaN: canonical if the input is canonical, else arithmetic.
func FDemote(a uint64) (uint32, uint8) {
	if isNaN64(a) {
		_, c := nan64(a)
		return 0x7fc00000, c
	}
	return b32(float32(f64(a))), Exact
}

// FPromote: exact.
func FPromote(a uint32) (uint64, uint8) {
	if isNaN32(a) {
		_, c := nan32(a)
		return 0x7ff8000000000000, c
	}
	return b64(float64(f32(a))), Exact
}

// truncMag returns trunc(|x|) of the finite binary64 x as an integer, ok=false when it does
// not fit 64 bits.
func truncMag(a uint64) (mag uint64, ok bool) {
	e := int(a>>52&0x7ff) - 1023
	if e < 0 {
		return 0, true // |x| < 1 (also zero, subnormals)
	}
	if e >= 64 {
		return 0, false
	}
	m := a&0xfffffffffffff | 1<<52
	if e >= 52 {
		return m << uint(e-52), true
	}
	return m >> uint(52-e), true
}

// Trunc converts the binary64 x (binary32 operands are promoted exactly first) to an integer
// of `bits` bits. Result status: "" ok, TrapInvalid for NaN, TrapOverflow when trunc(x) is not
// representable (incl. infinities). lo/hi are the saturated values for the failing cases.
func Trunc(a uint64, bits int, signed bool) (val uint64, trap string, sat uint64) {
	if isNaN64(a) {
		return 0, TrapInvalid, 0
	}
	neg := a>>63 != 0
	var max, minMag uint64
	if signed {
		max = 1<<uint(bits-1) - 1
		minMag = 1 << uint(bits-1)
	} else {
		max = mask(bits)
		minMag = 0
	}
	satv := max
	if neg {
		satv = (-minMag) & mask(bits)
	}
	if a&0x7fffffffffffffff == 0x7ff0000000000000 {
		return 0, TrapOverflow, satv
	}
	mag, ok := truncMag(a)
	if !ok {
		return 0, TrapOverflow, satv
	}
	if neg {
		if mag > minMag {
			return 0, TrapOverflow, satv
		}
		return (-mag) & mask(bits), "", 0
	}
	if mag > max {
		return 0, TrapOverflow, satv
	}
	return mag, "", 0
}

// TruncSat is the saturating truncation.
func TruncSat(a uint64, bits int, signed bool) uint64 {
	v, trap, sat := Trunc(a, bits, signed)
	switch trap {
	case "":
		return v
	case TrapInvalid:
		return 0
	}
	return sat
}

// cvtMag converts the unsigned integer x to the float format, round to nearest even.
func (f ffmt) cvtMag(x uint64) uint64 {
	if x == 0 {
		return 0
	}
	n := 64
	for x>>uint(n-1) == 0 {
		n--
	}
	p := f.mbits + 1 // precision
	var mant uint64
	if n <= p {
		mant = x << uint(p-n)
	} else {
		sh := uint(n - p)
		mant = x >> sh
		rem := x & (1<<sh - 1)
		half := uint64(1) << (sh - 1)
		if rem > half || (rem == half && mant&1 == 1) {
			mant++
			if mant == 1<<uint(p) {
				mant >>= 1
				n++
			}
		}
	}
	return uint64(n-1+f.bias())<<uint(f.mbits) | mant&f.fracMask()
}

// Convert converts an integer of `bits` bits to the float format.
func (f ffmt) Convert(x uint64, bits int, signed bool) uint64 {
	x &= mask(bits)
	if signed && sx(x, bits) < 0 {
		return f.signBit() | f.cvtMag(uint64(-sx(x, bits)))
	}
	return f.cvtMag(x)
}

func Convert32(x uint64, bits int, signed bool) uint32 { return uint32(fmt32.Convert(x, bits, signed)) }
func Convert64(x uint64, bits int, signed bool) uint64 { return fmt64.Convert(x, bits, signed) }
