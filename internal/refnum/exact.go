package refnum

import (
	"fmt"
	"math"
	"math/big"
)

// Exact rational reference for the float fast paths, and SelfTest which cross-checks every
// fast path of this package against it on the boundary sets and on pseudo-random patterns.

func rat64(b uint64) *big.Rat { r := new(big.Rat); r.SetFloat64(f64(b)); return r }

// exactBin computes op(a,b) for finite/infinite/NaN binary64 inputs exactly and rounds once to
// the target format (32 or 64). ok=false means "NaN".
func exactBin(op byte, a, b uint64, to int) (bits uint64, isNaN bool) {
	if isNaN64(a) || isNaN64(b) {
		return 0, true
	}
	sa, sb := a>>63, b>>63
	infA, infB := a<<1 == 0xffe0000000000000, b<<1 == 0xffe0000000000000
	zA, zB := a<<1 == 0, b<<1 == 0
	enc := func(sign uint64, mag string) uint64 {
		var v uint64
		if to == 32 {
			if mag == "inf" {
				v = 0x7f800000
			}
			return v | sign<<31
		}
		if mag == "inf" {
			v = 0x7ff0000000000000
		}
		return v | sign<<63
	}
	round := func(r *big.Rat, zeroSign uint64) uint64 {
		if r.Sign() == 0 {
			return enc(zeroSign, "0")
		}
		if to == 32 {
			f, _ := r.Float32()
			return uint64(b32(f))
		}
		f, _ := r.Float64()
		return b64(f)
	}
	switch op {
	case '-':
		return exactBin('+', a, b^1<<63, to)
	case '+':
		if infA || infB {
			if infA && infB && sa != sb {
				return 0, true
			}
			if infA {
				return enc(sa, "inf"), false
			}
			return enc(sb, "inf"), false
		}
		zs := uint64(0) // exact zero sum: +0 unless both operands are -0 / negative zeros
		if zA && zB && sa == 1 && sb == 1 {
			zs = 1
		}
		return round(new(big.Rat).Add(rat64(a), rat64(b)), zs), false
	case '*':
		s := sa ^ sb
		if (infA && zB) || (zA && infB) {
			return 0, true
		}
		if infA || infB {
			return enc(s, "inf"), false
		}
		return round(new(big.Rat).Mul(rat64(a), rat64(b)), s), false
	case '/':
		s := sa ^ sb
		if (infA && infB) || (zA && zB) {
			return 0, true
		}
		if infA || zB {
			return enc(s, "inf"), false
		}
		if infB || zA {
			return enc(s, "0"), false
		}
		return round(new(big.Rat).Quo(rat64(a), rat64(b)), s), false
	}
	panic("exactBin: op")
}

// sqrtValid is the exact validity predicate: r is the correctly rounded square root of the
// positive finite x in the format with precision of `to` bits (both given as binary64 values):
// lo^2 <= x <= hi^2 where lo/hi are the midpoints between r and its neighbours, equality being
// allowed only when r has an even significand (ties to even).
func sqrtValid(x, r uint64, to int) bool {
	var pred, succ float64
	even := false
	if to == 32 {
		rb := b32(float32(f64(r)))
		if float64(f32(rb)) != f64(r) {
			return false
		}
		pred, succ = float64(f32(rb-1)), float64(f32(rb+1))
		even = rb&1 == 0
	} else {
		pred, succ = f64(r-1), f64(r+1)
		even = r&1 == 0
	}
	if math.IsInf(succ, 0) || f64(r) <= 0 {
		return false
	}
	two := big.NewRat(2, 1)
	mid := func(p, q float64) *big.Rat {
		m := new(big.Rat).Add(new(big.Rat).SetFloat64(p), new(big.Rat).SetFloat64(q))
		return m.Quo(m, two)
	}
	lo, hi := mid(pred, f64(r)), mid(f64(r), succ)
	lo.Mul(lo, lo)
	hi.Mul(hi, hi)
	xr := rat64(x)
	cl, ch := lo.Cmp(xr), xr.Cmp(hi)
	if cl > 0 || ch > 0 {
		return false
	}
	if (cl == 0 || ch == 0) && !even {
		return false
	}
	return true
}

type prng uint64

func (p *prng) next() uint64 {
	*p += 0x9e3779b97f4a7c15
	z := uint64(*p)
	z = (z ^ z>>30) * 0xbf58476d1ce4e5b9
	z = (z ^ z>>27) * 0x94d049bb133111eb
	return z ^ z>>31
}

// SelfTest cross-checks the reference against itself (exact arithmetic vs. fast paths, known
// values from the specification's test suite). rounds scales the pseudo-random part.
func SelfTest(rounds int) []string {
	var errs []string
	bad := func(format string, a ...any) {
		if len(errs) < 40 {
			errs = append(errs, fmt.Sprintf(format, a...))
		}
	}
	ev := func(name string, imm []byte, args ...V) Res {
		o := ByName(name)
		if o == nil {
			bad("unknown op %s", name)
			return Res{}
		}
		return o.Eval(args, imm)
	}
	s := func(x uint64) V { return V{x, 0} }
	expect := func(name string, want uint64, args ...uint64) {
		var a []V
		for _, x := range args {
			a = append(a, s(x))
		}
		r := ev(name, nil, a...)
		if r.Trap != "" || r.V[0] != want || r.NaN[0] != Exact {
			bad("known value: %s%x = %x/%q/%d, want %x", name, args, r.V[0], r.Trap, r.NaN[0], want)
		}
	}
	expectTrap := func(name, trap string, args ...uint64) {
		var a []V
		for _, x := range args {
			a = append(a, s(x))
		}
		if r := ev(name, nil, a...); r.Trap != trap {
			bad("known trap: %s%x = %x/%q, want %q", name, args, r.V[0], r.Trap, trap)
		}
	}
	F := func(x float32) uint64 { return uint64(b32(x)) }
	D := b64
	negz32, negz64 := uint64(0x80000000), uint64(1)<<63
	// ---- known values ----
	expect("f32.nearest", F(2), F(2.5))
	expect("f32.nearest", F(4), F(3.5))
	expect("f32.nearest", F(-2), F(-2.5))
	expect("f32.nearest", negz32, F(-0.5))
	expect("f32.nearest", F(0), F(0.5))
	expect("f32.nearest", F(1), F(0.50000006))
	expect("f32.nearest", F(8388609), F(8388609))
	expect("f32.nearest", F(8388608), F(8388607.5))
	expect("f64.nearest", D(4503599627370496), D(4503599627370495.5))
	expect("f64.nearest", D(-4), D(-4.5))
	expect("f32.ceil", negz32, F(-0.5))
	expect("f32.floor", F(-1), F(-0.5))
	expect("f64.floor", D(-1), 1<<63|1)
	expect("f64.ceil", D(1), 1)
	expect("f32.trunc", negz32, F(-0.99))
	expect("f32.min", negz32, negz32, 0)
	expect("f32.min", negz32, 0, negz32)
	expect("f32.max", 0, negz32, 0)
	expect("f64.min", negz64, 0, negz64)
	expect("f64.max", 0, 0, negz64)
	expect("f32.min", F(float32(math.Inf(-1))), F(float32(math.Inf(-1))), F(1))
	expect("f32.copysign", F(-1), F(1), negz32)
	expect("f32.add", F(1), F(1), 0x33800000)             // 1 + 2^-24 ties to even 1
	expect("f32.add", 0x3f800002, 0x3f800001, 0x33800000) // (1+ulp) + half ulp ties to even 1+2ulp
	expect("f32.sqrt", F(2), F(4))
	expect("f32.sqrt", negz32, negz32)
	expect("f32.sqrt", 0x3fb504f3, F(2))
	expect("f64.sqrt", 0x3ff6a09e667f3bcd, D(2))
	expect("i32.trunc_f32_s", 0x7fffff80, 0x4effffff) // 2147483520.0
	expectTrap("i32.trunc_f32_s", TrapOverflow, 0x4f000000)
	expect("i32.trunc_f32_s", 0x80000000, 0xcf000000)
	expectTrap("i32.trunc_f32_s", TrapOverflow, 0xcf000001)
	expectTrap("i32.trunc_f32_s", TrapInvalid, 0x7fc00000)
	expectTrap("i32.trunc_f32_s", TrapOverflow, 0x7f800000)
	expect("i32.trunc_f32_u", 0, 0xbf7fffff) // -0.99999994 -> 0
	expectTrap("i32.trunc_f32_u", TrapOverflow, F(-1))
	expect("i32.trunc_f32_u", 0xffffff00, 0x4f7fffff)
	expectTrap("i32.trunc_f32_u", TrapOverflow, 0x4f800000)
	expect("i32.trunc_f64_s", 0x7fffffff, D(2147483647.9))
	expectTrap("i32.trunc_f64_s", TrapOverflow, D(2147483648))
	expect("i32.trunc_f64_s", 0x80000000, D(-2147483648.9))
	expectTrap("i32.trunc_f64_s", TrapOverflow, D(-2147483649))
	expect("i32.trunc_f64_u", 0xffffffff, D(4294967295.9))
	expectTrap("i32.trunc_f64_u", TrapOverflow, D(4294967296))
	expect("i32.trunc_f64_u", 0, D(-0.9999999))
	expect("i64.trunc_f64_s", 1<<63, D(-9223372036854775808))
	expectTrap("i64.trunc_f64_s", TrapOverflow, D(9223372036854775808))
	expect("i64.trunc_f64_s", 0x7ffffffffffffc00, 0x43dfffffffffffff)
	expect("i64.trunc_f64_u", 0xfffffffffffff800, 0x43efffffffffffff)
	expectTrap("i64.trunc_f64_u", TrapOverflow, 0x43f0000000000000)
	expect("i64.trunc_f32_s", 0x7fffff8000000000, 0x5effffff)
	expectTrap("i64.trunc_f32_u", TrapOverflow, 0x5f800000)
	expect("i32.trunc_sat_f32_s", 0x7fffffff, 0x4f000000)
	expect("i32.trunc_sat_f32_s", 0x80000000, 0xff800000)
	expect("i32.trunc_sat_f32_s", 0, 0x7fc00000)
	expect("i32.trunc_sat_f64_u", 0, D(-5))
	expect("i32.trunc_sat_f64_u", 0xffffffff, D(1e20))
	expect("i64.trunc_sat_f64_s", 1<<63-1, D(1e20))
	expect("i64.trunc_sat_f32_u", ^uint64(0), 0x7f800000)
	expectTrap("i32.div_s", TrapOverflow, 0x80000000, 0xffffffff)
	expectTrap("i32.div_s", TrapDivZero, 1, 0)
	expect("i32.rem_s", 0, 0x80000000, 0xffffffff)
	expect("i32.rem_s", 0xffffffff, 0xfffffffb, 2) // -5 rem 2 = -1
	expect("i32.div_s", 0xfffffffe, 0xfffffffb, 2) // -5 / 2 = -2
	expect("i64.rem_s", 0, 1<<63, ^uint64(0))
	expectTrap("i64.div_s", TrapOverflow, 1<<63, ^uint64(0))
	expect("i32.shl", 2, 1, 33)
	expect("i32.shr_s", 0xffffffff, 0x80000000, 31+32)
	expect("i32.rotl", 0x00000003, 0x80000001, 1)
	expect("i32.rotr", 0xc0000000, 0x80000001, 1)
	expect("i64.rotl", 3, 1<<63|1, 65)
	expect("i64.shr_u", 1, 1<<63, 63+64)
	expect("i32.clz", 32, 0)
	expect("i32.ctz", 32, 0)
	expect("i64.ctz", 64, 0)
	expect("i64.clz", 0, 1<<63)
	expect("i32.popcnt", 32, 0xffffffff)
	expect("i32.extend8_s", 0xffffff80, 0x80)
	expect("i64.extend32_s", 0xffffffff80000000, 0x80000000)
	expect("i64.extend_i32_s", 0xffffffffffffffff, 0xffffffff)
	expect("i32.lt_s", 1, 0x80000000, 0)
	expect("i32.lt_u", 0, 0x80000000, 0)
	expect("f32.eq", 1, 0, negz32)
	expect("f32.ne", 1, 0x7fc00000, 0x7fc00000)
	expect("f64.le", 0, 0x7ff8000000000000, 0)
	expect("f32.convert_i32_s", 0x4b800000, 16777217)
	expect("f32.convert_i32_u", 0x4f800000, 0xffffff80)
	expect("f32.convert_i32_u", 0x4f7fffff, 0xffffff7f)
	expect("f32.convert_i64_u", 0x5f800000, 0xffffff8000000000)
	expect("f32.convert_i64_u", 0x5f7fffff, 0xffffff7fffffffff)
	expect("f64.convert_i64_u", 0x43f0000000000000, 0xfffffffffffffc00)
	expect("f64.convert_i64_u", 0x43efffffffffffff, 0xfffffffffffffbff)
	expect("f64.convert_i64_s", 0xc3e0000000000000, 1<<63)
	expect("f32.convert_i64_s", 0x5f000000, 0x7fffffc000000000)
	expect("f32.demote_f64", 0x7f800000, 0x47effffff0000000)
	expect("f32.demote_f64", 0x7f7fffff, 0x47efffffefffffff)
	expect("f32.demote_f64", 1, 0x36a0000000000000)
	expect("f32.demote_f64", 0, 0x3690000000000000) // 2^-150 ties to even 0
	expect("f32.demote_f64", 1, 0x3690000000000001)
	expect("f32.demote_f64", 0x3f800000, 0x3ff0000010000000)
	expect("f32.demote_f64", 0x3f800002, 0x3ff0000030000000)
	if r := ev("f32.demote_f64", nil, s(0x7ff8000000000000)); r.NaN[0] != NaNCanon {
		bad("demote canonical NaN class %d", r.NaN[0])
	}
	if r := ev("f32.demote_f64", nil, s(0x7ff0000000000001)); r.NaN[0] != NaNArith {
		bad("demote sNaN class %d", r.NaN[0])
	}
	if r := ev("f32.add", nil, s(0x7fc00000), s(0xffc00000)); r.NaN[0] != NaNCanon {
		bad("add canonical NaNs class %d", r.NaN[0])
	}
	if r := ev("f32.add", nil, s(0x7fa00000), s(0)); r.NaN[0] != NaNArith {
		bad("add sNaN class %d", r.NaN[0])
	}
	if r := ev("f64.div", nil, s(0), s(0)); r.NaN[0] != NaNCanon {
		bad("0/0 class %d", r.NaN[0])
	}
	if r := ev("f64.sqrt", nil, s(D(-1))); r.NaN[0] != NaNCanon {
		bad("sqrt(-1) class %d", r.NaN[0])
	}
	// ---- vector known values ----
	vexp := func(name string, imm []byte, want V, args ...V) {
		r := ev(name, imm, args...)
		if r.V != want {
			bad("known value: %s %x = %x want %x", name, args, r.V, want)
		}
	}
	sp16 := func(x uint64) V { x &= 0xffff; x |= x << 16; x |= x << 32; return V{x, x} }
	sp8 := func(x uint64) V { x &= 0xff; x |= x << 8; return sp16(x) }
	sp32 := func(x uint64) V { x &= 0xffffffff; x |= x << 32; return V{x, x} }
	vexp("i16x8.q15mulr_sat_s", nil, sp16(0x7fff), sp16(0x8000), sp16(0x8000))
	vexp("i16x8.q15mulr_sat_s", nil, sp16(0x8001), sp16(0x8000), sp16(0x7fff))
	vexp("i16x8.q15mulr_sat_s", nil, sp16(0x2000), sp16(0x4000), sp16(0x4000))
	vexp("i16x8.q15mulr_sat_s", nil, sp16(0), sp16(1), sp16(0x3fff))
	vexp("i16x8.q15mulr_sat_s", nil, sp16(1), sp16(1), sp16(0x4000))
	vexp("i16x8.q15mulr_sat_s", nil, sp16(0), sp16(0xffff), sp16(0x4000)) // (-16384+16384)>>15 = 0
	vexp("i16x8.q15mulr_sat_s", nil, sp16(0xffff), sp16(0xffff), sp16(0x4001))
	vexp("i8x16.swizzle", nil, V{0x0000a7a0a00000af, 0}, V{0xa7a6a5a4a3a2a1a0, 0xafaeadacabaaa9a8}, V{0x8010070000ff100f, 0x1111111111111111})
	vexp("i8x16.avgr_u", nil, sp8(1), sp8(0), sp8(1))
	vexp("i8x16.avgr_u", nil, sp8(0xff), sp8(0xff), sp8(0xfe))
	vexp("i16x8.avgr_u", nil, sp16(0x8000), sp16(0xffff), sp16(0))
	vexp("i8x16.shl", nil, sp8(2), sp8(1), V{9, 0})
	vexp("i8x16.shr_s", nil, sp8(0xff), sp8(0x80), V{7 + 8*5, 0})
	vexp("i16x8.shr_u", nil, sp16(1), sp16(0x8000), V{15 + 16, 0})
	vexp("i64x2.shr_s", nil, V{^uint64(0), 0}, V{1 << 63, 1}, V{127, 0})
	vexp("f32x4.pmin", nil, sp32(0), sp32(0), sp32(0x80000000))          // b<a false -> a
	vexp("f32x4.pmin", nil, sp32(0x7fc00001), sp32(0x7fc00001), sp32(0)) // NaN a stays
	vexp("f32x4.pmin", nil, sp32(0), sp32(0), sp32(0x7fa00000))          // NaN b: b<a false -> a
	vexp("f32x4.pmax", nil, sp32(0x80000000), sp32(0x80000000), sp32(0))
	vexp("f32x4.pmax", nil, sp32(b64bits32(2)), sp32(b64bits32(1)), sp32(b64bits32(2)))
	vexp("i32x4.trunc_sat_f64x2_s_zero", nil, V{0x800000007fffffff, 0}, V{D(1e10), D(-1e10)})
	vexp("i32x4.trunc_sat_f64x2_u_zero", nil, V{0x00000000ffffffff, 0}, V{D(1e10), D(-1e10)})
	vexp("i32x4.trunc_sat_f64x2_s_zero", nil, V{0xfffffffe00000000, 0}, V{0x7ff8000000000000, D(-2.9)})
	vexp("i32x4.trunc_sat_f32x4_u", nil, V{0xffffffff00000000, 0x0000000300000000}, V{0x7f800000bf800000, 0x404000007fc00000})
	vexp("f64x2.convert_low_i32x4_u", nil, V{D(4294967295), D(1)}, V{0x00000001ffffffff, 0x7777777777777777})
	vexp("f64x2.convert_low_i32x4_s", nil, V{D(-1), D(1)}, V{0x00000001ffffffff, 0x7777777777777777})
	vexp("f32x4.demote_f64x2_zero", nil, V{0xbf8000003f800000, 0}, V{D(1), D(-1)})
	vexp("f64x2.promote_low_f32x4", nil, V{D(1), D(-1)}, V{0xbf8000003f800000, 0x1234567812345678})
	vexp("i8x16.narrow_i16x8_s", nil, V{0x7f7f7f7f7f7f7f7f, 0x8080808080808080}, sp16(0x0080), sp16(0xff7f))
	vexp("i8x16.narrow_i16x8_u", nil, V{0x8080808080808080, 0}, sp16(0x0080), sp16(0xff7f))
	vexp("i8x16.narrow_i16x8_u", nil, V{0xffffffffffffffff, 0}, sp16(0x7fff), sp16(0x8000))
	vexp("i16x8.narrow_i32x4_u", nil, V{0xffffffffffffffff, 0}, sp32(0x00010000), sp32(0xffffffff))
	vexp("i16x8.extmul_low_i8x16_s", nil, sp16(0x4000), sp8(0x80), sp8(0x80))
	vexp("i16x8.extmul_high_i8x16_u", nil, sp16(0xfe01), sp8(0xff), sp8(0xff))
	vexp("i64x2.extmul_low_i32x4_u", nil, V{0xfffffffe00000001, 0xfffffffe00000001}, sp32(0xffffffff), sp32(0xffffffff))
	vexp("i64x2.extmul_high_i32x4_s", nil, V{1, 1}, sp32(0xffffffff), sp32(0xffffffff))
	vexp("i16x8.extadd_pairwise_i8x16_s", nil, sp16(0xff00), sp8(0x80))
	vexp("i16x8.extadd_pairwise_i8x16_u", nil, sp16(0x01fe), sp8(0xff))
	vexp("i32x4.extadd_pairwise_i16x8_s", nil, sp32(0xffff0000), sp16(0x8000))
	vexp("i32x4.dot_i16x8_s", nil, sp32(0x80000000), sp16(0x8000), sp16(0x8000)) // 2*2^30 wraps
	vexp("i32x4.dot_i16x8_s", nil, sp32(2), sp16(0xffff), sp16(0xffff))
	vexp("i8x16.popcnt", nil, sp8(8), sp8(0xff))
	vexp("i8x16.abs", nil, sp8(0x80), sp8(0x80))
	vexp("i8x16.add_sat_s", nil, sp8(0x7f), sp8(0x7f), sp8(1))
	vexp("i8x16.sub_sat_u", nil, sp8(0), sp8(1), sp8(2))
	vexp("i8x16.sub_sat_s", nil, sp8(0x80), sp8(0x80), sp8(1))
	vexp("i16x8.add_sat_u", nil, sp16(0xffff), sp16(0xffff), sp16(1))
	vexp("v128.bitselect", nil, V{0xf0f0, 0}, V{0xffff, 0}, V{0, 0}, V{0xf0f0, 0})
	vexp("v128.andnot", nil, V{0x0f0f, 0}, V{0xffff, 0}, V{0xf0f0, 0})
	vexp("i8x16.bitmask", nil, V{0x8001, 0}, V{0x80, 0xff00000000000000})
	vexp("i64x2.bitmask", nil, V{2, 0}, V{1, 1 << 63})
	vexp("i32x4.all_true", nil, V{0, 0}, V{0x0000000100000001, 0x0000000100000000})
	vexp("i8x16.shuffle", []byte{0, 16, 1, 17, 15, 31, 0, 0, 0, 0, 0, 0, 0, 0, 0, 0}, V{}.fix(), V{0xa7a6a5a4a3a2a1a0, 0xa7aeadacabaaa9a8}, V{0xb7b6b5b4b3b2b1b0, 0xb7bebdbcbbbab9b8})
	vexp("i8x16.extract_lane_s", []byte{15}, V{0xffffff80, 0}, V{0, 0x80 << 56})
	vexp("i16x8.extract_lane_u", []byte{7}, V{0x8000, 0}, V{0, 0x8000 << 48})
	vexp("f32x4.replace_lane", []byte{3}, V{0, 0x7fa0000100000000}, V{0, 0}, V{0x7fa00001, 0})
	vexp("i64x2.gt_s", nil, V{0, ^uint64(0)}, V{1 << 63, 0}, V{0, 1 << 63})
	vexp("f32x4.lt", nil, sp32(0), sp32(0x7fc00000), sp32(0))
	vexp("f64x2.ne", nil, V{^uint64(0), 0}, V{0x7ff8000000000000, 0}, V{0x7ff8000000000000, 1 << 63})

	// ---- exact arithmetic vs fast paths ----
	b32s, b64s := BoundaryF32(), BoundaryF64()
	chk32 := func(a, b uint32) {
		for i, f := range []fbin32{FAdd32, FSub32, FMul32, FDiv32} {
			got, cls := f(a, b)
			want, nan := exactBin("+-*/"[i], b64(float64(f32(a))), b64(float64(f32(b))), 32)
			if nan != (cls != Exact) || (!nan && uint32(want) != got) {
				bad("f32 %c: %08x %08x fast=%08x/%d exact=%08x/%v", "+-*/"[i], a, b, got, cls, want, nan)
			}
		}
	}
	chk64 := func(a, b uint64) {
		for i, f := range []fbin64{FAdd64, FSub64, FMul64, FDiv64} {
			got, cls := f(a, b)
			want, nan := exactBin("+-*/"[i], a, b, 64)
			if nan != (cls != Exact) || (!nan && want != got) {
				bad("f64 %c: %016x %016x fast=%016x/%d exact=%016x/%v", "+-*/"[i], a, b, got, cls, want, nan)
			}
		}
	}
	un32 := func(a uint32) {
		// rounding functions vs math package
		x := float64(f32(a))
		for i, f := range []fun32{FCeil32, FFloor32, FTrunc32, FNearest32} {
			got, cls := f(a)
			w := [...]float64{math.Ceil(x), math.Floor(x), math.Trunc(x), math.RoundToEven(x)}[i]
			if (w != w) != (cls != Exact) || (w == w && b32(float32(w)) != got) {
				bad("f32 round %d: %08x got %08x/%d want %08x", i, a, got, cls, b32(float32(w)))
			}
		}
		got, cls := FSqrt32(a)
		switch {
		case isNaN32(a) || (a>>31 == 1 && a<<1 != 0):
			if cls == Exact {
				bad("f32 sqrt %08x must be NaN", a)
			}
		case a<<1 == 0 || a == 0x7f800000:
			if got != a || cls != Exact {
				bad("f32 sqrt %08x = %08x", a, got)
			}
		default:
			if cls != Exact || !sqrtValid(b64(x), b64(float64(f32(got))), 32) {
				bad("f32 sqrt %08x = %08x fails the validity predicate", a, got)
			}
		}
		// promote is exact
		p, pc := FPromote(a)
		if !isNaN32(a) {
			if pc != Exact || new(big.Float).SetFloat64(f64(p)).Cmp(new(big.Float).SetFloat64(x)) != 0 {
				bad("promote %08x", a)
			}
		}
		// trunc against big.Float
		truncCheck(b64(x), bad)
	}
	un64 := func(a uint64) {
		x := f64(a)
		for i, f := range []fun64{FCeil64, FFloor64, FTrunc64, FNearest64} {
			got, cls := f(a)
			w := [...]float64{math.Ceil(x), math.Floor(x), math.Trunc(x), math.RoundToEven(x)}[i]
			if (w != w) != (cls != Exact) || (w == w && b64(w) != got) {
				bad("f64 round %d: %016x got %016x/%d want %016x", i, a, got, cls, b64(w))
			}
		}
		got, cls := FSqrt64(a)
		switch {
		case isNaN64(a) || (a>>63 == 1 && a<<1 != 0):
			if cls == Exact {
				bad("f64 sqrt %016x must be NaN", a)
			}
		case a<<1 == 0 || a == 0x7ff0000000000000:
			if got != a || cls != Exact {
				bad("f64 sqrt %016x = %016x", a, got)
			}
		default:
			if cls != Exact || !sqrtValid(a, got, 64) {
				bad("f64 sqrt %016x = %016x fails the validity predicate", a, got)
			}
		}
		d, dc := FDemote(a)
		if !isNaN64(a) {
			w, _ := new(big.Float).SetFloat64(x).Float32()
			if x != x || dc != Exact || b32(w) != d {
				bad("demote %016x = %08x want %08x", a, d, b32(w))
			}
		}
		truncCheck(a, bad)
	}
	cvt := func(x uint64) {
		for _, c := range []struct {
			bits   int
			signed bool
		}{{32, true}, {32, false}, {64, true}, {64, false}} {
			bf := new(big.Float).SetPrec(64)
			xm := x & mask(c.bits)
			if c.signed {
				bf.SetInt64(sx(xm, c.bits))
			} else {
				bf.SetUint64(xm)
			}
			w32, _ := bf.Float32()
			w64, _ := bf.Float64()
			if g := Convert32(x, c.bits, c.signed); g != b32(w32) {
				bad("convert32 %x bits=%d signed=%v: %08x want %08x", x, c.bits, c.signed, g, b32(w32))
			}
			if g := Convert64(x, c.bits, c.signed); g != b64(w64) {
				bad("convert64 %x bits=%d signed=%v: %016x want %016x", x, c.bits, c.signed, g, b64(w64))
			}
		}
	}
	for _, a := range b32s {
		un32(uint32(a))
		for _, b := range b32s {
			chk32(uint32(a), uint32(b))
		}
	}
	for _, a := range b64s {
		un64(a)
		for _, b := range b64s {
			chk64(a, b)
		}
	}
	for _, a := range append(BoundaryI64(), BoundaryI32()...) {
		cvt(a)
	}
	p := prng(12345)
	for i := 0; i < rounds; i++ {
		a, b := p.next(), p.next()
		// random patterns and patterns with close exponents (so that add/sub round)
		chk64(a, b)
		chk64(a, a&^(0x7ff<<52)|(b&(0x7ff<<52))+uint64(i%5)<<52)
		chk32(uint32(a), uint32(b))
		b2 := uint32(a)&^(0xff<<23) | uint32(b)&(0xff<<23)
		chk32(uint32(a), b2)
		un32(uint32(a))
		un64(a)
		un64(b&^(0x7ff<<52) | uint64(1023+i%70)<<52) // magnitudes around the integer conversion ranges
		un32(uint32(b)&^(0xff<<23) | uint32(127+i%70)<<23)
		cvt(a)
		cvt(a >> (uint(i) % 64))
	}
	return errs
}

func b64bits32(x float32) uint64 { return uint64(b32(x)) }

// fix is a helper for a literal in SelfTest (the expected shuffle result is built by hand).
func (v V) fix() V {
	// lanes: 0->a0, 1->b0, 2->a1, 3->b1, 4->a15(=a7), 5->b15(=b7), rest a0
	var r V
	for i, b := range []byte{0xa0, 0xb0, 0xa1, 0xb1, 0xa7, 0xb7, 0xa0, 0xa0, 0xa0, 0xa0, 0xa0, 0xa0, 0xa0, 0xa0, 0xa0, 0xa0} {
		S8(&r, i, b)
	}
	return r
}

// truncCheck compares Trunc for all four integer targets with big.Float arithmetic.
func truncCheck(a uint64, bad func(string, ...any)) {
	for _, c := range []struct {
		bits   int
		signed bool
	}{{32, true}, {32, false}, {64, true}, {64, false}} {
		v, trap, _ := Trunc(a, c.bits, c.signed)
		x := f64(a)
		if x != x {
			if trap != TrapInvalid {
				bad("trunc NaN %016x: %q", a, trap)
			}
			continue
		}
		if math.IsInf(x, 0) {
			if trap != TrapOverflow {
				bad("trunc inf: %q", trap)
			}
			continue
		}
		z, _ := new(big.Float).SetFloat64(x).Int(nil) // truncates toward zero, exact
		lo, hi := new(big.Int), new(big.Int)
		if c.signed {
			lo.Lsh(big.NewInt(-1), uint(c.bits-1))
			hi.Lsh(big.NewInt(1), uint(c.bits-1))
		} else {
			hi.Lsh(big.NewInt(1), uint(c.bits))
		}
		in := z.Cmp(lo) >= 0 && z.Cmp(hi) < 0
		if in != (trap == "") {
			bad("trunc %016x to %d/%v: trap %q but in-range=%v", a, c.bits, c.signed, trap, in)
			continue
		}
		if in {
			w := new(big.Int).And(z, new(big.Int).SetUint64(mask(c.bits))) // two's complement low bits
			if z.Sign() < 0 {
				w = new(big.Int).Add(z, new(big.Int).Lsh(big.NewInt(1), uint(c.bits)))
			}
			if w.Uint64() != v {
				bad("trunc %016x to %d/%v = %x want %x", a, c.bits, c.signed, v, w.Uint64())
			}
		} else {
			// saturated value
			s := TruncSat(a, c.bits, c.signed)
			var ws uint64
			if z.Sign() > 0 {
				ws = new(big.Int).Sub(hi, big.NewInt(1)).Uint64()
			} else if c.signed {
				ws = (uint64(1) << uint(c.bits-1))
			}
			if s != ws {
				bad("trunc_sat %016x to %d/%v = %x want %x", a, c.bits, c.signed, s, ws)
			}
		}
	}
}
