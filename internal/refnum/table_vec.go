package refnum

func shapeOf(bits int) Shape {
	switch bits {
	case 8:
		return SI8x16
	case 16:
		return SI16x8
	case 32:
		return SI32x4
	}
	return SI64x2
}

func shapeName(bits int) string {
	switch bits {
	case 8:
		return "i8x16"
	case 16:
		return "i16x8"
	case 32:
		return "i32x4"
	}
	return "i64x2"
}

func pv(s Shape) Param { return Param{V128, s} }

// vop registers a 0xfd-prefixed instruction.
func vop(name string, sub uint32, params []Param, result Param, eval func(a []V, imm []byte) Res) *Op {
	enc := []byte{0xfd}
	v := sub
	for {
		c := byte(v & 0x7f)
		v >>= 7
		if v != 0 {
			enc = append(enc, c|0x80)
		} else {
			enc = append(enc, c)
			break
		}
	}
	o := register(&Op{Name: name, Enc: enc, Params: params, Result: result, Eval: eval})
	o.LaneBin, o.LaneBits = pendingLane, pendingBits
	pendingLane = nil
	return o
}

// pendingLane hands the lane function of mapBin to the vop call it is an argument of.
var (
	pendingLane func(x, y uint64) uint64
	pendingBits int
)

// lane-wise integer unary / binary maps
func mapUn(bits int, f func(x uint64) uint64) func(a []V, _ []byte) Res {
	n := 128 / bits
	return func(a []V, _ []byte) Res {
		var r V
		for i := 0; i < n; i++ {
			SetLane(&r, bits, i, f(Lane(a[0], bits, i)))
		}
		return Res{V: r}
	}
}

func mapBin(bits int, f func(x, y uint64) uint64) func(a []V, _ []byte) Res {
	n := 128 / bits
	pendingLane, pendingBits = f, bits
	return func(a []V, _ []byte) Res {
		var r V
		for i := 0; i < n; i++ {
			SetLane(&r, bits, i, f(Lane(a[0], bits, i), Lane(a[1], bits, i)))
		}
		return Res{V: r}
	}
}

func mapF32Un(f fun32) func(a []V, _ []byte) Res {
	return func(a []V, _ []byte) Res {
		var r Res
		for i := 0; i < 4; i++ {
			x, c := f(L32(a[0], i))
			S32(&r.V, i, x)
			r.NaN[i] = c
		}
		return r
	}
}

func mapF32Bin(f fbin32) func(a []V, _ []byte) Res {
	return func(a []V, _ []byte) Res {
		var r Res
		for i := 0; i < 4; i++ {
			x, c := f(L32(a[0], i), L32(a[1], i))
			S32(&r.V, i, x)
			r.NaN[i] = c
		}
		return r
	}
}

func mapF64Un(f fun64) func(a []V, _ []byte) Res {
	return func(a []V, _ []byte) Res {
		var r Res
		for i := 0; i < 2; i++ {
			r.V[i], r.NaN[i] = f(a[0][i])
		}
		return r
	}
}

func mapF64Bin(f fbin64) func(a []V, _ []byte) Res {
	return func(a []V, _ []byte) Res {
		var r Res
		for i := 0; i < 2; i++ {
			r.V[i], r.NaN[i] = f(a[0][i], a[1][i])
		}
		return r
	}
}

func satS(x int64, bits int) uint64 {
	max := int64(1)<<uint(bits-1) - 1
	min := -max - 1
	if x > max {
		x = max
	}
	if x < min {
		x = min
	}
	return uint64(x) & mask(bits)
}

func satU(x int64, bits int) uint64 {
	if x < 0 {
		return 0
	}
	if uint64(x) > mask(bits) {
		return mask(bits)
	}
	return uint64(x)
}

func init() {
	vB := pv(SBits)
	// ---- shuffle / swizzle ----
	o := vop("i8x16.shuffle", 0x0d, []Param{pv(SI8x16), pv(SI8x16)}, pv(SI8x16), func(a []V, imm []byte) Res {
		var r V
		for i := 0; i < 16; i++ {
			k := int(imm[i])
			if k < 16 {
				S8(&r, i, L8(a[0], k))
			} else {
				S8(&r, i, L8(a[1], k-16))
			}
		}
		return Res{V: r}
	})
	o.Imm, o.ImmLanes = ImmShuffle, 32
	vop("i8x16.swizzle", 0x0e, []Param{pv(SI8x16), pv(SIdx)}, pv(SI8x16), func(a []V, _ []byte) Res {
		var r V
		for i := 0; i < 16; i++ {
			k := int(L8(a[1], i))
			if k < 16 {
				S8(&r, i, L8(a[0], k))
			}
		}
		return Res{V: r}
	})
	// ---- splat ----
	splat := func(name string, sub uint32, from Param, bits int, res Shape) {
		n := 128 / bits
		vop(name, sub, []Param{from}, pv(res), func(a []V, _ []byte) Res {
			var r V
			for i := 0; i < n; i++ {
				SetLane(&r, bits, i, a[0][0]&mask(bits))
			}
			return Res{V: r}
		})
	}
	splat("i8x16.splat", 0x0f, pI32, 8, SI8x16)
	splat("i16x8.splat", 0x10, pI32, 16, SI16x8)
	splat("i32x4.splat", 0x11, pI32, 32, SI32x4)
	splat("i64x2.splat", 0x12, pI64, 64, SI64x2)
	splat("f32x4.splat", 0x13, pF32, 32, SI32x4) // bit exact
	splat("f64x2.splat", 0x14, pF64, 64, SI64x2)
	// ---- extract / replace lane ----
	extract := func(name string, sub uint32, bits int, in Shape, to Param, signed bool) {
		o := vop(name, sub, []Param{pv(in)}, to, func(a []V, imm []byte) Res {
			x := Lane(a[0], bits, int(imm[0]))
			if signed {
				x = uint64(sx(x, bits))
			}
			if to.T == I32 || to.T == F32 {
				x &= 0xffffffff
			}
			return val(x)
		})
		o.Imm, o.ImmLanes = ImmLane, 128/bits
	}
	replace := func(name string, sub uint32, bits int, sh Shape, from Param) {
		o := vop(name, sub, []Param{pv(sh), from}, pv(sh), func(a []V, imm []byte) Res {
			r := a[0]
			SetLane(&r, bits, int(imm[0]), a[1][0]&mask(bits))
			return Res{V: r}
		})
		o.Imm, o.ImmLanes = ImmLane, 128/bits
	}
	extract("i8x16.extract_lane_s", 0x15, 8, SI8x16, pI32, true)
	extract("i8x16.extract_lane_u", 0x16, 8, SI8x16, pI32, false)
	replace("i8x16.replace_lane", 0x17, 8, SI8x16, pI32)
	extract("i16x8.extract_lane_s", 0x18, 16, SI16x8, pI32, true)
	extract("i16x8.extract_lane_u", 0x19, 16, SI16x8, pI32, false)
	replace("i16x8.replace_lane", 0x1a, 16, SI16x8, pI32)
	extract("i32x4.extract_lane", 0x1b, 32, SI32x4, pI32, false)
	replace("i32x4.replace_lane", 0x1c, 32, SI32x4, pI32)
	extract("i64x2.extract_lane", 0x1d, 64, SI64x2, pI64, false)
	replace("i64x2.replace_lane", 0x1e, 64, SI64x2, pI64)
	// float lane moves are bit exact: compare raw bits (result shape SInt / integer lanes)
	extract("f32x4.extract_lane", 0x1f, 32, SF32x4, Param{F32, SInt}, false)
	replace("f32x4.replace_lane", 0x20, 32, SF32x4, pF32)
	extract("f64x2.extract_lane", 0x21, 64, SF64x2, Param{F64, SInt}, false)
	replace("f64x2.replace_lane", 0x22, 64, SF64x2, pF64)
	// replace_lane results: compare all 128 bits exactly
	for _, n := range []string{"f32x4.replace_lane", "f64x2.replace_lane"} {
		ByName(n).Result = vB
	}
	// ---- integer comparisons ----
	for _, c := range []struct {
		bits int
		base uint32
	}{{8, 0x23}, {16, 0x2d}, {32, 0x37}} {
		bits := c.bits
		sh := shapeOf(bits)
		for i, f := range intCmps(bits) {
			f := f
			vop(shapeName(bits)+"."+cmpNames[i], c.base+uint32(i), []Param{pv(sh), pv(sh)}, pv(sh),
				mapBin(bits, func(x, y uint64) uint64 {
					if f(x, y) {
						return mask(bits)
					}
					return 0
				}))
		}
	}
	{
		cm := intCmps(64)
		for i, k := range []int{0, 1, 2, 4, 6, 8} { // eq ne lt_s gt_s le_s ge_s
			f := cm[k]
			vop("i64x2."+cmpNames[k], 0xd6+uint32(i), []Param{pv(SI64x2), pv(SI64x2)}, pv(SI64x2),
				mapBin(64, func(x, y uint64) uint64 {
					if f(x, y) {
						return ^uint64(0)
					}
					return 0
				}))
		}
	}
	for i := 0; i < 6; i++ {
		i := i
		vop("f32x4."+fcmpNames[i], 0x41+uint32(i), []Param{pv(SF32x4), pv(SF32x4)}, pv(SI32x4),
			mapBin(32, func(x, y uint64) uint64 {
				return -fcmp(i, float64(f32(uint32(x))), float64(f32(uint32(y)))) & 0xffffffff
			}))
		vop("f64x2."+fcmpNames[i], 0x47+uint32(i), []Param{pv(SF64x2), pv(SF64x2)}, pv(SI64x2),
			mapBin(64, func(x, y uint64) uint64 { return -fcmp(i, f64(x), f64(y)) }))
	}
	// ---- bitwise ----
	vop("v128.not", 0x4d, []Param{vB}, vB, func(a []V, _ []byte) Res { return Res{V: V{^a[0][0], ^a[0][1]}} })
	vop("v128.and", 0x4e, []Param{vB, vB}, vB, func(a []V, _ []byte) Res {
		return Res{V: V{a[0][0] & a[1][0], a[0][1] & a[1][1]}}
	})
	vop("v128.andnot", 0x4f, []Param{vB, vB}, vB, func(a []V, _ []byte) Res {
		return Res{V: V{a[0][0] &^ a[1][0], a[0][1] &^ a[1][1]}}
	})
	vop("v128.or", 0x50, []Param{vB, vB}, vB, func(a []V, _ []byte) Res {
		return Res{V: V{a[0][0] | a[1][0], a[0][1] | a[1][1]}}
	})
	vop("v128.xor", 0x51, []Param{vB, vB}, vB, func(a []V, _ []byte) Res {
		return Res{V: V{a[0][0] ^ a[1][0], a[0][1] ^ a[1][1]}}
	})
	// bitselect(v1, v2, c) = (v1 & c) | (v2 & ~c)
	vop("v128.bitselect", 0x52, []Param{vB, vB, vB}, vB, func(a []V, _ []byte) Res {
		var r V
		for i := 0; i < 2; i++ {
			r[i] = a[0][i]&a[2][i] | a[1][i]&^a[2][i]
		}
		return Res{V: r}
	})
	vop("v128.any_true", 0x53, []Param{pv(SI8x16)}, pI32, func(a []V, _ []byte) Res {
		return val(b2u(a[0][0]|a[0][1] != 0))
	})
	// ---- per-shape integer ops ----
	type sub struct{ abs, neg, allTrue, bitmask, shl, shrS, shrU, add, sub, mul uint32 }
	subs := map[int]sub{
		8:  {0x60, 0x61, 0x63, 0x64, 0x6b, 0x6c, 0x6d, 0x6e, 0x71, 0},
		16: {0x80, 0x81, 0x83, 0x84, 0x8b, 0x8c, 0x8d, 0x8e, 0x91, 0x95},
		32: {0xa0, 0xa1, 0xa3, 0xa4, 0xab, 0xac, 0xad, 0xae, 0xb1, 0xb5},
		64: {0xc0, 0xc1, 0xc3, 0xc4, 0xcb, 0xcc, 0xcd, 0xce, 0xd1, 0xd5},
	}
	for _, bits := range []int{8, 16, 32, 64} {
		bits := bits
		s := subs[bits]
		sh := shapeOf(bits)
		nm := shapeName(bits)
		m := mask(bits)
		n := 128 / bits
		vop(nm+".abs", s.abs, []Param{pv(sh)}, pv(sh), mapUn(bits, func(x uint64) uint64 {
			if sx(x, bits) < 0 {
				return (-x) & m
			}
			return x
		}))
		vop(nm+".neg", s.neg, []Param{pv(sh)}, pv(sh), mapUn(bits, func(x uint64) uint64 { return (-x) & m }))
		vop(nm+".all_true", s.allTrue, []Param{pv(sh)}, pI32, func(a []V, _ []byte) Res {
			for i := 0; i < n; i++ {
				if Lane(a[0], bits, i) == 0 {
					return val(0)
				}
			}
			return val(1)
		})
		vop(nm+".bitmask", s.bitmask, []Param{pv(sh)}, pI32, func(a []V, _ []byte) Res {
			var r uint64
			for i := 0; i < n; i++ {
				if sx(Lane(a[0], bits, i), bits) < 0 {
					r |= 1 << uint(i)
				}
			}
			return val(r)
		})
		shift := func(name string, code uint32, f func(x uint64, k uint) uint64) {
			vop(nm+"."+name, code, []Param{pv(sh), pCnt32}, pv(sh), func(a []V, _ []byte) Res {
				k := uint(a[1][0]&0xffffffff) % uint(bits)
				var r V
				for i := 0; i < n; i++ {
					SetLane(&r, bits, i, f(Lane(a[0], bits, i), k)&m)
				}
				return Res{V: r}
			})
		}
		shift("shl", s.shl, func(x uint64, k uint) uint64 { return x << k })
		shift("shr_s", s.shrS, func(x uint64, k uint) uint64 { return uint64(sx(x, bits) >> k) })
		shift("shr_u", s.shrU, func(x uint64, k uint) uint64 { return x >> k })
		vop(nm+".add", s.add, []Param{pv(sh), pv(sh)}, pv(sh), mapBin(bits, func(x, y uint64) uint64 { return (x + y) & m }))
		vop(nm+".sub", s.sub, []Param{pv(sh), pv(sh)}, pv(sh), mapBin(bits, func(x, y uint64) uint64 { return (x - y) & m }))
		if bits != 8 {
			vop(nm+".mul", s.mul, []Param{pv(sh), pv(sh)}, pv(sh), mapBin(bits, func(x, y uint64) uint64 { return (x * y) & m }))
		}
	}
	vop("i8x16.popcnt", 0x62, []Param{pv(SI8x16)}, pv(SI8x16), mapUn(8, func(x uint64) uint64 { return popcnt(x) }))
	// saturating add/sub, min/max, avgr for i8x16 and i16x8; min/max for i32x4
	type sat struct{ addS, addU, subS, subU, minS, minU, maxS, maxU, avgr uint32 }
	sats := map[int]sat{
		8:  {0x6f, 0x70, 0x72, 0x73, 0x76, 0x77, 0x78, 0x79, 0x7b},
		16: {0x8f, 0x90, 0x92, 0x93, 0x96, 0x97, 0x98, 0x99, 0x9b},
		32: {0, 0, 0, 0, 0xb6, 0xb7, 0xb8, 0xb9, 0},
	}
	for _, bits := range []int{8, 16, 32} {
		bits := bits
		s := sats[bits]
		sh := shapeOf(bits)
		nm := shapeName(bits)
		two := []Param{pv(sh), pv(sh)}
		if bits != 32 {
			vop(nm+".add_sat_s", s.addS, two, pv(sh), mapBin(bits, func(x, y uint64) uint64 { return satS(sx(x, bits)+sx(y, bits), bits) }))
			vop(nm+".add_sat_u", s.addU, two, pv(sh), mapBin(bits, func(x, y uint64) uint64 { return satU(int64(x)+int64(y), bits) }))
			vop(nm+".sub_sat_s", s.subS, two, pv(sh), mapBin(bits, func(x, y uint64) uint64 { return satS(sx(x, bits)-sx(y, bits), bits) }))
			vop(nm+".sub_sat_u", s.subU, two, pv(sh), mapBin(bits, func(x, y uint64) uint64 { return satU(int64(x)-int64(y), bits) }))
			// avgr_u(x,y) = (x + y + 1) / 2, truncated
			vop(nm+".avgr_u", s.avgr, two, pv(sh), mapBin(bits, func(x, y uint64) uint64 { return (x + y + 1) / 2 }))
		}
		vop(nm+".min_s", s.minS, two, pv(sh), mapBin(bits, func(x, y uint64) uint64 {
			if sx(x, bits) < sx(y, bits) {
				return x
			}
			return y
		}))
		vop(nm+".min_u", s.minU, two, pv(sh), mapBin(bits, func(x, y uint64) uint64 {
			if x < y {
				return x
			}
			return y
		}))
		vop(nm+".max_s", s.maxS, two, pv(sh), mapBin(bits, func(x, y uint64) uint64 {
			if sx(x, bits) > sx(y, bits) {
				return x
			}
			return y
		}))
		vop(nm+".max_u", s.maxU, two, pv(sh), mapBin(bits, func(x, y uint64) uint64 {
			if x > y {
				return x
			}
			return y
		}))
	}
	// q15mulr_sat_s(x,y) = sat_s16((x*y + 2^14) >> 15)
	vop("i16x8.q15mulr_sat_s", 0x82, []Param{pv(SI16x8), pv(SI16x8)}, pv(SI16x8), mapBin(16, func(x, y uint64) uint64 {
		return satS((sx(x, 16)*sx(y, 16)+0x4000)>>15, 16)
	}))
	// ---- narrow ----
	narrow := func(name string, code uint32, from int, signed bool) {
		to := from / 2
		n := 128 / from
		vop(name, code, []Param{pv(shapeOf(from)), pv(shapeOf(from))}, pv(shapeOf(to)), func(a []V, _ []byte) Res {
			var r V
			for i := 0; i < 2*n; i++ {
				x := sx(Lane(a[i/n], from, i%n), from) // the input is always interpreted as signed
				if signed {
					SetLane(&r, to, i, satS(x, to))
				} else {
					SetLane(&r, to, i, satU(x, to))
				}
			}
			return Res{V: r}
		})
	}
	narrow("i8x16.narrow_i16x8_s", 0x65, 16, true)
	narrow("i8x16.narrow_i16x8_u", 0x66, 16, false)
	narrow("i16x8.narrow_i32x4_s", 0x85, 32, true)
	narrow("i16x8.narrow_i32x4_u", 0x86, 32, false)
	// ---- extend / extmul / extadd_pairwise / dot ----
	ext := func(x uint64, bits int, signed bool) int64 {
		if signed {
			return sx(x, bits)
		}
		return int64(x & mask(bits))
	}
	for _, c := range []struct {
		to   int
		base uint32 // extend_low_s, high_s, low_u, high_u
		mul  uint32 // extmul_low_s, high_s, low_u, high_u
	}{{16, 0x87, 0x9c}, {32, 0xa7, 0xbc}, {64, 0xc7, 0xdc}} {
		to, from := c.to, c.to/2
		n := 128 / to
		for k := 0; k < 4; k++ {
			signed := k < 2
			high := k&1 == 1
			half, sg := "low", "s"
			if high {
				half = "high"
			}
			if !signed {
				sg = "u"
			}
			off := 0
			if high {
				off = n
			}
			fromName := shapeName(from)
			vop(shapeName(to)+".extend_"+half+"_"+fromName+"_"+sg, c.base+uint32(k), []Param{pv(shapeOf(from))}, pv(shapeOf(to)),
				func(a []V, _ []byte) Res {
					var r V
					for i := 0; i < n; i++ {
						SetLane(&r, to, i, uint64(ext(Lane(a[0], from, i+off), from, signed))&mask(to))
					}
					return Res{V: r}
				})
			vop(shapeName(to)+".extmul_"+half+"_"+fromName+"_"+sg, c.mul+uint32(k), []Param{pv(shapeOf(from)), pv(shapeOf(from))}, pv(shapeOf(to)),
				func(a []V, _ []byte) Res {
					var r V
					for i := 0; i < n; i++ {
						// the product of two `from`-bit values fits 2*from bits; computed in 64-bit wrap-around
						p := uint64(ext(Lane(a[0], from, i+off), from, signed)) * uint64(ext(Lane(a[1], from, i+off), from, signed))
						SetLane(&r, to, i, p&mask(to))
					}
					return Res{V: r}
				})
		}
	}
	for _, c := range []struct {
		to   int
		base uint32
	}{{16, 0x7c}, {32, 0x7e}} {
		to, from := c.to, c.to/2
		n := 128 / to
		for k := 0; k < 2; k++ {
			signed := k == 0
			sg := "s"
			if !signed {
				sg = "u"
			}
			vop(shapeName(to)+".extadd_pairwise_"+shapeName(from)+"_"+sg, c.base+uint32(k), []Param{pv(shapeOf(from))}, pv(shapeOf(to)),
				func(a []V, _ []byte) Res {
					var r V
					for i := 0; i < n; i++ {
						s := ext(Lane(a[0], from, 2*i), from, signed) + ext(Lane(a[0], from, 2*i+1), from, signed)
						SetLane(&r, to, i, uint64(s)&mask(to))
					}
					return Res{V: r}
				})
		}
	}
	vop("i32x4.dot_i16x8_s", 0xba, []Param{pv(SI16x8), pv(SI16x8)}, pv(SI32x4), func(a []V, _ []byte) Res {
		var r V
		for i := 0; i < 4; i++ {
			s := sx(uint64(L16(a[0], 2*i)), 16)*sx(uint64(L16(a[1], 2*i)), 16) +
				sx(uint64(L16(a[0], 2*i+1)), 16)*sx(uint64(L16(a[1], 2*i+1)), 16)
			S32(&r, i, uint32(s)) // modulo 2^32
		}
		return Res{V: r}
	})
	// ---- float lane-wise ----
	f4, f2 := pv(SF32x4), pv(SF64x2)
	type fu32 struct {
		n string
		c uint32
		f fun32
		d bool
	}
	for _, u := range []fu32{{"ceil", 0x67, FCeil32, true}, {"floor", 0x68, FFloor32, true}, {"trunc", 0x69, FTrunc32, true},
		{"nearest", 0x6a, FNearest32, true}, {"abs", 0xe0, FAbs32, false}, {"neg", 0xe1, FNeg32, false}, {"sqrt", 0xe3, FSqrt32, true}} {
		vop("f32x4."+u.n, u.c, []Param{f4}, f4, mapF32Un(u.f)).NaNNondet = u.d
	}
	type fb32 struct {
		n string
		c uint32
		f fbin32
		d bool
	}
	for _, u := range []fb32{{"add", 0xe4, FAdd32, true}, {"sub", 0xe5, FSub32, true}, {"mul", 0xe6, FMul32, true}, {"div", 0xe7, FDiv32, true},
		{"min", 0xe8, FMin32, true}, {"max", 0xe9, FMax32, true}, {"pmin", 0xea, FPMin32, false}, {"pmax", 0xeb, FPMax32, false}} {
		vop("f32x4."+u.n, u.c, []Param{f4, f4}, f4, mapF32Bin(u.f)).NaNNondet = u.d
	}
	type fu64 struct {
		n string
		c uint32
		f fun64
		d bool
	}
	for _, u := range []fu64{{"ceil", 0x74, FCeil64, true}, {"floor", 0x75, FFloor64, true}, {"trunc", 0x7a, FTrunc64, true},
		{"nearest", 0x94, FNearest64, true}, {"abs", 0xec, FAbs64, false}, {"neg", 0xed, FNeg64, false}, {"sqrt", 0xef, FSqrt64, true}} {
		vop("f64x2."+u.n, u.c, []Param{f2}, f2, mapF64Un(u.f)).NaNNondet = u.d
	}
	type fb64 struct {
		n string
		c uint32
		f fbin64
		d bool
	}
	for _, u := range []fb64{{"add", 0xf0, FAdd64, true}, {"sub", 0xf1, FSub64, true}, {"mul", 0xf2, FMul64, true}, {"div", 0xf3, FDiv64, true},
		{"min", 0xf4, FMin64, true}, {"max", 0xf5, FMax64, true}, {"pmin", 0xf6, FPMin64, false}, {"pmax", 0xf7, FPMax64, false}} {
		vop("f64x2."+u.n, u.c, []Param{f2, f2}, f2, mapF64Bin(u.f)).NaNNondet = u.d
	}
	// ---- conversions ----
	vop("i32x4.trunc_sat_f32x4_s", 0xf8, []Param{f4}, pv(SI32x4), mapUn(32, func(x uint64) uint64 {
		return TruncSat(b64(float64(f32(uint32(x)))), 32, true)
	}))
	vop("i32x4.trunc_sat_f32x4_u", 0xf9, []Param{f4}, pv(SI32x4), mapUn(32, func(x uint64) uint64 {
		return TruncSat(b64(float64(f32(uint32(x)))), 32, false)
	}))
	vop("f32x4.convert_i32x4_s", 0xfa, []Param{pv(SI32x4)}, f4, mapUn(32, func(x uint64) uint64 { return uint64(Convert32(x, 32, true)) }))
	vop("f32x4.convert_i32x4_u", 0xfb, []Param{pv(SI32x4)}, f4, mapUn(32, func(x uint64) uint64 { return uint64(Convert32(x, 32, false)) }))
	for k, signed := range []bool{true, false} {
		signed := signed
		sg := "s"
		if !signed {
			sg = "u"
		}
		vop("i32x4.trunc_sat_f64x2_"+sg+"_zero", 0xfc+uint32(k), []Param{f2}, pv(SI32x4), func(a []V, _ []byte) Res {
			var r V
			for i := 0; i < 2; i++ {
				S32(&r, i, uint32(TruncSat(a[0][i], 32, signed)))
			}
			return Res{V: r} // lanes 2,3 are zero
		})
		vop("f64x2.convert_low_i32x4_"+sg, 0xfe+uint32(k), []Param{pv(SI32x4)}, f2, func(a []V, _ []byte) Res {
			var r V
			for i := 0; i < 2; i++ {
				r[i] = Convert64(uint64(L32(a[0], i)), 32, signed)
			}
			return Res{V: r}
		})
	}
	vop("f32x4.demote_f64x2_zero", 0x5e, []Param{f2}, f4, func(a []V, _ []byte) Res {
		var r Res
		for i := 0; i < 2; i++ {
			x, c := FDemote(a[0][i])
			S32(&r.V, i, x)
			r.NaN[i] = c
		}
		return r // lanes 2,3 are +0, exact
	}).NaNNondet = true
	vop("f64x2.promote_low_f32x4", 0x5f, []Param{f4}, f2, func(a []V, _ []byte) Res {
		var r Res
		for i := 0; i < 2; i++ {
			r.V[i], r.NaN[i] = FPromote(L32(a[0], i))
		}
		return r
	}).NaNNondet = true

}
