package refnum

import "testing"

func TestSelf(t *testing.T) {
	for _, e := range SelfTest(20000) {
		t.Error(e)
	}
	t.Logf("%d ops", len(Ops()))
	sc, ve := 0, 0
	for _, o := range Ops() {
		if o.Vector {
			ve++
		} else {
			sc++
		}
	}
	t.Logf("scalar %d vector %d", sc, ve)
}
