// Package refnum is an independent reference implementation of the numeric semantics of
// WebAssembly (core 2.0: scalar numeric instructions, saturating truncations, sign extension,
// and the v128 numeric instructions), written from the specification text for the property
// check C05. It shares no code with wazero.
//
// Values are carried as V = [2]uint64: scalars live in V[0] (i32/f32 in the low 32 bits),
// v128 values are little-endian (V[0] = bytes 0..7, V[1] = bytes 8..15).
package refnum

import "fmt"

// V is a value of any of the five value types.
type V [2]uint64

// Type is a WebAssembly value type (encoded as in the binary format).
type Type byte

const (
	I32  Type = 0x7f
	I64  Type = 0x7e
	F32  Type = 0x7d
	F64  Type = 0x7c
	V128 Type = 0x7b
)

func (t Type) String() string {
	switch t {
	case I32:
		return "i32"
	case I64:
		return "i64"
	case F32:
		return "f32"
	case F64:
		return "f64"
	case V128:
		return "v128"
	}
	return fmt.Sprintf("type(%#x)", byte(t))
}

// Shape says how the operand generator should fill a parameter (and how a result is compared).
type Shape byte

const (
	SInt     Shape = iota // plain integer of the type's width
	SCount                // i32 shift/rotate count (interesting around the lane width)
	SCount64              // i64 shift/rotate count
	SFloat                // scalar float of the type's width
	SI8x16
	SI16x8
	SI32x4
	SI64x2
	SF32x4
	SF64x2
	SBits // v128 as 128 untyped bits
	SIdx  // v128 of swizzle indices (bytes mostly around 0..31, 0x80..)
)

func (s Shape) String() string {
	return [...]string{"int", "count", "count64", "float", "i8x16", "i16x8", "i32x4", "i64x2", "f32x4", "f64x2", "bits", "idx"}[s]
}

// LaneBits gives the lane width used to fill a parameter of the shape (0 for scalars).
func (s Shape) LaneBits() int {
	switch s {
	case SI8x16, SIdx:
		return 8
	case SI16x8:
		return 16
	case SI32x4, SF32x4:
		return 32
	case SI64x2, SF64x2, SBits:
		return 64
	}
	return 0
}

// Param is one operand or result.
type Param struct {
	T Type
	S Shape
}

// Immediate kinds.
const (
	ImmNone    = 0
	ImmLane    = 1 // one byte lane index < ImmLanes
	ImmShuffle = 2 // sixteen bytes, each < 32
)

// NaN classes of a result lane.
const (
	Exact    uint8 = 0 // bit exact
	NaNCanon uint8 = 1 // any canonical NaN (either sign)
	NaNArith uint8 = 2 // any arithmetic NaN (quiet bit set)
)

// Trap kinds (the texts wazero uses after "wasm error: ").
const (
	TrapDivZero  = "integer divide by zero"
	TrapOverflow = "integer overflow"
	TrapInvalid  = "invalid conversion to integer"
)

// Res is the specified outcome of an instruction.
type Res struct {
	V    V
	Trap string   // "" or one of the Trap* kinds
	NaN  [4]uint8 // per float lane of the result (scalar: index 0): Exact / NaNCanon / NaNArith
}

// Op describes one numeric instruction.
type Op struct {
	Name      string
	Enc       []byte // opcode bytes (prefix + LEB sub-opcode), without immediates
	Params    []Param
	Result    Param
	Imm       int // ImmNone / ImmLane / ImmShuffle
	ImmLanes  int
	Eval      func(a []V, imm []byte) Res
	MayTrap   bool
	NaNNondet bool // result lanes may be NaNs whose payload/sign the spec leaves open
	Vector    bool

	// LaneBin/LaneBits: for lane-wise binary integer instructions the lane function and width
	// (used by the full 16-bit sweeps of check C05).
	LaneBin  func(x, y uint64) uint64 // lane-wise binary integer ops: the lane function (zero-extended lanes)
	LaneBits int
}

// Match decides whether the observed value is one the specification allows for res.
func (o *Op) Match(res Res, got V) bool {
	switch o.Result.S {
	case SFloat:
		if o.Result.T == F32 {
			return match32(uint32(res.V[0]), uint32(got[0]), res.NaN[0])
		}
		return match64(res.V[0], got[0], res.NaN[0])
	case SF32x4:
		for i := 0; i < 4; i++ {
			if !match32(L32(res.V, i), L32(got, i), res.NaN[i]) {
				return false
			}
		}
		return true
	case SF64x2:
		return match64(res.V[0], got[0], res.NaN[0]) && match64(res.V[1], got[1], res.NaN[1])
	}
	if o.Result.T == I32 || o.Result.T == F32 {
		return uint32(res.V[0]) == uint32(got[0])
	}
	if o.Result.T == V128 {
		return res.V == got
	}
	return res.V[0] == got[0]
}

func match32(want, got uint32, cls uint8) bool {
	switch cls {
	case NaNCanon:
		return got&0x7fffffff == 0x7fc00000
	case NaNArith:
		return got&0x7fc00000 == 0x7fc00000
	}
	return want == got
}

func match64(want, got uint64, cls uint8) bool {
	switch cls {
	case NaNCanon:
		return got&0x7fffffffffffffff == 0x7ff8000000000000
	case NaNArith:
		return got&0x7ff8000000000000 == 0x7ff8000000000000
	}
	return want == got
}

// Describe renders the expected outcome for messages.
func (o *Op) Describe(res Res) string {
	if res.Trap != "" {
		return "trap(" + res.Trap + ")"
	}
	s := o.FormatV(o.Result, res.V)
	for i, c := range res.NaN {
		if c == NaNCanon {
			s += fmt.Sprintf(" [lane %d: any canonical NaN]", i)
		} else if c == NaNArith {
			s += fmt.Sprintf(" [lane %d: any arithmetic NaN]", i)
		}
	}
	return s
}

// FormatV renders a value of the parameter's type.
func (o *Op) FormatV(p Param, v V) string {
	switch p.T {
	case I32, F32:
		return fmt.Sprintf("%s:0x%08x", p.T, uint32(v[0]))
	case I64, F64:
		return fmt.Sprintf("%s:0x%016x", p.T, v[0])
	}
	return fmt.Sprintf("v128:0x%016x_%016x(hi_lo)", v[1], v[0])
}

// ---- lane access ----

func L8(v V, i int) uint8   { return uint8(v[i>>3] >> (uint(i&7) * 8)) }
func L16(v V, i int) uint16 { return uint16(v[i>>2] >> (uint(i&3) * 16)) }
func L32(v V, i int) uint32 { return uint32(v[i>>1] >> (uint(i&1) * 32)) }
func L64(v V, i int) uint64 { return v[i] }

func S8(v *V, i int, x uint8) {
	sh := uint(i&7) * 8
	v[i>>3] = v[i>>3]&^(0xff<<sh) | uint64(x)<<sh
}
func S16(v *V, i int, x uint16) {
	sh := uint(i&3) * 16
	v[i>>2] = v[i>>2]&^(0xffff<<sh) | uint64(x)<<sh
}
func S32(v *V, i int, x uint32) {
	sh := uint(i&1) * 32
	v[i>>1] = v[i>>1]&^(0xffffffff<<sh) | uint64(x)<<sh
}
func S64(v *V, i int, x uint64) { v[i] = x }

// Lane reads lane i of width bits (zero-extended).
func Lane(v V, bits, i int) uint64 {
	switch bits {
	case 8:
		return uint64(L8(v, i))
	case 16:
		return uint64(L16(v, i))
	case 32:
		return uint64(L32(v, i))
	}
	return v[i]
}

// SetLane writes lane i of width bits.
func SetLane(v *V, bits, i int, x uint64) {
	switch bits {
	case 8:
		S8(v, i, uint8(x))
	case 16:
		S16(v, i, uint16(x))
	case 32:
		S32(v, i, uint32(x))
	default:
		v[i] = x
	}
}

// sx sign-extends the low `bits` bits of x.
func sx(x uint64, bits int) int64 {
	sh := uint(64 - bits)
	return int64(x<<sh) >> sh
}

func mask(bits int) uint64 {
	if bits >= 64 {
		return ^uint64(0)
	}
	return 1<<uint(bits) - 1
}

var (
	ops    []*Op
	byName = map[string]*Op{}
)

func register(o *Op) *Op {
	if _, dup := byName[o.Name]; dup {
		panic("refnum: duplicate op " + o.Name)
	}
	for _, p := range o.Params {
		if p.T == V128 {
			o.Vector = true
		}
	}
	if o.Result.T == V128 {
		o.Vector = true
	}
	ops = append(ops, o)
	byName[o.Name] = o
	return o
}

// Ops returns the table of all numeric instructions (stable order).
func Ops() []*Op { return ops }

// ByName looks an instruction up by its text-format name.
func ByName(n string) *Op { return byName[n] }
