// Package wasmgen generates WebAssembly modules that are valid by construction, from
// pgregory.net/rapid draws (so that rapid can shrink them). The generator is
// expression/statement directed: every value is produced by an expression tree of the right
// type and every statement leaves the operand stack as it found it, which makes validity a
// structural property of the generator. It shares no code with wazero.
package wasmgen

import "verif/internal/wasmenc"

const (
	I32       = wasmenc.I32
	I64       = wasmenc.I64
	F32       = wasmenc.F32
	F64       = wasmenc.F64
	V128      = wasmenc.V128
	FuncRef   = wasmenc.FuncRef
	ExternRef = wasmenc.ExternRef
)

// Feature is a bit set of optional instruction groups.
type Feature uint32

const (
	FeatMVP Feature = 1 << iota
	FeatSignExt
	FeatSatTrunc
	FeatMultiValue
	FeatBulk // bulk memory + reference types (they imply each other in wazero)
	FeatSIMD
	FeatThreads
	FeatTailCall
)

// FeatV1 is WebAssembly 1.0 (with mutable-global import/export); FeatV2 is 2.0; FeatAll adds
// threads and tail calls.
const (
	FeatV1  = FeatMVP
	FeatV2  = FeatMVP | FeatSignExt | FeatSatTrunc | FeatMultiValue | FeatBulk | FeatSIMD
	FeatAll = FeatV2 | FeatThreads | FeatTailCall
)

// ImmKind is the kind of immediate an Op takes.
type ImmKind int

const (
	ImmNone    ImmKind = iota
	ImmMem             // memarg; Width = access width in bytes
	ImmMemLane         // memarg + lane; Width bytes, Lanes lanes
	ImmLane            // lane index < Lanes
	ImmShuffle         // 16 lane indices < 32
	ImmAtomic          // memarg with align == log2(Width) exactly
)

// Op describes one table-driven instruction.
type Op struct {
	Name    string
	Prefix  byte // 0, 0xfc, 0xfd, 0xfe
	Sub     uint32
	Params  []byte
	Results []byte
	Imm     ImmKind
	Width   int
	Lanes   int
	NaN     bool // result NaN payload is non-deterministic per the specification
	Trap    bool // may trap depending on operand values
	Feat    Feature
}

// Sig is a function signature.
type Sig struct{ P, R []byte }

// FuncInfo describes a function of the module's function index space.
type FuncInfo struct {
	Index    uint32
	Sig      Sig
	Imported bool
	Export   string // export name ("" if none)
	HostName string // for imports: field name in module "env"
}

// GlobalInfo describes a global.
type GlobalInfo struct {
	Index  uint32
	Type   byte
	Mut    bool
	Export string
}

// TableInfo describes a table.
type TableInfo struct {
	Index  uint32
	Elem   byte
	Min    uint32
	Max    int64
	Export string
}

// Module is a generated module.
type Module struct {
	Enc        *wasmenc.Module `json:"-"` // structured form (for structure-aware mutation); not part of replay files
	Bytes      []byte
	Funcs      []FuncInfo
	Globals    []GlobalInfo
	Tables     []TableInfo
	HasMemory  bool
	MemMin     uint32
	MemMax     int64 // -1 = none
	MemShared  bool
	MemImport  bool
	FuelGlob   string      // export name of the fuel global ("" if fuel disabled)
	HostModule string      // module name under which the host imports are expected
	Sink       *GlobalInfo // global into which discarded values are folded (nil if none)
	Start      int         // function index of the start function, -1 if none
	Text       []string
	Features   Feature
	NumData    int
	NumElem    int
	Stats      map[string]int // instruction-class histogram (generator health)
	// InsOffs[i] lists, for the i-th module-defined function, the byte offsets at which the
	// generator's instruction records start in Enc.Funcs[i].Body, followed by the body length
	// (for instruction-level mutation; not part of replay files).
	InsOffs [][]uint32 `json:"-"`
}

// Exports returns the exported functions.
func (m *Module) Exports() []FuncInfo {
	var r []FuncInfo
	for _, f := range m.Funcs {
		if f.Export != "" {
			r = append(r, f)
		}
	}
	return r
}

// HostImports returns the imported functions.
func (m *Module) HostImports() []FuncInfo {
	var r []FuncInfo
	for _, f := range m.Funcs {
		if f.Imported {
			r = append(r, f)
		}
	}
	return r
}

// TypeName renders a value type.
func TypeName(t byte) string {
	switch t {
	case I32:
		return "i32"
	case I64:
		return "i64"
	case F32:
		return "f32"
	case F64:
		return "f64"
	case V128:
		return "v128"
	case FuncRef:
		return "funcref"
	case ExternRef:
		return "externref"
	}
	return "?"
}

func typesName(ts []byte) string {
	s := ""
	for i, t := range ts {
		if i > 0 {
			s += " "
		}
		s += TypeName(t)
	}
	return s
}
