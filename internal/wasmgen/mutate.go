package wasmgen

import (
	"pgregory.net/rapid"

	"verif/internal/wasmenc"
)

// MutateIns (deterministic: the inserted instructions have fully specified results) edits one function body of a valid generated module at instruction granularity
// (the generator records where each of its instructions starts): delete, duplicate, swap two
// neighbours, replace by a simple instruction of another type, or copy an instruction from
// elsewhere. The result differs from a valid program in one typing detail, which the validator
// has to notice; whatever it accepts is executed on both engines.
func MutateIns(t *rapid.T, m *Module, deterministic bool) ([]byte, string) {
	c := *m.Enc
	c.Funcs = append([]wasmenc.Func{}, m.Enc.Funcs...)
	var cand []int
	for i, o := range m.InsOffs {
		if i < len(c.Funcs) && len(o) >= 3 {
			cand = append(cand, i)
		}
	}
	if len(cand) == 0 {
		return c.Encode(), "none"
	}
	fi := rapid.SampledFrom(cand).Draw(t, "insfn")
	offs, body := m.InsOffs[fi], c.Funcs[fi].Body
	n := len(offs) - 1 // number of instruction records
	k := rapid.IntRange(0, n-1).Draw(t, "ins")
	ins := func(i int) []byte { return body[offs[i]:offs[i+1]] }
	simple := [][]byte{{0x1a}, {0x41, 0}, {0x42, 0}, {0x43, 0, 0, 0, 0}, {0x44, 0, 0, 0, 0, 0, 0, 0, 0}, {0x45}, {0x50}, {0xa7}, {0xad}, {0x8c}, {0x9a}, {0x1b}, {0x01}, {0x00}, {0x0f},
		{0x20, 0}, {0x21, 0}, {0x22, 0}, {0xd0, 0x70}, {0xd0, 0x6f}, {0xd1}, {0x3f, 0}, {0x6a}, {0x7c}, {0x92}, {0xa0}, {0xbc}, {0xbd}, {0xbe}, {0xbf}, {0xc0}, {0xc2},
		{0xfd, 12, 0, 0, 0, 0, 0, 0, 0, 0, 0, 0, 0, 0, 0, 0, 0, 0}, {0xfd, 83}, {0xfd, 14}, {0x0b}, {0x05}, {0x02, 0x40}, {0x03, 0x40}, {0x04, 0x40}, {0x0c, 0}, {0x0d, 0}}
	if deterministic {
		// without the float arithmetic whose NaN payloads the specification leaves open
		var d [][]byte
		for _, x := range simple {
			if len(x) == 1 && (x[0] == 0x92 || x[0] == 0xa0) {
				continue
			}
			d = append(d, x)
		}
		simple = d
	}
	var out []byte
	var op string
	switch rapid.IntRange(0, 5).Draw(t, "insop") {
	case 0:
		op = "delete"
		out = wasmenc.Cat(body[:offs[k]], body[offs[k+1]:])
	case 1:
		op = "duplicate"
		out = wasmenc.Cat(body[:offs[k+1]], ins(k), body[offs[k+1]:])
	case 2:
		op = "swap"
		if k+1 < n {
			out = wasmenc.Cat(body[:offs[k]], ins(k+1), ins(k), body[offs[k+2]:])
		} else {
			out = append([]byte{}, body...)
		}
	case 3:
		op = "replace"
		out = wasmenc.Cat(body[:offs[k]], rapid.SampledFrom(simple).Draw(t, "simple"), body[offs[k+1]:])
	case 4:
		op = "insert"
		out = wasmenc.Cat(body[:offs[k]], rapid.SampledFrom(simple).Draw(t, "simple"), body[offs[k]:])
	default:
		op = "copy"
		fj := rapid.SampledFrom(cand).Draw(t, "srcfn")
		so := m.InsOffs[fj]
		j := rapid.IntRange(0, len(so)-2).Draw(t, "srcins")
		src := m.Enc.Funcs[fj].Body[so[j]:so[j+1]]
		if rapid.Bool().Draw(t, "overwrite") {
			out = wasmenc.Cat(body[:offs[k]], src, body[offs[k+1]:])
		} else {
			out = wasmenc.Cat(body[:offs[k]], src, body[offs[k]:])
		}
	}
	c.Funcs[fi].Body = out
	return c.Encode(), op
}
