package wasmgen

import (
	"fmt"
	"math"
	"strings"

	"pgregory.net/rapid"

	"verif/internal/wasmenc"
)

// Config controls generation.
type Config struct {
	Features      Feature
	MaxFuncs      int  // defined functions (>=1)
	MaxStmts      int  // statements per block list
	MaxDepth      int  // expression depth
	HostImports   int  // max imported host functions (module "env")
	CanonNaN      bool // canonicalise NaNs after non-deterministic float instructions
	NoNaNOps      bool // leave out every instruction whose NaN results the specification leaves open (for programs that are edited afterwards: an edit can take the canonicalisation apart)
	Fuel          bool // fuel global: every function entry and loop header burns fuel, traps at 0
	FuelInit      int32
	MemPages      []uint32 // candidate minimum sizes; nil = {0,1,1,1,1,2,3}
	NoMemory      bool
	AllowStart    bool
	RefSigs       bool               // reference types may appear in function signatures
	V128Sigs      bool               // v128 may appear in function signatures
	Names         bool               // emit a name section
	Customs       bool               // emit custom sections
	SpecialHost   bool               // import env.grow (i32)->i32 and env.callback (i32)->i32
	HostModule    string             // module name of the host imports ("" = "env")
	Sink          bool               // fold values that statements would drop into an exported global (observability)
	Lib           *Module            // if set, import some exported functions of this (earlier generated) module ...
	LibName       string             // ... under this module name (wasm-to-wasm calls across instances)
	ModuleName    string             // if set, the module name written to the name section
	SegmentRich   bool               // bias statements towards passive-segment and table instructions and runtime ref.func (C11)
	CallRich      bool               // bias statements and expressions towards calls (C20)
	Enter         bool               // weave a call to the host import enter(i32 funcIndex) into every function entry (ground truth for C20)
	WASI          bool               // import a few wasi_snapshot_preview1 functions and use them
	DebugSections [][]wasmenc.Custom // real DWARF section sets (LoadDebugSections) to attach instead of the minimal pair
	TailRich      bool               // end many functions with tail calls, preferring loops through a table slot that holds the function itself
	Closer        bool               // import env.closer (i32)->i32: the host closes the CALLING module (exit code 7) when arg&7 == 0, and returns
}

// DefaultConfig is a medium-size configuration with every feature.
func DefaultConfig() Config {
	return Config{Features: FeatAll, MaxFuncs: 6, MaxStmts: 6, MaxDepth: 5, HostImports: 3, CanonNaN: true,
		Fuel: true, FuelInit: 4000, AllowStart: true, V128Sigs: true, RefSigs: true, SpecialHost: true, Sink: true}
}

type insRec struct {
	name string
	imm  [3]int64
	nimm int8
	ind  int8
	ext  string
	off  uint32 // offset of the record's bytes in the function's code
}

type label struct {
	types  []byte
	isLoop bool
}

type fctx struct {
	idx     uint32
	sig     Sig
	locals  []byte // params then declared locals
	labels  []label
	code    []byte
	ins     []insRec
	ind     int8
	scratch map[byte]uint32
	private []uint32 // further locals reserved for generated sequences (never read or written by other code)
	budget  int      // remaining instruction budget
}

type gen struct {
	t    *rapid.T
	cfg  Config
	m    *wasmenc.Module
	out  *Module
	ops  map[byte][]*Op // result type -> ops (single result)
	vops []*Op          // ops with no result (stores)
	f    *fctx
	sigs []Sig // signature per function index

	memSize     uint64 // initial bytes
	passiveD    []int  // data segment indices that are passive
	passiveDLen []int  // their lengths
	passiveE    map[byte][]int
	nData       int
	nElem       int
	fav         map[byte][]*Op // favourite instructions of this module, by result type
	funcTable   int            // index of a funcref table or -1
	initSlots   map[int]uint32 // initial contents of the funcref table written by the active element segment
	fuelIdx     uint32
	wasiFdWr    int
	sinkIdx     int // global index of the sink or -1
	nimp        int // number of imported functions
	enterIdx    int // function index of the "enter" import or -1; never called by generated code
}

func (g *gen) has(f Feature) bool { return g.cfg.Features&f == f }

// intn draws a near-uniform choice in [0,n). rapid's integer generators are heavily biased
// towards small values, which starves the later alternatives of every choice list; so the raw
// draw is mixed, except that raw 0 stays 0 (rapid shrinks towards it: the first alternative).
func (g *gen) intn(n int, l string) int {
	if n <= 1 {
		return 0
	}
	u := rapid.Uint64().Draw(g.t, l)
	if u == 0 {
		return 0
	}
	u ^= u >> 33
	u *= 0xff51afd7ed558ccd
	u ^= u >> 33
	u *= 0xc4ceb9fe1a85ec53
	u ^= u >> 33
	return int(u % uint64(n))
}

// rng draws near-uniformly in [lo,hi].
func (g *gen) rng(lo, hi int, l string) int { return lo + g.intn(hi-lo+1, l) }

// chance is true with probability pct% (and false for the simplest draw).
func (g *gen) chance(pct int, l string) bool { return g.intn(100, l) >= 100-pct }

// Generate draws a module.
func Generate(t *rapid.T, cfg Config) *Module {
	g := &gen{t: t, cfg: cfg, m: &wasmenc.Module{}, out: &Module{MemMax: -1, Start: -1, Features: cfg.Features, Stats: map[string]int{}},
		ops: map[byte][]*Op{}, passiveE: map[byte][]int{}, funcTable: -1, wasiFdWr: -1, enterIdx: -1, sinkIdx: -1}
	for i := range OpTable {
		op := &OpTable[i]
		if cfg.Features&op.Feat != op.Feat {
			continue
		}
		if cfg.NoNaNOps && op.NaN {
			continue
		}
		if len(op.Results) == 1 {
			g.ops[op.Results[0]] = append(g.ops[op.Results[0]], op)
		} else if len(op.Results) == 0 {
			g.vops = append(g.vops, op)
		}
	}
	// favourite instructions of this module: a handful of table-driven instructions that are
	// chosen far more often than the rest, so that one instruction is used several times, in
	// several functions of one module (per-module compiler state such as constant pools, label
	// caches and scratch registers is only exercised by repeated use)
	if g.chance(60, "hasfav") {
		var all []*Op
		for _, ops := range [][]*Op{g.ops[I32], g.ops[I64], g.ops[F32], g.ops[F64], g.ops[V128], g.ops[V128]} {
			for _, op := range ops {
				if op.Imm == ImmNone || op.Imm == ImmLane || op.Imm == ImmShuffle {
					all = append(all, op)
				}
			}
		}
		if len(all) > 0 {
			g.fav = map[byte][]*Op{}
			for i, n := 0, g.rng(1, 6, "nfav"); i < n; i++ {
				op := all[g.intn(len(all), "fav")]
				g.fav[op.Results[0]] = append(g.fav[op.Results[0]], op)
			}
			g.stat("favourite-instructions")
		}
	}
	g.module()
	return g.out
}

var numTypes = []byte{I32, I32, I32, I64, I64, F32, F64}

func (g *gen) valType(sigPos bool) byte {
	c := append([]byte{}, numTypes...)
	if g.has(FeatSIMD) && (!sigPos || g.cfg.V128Sigs) {
		c = append(c, V128)
	}
	if g.has(FeatBulk) && (!sigPos || g.cfg.RefSigs) && g.chance(12, "reftype") {
		return []byte{FuncRef, ExternRef}[g.intn(2, "ref")]
	}
	return c[g.intn(len(c), "vt")]
}

func (g *gen) sig(maxP, maxR int, host bool) Sig {
	var s Sig
	np := g.rng(0, maxP, "np")
	for i := 0; i < np; i++ {
		t := g.valType(true)
		if host && (t == V128 || t == FuncRef) {
			t = I64
		}
		s.P = append(s.P, t)
	}
	nr := 0
	if maxR > 0 {
		nr = g.rng(0, maxR, "nr")
		if nr > 1 && !g.has(FeatMultiValue) {
			nr = 1
		}
	}
	for i := 0; i < nr; i++ {
		t := g.valType(true)
		if host && (t == V128 || t == FuncRef) {
			t = I32
		}
		s.R = append(s.R, t)
	}
	return s
}

func (g *gen) module() {
	m, cfg := g.m, g.cfg
	// --- imports ---
	hostMod := cfg.HostModule
	if hostMod == "" {
		hostMod = "env"
	}
	g.out.HostModule = hostMod
	nh := 0
	if cfg.HostImports > 0 {
		nh = g.rng(0, cfg.HostImports, "nhost")
	}
	for i := 0; i < nh; i++ {
		s := g.sig(4, 2, true)
		idx := m.ImportFunc(hostMod, fmt.Sprintf("h%d", i), s.P, s.R)
		g.sigs = append(g.sigs, s)
		g.out.Funcs = append(g.out.Funcs, FuncInfo{Index: idx, Sig: s, Imported: true, HostName: fmt.Sprintf("h%d", i)})
	}
	if cfg.SpecialHost && g.chance(50, "special") {
		for _, n := range []string{"grow", "callback"} {
			s := Sig{P: []byte{I32}, R: []byte{I32}}
			idx := m.ImportFunc(hostMod, n, s.P, s.R)
			g.sigs = append(g.sigs, s)
			g.out.Funcs = append(g.out.Funcs, FuncInfo{Index: idx, Sig: s, Imported: true, HostName: n})
		}
	}
	if cfg.Closer {
		s := Sig{P: []byte{I32}, R: []byte{I32}}
		idx := m.ImportFunc(hostMod, "closer", s.P, s.R)
		g.sigs = append(g.sigs, s)
		g.out.Funcs = append(g.out.Funcs, FuncInfo{Index: idx, Sig: s, Imported: true, HostName: "closer"})
	}
	if cfg.Lib != nil {
		ex := cfg.Lib.Exports()
		if len(ex) > 0 {
			k := g.rng(1, 3, "nlibimports")
			for i := 0; i < k; i++ {
				e := ex[g.intn(len(ex), "libfn")]
				idx := m.ImportFunc(cfg.LibName, e.Export, e.Sig.P, e.Sig.R)
				g.sigs = append(g.sigs, e.Sig)
				g.out.Funcs = append(g.out.Funcs, FuncInfo{Index: idx, Sig: e.Sig, Imported: true, HostName: "lib:" + e.Export})
			}
		}
	}
	if cfg.Enter {
		s := Sig{P: []byte{I32}}
		g.enterIdx = int(m.ImportFunc(hostMod, "enter", s.P, s.R))
		g.sigs = append(g.sigs, s)
		g.out.Funcs = append(g.out.Funcs, FuncInfo{Index: uint32(g.enterIdx), Sig: s, Imported: true, HostName: "enter"})
	}
	if cfg.WASI {
		s := Sig{P: []byte{I32, I32, I32, I32}, R: []byte{I32}}
		g.wasiFdWr = int(m.ImportFunc("wasi_snapshot_preview1", "fd_write", s.P, s.R))
		g.sigs = append(g.sigs, s)
		g.out.Funcs = append(g.out.Funcs, FuncInfo{Index: uint32(g.wasiFdWr), Sig: s, Imported: true, HostName: "wasi:fd_write"})
	}
	nimp := len(g.sigs)
	g.nimp = nimp

	// --- imported globals (shared with the library module), placed anywhere in the import
	// section: import indices are per kind, so a global import before a function import must not
	// disturb how calls to imported functions are typed ---
	gimp := 0
	if cfg.Lib != nil && len(cfg.Lib.Globals) > 0 && g.chance(50, "libglobals") {
		k := g.rng(1, 3, "nlibglobals")
		after := 0 // global imports keep their relative order: the i-th one gets global index i
		for i := 0; i < k; i++ {
			lg := cfg.Lib.Globals[g.intn(len(cfg.Lib.Globals), "libglobal")]
			imp := wasmenc.Import{Mod: cfg.LibName, Name: lg.Export, Kind: wasmenc.KGlobal, Desc: wasmenc.GlobalType(lg.Type, lg.Mut)}
			pos := after + g.intn(len(m.Imports)+1-after, "libglobalpos")
			after = pos + 1
			m.Imports = append(m.Imports, wasmenc.Import{})
			copy(m.Imports[pos+1:], m.Imports[pos:])
			m.Imports[pos] = imp
			name := fmt.Sprintf("ig%d", gimp)
			m.Exports = append(m.Exports, wasmenc.Export{Name: name, Kind: wasmenc.KGlobal, Idx: uint32(gimp)})
			g.out.Globals = append(g.out.Globals, GlobalInfo{Index: uint32(gimp), Type: lg.Type, Mut: lg.Mut, Export: name})
			gimp++
		}
		g.stat("imported-globals")
	}

	// --- memory ---
	if !cfg.NoMemory && g.chance(92, "hasmem") {
		pages := cfg.MemPages
		if pages == nil {
			pages = []uint32{0, 1, 1, 1, 1, 2, 3}
		}
		min := pages[g.intn(len(pages), "mempages")]
		max := int64(-1)
		shared := false
		if g.has(FeatThreads) && g.chance(25, "shared") {
			shared = true
		}
		if shared || g.chance(50, "memmax") {
			max = int64(min) + int64(g.rng(0, 3, "memroom"))
			if max > 65536 {
				max = 65536
			}
		}
		m.Mems = [][]byte{wasmenc.Limits(min, max, shared)}
		m.Exports = append(m.Exports, wasmenc.Export{Name: "memory", Kind: wasmenc.KMem, Idx: 0})
		g.out.HasMemory, g.out.MemMin, g.out.MemMax, g.out.MemShared = true, min, max, shared
		g.memSize = uint64(min) * 65536
	}

	// --- globals ---
	if cfg.Fuel {
		g.fuelIdx = uint32(gimp + len(m.Globals))
		m.Globals = append(m.Globals, wasmenc.Global{Type: I32, Mut: true, Init: wasmenc.NewB().I32Const(cfg.FuelInit).Bytes()})
		m.Exports = append(m.Exports, wasmenc.Export{Name: "fuel", Kind: wasmenc.KGlobal, Idx: g.fuelIdx})
		g.out.FuelGlob = "fuel"
	}
	if cfg.Sink {
		g.sinkIdx = gimp + len(m.Globals)
		m.Globals = append(m.Globals, wasmenc.Global{Type: I64, Mut: true, Init: wasmenc.NewB().I64Const(0).Bytes()})
		m.Exports = append(m.Exports, wasmenc.Export{Name: "sink", Kind: wasmenc.KGlobal, Idx: uint32(g.sinkIdx)})
		g.out.Sink = &GlobalInfo{Index: uint32(g.sinkIdx), Type: I64, Mut: true, Export: "sink"}
	}
	ng := g.rng(0, 5, "nglobals")
	for i := 0; i < ng; i++ {
		ty := g.valType(false)
		if ty == ExternRef {
			ty = I32
		}
		mut := g.chance(75, "gmut")
		idx := uint32(gimp + len(m.Globals))
		var init []byte
		if ty == FuncRef {
			init = []byte{0xd0, FuncRef}
		} else {
			init = g.constBytes(ty)
		}
		m.Globals = append(m.Globals, wasmenc.Global{Type: ty, Mut: mut, Init: init})
		name := fmt.Sprintf("g%d", idx)
		m.Exports = append(m.Exports, wasmenc.Export{Name: name, Kind: wasmenc.KGlobal, Idx: idx})
		g.out.Globals = append(g.out.Globals, GlobalInfo{Index: idx, Type: ty, Mut: mut, Export: name})
	}

	// --- function signatures ---
	nf := g.rng(1, cfg.MaxFuncs, "nfuncs")
	for i := 0; i < nf; i++ {
		maxP := 5
		if g.chance(8, "manyparams") {
			maxP = 22
		}
		maxR := 1
		if g.has(FeatMultiValue) && g.chance(25, "multires") {
			maxR = 4
			if g.chance(15, "manyres") {
				maxR = 12
			}
		}
		s := g.sig(maxP, maxR, false)
		if i == 0 && g.chance(60, "plainfirst") {
			s = Sig{} // a ()->() function: start candidate
		}
		g.sigs = append(g.sigs, s)
	}
	if g.has(FeatTailCall) && g.has(FeatMultiValue) && nf >= 2 && g.chance(12, "widefamily") {
		// a family of functions that can tail-call each other (same result types) where the results
		// do not fit the result registers and the family members differ in how many of their
		// parameters are passed on the stack (none / some): frame reuse has to account for both
		nr := g.rng(9, 14, "widenr")
		var r []byte
		for k := 0; k < nr; k++ {
			r = append(r, []byte{I32, I64, I64, F64, F32}[g.intn(5, "widert")])
		}
		fam := g.rng(2, min(nf, 3), "widefam")
		for k := 0; k < fam; k++ {
			np := []int{g.rng(9, 16, "widenp"), g.rng(0, 3, "narrownp"), g.rng(0, 12, "anynp")}[k]
			var p []byte
			for j := 0; j < np; j++ {
				p = append(p, []byte{I32, I64, I64, I32, F64}[g.intn(5, "widept")])
			}
			g.sigs[len(g.sigs)-1-k] = Sig{P: p, R: append([]byte{}, r...)}
		}
		g.stat("wide-tailcall-family")
	}

	// --- tables ---
	if g.chance(70, "hastable") {
		nt := 1
		if g.has(FeatBulk) && g.chance(30, "twotables") {
			nt = 2
		}
		// with two tables, the externref one may come first (the funcref table is then table 1)
		externFirst := nt == 2 && g.chance(25, "externfirst")
		for i := 0; i < nt; i++ {
			elem := byte(FuncRef)
			if i > 0 && !externFirst && g.chance(50, "externtable") {
				elem = ExternRef
			}
			if i == 0 && externFirst {
				elem = ExternRef
				g.stat("externref-table-first")
			}
			min := uint32(g.rng(0, 8, "tmin"))
			max := int64(-1)
			if g.chance(50, "tmax") {
				max = int64(min) + int64(g.rng(0, 4, "troom"))
			}
			m.Tables = append(m.Tables, wasmenc.TableType(elem, min, max))
			name := fmt.Sprintf("t%d", i)
			m.Exports = append(m.Exports, wasmenc.Export{Name: name, Kind: wasmenc.KTable, Idx: uint32(i)})
			g.out.Tables = append(g.out.Tables, TableInfo{Index: uint32(i), Elem: elem, Min: min, Max: max, Export: name})
			if elem == FuncRef && g.funcTable < 0 {
				g.funcTable = i
			}
		}
	}
	total := nimp + nf
	// element segments
	if g.funcTable >= 0 {
		ti := g.out.Tables[g.funcTable]
		if ti.Min > 0 {
			n := g.rng(1, int(ti.Min), "nelem")
			off := g.rng(0, int(ti.Min)-n, "elemoff")
			fs := make([]uint32, n)
			g.initSlots = map[int]uint32{}
			for i := range fs {
				fs[i] = g.anyFn(total, "elemfn")
				g.initSlots[off+i] = fs[i]
			}
			if g.funcTable == 0 {
				m.Elems = append(m.Elems, wasmenc.ActiveElemFuncs(int32(off), fs))
			} else {
				m.Elems = append(m.Elems, wasmenc.ActiveElemFuncsTable(uint32(g.funcTable), wasmenc.NewB().I32Const(int32(off)).Bytes(), fs))
			}
			g.nElem++
		}
	}
	if g.has(FeatBulk) {
		np := g.rng(0, 2, "npassiveelem")
		for i := 0; i < np; i++ {
			n := g.rng(0, 4, "pelemn")
			fs := make([]uint32, n)
			for i := range fs {
				fs[i] = g.anyFn(total, "pelemfn")
			}
			m.Elems = append(m.Elems, wasmenc.PassiveElemFuncs(fs))
			g.passiveE[FuncRef] = append(g.passiveE[FuncRef], g.nElem)
			g.nElem++
		}
		// declare every function so that ref.func is always valid
		all := make([]uint32, total)
		for i := range all {
			all[i] = uint32(i)
		}
		m.Elems = append(m.Elems, wasmenc.DeclElemFuncs(all))
		g.nElem++
	}
	// data segments
	if g.out.HasMemory {
		nd := g.rng(0, 3, "ndata")
		for i := 0; i < nd; i++ {
			dl := g.rng(0, 24, "datalen") // (rapid's own slice lengths are biased towards very short)
			data := rapid.SliceOfN(rapid.Byte(), dl, dl).Draw(g.t, "data")
			if g.has(FeatBulk) && g.chance(40, "passive") {
				m.Datas = append(m.Datas, wasmenc.PassiveData(data))
				g.passiveD = append(g.passiveD, g.nData)
				g.passiveDLen = append(g.passiveDLen, len(data))
			} else if g.memSize >= uint64(len(data)) && g.memSize > 0 {
				off := rapid.Uint64Range(0, g.memSize-uint64(len(data))).Draw(g.t, "dataoff")
				if off > 1<<20 && g.chance(90, "lowdata") {
					off %= 1 << 16
				}
				m.Datas = append(m.Datas, wasmenc.ActiveData(int32(uint32(off)), data))
			} else {
				continue
			}
			g.nData++
		}
		if g.has(FeatBulk) {
			m.DataCnt = true
		}
	}
	g.out.NumData, g.out.NumElem = g.nData, g.nElem

	// --- function bodies ---
	for i := 0; i < nf; i++ {
		idx := uint32(nimp + i)
		g.function(idx, g.sigs[idx])
		name := fmt.Sprintf("f%d", idx)
		m.ExportFunc(name, idx)
		g.out.Funcs = append(g.out.Funcs, FuncInfo{Index: idx, Sig: g.sigs[idx], Export: name})
	}
	g.helpers(uint32(nimp + nf))
	if cfg.AllowStart && g.chance(15, "start") {
		for i := 0; i < nf; i++ {
			s := g.sigs[nimp+i]
			if len(s.P) == 0 && len(s.R) == 0 {
				m.Start = wasmenc.P(uint32(nimp + i))
				g.out.Start = nimp + i
				break
			}
		}
	}
	if cfg.ModuleName != "" {
		m.ModuleName = cfg.ModuleName
	}
	if cfg.Names && g.chance(70, "names") {
		if m.ModuleName == "" {
			m.ModuleName = "gen"
		}
		for i := range m.Funcs {
			if g.chance(50, "fname") {
				m.Funcs[i].Name = fmt.Sprintf("fn%d", i)
			}
		}
	}
	if cfg.Customs && g.chance(35, "dwarf") {
		// minimal well-formed DWARF (one compilation-unit header, empty abbreviation table): the
		// engines then keep per-instruction source offsets and symbolise traps through them
		if g.chance(20, "partialdwarf") {
			// a partially stripped binary: any subset of the DWARF v4/v5 section names, each empty,
			// with a few arbitrary bytes, or with well-formed content (a valid module whatever
			// its custom sections hold: debug information must never decide whether it runs)
			names := []string{".debug_info", ".debug_abbrev", ".debug_line", ".debug_str", ".debug_ranges", ".debug_loc", ".debug_addr", ".debug_line_str", ".debug_str_offsets", ".debug_rnglists", ".debug_loclists", ".debug_aranges", ".debug_frame"}
			good := map[string][]byte{}
			for _, cs := range g.synthDWARF() {
				good[cs.Name] = cs.Data
			}
			for _, n := range names {
				if !g.chance(30, "hassection") {
					continue
				}
				var data []byte
				switch g.intn(4, "sectiondata") {
				case 0:
				case 1:
					for i, k := 0, g.rng(1, 12, "garbagelen"); i < k; i++ {
						data = append(data, byte(g.intn(256, "garbage")))
					}
				default:
					data = good[n]
				}
				m.Customs = append(m.Customs, wasmenc.Custom{Name: n, Data: data})
			}
			g.stat("dwarf-partial")
		} else if g.chance(40, "synthdwarf") {
			m.Customs = append(m.Customs, g.synthDWARF()...)
			g.stat("dwarf-synthetic")
		} else if len(cfg.DebugSections) > 0 && g.chance(60, "realdwarf") {
			// DWARF of a real toolchain (compilation units with ranges, line programs): its addresses
			// land on arbitrary instructions of this module, which is what a symbolizer must survive
			m.Customs = append(m.Customs, cfg.DebugSections[g.intn(len(cfg.DebugSections), "dwarfset")]...)
			g.stat("dwarf-real")
		} else {
			m.Customs = append(m.Customs, wasmenc.Custom{Name: ".debug_abbrev", Data: []byte{0}},
				wasmenc.Custom{Name: ".debug_info", Data: []byte{7, 0, 0, 0, 4, 0, 0, 0, 0, 0, 4}})
		}
		g.stat("dwarf")
	} else if cfg.Customs {
		nc := g.rng(0, 3, "ncustom")
		for i := 0; i < nc; i++ {
			nm := rapid.SampledFrom([]string{"producers", ".debug_info", ".debug_line", ".debug_str", ".debug_abbrev", "x", "target_features"}).Draw(g.t, "cname")
			m.Customs = append(m.Customs, wasmenc.Custom{Name: nm, Data: rapid.SliceOfN(rapid.Byte(), 0, 40).Draw(g.t, "cdata")})
		}
	}
	g.out.Bytes = m.Encode()
	g.out.Enc = m
}

// ---------------- constants ----------------

var i32Consts = []uint32{0, 1, 2, 0xffffffff, 0x7fffffff, 0x80000000, 0x80000001, 0xffff, 0x10000, 0xfffffffe, 31, 32, 33, 63, 64, 65, 8, 16, 255, 256, 0x7ffffffe, 0xfffffff0, 0x55555555, 0xaaaaaaaa}
var i64Consts = []uint64{0, 1, 2, math.MaxUint64, math.MaxInt64, 1 << 63, 1<<63 + 1, 0xffffffff, 0x100000000, 0x7fffffff, 0x80000000, 63, 64, 65, 31, 32, 33, 0xffffffff00000000, 0x5555555555555555, 0xfffffffffffffffe}
var f32Consts = []uint32{0, 0x80000000, 0x3f800000, 0xbf800000, 0x7f800000, 0xff800000, 0x7fc00000, 0xffc00000, 0x7fc00001, 0x7f800001, 0xffa00000, 1, 0x80000001, 0x007fffff, 0x00800000, 0x7f7fffff, 0x4f000000, 0xcf000000, 0x4effffff, 0x4f800000, 0x5f000000, 0xdf000000, 0x3f000000, 0x3fc00000, 0x40200000, 0xbf000000, 0x4b000000, 0x4b800000, 0x3effffff}
var f64Consts = []uint64{0, 1 << 63, 0x3ff0000000000000, 0xbff0000000000000, 0x7ff0000000000000, 0xfff0000000000000, 0x7ff8000000000000, 0xfff8000000000000, 0x7ff8000000000001, 0x7ff0000000000001, 0xfff4000000000000, 1, 1<<63 + 1, 0x000fffffffffffff, 0x0010000000000000, 0x7fefffffffffffff, 0x41e0000000000000, 0xc1e0000000000000, 0x41dfffffffc00000, 0x41f0000000000000, 0x43e0000000000000, 0xc3e0000000000000, 0x43f0000000000000, 0x3fe0000000000000, 0x3ff8000000000000, 0x4004000000000000, 0x4330000000000000, 0xc1e0000000200000, 0x3fdfffffffffffff}

func (g *gen) drawI32() uint32 {
	switch g.intn(10, "i32kind") {
	case 0, 1, 2, 3:
		return i32Consts[g.intn(len(i32Consts), "i32c")]
	case 4, 5, 6:
		return uint32(g.rng(0, 300, "i32small"))
	case 7:
		return uint32(1)<<uint(g.intn(32, "i32sh")) + uint32(g.intn(3, "i32d")) - 1
	default:
		return rapid.Uint32().Draw(g.t, "i32r")
	}
}

func (g *gen) drawI64() uint64 {
	switch g.intn(10, "i64kind") {
	case 0, 1, 2, 3:
		return i64Consts[g.intn(len(i64Consts), "i64c")]
	case 4, 5:
		return uint64(g.rng(0, 300, "i64small"))
	case 6:
		return uint64(1)<<uint(g.intn(64, "i64sh")) + uint64(g.intn(3, "i64d")) - 1
	default:
		return rapid.Uint64().Draw(g.t, "i64r")
	}
}

func (g *gen) drawF32() uint32 {
	switch g.intn(10, "f32kind") {
	case 0, 1, 2, 3, 4:
		return f32Consts[g.intn(len(f32Consts), "f32c")]
	case 5, 6:
		return math.Float32bits(float32(g.rng(-1000, 1000, "f32i")) / 4)
	default:
		return rapid.Uint32().Draw(g.t, "f32r")
	}
}

func (g *gen) drawF64() uint64 {
	switch g.intn(10, "f64kind") {
	case 0, 1, 2, 3, 4:
		return f64Consts[g.intn(len(f64Consts), "f64c")]
	case 5, 6:
		return math.Float64bits(float64(g.rng(-1000, 1000, "f64i")) / 4)
	default:
		return rapid.Uint64().Draw(g.t, "f64r")
	}
}

func (g *gen) drawV128() (uint64, uint64) {
	switch g.intn(6, "v128kind") {
	case 0:
		return 0, 0
	case 1:
		return math.MaxUint64, math.MaxUint64
	case 2:
		a, b := g.drawF32(), g.drawF32()
		return uint64(a) | uint64(b)<<32, uint64(b) | uint64(a)<<32
	case 3:
		return g.drawF64(), g.drawF64()
	case 4:
		return g.drawI64(), g.drawI64()
	default:
		return rapid.Uint64().Draw(g.t, "vlo"), rapid.Uint64().Draw(g.t, "vhi")
	}
}

// constBytes returns a constant expression (without end) of a numeric/vector type.
func (g *gen) constBytes(ty byte) []byte {
	b := wasmenc.NewB()
	switch ty {
	case I32:
		b.I32Const(int32(g.drawI32()))
	case I64:
		b.I64Const(int64(g.drawI64()))
	case F32:
		b.F32Const(g.drawF32())
	case F64:
		b.F64Const(g.drawF64())
	case V128:
		lo, hi := g.drawV128()
		b.V128Const(lo, hi)
	case FuncRef, ExternRef:
		b.RefNull(ty)
	}
	return b.Bytes()
}

// ---------------- emission ----------------

func (f *fctx) emit(name string, bytes []byte, imm ...int64) {
	r := insRec{name: name, ind: f.ind, nimm: int8(len(imm)), off: uint32(len(f.code))}
	f.code = append(f.code, bytes...)
	copy(r.imm[:], imm)
	f.ins = append(f.ins, r)
	f.budget--
}

func (f *fctx) emitExt(name, ext string, bytes []byte) {
	f.ins = append(f.ins, insRec{name: name, ind: f.ind, ext: ext, off: uint32(len(f.code))})
	f.code = append(f.code, bytes...)
	f.budget--
}

func (g *gen) op1(name string, b ...byte) { g.f.emit(name, b) }

func (g *gen) i32const(v int32) { g.f.emit("i32.const", wasmenc.NewB().I32Const(v).Bytes(), int64(v)) }
func (g *gen) i64const(v int64) { g.f.emit("i64.const", wasmenc.NewB().I64Const(v).Bytes(), v) }
func (g *gen) localGet(i uint32) {
	g.f.emit("local.get", wasmenc.NewB().LocalGet(i).Bytes(), int64(i))
}
func (g *gen) localSet(i uint32) {
	g.f.emit("local.set", wasmenc.NewB().LocalSet(i).Bytes(), int64(i))
}
func (g *gen) localTee(i uint32) {
	g.f.emit("local.tee", wasmenc.NewB().LocalTee(i).Bytes(), int64(i))
}
func (g *gen) globalGet(i uint32) {
	g.f.emit("global.get", wasmenc.NewB().GlobalGet(i).Bytes(), int64(i))
}
func (g *gen) globalSet(i uint32) {
	g.f.emit("global.set", wasmenc.NewB().GlobalSet(i).Bytes(), int64(i))
}
func (g *gen) end() {
	g.f.ind--
	g.f.emit("end", []byte{0x0b})
}

func (g *gen) newLocal(ty byte) uint32 {
	g.f.locals = append(g.f.locals, ty)
	return uint32(len(g.f.locals) - 1)
}

func (g *gen) scratch(ty byte) uint32 {
	if i, ok := g.f.scratch[ty]; ok {
		return i
	}
	i := g.newLocal(ty)
	g.f.scratch[ty] = i
	return i
}

// blockType returns the encoded block type for params->results.
func (g *gen) blockType(p, r []byte) []byte {
	if len(p) == 0 && len(r) == 0 {
		return []byte{0x40}
	}
	if len(p) == 0 && len(r) == 1 {
		return []byte{r[0]}
	}
	return wasmenc.S64(int64(g.m.AddType(p, r)))
}

func (g *gen) open(kind string, opc byte, p, r []byte, isLoop bool) {
	g.f.emitExt(kind, "(param "+typesName(p)+") (result "+typesName(r)+")", append([]byte{opc}, g.blockType(p, r)...))
	g.f.ind++
	lt := r
	if isLoop {
		lt = p
	}
	g.f.labels = append(g.f.labels, label{types: lt, isLoop: isLoop})
}

func (g *gen) close() {
	g.f.labels = g.f.labels[:len(g.f.labels)-1]
	g.end()
}

func (g *gen) burnFuel() {
	if !g.cfg.Fuel {
		return
	}
	g.globalGet(g.fuelIdx)
	g.i32const(0)
	g.op1("i32.le_s", 0x4c)
	g.f.emitExt("if", "", []byte{0x04, 0x40})
	g.f.ind++
	g.op1("unreachable", 0x00)
	g.end()
	g.globalGet(g.fuelIdx)
	g.i32const(1)
	g.op1("i32.sub", 0x6b)
	g.globalSet(g.fuelIdx)
}

func (g *gen) burnFuelN(n int32) {
	if !g.cfg.Fuel {
		return
	}
	g.globalGet(g.fuelIdx)
	g.i32const(n)
	g.op1("i32.lt_s", 0x48)
	g.f.emitExt("if", "", []byte{0x04, 0x40})
	g.f.ind++
	g.op1("unreachable", 0x00)
	g.end()
	g.globalGet(g.fuelIdx)
	g.i32const(n)
	g.op1("i32.sub", 0x6b)
	g.globalSet(g.fuelIdx)
}

// ---------------- functions ----------------

func (g *gen) function(idx uint32, s Sig) {
	f := &fctx{idx: idx, sig: s, locals: append([]byte{}, s.P...), scratch: map[byte]uint32{}, ind: 1}
	f.budget = g.rng(8, 400, "budget")
	g.f = f
	nl := g.rng(0, 6, "nlocals")
	if g.chance(4, "manylocals") {
		nl = g.rng(20, 60, "nlocals2")
	}
	for i := 0; i < nl; i++ {
		f.locals = append(f.locals, g.valType(false))
	}
	f.labels = []label{{types: s.R}}
	g.burnFuelN(16)
	if g.enterIdx >= 0 {
		g.i32const(int32(idx))
		g.call2(uint32(g.enterIdx))
	}
	term := g.stmts(g.cfg.MaxStmts)
	if !term {
		tailp := 6
		if g.cfg.TailRich {
			tailp = 50
		}
		if g.has(FeatTailCall) && g.chance(tailp, "tail") && g.tailCall() {
			// terminated by a tail call
		} else {
			for _, r := range s.R {
				g.expr(r, g.cfg.MaxDepth)
			}
		}
	}
	g.m.Funcs = append(g.m.Funcs, wasmenc.Func{Type: g.m.AddType(s.P, s.R), Locals: f.locals[len(s.P):], Body: f.code})
	offs := make([]uint32, 0, len(f.ins)+1)
	for _, r := range f.ins {
		if n := len(offs); n == 0 || offs[n-1] != r.off {
			offs = append(offs, r.off)
		}
	}
	g.out.InsOffs = append(g.out.InsOffs, append(offs, uint32(len(f.code))))
	g.out.Text = append(g.out.Text, fmt.Sprintf("(func $f%d (param %s) (result %s) (locals %s)", idx, typesName(s.P), typesName(s.R), typesName(f.locals[len(s.P):])))
	g.out.Text = append(g.out.Text, renderIns(f.ins)...)
	g.out.Text = append(g.out.Text, ")")
}

func renderIns(ins []insRec) []string {
	out := make([]string, 0, len(ins))
	for _, r := range ins {
		var sb strings.Builder
		for i := int8(0); i < r.ind; i++ {
			sb.WriteString("  ")
		}
		sb.WriteString(r.name)
		for i := int8(0); i < r.nimm; i++ {
			fmt.Fprintf(&sb, " %d", r.imm[i])
		}
		if r.ext != "" {
			sb.WriteString(" " + r.ext)
		}
		out = append(out, sb.String())
	}
	return out
}

// tailCall emits return_call to a function with identical results, if any. Returns false
// if no candidate exists.
func (g *gen) tailCall() bool {
	var c []uint32
	for i, s := range g.sigs {
		if string(s.R) == string(g.f.sig.R) && i != g.enterIdx {
			c = append(c, uint32(i))
		}
	}
	if len(c) == 0 {
		return false
	}
	fn := c[g.intn(len(c), "tailfn")]
	selfSlot := -1
	if g.cfg.TailRich && g.chance(60, "tailself") {
		// a loop made only of tail calls: this function again, directly or through the table slot
		// that initially holds it (it ends when the fuel runs out, after thousands of steps)
		fn = g.f.idx
		for slot := 0; slot < 64; slot++ {
			if f, ok := g.initSlots[slot]; ok && f == g.f.idx {
				selfSlot = slot
				break
			}
		}
	}
	for _, p := range g.sigs[fn].P {
		g.expr(p, 2)
	}
	if selfSlot >= 0 && g.chance(70, "tailselfindirect") {
		typ := g.m.AddType(g.sigs[fn].P, g.sigs[fn].R)
		g.i32const(int32(selfSlot))
		g.stat("tailcall-indirect-self-loop")
		g.f.emit("return_call_indirect", wasmenc.NewB().ReturnCallIndirect(typ, uint32(g.funcTable)).Bytes(), int64(typ), int64(g.funcTable))
		return true
	}
	if g.funcTable >= 0 && g.chance(35, "tailindirect") {
		// return_call_indirect with the chosen function's signature through a table slot (which
		// may hold that function, another one of the same type, something else or null)
		ti := g.out.Tables[g.funcTable]
		if ti.Min > 0 && g.chance(85, "tciinrange") {
			g.i32const(int32(g.intn(int(ti.Min), "tcislot")))
		} else {
			g.expr(I32, 2)
		}
		typ := g.m.AddType(g.sigs[fn].P, g.sigs[fn].R)
		g.stat("tailcall-indirect")
		g.f.emit("return_call_indirect", wasmenc.NewB().ReturnCallIndirect(typ, uint32(g.funcTable)).Bytes(), int64(typ), int64(g.funcTable))
		return true
	}
	g.stat("tailcall")
	g.f.emit("return_call", wasmenc.NewB().ReturnCall(fn).Bytes(), int64(fn))
	return true
}

func (g *gen) stat(k string) { g.out.Stats[k]++ }

// consume removes the value of type ty from the top of the stack: it is folded into the sink
// global when there is one (so that values a program discards stay observable), else dropped.
func (g *gen) consume(ty byte) {
	if g.sinkIdx < 0 {
		g.op1("drop", 0x1a)
		return
	}
	fold := func() {
		g.globalGet(uint32(g.sinkIdx))
		g.i64const(7)
		g.op1("i64.rotl", 0x89)
		g.op1("i64.xor", 0x85)
		g.globalSet(uint32(g.sinkIdx))
	}
	switch ty {
	case I32:
		g.op1("i64.extend_i32_u", 0xad)
		fold()
	case I64:
		fold()
	case F32:
		g.op1("i32.reinterpret_f32", 0xbc)
		g.op1("i64.extend_i32_u", 0xad)
		fold()
	case F64:
		g.op1("i64.reinterpret_f64", 0xbd)
		fold()
	case V128:
		t := g.scratch(V128)
		g.localSet(t)
		g.localGet(t)
		g.op1("i64x2.extract_lane 0", 0xfd, 0x1d, 0)
		fold()
		g.localGet(t)
		g.op1("i64x2.extract_lane 1", 0xfd, 0x1d, 1)
		fold()
	default:
		g.op1("drop", 0x1a)
	}
}

// consumeAll consumes the values of the given types (last on top).
func (g *gen) consumeAll(ts []byte) {
	for i := len(ts) - 1; i >= 0; i-- {
		g.consume(ts[i])
	}
}

// anyFn draws a function index that generated code may reference (never the enter hook).
func (g *gen) anyFn(total int, l string) uint32 {
	for {
		fn := g.intn(total, l)
		if fn != g.enterIdx {
			return uint32(fn)
		}
		if total == 1 {
			return 0
		}
		l += "'"
	}
}

// stmts emits up to n statements; it returns true if the sequence ended in an
// unconditional transfer of control (nothing may follow in this block).
func (g *gen) stmts(n int) bool {
	k := g.rng(0, n, "nstmts")
	for i := 0; i < k; i++ {
		if g.f.budget <= 0 {
			return false
		}
		if g.stmt() {
			if g.chance(40, "deadcode") {
				g.deadCode()
			}
			return true
		}
	}
	return false
}

func (g *gen) isScratch(i uint32) bool {
	for _, s := range g.f.scratch {
		if s == i {
			return true
		}
	}
	for _, s := range g.f.private {
		if s == i {
			return true
		}
	}
	return false
}

// privateLocal allocates a local that only the caller's own sequence uses.
func (g *gen) privateLocal(ty byte) uint32 {
	i := g.newLocal(ty)
	g.f.private = append(g.f.private, i)
	return i
}

// localsOf lists the locals of a type, except scratch locals (they may hold NaNs that have
// not been canonicalised yet and must never be observed by generated code).
func (g *gen) localsOf(ty byte) []uint32 {
	var r []uint32
	for i, t := range g.f.locals {
		if t == ty && !g.isScratch(uint32(i)) {
			r = append(r, uint32(i))
		}
	}
	return r
}

func (g *gen) mutGlobals() []GlobalInfo {
	var r []GlobalInfo
	for _, gl := range g.out.Globals {
		if gl.Mut {
			r = append(r, gl)
		}
	}
	return r
}

var stmtKinds = []string{"shift", "localset", "localset", "globalset", "store", "store", "store", "call", "call", "callind", "if", "if", "block", "loop", "drop", "drop", "bulk", "table", "grow", "return", "unreachable", "nop", "vstore", "atomic", "wasi"}

func (g *gen) stmt() (terminated bool) {
	d := g.cfg.MaxDepth
	kind := stmtKinds[g.intn(len(stmtKinds), "stmt")]
	if g.cfg.CallRich && g.chance(50, "callrich") {
		kind = "call"
		if g.funcTable >= 0 && g.chance(30, "callrichind") {
			kind = "callind"
		}
	}
	if g.cfg.SegmentRich && g.chance(30, "segrich") {
		kind = []string{"bulk", "bulk", "table", "reffunc", "reffunc"}[g.intn(5, "segkind")]
	}
	switch kind {
	case "reffunc":
		// a reference created at run time by ref.func, stored into the table and called through it
		if g.funcTable < 0 || !g.has(FeatBulk) || g.out.Tables[g.funcTable].Min == 0 || len(g.sigs) <= g.nimp {
			return false
		}
		ti := g.out.Tables[g.funcTable]
		slot := int32(g.intn(int(ti.Min), "rfslot"))
		fn := uint32(g.nimp + g.intn(len(g.sigs)-g.nimp, "rffn"))
		g.i32const(slot)
		g.f.emit("ref.func", wasmenc.NewB().RefFunc(fn).Bytes(), int64(fn))
		g.f.emit("table.set", wasmenc.NewB().TableSet(ti.Index).Bytes(), int64(ti.Index))
		sg := g.sigs[fn]
		for _, p := range sg.P {
			g.expr(p, 2)
		}
		g.i32const(slot)
		typ := g.m.AddType(sg.P, sg.R)
		g.stat("reffunc-call")
		g.f.emit("call_indirect", wasmenc.NewB().CallIndirect(typ, ti.Index).Bytes(), int64(typ), int64(ti.Index))
		g.consumeAll(sg.R)
	case "shift":
		// a shift through locals of one type (a = b; b = c; c = new, in either order): inside a
		// loop these become parallel copies between the loop header's parameters
		ty := g.valType(false)
		ls := g.localsOf(ty)
		if len(ls) < 2 {
			return false
		}
		n := 2
		if len(ls) > 2 && g.chance(50, "shift3") {
			n = 3
		}
		start := g.intn(len(ls), "shiftstart")
		chain := make([]uint32, n)
		for i := range chain {
			chain[i] = ls[(start+i)%len(ls)]
		}
		if g.chance(50, "shiftrev") {
			for i, j := 0, len(chain)-1; i < j; i, j = i+1, j-1 {
				chain[i], chain[j] = chain[j], chain[i]
			}
		}
		if g.sinkIdx >= 0 && g.chance(70, "shiftread") {
			// read them first (newest first, or oldest first): all of them are live into the block,
			// in that order
			if g.chance(50, "shiftreadorder") {
				for i := n - 1; i >= 0; i-- {
					g.localGet(chain[i])
					g.consume(ty)
				}
			} else {
				for i := 0; i < n; i++ {
					g.localGet(chain[i])
					g.consume(ty)
				}
			}
		}
		for i := 0; i+1 < n; i++ {
			g.localGet(chain[i+1])
			g.localSet(chain[i])
		}
		g.expr(ty, 2)
		g.localSet(chain[n-1])
		g.stat("shift")
	case "localset":
		if len(g.f.locals) == 0 {
			return false
		}
		i := uint32(g.intn(len(g.f.locals), "lset"))
		if g.isScratch(i) {
			return false
		}
		g.expr(g.f.locals[i], d)
		g.localSet(i)
	case "globalset":
		mg := g.mutGlobals()
		if len(mg) == 0 {
			return false
		}
		gl := mg[g.intn(len(mg), "gset")]
		g.expr(gl.Type, d)
		g.globalSet(gl.Index)
	case "store":
		if !g.out.HasMemory {
			return false
		}
		g.store()
	case "vstore":
		if !g.out.HasMemory || !g.has(FeatSIMD) {
			return false
		}
		g.tableStore(0xfd)
	case "atomic":
		if !g.out.HasMemory || !g.has(FeatThreads) {
			return false
		}
		if g.chance(80, "atomicstore") {
			g.tableStore(0xfe)
		} else {
			g.op1("atomic.fence", 0xfe, 0x03, 0x00)
		}
	case "call":
		fn := g.anyFn(len(g.sigs), "callfn")
		if g.cfg.CallRich && len(g.sigs) > g.nimp && g.chance(70, "callwasm") {
			fn = uint32(g.nimp + g.intn(len(g.sigs)-g.nimp, "callwasmfn"))
		}
		g.call(fn)
		g.consumeAll(g.sigs[fn].R)
	case "callind":
		if g.funcTable < 0 {
			return false
		}
		s := g.callIndirect(nil)
		g.consumeAll(s.R)
	case "if":
		g.expr(I32, d)
		g.open("if", 0x04, nil, nil, false)
		t1 := g.stmts(g.cfg.MaxStmts - 1)
		if g.chance(50, "else") {
			g.f.ind--
			g.f.emit("else", []byte{0x05})
			g.f.ind++
			t2 := g.stmts(g.cfg.MaxStmts - 1)
			_ = t2
		}
		_ = t1
		g.close()
	case "block":
		g.blockStmt()
	case "loop":
		g.loopStmt()
	case "drop":
		dt := g.valType(false)
		g.expr(dt, d)
		g.consume(dt)
	case "bulk":
		if !g.out.HasMemory || !g.has(FeatBulk) {
			return false
		}
		g.bulkMem()
	case "table":
		if len(g.out.Tables) == 0 || !g.has(FeatBulk) {
			return false
		}
		g.tableStmt()
	case "grow":
		if !g.out.HasMemory || !g.chance(30, "dogrow") {
			return false
		}
		by := g.intn(3, "growby")
		g.i32const(int32(by))
		g.op1("memory.grow", 0x40, 0x00)
		if by > 0 && g.chance(60, "growtouch") {
			// write into (and read back from) the first page just obtained, if the growth succeeded:
			// the contents of grown pages are part of the observable state
			old := g.privateLocal(I32)
			g.localTee(old)
			g.i32const(-1)
			g.op1("i32.ne", 0x47)
			g.open("if", 0x04, nil, nil, false)
			g.localGet(old)
			g.i32const(16)
			g.op1("i32.shl", 0x74)
			g.expr(I32, 2)
			g.memIns("i32.store", 0x36, 2, uint32(g.intn(4096, "touchoff"))*4)
			g.localGet(old)
			g.i32const(16)
			g.op1("i32.shl", 0x74)
			g.memIns("i32.load", 0x28, 2, uint32(g.intn(16384, "touchoff2"))*4)
			g.consume(I32)
			g.close()
			g.stat("grow-touch")
		} else {
			g.op1("drop", 0x1a)
		}
		g.stat("memory.grow")
	case "return":
		if !g.chance(20, "doreturn") {
			return false
		}
		for _, r := range g.f.sig.R {
			g.expr(r, 2)
		}
		g.op1("return", 0x0f)
		return true
	case "unreachable":
		if !g.chance(5, "dounreachable") {
			return false
		}
		g.op1("unreachable", 0x00)
		return true
	case "nop":
		g.op1("nop", 0x01)
	case "wasi":
		if g.wasiFdWr < 0 || g.memSize < 4096 {
			return false
		}
		// iovec at 16: {ptr=64,len}; fd_write(1|2, 16, 1, 32)
		g.i32const(16)
		g.i32const(64)
		g.memIns("i32.store", 0x36, 2, 0)
		g.i32const(20)
		g.i32const(int32(g.intn(24, "wlen")))
		g.memIns("i32.store", 0x36, 2, 0)
		g.i32const(int32(1 + g.intn(2, "wfd")))
		g.i32const(16)
		g.i32const(1)
		g.i32const(32)
		g.call2(uint32(g.wasiFdWr))
		g.op1("drop", 0x1a)
	}
	return false
}

func (g *gen) call2(fn uint32) {
	g.f.emit("call", wasmenc.NewB().Call(fn).Bytes(), int64(fn))
}

func (g *gen) call(fn uint32) {
	for _, p := range g.sigs[fn].P {
		g.expr(p, 3)
	}
	g.stat("call")
	g.call2(fn)
}

// callIndirect emits a call_indirect; want (optional) restricts the result to one type.
func (g *gen) callIndirect(want []byte) Sig {
	// choose a signature among the functions' signatures
	var cands []Sig
	for _, s := range g.sigs {
		if want == nil || string(s.R) == string(want) {
			cands = append(cands, s)
		}
	}
	if len(cands) == 0 {
		cands = []Sig{{R: want}}
	}
	s := cands[g.intn(len(cands), "cisig")]
	for _, p := range s.P {
		g.expr(p, 3)
	}
	ti := g.out.Tables[g.funcTable]
	if ti.Min > 0 && g.chance(85, "ciinrange") {
		g.i32const(int32(g.intn(int(ti.Min), "cislot")))
	} else {
		g.expr(I32, 2)
	}
	typ := g.m.AddType(s.P, s.R)
	g.stat("call_indirect")
	g.f.emit("call_indirect", wasmenc.NewB().CallIndirect(typ, uint32(g.funcTable)).Bytes(), int64(typ), int64(g.funcTable))
	return s
}

func (g *gen) blockStmt() {
	d := g.cfg.MaxDepth
	var p, r []byte
	if g.has(FeatMultiValue) && g.chance(20, "blockparams") {
		np := g.rng(1, 3, "bnp")
		for i := 0; i < np; i++ {
			p = append(p, g.valType(false))
		}
	}
	if g.chance(30, "blockres") {
		r = append(r, g.valType(false))
		if g.has(FeatMultiValue) && g.chance(30, "blockres2") {
			r = append(r, g.valType(false))
		}
	}
	for _, t := range p {
		g.expr(t, d-1)
	}
	// the same shape as a typed if/else: both arms receive the parameters and yield the results
	asIf := g.chance(30, "blockasif")
	if asIf {
		g.expr(I32, d-1)
		g.open("if", 0x04, p, r, false)
		g.stat("typed-if")
	} else {
		g.open("block", 0x02, p, r, false)
	}
	arm := func(n int) {
		for i := len(p) - 1; i >= 0; i-- { // consume params
			if g.chance(50, "keepparam") {
				g.localSet(g.scratch(p[i]))
			} else {
				g.op1("drop", 0x1a)
			}
		}
		term := g.stmts(n)
		if !term && g.chance(60, "branch") {
			term = g.branch()
		}
		if !term {
			term = g.stmts(2)
		}
		if !term {
			for _, t := range r {
				g.expr(t, d-1)
			}
		}
	}
	arm(g.cfg.MaxStmts - 1)
	if asIf {
		g.f.ind--
		g.f.emit("else", []byte{0x05})
		g.f.ind++
		arm(2)
	}
	g.close()
	g.consumeAll(r)
}

// branch emits a br / br_if / br_table to some enclosing label. Returns true if control
// cannot continue after it.
func (g *gen) branch() bool {
	// loops' labels are avoided for unconditional branches unless guarded (fuel bounds it anyway)
	n := len(g.f.labels)
	li := g.intn(n, "label") // index into labels (0 = function)
	depth := uint32(n - 1 - li)
	lt := g.f.labels[li].types
	switch g.intn(3, "brkind") {
	case 0: // br_if
		for _, t := range lt {
			g.expr(t, 2)
		}
		g.expr(I32, 3)
		g.stat("br_if")
		g.f.emit("br_if", wasmenc.NewB().BrIf(depth).Bytes(), int64(depth))
		for range lt {
			g.op1("drop", 0x1a)
		}
		return false
	case 1: // br
		if g.f.labels[li].isLoop {
			// guard backward jumps with a condition so that most programs make progress
			g.expr(I32, 3)
			g.open("if", 0x04, nil, nil, false)
			for _, t := range lt {
				g.expr(t, 2)
			}
			g.f.emit("br", wasmenc.NewB().Br(depth+1).Bytes(), int64(depth+1))
			g.close()
			return false
		}
		for _, t := range lt {
			g.expr(t, 2)
		}
		g.stat("br")
		g.f.emit("br", wasmenc.NewB().Br(depth).Bytes(), int64(depth))
		return true
	default: // br_table among labels with identical types, forward labels only
		var same []uint32
		for j, l := range g.f.labels {
			if string(l.types) == string(lt) && !l.isLoop {
				same = append(same, uint32(n-1-j))
			}
		}
		if len(same) == 0 {
			return false
		}
		for _, t := range lt {
			g.expr(t, 2)
		}
		g.expr(I32, 3)
		k := g.rng(0, 8, "ntargets")
		if g.chance(3, "bigtable") {
			k = g.rng(30, 64, "ntargets2")
		}
		ts := make([]uint32, k)
		for i := range ts {
			ts[i] = same[g.intn(len(same), "target")]
		}
		def := same[g.intn(len(same), "deftarget")]
		g.stat("br_table")
		g.f.emit("br_table", wasmenc.NewB().BrTable(ts, def).Bytes(), int64(k), int64(def))
		return true
	}
}

func (g *gen) loopStmt() {
	d := g.cfg.MaxDepth
	cnt := g.newLocal(I32)
	iters := g.rng(0, 6, "iters")
	if g.chance(5, "manyiters") {
		iters = g.rng(20, 200, "iters2")
	}
	g.i32const(int32(iters))
	g.localSet(cnt)
	var p []byte
	var pl []uint32
	if g.has(FeatMultiValue) && g.chance(25, "loopparams") {
		// loop parameters of any value type (v128 takes two interpreter stack slots, references
		// are opaque): the values travel on the operand stack across every back-edge
		np := g.rng(1, 3, "lnp")
		for i := 0; i < np; i++ {
			t := g.valType(false)
			p = append(p, t)
			pl = append(pl, g.privateLocal(t))
			g.expr(t, d-1)
		}
		g.stat("loop-params")
	}
	g.open("loop", 0x03, p, p, true)
	g.burnFuel()
	for i := len(p) - 1; i >= 0; i-- {
		g.localSet(pl[i])
	}
	term := g.stmts(g.cfg.MaxStmts - 1)
	if !term {
		// counter-- ; continue while counter > 0
		g.localGet(cnt)
		g.i32const(1)
		g.op1("i32.sub", 0x6b)
		g.localTee(cnt)
		g.i32const(0)
		g.op1("i32.gt_s", 0x4a)
		if len(p) > 0 && g.chance(50, "loopbrif") {
			// br_if back-edge carrying the parameters: [p..., cond] -> [p...]
			ct := g.privateLocal(I32)
			g.localSet(ct)
			for i := range p {
				g.localGet(pl[i])
			}
			g.localGet(ct)
			g.f.emit("br_if", wasmenc.NewB().BrIf(0).Bytes(), 0)
		} else {
			g.open("if", 0x04, nil, nil, false)
			for i := range p {
				g.localGet(pl[i])
			}
			g.f.emit("br", wasmenc.NewB().Br(1).Bytes(), 1)
			g.close()
			for i := range p {
				g.localGet(pl[i])
			}
		}
	}
	g.close()
	g.consumeAll(p)
	g.stat("loop")
}

// ---------------- memory ----------------

type memOp struct {
	name  string
	op    byte
	ty    byte
	width int
}

var loads = []memOp{{"i32.load", 0x28, I32, 4}, {"i64.load", 0x29, I64, 8}, {"f32.load", 0x2a, F32, 4}, {"f64.load", 0x2b, F64, 8},
	{"i32.load8_s", 0x2c, I32, 1}, {"i32.load8_u", 0x2d, I32, 1}, {"i32.load16_s", 0x2e, I32, 2}, {"i32.load16_u", 0x2f, I32, 2},
	{"i64.load8_s", 0x30, I64, 1}, {"i64.load8_u", 0x31, I64, 1}, {"i64.load16_s", 0x32, I64, 2}, {"i64.load16_u", 0x33, I64, 2},
	{"i64.load32_s", 0x34, I64, 4}, {"i64.load32_u", 0x35, I64, 4}}
var stores = []memOp{{"i32.store", 0x36, I32, 4}, {"i64.store", 0x37, I64, 8}, {"f32.store", 0x38, F32, 4}, {"f64.store", 0x39, F64, 8},
	{"i32.store8", 0x3a, I32, 1}, {"i32.store16", 0x3b, I32, 2}, {"i64.store8", 0x3c, I64, 1}, {"i64.store16", 0x3d, I64, 2}, {"i64.store32", 0x3e, I64, 4}}

var bigOffsets = []uint32{0xffff, 0x10000, 0x7fffffff, 0x80000000, 0xfffffff0, 0xffffffff, 0x7ffffff8}

// addr emits an i32 address expression for an access of the given width and returns the
// static offset to use. aligned forces natural alignment of the effective address (atomics).
func (g *gen) addr(width int, aligned bool) uint32 {
	off := uint32(0)
	switch k := g.intn(10, "offkind"); {
	case k < 6:
	case k < 9:
		off = uint32(g.rng(1, 64, "smalloff"))
	default:
		off = bigOffsets[g.intn(len(bigOffsets), "bigoff")]
	}
	if aligned {
		off &^= uint32(width - 1)
	}
	size := g.memSize
	room := int64(size) - int64(width) - int64(off)
	k := g.intn(100, "addrkind")
	switch {
	case room >= 0 && k < 62:
		a := uint32(rapid.Uint64Range(0, uint64(room)).Draw(g.t, "addr"))
		if a > 4096 && g.chance(80, "lowaddr") {
			a %= 4096
		}
		if room >= 128 && g.chance(45, "hotaddr") {
			// a few hot addresses so that different accesses alias each other often
			a = uint32(g.intn(8, "hotslot"))*8 + uint32(g.intn(3, "hotmis"))
		}
		if aligned {
			a &^= uint32(width - 1)
		}
		g.i32const(int32(a))
	case room >= 0 && k < 82:
		// masked dynamic address: stays inside the first 2^k bytes
		mask := uint32(1)
		for uint64(mask)*2 <= uint64(room)+1 && mask < 1<<16 {
			mask *= 2
		}
		mask--
		if aligned {
			mask &^= uint32(width - 1)
		}
		g.expr(I32, 3)
		g.i32const(int32(mask))
		g.op1("i32.and", 0x71)
	case k < 92:
		// boundary of the current (initial) size
		c := []int64{int64(size) - int64(width) - int64(off), int64(size) - int64(width) - int64(off) + 1, int64(size) - 1, int64(size), int64(size) + 1, 0x7fffffff, 0x80000000, 0xffffffff - int64(width) + 1, 0xffffffff}
		a := uint32(c[g.intn(len(c), "bound")])
		if aligned && g.chance(70, "alignbound") {
			a &^= uint32(width - 1)
		}
		g.i32const(int32(a))
		g.stat("addr-boundary")
	default:
		g.expr(I32, 3)
	}
	return off
}

func log2(w int) uint32 {
	n := uint32(0)
	for w > 1 {
		w >>= 1
		n++
	}
	return n
}

func (g *gen) memIns(name string, op byte, align, off uint32) {
	g.f.emit(name, wasmenc.NewB().Mem(op, align, off).Bytes(), int64(align), int64(off))
}

func (g *gen) load(ty byte) bool {
	var c []memOp
	for _, l := range loads {
		if l.ty == ty {
			c = append(c, l)
		}
	}
	if len(c) == 0 {
		return false
	}
	l := c[g.intn(len(c), "load")]
	off := g.addr(l.width, false)
	align := uint32(g.intn(int(log2(l.width))+1, "align"))
	g.stat("load")
	g.memIns(l.name, l.op, align, off)
	return true
}

func (g *gen) store() {
	s := stores[g.intn(len(stores), "store")]
	off := g.addr(s.width, false)
	g.expr(s.ty, g.cfg.MaxDepth-1)
	align := uint32(g.intn(int(log2(s.width))+1, "align"))
	g.stat("store")
	g.memIns(s.name, s.op, align, off)
}

// tableStore emits a store-like table op (no result) with the given prefix.
func (g *gen) tableStore(prefix byte) {
	var c []*Op
	for _, op := range g.vops {
		if op.Prefix == prefix {
			c = append(c, op)
		}
	}
	if len(c) == 0 {
		return
	}
	g.tableOp(c[g.intn(len(c), "vop")])
}

func (g *gen) bulkMem() {
	small := func() {
		if g.chance(85, "smallbulk") {
			g.i32const(int32(g.intn(64, "bulkn")))
		} else {
			g.expr(I32, 2)
		}
	}
	addr := func() {
		if g.memSize > 128 && g.chance(85, "bulkin") {
			g.i32const(int32(rapid.Uint64Range(0, min64(g.memSize-128, 8192)).Draw(g.t, "bulkaddr")))
		} else {
			g.expr(I32, 2)
		}
	}
	bk := g.intn(4, "bulk")
	if g.cfg.SegmentRich && len(g.passiveD) > 0 && g.chance(70, "segbulk") {
		bk = 2
		if g.chance(25, "segbulkdrop") {
			bk = 3
		}
	}
	switch bk {
	case 0:
		addr()
		g.expr(I32, 2)
		small()
		g.stat("memory.fill")
		g.f.emit("memory.fill", wasmenc.NewB().MemoryFill().Bytes())
	case 1:
		addr()
		addr()
		small()
		g.stat("memory.copy")
		g.f.emit("memory.copy", wasmenc.NewB().MemoryCopy().Bytes())
	case 2:
		if len(g.passiveD) == 0 {
			return
		}
		si := g.intn(len(g.passiveD), "seg")
		seg := uint32(g.passiveD[si])
		addr()
		if l := g.passiveDLen[si]; l > 0 && g.chance(80, "initinrange") {
			// inside the segment: succeeds unless the segment was dropped
			src := g.intn(l, "srcoff")
			g.i32const(int32(src))
			g.i32const(int32(1 + g.intn(l-src, "initn")))
		} else {
			g.i32const(int32(g.intn(8, "srcoff")))
			g.i32const(int32(g.intn(20, "initn")))
		}
		g.stat("memory.init")
		g.f.emit("memory.init", wasmenc.NewB().MemoryInit(seg).Bytes(), int64(seg))
	default:
		if len(g.passiveD) == 0 || !(g.chance(40, "dodrop") || g.cfg.SegmentRich) {
			return
		}
		seg := uint32(g.passiveD[g.intn(len(g.passiveD), "seg")])
		g.stat("data.drop")
		g.f.emit("data.drop", wasmenc.NewB().DataDrop(seg).Bytes(), int64(seg))
	}
}

func min64(a, b uint64) uint64 {
	if a < b {
		return a
	}
	return b
}

func (g *gen) tableIdx(ti TableInfo) {
	if ti.Min > 0 && g.chance(85, "tinrange") {
		g.i32const(int32(g.intn(int(ti.Min), "tslot")))
	} else {
		g.expr(I32, 2)
	}
}

func (g *gen) tableStmt() {
	ti := g.out.Tables[g.intn(len(g.out.Tables), "table")]
	tk := g.intn(6, "tablestmt")
	if g.cfg.SegmentRich && len(g.passiveE[ti.Elem]) > 0 && g.chance(60, "segtable") {
		tk = 4
		if g.chance(25, "segtabledrop") {
			tk = 5
		}
	}
	switch tk {
	case 0:
		g.tableIdx(ti)
		g.expr(ti.Elem, 2)
		g.stat("table.set")
		g.f.emit("table.set", wasmenc.NewB().TableSet(ti.Index).Bytes(), int64(ti.Index))
	case 1:
		g.expr(ti.Elem, 2)
		g.i32const(int32(g.intn(3, "tgrow")))
		g.stat("table.grow")
		g.f.emit("table.grow", wasmenc.NewB().TableGrow(ti.Index).Bytes(), int64(ti.Index))
		g.op1("drop", 0x1a)
	case 2:
		g.tableIdx(ti)
		g.expr(ti.Elem, 2)
		g.i32const(int32(g.intn(4, "tfilln")))
		g.stat("table.fill")
		g.f.emit("table.fill", wasmenc.NewB().TableFill(ti.Index).Bytes(), int64(ti.Index))
	case 3:
		var same []TableInfo
		for _, o := range g.out.Tables {
			if o.Elem == ti.Elem {
				same = append(same, o)
			}
		}
		src := same[g.intn(len(same), "tsrc")]
		g.tableIdx(ti)
		g.tableIdx(src)
		g.i32const(int32(g.intn(4, "tcopyn")))
		g.stat("table.copy")
		g.f.emit("table.copy", wasmenc.NewB().TableCopy(ti.Index, src.Index).Bytes(), int64(ti.Index), int64(src.Index))
	case 4:
		segs := g.passiveE[ti.Elem]
		if len(segs) == 0 {
			return
		}
		seg := uint32(segs[g.intn(len(segs), "eseg")])
		g.tableIdx(ti)
		g.i32const(int32(g.intn(3, "esrc")))
		g.i32const(int32(g.intn(4, "en")))
		g.stat("table.init")
		g.f.emit("table.init", wasmenc.NewB().TableInit(seg, ti.Index).Bytes(), int64(seg), int64(ti.Index))
	default:
		segs := g.passiveE[ti.Elem]
		if len(segs) == 0 || !(g.chance(40, "doelemdrop") || g.cfg.SegmentRich) {
			return
		}
		seg := uint32(segs[g.intn(len(segs), "eseg")])
		g.stat("elem.drop")
		g.f.emit("elem.drop", wasmenc.NewB().ElemDrop(seg).Bytes(), int64(seg))
	}
}

// ---------------- expressions ----------------

func (g *gen) leaf(ty byte) {
	ls := g.localsOf(ty)
	var gs []GlobalInfo
	for _, gl := range g.out.Globals {
		if gl.Type == ty {
			gs = append(gs, gl)
		}
	}
	k := g.intn(10, "leaf")
	switch {
	case k < 4 && len(ls) > 0:
		g.localGet(ls[g.intn(len(ls), "lget")])
	case k < 6 && len(gs) > 0:
		g.globalGet(gs[g.intn(len(gs), "gget")].Index)
	default:
		switch ty {
		case I32:
			g.i32const(int32(g.drawI32()))
		case I64:
			g.i64const(int64(g.drawI64()))
		case F32:
			v := g.drawF32()
			g.f.emit("f32.const", wasmenc.NewB().F32Const(v).Bytes(), int64(v))
		case F64:
			v := g.drawF64()
			g.f.emit("f64.const", wasmenc.NewB().F64Const(v).Bytes(), int64(v))
		case V128:
			lo, hi := g.drawV128()
			g.f.emit("v128.const", wasmenc.NewB().V128Const(lo, hi).Bytes(), int64(lo), int64(hi))
		case FuncRef:
			if g.has(FeatBulk) && len(g.sigs) > 0 && g.chance(60, "reffunc") {
				fn := g.anyFn(len(g.sigs), "reffn")
				g.f.emit("ref.func", wasmenc.NewB().RefFunc(fn).Bytes(), int64(fn))
			} else {
				g.op1("ref.null func", 0xd0, FuncRef)
			}
		case ExternRef:
			g.op1("ref.null extern", 0xd0, ExternRef)
		}
	}
}

func (g *gen) expr(ty byte, depth int) {
	if depth <= 0 || g.f.budget <= 0 {
		g.leaf(ty)
		return
	}
	if ty == FuncRef || ty == ExternRef {
		g.refExpr(ty, depth)
		return
	}
	if g.cfg.CallRich && g.chance(12, "callrichexpr") && g.callExpr(ty) {
		return
	}
	if (ty == I32 || ty == I64) && g.chance(10, "idiom") {
		if g.out.HasMemory && g.memSize >= 256 && g.chance(30, "aliasidiom") {
			g.aliasIdiom(ty, depth)
		} else {
			g.idiom(ty, depth)
		}
		return
	}
	k := g.intn(100, "expr")
	switch {
	case k < 22:
		g.leaf(ty)
	case k < 70:
		g.numeric(ty, depth)
	case k < 78:
		if !g.out.HasMemory || !g.memExpr(ty) {
			g.numeric(ty, depth)
		}
	case k < 84:
		if !g.callExpr(ty) {
			g.numeric(ty, depth)
		}
	case k < 89:
		// if-expression
		g.expr(I32, depth-1)
		g.open("if", 0x04, nil, []byte{ty}, false)
		g.expr(ty, depth-1)
		g.f.ind--
		g.f.emit("else", []byte{0x05})
		g.f.ind++
		g.expr(ty, depth-1)
		g.close()
	case k < 92:
		g.expr(ty, depth-1)
		g.expr(ty, depth-1)
		g.expr(I32, depth-1)
		g.op1("select", 0x1b)
	case k < 95:
		ls := g.localsOf(ty)
		if len(ls) == 0 {
			g.numeric(ty, depth)
			return
		}
		g.expr(ty, depth-1)
		g.localTee(ls[g.intn(len(ls), "tee")])
	case k < 98:
		// block expression with an early exit
		g.open("block", 0x02, nil, []byte{ty}, false)
		term := g.stmts(2)
		if !term {
			g.expr(ty, depth-1)
			g.expr(I32, depth-1)
			g.f.emit("br_if", wasmenc.NewB().BrIf(0).Bytes(), 0)
			g.op1("drop", 0x1a)
			g.expr(ty, depth-1)
		}
		g.close()
	default:
		if ty == I32 {
			g.i32Special()
		} else {
			g.numeric(ty, depth)
		}
	}
}

func (g *gen) i32Special() {
	switch k := g.intn(4, "i32special"); {
	case k == 0 && g.out.HasMemory:
		g.op1("memory.size", 0x3f, 0x00)
	case k == 1 && g.out.HasMemory && g.chance(40, "growexpr"):
		g.i32const(int32(g.intn(2, "growby")))
		g.op1("memory.grow", 0x40, 0x00)
		g.stat("memory.grow")
	case k == 2 && len(g.out.Tables) > 0 && g.has(FeatBulk):
		ti := g.out.Tables[g.intn(len(g.out.Tables), "tsize")]
		g.f.emit("table.size", wasmenc.NewB().TableSize(ti.Index).Bytes(), int64(ti.Index))
	case k == 3 && g.has(FeatBulk):
		g.expr([]byte{FuncRef, ExternRef}[g.intn(2, "isnullty")], 2)
		g.op1("ref.is_null", 0xd1)
	case g.has(FeatThreads) && g.out.HasMemory:
		// notify / wait with a zero timeout never block
		if g.chance(50, "notify") {
			g.addrAligned(4)
			g.i32const(int32(g.intn(3, "ncount")))
			g.f.emit("memory.atomic.notify", []byte{0xfe, 0x00, 0x02, 0x00})
		} else {
			g.addrAligned(4)
			g.expr(I32, 2)
			g.i64const(0)
			g.f.emit("memory.atomic.wait32", []byte{0xfe, 0x01, 0x02, 0x00})
		}
		g.stat("atomic.waitnotify")
	default:
		g.leaf(I32)
	}
}

func (g *gen) addrAligned(width int) {
	if g.memSize >= 64 && g.chance(90, "aaligned") {
		g.i32const(int32(g.intn(16, "aslot") * width))
	} else {
		g.expr(I32, 2)
	}
}

func (g *gen) refExpr(ty byte, depth int) {
	k := g.intn(10, "refexpr")
	switch {
	case k < 5:
		g.leaf(ty)
	case k < 8 && g.has(FeatBulk):
		for _, ti := range g.out.Tables {
			if ti.Elem == ty {
				g.tableIdx(ti)
				g.stat("table.get")
				g.f.emit("table.get", wasmenc.NewB().TableGet(ti.Index).Bytes(), int64(ti.Index))
				return
			}
		}
		g.leaf(ty)
	default:
		// typed select
		g.leaf(ty)
		g.leaf(ty)
		g.expr(I32, depth-1)
		g.f.emit("select (result ref)", []byte{0x1c, 0x01, ty})
	}
}

func (g *gen) callExpr(ty byte) bool {
	var c []uint32
	for i, s := range g.sigs {
		if len(s.R) >= 1 && s.R[0] == ty {
			c = append(c, uint32(i))
		}
	}
	if len(c) == 0 {
		return false
	}
	if g.funcTable >= 0 && g.chance(25, "indirectexpr") {
		s := g.callIndirect([]byte{ty})
		_ = s
		return true
	}
	fn := c[g.intn(len(c), "callexprfn")]
	g.call(fn)
	for i := len(g.sigs[fn].R) - 1; i >= 1; i-- {
		g.op1("drop", 0x1a)
	}
	return true
}

func (g *gen) memExpr(ty byte) bool {
	if ty == V128 {
		var c []*Op
		for _, op := range g.ops[V128] {
			if op.Imm == ImmMem {
				c = append(c, op)
			}
		}
		if len(c) == 0 {
			return false
		}
		g.tableOp(c[g.intn(len(c), "vload")])
		return true
	}
	if g.has(FeatThreads) && (ty == I32 || ty == I64) && g.chance(25, "atomicexpr") {
		var c []*Op
		for _, op := range g.ops[ty] {
			if op.Imm == ImmAtomic {
				c = append(c, op)
			}
		}
		if len(c) > 0 {
			g.tableOp(c[g.intn(len(c), "aop")])
			return true
		}
	}
	return g.load(ty)
}

// numeric emits a table-driven instruction producing ty.
func (g *gen) numeric(ty byte, depth int) {
	c := g.ops[ty]
	var nc []*Op
	for _, op := range c {
		if op.Imm == ImmNone || op.Imm == ImmLane || op.Imm == ImmShuffle {
			nc = append(nc, op)
		}
	}
	if len(nc) == 0 {
		g.leaf(ty)
		return
	}
	if f := g.fav[ty]; len(f) > 0 && g.chance(35, "usefav") {
		g.tableOpDepth(f[g.intn(len(f), "favop")], depth-1)
		return
	}
	op := nc[g.intn(len(nc), "op")]
	g.tableOpDepth(op, depth-1)
}

func (g *gen) tableOp(op *Op) { g.tableOpDepth(op, 3) }

func (g *gen) tableOpDepth(op *Op, depth int) {
	g.stat(opClass(op))
	var off uint32
	zeroSide := -1
	if op.Prefix == 0 && len(op.Params) == 2 && len(op.Results) == 1 && op.Results[0] == I32 && (op.Params[0] == I32 || op.Params[0] == I64) && op.Params[0] == op.Params[1] && g.chance(15, "cmpzero") {
		zeroSide = g.intn(2, "zeroside")
	}
	// "operands survive": every operand is also kept in a private local (local.tee, so the
	// instruction reads the very value the local holds) and is folded into the sink AFTER the
	// instruction: an instruction selection that overwrites an operand's register is visible.
	survive := g.sinkIdx >= 0 && len(op.Results) == 1 && len(op.Params) > 0 && g.chance(12, "survive")
	var kept []uint32
	var keptT []byte
	keep := func(p byte) {
		if survive {
			l := g.privateLocal(p)
			g.localTee(l)
			kept, keptT = append(kept, l), append(keptT, p)
		}
	}
	for i, p := range op.Params {
		if i == 0 && (op.Imm == ImmMem || op.Imm == ImmMemLane || op.Imm == ImmAtomic) {
			if op.Imm == ImmAtomic {
				off = g.addr(op.Width, g.chance(90, "atomicaligned"))
			} else {
				off = g.addr(op.Width, false)
			}
			continue
		}
		if op.Trap && i == len(op.Params)-1 && g.chance(85, "safeop") {
			g.safeOperand(op, p, depth)
			keep(p)
			continue
		}
		if zeroSide == i {
			// comparisons against zero (on either side) are where back ends special-case
			if p == I32 {
				g.i32const(0)
			} else {
				g.i64const(0)
			}
			continue
		}
		g.expr(p, depth)
		keep(p)
	}
	if len(kept) > 0 {
		g.stat("operands-survive")
		defer func() {
			r := g.privateLocal(op.Results[0])
			g.localSet(r)
			for i, l := range kept {
				g.localGet(l)
				g.consume(keptT[i])
			}
			g.localGet(r)
		}()
	}
	b := wasmenc.NewB()
	if op.Prefix == 0 {
		b.Raw(byte(op.Sub))
	} else {
		b.Raw(op.Prefix).Append(wasmenc.U32(op.Sub))
	}
	switch op.Imm {
	case ImmMem:
		b.Append(wasmenc.U32(uint32(g.intn(int(log2(op.Width))+1, "valign")))).Append(wasmenc.U32(off))
	case ImmAtomic:
		b.Append(wasmenc.U32(log2(op.Width))).Append(wasmenc.U32(off))
	case ImmMemLane:
		b.Append(wasmenc.U32(uint32(g.intn(int(log2(op.Width))+1, "valign")))).Append(wasmenc.U32(off)).Raw(byte(g.intn(op.Lanes, "lane")))
	case ImmLane:
		b.Raw(byte(g.intn(op.Lanes, "lane")))
	case ImmShuffle:
		for i := 0; i < 16; i++ {
			b.Raw(byte(g.intn(32, "shuf")))
		}
	}
	g.f.emit(op.Name, b.Bytes(), int64(off))
	if op.NaN && g.cfg.CanonNaN && len(op.Results) == 1 {
		g.canon(op)
	}
}

func opClass(op *Op) string {
	switch op.Prefix {
	case 0xfd:
		if op.Imm == ImmMem || op.Imm == ImmMemLane {
			return "simd-mem"
		}
		return "simd"
	case 0xfe:
		return "atomic"
	}
	if op.Trap {
		return "scalar-trapping"
	}
	return "scalar"
}

// safeOperand emits an operand that does not make the instruction trap (non-zero divisor,
// in-range float for truncation) most of the time.
func (g *gen) safeOperand(op *Op, ty byte, depth int) {
	switch ty {
	case I32:
		g.expr(I32, depth)
		g.i32const(1)
		g.op1("i32.or", 0x72)
	case I64:
		g.expr(I64, depth)
		g.i64const(1)
		g.op1("i64.or", 0x84)
	case F32:
		g.expr(I32, depth)
		g.i32const(16)
		g.op1("i32.shr_s", 0x75)
		g.op1("f32.convert_i32_s", 0xb2)
	case F64:
		g.expr(I32, depth)
		g.op1("f64.convert_i32_s", 0xb7)
	default:
		g.expr(ty, depth)
	}
}

// canon replaces a NaN result by the canonical NaN so that results are comparable bit for bit.
func (g *gen) canon(op *Op) {
	switch op.Results[0] {
	case F32:
		t := g.scratch(F32)
		g.localSet(t)
		g.f.emit("f32.const", wasmenc.NewB().F32Const(0x7fc00000).Bytes(), 0x7fc00000)
		g.localGet(t)
		g.localGet(t)
		g.localGet(t)
		g.op1("f32.ne", 0x5c)
		g.op1("select", 0x1b)
	case F64:
		t := g.scratch(F64)
		g.localSet(t)
		g.f.emit("f64.const", wasmenc.NewB().F64Const(0x7ff8000000000000).Bytes(), 0x7ff8000000000000)
		g.localGet(t)
		g.localGet(t)
		g.localGet(t)
		g.op1("f64.ne", 0x62)
		g.op1("select", 0x1b)
	case V128:
		t := g.scratch(V128)
		g.localSet(t)
		if strings.HasPrefix(op.Name, "v.f32x4") {
			g.f.emit("v128.const", wasmenc.NewB().V128Const(0x7fc000007fc00000, 0x7fc000007fc00000).Bytes())
			g.localGet(t)
			g.localGet(t)
			g.localGet(t)
			g.op1("f32x4.ne", 0xfd, 0x42)
		} else {
			g.f.emit("v128.const", wasmenc.NewB().V128Const(0x7ff8000000000000, 0x7ff8000000000000).Bytes())
			g.localGet(t)
			g.localGet(t)
			g.localGet(t)
			g.op1("f64x2.ne", 0xfd, 0x48)
		}
		g.op1("v128.bitselect", 0xfd, 0x52)
	}
}

// helpers appends read-only observer functions (never called by generated code, no fuel):
// ghi<i> (hi half of a v128 global), gnull<i> (nullness of a funcref global), tsize<t>,
// tnull<t>(slot). They let the harness observe state the host API does not expose.
func (g *gen) helpers(next uint32) {
	add := func(name string, p, r []byte, body []byte) {
		g.m.Funcs = append(g.m.Funcs, wasmenc.Func{Type: g.m.AddType(p, r), Body: body})
		g.m.ExportFunc(name, next)
		next++
	}
	for _, gl := range g.out.Globals {
		switch gl.Type {
		case V128:
			add(fmt.Sprintf("ghi%d", gl.Index), nil, []byte{I64}, wasmenc.NewB().GlobalGet(gl.Index).FD(0x1d, 1).Bytes())
			add(fmt.Sprintf("glo%d", gl.Index), nil, []byte{I64}, wasmenc.NewB().GlobalGet(gl.Index).FD(0x1d, 0).Bytes())
		case FuncRef:
			add(fmt.Sprintf("gnull%d", gl.Index), nil, []byte{I32}, wasmenc.NewB().GlobalGet(gl.Index).RefIsNull().Bytes())
		}
	}
	if g.has(FeatBulk) {
		for _, ti := range g.out.Tables {
			add(fmt.Sprintf("tsize%d", ti.Index), nil, []byte{I32}, wasmenc.NewB().TableSize(ti.Index).Bytes())
			add(fmt.Sprintf("tnull%d", ti.Index), []byte{I32}, []byte{I32}, wasmenc.NewB().LocalGet(0).TableGet(ti.Index).RefIsNull().Bytes())
		}
	}
}

// idiom emits one of the operand shapes that optimising back ends treat specially (fused
// compare-with-zero of an AND, scaled-index addressing arithmetic, shifts and rotates by
// constants incl. counts >= width, multiplication/division by constants, extend/wrap pairs,
// compare feeding select/eqz, operations whose operand comes straight from a load).
func (g *gen) idiom(ty byte, depth int) {
	g.stat("idiom")
	t64 := ty == I64
	// opcode helpers for the integer type
	opc := func(i32op, i64op byte) byte {
		if t64 {
			return i64op
		}
		return i32op
	}
	konst := func(v int64) {
		if t64 {
			g.i64const(v)
		} else {
			g.i32const(int32(v))
		}
	}
	cmps := [][2]byte{{0x46, 0x51}, {0x47, 0x52}, {0x48, 0x53}, {0x49, 0x54}, {0x4a, 0x55}, {0x4b, 0x56}, {0x4c, 0x57}, {0x4d, 0x58}, {0x4e, 0x59}, {0x4f, 0x5a}}
	d := depth - 1
	switch g.intn(9, "idiomkind") {
	case 0, 1: // (a & b) <cmp> 0  or  0 <cmp> (a & b), used as a condition
		opT := byte(I32)
		if g.chance(50, "idiom64") {
			opT = I64
		}
		and, zero := byte(0x71), func() { g.i32const(0) }
		ci := 0
		if opT == I64 {
			and, zero, ci = 0x83, func() { g.i64const(0) }, 1
		}
		c := cmps[g.intn(len(cmps), "idiomcmp")][ci]
		zeroFirst := g.chance(50, "zerofirst")
		if zeroFirst {
			zero()
		}
		g.expr(opT, d)
		g.expr(opT, d)
		g.op1("and", and)
		if !zeroFirst {
			zero()
		}
		g.op1("cmp", c)
		// the i32 condition selects between two values of the wanted type (branch or select)
		if g.chance(50, "idiomif") {
			g.open("if", 0x04, nil, []byte{ty}, false)
			g.expr(ty, d)
			g.f.ind--
			g.f.emit("else", []byte{0x05})
			g.f.ind++
			g.expr(ty, d)
			g.close()
		} else {
			t := g.privateLocal(I32)
			g.localSet(t)
			g.expr(ty, d)
			g.expr(ty, d)
			g.localGet(t)
			g.op1("select", 0x1b)
		}
	case 2: // a + (b << k), k <= 3 (+ const)
		g.expr(ty, d)
		g.expr(ty, d)
		konst(int64(g.intn(4, "scale")))
		g.op1("shl", opc(0x74, 0x86))
		g.op1("add", opc(0x6a, 0x7c))
		if g.chance(50, "disp") {
			konst(int64(int32(g.drawI32())))
			g.op1("add", opc(0x6a, 0x7c))
		}
	case 3: // shift / rotate by a constant, counts around and beyond the width
		g.expr(ty, d)
		w := int64(32)
		if t64 {
			w = 64
		}
		konst([]int64{0, 1, 7, w - 1, w, w + 1, 2*w - 1, -1, 255, 256}[g.intn(10, "shcount")])
		ops := [][2]byte{{0x74, 0x86}, {0x75, 0x87}, {0x76, 0x88}, {0x77, 0x89}, {0x78, 0x8a}}
		o := ops[g.intn(len(ops), "shop")]
		g.op1("shift", opc(o[0], o[1]))
	case 4: // multiply / divide / remainder by a constant
		g.expr(ty, d)
		konst([]int64{1, 2, 3, 4, 5, 7, 8, 9, 10, 16, 100, 255, 256, 1 << 16, -1, -2, 1<<31 - 1, -(1 << 31)}[g.intn(18, "mulc")])
		ops := [][2]byte{{0x6c, 0x7e}, {0x6e, 0x80}, {0x70, 0x82}, {0x6c, 0x7e}}
		o := ops[g.intn(len(ops), "mulop")]
		g.op1("mul/div const", opc(o[0], o[1]))
	case 5: // extend / wrap pairs
		if t64 {
			g.expr(I64, d)
			g.op1("i32.wrap_i64", 0xa7)
			g.op1("extend", []byte{0xac, 0xad}[g.intn(2, "ext")])
		} else {
			g.expr(I32, d)
			g.op1("extend", []byte{0xac, 0xad}[g.intn(2, "ext")])
			g.expr(I64, d)
			g.op1("i64.add", 0x7c)
			g.op1("i32.wrap_i64", 0xa7)
		}
	case 6: // comparison feeding eqz / another comparison
		ci := 0
		if t64 {
			ci = 1
		}
		g.expr(ty, d)
		g.expr(ty, d)
		g.op1("cmp", cmps[g.intn(len(cmps), "idiomcmp")][ci])
		if g.chance(60, "eqz") {
			g.op1("i32.eqz", 0x45)
		}
		if t64 {
			g.op1("i64.extend_i32_u", 0xad)
		}
	case 7: // operand straight from a load
		if !g.out.HasMemory || !g.load(ty) {
			g.expr(ty, d)
		}
		g.expr(ty, d)
		ops := [][2]byte{{0x6a, 0x7c}, {0x6b, 0x7d}, {0x71, 0x83}, {0x72, 0x84}, {0x73, 0x85}, {0x6c, 0x7e}}
		o := ops[g.intn(len(ops), "loadop")]
		g.op1("op", opc(o[0], o[1]))
	default: // sub from zero / xor with -1 / and with masks
		g.expr(ty, d)
		switch g.intn(3, "alg") {
		case 0:
			konst(-1)
			g.op1("xor", opc(0x73, 0x85))
		case 1:
			konst([]int64{0xff, 0xffff, 0xffffffff, 0x7fffffff, 1, -2}[g.intn(6, "mask")])
			g.op1("and", opc(0x71, 0x83))
		default:
			t := g.scratch(ty)
			g.localSet(t)
			konst(0)
			g.localGet(t)
			g.op1("sub", opc(0x6b, 0x7d))
		}
	}
}

// deadCode emits a few instructions after an unconditional transfer of control. The operand
// stack is polymorphic there, so operands need not be produced; the sequence ends with
// unreachable so that whatever it pushed cannot clash with the block's result types.
func (g *gen) deadCode() {
	g.stat("deadcode")
	n := g.rng(1, 4, "ndead")
	for i := 0; i < n; i++ {
		if i > 0 {
			// forget the concrete values pushed by the previous dead instruction: every dead
			// instruction then type-checks against a polymorphic stack
			g.op1("unreachable", 0x00)
		}
		switch g.intn(15, "dead") {
		case 0, 1, 12, 13, 14: // br_table with arbitrary (valid) labels and default
			var same []uint32
			nl := len(g.f.labels)
			lt := g.f.labels[g.intn(nl, "deadlabel")].types
			for j, l := range g.f.labels {
				if string(l.types) == string(lt) {
					same = append(same, uint32(nl-1-j))
				}
			}
			k := g.rng(0, 5, "deadtargets")
			ts := make([]uint32, k)
			for i := range ts {
				ts[i] = same[g.intn(len(same), "deadtarget")]
			}
			def := same[g.intn(len(same), "deaddef")]
			g.f.emit("br_table", wasmenc.NewB().BrTable(ts, def).Bytes(), int64(k), int64(def))
		case 2:
			g.op1("i32.add", 0x6a)
		case 3:
			g.op1("drop", 0x1a)
		case 4:
			g.op1("select", 0x1b)
		case 5:
			g.i32const(int32(g.drawI32()))
		case 6:
			if len(g.f.locals) > 0 {
				g.localGet(uint32(g.intn(len(g.f.locals), "deadlocal")))
			}
		case 7:
			d := uint32(g.intn(len(g.f.labels), "deadbr"))
			g.f.emit("br", wasmenc.NewB().Br(d).Bytes(), int64(d))
		case 8:
			g.op1("return", 0x0f)
		case 9:
			g.f.emitExt("block", "", []byte{0x02, 0x40})
			g.op1("nop", 0x01)
			g.f.emit("end", []byte{0x0b})
		case 10:
			if g.out.HasMemory {
				g.memIns("i64.load", 0x29, 0, uint32(g.intn(64, "deadoff")))
			}
		default:
			g.op1("i64.eqz", 0x50)
		}
	}
	g.op1("unreachable", 0x00)
}

// aliasIdiom emits: x = load [A]; a write to (or around) the same address A in between - plain
// store, atomic read-modify-write, memory.fill, or a call that may write; then x is combined
// with another value. An engine that delays or re-orders the load past the write reads the
// wrong value.
func (g *gen) aliasIdiom(ty byte, depth int) {
	g.stat("alias-idiom")
	t64 := ty == I64
	a := int32(g.intn(8, "aliasslot")*8) + 64
	// the address lives in a local so that both accesses use the same value (engines then reuse
	// the bounds knowledge of the first access for the second)
	pl := g.privateLocal(I32)
	if g.chance(50, "aliasdyn") {
		// a dynamic (but in-bounds, 8-byte aligned) address
		g.expr(I32, 2)
		g.i32const(0x38)
		g.op1("i32.and", 0x71)
		g.i32const(64)
		g.op1("i32.add", 0x6a)
	} else {
		g.i32const(a)
	}
	g.localSet(pl)
	g.localGet(pl)
	if t64 {
		g.memIns("i64.load", 0x29, 0, 0)
	} else {
		g.memIns("i32.load", 0x28, 0, 0)
	}
	// the loaded value is parked in a local and used as the *second* operand later (the
	// position from which back ends fold a load into the consuming instruction)
	xl := g.privateLocal(ty)
	g.localSet(xl)
	// the intervening write
	switch k := g.intn(6, "aliaswrite"); {
	case k <= 1:
		st := stores[g.intn(len(stores), "aliasstore")]
		g.localGet(pl)
		g.expr(st.ty, 2)
		g.memIns(st.name, st.op, 0, uint32(g.intn(4, "aliasdelta")))
	case k <= 3 && g.has(FeatThreads):
		// an atomic read-modify-write of the same type whose old value is the other operand
		var c []*Op
		for _, op := range g.ops[ty] {
			if op.Imm == ImmAtomic && len(op.Params) >= 2 {
				c = append(c, op)
			}
		}
		op := c[g.intn(len(c), "aliasrmw")]
		g.localGet(pl) // the slot addresses are 8-byte aligned
		for _, p := range op.Params[1:] {
			g.leaf(p)
		}
		g.f.emit(op.Name, wasmenc.NewB().Raw(op.Prefix).Append(wasmenc.U32(op.Sub)).Append(wasmenc.U32(log2(op.Width))).Append(wasmenc.U32(0)).Bytes())
		g.localGet(xl)
		if t64 {
			g.op1("i64.add", 0x7c)
		} else {
			g.op1("i32.add", 0x6a)
		}
		return
	case k == 4 && g.has(FeatBulk):
		g.localGet(pl)
		g.i32const(int32(g.intn(256, "aliasfillv")))
		g.i32const(int32(g.rng(1, 8, "aliasfilln")))
		g.f.emit("memory.fill", wasmenc.NewB().MemoryFill().Bytes())
	default:
		fn := g.anyFn(len(g.sigs), "aliascall")
		g.call(fn)
		g.consumeAll(g.sigs[fn].R)
	}
	// use of the loaded value
	g.expr(ty, depth-1)
	g.localGet(xl)
	if t64 {
		g.op1("i64.add", 0x7c)
	} else {
		g.op1("i32.xor", 0x73)
	}
}
