package wasmgen

import (
	"os"
	"strings"

	"verif/internal/wasmenc"
)

// LoadDebugSections returns the .debug_* custom sections of a wasm binary (nil if the file
// cannot be read or parsed).
func LoadDebugSections(path string) []wasmenc.Custom {
	b, err := os.ReadFile(path)
	if err != nil || len(b) < 8 {
		return nil
	}
	var out []wasmenc.Custom
	i := 8
	leb := func() (uint64, bool) {
		var v uint64
		var sh uint
		for i < len(b) && sh < 64 {
			c := b[i]
			i++
			v |= uint64(c&0x7f) << sh
			sh += 7
			if c&0x80 == 0 {
				return v, true
			}
		}
		return 0, false
	}
	for i < len(b) {
		id := b[i]
		i++
		size, ok := leb()
		if !ok || uint64(i)+size > uint64(len(b)) {
			return out
		}
		payload := b[i : i+int(size)]
		i += int(size)
		if id != 0 || len(payload) == 0 {
			continue
		}
		n := int(payload[0]) // section names here are shorter than 128 bytes
		if n >= 0x80 || 1+n > len(payload) {
			continue
		}
		name := string(payload[1 : 1+n])
		if strings.HasPrefix(name, ".debug_") {
			out = append(out, wasmenc.Custom{Name: name, Data: append([]byte{}, payload[1+n:]...)})
		}
	}
	return out
}

// RepoDebugSections loads the DWARF of the small toolchain-built test binaries of the
// repository under test.
func RepoDebugSections() [][]wasmenc.Custom {
	var sets [][]wasmenc.Custom
	for _, p := range []string{"/repo/internal/testing/dwarftestdata/testdata/zig/main.wasm", "/repo/internal/testing/dwarftestdata/testdata/zig-cc/main.wasm"} {
		if s := LoadDebugSections(p); len(s) > 0 {
			sets = append(sets, s)
		}
	}
	return sets
}
