package wasmgen

import (
	"os"
	"strings"

	"verif/internal/wasmenc"
)

// LoadDebugSections returns the .debug_* custom sections of a wasm binary (nil if the file
// cannot be read or parsed).
func LoadDebugSections(path string) []wasmenc.Custom {
	b, err := os.ReadFile(path)
	if err != nil || len(b) < 8 {
		return nil
	}
	var out []wasmenc.Custom
	i := 8
	leb := func() (uint64, bool) {
		var v uint64
		var sh uint
		for i < len(b) && sh < 64 {
			c := b[i]
			i++
			v |= uint64(c&0x7f) << sh
			sh += 7
			if c&0x80 == 0 {
				return v, true
			}
		}
		return 0, false
	}
	for i < len(b) {
		id := b[i]
		i++
		size, ok := leb()
		if !ok || uint64(i)+size > uint64(len(b)) {
			return out
		}
		payload := b[i : i+int(size)]
		i += int(size)
		if id != 0 || len(payload) == 0 {
			continue
		}
		n := int(payload[0]) // section names here are shorter than 128 bytes
		if n >= 0x80 || 1+n > len(payload) {
			continue
		}
		name := string(payload[1 : 1+n])
		if strings.HasPrefix(name, ".debug_") {
			out = append(out, wasmenc.Custom{Name: name, Data: append([]byte{}, payload[1+n:]...)})
		}
	}
	return out
}

// RepoDebugSections loads the DWARF of the small toolchain-built test binaries of the
// repository under test.
func RepoDebugSections() [][]wasmenc.Custom {
	var sets [][]wasmenc.Custom
	for _, p := range []string{"/repo/internal/testing/dwarftestdata/testdata/zig/main.wasm", "/repo/internal/testing/dwarftestdata/testdata/zig-cc/main.wasm"} {
		if s := LoadDebugSections(p); len(s) > 0 {
			sets = append(sets, s)
		}
	}
	return sets
}

// synthDWARF builds a small well-formed DWARF v4 description: one compilation unit covering
// [low, low+size) of the code section and a line program whose first row may lie after the
// start of the unit, with a few rows of drawn spacing (rows before, inside and beyond the
// unit's range). Symbolizers must cope with an instruction offset anywhere relative to these.
func (g *gen) synthDWARF() []wasmenc.Custom {
	le32 := func(v uint32) []byte { return []byte{byte(v), byte(v >> 8), byte(v >> 16), byte(v >> 24)} }
	low := uint32(1 + g.intn(64, "culow"))
	size := uint32([]int{1, 16, 0x100, 0x1000, 0x10000}[g.intn(5, "cusize")])
	first := low + uint32([]int{0, 0, 1, 8, 0x40, 0x80, 0x400}[g.intn(7, "firstrow")])
	abbrev := []byte{0x01, 0x11, 0x00, 0x03, 0x08, 0x10, 0x17, 0x11, 0x01, 0x12, 0x06, 0x00, 0x00, 0x00}
	info := []byte{0x18, 0, 0, 0, 0x04, 0x00, 0, 0, 0, 0, 0x04, 0x01, 'a', '.', 'c', 0x00, 0, 0, 0, 0}
	info = append(info, le32(low)...)
	info = append(info, le32(size)...)
	prog := []byte{0x00, 0x05, 0x02}
	prog = append(prog, le32(first)...)
	prog = append(prog, 0x01) // DW_LNS_copy
	for i, n := 0, g.rng(0, 4, "dwarfrows"); i < n; i++ {
		adv := []int{1, 2, 16, 100}[g.intn(4, "advance")]
		prog = append(prog, 0x02, byte(adv), 0x03, byte(1+g.intn(5, "lineadv")), 0x01) // advance_pc, advance_line, copy
	}
	prog = append(prog, 0x02, 0x10, 0x00, 0x01, 0x01) // advance_pc 16, end_sequence
	hdr := []byte{0x01, 0x01, 0x01, 0xfb, 0x0e, 0x0d, 0x00, 0x01, 0x01, 0x01, 0x01, 0x00, 0x00, 0x00, 0x01, 0x00, 0x00, 0x01,
		0x00, 'a', '.', 'c', 0x00, 0x00, 0x00, 0x00, 0x00}
	body := append([]byte{0x04, 0x00}, le32(uint32(len(hdr)))...)
	body = append(body, hdr...)
	body = append(body, prog...)
	line := append(le32(uint32(len(body))), body...)
	return []wasmenc.Custom{{Name: ".debug_abbrev", Data: abbrev}, {Name: ".debug_info", Data: info}, {Name: ".debug_line", Data: line}}
}
