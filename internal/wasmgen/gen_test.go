package wasmgen

import (
	"context"
	"strings"
	"testing"

	"github.com/tetratelabs/wazero"
	"github.com/tetratelabs/wazero/api"
	"github.com/tetratelabs/wazero/experimental"
	"pgregory.net/rapid"
)

// TestGeneratedModulesCompile: every generated module must be accepted by wazero under the
// feature set it was generated for (self-test of the generator; also part of C03's claim).
func TestGeneratedModulesCompile(t *testing.T) {
	ctx := context.Background()
	feats := api.CoreFeaturesV2 | experimental.CoreFeaturesThreads | experimental.CoreFeaturesTailCall
	rt := wazero.NewRuntimeWithConfig(ctx, wazero.NewRuntimeConfigInterpreter().WithCoreFeatures(feats))
	defer rt.Close(ctx)
	stats := map[string]int{}
	rapid.Check(t, func(t *rapid.T) {
		m := Generate(t, DefaultConfig())
		cm, err := rt.CompileModule(ctx, m.Bytes)
		if err != nil {
			t.Fatalf("generated module rejected: %v\n%s", err, strings.Join(m.Text, "\n"))
		}
		cm.Close(ctx)
		for k, v := range m.Stats {
			stats[k] += v
		}
	})
	t.Log(stats)
}
