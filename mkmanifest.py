#!/usr/bin/env python3
"""Regenerates MANIFEST.json from checks/*/check.json (single source of truth per check)."""
import json, os, glob
ROOT = os.path.dirname(os.path.abspath(__file__))
props = [json.loads(l) for l in open(os.path.join(ROOT, "properties.jsonl")) if l.strip()]
checks, na = [], []
try:
    na_reasons = json.load(open(os.path.join(ROOT, "not_applicable.json")))
except Exception:
    na_reasons = {}
ready = set(json.load(open(os.path.join(ROOT, "ready.json"))))  # checks reviewed and registered
for p in props:
    pid = p["id"]
    cj = os.path.join(ROOT, "checks", pid.lower(), "check.json")
    if pid not in ready or not os.path.exists(cj) or json.load(open(cj)).get("disabled"):
        na.append({"property_id": pid, "reason": na_reasons.get(pid, "not built yet: no check is registered for this property at this commit (this says nothing about whether the technique applies)")})
        continue
    c = json.load(open(cj))
    checks.append({
        "property_id": pid,
        "quick_cmd": "./check %s quick" % pid,
        "thorough_cmd": "./check %s thorough" % pid,
        "evidence_file": "/verif/evidence/%s.json" % pid,
        "replay_cmd_template": "./check %s --replay {path}" % pid,
        "level_claimed": {"category": c.get("level", "exploration"), "text": c.get("level_text", ""), "design_ref": c.get("design_ref", "DESIGN.md section 3, " + pid)},
        "level_note": c.get("level_note", ""),
        "technique": c.get("technique", "property-based testing (pgregory.net/rapid) against an explicit oracle"),
    })
hooks = json.load(open(os.path.join(ROOT, "hooks.json")))
m = {
    "version": 1,
    "setup_cmd": "./setup.sh",
    "hooks": hooks,
    "checks": checks,
    "not_applicable": na,
    "notes": "All checks are Go test packages under checks/<id> driven by ./check (build against /repo's working tree with -tags verif, sharded rapid runs seeded from VERIF_SEED, merged evidence). Exit 0 held / 1 VIOLATION / 2 inconclusive (infrastructure). known_findings.json lists open findings (KNOWN-FINDING lines) and fixed ones (fix: commits in /repo).",
}
json.dump(m, open(os.path.join(ROOT, "MANIFEST.json"), "w"), indent=1)
print("checks:", [c["property_id"] for c in checks], "not_applicable:", [n["property_id"] for n in na])
