package c15

import (
	"encoding/binary"
	"encoding/hex"
	"fmt"
	"math/bits"
	"os"
	"runtime"
	"strings"
	"testing"

	"pgregory.net/rapid"

	"verif/internal/evid"
	"verif/internal/wasiabi"
	"verif/internal/wasiproxy"
	"verif/internal/wz"
)

// ---------------------------------------------------------------------------------------
// Draw helpers, arranged so that the shrunk direction is "well-formed, small".

// rapid's IntRange/SampledFrom are deliberately biased towards small values; the boundary sets
// here want (roughly) uniform choices, so integers are assembled from single uniformly drawn bits
// (rapid.Bool), with rejection. Shrinking drives every bit to false, i.e. every choice to the
// first element / lower bound.
var bit = rapid.Bool()

// src is where the generator's decisions come from: rapid draws (TestWasiArgs) or the bytes of
// a native-fuzzing input (FuzzWasiCall, fuzz_test.go).
type src interface {
	uni(label string, lo, hi int) int
	// raw returns an unconstrained value for a hostile argument, if this source offers them
	raw(label string, is64 bool) (uint64, bool)
	Fatalf(format string, args ...any)
}

type rapidSrc struct{ *rapid.T }

func (r rapidSrc) uni(label string, lo, hi int) int {
	n := hi - lo + 1
	if n <= 1 {
		return lo
	}
	k := bits.Len(uint(n - 1))
	for {
		v := 0
		for i := 0; i < k; i++ {
			if bit.Draw(r.T, label) {
				v |= 1 << i
			}
		}
		if v < n {
			return lo + v
		}
	}
}

func (rapidSrc) raw(string, bool) (uint64, bool) { return 0, false }

func uni(t src, label string, lo, hi int) int { return t.uni(label, lo, hi) }

func chance(t src, label string, pct int) bool {
	return uni(t, label, 0, 99) >= 100-pct
}

func pick[T any](t src, label string, xs []T) T {
	return xs[uni(t, label, 0, len(xs)-1)]
}

// ---------------------------------------------------------------------------------------
// Boundary sets per role (DESIGN.md C15).

func ptrBoundary(size uint32, need uint64) []uint64 {
	n := uint32(need)
	if need > 0xffffffff {
		n = 0xffffffff
	}
	v := []uint32{0, 1, size - n, size - n - 1, size - n + 1, size - 1, size, size + 1, size - 4, size - 8, size + 0x10000,
		size - 5, size - 6, size - 7, size - 16, size + 8, size + 24, size + 60, size, size - n + 4,
		0x7fffffff, 0x80000000, 0xffffffff, 0xfffffffc, 0xfffffff8, -n, -n - 1, -n + 1}
	r := make([]uint64, len(v))
	for i, x := range v {
		r[i] = uint64(x)
	}
	return r
}

// lenBoundary: byte lengths / element counts for elements of size elem in a buffer at ptr.
func lenBoundary(size, ptr uint32, elem uint32) []uint64 {
	room := uint32(0)
	if ptr <= size {
		room = (size - ptr) / elem
	}
	wrap := uint32((uint64(1)<<32 + uint64(elem) - 1) / uint64(elem)) // smallest n with n*elem >= 2^32
	v := []uint32{0, 1, room, room + 1, room - 1, size / elem, size/elem + 1, 1 << 16, 1 << 28, 1 << 29, 1 << 30, 1 << 31, 0xffffffff,
		wrap, wrap + 1, wrap - 1, wrap + room, (0 - ptr) / elem, (0-ptr)/elem + 1, 0x7fffffff, 1<<27 + 1, 1<<29 + 1, 1<<29 + 2}
	r := make([]uint64, len(v))
	for i, x := range v {
		r[i] = uint64(x)
	}
	return r
}

var fdBoundaryFixed = []uint32{0xffffffff, 0, 1, 2, 3, 4, 5, 6, 7, 63, 64, 65, 71, 72, 127, 128, 129, 1 << 20, 0x7fffffff, 0x80000000, 0x80000003, 0xfffffffe, 4096, 4097}

func flagsBoundary(def uint32) []uint64 {
	r := []uint64{0, uint64(def), uint64(def) + 1, 0xffff, 0x10000, 0x10000 | uint64(def&1), 0xffffffff, 0x80000000, 0xff, 0x100}
	for b := uint32(1); b != 0 && b <= def+1 && b < 1<<16; b <<= 1 {
		r = append(r, uint64(b))
	}
	return r
}

func enumBoundary(max uint32) []uint64 {
	r := []uint64{uint64(max), uint64(max) + 1, 255, 256, 256 + uint64(max), 0xffff, 0x10000, 0x80000000, 0xffffffff}
	for i := uint32(0); i <= max; i++ {
		r = append(r, uint64(i))
	}
	return r
}

var u64Boundary = []uint64{0, 1, 2, 99, 100, 101, 4096, 1<<31 - 1, 1 << 31, 1<<32 - 1, 1 << 32, 1 << 40, 1 << 62, 1<<63 - 1, 1 << 63, 1<<63 + 1,
	^uint64(0), ^uint64(0) - 99, ^uint64(0) - 1<<32}

var u32Boundary = []uint64{0, 1, 2, 255, 256, 0x7fffffff, 0x80000000, 0xffffffff}

// ---------------------------------------------------------------------------------------
// Paths.

var (
	pathsFile  = []string{"f0", "f1", "d0/g", "big/e03", "a.txt", "dir/b.txt"}
	pathsDir   = []string{"d0", "d0/sub", "big", ".", "dir"}
	pathsNew   = []string{"n0", "d0/n1", "d0/sub/n2"}
	pathsLink  = []string{"l0"}
	pathsWeird = []string{"", "..", "../f0", "/f0", "f0/", "d0/", "d0/../f0", "nope", "nope/x", "l0/", "a\x00b", strings.Repeat("a", 300),
		strings.Repeat("b", 5000), "d0//g", "\xff\xfe", strings.Repeat("d0/../", 40) + "f0", "./f0", "d0/sub/../../..", "/", "//", "f0\x00"}
)

// ---------------------------------------------------------------------------------------

type gen struct {
	t    src
	w    *world
	c    *Case
	fn   *wasiabi.Func
	info map[int32]fdInfo
	size uint32
	next uint32
	pct  int
	nb   int // number of boundary choices (arguments or fields of input structures)
	seq  int
}

func (g *gen) l(s string) string {
	g.seq++
	return fmt.Sprintf("%s#%d", s, g.seq)
}

// hostile decides whether one argument (or one field of an input structure) takes a boundary
// value. The rate is set per function so that about one decision per call is hostile: most
// calls have one or two boundary values and otherwise well-formed arguments, which lets them get
// past the validation of the other parameters.
func (g *gen) hostile(what string) bool {
	if g.pct == 0 {
		d := len(g.fn.Params)
		for _, p := range g.fn.Params {
			switch p.Role {
			case wasiabi.PtrIovsIn, wasiabi.PtrIovsOut:
				d += 3
			case wasiabi.PtrSubs:
				d += 5
			case wasiabi.PtrPath:
				d++
			}
		}
		g.pct = 110 / max(d, 1)
		g.pct = min(max(g.pct, 8), 45)
	}
	return chance(g.t, g.l("hostile-"+what), g.pct)
}

// alloc reserves n bytes of guest memory for a well-formed structure (8-aligned). When the
// memory is too small the address is simply outside.
func (g *gen) alloc(n uint32) uint32 {
	a := g.next
	g.next += (n + 15) &^ 7
	return a
}

func (g *gen) piece(off uint32, b []byte) {
	if len(b) == 0 || uint64(off)+uint64(len(b)) > uint64(g.size) {
		return
	}
	g.c.Mem = append(g.c.Mem, Piece{Off: off, Hex: hex.EncodeToString(b)})
}

func (g *gen) ptrB(what string, need uint64) uint64 {
	g.nb++
	if v, ok := g.t.raw(g.l("raw-ptr-"+what), false); ok {
		return v
	}
	return pick(g.t, g.l("ptr-"+what), ptrBoundary(g.size, need))
}

func (g *gen) lenB(what string, ptr uint64, elem uint32) uint64 {
	g.nb++
	if v, ok := g.t.raw(g.l("raw-len-"+what), false); ok {
		return v
	}
	return pick(g.t, g.l("len-"+what), lenBoundary(g.size, uint32(ptr), elem))
}

func kindOf(fd int32, in fdInfo, sock bool) string {
	if !in.present() {
		return ""
	}
	if fd == fdTmp || fd == fdRO {
		return wasiabi.WantPreopen
	}
	if sock && fd == fdListener {
		return wasiabi.WantListener
	}
	if in.StatErr != 0 {
		return wasiabi.WantAny
	}
	switch in.Stat[0] {
	case 3:
		return wasiabi.WantDir
	case 4:
		return wasiabi.WantFile
	case 6:
		return wasiabi.WantConn
	}
	return wasiabi.WantAny
}

func (g *gen) fdsOfKind(want string) []int32 {
	var r []int32
	for fd := int32(0); fd < window; fd++ {
		k := kindOf(fd, g.info[fd], g.c.Sock)
		if k == "" {
			continue
		}
		if want == wasiabi.WantAny || k == want || (want == wasiabi.WantDir && k == wasiabi.WantPreopen) {
			r = append(r, fd)
		}
	}
	return r
}

func (g *gen) fd(p wasiabi.Param, idx int) uint64 {
	want := g.fn.Want
	if want == "" {
		want = wasiabi.WantAny
	}
	if g.hostile("fd") {
		g.nb++
		if v, ok := g.t.raw(g.l("raw-fd"), false); ok {
			return v
		}
		if chance(g.t, g.l("fd-open-other-kind"), 30) {
			if all := g.fdsOfKind(wasiabi.WantAny); len(all) > 0 {
				return uint64(uint32(pick(g.t, g.l("fd-any"), all)))
			}
		}
		return uint64(pick(g.t, g.l("fd-boundary"), fdBoundaryFixed))
	}
	if p.Name == "to" { // fd_renumber target: a free small number or another open descriptor
		if chance(g.t, g.l("to-open"), 30) {
			if fs := g.fdsOfKind(wasiabi.WantFile); len(fs) > 0 {
				return uint64(uint32(pick(g.t, g.l("to-fd"), fs)))
			}
		}
		return uint64(pick(g.t, g.l("to-free"), []uint32{9, 10, 11, 20, 63, 64, 65, 70, 100, 1000}))
	}
	cands := g.fdsOfKind(want)
	if len(cands) == 0 {
		cands = g.fdsOfKind(wasiabi.WantAny)
	}
	if len(cands) == 0 {
		return 3
	}
	if want == wasiabi.WantDir && chance(g.t, g.l("fd-tmp"), 50) {
		return fdTmp // the writable temp-dir preopen: path functions get furthest with it
	}
	return uint64(uint32(pick(g.t, g.l("fd-wellformed"), cands)))
}

func (g *gen) path(param string) string {
	var s string
	switch {
	case g.hostile("path"):
		g.nb++
		s = pick(g.t, g.l("path"), pathsWeird)
	default:
		var set []string
		switch g.fn.Name + ":" + param {
		case "path_link:old_path":
			set = []string{"f0", "f1", "d0/g", "big/e03", "l0"}
		case "path_link:new_path", "path_symlink:new_path":
			set = append(append(set, pathsNew...), "f1")
		case "path_rename:old_path":
			set = []string{"f0", "f1", "d0/g", "d0/sub", "big/e03", "l0", "d0"}
		case "path_rename:new_path":
			set = append(append(set, pathsNew...), "f1", "d0/g", "big")
		}
		switch {
		case set != nil:
		case g.fn.Name == "path_create_directory" || g.fn.Name == "path_symlink":
			set = append(append(set, pathsNew...), pathsDir...)
		case g.fn.Name == "path_remove_directory":
			set = append(append(set, "d0/sub"), pathsDir...)
		case g.fn.Name == "path_readlink":
			set = append(append(set, "l0", "l0", "l0", "l0"), pathsFile...)
		case g.fn.Name == "path_open":
			set = append(append(append(append(set, pathsFile...), pathsDir...), pathsNew...), pathsLink...)
		default:
			set = append(append(append(set, pathsFile...), pathsDir...), pathsLink...)
		}
		s = pick(g.t, g.l("path"), set)
	}
	return s
}

var wellFlags = map[string][]uint64{
	"flags":     {0, 1},
	"old_flags": {0, 1},
	"dirflags":  {1, 0},
	"oflags":    {0, 1, 2, 8, 1 | 4, 1 | 8},
	"fdflags":   {0, 1, 4},
	"fst_flags": {0, 1, 4, 2, 8, 1 | 4, 2 | 8},
	"ri_flags":  {0, 1, 2},
	"si_flags":  {0},
	"how":       {1, 2, 3},
}

var wellU64 = map[string][]uint64{
	"offset":    {0, 10, 50, 100},
	"len":       {0, 10, 200},
	"size":      {0, 10, 100, 5000},
	"cookie":    {0, 0, 0, 0, 1, 2, 3, 5},
	"timestamp": {0, 1_000_000_000, 1_600_000_000_000_000_000},
	"rights":    {0, 2, 64, 66, ^uint64(0)},
	"precision": {0, 1, 1000},
}

func le32(b []byte, off int, v uint32) { binary.LittleEndian.PutUint32(b[off:], v) }
func le64(b []byte, off int, v uint64) { binary.LittleEndian.PutUint64(b[off:], v) }

// iovecs builds an iovec array (well-formed entries, some with hostile fields).
func (g *gen) iovecs(n int) []byte {
	b := make([]byte, 8*n)
	for i := 0; i < n; i++ {
		l := pick(g.t, g.l("iov-len"), []uint32{16, 0, 1, 7, 100, 1000, 40})
		buf := g.alloc(l)
		if g.hostile("iov-len") {
			l = uint32(g.lenB("iov", uint64(buf), 1))
		}
		if g.hostile("iov-buf") {
			buf = uint32(g.ptrB("iov", uint64(l)))
		}
		le32(b, 8*i, buf)
		le32(b, 8*i+4, l)
	}
	return b
}

// subscriptions builds n poll_oneoff subscriptions.
func (g *gen) subscriptions(n int) []byte {
	b := make([]byte, 48*n)
	for i := 0; i < n; i++ {
		s := b[48*i:]
		le64(s, 0, 0x1122334455667700+uint64(i))
		tag := pick(g.t, g.l("sub-tag"), []uint8{0, 1, 2})
		if g.hostile("sub-tag") {
			g.nb++
			tag = pick(g.t, g.l("sub-tag-b"), []uint8{3, 255, 128, 0, 1, 2})
		}
		s[8] = tag
		switch tag {
		case 0:
			le32(s, 16, pick(g.t, g.l("sub-clock"), []uint32{0, 1}))
			le64(s, 24, pick(g.t, g.l("sub-timeout"), []uint64{0, 1, 1000000}))
			le64(s, 32, 0)
			fl := uint16(0)
			if g.hostile("sub-clockflags") {
				g.nb++
				fl = pick(g.t, g.l("sub-clockflags-b"), []uint16{1, 2, 3, 0xffff, 0x100})
				le32(s, 16, pick(g.t, g.l("sub-clock-b"), []uint32{2, 3, 4, 0xffffffff}))
				le64(s, 24, pick(g.t, g.l("sub-timeout-b"), u64Boundary))
			}
			binary.LittleEndian.PutUint16(s[40:], fl)
		default:
			fds := g.fdsOfKind(wasiabi.WantAny)
			fd := uint32(0)
			if len(fds) > 0 {
				fd = uint32(pick(g.t, g.l("sub-fd"), fds))
			}
			if g.hostile("sub-fd") {
				g.nb++
				fd = pick(g.t, g.l("sub-fd-b"), fdBoundaryFixed)
			}
			le32(s, 16, fd)
		}
	}
	return b
}

// place decides where an input structure lives: a well-formed allocation, or a boundary address
// (then the structure is also written there when it fits, so that exact-fit cases proceed).
func (g *gen) place(what string, data []byte) uint64 {
	if g.hostile("ptr-" + what) {
		p := g.ptrB(what, uint64(len(data)))
		g.piece(uint32(p), data)
		return p
	}
	off := g.alloc(uint32(len(data)))
	g.piece(off, data)
	return uint64(off)
}

func (g *gen) outPtr(what string, need uint64) uint64 {
	if g.hostile("ptr-" + what) {
		return g.ptrB(what, need)
	}
	n := need
	if n > 0x2000 {
		n = 0x2000
	}
	return uint64(g.alloc(uint32(n)))
}

// genCall draws the arguments and the memory image of the hostile call.
func genCall(t src, w *world, fn *wasiabi.Func, info map[int32]fdInfo, c *Case) int {
	g := &gen{t: t, w: w, c: c, fn: fn, info: info, size: w.size, next: 0x100}
	c.Fill = uint8(uni(t, "fill", 0, 3))
	args := make([]uint64, len(fn.Params))
	done := make([]bool, len(fn.Params))
	env := abiEnv()
	for i, p := range fn.Params {
		if done[i] {
			continue
		}
		done[i] = true
		switch p.Role {
		case wasiabi.Fd:
			args[i] = g.fd(p, i)
		case wasiabi.PtrOut:
			args[i] = g.outPtr(p.Name, uint64(p.Size))
		case wasiabi.PtrVecOut, wasiabi.PtrVecBufOut:
			need := uint64(env.Argc) * 4
			switch {
			case p.Role == wasiabi.PtrVecOut && p.Vec == "environ":
				need = uint64(env.Environc) * 4
			case p.Role == wasiabi.PtrVecBufOut && p.Vec == "args":
				need = uint64(env.ArgvBytes)
			case p.Role == wasiabi.PtrVecBufOut:
				need = uint64(env.EnvironBytes)
			}
			args[i] = g.outPtr(p.Name, need)
		case wasiabi.PtrBufOut:
			done[p.Pair] = true
			l := uint64(pick(t, g.l("buflen"), []uint32{64, 0, 1, 3, 8, 23, 24, 25, 48, 100, 300, 4096}))
			ptr := uint64(g.alloc(uint32(l)))
			if g.hostile("buflen") {
				l = g.lenB(p.Name, ptr, 1)
			}
			if g.hostile("bufptr") {
				ptr = g.ptrB(p.Name, l)
			}
			args[i], args[p.Pair] = ptr, l
		case wasiabi.PtrPath:
			done[p.Pair] = true
			s := g.path(p.Name)
			ptr := g.place(p.Name, []byte(s))
			l := uint64(len(s))
			if g.hostile("pathlen") {
				l = g.lenB(p.Name, ptr, 1)
			}
			args[i], args[p.Pair] = ptr, l
		case wasiabi.PtrIovsOut, wasiabi.PtrIovsIn:
			done[p.Pair] = true
			n := uni(t, g.l("niovs"), 0, 4)
			if n == 0 && !chance(t, g.l("niovs-zero"), 20) {
				n = 1
			}
			if chance(t, g.l("iov-aliasing"), 7) {
				// many iovecs that all name the same region: the data moved is far larger than the
				// guest memory although every single iovec is well-formed
				g.nb++
				cntN := pick(t, g.l("iov-alias-n"), []uint32{1024, 256, 1024})
				l := pick(t, g.l("iov-alias-len"), []uint32{16384, 4096})
				buf := g.alloc(l)
				arr := g.alloc(8 * cntN)
				one := make([]byte, 8)
				le32(one, 0, buf)
				le32(one, 4, l)
				if uint64(arr)+8*uint64(cntN) <= uint64(g.size) {
					g.c.Mem = append(g.c.Mem, Piece{Off: arr, Hex: hex.EncodeToString(one), Rep: cntN})
				}
				args[i], args[p.Pair] = uint64(arr), uint64(cntN)
				continue
			}
			data := g.iovecs(n)
			ptr := g.place(p.Name, data)
			cnt := uint64(n)
			if g.hostile("iovcount") {
				cnt = g.lenB(p.Name, ptr, 8)
			}
			args[i], args[p.Pair] = ptr, cnt
		case wasiabi.PtrSubs:
			// poll_oneoff: in, out, nsubscriptions
			done[1], done[2] = true, true
			n := uni(t, g.l("nsubs"), 1, 4)
			data := g.subscriptions(n)
			in := g.place("in", data)
			cnt := uint64(n)
			if g.hostile("nsubs") {
				cnt = g.lenB("nsubs", in, 48)
			}
			outp := g.outPtr("out", uint64(uint32(cnt))*32)
			args[0], args[1], args[2] = in, outp, cnt
		case wasiabi.Flags:
			if g.hostile("flags") {
				g.nb++
				if v, ok := t.raw(g.l("raw-flags"), false); ok {
					args[i] = v
					continue
				}
				args[i] = pick(t, g.l("flags-b"), flagsBoundary(p.Defined))
			} else if wf := wellFlags[p.Name]; len(wf) > 0 {
				args[i] = pick(t, g.l("flags"), wf)
			}
		case wasiabi.Enum:
			if g.hostile("enum") {
				g.nb++
				if v, ok := t.raw(g.l("raw-enum"), false); ok {
					args[i] = v
					continue
				}
				args[i] = pick(t, g.l("enum-b"), enumBoundary(p.Max))
			} else {
				max := p.Max
				if p.Name == "id" {
					max = 1
				}
				args[i] = uint64(uni(t, g.l("enum"), 0, int(max)))
			}
		case wasiabi.U64:
			if g.hostile("u64") {
				g.nb++
				if v, ok := t.raw(g.l("raw-u64"), true); ok {
					args[i] = v
					continue
				}
				args[i] = pick(t, g.l("u64-b"), u64Boundary)
			} else {
				args[i] = pick(t, g.l("u64"), wellU64[p.Kind])
			}
		case wasiabi.U32:
			if g.hostile("u32") {
				g.nb++
				if v, ok := t.raw(g.l("raw-u32"), false); ok {
					args[i] = v
					continue
				}
				args[i] = pick(t, g.l("u32-b"), u32Boundary)
			} else {
				args[i] = uint64(uni(t, g.l("u32"), 0, 3))
			}
		default:
			t.Fatalf("harness: role %v not generated", p.Role)
		}
	}
	c.Args = args
	return g.nb
}

// ---------------------------------------------------------------------------------------
// State prefixes.

func genState(t src, fn *wasiabi.Func, c *Case) []StateOp {
	if c.Pages == 0 {
		return nil
	}
	var ops []StateOp
	open := func(kind string) StateOp {
		op := StateOp{Op: "open", Dir: fdTmp}
		switch kind {
		case "file":
			op.Path = pick(t, "st-file", []string{"f0", "f1", "d0/g", "big/e03", "f0", "f1", "d0/g", "n0"})
			op.Oflags = pick(t, "st-oflags", []uint32{0, 0, 0, 0, 1, 1, 8, 1 | 8})
			op.Rights = pick(t, "st-rights", []uint64{66, 2, 64, 0})
			op.Fdflags = pick(t, "st-fdflags", []uint32{0, 1, 4})
		case "rofile":
			op.Dir, op.Path, op.Rights = fdRO, pick(t, "st-rofile", []string{"a.txt", "dir/b.txt"}), 2
		default:
			op.Path = pick(t, "st-dir", []string{"d0", "big", "d0/sub", "."})
			op.Oflags = 2
			if chance(t, "st-rodir", 20) {
				op.Dir, op.Path = fdRO, "dir"
			}
		}
		return op
	}
	// a first operation that gives the function under test something to get past its lookup
	switch fn.Want {
	case wasiabi.WantFile, wasiabi.WantAny:
		if chance(t, "st-seed", 85) {
			ops = append(ops, open("file"))
		}
	case wasiabi.WantDir:
		if chance(t, "st-seed", 50) {
			ops = append(ops, open("dir"))
		}
	case wasiabi.WantConn:
		if c.Sock && chance(t, "st-seed", 90) {
			ops = append(ops, StateOp{Op: "accept", Fdflags: pick(t, "st-accept-flags", []uint32{0, 4})})
		}
	}
	n := uni(t, "st-n", 0, 5)
	for i := 0; i < n; i++ {
		switch k := uni(t, "st-op", 0, 9); k {
		case 0, 1:
			ops = append(ops, open("file"))
		case 2:
			ops = append(ops, open("dir"))
		case 3:
			ops = append(ops, open("rofile"))
		case 4:
			ops = append(ops, StateOp{Op: "close", Sel: uni(t, "st-sel", 0, 7)})
		case 5:
			ops = append(ops, StateOp{Op: "renumber", Sel: uni(t, "st-sel", 0, 7),
				To: pick(t, "st-to", []int32{7, 8, 6, 9, 12, 63, 64, 65, 70, 71})})
		case 6:
			if c.Sock {
				ops = append(ops, StateOp{Op: "accept", Fdflags: pick(t, "st-accept-flags", []uint32{0, 4})})
			} else {
				ops = append(ops, open("file"))
			}
		case 7:
			ops = append(ops, StateOp{Op: "readdir", Sel: uni(t, "st-sel", 0, 7), N: pick(t, "st-rdn", []uint32{24, 64, 200, 2048})})
		case 8:
			ops = append(ops, StateOp{Op: "setflags", Sel: uni(t, "st-sel", 0, 7), Fdflags: pick(t, "st-setflags", []uint32{0, 1, 4, 5})})
		case 9:
			ops = append(ops, StateOp{Op: "seek", Sel: uni(t, "st-sel", 0, 7), N: pick(t, "st-seekn", []uint32{0, 5, 100, 1000})})
		}
	}
	// Sometimes the table is (nearly) exactly full: the insert that makes it grow (65th, 129th
	// descriptor) happens in the call under test or just before it.
	pct := 5
	if fn.Name == "path_open" || fn.Name == "sock_accept" {
		pct = 15
	}
	if chance(t, "st-fill", pct) {
		ops = append(ops, StateOp{Op: "fill", N: pick(t, "st-fill-n", []uint32{64, 64, 65, 63, 64, 65, 62, 128, 129, 127})})
	}
	// Sometimes the guest has closed a standard stream, as the LAST table operation so that the
	// slot is still empty during the call under test (poll_oneoff polls its delayed fd_read
	// subscriptions through descriptor 0, whatever descriptor they name).
	pct = 10
	if fn.Name == "poll_oneoff" {
		pct = 40
	}
	if chance(t, "st-closestd", pct) {
		ops = append(ops, StateOp{Op: "closefd", To: pick(t, "st-std", []int32{0, 0, 0, 1, 2})})
	}
	return ops
}

// ---------------------------------------------------------------------------------------
// The property.

var ntCount = map[string]int{}

var debugLabels = os.Getenv("VERIF_C15_DEBUG") != ""

func errnoClass(e uint32) string {
	switch e {
	case 0:
		return "errno-success"
	case wasiproxy.EBADF:
		return "errno-ebadf"
	case wasiproxy.EFAULT:
		return "errno-efault"
	case wasiproxy.EINVAL:
		return "errno-einval"
	}
	return "errno-other"
}

func runOne(rt *rapid.T, fn *wasiabi.Func) {
	t := rapidSrc{rt}
	c := &Case{Fn: fn.Name}
	c.Engine = pick(t, "engine", wz.Engines)
	c.Pages = pick(t, "pages", []uint32{1, 1, 1, 1, 1, 1, 1, 2, 2, 0})
	c.CapMax = chance(t, "capmax", 30)
	wantSock := fn.Want == wasiabi.WantConn || fn.Want == wasiabi.WantListener
	c.Sock = chance(t, "sock", map[bool]int{true: 92, false: 12}[wantSock])
	c.State = genState(t, fn, c)
	w, err := setup(c)
	if err != nil {
		t.Fatalf("harness: %v", err)
	}
	defer w.close()
	info := w.probe(nil)
	nb := genCall(t, w, fn, info, c)
	applyExclusions(c, info)
	evid.Journal(c)
	r := w.runCall(c)
	if r.Harness != "" {
		t.Fatalf("harness: %s", r.Harness)
	}
	if r.Msg != "" {
		evid.Fail(rt, c, "%s", r.Msg)
	}
	hasFd := false
	for _, p := range fn.Params {
		if p.Role == wasiabi.Fd {
			hasFd = true
		}
	}
	past := !hasFd || r.Errno != wasiproxy.EBADF || r.Out.Kind != wz.KOK
	nontrivial := (nb > 0 || len(fn.Params) == 0) && (past || r.MemChanged)
	if c.CapMax {
		evid.Label("capacity-from-max", 1)
	}
	labels := []string{"engine:" + c.Engine, fmt.Sprintf("pages:%d", c.Pages), errnoClass(r.Errno)}
	if nontrivial {
		labels = append(labels, "fn:"+fn.Name)
		ntCount[fn.Name]++
	}
	if r.Out.Kind == wz.KOK && r.Errno == 0 {
		labels = append(labels, "ok:"+fn.Name)
	}
	if r.MemChanged {
		labels = append(labels, "memory-written")
	}
	if c.Sock {
		labels = append(labels, "state-with-listener")
	}
	if len(w.open) > 0 {
		labels = append(labels, "state-with-opened-fds")
	}
	if nb >= 2 {
		labels = append(labels, "boundary-choices>=2")
	}
	if debugLabels {
		labels = append(labels, fmt.Sprintf("dbg:%s:errno=%d", fn.Name, r.Errno))
	}
	if r.DroppedRes {
		labels = append(labels, "info:success-with-result-pointer-outside-memory:"+fn.Name)
	}
	evid.Case(c.key(), nontrivial, labels...)
	if nontrivial && sampledFn(fn.Name) {
		evid.Sample("case:"+fn.Name, 1, map[string]any{"case": c, "errno": r.Errno, "outcome": r.Out.String(), "alloc_bytes": r.Alloc,
			"memory_changed": r.MemChanged, "boundary_choices": nb})
	}
}

// sampledFn spreads the few written-out samples of the evidence file over different functions:
// every shard keeps one non-trivial case of four functions of its own.
func sampledFn(name string) bool {
	shard, _ := evid.Shard()
	for k := 0; k < 4; k++ {
		if wasiabi.Table[(shard*11+k*13+5)%len(wasiabi.Table)].Name == name {
			return true
		}
	}
	return false
}

func TestWasiArgs(t *testing.T) {
	if evid.ReplayPath() != "" {
		t.Skip()
	}
	knownClasses(t) // decide (and report) the known classes before generating
	for i := range wasiabi.Table {
		fn := &wasiabi.Table[i]
		evid.Check(t, fn.Name, evid.Scale(1000, 20000), func(rt *rapid.T) { runOne(rt, fn) })
		if debugLabels {
			var ms runtime.MemStats
			runtime.ReadMemStats(&ms)
			fmt.Printf("DBG %s goroutines=%d heapalloc=%dMiB heapsys=%dMiB objects=%d numgc=%d\n", fn.Name, runtime.NumGoroutine(), ms.HeapAlloc>>20, ms.HeapSys>>20, ms.HeapObjects, ms.NumGC)
		}
		if ntCount[fn.Name] == 0 && evid.ViolationCount() == 0 {
			evid.Incomplete("generator health: no non-trivial case for %s in this shard", fn.Name)
		}
	}
}
