package c15

import (
	"context"
	"fmt"
	"testing"

	"github.com/tetratelabs/wazero"
	"github.com/tetratelabs/wazero/imports/wasi_snapshot_preview1"
	"pgregory.net/rapid"

	"verif/internal/evid"
	"verif/internal/wasiproxy"
	"verif/internal/wasmenc"
	"verif/internal/wz"
)

// noMemBinary is the forwarding guest of wasiproxy without any memory: every pointer a WASI
// function receives is out of range, so each call must answer an errno (or exit), never raise
// a Go runtime error in the host.
func noMemBinary(sigs map[string]wasiproxy.Sig, names []string) []byte {
	m := &wasmenc.Module{}
	for _, n := range names {
		s := sigs[n]
		m.ImportFunc(wasi_snapshot_preview1.ModuleName, n, s.Params, s.Results)
	}
	for i, n := range names {
		s := sigs[n]
		b := wasmenc.NewB()
		for k := range s.Params {
			b.LocalGet(uint32(k))
		}
		b.Call(uint32(i))
		m.ExportFunc(n, m.AddFunc(s.Params, s.Results, nil, b.Bytes()))
	}
	return m.Encode()
}

type noMemCase struct {
	Engine string   `json:"engine"`
	Fn     string   `json:"fn"`
	Args   []uint64 `json:"args"`
}

func runNoMem(c *noMemCase) string {
	ctx := context.Background()
	rt := wazero.NewRuntimeWithConfig(ctx, wz.Config(c.Engine))
	defer rt.Close(ctx)
	sigs, names, err := wasiproxy.Signatures(ctx, rt)
	if err != nil {
		return "harness: " + err.Error()
	}
	mod, err := rt.InstantiateWithConfig(ctx, noMemBinary(sigs, names), wazero.NewModuleConfig().WithName("").WithArgs("a", "b").WithEnv("k", "v"))
	if err != nil {
		return "harness: " + err.Error()
	}
	f := mod.ExportedFunction(c.Fn)
	if f == nil || len(c.Args) != len(sigs[c.Fn].Params) {
		return ""
	}
	_, out := wz.SafeCall(ctx, f, c.Args...)
	if out.Kind == wz.KInternal || out.Kind == wz.KPanic {
		return fmt.Sprintf("%s%v from a guest without memory on the %s: %v", c.Fn, c.Args, c.Engine, out)
	}
	return ""
}

// TestNoMemoryGuest: all WASI functions called from a guest that has no linear memory.
func TestNoMemoryGuest(t *testing.T) {
	if evid.ReplayPath() != "" {
		t.Skip()
	}
	ctx := context.Background()
	rt := wazero.NewRuntimeWithConfig(ctx, wz.Config("interpreter"))
	sigs, names, err := wasiproxy.Signatures(ctx, rt)
	rt.Close(ctx)
	if err != nil {
		t.Fatal(err)
	}
	evid.Check(t, "no-memory-guest", evid.Scale(1200, 60000), func(t *rapid.T) {
		c := &noMemCase{Engine: rapid.SampledFrom(wz.Engines).Draw(t, "engine"), Fn: rapid.SampledFrom(names).Draw(t, "fn")}
		if c.Fn == "poll_oneoff" && rapid.Bool().Draw(t, "skip-poll") {
			c.Fn = "fd_write"
		}
		for range sigs[c.Fn].Params {
			switch rapid.IntRange(0, 3).Draw(t, "kind") {
			case 0:
				c.Args = append(c.Args, uint64(rapid.IntRange(0, 8).Draw(t, "small")))
			case 1:
				c.Args = append(c.Args, 0)
			default:
				c.Args = append(c.Args, uint64(rapid.Uint32().Draw(t, "u32")))
			}
		}
		if c.Fn == "proc_exit" {
			c.Args[0] = uint64(rapid.IntRange(0, 3).Draw(t, "code"))
		}
		evid.Journal(map[string]any{"nomem": c})
		if msg := runNoMem(c); msg != "" {
			evid.Fail(t, map[string]any{"nomem": c}, "%s", msg)
		}
		evid.Case(evid.Hash64("nomem", c.Engine, c.Fn, fmt.Sprint(c.Args)), true, "nomem-guest", "fn:"+c.Fn)
	})
}
