package c15

import (
	"encoding/hex"
	"encoding/json"
	"fmt"
	"os"
	"path/filepath"
	"sync"
	"testing"

	"verif/internal/evid"
	"verif/internal/wasiabi"
	"verif/internal/wz"
)

// byteSrc feeds the generator's decisions from the bytes of a fuzz input: one byte per decision
// (two for ranges above 256), zero when the input is exhausted. An all-zero tail therefore
// decodes to the first, well-formed choice everywhere, and a single mutated byte flips a single
// decision (well-formed <-> boundary value, which boundary value, which path, ...). A hostile
// argument is, one time in four, an unconstrained raw word taken from the input.
type byteSrc struct {
	b   []byte
	pos int
}

func (s *byteSrc) next() byte {
	if s.pos >= len(s.b) {
		return 0
	}
	v := s.b[s.pos]
	s.pos++
	return v
}

func (s *byteSrc) uni(_ string, lo, hi int) int {
	n := hi - lo + 1
	if n <= 1 {
		return lo
	}
	v := int(s.next())
	if n > 256 {
		v |= int(s.next()) << 8
	}
	return lo + v%n
}

func (s *byteSrc) raw(_ string, is64 bool) (uint64, bool) {
	if s.next()%4 != 1 {
		return 0, false
	}
	k := 4
	if is64 {
		k = 8
	}
	var v uint64
	for i := 0; i < k; i++ {
		v |= uint64(s.next()) << (8 * i)
	}
	return v, true
}

func (s *byteSrc) Fatalf(format string, args ...any) { panic(fmt.Sprintf(format, args...)) }

// Preparation steps a fuzz input can ask for (socket-less: the fuzz stage uses no listener).
var fuzzSteps = []StateOp{
	{Op: "open", Dir: fdTmp, Path: "f0", Rights: 66},
	{Op: "open", Dir: fdTmp, Path: "d0", Oflags: 2},
	{Op: "open", Dir: fdRO, Path: "a.txt", Rights: 2},
	{Op: "open", Dir: fdTmp, Path: "f1", Rights: 66, Fdflags: 1},
	{Op: "open", Dir: fdTmp, Path: "big", Oflags: 2},
	{Op: "open", Dir: fdTmp, Path: "n0", Oflags: 1, Rights: 66},
	{Op: "open", Dir: fdRO, Path: "dir", Oflags: 2},
	{Op: "close", Sel: 0},
	{Op: "close", Sel: 1},
	{Op: "renumber", Sel: 0, To: 9},
	{Op: "renumber", Sel: 1, To: 63},
	{Op: "renumber", Sel: 0, To: 64},
	{Op: "renumber", Sel: 0, To: 70},
	{Op: "readdir", Sel: 1, N: 64},
	{Op: "readdir", Sel: 0, N: 2048},
	{Op: "setflags", Sel: 0, Fdflags: 1},
	{Op: "setflags", Sel: 0, Fdflags: 4},
	{Op: "seek", Sel: 0, N: 5},
	{Op: "seek", Sel: 0, N: 1000},
	{Op: "closefd", To: 0},
	{Op: "closefd", To: 1},
}

// decodeHead decodes engine, pages, function and preparation steps:
//
//	byte 0: bit0 engine, bits1-2 pages {1,2,0,1}, bit3 capacity-from-max (guest max = pages+1)
//	byte 1: function selector (mod 46)
//	byte 2: number of preparation steps (mod 5), then one byte per step (mod len(fuzzSteps))
func decodeHead(s *byteSrc) *Case {
	h := s.next()
	c := &Case{Engine: wz.Engines[h&1], Pages: []uint32{1, 2, 0, 1}[(h>>1)&3], CapMax: h&8 != 0}
	c.Fn = wasiabi.Table[int(s.next())%len(wasiabi.Table)].Name
	n := int(s.next()) % 5
	for i := 0; i < n; i++ {
		c.State = append(c.State, fuzzSteps[int(s.next())%len(fuzzSteps)])
	}
	return c
}

// decodeTail appends up to two raw pieces of memory (offset, up to 32 bytes) after the
// generated structures, so that the fuzzer can also build input structures byte by byte.
func decodeTail(s *byteSrc, c *Case, size uint32) {
	n := int(s.next()) % 3
	for i := 0; i < n; i++ {
		off := uint32(s.next()) | uint32(s.next())<<8 | uint32(s.next()&1)<<16
		l := int(s.next()) % 33
		b := make([]byte, l)
		for k := range b {
			b[k] = s.next()
		}
		if l > 0 && uint64(off)+uint64(l) <= uint64(size) {
			c.Mem = append(c.Mem, Piece{Off: off, Hex: hex.EncodeToString(b)})
		}
	}
}

var fuzzClassOnce sync.Once

// fuzzClasses decides which known classes are excluded inside the fuzz target: the open finding
// C15-renumber-huge-alloc is excluded when it is listed as open, or when its (small) specific
// input still fails on this tree. Nothing else is excluded.
func fuzzClasses() {
	fuzzClassOnce.Do(func() {
		if evid.KnownOpen(idIovOverlap) {
			liveClass[idIovOverlap] = true
		} else if r, err := execute(knownInputs()[idIovOverlap]); err == nil && r.Harness == "" && r.Msg != "" {
			liveClass[idIovOverlap] = true
		}
		if evid.KnownOpen(idRenumberHuge) {
			liveClass[idRenumberHuge] = true
			return
		}
		c := &Case{Engine: "interpreter", Pages: 1, State: openF0(), Fn: "fd_renumber", Args: []uint64{5, 1 << 24}}
		if r, err := execute(c); err == nil && r.Harness == "" && r.Msg != "" {
			liveClass[idRenumberHuge] = true
		}
	})
}

const fuzzMaxInput = 512

// fuzzOne decodes and executes one input; it returns the case and the oracle's verdict.
func fuzzOne(data []byte) (c *Case, msg string, harness error) {
	s := &byteSrc{b: data}
	c = decodeHead(s)
	w, err := setup(c)
	if err != nil {
		return c, "", err
	}
	defer w.close()
	info := w.probe(nil)
	genCall(s, w, wasiabi.ByName[c.Fn], info, c)
	decodeTail(s, c, w.size)
	applyExclusions(c, info)
	r := w.runCall(c)
	if r.Harness != "" {
		return c, "", fmt.Errorf("%s", r.Harness)
	}
	return c, r.Msg, nil
}

// FuzzWasiCall is the coverage-guided (native `go test -fuzz`) form of the property. The input
// bytes are decoded by a small data provider into (engine, memory pages 0/1/2, preparation steps
// that open files/directories on the preopens and shuffle descriptors, WASI function, arguments:
// per parameter a well-formed value, a boundary value of its role, or a raw word; generated and
// raw memory pieces) and executed through the wasiproxy guest in a fresh module instance over a
// pristine temp tree, with exactly the oracles of the rapid property (world.runCall: outcome
// kind, memory diff inside the designated output regions, descriptor-table contract, allocation
// bound). The driver starts it in the thorough tier only (check.json "fuzz"); a failing input
// is written as a replay file (the decoded Case, which TestReplay loads) into VERIF_FUZZ_OUT.
func FuzzWasiCall(f *testing.F) {
	for _, s := range fuzzSeeds() {
		f.Add(s)
	}
	f.Fuzz(func(t *testing.T, data []byte) {
		if len(data) > fuzzMaxInput {
			return
		}
		fuzzClasses()
		c, msg, err := fuzzOne(data)
		if err != nil {
			t.Skipf("harness: %v", err)
		}
		if msg != "" {
			if dir := os.Getenv("VERIF_FUZZ_OUT"); dir != "" {
				b, _ := json.Marshal(map[string]any{"property": "C15", "check": "native-fuzz", "message": msg, "case": c})
				os.WriteFile(filepath.Join(dir, fmt.Sprintf("C15-fuzz-%016x.json", evid.Hash64(data))), b, 0o644)
			}
			t.Fatalf("%s", msg)
		}
	})
}

// fuzzSeeds encodes valid calls: for every function an input whose preparation opens a file and
// a directory and whose remaining bytes are zero (every decision well-formed, first choice), on
// both engines, plus a few variants with other preparations and memory sizes.
func fuzzSeeds() [][]byte {
	var out [][]byte
	zeros := make([]byte, 48)
	for i := range wasiabi.Table {
		head := []byte{byte(i & 1), byte(i), 2, 0, 1}
		out = append(out, append(head, zeros...))
	}
	for _, i := range []int{6, 8, 10, 16, 20, 21, 22, 23, 26, 31, 32, 37} { // fd_advise ... poll_oneoff
		out = append(out, append([]byte{1 | 1<<1, byte(i), 4, 0, 4, 2, 9}, zeros...)) // 2 pages, renumbered descriptors
		out = append(out, append([]byte{2 << 1, byte(i), 0}, zeros...))               // 0 pages
	}
	return out
}

// TestFuzzSeedsAreValidCalls keeps the seed corpus honest: every seed decodes and passes the
// oracles, and the per-function seeds are accepted calls (errno 0) for most functions.
func TestFuzzSeedsAreValidCalls(t *testing.T) {
	if evid.ReplayPath() != "" {
		t.Skip()
	}
	ok := 0
	for i, s := range fuzzSeeds() {
		c, msg, err := fuzzOne(s)
		if err != nil {
			t.Fatalf("seed %d: harness: %v", i, err)
		}
		if msg != "" && classOfCase(c, msg) == "" {
			evid.Violation("fuzz-seed", c, "%s", msg)
			t.Errorf("seed %d (%s): %s", i, c.Fn, msg)
		}
		if i < len(wasiabi.Table) {
			if r, err := execute(c); err == nil && r.Errno == 0 {
				ok++
			}
		}
	}
	if ok < 30 {
		evid.Incomplete("only %d of 46 per-function fuzz seeds are accepted calls", ok)
		t.Errorf("only %d of 46 per-function fuzz seeds are accepted calls", ok)
	}
	evid.Label("fuzz-seeds-accepted-calls", int64(ok))
}
