package c15

import (
	"encoding/binary"

	"fmt"
	"runtime"
	"runtime/debug"
	"strings"
	"sync"
	"testing"
	"verif/internal/wasiabi"

	"verif/internal/evid"
)

// Known classes of failing inputs (FRAMEWORK.md, known findings). Each class has a specific
// input that is executed first in every process: while it still fails, the class is reported
// through evid.Finding (by shard 0) and excluded from the generator by construction (counted
// with an "excluded-..." label), so that the search continues past it; once the specific input
// passes (the defect was repaired) nothing is excluded any more.
const (
	idPollWrap     = "C15-poll-nsubscriptions-wrap"
	idRenumberHuge = "C15-renumber-huge-alloc"
	idRenumberSelf = "C15-renumber-self"
	// fd_filestat_set_times on a descriptor that has no file system behind it (stdio, sockets):
	// File.Utimens answers ENOSYS and the path-based fallback calls a method on the nil FileEntry.FS.
	idSetTimesNilFS = "C15-filestat-set-times-nil-fs"
	// sock_recv with RI_RECV_PEEK and an EMPTY iovec list (ri_data_len = 0) still interprets the 8
	// bytes at ri_data as an iovec and stores the peeked data through it.
	idRecvPeekNoIovec = "C15-sock-recv-peek-no-iovec"
	// fd_read/fd_pread/sock_recv keep a VIEW of the iovec array while they fill the buffers: an
	// iovec whose output buffer overlaps the array rewrites later entries, and the following data
	// goes to an address the array did not designate when the call was made.
	idIovOverlap = "C15-iovec-array-overwritten-by-own-buffer"
)

// pollWrapMin is the smallest nsubscriptions whose product with the subscription size (48)
// does not fit 32 bits.
const pollWrapMin = (1<<32 + 47) / 48

// renumberFar: fd_renumber targets above this make the class "far target".
const renumberFar = 4096

var (
	knownOnce sync.Once
	liveClass = map[string]bool{}
)

func openF0() []StateOp {
	return []StateOp{{Op: "open", Dir: fdTmp, Path: "f0", Rights: 66}}
}

// The specific inputs. Without a listener the first descriptor opened by the prefix is 5.
func knownInputs() map[string]*Case {
	return map[string]*Case{
		idPollWrap:      {Engine: "interpreter", Pages: 1, Fn: "poll_oneoff", Args: []uint64{0x100, 0x1000, 1 << 28, 0x10}},
		idRenumberSelf:  {Engine: "interpreter", Pages: 1, State: openF0(), Fn: "fd_renumber", Args: []uint64{5, 5}},
		idSetTimesNilFS: {Engine: "interpreter", Pages: 1, Fn: "fd_filestat_set_times", Args: []uint64{0, 0, 0, 0}},
		idRecvPeekNoIovec: {Engine: "interpreter", Pages: 1, Sock: true, State: []StateOp{{Op: "accept"}},
			Mem: []Piece{{Off: 280, Hex: "0001000010000000"}}, Fn: "sock_recv", Args: []uint64{6, 280, 0, 1, 296, 312}},
		idIovOverlap: {Engine: "interpreter", Pages: 1, Sock: true, State: []StateOp{{Op: "accept"}},
			Mem: []Piece{{Off: 65504, Hex: "0001000010000000f0ff00000100000028010000100000004001000010000000"}},
			Fn:  "sock_recv", Args: []uint64{6, 65504, 4, 0, 344, 360}},
		idRenumberHuge: {Engine: "interpreter", Pages: 1, State: openF0(), Fn: "fd_renumber", Args: []uint64{5, 1 << 30}},
	}
}

func knownClasses(t *testing.T) {
	knownOnce.Do(func() {
		shard, _ := evid.Shard()
		in := knownInputs()
		for _, id := range []string{idPollWrap, idRenumberSelf, idSetTimesNilFS, idRecvPeekNoIovec, idIovOverlap, idRenumberHuge} {
			c := in[id]
			if id == idRenumberHuge && shard != 0 {
				// other shards only need to know whether the class is live: a 128 MiB table shows it
				c = &Case{Engine: "interpreter", Pages: 1, State: openF0(), Fn: "fd_renumber", Args: []uint64{5, 1 << 24}}
			}
			// automatic collection is off (TestMain): a multi-GiB table is never scanned while live
			evid.Journal(c)
			r, err := execute(c)
			runtime.GC()
			debug.FreeOSMemory()
			if err == nil && r.Harness != "" {
				err = fmt.Errorf("%s", r.Harness)
			}
			if err != nil {
				evid.Incomplete("known-finding input %s could not run: %v", id, err)
				continue
			}
			liveClass[id] = r.Msg != ""
			if r.Msg == "" {
				evid.Note("known class %s: its specific input passes on this tree; the class is not excluded", id)
				continue
			}
			evid.Label("known-class-live:"+id, 1)
			if shard == 0 {
				if evid.Finding(id, "known-finding", c, "%s", r.Msg) {
					t.Errorf("%s: %s", id, r.Msg)
				}
			}
		}
	})
}

func TestKnownFindings(t *testing.T) {
	if evid.ReplayPath() != "" {
		t.Skip()
	}
	knownClasses(t)
}

func renumberable(c *Case, info map[int32]fdInfo, fd int32) bool {
	in, ok := info[fd]
	if !ok || !in.present() {
		return false
	}
	if fd == fdTmp || fd == fdRO || (c.Sock && fd == fdListener) {
		return false // preopens are refused by fd_renumber
	}
	if fd <= 2 {
		// a standard stream (preopen, refused) - unless the guest closed it and the slot was re-used
		// by an opened file, directory or connection
		return in.StatErr == 0 && (in.Stat[0] == 3 || in.Stat[0] == 4 || in.Stat[0] == 6)
	}
	return true
}

// applyExclusions moves a generated case out of the live known classes (counted).
func applyExclusions(c *Case, info map[int32]fdInfo) {
	switch c.Fn {
	case "poll_oneoff":
		if liveClass[idPollWrap] && uint64(uint32(c.Args[2])) >= pollWrapMin {
			evid.Label("excluded-"+idPollWrap, 1)
			c.Args[2] = pollWrapMin - 1 // the largest count whose size still fits 32 bits
		}
	case "sock_recv":
		if fl := uint8(c.Args[3]); liveClass[idRecvPeekNoIovec] && uint32(c.Args[2]) == 0 && fl&1 != 0 && fl&^3 == 0 {
			evid.Label("excluded-"+idRecvPeekNoIovec, 1)
			c.Args[2] = 1
		}
	case "fd_filestat_set_times":
		fd, fl := int32(uint32(c.Args[0])), uint16(c.Args[3])
		in, ok := info[fd]
		einval := fl&3 == 3 || fl&12 == 12 // rejected before the descriptor is used
		if liveClass[idSetTimesNilFS] && ok && in.present() && !einval &&
			(fd <= 2 || (c.Sock && fd == fdListener) || (in.StatErr == 0 && in.Stat[0] == 6)) {
			evid.Label("excluded-"+idSetTimesNilFS, 1)
			c.Args[0] = fdTmp
		}
	case "fd_renumber":
		from, to := int32(uint32(c.Args[0])), int32(uint32(c.Args[1]))
		if !renumberable(c, info, from) {
			return
		}
		if liveClass[idRenumberSelf] && from == to {
			evid.Label("excluded-"+idRenumberSelf, 1)
			to = 64
			if from == 64 {
				to = 65
			}
			c.Args[1] = uint64(uint32(to))
		}
		if liveClass[idRenumberHuge] && to > renumberFar {
			evid.Label("excluded-"+idRenumberHuge, 1)
			c.Args[1] = renumberFar
		}
	}
}

// iovOutputOverlapsArray reports whether, for a read-type call, the output buffer of an iovec
// overlaps the iovec array of the same call (as found in guest memory when the call is made).
func iovOutputOverlapsArray(fn *wasiabi.Func, args []uint64, mem []byte) bool {
	for i, p := range fn.Params {
		if p.Role != wasiabi.PtrIovsOut || i >= len(args) {
			continue
		}
		base := uint64(uint32(args[i]))
		count := uint64(uint32(args[p.Pair]))
		n := uint64(0) // iovecs that lie in memory
		for n < count && base+(n+1)*8 <= uint64(len(mem)) {
			n++
		}
		lo, hi := base, base+n*8
		for k := uint64(0); k < n; k++ {
			buf := uint64(binary.LittleEndian.Uint32(mem[base+k*8:]))
			l := uint64(binary.LittleEndian.Uint32(mem[base+k*8+4:]))
			if l > 0 && buf < hi && buf+l > lo {
				return true
			}
		}
	}
	return false
}

// classOfCase names the known class a failing replayed case belongs to (by its arguments).
func classOfCase(c *Case, msg string) string {
	switch c.Fn {
	case "sock_recv":
		if len(c.Args) == 6 && uint32(c.Args[2]) == 0 && uint8(c.Args[3])&1 != 0 {
			return idRecvPeekNoIovec
		}
	case "fd_filestat_set_times":
		if strings.Contains(msg, "nil pointer dereference") {
			return idSetTimesNilFS
		}
	case "poll_oneoff":
		if len(c.Args) == 4 && uint64(uint32(c.Args[2])) >= pollWrapMin {
			return idPollWrap
		}
	case "fd_renumber":
		if len(c.Args) == 2 {
			from, to := int32(uint32(c.Args[0])), int32(uint32(c.Args[1]))
			if from == to {
				return idRenumberSelf
			}
			if to > renumberFar {
				return idRenumberHuge
			}
		}
	}
	return ""
}
