package c15

import (
	"encoding/binary"
	"encoding/hex"
	"encoding/json"
	"fmt"
	"hash/fnv"
	"os"
	"path/filepath"
	"runtime"
	"sort"
	"strings"
	"testing"

	"pgregory.net/rapid"

	"verif/internal/evid"
	"verif/internal/wasiabi"
	"verif/internal/wasiproxy"
	"verif/internal/wz"
)

// Retained input buffers (metamorphic twin run).
//
// A WASI call may only look at its input buffers (paths, iovec arrays, iovec data, subscription
// arrays) for the duration of the call: the host must not keep references into guest memory. A
// sequence is 1-2 "creator" calls that leave state behind (path_open of a directory or file,
// path_create_directory, path_symlink, fd_write, poll_oneoff), then the guest overwrites exactly
// the input buffers of those calls with hostile bytes (0xff, NUL, "../../..", random) - plain
// stores, not WASI calls -, then 1-4 calls that depend on the state created before (path
// operations relative to the opened directory descriptor, fd_readdir, fd_filestat_get/set_times,
// fd_prestat_dir_name, fd_renumber, fd_pread, ...). The twin run executes the same sequence
// without the overwrite. Oracles: every call after the overwrite answers the same errno and the
// same (normalised) output in both runs; the temp tree ends up in the same shape; nothing outside
// the mount root was created or changed in either run; plus, per call, the single-call oracles
// (no Go runtime error, memory diff inside the designated output regions, allocation bound).

// SeqCall is one call of a sequence.
type SeqCall struct {
	Fn   string   `json:"fn"`
	Args []uint64 `json:"args"`
	// Refs[i] >= 0: argument i is the descriptor returned by call Refs[i] (path_open result); if that
	// call did not return a descriptor the literal in Args[i] is used.
	Refs []int   `json:"refs,omitempty"`
	Mem  []Piece `json:"mem,omitempty"` // input structures, written just before the call
	In   []span  `json:"in,omitempty"`  // input buffers of this call (what the guest overwrites later)
}

type span struct {
	Off uint32 `json:"off"`
	Len uint32 `json:"len"`
}

// SeqCase is a sequence case.
type SeqCase struct {
	Engine        string    `json:"engine"`
	Pages         uint32    `json:"pages"`
	Fill          uint8     `json:"fill"`
	Calls         []SeqCall `json:"calls"`
	ScribbleAfter int       `json:"scribble_after"` // input buffers of calls [0,ScribbleAfter) are overwritten after call ScribbleAfter-1
	Pattern       string    `json:"pattern"`        // hex; repeated over every overwritten buffer
}

type callRec struct {
	Errno  uint32
	Kind   string
	Digest string
}

type seqRun struct {
	recs  []callRec
	shape string
	outer string
	msg   string // single-call oracle violation
}

// shapeSig: names, kinds, sizes, small file contents and link targets of the mount (no times).
func shapeSig(dir string) string {
	var sb strings.Builder
	filepath.WalkDir(dir, func(p string, d os.DirEntry, err error) error {
		rel, _ := filepath.Rel(dir, p)
		if err != nil {
			fmt.Fprintf(&sb, "%s: error\n", rel)
			return nil
		}
		fi, err := d.Info()
		if err != nil {
			fmt.Fprintf(&sb, "%s: error\n", rel)
			return nil
		}
		switch kindOfMode(fi.Mode()) {
		case 'd':
			fmt.Fprintf(&sb, "%s/\n", rel)
		case 'l':
			l, _ := os.Readlink(p)
			fmt.Fprintf(&sb, "%s -> %q\n", rel, l)
		default:
			h := uint64(0)
			if fi.Size() <= 1<<16 {
				b, _ := os.ReadFile(p)
				f := fnv.New64a()
				f.Write(b)
				h = f.Sum64()
			}
			fmt.Fprintf(&sb, "%s %d %x\n", rel, fi.Size(), h)
		}
		return nil
	})
	return sb.String()
}

func le32at(m []byte, off uint64) (uint32, bool) {
	if off+4 > uint64(len(m)) {
		return 0, false
	}
	return binary.LittleEndian.Uint32(m[off:]), true
}

func clip(m []byte, off, l uint64) []byte {
	if off >= uint64(len(m)) {
		return nil
	}
	if off+l > uint64(len(m)) {
		l = uint64(len(m)) - off
	}
	return m[off : off+l]
}

// digest normalises the output of a call to what must not depend on the clock, on inode numbers
// or on directory order.
func digest(fn string, args []uint64, errno uint32, m []byte) string {
	if errno != 0 {
		return ""
	}
	a := func(i int) uint64 { return uint64(uint32(args[i])) }
	switch fn {
	case "fd_readdir":
		used, _ := le32at(m, a(4))
		buf := clip(m, a(1), uint64(used))
		var names []string
		for len(buf) >= 24 {
			nl := binary.LittleEndian.Uint32(buf[16:])
			typ := buf[20]
			buf = buf[24:]
			if uint64(nl) > uint64(len(buf)) {
				names = append(names, fmt.Sprintf("<truncated %d>", typ))
				break
			}
			names = append(names, fmt.Sprintf("%q/%d", buf[:nl], typ))
			buf = buf[nl:]
		}
		sort.Strings(names)
		return strings.Join(names, ",")
	case "fd_filestat_get", "path_filestat_get":
		st := clip(m, a(len(args)-1), 64)
		if len(st) < 64 {
			return ""
		}
		if st[16] == 4 { // regular file: type and size
			return fmt.Sprintf("type=4 size=%d", binary.LittleEndian.Uint64(st[32:]))
		}
		return fmt.Sprintf("type=%d", st[16])
	case "fd_pread", "fd_read":
		n, _ := le32at(m, a(len(args)-1))
		var sb strings.Builder
		fmt.Fprintf(&sb, "n=%d", n)
		for _, r := range wasiabi.ByName[fn].OutputRegions(args, m, abiEnv()) {
			if strings.HasSuffix(r.Why, "[]") {
				fmt.Fprintf(&sb, " %x", clip(m, r.Off, r.Len))
			}
		}
		return sb.String()
	case "path_readlink":
		used, _ := le32at(m, a(5))
		return fmt.Sprintf("%q", clip(m, a(3), uint64(used)))
	case "fd_prestat_dir_name":
		return fmt.Sprintf("%q", clip(m, a(1), a(2)))
	case "fd_fdstat_get":
		return fmt.Sprintf("%x", clip(m, a(1), 24))
	case "fd_tell", "fd_seek":
		return fmt.Sprintf("%x", clip(m, a(len(args)-1), 8))
	case "path_open":
		fd, _ := le32at(m, a(8))
		return fmt.Sprintf("fd=%d", fd)
	}
	return ""
}

func patternBytes(hexs string, n int) []byte {
	p, _ := hex.DecodeString(hexs)
	if len(p) == 0 {
		p = []byte{0xff}
	}
	b := make([]byte, n)
	for i := range b {
		b[i] = p[i%len(p)]
	}
	return b
}

// runSeq executes the sequence once, with or without the overwrite of the input buffers.
func runSeq(sc *SeqCase, scribble bool) (*seqRun, error) {
	c := &Case{Engine: sc.Engine, Pages: sc.Pages}
	w, err := setup(c)
	if err != nil {
		return nil, err
	}
	defer w.close()
	run := &seqRun{}
	m := w.mem()
	for i := range m {
		m[i] = fillByte(sc.Fill, i)
	}
	fds := make([]int64, len(sc.Calls))
	for i := range fds {
		fds[i] = -1
	}
	for ci, call := range sc.Calls {
		fn := wasiabi.ByName[call.Fn]
		if fn == nil || len(call.Args) != len(fn.Params) {
			return nil, fmt.Errorf("malformed call %d", ci)
		}
		if ci == sc.ScribbleAfter && scribble {
			m = w.mem()
			for _, prev := range sc.Calls[:ci] {
				for _, sp := range prev.In {
					if uint64(sp.Off)+uint64(sp.Len) <= uint64(len(m)) {
						copy(m[sp.Off:], patternBytes(sc.Pattern, int(sp.Len)))
					}
				}
			}
		}
		args := append([]uint64(nil), call.Args...)
		for ai, r := range call.Refs {
			if ai < len(args) && r >= 0 && r < ci && fds[r] >= 0 {
				args[ai] = uint64(fds[r])
			}
		}
		m = w.mem()
		for _, p := range call.Mem {
			if b, err := hex.DecodeString(p.Hex); err == nil && uint64(p.Off)+uint64(len(b)) <= uint64(len(m)) {
				copy(m[p.Off:], b)
			}
		}
		snap := append([]byte(nil), m...)
		regions := fn.OutputRegions(args, snap, abiEnv())
		var ms0, ms1 runtime.MemStats
		runtime.ReadMemStats(&ms0)
		errno, out := w.call(call.Fn, args...)
		runtime.ReadMemStats(&ms1)
		alloc := ms1.TotalAlloc - ms0.TotalAlloc
		after := w.mem()
		head := fmt.Sprintf("call %d %s(%s) [engine=%s pages=%d scribbled=%v]", ci, call.Fn, fmtArgs(fn, args), sc.Engine, sc.Pages, scribble && ci >= sc.ScribbleAfter)
		switch {
		case out.Kind == wz.KInternal:
			run.msg = fmt.Sprintf("%s raised a Go runtime error in the host: %s", head, out.Detail)
		case out.Kind != wz.KOK && out.Kind != wz.KTrap:
			run.msg = fmt.Sprintf("%s ended neither in an errno nor in a documented trap: %s", head, out)
		case alloc > allocLimit(w.size):
			run.msg = fmt.Sprintf("%s made the host allocate %d bytes (limit %d)", head, alloc, allocLimit(w.size))
		case len(after) != len(snap):
			run.msg = fmt.Sprintf("%s changed the memory size", head)
		default:
			if from, to, _ := uncovered(snap, after, regions); from >= 0 {
				run.msg = fmt.Sprintf("%s (errno %d) wrote guest memory [%#x,%#x) outside its output regions", head, errno, from, to)
			}
		}
		if run.msg != "" {
			return run, nil
		}
		if out.Kind == wz.KOK && errno == 0 && call.Fn == "path_open" {
			if fd, ok := le32at(after, uint64(uint32(args[8]))); ok {
				fds[ci] = int64(fd)
			}
		}
		run.recs = append(run.recs, callRec{Errno: errno, Kind: out.Kind, Digest: digest(call.Fn, args, errno, after)})
	}
	if p := w.closeModule(); p != "" {
		run.msg = fmt.Sprintf("closing the module after the sequence panicked: %s", p)
		return run, nil
	}
	run.shape = shapeSig(w.dir)
	run.outer = outerSig()
	return run, nil
}

// checkSeq runs the twin pair and compares.
func checkSeq(sc *SeqCase) (msg string, a, b *seqRun, err error) {
	if a, err = runSeq(sc, true); err != nil {
		return
	}
	if a.msg != "" {
		return a.msg, a, nil, nil
	}
	if a.outer != curOuter {
		return fmt.Sprintf("after the sequence with overwritten input buffers the host tree OUTSIDE the mount root changed:\n before:\n%s after:\n%s", curOuter, a.outer), a, nil, nil
	}
	if b, err = runSeq(sc, false); err != nil {
		return
	}
	if b.msg != "" {
		return b.msg, a, b, nil
	}
	if b.outer != curOuter {
		return fmt.Sprintf("after the sequence the host tree OUTSIDE the mount root changed:\n before:\n%s after:\n%s", curOuter, b.outer), a, b, nil
	}
	for i := sc.ScribbleAfter; i < len(sc.Calls) && i < len(a.recs) && i < len(b.recs); i++ {
		if a.recs[i] != b.recs[i] {
			fn := wasiabi.ByName[sc.Calls[i].Fn]
			return fmt.Sprintf("the guest overwrote (plain stores, pattern %s) the input buffers of calls 0..%d after they had returned; call %d %s(%s) then behaves differently from the run without the overwrite:\n  overwritten: errno=%d %s %s\n  untouched:   errno=%d %s %s\nthe host kept a reference into guest memory (descriptor-table state changed outside any WASI call)",
				sc.Pattern, sc.ScribbleAfter-1, i, sc.Calls[i].Fn, fmtArgs(fn, sc.Calls[i].Args), a.recs[i].Errno, a.recs[i].Kind, a.recs[i].Digest, b.recs[i].Errno, b.recs[i].Kind, b.recs[i].Digest), a, b, nil
		}
	}
	if a.shape != b.shape {
		return fmt.Sprintf("the guest overwrote the input buffers of calls 0..%d after they had returned; the mounted tree then ends up different from the run without the overwrite:\n overwritten:\n%s untouched:\n%s", sc.ScribbleAfter-1, a.shape, b.shape), a, b, nil
	}
	return "", a, b, nil
}

// ---------------------------------------------------------------------------------------
// Generator.

type seqGen struct {
	t     src
	sc    *SeqCase
	kinds []string // per call: "dir", "file", "" (what a successful call leaves as descriptor)
	names []string // per call: the path opened
}

// arena of call i: every call has its own 4 KiB so that later calls never reuse earlier buffers.
func arena(i int) uint32 { return 0x1000 + uint32(i)*0x1000 }

func (g *seqGen) add(c SeqCall, kind, name string) int {
	g.sc.Calls = append(g.sc.Calls, c)
	g.kinds = append(g.kinds, kind)
	g.names = append(g.names, name)
	return len(g.sc.Calls) - 1
}

func strPiece(off uint32, s string) Piece { return Piece{Off: off, Hex: hex.EncodeToString([]byte(s))} }

func iovPiece(off uint32, pairs ...uint32) Piece {
	b := make([]byte, 4*len(pairs))
	for i, v := range pairs {
		binary.LittleEndian.PutUint32(b[4*i:], v)
	}
	return Piece{Off: off, Hex: hex.EncodeToString(b)}
}

func (g *seqGen) refsOf(kind string) []int {
	var r []int
	for i, k := range g.kinds {
		if k == kind {
			r = append(r, i)
		}
	}
	return r
}

// pathCall builds a call whose parameters are (fd, [flags,] path, path_len, extra...).
func (g *seqGen) open(dirRef int, dirFd uint64, p string, oflags uint64, rights uint64) SeqCall {
	i := len(g.sc.Calls)
	a := arena(i)
	c := SeqCall{Fn: "path_open", Args: []uint64{dirFd, 1, uint64(a), uint64(len(p)), oflags, rights, 0, 0, uint64(a + 0x100)},
		Mem: []Piece{strPiece(a, p)}, In: []span{{a, uint32(len(p))}}}
	if dirRef >= 0 {
		c.Refs = []int{dirRef}
	}
	return c
}

func (g *seqGen) creator() {
	t := g.t
	i := len(g.sc.Calls)
	a := arena(i)
	dirs := g.refsOf("dir")
	switch k := uni(t, "creator", 0, 10); {
	case k == 10: // the guest closes a standard stream
		g.add(SeqCall{Fn: "fd_close", Args: []uint64{uint64(pick(t, "cstd", []uint32{0, 0, 1, 2}))}}, "", "")
	case k <= 2: // open a directory of the temp-dir mount
		p := pick(t, "cdir", []string{"d0", "d0/sub", "big", "./d0", "d0/", "d0/../d0"})
		g.add(g.open(-1, fdTmp, p, 2, 0), "dir", p)
	case k == 3: // open a directory of the fs.FS mount
		g.add(g.open(-1, fdRO, "dir", 2, 0), "dir", "dir")
	case k == 4 || k == 5: // open a file
		if uni(t, "cfile-ro", 0, 3) == 0 {
			g.add(g.open(-1, fdRO, pick(t, "crofile", []string{"a.txt", "dir/b.txt"}), 0, 2), "file", "")
		} else {
			g.add(g.open(-1, fdTmp, pick(t, "cfile", []string{"f0", "d0/g", "f1", "big/e03"}), 0, 66), "file", "")
		}
	case k == 6 && len(dirs) > 0: // open relative to an earlier directory descriptor
		r := pick(t, "crel", dirs)
		p := pick(t, "crelpath", []string{"sub", "g", "e03", "b.txt", "."})
		kind, of := "file", uint64(0)
		if p == "sub" || p == "." {
			kind, of = "dir", 2
		}
		g.add(g.open(r, 0xffffffff, p, of, 2), kind, p)
	case k == 7: // create a directory / a symlink
		if uni(t, "cmk", 0, 1) == 0 {
			g.add(SeqCall{Fn: "path_create_directory", Args: []uint64{fdTmp, uint64(a), 2}, Mem: []Piece{strPiece(a, "n0")}, In: []span{{a, 2}}}, "", "")
		} else {
			g.add(SeqCall{Fn: "path_symlink", Args: []uint64{uint64(a), 4, fdTmp, uint64(a + 0x40), 2},
				Mem: []Piece{strPiece(a, "d0/g"), strPiece(a+0x40, "n1")}, In: []span{{a, 4}, {a + 0x40, 2}}}, "", "")
		}
	case k == 8: // write through an iovec array
		files := g.refsOf("file")
		c := SeqCall{Fn: "fd_write", Args: []uint64{1, uint64(a), 2, uint64(a + 0x100)},
			Mem: []Piece{iovPiece(a, a+0x200, 5, a+0x240, 3), strPiece(a+0x200, "hello"), strPiece(a+0x240, "abc")},
			In:  []span{{a, 16}, {a + 0x200, 5}, {a + 0x240, 3}}}
		if len(files) > 0 {
			c.Refs = []int{pick(t, "cwfile", files)}
		}
		g.add(c, "", "")
	default: // poll_oneoff with two clock subscriptions
		sub := make([]byte, 96)
		binary.LittleEndian.PutUint64(sub[0:], 0x1111)
		binary.LittleEndian.PutUint64(sub[48:], 0x2222)
		g.add(SeqCall{Fn: "poll_oneoff", Args: []uint64{uint64(a), uint64(a + 0x200), 2, uint64(a + 0x100)},
			Mem: []Piece{{Off: a, Hex: hex.EncodeToString(sub)}}, In: []span{{a, 96}}}, "", "")
	}
}

func (g *seqGen) dependent() {
	t := g.t
	i := len(g.sc.Calls)
	a := arena(i)
	dirs, files := g.refsOf("dir"), g.refsOf("file")
	all := append(append([]int(nil), dirs...), files...)
	ref := func(rs []int) (int, uint64) {
		if len(rs) == 0 {
			return -1, fdTmp
		}
		return pick(t, "dref", rs), 0xffffffff
	}
	child := func() string {
		return pick(t, "dchild", []string{"g", "sub", "e03", "b.txt", ".", "esc", "e00", "sub/x", "c.txt"})
	}
	switch k := uni(t, "dependent", 0, 14); k {
	case 14: // poll for readability of an open descriptor (polled through descriptor 0 by the host)
		sub := make([]byte, 48)
		binary.LittleEndian.PutUint64(sub, 0x3333)
		sub[8] = 1 // fd_read
		binary.LittleEndian.PutUint32(sub[16:], uint32(pick(t, "dpollfd", []uint32{fdTmp, fdRO, 5, 0})))
		c := SeqCall{Fn: "poll_oneoff", Args: []uint64{uint64(a), uint64(a + 0x200), 1, uint64(a + 0x100)}, Mem: []Piece{{Off: a, Hex: hex.EncodeToString(sub)}}}
		g.add(c, "", "")
	case 0, 1: // stat a path relative to the opened directory
		r, fd := ref(dirs)
		p := child()
		g.add(SeqCall{Fn: "path_filestat_get", Args: []uint64{fd, 1, uint64(a), uint64(len(p)), uint64(a + 0x100)}, Refs: []int{r}, Mem: []Piece{strPiece(a, p)}}, "", "")
	case 2: // open relative
		r, fd := ref(dirs)
		p := child()
		c := g.open(r, fd, p, pick(t, "dof", []uint64{0, 2, 1}), 66)
		c.In = nil
		g.add(c, "", "")
	case 3: // create something relative
		r, fd := ref(dirs)
		p := pick(t, "dnew", []string{"esc", "sub/esc", "x"})
		g.add(SeqCall{Fn: "path_create_directory", Args: []uint64{fd, uint64(a), uint64(len(p))}, Refs: []int{r}, Mem: []Piece{strPiece(a, p)}}, "", "")
	case 4: // remove something relative
		r, fd := ref(dirs)
		p := child()
		fn := pick(t, "drm", []string{"path_unlink_file", "path_remove_directory"})
		g.add(SeqCall{Fn: fn, Args: []uint64{fd, uint64(a), uint64(len(p))}, Refs: []int{r}, Mem: []Piece{strPiece(a, p)}}, "", "")
	case 5: // rename within the directory
		r, fd := ref(dirs)
		p, q := child(), "renamed"
		g.add(SeqCall{Fn: "path_rename", Args: []uint64{fd, uint64(a), uint64(len(p)), fd, uint64(a + 0x40), uint64(len(q))}, Refs: []int{r, -1, -1, r},
			Mem: []Piece{strPiece(a, p), strPiece(a+0x40, q)}}, "", "")
	case 6, 7: // read the directory (cookie 0 rewinds: fs.FS directories are re-opened by name)
		r, fd := ref(dirs)
		g.add(SeqCall{Fn: "fd_readdir", Args: []uint64{fd, uint64(a + 0x200), 0xd00, 0, uint64(a + 0x100)}, Refs: []int{r}}, "", "")
	case 8:
		r, fd := ref(all)
		g.add(SeqCall{Fn: "fd_filestat_get", Args: []uint64{fd, uint64(a + 0x100)}, Refs: []int{r}}, "", "")
	case 9: // the path-based fallback of set_times uses the recorded name
		r, fd := ref(all)
		g.add(SeqCall{Fn: "fd_filestat_set_times", Args: []uint64{fd, 1_000_000_000, 2_000_000_000, 1 | 4}, Refs: []int{r}}, "", "")
	case 10:
		r, fd := ref(all)
		g.add(SeqCall{Fn: "fd_prestat_dir_name", Args: []uint64{fd, uint64(a + 0x100), 1}, Refs: []int{r}}, "", "")
	case 11: // move the descriptor; later references to it are stale in both runs alike
		r, fd := ref(all)
		g.add(SeqCall{Fn: "fd_renumber", Args: []uint64{fd, uint64(pick(t, "dto", []uint32{9, 20, 64}))}, Refs: []int{r}}, "", "")
	case 12: // read file data back
		r, fd := ref(files)
		g.add(SeqCall{Fn: "fd_pread", Args: []uint64{fd, uint64(a), 1, 0, uint64(a + 0x100)}, Refs: []int{r}, Mem: []Piece{iovPiece(a, a+0x200, 64)}}, "", "")
	case 13: // what the creators made by path is still what they were told to make
		p := pick(t, "dmade", []string{"n0", "n1"})
		if p == "n1" {
			g.add(SeqCall{Fn: "path_readlink", Args: []uint64{fdTmp, uint64(a), 2, uint64(a + 0x200), 64, uint64(a + 0x100)}, Mem: []Piece{strPiece(a, p)}}, "", "")
		} else {
			g.add(SeqCall{Fn: "path_filestat_get", Args: []uint64{fdTmp, 0, uint64(a), 2, uint64(a + 0x100)}, Mem: []Piece{strPiece(a, p)}}, "", "")
		}
	}
}

var seqPatterns = []string{"2e2e2f", "ff", "00", "58", "2e2e", "2f", "2e2e2f2e2e2f2e2e00", "6430002e2e"}

func genSeq(t src) *SeqCase {
	sc := &SeqCase{Engine: pick(t, "engine", wz.Engines), Pages: pick(t, "pages", []uint32{1, 2}), Fill: uint8(uni(t, "fill", 0, 3))}
	g := &seqGen{t: t, sc: sc}
	nc := uni(t, "ncreators", 1, 2)
	for i := 0; i < nc; i++ {
		g.creator()
	}
	sc.ScribbleAfter = len(sc.Calls)
	nd := uni(t, "ndependents", 1, 4)
	for i := 0; i < nd; i++ {
		g.dependent()
	}
	if uni(t, "pattern-random", 0, 3) == 0 {
		b := make([]byte, 8)
		for i := range b {
			b[i] = byte(uni(t, "pattern-byte", 0, 255))
		}
		sc.Pattern = hex.EncodeToString(b)
	} else {
		sc.Pattern = pick(t, "pattern", seqPatterns)
	}
	return sc
}

func TestRetainedInputs(t *testing.T) {
	if evid.ReplayPath() != "" {
		t.Skip()
	}
	evid.Check(t, "retained-inputs", evid.Scale(6000, 200000), func(rt *rapid.T) {
		sc := genSeq(rapidSrc{rt})
		evid.Journal(sc)
		msg, a, _, err := checkSeq(sc)
		if err != nil {
			rt.Fatalf("harness: %v", err)
		}
		if msg != "" {
			evid.Fail(rt, sc, "%s", msg)
		}
		// non-trivial: a creator left a descriptor or changed the tree, and a later call got past
		// the descriptor lookup
		created, past := false, false
		for i, r := range a.recs {
			if i < sc.ScribbleAfter && r.Errno == 0 {
				created = true
			}
			if i >= sc.ScribbleAfter && r.Errno != wasiproxy.EBADF {
				past = true
			}
		}
		nt := created && past
		labels := []string{"seq"}
		if nt {
			labels = append(labels, "seq-nontrivial")
		}
		for i := sc.ScribbleAfter; i < len(a.recs); i++ {
			if a.recs[i].Errno == 0 {
				labels = append(labels, "seq-dependent-ok:"+sc.Calls[i].Fn)
			}
		}
		b, _ := json.Marshal(sc)
		evid.Case(evid.Key(b), nt, labels...)
		if nt {
			evid.Sample("sequence", 1, sc)
		}
	})
}
