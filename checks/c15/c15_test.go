// C15 — WASI calls are safe for any argument values.
//
// Every case is: a descriptor-table state (a prefix of valid WASI operations over a temp-dir
// preopen, an fs.FS preopen and optionally a pre-opened TCP listener), a guest memory image
// (background pattern plus generated input structures) and ONE call of one of the 46 WASI
// functions whose arguments are drawn per parameter role from boundary sets mixed with
// well-formed values. The call is issued by a real guest (wasiproxy). Oracles, per call:
//
//	(1) the wrapper returns an errno, or proc_exit ends in sys.ExitError, or a guest trap; a Go
//	    runtime error in the host (wz.KInternal), an escaping panic or any other error is a violation;
//	(2) the byte diff of guest memory before/after is contained in the output regions the
//	    signature designates (wasiabi.OutputRegions), and the memory size is unchanged;
//	(3) the descriptor table, observed through probes (fd_advise, fd_fdstat_get, fd_filestat_get,
//	    fd_tell) of a window of descriptors plus every descriptor-valued argument, changed only as
//	    the function's contract allows, and every descriptor that should be unchanged still answers
//	    the probes exactly as before;
//	(4) runtime.MemStats.TotalAlloc delta around the call <= 1 MiB + 8 x guest memory size.
package c15

import (
	"bytes"
	"context"
	"encoding/binary"
	"encoding/hex"
	"encoding/json"
	"fmt"
	"io"
	"net"
	"os"
	"path/filepath"
	"runtime"
	"runtime/debug"
	"sort"
	"strings"
	"syscall"
	"testing"
	"testing/fstest"
	"time"

	"github.com/tetratelabs/wazero"
	"github.com/tetratelabs/wazero/api"
	"github.com/tetratelabs/wazero/experimental/sock"

	"verif/internal/evid"
	"verif/internal/wasiabi"
	"verif/internal/wasiproxy"
	"verif/internal/wz"
)

// addressSpaceLimit bounds the virtual address space of the test process so that a host
// allocation of many GiB provoked by a guest kills this process (attributed to the journaled
// case by the driver) instead of exhausting the machine.
const addressSpaceLimit = 24 << 30

func TestMain(m *testing.M) {
	lim := syscall.Rlimit{Cur: addressSpaceLimit, Max: addressSpaceLimit}
	if err := syscall.Setrlimit(syscall.RLIMIT_AS, &lim); err != nil {
		fmt.Fprintln(os.Stderr, "c15: cannot set RLIMIT_AS:", err)
	}
	// Every case allocates a fresh guest (memory, snapshot) on a tiny live heap, which would start
	// a collection every few cases; with several shards running side by side the collector's
	// workers then fight for the cores. Collect explicitly every gcEvery cases instead.
	runtime.GOMAXPROCS(min(4, runtime.NumCPU()))
	debug.SetGCPercent(-1)
	evid.Main(m, "C15")
}

const gcEvery = 128

var sinceGC int

func maybeGC() {
	sinceGC++
	if sinceGC >= gcEvery {
		sinceGC = 0
		runtime.GC()
	}
}

// ---------------------------------------------------------------------------------------
// Case: everything needed to re-execute without rapid.

// StateOp is one valid operation of the descriptor-table prefix.
type StateOp struct {
	Op      string `json:"op"`                // open | close | closefd | fill | renumber | accept | readdir | setflags | seek
	Dir     int32  `json:"dir,omitempty"`     // open: directory descriptor (a preopen)
	Path    string `json:"path,omitempty"`    // open
	Oflags  uint32 `json:"oflags,omitempty"`  // open
	Rights  uint64 `json:"rights,omitempty"`  // open
	Fdflags uint32 `json:"fdflags,omitempty"` // open, setflags, accept
	Sel     int    `json:"sel,omitempty"`     // index (mod count) into the descriptors opened so far
	To      int32  `json:"to,omitempty"`      // renumber target; closefd: the standard stream (0..2) to close
	N       uint32 `json:"n,omitempty"`       // readdir: buffer length; seek: offset; fill: number of descriptors in use afterwards
}

// Piece is a part of the guest memory image.
type Piece struct {
	Off uint32 `json:"off"`
	Hex string `json:"hex"`
	Rep uint32 `json:"rep,omitempty"` // the bytes are written Rep times back to back (0 = once)
}

// Case is one evaluated case.
type Case struct {
	Engine string    `json:"engine"`
	Pages  uint32    `json:"pages"`
	CapMax bool      `json:"cap_from_max,omitempty"` // WithMemoryCapacityFromMax(true), guest max = pages+1
	Sock   bool      `json:"sock"`
	State  []StateOp `json:"state"`
	Fill   uint8     `json:"fill"`
	Mem    []Piece   `json:"mem"`
	Fn     string    `json:"fn"`
	Args   []uint64  `json:"args"`
}

func (c *Case) key() uint64 {
	b, _ := json.Marshal(c)
	return evid.Key(b)
}

// ---------------------------------------------------------------------------------------
// Runtimes and compiled proxies are shared by all cases of a process.

var (
	bg      = context.Background()
	rts     = map[string]wazero.Runtime{}
	cms     = map[string]wazero.CompiledModule{}
	sigs    map[string]wasiproxy.Sig
	names   []string
	caseSeq int
)

func compiledFor(engine string, pages uint32, capMax bool) (wazero.Runtime, wazero.CompiledModule, error) {
	rk := fmt.Sprintf("%s/%v", engine, capMax)
	rt := rts[rk]
	if rt == nil {
		rt = wazero.NewRuntimeWithConfig(bg, wz.Config(engine).WithMemoryCapacityFromMax(capMax))
		s, n, err := wasiproxy.Signatures(bg, rt)
		if err != nil {
			return nil, nil, err
		}
		sigs, names = s, n
		rts[rk] = rt
	}
	k := fmt.Sprintf("%s/%d", rk, pages)
	cm := cms[k]
	if cm == nil {
		// capMax: the guest declares one page more than it starts with, and the runtime reserves
		// it up front: the buffer's capacity exceeds the guest-visible size by 64 KiB
		max := int64(pages)
		if capMax {
			max++
		}
		var err error
		cm, err = rt.CompileModule(bg, wasiproxy.Binary(sigs, names, pages, max))
		if err != nil {
			return nil, nil, err
		}
		cms[k] = cm
	}
	return rt, cm, nil
}

// Guest-visible configuration (fixed; the output sizes of args_get/environ_get depend on it).
var (
	guestArgs = []string{"c15", "arg-one", ""}
	guestEnv  = [][2]string{{"A", "b"}, {"CD", "efg"}}
)

func abiEnv() wasiabi.Env {
	e := wasiabi.Env{Argc: uint32(len(guestArgs)), Environc: uint32(len(guestEnv))}
	for _, a := range guestArgs {
		e.ArgvBytes += uint32(len(a)) + 1
	}
	for _, kv := range guestEnv {
		e.EnvironBytes += uint32(len(kv[0])+len(kv[1])) + 2
	}
	return e
}

var roFS = fstest.MapFS{
	"a.txt":     &fstest.MapFile{Data: []byte("read-only file a")},
	"dir/b.txt": &fstest.MapFile{Data: []byte("bbbb")},
	"dir/c.txt": &fstest.MapFile{Data: []byte("cc")},
}

type discard struct{}

func (discard) Write(b []byte) (int, error) { return len(b), nil }

const (
	fdTmp      = 3 // preopen "/": the temp directory
	fdRO       = 4 // preopen "/ro": an fs.FS
	fdListener = 5 // pre-opened TCP listener when Case.Sock
	window     = 72
)

// world is the live environment of one case.
type world struct {
	c     *Case
	p     *wasiproxy.Proxy
	dir   string
	addr  string
	conns []net.Conn
	size  uint32
	open  []int32 // descriptors opened by the prefix and still believed open
	fns   map[string]api.Function

	modClosed bool
	probeFail string // a probe call (valid arguments) that ended in a Go runtime error
}

// The temp-dir tree every case starts from.
type ent struct {
	path string
	kind byte // 'd' directory, 'f' file, 'l' symlink
	data string
}

var treeSpec = func() []ent {
	es := []ent{{"d0", 'd', ""}, {"d0/sub", 'd', ""}, {"big", 'd', ""},
		{"f0", 'f', strings.Repeat("0123456789", 10)}, {"f1", 'f', ""}, {"d0/g", 'f', "g"}, {"l0", 'l', "f0"}}
	for i := 0; i < 8; i++ {
		n := fmt.Sprintf("big/e%02d", i)
		if i == 4 {
			n += strings.Repeat("x", 150) // an entry whose name does not fit small buffers
		}
		es = append(es, ent{n, 'f', ""})
	}
	return es
}()

var fixedTime = time.Unix(1_700_000_000, 0)

func kindOfMode(m os.FileMode) byte {
	switch {
	case m.IsDir():
		return 'd'
	case m&os.ModeSymlink != 0:
		return 'l'
	case m.IsRegular():
		return 'f'
	}
	return '?'
}

// restore makes dir equal to treeSpec (creating it if needed) touching only what differs: creating
// files is by far the most expensive part of a case on this machine, and most cases leave the tree
// (nearly) untouched.
func restore(dir string) {
	os.MkdirAll(dir, 0o700)
	want := map[string]ent{}
	for _, e := range treeSpec {
		want[e.path] = e
	}
	filepath.WalkDir(dir, func(p string, d os.DirEntry, err error) error {
		if err != nil || p == dir {
			return nil
		}
		rel, _ := filepath.Rel(dir, p)
		e, ok := want[rel]
		if ok && kindOfMode(d.Type()) == e.kind {
			return nil
		}
		os.RemoveAll(p)
		if d.IsDir() {
			return filepath.SkipDir
		}
		return nil
	})
	for _, e := range treeSpec {
		p := filepath.Join(dir, e.path)
		fi, err := os.Lstat(p)
		switch e.kind {
		case 'd':
			if err != nil {
				os.Mkdir(p, 0o700)
			} else if fi.Mode().Perm() != 0o700 {
				os.Chmod(p, 0o700)
			}
		case 'f':
			if err != nil || fi.Size() != int64(len(e.data)) || !fi.ModTime().Equal(fixedTime) || fi.Mode().Perm() != 0o600 {
				os.Remove(p)
				os.WriteFile(p, []byte(e.data), 0o600)
			}
		case 'l':
			if t, err := os.Readlink(p); err != nil || t != e.data {
				os.Remove(p)
				os.Symlink(e.data, p)
			}
		}
	}
	// modification times last: creating entries changes the time of their directory
	for i := len(treeSpec); i >= 0; i-- {
		p := dir
		if i < len(treeSpec) {
			if treeSpec[i].kind == 'l' {
				continue
			}
			p = filepath.Join(dir, treeSpec[i].path)
		}
		if fi, err := os.Lstat(p); err == nil && !fi.ModTime().Equal(fixedTime) {
			os.Chtimes(p, fixedTime, fixedTime)
		}
	}
}

// treeSig summarises the temp-dir tree (names, modes, sizes, mtimes, link target).
func treeSig(dir string) string {
	var sb strings.Builder
	filepath.WalkDir(dir, func(p string, d os.DirEntry, err error) error {
		rel, _ := filepath.Rel(dir, p)
		if err != nil {
			fmt.Fprintf(&sb, "%s: %v\n", rel, err)
			return nil
		}
		fi, err := d.Info()
		if err != nil {
			fmt.Fprintf(&sb, "%s: %v\n", rel, err)
			return nil
		}
		switch kindOfMode(fi.Mode()) {
		case 'd':
			fmt.Fprintf(&sb, "%s %v %d\n", rel, fi.Mode(), fi.ModTime().UnixNano())
		case 'l':
			l, _ := os.Readlink(p)
			fmt.Fprintf(&sb, "%s -> %s\n", rel, l)
		default:
			fmt.Fprintf(&sb, "%s %v %d %d\n", rel, fi.Mode(), fi.Size(), fi.ModTime().UnixNano())
		}
		return nil
	})
	return sb.String()
}

var (
	curDir   string
	curSig   string
	curClean bool
	curBase  string // ancestor of the mount root whose tree (minus the mount) must never change
	curOuter string
)

// outerSig summarises everything under curBase that is outside the mount root.
func outerSig() string {
	var sb strings.Builder
	filepath.WalkDir(curBase, func(p string, d os.DirEntry, err error) error {
		if p == curDir {
			return filepath.SkipDir
		}
		rel, _ := filepath.Rel(curBase, p)
		if err != nil {
			fmt.Fprintf(&sb, "%s: %v\n", rel, err)
			return nil
		}
		sz := int64(0)
		if fi, err := d.Info(); err == nil && fi.Mode().IsRegular() {
			sz = fi.Size()
		}
		fmt.Fprintf(&sb, "%s %v %d\n", rel, d.Type(), sz)
		return nil
	})
	return sb.String()
}

// acquireDir returns the temp directory in its pristine state.
func acquireDir() (string, error) {
	if curDir == "" {
		// per process: the workers of the native fuzz stage share one work directory
		// The mount root lies three levels below curBase, with a sentinel file on every level, so
		// that anything created or changed outside the mount (paths like "../..") shows in outerSig.
		curBase = filepath.Join(evid.WorkDir(), fmt.Sprintf("tree-%d", os.Getpid()))
		os.RemoveAll(curBase)
		curDir = filepath.Join(curBase, "o1", "o2", "root")
		os.MkdirAll(curDir, 0o700)
		for _, d := range []string{curBase, filepath.Join(curBase, "o1"), filepath.Join(curBase, "o1", "o2")} {
			os.WriteFile(filepath.Join(d, "sentinel"), []byte("outside the mount"), 0o600)
		}
		restore(curDir)
		curOuter = outerSig()
		curSig = treeSig(curDir)
		curClean = true
	}
	if !curClean {
		restore(curDir)
		evid.Label("tmp-tree-repaired", 1)
		if treeSig(curDir) != curSig { // could not be repaired in place: rebuild
			evid.Label("tmp-tree-rebuilt", 1)
			os.RemoveAll(curDir)
			restore(curDir)
			if s := treeSig(curDir); s != curSig {
				return "", fmt.Errorf("temp tree cannot be restored:\n%s\nwant\n%s", s, curSig)
			}
		}
		curClean = true
	}
	return curDir, nil
}

// releaseDir notes whether the case left the tree untouched.
func releaseDir() {
	if curDir != "" {
		curClean = treeSig(curDir) == curSig
	}
}

func freePort() (int, error) {
	l, err := net.Listen("tcp", "127.0.0.1:0")
	if err != nil {
		return 0, err
	}
	p := l.Addr().(*net.TCPAddr).Port
	l.Close()
	return p, nil
}

// setup builds the world of a case and runs its state prefix.
func setup(c *Case) (*world, error) {
	rt, cm, err := compiledFor(c.Engine, c.Pages, c.CapMax)
	if err != nil {
		return nil, err
	}
	dir, err := acquireDir()
	if err != nil {
		return nil, err
	}
	w := &world{c: c, dir: dir, fns: map[string]api.Function{}}
	var lastErr error
	for attempt := 0; attempt < 5; attempt++ {
		mc := wazero.NewModuleConfig().WithName("").WithArgs(guestArgs...).
			WithStdin(bytes.NewReader([]byte("stdin-data-0123456789"))).WithStdout(discard{}).WithStderr(discard{}).
			WithNanosleep(func(int64) {}).WithOsyield(func() {}).
			WithFSConfig(wazero.NewFSConfig().WithDirMount(w.dir, "/").WithFSMount(roFS, "/ro"))
		for _, kv := range guestEnv {
			mc = mc.WithEnv(kv[0], kv[1])
		}
		ictx := bg
		if c.Sock {
			port, err := freePort()
			if err != nil {
				lastErr = err
				continue
			}
			w.addr = fmt.Sprintf("127.0.0.1:%d", port)
			ictx = sock.WithConfig(bg, sock.NewConfig().WithTCPListener("127.0.0.1", port))
		}
		mod, err := rt.InstantiateModule(ictx, cm, mc)
		if err != nil {
			lastErr = err
			continue
		}
		w.p = &wasiproxy.Proxy{RT: rt, Mod: mod, Mem: mod.Memory(), Sigs: sigs, Names: names}
		w.size = w.p.Mem.Size()
		w.prefix()
		return w, nil
	}
	releaseDir()
	return nil, fmt.Errorf("instantiate: %v", lastErr)
}

// closeModule closes the guest (once); a panic escaping Close is returned as text.
func (w *world) closeModule() (panicked string) {
	if w.p == nil || w.modClosed {
		return ""
	}
	w.modClosed = true
	defer func() {
		if r := recover(); r != nil {
			panicked = fmt.Sprint(r)
		}
	}()
	w.p.Mod.Close(bg)
	return ""
}

func (w *world) close() {
	defer maybeGC()
	w.closeModule()
	for _, c := range w.conns {
		c.Close()
	}
	releaseDir()
}

// call invokes a WASI function through its guest wrapper (api.Function objects are cached per
// world: creating one allocates a call engine).
func (w *world) call(name string, args ...uint64) (uint32, wz.Outcome) {
	f := w.fns[name]
	if f == nil {
		f = w.p.Mod.ExportedFunction(name)
		if f == nil || len(args) != len(sigs[name].Params) {
			return 0, wz.Outcome{Kind: wz.KOther, Detail: "harness: bad call of " + name}
		}
		w.fns[name] = f
	}
	res, out := wz.SafeCall(bg, f, args...)
	if out.Kind == wz.KOK && len(res) > 0 {
		return uint32(res[0]), out
	}
	return 0, out
}

func (w *world) mem() []byte {
	b, _ := w.p.Mem.Read(0, w.p.Mem.Size())
	return b
}

// dial opens a host-side connection to the pre-opened listener, sends a little data, closes its
// write side (so that guest reads end in EOF instead of blocking) and drains what the guest sends.
func (w *world) dial() bool {
	if w.addr == "" {
		return false
	}
	c, err := net.DialTimeout("tcp", w.addr, 5*time.Second)
	if err != nil {
		return false
	}
	c.Write([]byte("0123456789abcdefghijklmnopqrstuvwxyzABCD"))
	if tc, ok := c.(*net.TCPConn); ok {
		tc.CloseWrite()
	}
	go io.Copy(io.Discard, c)
	w.conns = append(w.conns, c)
	return true
}

// Scratch addresses used by the prefix and the probes (memory is re-initialised afterwards).
const (
	scrRes  = 0x10
	scrPath = 0x40
	scrBuf  = 0x400
)

func (w *world) sel(i int) (int32, bool) {
	if len(w.open) == 0 {
		return 0, false
	}
	if i < 0 {
		i = -i
	}
	return w.open[i%len(w.open)], true
}

func (w *world) drop(fd int32) {
	for i, x := range w.open {
		if x == fd {
			w.open = append(w.open[:i:i], w.open[i+1:]...)
			return
		}
	}
}

// prefix runs the valid operations that produce the descriptor-table state.
func (w *world) prefix() {
	if w.size < 0x1000 {
		return // no memory to pass paths through: the state is the preopens
	}
	m := w.p.Mem
	for _, op := range w.c.State {
		switch op.Op {
		case "open":
			if len(op.Path) > 0x300 {
				continue
			}
			m.Write(scrPath, []byte(op.Path))
			e, o := w.call("path_open", uint64(uint32(op.Dir)), 1, scrPath, uint64(len(op.Path)), uint64(op.Oflags), op.Rights, 0, uint64(op.Fdflags), scrRes)
			if o.Kind == wz.KOK && e == 0 {
				fd, _ := m.ReadUint32Le(scrRes)
				w.open = append(w.open, int32(fd))
			}
		case "close":
			if fd, ok := w.sel(op.Sel); ok {
				if e, o := w.call("fd_close", uint64(uint32(fd))); o.Kind == wz.KOK && e == 0 {
					w.drop(fd)
				}
			}
		case "fill": // open files until descriptors 0..N-1 are all in use (the table is exactly full at 64, 128)
			m.Write(scrPath, []byte("f0"))
			for k := 0; k < 140; k++ {
				e, o := w.call("path_open", fdTmp, 1, scrPath, 2, 0, 2, 0, 0, scrRes)
				if o.Kind != wz.KOK || e != 0 {
					break
				}
				fd, _ := m.ReadUint32Le(scrRes)
				w.open = append(w.open, int32(fd))
				if fd+1 >= op.N {
					break
				}
			}
		case "closefd": // close a standard stream (valid: a guest may close its stdio)
			if op.To >= 0 && op.To <= 2 {
				if e, o := w.call("fd_close", uint64(op.To)); o.Kind == wz.KOK && e == 0 {
					w.drop(op.To)
				}
			}
		case "renumber":
			fd, ok := w.sel(op.Sel)
			if !ok || fd == op.To || op.To < 0 || op.To > 4096 {
				continue // from==to and far targets are other classes, not part of valid prefixes
			}
			if e, o := w.call("fd_renumber", uint64(uint32(fd)), uint64(uint32(op.To))); o.Kind == wz.KOK && e == 0 {
				w.drop(op.To)
				w.drop(fd)
				w.open = append(w.open, op.To)
			}
		case "accept":
			if !w.c.Sock {
				continue
			}
			if !w.dial() {
				continue
			}
			e, o := w.call("sock_accept", fdListener, uint64(op.Fdflags), scrRes)
			if o.Kind == wz.KOK && e == 0 {
				fd, _ := m.ReadUint32Le(scrRes)
				w.open = append(w.open, int32(fd))
			}
		case "readdir":
			fd := int32(fdTmp)
			if x, ok := w.sel(op.Sel); ok && op.Sel%2 == 1 {
				fd = x
			}
			n := op.N
			if n > 0x800 {
				n = 0x800
			}
			w.call("fd_readdir", uint64(uint32(fd)), scrBuf, uint64(n), 0, scrRes)
		case "setflags":
			if fd, ok := w.sel(op.Sel); ok {
				w.call("fd_fdstat_set_flags", uint64(uint32(fd)), uint64(op.Fdflags))
			}
		case "seek":
			if fd, ok := w.sel(op.Sel); ok {
				w.call("fd_seek", uint64(uint32(fd)), uint64(op.N), 0, scrRes)
			}
		}
	}
}

// ---------------------------------------------------------------------------------------
// Descriptor probes.

const noCall = 0xffff // pseudo errno: the probe call did not return normally

type fdInfo struct {
	Adv     uint32 // errno of fd_advise(fd,0,0,0): EBADF iff the descriptor is not in the table
	StatErr uint32
	Stat    [24]byte
	FstErr  uint32
	TellErr uint32
}

func (i fdInfo) present() bool { return i.Adv != wasiproxy.EBADF }

func (i fdInfo) String() string {
	if !i.present() {
		return "absent"
	}
	return fmt.Sprintf("present(advise=%d fdstat=%d[type=%d flags=%#x] filestat=%d tell=%d)", i.Adv, i.StatErr, i.Stat[0],
		binary.LittleEndian.Uint16(i.Stat[2:]), i.FstErr, i.TellErr)
}

// pcall is call for probes: their arguments are valid, so a Go runtime error is itself a finding.
func (w *world) pcall(name string, args ...uint64) (uint32, wz.Outcome) {
	e, o := w.call(name, args...)
	if o.Kind == wz.KInternal && w.probeFail == "" {
		w.probeFail = fmt.Sprintf("%s(fd=%d, ...) with valid arguments raised a Go runtime error in the host: %s", name, int32(uint32(args[0])), o.Detail)
	}
	return e, o
}

func errOf(e uint32, o wz.Outcome) uint32 {
	if o.Kind != wz.KOK {
		return noCall
	}
	return e
}

func (w *world) probeOne(fd int32) fdInfo {
	var in fdInfo
	u := uint64(uint32(fd))
	in.Adv = errOf(w.pcall("fd_advise", u, 0, 0, 0))
	if !in.present() || w.size < 128 {
		return in
	}
	in.StatErr = errOf(w.pcall("fd_fdstat_get", u, 0))
	if in.StatErr == 0 {
		b, _ := w.p.Mem.Read(0, 24)
		copy(in.Stat[:], b)
	}
	in.FstErr = errOf(w.pcall("fd_filestat_get", u, 32))
	in.TellErr = errOf(w.pcall("fd_tell", u, 32))
	return in
}

func (w *world) probe(extra []int32) map[int32]fdInfo {
	r := make(map[int32]fdInfo, window+len(extra))
	for fd := int32(0); fd < window; fd++ {
		r[fd] = w.probeOne(fd)
	}
	for _, fd := range extra {
		if _, ok := r[fd]; !ok {
			r[fd] = w.probeOne(fd)
		}
	}
	return r
}

func sameInfo(a, b fdInfo, ignoreFlags bool) bool {
	if ignoreFlags {
		a.Stat[2], a.Stat[3], b.Stat[2], b.Stat[3] = 0, 0, 0, 0
	}
	return a == b
}

// ---------------------------------------------------------------------------------------
// Memory image.

func fillByte(pattern uint8, i int) byte {
	switch pattern {
	case 0:
		return 0
	case 1:
		return 0xa5
	case 2:
		return 0xff
	default:
		return byte(i*7+13) | 1
	}
}

func (w *world) initMem(c *Case) {
	m := w.mem()
	switch c.Fill {
	case 0:
		clear(m)
	default:
		for i := range m {
			m[i] = fillByte(c.Fill, i)
		}
	}
	for _, p := range c.Mem {
		b, err := hex.DecodeString(p.Hex)
		if err != nil {
			continue
		}
		if p.Rep > 1 {
			b = bytes.Repeat(b, int(min(p.Rep, 1<<16)))
		}
		if uint64(p.Off)+uint64(len(b)) <= uint64(len(m)) {
			copy(m[p.Off:], b)
		}
	}
}

// ---------------------------------------------------------------------------------------
// One call and its oracles.

type result struct {
	Errno      uint32
	Out        wz.Outcome
	MemChanged bool
	Alloc      uint64
	HasFd      bool
	Boundary   int
	IovOverlap bool   // read-type call whose iovec output buffer overlaps its own iovec array
	Harness    string // the harness could not run the case (not a verdict)
	DroppedRes bool   // success although a fixed-size result pointer is outside memory (informational)
	Msg        string
}

func allocLimit(size uint32) uint64 { return 1<<20 + 8*uint64(size) }

var deltaBuf []int32

// uncovered returns the first maximal run of changed bytes that is not inside the allowed regions.
func uncovered(before, after []byte, regions []wasiabi.Region) (from, to int, any bool) {
	n := len(before)
	if cap(deltaBuf) < n+1 {
		deltaBuf = make([]int32, n+1)
	}
	d := deltaBuf[:n+1]
	clear(d)
	for _, r := range regions {
		if r.Len == 0 || r.Off >= uint64(n) {
			continue
		}
		if r.Fixed && r.Off+r.Len > uint64(n) {
			continue // a fixed-size result that does not fit is not stored at all: no partial store
		}
		end := r.Off + r.Len
		if end > uint64(n) {
			end = uint64(n)
		}
		d[r.Off]++
		d[end]--
	}
	cover := int32(0)
	from = -1
	for i := 0; i < n; i++ {
		cover += d[i]
		ch := before[i] != after[i]
		if ch {
			any = true
		}
		if ch && cover == 0 {
			if from < 0 {
				from = i
			}
			to = i + 1
		} else if from >= 0 {
			return from, to, any
		}
	}
	return from, to, any
}

func fdArgs(fn *wasiabi.Func, args []uint64) []int32 {
	var r []int32
	for i, p := range fn.Params {
		if p.Role == wasiabi.Fd && i < len(args) {
			fd := int32(uint32(args[i]))
			r = append(r, fd, fd-1, fd+1)
		}
	}
	return r
}

func fmtArgs(fn *wasiabi.Func, args []uint64) string {
	var sb strings.Builder
	for i, p := range fn.Params {
		if i > 0 {
			sb.WriteString(", ")
		}
		if i < len(args) {
			fmt.Fprintf(&sb, "%s=%#x", p.Name, args[i])
		}
	}
	return sb.String()
}

// runCall executes the hostile call of the case in the prepared world and applies the oracles.
func (w *world) runCall(c *Case) (r result) {
	r = w.runCallInner(c)
	if r.Msg == "" && r.Harness == "" && w.probeFail != "" {
		r.Msg = fmt.Sprintf("around %s(%#x) [engine=%s pages=%d] the descriptor table is corrupt: %s", c.Fn, c.Args, c.Engine, c.Pages, w.probeFail)
	}
	if r.Msg == "" && r.Harness == "" {
		if p := w.closeModule(); p != "" {
			r.Msg = fmt.Sprintf("after %s(%#x) [engine=%s pages=%d] closing the module panicked: %s", c.Fn, c.Args, c.Engine, c.Pages, p)
		}
	}
	return r
}

func (w *world) runCallInner(c *Case) (r result) {
	fn := wasiabi.ByName[c.Fn]
	if fn == nil || len(c.Args) != len(fn.Params) {
		r.Msg = "harness: malformed case"
		return
	}
	head := fmt.Sprintf("%s(%s) [engine=%s pages=%d]", c.Fn, fmtArgs(fn, c.Args), c.Engine, c.Pages)
	extra := fdArgs(fn, c.Args)
	before := w.probe(extra)

	w.initMem(c)
	snap := append([]byte(nil), w.mem()...)
	regions := fn.OutputRegions(c.Args, snap, abiEnv())
	if c.Fn == "sock_accept" && c.Sock && !w.dial() {
		// without a pending connection a successful lookup of a blocking listener would block forever
		r.Harness = "cannot connect to the pre-opened listener at " + w.addr
		return
	}

	var ms0, ms1 runtime.MemStats
	runtime.ReadMemStats(&ms0)
	errno, out := w.call(c.Fn, c.Args...)
	runtime.ReadMemStats(&ms1)
	r.Errno, r.Out, r.Alloc = errno, out, ms1.TotalAlloc-ms0.TotalAlloc
	if r.Alloc > 32<<20 {
		sinceGC = gcEvery // collect as soon as this world is closed: automatic collection is off
	}

	// (1) outcome
	switch {
	case out.Kind == wz.KInternal:
		r.Msg = fmt.Sprintf("%s raised a Go runtime error in the host: %s", head, out.Detail)
		return
	case fn.NoRet:
		if out.Kind != wz.KExit || out.Exit != uint32(c.Args[0]) {
			r.Msg = fmt.Sprintf("%s did not end in ExitError(%d): %s", head, uint32(c.Args[0]), out)
			return
		}
	case out.Kind == wz.KOK || out.Kind == wz.KTrap:
	default:
		r.Msg = fmt.Sprintf("%s ended neither in an errno nor in a documented trap: %s", head, out)
		return
	}

	// (4) allocation
	if lim := allocLimit(w.size); r.Alloc > lim {
		r.Msg = fmt.Sprintf("%s made the host allocate %d MiB (TotalAlloc delta %d bytes) for a guest with %d bytes of memory; limit 1 MiB + 8 x memory = %d bytes",
			head, r.Alloc>>20, r.Alloc, w.size, lim)
		return
	}

	// (2) memory
	after := w.mem()
	if len(after) != len(snap) {
		r.Msg = fmt.Sprintf("%s changed the memory size from %d to %d bytes", head, len(snap), len(after))
		return
	}
	from, to, changed := uncovered(snap, after, regions)
	r.MemChanged = changed
	r.IovOverlap = iovOutputOverlapsArray(fn, c.Args, snap)
	if from >= 0 && r.IovOverlap && liveClass[idIovOverlap] {
		// known class: the host reads the iovec array while the call's own output rewrites it, so
		// the designated regions are not well defined; not judged by this oracle (counted)
		evid.Label("excluded-output-iovec-overlaps-iovec-array", 1)
		from = -1
	}
	if from >= 0 {
		rs, _ := json.Marshal(regions)
		if len(rs) > 600 {
			rs = append(rs[:600], "..."...)
		}
		r.Msg = fmt.Sprintf("%s (errno %d) wrote guest memory [%#x,%#x) outside its output regions %s (memory size %#x): before %x after %x",
			head, errno, from, to, rs, len(snap), snap[from:min(to, from+32)], after[from:min(to, from+32)])
		return
	}
	if c.CapMax && out.Kind != wz.KExit {
		// the reserved part of the buffer is not guest memory: the page the guest gets from
		// memory.grow must be zero whatever the call was given
		if prev, ok := w.p.Mem.Grow(1); ok && prev == c.Pages {
			if np, ok := w.p.Mem.Read(c.Pages<<16, 1<<16); ok {
				for i, b := range np {
					if b != 0 {
						r.Msg = fmt.Sprintf("%s (errno %d) stored into the reserved part of the memory buffer beyond the guest-visible size: after memory.grow the fresh page is not zero at %#x: % x",
							head, errno, int(c.Pages<<16)+i, np[i:min(i+16, len(np))])
						return
					}
				}
			}
		}
	}
	if out.Kind == wz.KOK && errno == 0 {
		for i, p := range fn.Params {
			if p.Role == wasiabi.PtrOut && uint64(uint32(c.Args[i]))+uint64(p.Size) > uint64(len(after)) {
				r.DroppedRes = true
			}
		}
	}
	if out.Kind == wz.KExit {
		return // the module is closed: nothing left to probe
	}

	// (3) descriptor table
	resFd, haveRes := int32(-1), false
	if errno == 0 && (c.Fn == "path_open" || c.Fn == "sock_accept") {
		ptr := uint64(uint32(c.Args[len(c.Args)-1]))
		if ptr+4 <= uint64(len(after)) {
			resFd, haveRes = int32(binary.LittleEndian.Uint32(after[ptr:])), true
			extra = append(extra, resFd)
		}
	}
	want := make(map[int32]fdInfo, len(before))
	for k, v := range before {
		want[k] = v
	}
	flagsFd := int32(-1)
	if errno == 0 || c.Fn == "fd_fdstat_set_flags" {
		a0 := int32(0)
		if len(c.Args) > 0 {
			a0 = int32(uint32(c.Args[0]))
		}
		switch c.Fn {
		case "fd_close":
			want[a0] = fdInfo{Adv: wasiproxy.EBADF}
		case "fd_renumber":
			to := int32(uint32(c.Args[1]))
			src := before[a0]
			want[a0] = fdInfo{Adv: wasiproxy.EBADF}
			want[to] = src
		case "fd_fdstat_set_flags":
			flagsFd = a0
		}
	}
	got := w.probe(extra)
	var keys []int32
	for k := range got {
		keys = append(keys, k)
	}
	sort.Slice(keys, func(i, j int) bool { return keys[i] < keys[j] })
	var diffs []string
	newFds := 0
	for _, fd := range keys {
		g := got[fd]
		wnt, known := want[fd]
		if !known { // the result descriptor was outside the probed set before the call
			continue
		}
		if sameInfo(g, wnt, fd == flagsFd) {
			continue
		}
		if errno == 0 && !wnt.present() && g.present() && (c.Fn == "path_open" || c.Fn == "sock_accept") && (!haveRes || fd == resFd) {
			newFds++
			if newFds == 1 {
				continue // the descriptor the call returned
			}
		}
		diffs = append(diffs, fmt.Sprintf("fd %d: expected %s, observed %s", fd, wnt, g))
	}
	if errno == 0 && haveRes && (c.Fn == "path_open" || c.Fn == "sock_accept") {
		if g := got[resFd]; !g.present() {
			diffs = append(diffs, fmt.Sprintf("returned descriptor %d is not in the table", resFd))
		} else if b, ok := before[resFd]; ok && b.present() {
			diffs = append(diffs, fmt.Sprintf("returned descriptor %d was already open before the call", resFd))
		}
	}
	if len(diffs) > 0 {
		if len(diffs) > 6 {
			diffs = append(diffs[:6], "...")
		}
		r.Msg = fmt.Sprintf("%s (errno %d) left the descriptor table in a state its contract does not allow:\n  %s", head, errno, strings.Join(diffs, "\n  "))
	}
	return
}

// execute = setup + runCall (used by TestReplay and the known-finding probes).
func execute(c *Case) (result, error) {
	w, err := setup(c)
	if err != nil {
		return result{}, err
	}
	defer w.close()
	return w.runCall(c), nil
}

// ---------------------------------------------------------------------------------------

// TestTableMatchesExports checks the role table against what the host module really exports.
func TestTableMatchesExports(t *testing.T) {
	if evid.ReplayPath() != "" {
		t.Skip()
	}
	if _, _, err := compiledFor("interpreter", 1, false); err != nil {
		t.Fatal(err)
	}
	if len(wasiabi.Table) != 46 || len(names) != len(wasiabi.Table) {
		evid.Incomplete("role table has %d functions, wazero exports %d", len(wasiabi.Table), len(names))
		t.Fatalf("table %d, exports %d", len(wasiabi.Table), len(names))
	}
	for _, f := range wasiabi.Table {
		s, ok := sigs[f.Name]
		if !ok || len(s.Params) != len(f.Params) {
			evid.Incomplete("role table out of date for %s", f.Name)
			t.Fatalf("%s: not exported or arity differs (%v)", f.Name, s)
		}
		for i, p := range f.Params {
			is64 := s.Params[i] == 0x7e
			if is64 != p.I64 || (i < len(s.ParamNames) && s.ParamNames[i] != p.Name) {
				evid.Incomplete("role table out of date for %s param %d", f.Name, i)
				t.Fatalf("%s param %d: table %s i64=%v, export %s type %#x", f.Name, i, p.Name, p.I64, s.ParamNames[i], s.Params[i])
			}
		}
		if (len(s.Results) == 0) != f.NoRet {
			t.Fatalf("%s: result arity", f.Name)
		}
	}
}

func TestReplay(t *testing.T) {
	p := evid.ReplayPath()
	if p == "" {
		t.Skip()
	}
	var nm struct {
		NoMem *noMemCase `json:"nomem"`
	}
	if _, err := evid.LoadReplay(p, &nm); err == nil && nm.NoMem != nil {
		if msg := runNoMem(nm.NoMem); msg != "" {
			evid.Violation("replay", nm, "%s", msg)
			t.Fatal(msg)
		}
		return
	}
	var sc SeqCase
	if _, err := evid.LoadReplay(p, &sc); err == nil && len(sc.Calls) > 0 { // a sequence case (seq_test.go)
		msg, _, _, err := checkSeq(&sc)
		if err != nil {
			t.Fatalf("harness: %v", err)
		}
		if msg != "" {
			evid.Violation("replay", sc, "%s", msg)
			t.Fatal(msg)
		}
		return
	}
	var c Case
	if _, err := evid.LoadReplay(p, &c); err != nil {
		t.Fatal(err)
	}
	r, err := execute(&c)
	if err != nil {
		t.Fatalf("harness: %v", err)
	}
	if r.Harness != "" {
		t.Fatalf("harness: %s", r.Harness)
	}
	t.Logf("errno=%d outcome=%s alloc=%d memchanged=%v", r.Errno, r.Out, r.Alloc, r.MemChanged)
	if r.Msg != "" {
		id := classOfCase(&c, r.Msg)
		if id == "" && r.IovOverlap && strings.Contains(r.Msg, "outside its output regions") {
			id = idIovOverlap
		}
		if id != "" {
			if evid.Finding(id, "replay", c, "%s", r.Msg) {
				t.Fatal(r.Msg)
			}
			return
		}
		evid.Violation("replay", c, "%s", r.Msg)
		t.Fatal(r.Msg)
	}
}
