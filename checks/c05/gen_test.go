package c05

import (
	"strings"

	"pgregory.net/rapid"

	"verif/internal/refnum"
)

type V = refnum.V

// ---- lane value sets ----

var setCache = map[string][]uint64{}

func all16() []uint64 {
	if s, ok := setCache["all16"]; ok {
		return s
	}
	s := make([]uint64, 65536)
	for i := range s {
		s[i] = uint64(i)
	}
	setCache["all16"] = s
	return s
}

func mask32(in []uint64) []uint64 {
	m := map[uint64]bool{}
	var out []uint64
	for _, v := range in {
		v &= 0xffffffff
		if !m[v] {
			m[v] = true
			out = append(out, v)
		}
	}
	return out
}

// laneSet returns the boundary lane values for a parameter.
func laneSet(p refnum.Param) []uint64 {
	key := p.T.String() + "/" + p.S.String()
	if s, ok := setCache[key]; ok {
		return s
	}
	var s []uint64
	switch p.S {
	case refnum.SInt:
		if p.T == refnum.I32 {
			s = refnum.BoundaryI32()
		} else if p.T == refnum.I64 {
			s = refnum.BoundaryI64()
		} else if p.T == refnum.F32 {
			s = refnum.BoundaryF32()
		} else {
			s = refnum.BoundaryF64()
		}
	case refnum.SCount:
		s = mask32(refnum.BoundaryCount())
	case refnum.SCount64:
		s = refnum.BoundaryCount64()
	case refnum.SFloat:
		if p.T == refnum.F32 {
			s = refnum.BoundaryF32()
		} else {
			s = refnum.BoundaryF64()
		}
	case refnum.SI8x16, refnum.SIdx:
		s = refnum.BoundaryI8()
	case refnum.SI16x8:
		s = refnum.BoundaryI16()
	case refnum.SI32x4:
		s = refnum.BoundaryI32()
	case refnum.SI64x2, refnum.SBits:
		s = refnum.BoundaryI64()
	case refnum.SF32x4:
		s = refnum.BoundaryF32()
	case refnum.SF64x2:
		s = refnum.BoundaryF64()
	}
	setCache[key] = s
	return s
}

// ---- structured sets for one-operand instructions ----

func fracPatterns(n uint, step uint) []uint64 {
	all := uint64(1)<<n - 1
	v := []uint64{0, 1, 2, 3, 1 << (n - 1), 1<<(n-1) - 1, 1<<(n-1) + 1, 1 << (n - 2), 3 << (n - 2), all, all - 1,
		0x5555555555555555 & all, 0xaaaaaaaaaaaaaaaa & all}
	for k := uint(0); k < n; k += step {
		v = append(v, 1<<k, all&^(1<<k-1)) // a single fraction bit; the bits from k upwards
	}
	return v
}

// structFloat: every sign x (every / the interesting) exponent x fraction patterns.
func structFloat(frac, ebits uint, trapping bool) []uint64 {
	key := "sf" + string(rune('0'+frac/8)) + map[bool]string{true: "t", false: "n"}[trapping]
	if s, ok := setCache[key]; ok {
		return s
	}
	emax := uint64(1)<<ebits - 1
	bias := emax / 2
	var exps []uint64
	if trapping { // most exponents beyond 2^64 only repeat the same trap
		exps = []uint64{0, 1, 2, emax - 2, emax - 1, emax, bias + 100, bias + 127}
		for e := bias - 3; e <= bias+66; e++ {
			if e > bias+34 && e < bias+61 { // between the 32- and 64-bit ranges nothing changes
				continue
			}
			exps = append(exps, e)
		}
	} else {
		for e := uint64(0); e <= emax; e++ {
			exps = append(exps, e)
		}
	}
	step := uint(1)
	if frac > 32 {
		step = 2
	}
	var out []uint64
	for _, e := range exps {
		for _, f := range fracPatterns(frac, step) {
			b := e<<frac | f
			out = append(out, b, b|1<<(frac+ebits))
		}
	}
	setCache[key] = out
	return out
}

// structInt: single bits, runs, and values whose conversion to f32/f64 rounds (round and sticky
// bit combinations at every shift).
func structInt(bits uint) []uint64 {
	key := "si" + string(rune('0'+bits/8))
	if s, ok := setCache[key]; ok {
		return s
	}
	m := ^uint64(0)
	if bits < 64 {
		m = 1<<bits - 1
	}
	seen := map[uint64]bool{}
	var out []uint64
	add := func(x uint64) {
		x &= m
		if !seen[x] {
			seen[x] = true
			out = append(out, x)
		}
	}
	for k := uint(0); k < bits; k++ {
		b := uint64(1) << k
		for _, x := range []uint64{b, b - 1, b + 1, ^b, b | 1, ^(b - 1), b | b>>1, b - 2, b + 2} {
			add(x)
			add(-x)
		}
		// 24/25/53/54-bit significands with round (and sticky) bits, shifted to every position
		for _, sig := range []uint64{0xffffff, 0x1000001, 0x1000003, 0x1fffffe, 0x1ffffff, 0x1000002, 0x1000006, 0x2000001, 0x3000001, 0x2fffffd,
			0x1fffffffffffff, 0x20000000000001, 0x20000000000003, 0x3ffffffffffffe, 0x3fffffffffffff, 0x20000000000002, 0x20000000000006, 0x40000000000001, 0x60000000000001} {
			add(sig << k)
			add(-(sig << k))
			add(sig<<k | 1)
		}
	}
	setCache[key] = out
	return out
}

// bigSet is the lane set for one-operand instructions.
func bigSet(op *refnum.Op, p refnum.Param) []uint64 {
	small := laneSet(p)
	if fb, isF := fracBits(p); isF {
		eb := uint(8)
		if fb == 52 {
			eb = 11
		}
		return append(append([]uint64{}, small...), structFloat(fb, eb, op.MayTrap)...)
	}
	switch {
	case p.S == refnum.SInt && (p.T == refnum.I32 || p.T == refnum.I64), p.S == refnum.SI32x4, p.S == refnum.SI64x2:
		bits := uint(64)
		if p.T == refnum.I32 || p.S == refnum.SI32x4 {
			bits = 32
		}
		return append(append([]uint64{}, small...), structInt(bits)...)
	case p.S == refnum.SInt && p.T == refnum.F32: // reinterpret / splat of float bits
		return append(append([]uint64{}, small...), structFloat(23, 8, false)...)
	case p.S == refnum.SInt && p.T == refnum.F64:
		return append(append([]uint64{}, small...), structFloat(52, 11, false)...)
	}
	return small
}

// ---- vector lists ----

// packed packs the values into vectors of `bits`-wide lanes: lane (l+rot)%L of vector j holds
// set[(j*L+l) % len(set)].
func packed(set []uint64, bits, rot int) []V {
	L := 128 / bits
	n := (len(set) + L - 1) / L
	out := make([]V, n)
	for j := 0; j < n; j++ {
		for l := 0; l < L; l++ {
			refnum.SetLane(&out[j], bits, (l+rot)%L, set[(j*L+l)%len(set)])
		}
	}
	return out
}

func splats(set []uint64, bits int) []V {
	L := 128 / bits
	out := make([]V, len(set))
	for j, x := range set {
		for l := 0; l < L; l++ {
			refnum.SetLane(&out[j], bits, l, x)
		}
	}
	return out
}

// adjPairs8 holds every pair (x,y) of bytes in adjacent lanes (2i, 2i+1).
func adjPairs8() []V {
	out := make([]V, 8192)
	for p := 0; p < 65536; p++ {
		refnum.S8(&out[p/8], 2*(p%8), uint8(p>>8))
		refnum.S8(&out[p/8], 2*(p%8)+1, uint8(p))
	}
	return out
}

// specials: vectors that matter for all_true / any_true / bitmask and lane moves.
func specials(bits int) []V {
	L := 128 / bits
	ones := V{^uint64(0), ^uint64(0)}
	out := []V{{}, ones, {0x0706050403020100, 0x0f0e0d0c0b0a0908}, {0xf7f6f5f4f3f2f1f0, 0xfffefdfcfbfaf9f8}}
	for l := 0; l < L; l++ {
		for _, x := range []uint64{1, uint64(1) << uint(bits-1), ^uint64(0)} {
			var v V
			refnum.SetLane(&v, bits, l, x)
			out = append(out, v)
		}
		v := ones
		refnum.SetLane(&v, bits, l, 0)
		out = append(out, v)
		v = ones
		refnum.SetLane(&v, bits, l, uint64(1)<<uint(bits-1)-1)
		out = append(out, v)
	}
	return out
}

func scalars(set []uint64) []V {
	out := make([]V, len(set))
	for i, x := range set {
		out[i] = V{x, 0}
	}
	return out
}

func sample(l []V, max int) []V {
	if len(l) <= max {
		return l
	}
	out := make([]V, 0, max)
	for i := 0; i < max; i++ {
		out = append(out, l[i*len(l)/max])
	}
	return out
}

func cat(ls ...[]V) []V {
	var out []V
	for _, l := range ls {
		out = append(out, l...)
	}
	return out
}

// block is a cross product of one operand list per parameter.
type block [][]V

func (b block) size() int {
	n := 1
	for _, l := range b {
		n *= len(l)
	}
	return n
}

// unaryList is the deterministic operand list of a one-operand instruction (or of one operand
// seen alone).
func unaryList(op *refnum.Op, p refnum.Param, exhaustive16 bool) []V {
	set := laneSet(p)
	if op != nil {
		set = bigSet(op, p)
	}
	if p.T != refnum.V128 {
		return scalars(set)
	}
	bits := p.S.LaneBits()
	L := 128 / bits
	var out []V
	switch {
	case bits == 8:
		for r := 0; r < 16; r++ {
			out = append(out, packed(set, 8, r)...)
		}
		out = append(out, adjPairs8()...)
	case bits == 16 && exhaustive16:
		out = cat(packed(all16(), 16, 0), packed(all16(), 16, 4), packed(all16(), 16, 1))
	default:
		for r := 0; r < L; r++ {
			out = append(out, packed(set, bits, r)...)
		}
		out = append(out, sample(splats(set, bits), 64)...)
	}
	return cat(out, specials(bits))
}

// blocksFor builds the deterministic operand plan of an instruction.
func blocksFor(op *refnum.Op) []block {
	ps := op.Params
	small := op.Imm != refnum.ImmNone // instructions with an immediate are multiplied by its values
	lim := func(l []V, n int) []V {
		if small {
			return sample(l, n)
		}
		return l
	}
	switch len(ps) {
	case 1:
		return []block{{lim(unaryList(op, ps[0], true), 96)}}
	case 3: // v128.bitselect
		a := cat(sample(packed(laneSet(ps[0]), 64, 0), 20), specials(8)[:8])
		return []block{{a, a, a}}
	}
	p0, p1 := ps[0], ps[1]
	switch {
	case p0.T != refnum.V128: // scalar binary
		return []block{{scalars(laneSet(p0)), scalars(laneSet(p1))}}
	case p1.T != refnum.V128: // vector, scalar: shifts and replace_lane
		if op.Imm == refnum.ImmNone && p0.S == refnum.SI16x8 { // i16x8 shifts: every value x every count
			return []block{{cat(packed(all16(), 16, 0), specials(16)), scalars(laneSet(p1))}}
		}
		return []block{{lim(unaryList(nil, p0, false), 48), lim(scalars(laneSet(p1)), 48)}}
	case op.Name == "i8x16.swizzle":
		data := cat(packed(laneSet(p0), 8, 0), specials(8)[:4])
		idx := cat(splats(laneSet(p1), 8), unaryList(nil, p1, false)[:256])
		return []block{{data, idx}}
	case op.Name == "i8x16.shuffle":
		a := cat(sample(packed(laneSet(p0), 8, 0), 8), specials(8)[2:4])
		return []block{{a, a}}
	case strings.Contains(op.Name, "narrow_i16x8"): // each input lane is saturated on its own: all 2^16 values on either side
		few := sample(splats(laneSet(p0), 16), 6)
		all := cat(packed(all16(), 16, 0), packed(all16(), 16, 4))
		return []block{{all, few}, {few, all}}
	}
	// two vectors combining lane-wise (or pairwise): every pair of lane values at the same lane
	// position: packed x splat and splat x packed, in two rotations so that both halves of
	// the vector see every pair.
	bits := p0.S.LaneBits()
	sa, sb := laneSet(p0), laneSet(p1)
	L := 128 / bits
	bl := []block{
		{packed(sa, bits, 0), splats(sb, bits)},
		{splats(sa, bits), packed(sb, bits, L/2)},
	}
	wide := bits <= 16 || strings.Contains(op.Name, "ext") || strings.Contains(op.Name, "dot") || strings.Contains(op.Name, "narrow")
	if wide {
		bl = append(bl, block{packed(sa, bits, L/2), splats(sb, bits)}, block{splats(sa, bits), packed(sb, bits, 0)})
	}
	if L > 2 {
		bl = append(bl, block{packed(sa, bits, 1), packed(sb, bits, 3)})
	}
	sp := specials(bits)
	bl = append(bl, block{sp, sp})
	return bl
}

// immediates lists the immediates to generate for the instruction (deterministic part).
func immediates(op *refnum.Op) [][]byte {
	switch op.Imm {
	case refnum.ImmLane:
		var out [][]byte
		for l := 0; l < op.ImmLanes; l++ {
			out = append(out, []byte{byte(l)})
		}
		return out
	case refnum.ImmShuffle:
		mk := func(f func(i int) int) []byte {
			b := make([]byte, 16)
			for i := range b {
				b[i] = byte(f(i) & 31)
			}
			return b
		}
		out := [][]byte{
			mk(func(i int) int { return i }), mk(func(i int) int { return i + 16 }), mk(func(i int) int { return 15 - i }),
			mk(func(i int) int { return 31 - i }), mk(func(i int) int { return 0 }), mk(func(i int) int { return 31 }),
			mk(func(i int) int { return 2 * i }), mk(func(i int) int { return 2*i + 1 }), // even / odd bytes (unzip)
			mk(func(i int) int { return i/2 + 16*(i%2) }), mk(func(i int) int { return 8 + i/2 + 16*(i%2) }), // interleave low / high
			mk(func(i int) int { return i + 1 }), mk(func(i int) int { return i + 8 }), mk(func(i int) int { return i + 15 }), // byte rotations across both inputs
			mk(func(i int) int { return i%4 + 4 }), mk(func(i int) int { return i%8 + 16 }), mk(func(i int) int { return i &^ 1 }),
			mk(func(i int) int { return (i/4)*4 + 3 - i%4 }), mk(func(i int) int { return i ^ 16*(i%2) }),
		}
		x := uint64(0x243f6a8885a308d3)
		for n := 0; n < 30; n++ {
			b := make([]byte, 16)
			for i := range b {
				x = x*6364136223846793005 + 1442695040888963407
				b[i] = byte(x>>59) & 31
			}
			out = append(out, b)
		}
		return out
	}
	return [][]byte{nil}
}

// ---- random operands (all randomness comes from rapid draws) ----

func fracBits(p refnum.Param) (frac uint, isFloat bool) {
	switch p.S {
	case refnum.SFloat:
		if p.T == refnum.F32 {
			return 23, true
		}
		return 52, true
	case refnum.SF32x4:
		return 23, true
	case refnum.SF64x2:
		return 52, true
	}
	return 0, false
}

// randLane derives one lane value from two drawn words.
func randLane(p refnum.Param, bits int, mode, r uint64) uint64 {
	set := laneSet(p)
	m := ^uint64(0)
	if bits < 64 {
		m = 1<<uint(bits) - 1
	}
	switch mode % 4 {
	case 0: // the drawn word as is (rapid favours small and boundary magnitudes)
		return r & m
	case 1: // uniformly distributed bits: a bijective mix of the drawn word
		r = (r ^ r>>30) * 0xbf58476d1ce4e5b9
		r = (r ^ r>>27) * 0x94d049bb133111eb
		return (r ^ r>>31) & m
	case 2:
		return set[r%uint64(len(set))] & m
	}
	b := set[r%uint64(len(set))]
	if fb, isF := fracBits(p); isF { // boundary's sign and exponent, random fraction
		fm := uint64(1)<<fb - 1
		if mode>>2&1 == 0 {
			return (b&^fm | (r>>8)&fm) & m
		}
		return (b + (r>>8)%5 - 2) & m // neighbours in ulps
	}
	return (b + (r>>8)%5 - 2) & m
}

func drawOperand(t *rapid.T, p refnum.Param, words []uint64) V {
	// words: 2 per lane (mode, value), up to 16 lanes -> 32 words
	if p.T != refnum.V128 {
		bits := 64
		if p.T == refnum.I32 || p.T == refnum.F32 {
			bits = 32
		}
		return V{randLane(p, bits, words[0], words[1]), 0}
	}
	bits := p.S.LaneBits()
	L := 128 / bits
	var v V
	for l := 0; l < L; l++ {
		refnum.SetLane(&v, bits, l, randLane(p, bits, words[2*l], words[2*l+1]))
	}
	return v
}

// drawTuples draws n operand tuples for the instruction.
func drawTuples(t *rapid.T, op *refnum.Op, n int) []V {
	per := 0
	for _, p := range op.Params {
		if p.T == refnum.V128 {
			per += 2 * (128 / p.S.LaneBits())
		} else {
			per += 2
		}
	}
	words := rapid.SliceOfN(rapid.Uint64(), n*per, n*per).Draw(t, "words")
	out := make([]V, 0, n*len(op.Params))
	w := 0
	for i := 0; i < n; i++ {
		for _, p := range op.Params {
			k := 2
			if p.T == refnum.V128 {
				k = 2 * (128 / p.S.LaneBits())
			}
			out = append(out, drawOperand(t, p, words[w:w+k]))
			w += k
		}
	}
	return out
}

func drawImm(t *rapid.T, op *refnum.Op) []byte {
	switch op.Imm {
	case refnum.ImmLane:
		return []byte{byte(rapid.IntRange(0, op.ImmLanes-1).Draw(t, "lane"))}
	case refnum.ImmShuffle:
		return rapid.SliceOfN(rapid.ByteRange(0, 31), 16, 16).Draw(t, "shuffle")
	}
	return nil
}
