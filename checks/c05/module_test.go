package c05

import (
	"context"
	"encoding/binary"
	"encoding/hex"
	"fmt"
	"strconv"
	"strings"

	"github.com/tetratelabs/wazero"
	"github.com/tetratelabs/wazero/api"

	"verif/internal/evid"
	"verif/internal/refnum"
	"verif/internal/wasmenc"
	"verif/internal/wz"
)

// Operand-source variants:
//
//	param    every operand is a function parameter (v128: two i64 assembled by splat/replace_lane)
//	keep     like param, but every operand is held in a local and read again after the instruction;
//	         the function compares it with the copy in memory: operands must survive the instruction
//	mem      every operand is loaded from memory right before the instruction
//	mem<i>   operand i is loaded from memory right before the instruction, the others are parameters
//	const<i> operand i is an immediate constant (T.const / v128.const), the others are parameters
//	splat0   operand 0 is <shape>.splat of a scalar parameter, the others are loaded from memory
const (
	vParam  = "param"
	vKeep   = "keep"
	vMem    = "mem"
	vSplat0 = "splat0"
)

func constVariant(i int) string { return "const" + strconv.Itoa(i) }
func memVariant(i int) string   { return "mem" + strconv.Itoa(i) }

// constIdx returns the operand index that is an immediate in the variant, or -1.
func constIdx(variant string) int {
	if strings.HasPrefix(variant, "const") {
		n, _ := strconv.Atoi(variant[5:])
		return n
	}
	return -1
}

// sources gives the source of each operand: 'p' parameter, 'k' parameter kept in a local and
// re-read, 'm' memory, 'c' constant, 's' splat.
func sources(variant string, n int) []byte {
	src := make([]byte, n)
	fill := func(c byte) {
		for i := range src {
			src[i] = c
		}
	}
	fill('p')
	switch {
	case variant == vParam:
	case variant == vKeep:
		fill('k')
	case variant == vMem:
		fill('m')
	case variant == vSplat0:
		fill('m')
		src[0] = 's'
	case strings.HasPrefix(variant, "mem"):
		i, _ := strconv.Atoi(variant[3:])
		if i < n {
			src[i] = 'm'
		}
	case strings.HasPrefix(variant, "const"):
		i, _ := strconv.Atoi(variant[5:])
		if i < n {
			src[i] = 'c'
		}
	}
	return src
}

// hasAddr: the function's first parameter is the address of the tuple's operand slots.
func hasAddr(src []byte) bool {
	for _, c := range src {
		if c == 'm' || c == 'k' {
			return true
		}
	}
	return false
}

// variantsOf lists the variants generated for an instruction.
func variantsOf(op *refnum.Op) []string {
	v := []string{vParam, vKeep, vMem}
	if len(op.Params) > 1 {
		for i := range op.Params {
			v = append(v, memVariant(i))
		}
	}
	for i := range op.Params {
		v = append(v, constVariant(i))
	}
	return v
}

// splatOf: scalar type and splat sub-opcode for a vector shape.
func splatOf(s refnum.Shape) (byte, uint32) {
	switch s.LaneBits() {
	case 8:
		return wasmenc.I32, 0x0f
	case 16:
		return wasmenc.I32, 0x10
	case 32:
		return wasmenc.I32, 0x11
	}
	return wasmenc.I64, 0x12
}

// funcParams is the flattened parameter list of the one-instruction function.
func funcParams(op *refnum.Op, src []byte) []byte {
	var fp []byte
	if hasAddr(src) {
		fp = append(fp, wasmenc.I32)
	}
	for j, p := range op.Params {
		switch src[j] {
		case 'p', 'k':
			if p.T == refnum.V128 {
				fp = append(fp, wasmenc.I64, wasmenc.I64)
			} else {
				fp = append(fp, byte(p.T))
			}
		case 's':
			t, _ := splatOf(p.S)
			fp = append(fp, t)
		}
	}
	if hasSel(op) {
		fp = append(fp, wasmenc.I32, wasmenc.I32)
	}
	return fp
}

// instance is one generated one-instruction function: the instruction's lane / shuffle
// immediate, (const variants) the constant operand, and the decoration: bit 0 = code using
// pooled constants (v128.const, swizzle and shift masks, q15mulr) before the instruction,
// bit 1 = the same after it. The decoration only writes to a scratch area.
type instance struct {
	Imm   []byte
	Const refnum.V
	Deco  int
	Ctx   int // consumer context of an i32 result, see ctxNames
}

// Consumer contexts (instructions with an i32 result): instead of being returned, the result
// is consumed directly (single use, same block) by a control or select instruction, so that
// a back end may fuse the instruction with its consumer (compare-and-branch, TEST/CMP forms).
// The function then returns selA or selB; with r the specified result:
//
//	1 br_if     block: i32.const selA; r; br_if 0; drop; i32.const selB     -> r != 0 ? selA : selB
//	2 if        r; if selA else selB                                        -> r != 0 ? selA : selB
//	3 select    x; y; r; select   (x, y are parameters holding selA, selB)  -> r != 0 ? selA : selB
//	4 eqz_br_if like 1 with i32.eqz between r and br_if                     -> r == 0 ? selA : selB
//	5 eqz_if    like 2 with i32.eqz between r and if                        -> r == 0 ? selA : selB
var ctxNames = []string{"", "br_if", "if", "select", "eqz_br_if", "eqz_if"}

const (
	selA = 0x5a5a0001
	selB = 0x2b2b0002
)

// hasSel: functions of these instructions take two extra i32 parameters (selA, selB).
func hasSel(op *refnum.Op) bool { return op.Result.T == refnum.I32 }

// expect is the specified outcome of function f on the operands.
func expect(f fn, args []refnum.V) refnum.Res {
	want := f.op.Eval(args, f.in.Imm)
	if f.in.Ctx != 0 && want.Trap == "" && hasSel(f.op) {
		cond := uint32(want.V[0]) != 0
		if f.in.Ctx >= 4 {
			cond = !cond
		}
		want.V = refnum.V{selB, 0}
		if cond {
			want.V[0] = selA
		}
	}
	return want
}

// fn is one function of a generated module.
type fn struct {
	op      *refnum.Op
	variant string
	in      instance
}

const (
	inBase    = 0
	maxChunk  = 8192
	slotBytes = 16 // one operand slot
	outBytes  = 32 // one result slot: the result (16 bytes), the flags word at +16
)

// memory layout: operand area at 0 (three 16-byte slots per tuple at most), result area behind
// it, the last 64 bytes are scratch. Modules that evaluate few tuples per call get a one-page
// memory (instantiation zeroes it).
func layout(small bool) (pages uint32, outBase uint32, chunk int) {
	if small {
		return 1, 0x8000, 680
	}
	return 11, 0x60000, maxChunk // also room for the 16-bit sweep: 128 KiB in, 128 KiB out
}

func scratchAddr(small bool) int32 {
	pages, _, _ := layout(small)
	return int32(pages*65536 - 16)
}

// The flags word every generated function returns besides its result (all bits must be 0):
//
// bits 0..10, instructions with an i32 or f32 result (canonical-slot probe): x = r (f32:
// i32.reinterpret_f32 r), y = the value reloaded after storing r to memory (a store writes
// exactly the low 32 bits); every consumer must see x as it sees y:
//
//	bit0 i32.ne(x,y)  bit1 i32.lt_u(x,y)  bit2 i32.gt_u(x,y)  bit3 !i32.le_u(x,y)  bit4 !i32.ge_u(x,y)
//	bit5 !i32.eq(x,y) bit6 i64.extend_i32_u differs  bit7 i64.extend_i32_s differs
//	bit8 i32.xor(x,y)!=0  bit9 i32.sub(x,y)!=0  bit10 i32.eqz differs
//
// bits 16+j, keep variant: operand j, read again after the instruction, differs (bitwise) from
// its copy in memory.
func hasCanon(op *refnum.Op) bool { return op.Result.T == refnum.I32 || op.Result.T == refnum.F32 }

// canonProbe expects r in local tmp and leaves the probe flags on the stack.
func canonProbe(b *wasmenc.B, t refnum.Type, tmp, x, y uint32, scratch int32) {
	b.LocalGet(tmp)
	if t == refnum.F32 {
		b.Raw(wasmenc.OpI32ReinterpretF32)
	}
	b.LocalSet(x)
	b.I32Const(scratch).LocalGet(tmp)
	if t == refnum.F32 {
		b.Mem(wasmenc.OpF32Store, 2, 0)
	} else {
		b.Mem(wasmenc.OpI32Store, 2, 0)
	}
	b.I32Const(scratch).Mem(wasmenc.OpI32Load, 2, 0).LocalSet(y)
	xy := func() *wasmenc.B { return b.LocalGet(x).LocalGet(y) }
	or := func(bit int32) { b.I32Const(bit).Raw(wasmenc.OpI32Shl, wasmenc.OpI32Or) }
	xy().Raw(wasmenc.OpI32Ne)
	xy().Raw(wasmenc.OpI32LtU)
	or(1)
	xy().Raw(wasmenc.OpI32GtU)
	or(2)
	xy().Raw(wasmenc.OpI32LeU, wasmenc.OpI32Eqz)
	or(3)
	xy().Raw(wasmenc.OpI32GeU, wasmenc.OpI32Eqz)
	or(4)
	xy().Raw(wasmenc.OpI32Eq, wasmenc.OpI32Eqz)
	or(5)
	b.LocalGet(x).Raw(wasmenc.OpI64ExtendI32U).LocalGet(y).Raw(wasmenc.OpI64ExtendI32U, wasmenc.OpI64Ne)
	or(6)
	b.LocalGet(x).Raw(wasmenc.OpI64ExtendI32S).LocalGet(y).Raw(wasmenc.OpI64ExtendI32S, wasmenc.OpI64Ne)
	or(7)
	xy().Raw(wasmenc.OpI32Xor).I32Const(0).Raw(wasmenc.OpI32Ne)
	or(8)
	xy().Raw(wasmenc.OpI32Sub).I32Const(0).Raw(wasmenc.OpI32Ne)
	or(9)
	b.LocalGet(x).Raw(wasmenc.OpI32Eqz).LocalGet(y).Raw(wasmenc.OpI32Eqz, wasmenc.OpI32Ne)
	or(10)
}

// poolNoise emits stack-neutral code that makes the compiler pool several 128-bit constants
// (three v128.const, the swizzle mask, the i8x16 shift mask tables) next to the instruction
// under test and stores the outcome to scratch memory so that it is not dead. It deliberately
// uses only a few generic instructions: whether an instruction's own cached per-function state
// leaks is tested by repeating that instruction in several functions of a module.
func poolNoise(b *wasmenc.B, scratch int32, salt uint64) {
	addr := scratch - 48
	b.I32Const(addr)
	b.V128Const(0x0706050403020100^salt, 0x0f0e0d0c0b0a0908+salt)
	b.V128Const(0x8010070000ff100f, 0x0102030405060708^salt)
	b.FD(0x0e)             // i8x16.swizzle
	b.I32Const(3).FD(0x6b) // i8x16.shl
	b.I32Const(1).FD(0x6d) // i8x16.shr_u
	b.V128Const(0x80007fff40008000, 0x00017fff80008000^salt)
	b.FD(0x51)          // v128.xor
	b.FDMem(0x0b, 4, 0) // v128.store
	b.I32Const(addr).F64(1.2345678).Mem(wasmenc.OpF64Store, 3, 16)
	b.I32Const(addr).F32(7.25).Mem(wasmenc.OpF32Store, 2, 24)
}

func flatTypes(p refnum.Param) []byte {
	if p.T == refnum.V128 {
		return []byte{wasmenc.I64, wasmenc.I64}
	}
	return []byte{byte(p.T)}
}

func loadOp(t refnum.Type) (op byte, align uint32) {
	switch t {
	case refnum.I32:
		return wasmenc.OpI32Load, 2
	case refnum.I64:
		return wasmenc.OpI64Load, 3
	case refnum.F32:
		return wasmenc.OpF32Load, 2
	}
	return wasmenc.OpF64Load, 3
}

func storeOp(t byte) (op byte, align uint32) {
	switch t {
	case wasmenc.I32:
		return wasmenc.OpI32Store, 2
	case wasmenc.I64:
		return wasmenc.OpI64Store, 3
	case wasmenc.F32:
		return wasmenc.OpF32Store, 2
	}
	return wasmenc.OpF64Store, 3
}

func pushConst(b *wasmenc.B, t refnum.Type, v refnum.V) {
	switch t {
	case refnum.I32:
		b.I32Const(int32(uint32(v[0])))
	case refnum.I64:
		b.I64Const(int64(v[0]))
	case refnum.F32:
		b.F32Const(uint32(v[0]))
	case refnum.F64:
		b.F64Const(v[0])
	default:
		b.V128Const(v[0], v[1])
	}
}

// funcResults: the flattened result followed by the flags word.
func funcResults(op *refnum.Op) []byte { return append(flatTypes(op.Result), wasmenc.I32) }

// emitFunc generates the body of one function.
func emitFunc(f fn, k int, small bool) (fp, fr, locals, body []byte) {
	op := f.op
	src := sources(f.variant, len(op.Params))
	fp = funcParams(op, src)
	fr = funcResults(op)
	scratch := scratchAddr(small)
	newLocal := func(t byte) uint32 {
		locals = append(locals, t)
		return uint32(len(fp) + len(locals) - 1)
	}
	b := wasmenc.NewB()
	param := uint32(0)
	if hasAddr(src) {
		param = 1
	}
	// kept operands live in locals (scalars: the parameter itself)
	kept := make([]uint32, len(op.Params))
	pidx := make([]uint32, len(op.Params))
	for j, p := range op.Params {
		switch src[j] {
		case 'p', 'k':
			pidx[j] = param
			if p.T == refnum.V128 {
				param += 2
			} else {
				param++
			}
			if src[j] == 'k' {
				kept[j] = pidx[j]
				if p.T == refnum.V128 {
					kept[j] = newLocal(wasmenc.V128)
					b.LocalGet(pidx[j]).FD(0x12).LocalGet(pidx[j]+1).FD(0x1e, 1).LocalSet(kept[j])
				}
			}
		case 's':
			pidx[j] = param
			param++
		}
	}
	if f.in.Deco&1 != 0 {
		poolNoise(b, scratch, uint64(k)*0x0101010101010101)
	}
	ctx := 0
	if hasSel(op) {
		ctx = f.in.Ctx
	}
	switch ctx {
	case 1, 4:
		b.Block(wasmenc.I32).I32Const(selA)
	case 3:
		b.LocalGet(param).LocalGet(param + 1) // the two extra parameters
	}
	for j, p := range op.Params {
		switch src[j] {
		case 'c':
			pushConst(b, p.T, f.in.Const)
		case 'm':
			b.LocalGet(0)
			if p.T == refnum.V128 {
				b.FDMem(0, 4, uint32(slotBytes*j))
			} else {
				o, al := loadOp(p.T)
				b.Mem(o, al, uint32(slotBytes*j))
			}
		case 's':
			_, sp := splatOf(p.S)
			b.LocalGet(pidx[j]).FD(sp)
		case 'k':
			b.LocalGet(kept[j])
		default:
			if p.T == refnum.V128 {
				b.LocalGet(pidx[j]).FD(0x12)      // i64x2.splat
				b.LocalGet(pidx[j]+1).FD(0x1e, 1) // i64x2.replace_lane 1
			} else {
				b.LocalGet(pidx[j])
			}
		}
	}
	b.Append(op.Enc).Raw(f.in.Imm...)
	switch ctx {
	case 1:
		b.BrIf(0).Drop().I32Const(selB).End()
	case 4:
		b.Raw(wasmenc.OpI32Eqz).BrIf(0).Drop().I32Const(selB).End()
	case 2:
		b.If(wasmenc.I32).I32Const(selA).Else().I32Const(selB).End()
	case 5:
		b.Raw(wasmenc.OpI32Eqz).If(wasmenc.I32).I32Const(selA).Else().I32Const(selB).End()
	case 3:
		b.Select()
	}
	var rt byte = byte(op.Result.T)
	res := newLocal(rt)
	flags := newLocal(wasmenc.I32)
	b.LocalSet(res)
	if f.in.Deco&2 != 0 {
		poolNoise(b, scratch, uint64(k)*0x0202020202020202+1)
	}
	if hasCanon(op) {
		x, y := newLocal(wasmenc.I32), newLocal(wasmenc.I32)
		canonProbe(b, op.Result.T, res, x, y, scratch)
		b.LocalSet(flags)
	}
	for j, p := range op.Params {
		if src[j] != 'k' {
			continue
		}
		off := uint32(slotBytes * j)
		b.LocalGet(kept[j])
		switch p.T {
		case refnum.I32:
			b.LocalGet(0).Mem(wasmenc.OpI32Load, 2, off).Raw(wasmenc.OpI32Ne)
		case refnum.I64:
			b.LocalGet(0).Mem(wasmenc.OpI64Load, 3, off).Raw(wasmenc.OpI64Ne)
		case refnum.F32:
			b.Raw(wasmenc.OpI32ReinterpretF32).LocalGet(0).Mem(wasmenc.OpI32Load, 2, off).Raw(wasmenc.OpI32Ne)
		case refnum.F64:
			b.Raw(wasmenc.OpI64ReinterpretF64).LocalGet(0).Mem(wasmenc.OpI64Load, 3, off).Raw(wasmenc.OpI64Ne)
		default:
			b.LocalGet(0).FDMem(0, 4, off).FD(0x51).FD(0x53) // v128.xor, v128.any_true
		}
		b.I32Const(int32(16 + j)).Raw(wasmenc.OpI32Shl).LocalGet(flags).Raw(wasmenc.OpI32Or).LocalSet(flags)
	}
	if op.Result.T == refnum.V128 {
		b.LocalGet(res).FD(0x1d, 0).LocalGet(res).FD(0x1d, 1)
	} else {
		b.LocalGet(res)
	}
	b.LocalGet(flags)
	return fp, fr, locals, b.Bytes()
}

func homogeneous(fns []fn) bool {
	for _, f := range fns[1:] {
		if f.op != fns[0].op || f.variant != fns[0].variant {
			return false
		}
	}
	return true
}

// buildModule generates the guest:
//
//	f<k>  : function k (exported; v128 values travel as two i64; last result = flags word)
//	run   : only when all functions share (opcode, variant): (k, n) loops over n operand tuples in
//	        memory at inBase (one 16-byte slot per operand), calls f<k> through the table and
//	        stores result and flags at outBase + 32*i
//	sweep : splat0 modules, see below
func buildModule(fns []fn, small bool) []byte {
	m := &wasmenc.Module{}
	memPages, outBase, _ := layout(small)
	m.Mems = [][]byte{wasmenc.Limits(memPages, int64(memPages), false)}
	m.Exports = append(m.Exports, wasmenc.Export{Name: "mem", Kind: wasmenc.KMem, Idx: 0})
	m.Tables = [][]byte{wasmenc.TableType(wasmenc.FuncRef, uint32(len(fns)), int64(len(fns)))}
	var fidx []uint32
	for k, f := range fns {
		fp, fr, locals, body := emitFunc(f, k, small)
		idx := m.AddFunc(fp, fr, locals, body)
		m.ExportFunc("f"+strconv.Itoa(k), idx)
		fidx = append(fidx, idx)
	}
	m.Elems = [][]byte{wasmenc.ActiveElemFuncs(0, fidx)}
	if !homogeneous(fns) {
		return m.Encode()
	}
	op, variant := fns[0].op, fns[0].variant
	src := sources(variant, len(op.Params))
	fr := funcResults(op)
	ft := m.AddType(funcParams(op, src), fr)
	// run(k, n): locals 2=i 3=pin 4=pout 5..=result temps
	stride := int32(slotBytes * len(op.Params))
	b := wasmenc.NewB()
	b.I32Const(int32(outBase)).LocalSet(4)
	b.Block().Loop()
	b.LocalGet(2).LocalGet(1).Raw(wasmenc.OpI32GeU).BrIf(1)
	if hasAddr(src) {
		b.LocalGet(3)
	}
	for j, p := range op.Params {
		switch src[j] {
		case 'p', 'k':
			if p.T == refnum.V128 {
				b.LocalGet(3).Mem(wasmenc.OpI64Load, 3, uint32(slotBytes*j))
				b.LocalGet(3).Mem(wasmenc.OpI64Load, 3, uint32(slotBytes*j+8))
			} else {
				o, al := loadOp(p.T)
				b.LocalGet(3).Mem(o, al, uint32(slotBytes*j))
			}
		case 's': // the scalar is lane 0 of the operand's slot
			if t, _ := splatOf(p.S); t == wasmenc.I64 {
				b.LocalGet(3).Mem(wasmenc.OpI64Load, 3, uint32(slotBytes*j))
			} else {
				b.LocalGet(3).Mem(wasmenc.OpI32Load, 2, uint32(slotBytes*j))
			}
		}
	}
	if hasSel(op) {
		b.I32Const(selA).I32Const(selB)
	}
	b.LocalGet(0).CallIndirect(ft, 0)
	for r := len(fr) - 1; r >= 0; r-- {
		b.LocalSet(uint32(5 + r))
	}
	for r := range fr {
		o, al := storeOp(fr[r])
		off := uint32(8 * r)
		if r == len(fr)-1 {
			off = 16 // the flags word
		}
		b.LocalGet(4).LocalGet(uint32(5+r)).Mem(o, al, off)
	}
	b.LocalGet(3).I32Const(stride).Raw(wasmenc.OpI32Add).LocalSet(3)
	b.LocalGet(4).I32Const(outBytes).Raw(wasmenc.OpI32Add).LocalSet(4)
	b.LocalGet(2).I32Const(1).Raw(wasmenc.OpI32Add).LocalSet(2)
	b.Br(0).End().End()
	run := m.AddFunc([]byte{wasmenc.I32, wasmenc.I32}, nil, append([]byte{wasmenc.I32, wasmenc.I32, wasmenc.I32}, fr...), b.Bytes())
	m.ExportFunc("run", run)
	// sweep(x, n): (splat0 modules of two-operand instructions) for byte offsets j < n step 16:
	//   out[j] = op(splat(x), v128.load(in + j))   -- operand 1 vectors are packed 16 bytes apart
	if variant == vSplat0 && len(op.Params) == 2 && op.Result.T == refnum.V128 && op.Imm == refnum.ImmNone {
		t, sp := splatOf(op.Params[0].S)
		b := wasmenc.NewB() // locals: 0=x 1=n 2=j(byte offset) 3=v(splat)
		b.LocalGet(0).FD(sp).LocalSet(3)
		b.Block().Loop()
		b.LocalGet(2).LocalGet(1).Raw(wasmenc.OpI32GeU).BrIf(1)
		b.LocalGet(2)
		b.LocalGet(3).LocalGet(2).FDMem(0, 4, inBase).Append(op.Enc)
		b.FDMem(0x0b, 4, outBase) // v128.store
		b.LocalGet(2).I32Const(16).Raw(wasmenc.OpI32Add).LocalSet(2)
		b.Br(0).End().End()
		sw := m.AddFunc([]byte{t, wasmenc.I32}, nil, []byte{wasmenc.I32, wasmenc.V128}, b.Bytes())
		m.ExportFunc("sweep", sw)
	}
	return m.Encode()
}

// ---- runtime side ----

var (
	ctx      = context.Background()
	runtimes = map[string]wazero.Runtime{}
)

func runtimeFor(engine string) wazero.Runtime {
	if r, ok := runtimes[engine]; ok {
		return r
	}
	r := wazero.NewRuntimeWithConfig(ctx, wz.Config(engine))
	runtimes[engine] = r
	return r
}

type loaded struct {
	fns     []fn
	engine  string
	cm      wazero.CompiledModule
	mod     api.Module
	run     api.Function
	fs      []api.Function
	inBuf   []byte
	outBase uint32
	chunk   int
}

// same builds the function list of a module whose functions share opcode and variant.
func same(op *refnum.Op, variant string, insts []instance) []fn {
	fns := make([]fn, len(insts))
	for i, in := range insts {
		fns[i] = fn{op, variant, in}
	}
	return fns
}

// load compiles and instantiates the module of the functions. A failure (error or panic of
// the compiler) of these valid modules is a violation; the returned error says so.
func load(fns []fn, engine string, small bool) (l *loaded, err error) {
	bin := buildModule(fns, small)
	// a compiler crash that kills the process is attributed to this module by the driver
	evid.Journal(moduleCase(fns, engine))
	rt := runtimeFor(engine)
	var cm wazero.CompiledModule
	var mod api.Module
	e, panicked := wz.Safely(func() error {
		var err error
		if cm, err = rt.CompileModule(ctx, bin); err != nil {
			return err
		}
		mod, err = rt.InstantiateModule(ctx, cm, wazero.NewModuleConfig().WithName(""))
		return err
	})
	if panicked != nil {
		e = fmt.Errorf("panic: %v", panicked)
	}
	if e != nil {
		if cm != nil {
			cm.Close(ctx)
		}
		first := strings.SplitN(e.Error(), "\n", 2)[0]
		return nil, fmt.Errorf("valid module of %d one-instruction functions (%s) rejected on %s: %s", len(fns), describeFns(fns), engine, first)
	}
	l = &loaded{fns: fns, engine: engine, cm: cm, mod: mod, run: mod.ExportedFunction("run")}
	_, l.outBase, l.chunk = layout(small)
	for k := range fns {
		l.fs = append(l.fs, mod.ExportedFunction("f"+strconv.Itoa(k)))
	}
	return l, nil
}

func describeFns(fns []fn) string {
	var sb strings.Builder
	for i, f := range fns {
		if i > 0 {
			sb.WriteString(", ")
		}
		if i >= 6 {
			fmt.Fprintf(&sb, "... %d more", len(fns)-i)
			break
		}
		fmt.Fprintf(&sb, "%s/%s", f.op.Name, f.variant)
		if f.in.Deco != 0 {
			fmt.Fprintf(&sb, "/deco%d", f.in.Deco)
		}
		if f.in.Ctx != 0 && hasSel(f.op) {
			fmt.Fprintf(&sb, "/%s", ctxNames[f.in.Ctx])
		}
	}
	return sb.String()
}

func (l *loaded) close() {
	l.mod.Close(ctx)
	l.cm.Close(ctx)
}

// outcome of one evaluation on wazero
type observed struct {
	V     refnum.V
	Flags uint32 // the function's flags word (0 = all in-guest probes agree)
	Trap  string // "" or the trap kind; any other failure is rendered as "!<kind>:<detail>"
}

func (o observed) String(op *refnum.Op) string {
	if o.Trap != "" {
		return "trap(" + o.Trap + ")"
	}
	s := op.FormatV(op.Result, o.V)
	if o.Flags&0xffff != 0 {
		s += fmt.Sprintf(" held in a non-canonical 32-bit slot (in-guest consumers disagree with the stored/reloaded value: probe flags %#x)", o.Flags&0xffff)
	}
	for j := 0; j < 3; j++ {
		if o.Flags>>(16+uint(j))&1 != 0 {
			s += fmt.Sprintf("; operand %d was CHANGED by the instruction (read again afterwards it differs from its copy in memory)", j)
		}
	}
	return s
}

// direct calls f<k> once with the tuple's operands.
func (l *loaded) direct(k int, args []refnum.V) observed {
	f := l.fns[k]
	var flat []uint64
	src := sources(f.variant, len(args))
	if hasAddr(src) {
		buf := make([]byte, slotBytes*len(args))
		for j, a := range args {
			binary.LittleEndian.PutUint64(buf[slotBytes*j:], a[0])
			binary.LittleEndian.PutUint64(buf[slotBytes*j+8:], a[1])
		}
		l.mod.Memory().Write(inBase, buf)
		flat = []uint64{inBase}
	}
	for j, p := range f.op.Params {
		switch src[j] {
		case 'p', 'k':
			if p.T == refnum.V128 {
				flat = append(flat, args[j][0], args[j][1])
			} else if p.T == refnum.I32 || p.T == refnum.F32 {
				flat = append(flat, args[j][0]&0xffffffff)
			} else {
				flat = append(flat, args[j][0])
			}
		case 's':
			bits := p.S.LaneBits()
			x := args[j][0]
			if bits < 64 {
				x &= 1<<uint(bits) - 1
			}
			flat = append(flat, x)
		}
	}
	if hasSel(f.op) {
		flat = append(flat, selA, selB)
	}
	res, out := wz.SafeCall(ctx, l.fs[k], flat...)
	switch out.Kind {
	case wz.KOK:
		var o observed
		copy(o.V[:], res[:len(res)-1])
		o.Flags = uint32(res[len(res)-1])
		return o
	case wz.KTrap:
		return observed{Trap: out.Detail}
	}
	return observed{Trap: "!" + out.String()}
}

// bulk evaluates n tuples (args laid out tuple-major) through run(k,n) and returns the raw
// result area, or an error when the guest did not complete.
func (l *loaded) bulk(k int, tuples []refnum.V, n int) ([]byte, error) {
	ar := len(l.fns[k].op.Params)
	need := n * ar * slotBytes
	if cap(l.inBuf) < need {
		l.inBuf = make([]byte, need)
	}
	buf := l.inBuf[:need]
	for i := 0; i < n*ar; i++ {
		binary.LittleEndian.PutUint64(buf[i*16:], tuples[i][0])
		binary.LittleEndian.PutUint64(buf[i*16+8:], tuples[i][1])
	}
	mem := l.mod.Memory()
	if !mem.Write(inBase, buf) {
		return nil, fmt.Errorf("harness: in-area write failed")
	}
	if l.run == nil {
		return nil, fmt.Errorf("harness: module has no run loop")
	}
	if _, out := wz.SafeCall(ctx, l.run, uint64(k), uint64(n)); out.Kind != wz.KOK {
		return nil, fmt.Errorf("%s", out.String())
	}
	res, ok := mem.Read(l.outBase, uint32(n*outBytes))
	if !ok {
		return nil, fmt.Errorf("harness: out-area read failed")
	}
	return res, nil
}

// slot decodes result i of the result area.
func slot(res []byte, i int) observed {
	o := i * outBytes
	return observed{V: refnum.V{binary.LittleEndian.Uint64(res[o:]), binary.LittleEndian.Uint64(res[o+8:])},
		Flags: binary.LittleEndian.Uint32(res[o+16:])}
}

// ---- replayable case ----

// FnSpec is the replay form of one function of a module.
type FnSpec struct {
	Op      string `json:"op"`
	Variant string `json:"variant"`
	Imm     string `json:"imm,omitempty"`
	Const   string `json:"const,omitempty"`
	Deco    int    `json:"deco,omitempty"`
	Ctx     int    `json:"ctx,omitempty"` // consumer context 1..5 (br_if, if, select, eqz_br_if, eqz_if)
}

// Case is the replay form of one evaluation.
type Case struct {
	Op       string   `json:"op"`
	Variant  string   `json:"variant"`
	Engine   string   `json:"engine"`
	Imm      string   `json:"imm,omitempty"` // hex of the lane / shuffle immediate
	Deco     int      `json:"deco,omitempty"`
	Ctx      int      `json:"ctx,omitempty"` // consumer context 1..5 (br_if, if, select, eqz_br_if, eqz_if): expected/got are the selected constants
	Args     []string `json:"args"`          // one "lo" or "lo:hi" hex per operand (const operand included)
	Expected string   `json:"expected"`
	Got      string   `json:"got"`
	// ViaLoop: the wrong result was only seen through the in-guest loop ("run": the generic
	// loop calling the one-instruction function, "sweep": the 16-bit sweep loop); replay then
	// goes the same way.
	ViaLoop string `json:"via_loop,omitempty"`
	// Module: when the failure needs the other functions of the generated module (compiler
	// state leaking from one function to the next), all functions of the module in order;
	// Index is the function the case is about. Without Args the case is "the module compiles".
	Module []FnSpec `json:"module,omitempty"`
	Index  int      `json:"index,omitempty"`
	// Seq: a sequence function (several instructions in one function, see seq_test.go) with the
	// operands of the failing call; Seqs: all sequence functions of a module that does not compile.
	Seq  *SeqSpec  `json:"seq,omitempty"`
	Seqs []SeqSpec `json:"seqs,omitempty"`
}

func fmtV(p refnum.Param, v refnum.V) string {
	if p.T == refnum.V128 {
		return fmt.Sprintf("%016x:%016x", v[0], v[1])
	}
	if p.T == refnum.I32 || p.T == refnum.F32 {
		return fmt.Sprintf("%08x", uint32(v[0]))
	}
	return fmt.Sprintf("%016x", v[0])
}

func parseV(s string) (refnum.V, error) {
	var v refnum.V
	parts := strings.Split(s, ":")
	for i, p := range parts {
		if i > 1 {
			break
		}
		x, err := strconv.ParseUint(p, 16, 64)
		if err != nil {
			return v, err
		}
		v[i] = x
	}
	return v, nil
}

func specOf(f fn) FnSpec {
	s := FnSpec{Op: f.op.Name, Variant: f.variant, Imm: hex.EncodeToString(f.in.Imm), Deco: f.in.Deco, Ctx: f.in.Ctx}
	if ci := constIdx(f.variant); ci >= 0 && ci < len(f.op.Params) {
		s.Const = fmtV(f.op.Params[ci], f.in.Const)
	}
	return s
}

func fnOf(s FnSpec) (fn, error) {
	op := refnum.ByName(s.Op)
	if op == nil {
		return fn{}, fmt.Errorf("unknown op %q", s.Op)
	}
	imm, err := hex.DecodeString(s.Imm)
	if err != nil {
		return fn{}, err
	}
	if s.Ctx < 0 || s.Ctx >= len(ctxNames) {
		return fn{}, fmt.Errorf("ctx")
	}
	f := fn{op: op, variant: s.Variant, in: instance{Imm: imm, Deco: s.Deco, Ctx: s.Ctx}}
	if s.Const != "" {
		if f.in.Const, err = parseV(s.Const); err != nil {
			return fn{}, err
		}
	}
	return f, nil
}

func moduleCase(fns []fn, engine string) Case {
	c := Case{Op: fns[0].op.Name, Variant: fns[0].variant, Engine: engine}
	for _, f := range fns {
		c.Module = append(c.Module, specOf(f))
	}
	return c
}

func mkCase(f fn, engine string, args []refnum.V, want refnum.Res, got observed) Case {
	op := f.op
	c := Case{Op: op.Name, Variant: f.variant, Engine: engine, Imm: hex.EncodeToString(f.in.Imm), Deco: f.in.Deco, Ctx: f.in.Ctx,
		Expected: op.Describe(want), Got: got.String(op)}
	for j, a := range args {
		c.Args = append(c.Args, fmtV(op.Params[j], a))
	}
	return c
}

// judge compares an observation with the reference outcome.
func judge(op *refnum.Op, want refnum.Res, got observed) bool {
	if want.Trap != "" || got.Trap != "" {
		return want.Trap == got.Trap
	}
	if got.Flags != 0 {
		return false // the result may be right, but a probe inside the guest saw a wrong value
	}
	return op.Match(want, got.V)
}

// execCase re-executes one case from scratch (used by TestReplay and to confirm failures).
func execCase(c Case) (ok bool, msg string, err error) {
	var fns []fn
	idx := 0
	if len(c.Module) > 0 {
		for _, s := range c.Module {
			f, err := fnOf(s)
			if err != nil {
				return false, "", err
			}
			fns = append(fns, f)
		}
		idx = c.Index
		if idx < 0 || idx >= len(fns) {
			return false, "", fmt.Errorf("index")
		}
	} else {
		f, err := fnOf(FnSpec{Op: c.Op, Variant: c.Variant, Imm: c.Imm, Deco: c.Deco, Ctx: c.Ctx})
		if err != nil {
			return false, "", err
		}
		if ci := constIdx(c.Variant); ci >= 0 {
			if ci >= len(c.Args) {
				return false, "", fmt.Errorf("const index")
			}
			if f.in.Const, err = parseV(c.Args[ci]); err != nil {
				return false, "", err
			}
		}
		fns = []fn{f}
	}
	l, lerr := load(fns, c.Engine, c.ViaLoop != "sweep")
	if lerr != nil {
		return false, lerr.Error(), nil // a valid module that does not compile is a violation
	}
	defer l.close()
	if len(c.Args) == 0 {
		return true, "", nil // module-level case: it compiles
	}
	f := fns[idx]
	op := f.op
	if len(c.Args) != len(op.Params) {
		return false, "", fmt.Errorf("arity")
	}
	args := make([]refnum.V, len(c.Args))
	for i, a := range c.Args {
		if args[i], err = parseV(a); err != nil {
			return false, "", err
		}
	}
	imm := f.in.Imm
	want := expect(f, args)
	var got observed
	switch c.ViaLoop {
	case "run":
		if want.Trap != "" {
			return false, "", fmt.Errorf("loop replay of a trapping tuple")
		}
		var rep []refnum.V
		for i := 0; i < 64; i++ {
			rep = append(rep, args...)
		}
		res, err := l.bulk(idx, rep, 64)
		if err != nil {
			got = observed{Trap: "!loop: " + err.Error()}
			break
		}
		for i := 0; i < 64; i++ {
			got = slot(res, i)
			if !judge(op, want, got) {
				break
			}
		}
	case "sweep":
		sw := l.mod.ExportedFunction("sweep")
		if sw == nil || len(args) != 2 {
			return false, "", fmt.Errorf("no sweep function for %s", c.Op)
		}
		in := make([]byte, 131072)
		for y := 0; y < 65536; y++ {
			binary.LittleEndian.PutUint16(in[2*y:], uint16(y))
		}
		j := int(args[1][0]&0xffff) / 8
		binary.LittleEndian.PutUint64(in[16*j:], args[1][0])
		binary.LittleEndian.PutUint64(in[16*j+8:], args[1][1])
		l.mod.Memory().Write(inBase, in)
		if _, out := wz.SafeCall(ctx, sw, args[0][0]&0xffff, 131072); out.Kind != wz.KOK {
			got = observed{Trap: "!" + out.String()}
			break
		}
		res, _ := l.mod.Memory().Read(l.outBase+uint32(16*j), 16)
		got = observed{V: refnum.V{binary.LittleEndian.Uint64(res), binary.LittleEndian.Uint64(res[8:])}}
	default:
		got = l.direct(idx, args)
	}
	if judge(op, want, got) {
		return true, "", nil
	}
	where := ""
	if len(fns) > 1 {
		where = fmt.Sprintf(" as function %d of the module (%s)", idx, describeFns(fns))
	}
	return false, fmt.Sprintf("%s [%s, %s]%s imm=%x args=%v%s: specified %s, wazero returned %s", op.Name, f.variant, c.Engine, ctxNote(f), imm, c.Args, where,
		op.Describe(want), got.String(op)), nil
}

// ctxNote describes the consumer context for messages.
func ctxNote(f fn) string {
	if f.in.Ctx == 0 || !hasSel(f.op) {
		return ""
	}
	return fmt.Sprintf(" result consumed directly by %s (r!=0 selects %#x, else %#x; eqz forms the other way round)", ctxNames[f.in.Ctx], selA, selB)
}

// minimise attaches the module context to a failing case only when the function alone does
// not show the failure.
func minimise(l *loaded, k int, c Case) Case {
	if len(l.fns) == 1 {
		return c
	}
	if ok, _, err := execCase(c); err == nil && !ok {
		return c
	}
	m := moduleCase(l.fns, l.engine)
	c.Module, c.Index = m.Module, k
	return c
}
