package c05

import (
	"context"
	"encoding/binary"
	"encoding/hex"
	"fmt"
	"strconv"
	"strings"

	"github.com/tetratelabs/wazero"
	"github.com/tetratelabs/wazero/api"

	"verif/internal/refnum"
	"verif/internal/wasmenc"
	"verif/internal/wz"
)

// Operand-source variants:
//
//	param    every operand is a function parameter (v128: two i64 assembled by splat/replace_lane)
//	mem      every operand is loaded from memory right before the instruction
//	mem<i>   operand i is loaded from memory right before the instruction, the others are parameters
//	const<i> operand i is an immediate constant (T.const / v128.const), the others are parameters
//	splat0   operand 0 is <shape>.splat of a scalar parameter, the others are loaded from memory
const (
	vParam  = "param"
	vMem    = "mem"
	vSplat0 = "splat0"
)

func constVariant(i int) string { return "const" + strconv.Itoa(i) }
func memVariant(i int) string   { return "mem" + strconv.Itoa(i) }

// constIdx returns the operand index that is an immediate in the variant, or -1.
func constIdx(variant string) int {
	if strings.HasPrefix(variant, "const") {
		n, _ := strconv.Atoi(variant[5:])
		return n
	}
	return -1
}

// sources gives the source of each operand: 'p' parameter, 'm' memory, 'c' constant, 's' splat.
func sources(variant string, n int) []byte {
	src := make([]byte, n)
	for i := range src {
		src[i] = 'p'
	}
	switch {
	case variant == vParam:
	case variant == vMem:
		for i := range src {
			src[i] = 'm'
		}
	case variant == vSplat0:
		for i := range src {
			src[i] = 'm'
		}
		src[0] = 's'
	case strings.HasPrefix(variant, "mem"):
		i, _ := strconv.Atoi(variant[3:])
		if i < n {
			src[i] = 'm'
		}
	case strings.HasPrefix(variant, "const"):
		i, _ := strconv.Atoi(variant[5:])
		if i < n {
			src[i] = 'c'
		}
	}
	return src
}

func hasMem(src []byte) bool {
	for _, c := range src {
		if c == 'm' {
			return true
		}
	}
	return false
}

// variantsOf lists the variants generated for an instruction.
func variantsOf(op *refnum.Op) []string {
	v := []string{vParam, vMem}
	if len(op.Params) > 1 {
		for i := range op.Params {
			v = append(v, memVariant(i))
		}
	}
	for i := range op.Params {
		v = append(v, constVariant(i))
	}
	return v
}

// splatOf: scalar type and splat sub-opcode for a vector shape.
func splatOf(s refnum.Shape) (byte, uint32) {
	switch s.LaneBits() {
	case 8:
		return wasmenc.I32, 0x0f
	case 16:
		return wasmenc.I32, 0x10
	case 32:
		return wasmenc.I32, 0x11
	}
	return wasmenc.I64, 0x12
}

// funcParams is the flattened parameter list of the one-instruction function.
func funcParams(op *refnum.Op, src []byte) []byte {
	var fp []byte
	if hasMem(src) {
		fp = append(fp, wasmenc.I32)
	}
	for j, p := range op.Params {
		switch src[j] {
		case 'p':
			if p.T == refnum.V128 {
				fp = append(fp, wasmenc.I64, wasmenc.I64)
			} else {
				fp = append(fp, byte(p.T))
			}
		case 's':
			t, _ := splatOf(p.S)
			fp = append(fp, t)
		}
	}
	return fp
}

// instance is one generated one-instruction function of a module: the instruction's lane /
// shuffle immediate and (const variants) the constant operand.
type instance struct {
	Imm   []byte
	Const refnum.V
}

const (
	inBase    = 0
	maxChunk  = 8192
	slotBytes = 16
)

// memory layout: operand area at 0 (three 16-byte slots per tuple at most), result area behind it.
// Modules that evaluate few tuples per call get a one-page memory (instantiation zeroes it).
func layout(small bool) (pages uint32, outBase uint32, chunk int) {
	if small {
		return 1, 0xc000, 1016 // the last 128 bytes of the page stay free for the scratch word
	}
	return 9, 0x60000, maxChunk // also room for the 16-bit sweep: 128 KiB in, 128 KiB out
}

// scratchAddr is the word the canonical-slot probe stores the result to (outside both areas).
func scratchAddr(small bool) int32 {
	pages, _, _ := layout(small)
	return int32(pages*65536 - 16)
}

// hasCanon: instructions with an i32 or f32 result get the canonical-slot probe: the
// one-instruction function returns, besides the result r, a flag word computed by consuming r
// inside the guest. x = r (f32: i32.reinterpret_f32 r), y = the value reloaded after storing r
// to memory (a store writes exactly the low 32 bits). A 32-bit value is only "the specified
// value" if every consumer sees the same as for y:
//
//	bit0 i32.ne(x,y)  bit1 i32.lt_u(x,y)  bit2 i32.gt_u(x,y)  bit3 !i32.le_u(x,y)  bit4 !i32.ge_u(x,y)
//	bit5 !i32.eq(x,y) bit6 i64.extend_i32_u differs  bit7 i64.extend_i32_s differs
//	bit8 i32.xor(x,y)!=0  bit9 i32.sub(x,y)!=0  bit10 !i32.eqz(x) != !i32.eqz(y) ... all must be 0.
func hasCanon(op *refnum.Op) bool { return op.Result.T == refnum.I32 || op.Result.T == refnum.F32 }

func canonProbe(b *wasmenc.B, t refnum.Type, tmp uint32, scratch int32) {
	x, y := tmp+1, tmp+2
	b.LocalSet(tmp)
	b.LocalGet(tmp)
	if t == refnum.F32 {
		b.Raw(wasmenc.OpI32ReinterpretF32)
	}
	b.LocalSet(x)
	b.I32Const(scratch).LocalGet(tmp)
	if t == refnum.F32 {
		b.Mem(wasmenc.OpF32Store, 2, 0)
	} else {
		b.Mem(wasmenc.OpI32Store, 2, 0)
	}
	b.I32Const(scratch).Mem(wasmenc.OpI32Load, 2, 0).LocalSet(y)
	b.LocalGet(tmp) // first result: r itself
	xy := func() *wasmenc.B { return b.LocalGet(x).LocalGet(y) }
	or := func(bit int32) { b.I32Const(bit).Raw(wasmenc.OpI32Shl, wasmenc.OpI32Or) }
	xy().Raw(wasmenc.OpI32Ne)
	xy().Raw(wasmenc.OpI32LtU)
	or(1)
	xy().Raw(wasmenc.OpI32GtU)
	or(2)
	xy().Raw(wasmenc.OpI32LeU, wasmenc.OpI32Eqz)
	or(3)
	xy().Raw(wasmenc.OpI32GeU, wasmenc.OpI32Eqz)
	or(4)
	xy().Raw(wasmenc.OpI32Eq, wasmenc.OpI32Eqz)
	or(5)
	b.LocalGet(x).Raw(wasmenc.OpI64ExtendI32U).LocalGet(y).Raw(wasmenc.OpI64ExtendI32U, wasmenc.OpI64Ne)
	or(6)
	b.LocalGet(x).Raw(wasmenc.OpI64ExtendI32S).LocalGet(y).Raw(wasmenc.OpI64ExtendI32S, wasmenc.OpI64Ne)
	or(7)
	xy().Raw(wasmenc.OpI32Xor).I32Const(0).Raw(wasmenc.OpI32Ne)
	or(8)
	xy().Raw(wasmenc.OpI32Sub).I32Const(0).Raw(wasmenc.OpI32Ne)
	or(9)
	b.LocalGet(x).Raw(wasmenc.OpI32Eqz).LocalGet(y).Raw(wasmenc.OpI32Eqz, wasmenc.OpI32Ne)
	or(10)
}

func flatTypes(ps []refnum.Param, skip int) []byte {
	var r []byte
	for i, p := range ps {
		if i == skip {
			continue
		}
		if p.T == refnum.V128 {
			r = append(r, wasmenc.I64, wasmenc.I64)
		} else {
			r = append(r, byte(p.T))
		}
	}
	return r
}

func loadOp(t refnum.Type) (op byte, align uint32) {
	switch t {
	case refnum.I32:
		return wasmenc.OpI32Load, 2
	case refnum.I64:
		return wasmenc.OpI64Load, 3
	case refnum.F32:
		return wasmenc.OpF32Load, 2
	}
	return wasmenc.OpF64Load, 3
}

func storeOp(t byte) (op byte, align uint32) {
	switch t {
	case wasmenc.I32:
		return wasmenc.OpI32Store, 2
	case wasmenc.I64:
		return wasmenc.OpI64Store, 3
	case wasmenc.F32:
		return wasmenc.OpF32Store, 2
	}
	return wasmenc.OpF64Store, 3
}

func pushConst(b *wasmenc.B, t refnum.Type, v refnum.V) {
	switch t {
	case refnum.I32:
		b.I32Const(int32(uint32(v[0])))
	case refnum.I64:
		b.I64Const(int64(v[0]))
	case refnum.F32:
		b.F32Const(uint32(v[0]))
	case refnum.F64:
		b.F64Const(v[0])
	default:
		b.V128Const(v[0], v[1])
	}
}

// buildModule generates the guest for (op, variant, instances):
//
//	f<k>  : the one-instruction function of instance k (exported; v128 values travel as two i64)
//	run   : (k, n) loops over n operand tuples in memory at inBase (one 16-byte slot per operand),
//	        calls f<k> through the table and stores the results at outBase + 16*i
func buildModule(op *refnum.Op, variant string, insts []instance, small bool) []byte {
	m := &wasmenc.Module{}
	memPages, outBase, _ := layout(small)
	src := sources(variant, len(op.Params))
	fp := funcParams(op, src)
	fr := flatTypes([]refnum.Param{op.Result}, -1)
	if hasCanon(op) {
		fr = append(fr, wasmenc.I32) // second result: the canonical-slot probe flags
	}
	ft := m.AddType(fp, fr)
	m.Mems = [][]byte{wasmenc.Limits(memPages, int64(memPages), false)}
	m.Exports = append(m.Exports, wasmenc.Export{Name: "mem", Kind: wasmenc.KMem, Idx: 0})
	m.Tables = [][]byte{wasmenc.TableType(wasmenc.FuncRef, uint32(len(insts)), int64(len(insts)))}
	var fidx []uint32
	for k, in := range insts {
		b := wasmenc.NewB()
		local := uint32(0)
		if hasMem(src) {
			local = 1
		}
		for j, p := range op.Params {
			switch src[j] {
			case 'c':
				pushConst(b, p.T, in.Const)
			case 'm':
				b.LocalGet(0)
				if p.T == refnum.V128 {
					b.FDMem(0, 4, uint32(slotBytes*j))
				} else {
					o, al := loadOp(p.T)
					b.Mem(o, al, uint32(slotBytes*j))
				}
			case 's':
				_, sp := splatOf(p.S)
				b.LocalGet(local).FD(sp)
				local++
			default:
				if p.T == refnum.V128 {
					b.LocalGet(local).FD(0x12)      // i64x2.splat
					b.LocalGet(local+1).FD(0x1e, 1) // i64x2.replace_lane 1
					local += 2
				} else {
					b.LocalGet(local)
					local++
				}
			}
		}
		b.Append(op.Enc).Raw(in.Imm...)
		var locals []byte
		if op.Result.T == refnum.V128 {
			tmp := uint32(len(fp))
			locals = []byte{wasmenc.V128}
			b.LocalSet(tmp).LocalGet(tmp).FD(0x1d, 0).LocalGet(tmp).FD(0x1d, 1)
		} else if hasCanon(op) {
			locals = []byte{byte(op.Result.T), wasmenc.I32, wasmenc.I32}
			canonProbe(b, op.Result.T, uint32(len(fp)), scratchAddr(small))
		}
		idx := m.AddFunc(fp, fr, locals, b.Bytes())
		m.ExportFunc("f"+strconv.Itoa(k), idx)
		fidx = append(fidx, idx)
	}
	m.Elems = [][]byte{wasmenc.ActiveElemFuncs(0, fidx)}
	// run(k, n): locals 2=i 3=pin 4=pout 5..=result temps
	stride := int32(slotBytes * len(op.Params))
	b := wasmenc.NewB()
	b.I32Const(int32(outBase)).LocalSet(4)
	b.Block().Loop()
	b.LocalGet(2).LocalGet(1).Raw(wasmenc.OpI32GeU).BrIf(1)
	if hasMem(src) {
		b.LocalGet(3)
	}
	for j, p := range op.Params {
		switch src[j] {
		case 'p':
			if p.T == refnum.V128 {
				b.LocalGet(3).Mem(wasmenc.OpI64Load, 3, uint32(slotBytes*j))
				b.LocalGet(3).Mem(wasmenc.OpI64Load, 3, uint32(slotBytes*j+8))
			} else {
				o, al := loadOp(p.T)
				b.LocalGet(3).Mem(o, al, uint32(slotBytes*j))
			}
		case 's': // the scalar is lane 0 of the operand's slot
			if t, _ := splatOf(p.S); t == wasmenc.I64 {
				b.LocalGet(3).Mem(wasmenc.OpI64Load, 3, uint32(slotBytes*j))
			} else {
				b.LocalGet(3).Mem(wasmenc.OpI32Load, 2, uint32(slotBytes*j))
			}
		}
	}
	b.LocalGet(0).CallIndirect(ft, 0)
	for r := len(fr) - 1; r >= 0; r-- {
		b.LocalSet(uint32(5 + r))
	}
	for r := range fr {
		o, al := storeOp(fr[r])
		b.LocalGet(4).LocalGet(uint32(5+r)).Mem(o, al, uint32(8*r))
	}
	b.LocalGet(3).I32Const(stride).Raw(wasmenc.OpI32Add).LocalSet(3)
	b.LocalGet(4).I32Const(slotBytes).Raw(wasmenc.OpI32Add).LocalSet(4)
	b.LocalGet(2).I32Const(1).Raw(wasmenc.OpI32Add).LocalSet(2)
	b.Br(0).End().End()
	run := m.AddFunc([]byte{wasmenc.I32, wasmenc.I32}, nil, append([]byte{wasmenc.I32, wasmenc.I32, wasmenc.I32}, fr...), b.Bytes())
	m.ExportFunc("run", run)
	// sweep(x): (splat0 modules of two-operand instructions) for j < 8192:
	//   out[j] = op(splat(x), v128.load(in + 16*j))   -- operand 1 vectors are packed 16 bytes apart
	if variant == vSplat0 && len(op.Params) == 2 && op.Result.T == refnum.V128 && op.Imm == refnum.ImmNone {
		t, sp := splatOf(op.Params[0].S)
		b := wasmenc.NewB() // locals: 0=x 1=n 2=j(byte offset) 3=v(splat)
		b.LocalGet(0).FD(sp).LocalSet(3)
		b.Block().Loop()
		b.LocalGet(2).LocalGet(1).Raw(wasmenc.OpI32GeU).BrIf(1)
		b.LocalGet(2)
		b.LocalGet(3).LocalGet(2).FDMem(0, 4, inBase).Append(op.Enc)
		b.FDMem(0x0b, 4, outBase) // v128.store
		b.LocalGet(2).I32Const(16).Raw(wasmenc.OpI32Add).LocalSet(2)
		b.Br(0).End().End()
		sw := m.AddFunc([]byte{t, wasmenc.I32}, nil, []byte{wasmenc.I32, wasmenc.V128}, b.Bytes())
		m.ExportFunc("sweep", sw)
	}
	return m.Encode()
}

// ---- runtime side ----

var (
	ctx      = context.Background()
	runtimes = map[string]wazero.Runtime{}
)

func runtimeFor(engine string) wazero.Runtime {
	if r, ok := runtimes[engine]; ok {
		return r
	}
	r := wazero.NewRuntimeWithConfig(ctx, wz.Config(engine))
	runtimes[engine] = r
	return r
}

type loaded struct {
	op      *refnum.Op
	variant string
	engine  string
	insts   []instance
	cm      wazero.CompiledModule
	mod     api.Module
	run     api.Function
	fs      []api.Function
	inBuf   []byte
	outBase uint32
	chunk   int
}

func load(op *refnum.Op, variant, engine string, insts []instance, small bool) (*loaded, error) {
	bin := buildModule(op, variant, insts, small)
	rt := runtimeFor(engine)
	cm, err := rt.CompileModule(ctx, bin)
	if err != nil {
		return nil, fmt.Errorf("compile %s/%s/%s: %w (module %s)", op.Name, variant, engine, err, hex.EncodeToString(bin))
	}
	mod, err := rt.InstantiateModule(ctx, cm, wazero.NewModuleConfig().WithName(""))
	if err != nil {
		cm.Close(ctx)
		return nil, fmt.Errorf("instantiate %s/%s/%s: %w", op.Name, variant, engine, err)
	}
	l := &loaded{op: op, variant: variant, engine: engine, insts: insts, cm: cm, mod: mod, run: mod.ExportedFunction("run")}
	_, l.outBase, l.chunk = layout(small)
	for k := range insts {
		l.fs = append(l.fs, mod.ExportedFunction("f"+strconv.Itoa(k)))
	}
	return l, nil
}

func (l *loaded) close() {
	l.mod.Close(ctx)
	l.cm.Close(ctx)
}

// outcome of one evaluation on wazero
type observed struct {
	V    refnum.V
	Trap string // "" or the trap kind; any other failure is rendered as "!<kind>:<detail>"
}

func (o observed) String(op *refnum.Op) string {
	if o.Trap != "" {
		return "trap(" + o.Trap + ")"
	}
	s := op.FormatV(op.Result, o.V)
	if hasCanon(op) && uint32(o.V[1]) != 0 {
		s += fmt.Sprintf(" held in a non-canonical 32-bit slot (in-guest consumers disagree with the stored/reloaded value: probe flags %#x)", uint32(o.V[1]))
	}
	return s
}

// direct calls f<k> once with the tuple's operands (mem variant: through memory).
func (l *loaded) direct(k int, args []refnum.V) observed {
	var flat []uint64
	src := sources(l.variant, len(args))
	if hasMem(src) {
		buf := make([]byte, slotBytes*len(args))
		for j, a := range args {
			binary.LittleEndian.PutUint64(buf[slotBytes*j:], a[0])
			binary.LittleEndian.PutUint64(buf[slotBytes*j+8:], a[1])
		}
		l.mod.Memory().Write(inBase, buf)
		flat = []uint64{inBase}
	}
	for j, p := range l.op.Params {
		switch src[j] {
		case 'p':
			if p.T == refnum.V128 {
				flat = append(flat, args[j][0], args[j][1])
			} else if p.T == refnum.I32 || p.T == refnum.F32 {
				flat = append(flat, args[j][0]&0xffffffff)
			} else {
				flat = append(flat, args[j][0])
			}
		case 's':
			bits := p.S.LaneBits()
			x := args[j][0]
			if bits < 64 {
				x &= 1<<uint(bits) - 1
			}
			flat = append(flat, x)
		}
	}
	res, out := wz.SafeCall(ctx, l.fs[k], flat...)
	switch out.Kind {
	case wz.KOK:
		var v refnum.V
		copy(v[:], res)
		return observed{V: v}
	case wz.KTrap:
		return observed{Trap: out.Detail}
	}
	return observed{Trap: "!" + out.String()}
}

// bulk evaluates n tuples (args laid out tuple-major, arity = len(op.Params)) through run(k,n)
// and returns the raw result area, or an error when the guest did not complete.
func (l *loaded) bulk(k int, tuples []refnum.V, n int) ([]byte, error) {
	ar := len(l.op.Params)
	need := n * ar * slotBytes
	if cap(l.inBuf) < need {
		l.inBuf = make([]byte, need)
	}
	buf := l.inBuf[:need]
	for i := 0; i < n*ar; i++ {
		binary.LittleEndian.PutUint64(buf[i*16:], tuples[i][0])
		binary.LittleEndian.PutUint64(buf[i*16+8:], tuples[i][1])
	}
	mem := l.mod.Memory()
	if !mem.Write(inBase, buf) {
		return nil, fmt.Errorf("harness: in-area write failed")
	}
	if _, out := wz.SafeCall(ctx, l.run, uint64(k), uint64(n)); out.Kind != wz.KOK {
		return nil, fmt.Errorf("%s", out.String())
	}
	res, ok := mem.Read(l.outBase, uint32(n*slotBytes))
	if !ok {
		return nil, fmt.Errorf("harness: out-area read failed")
	}
	return res, nil
}

// ---- replayable case ----

// Case is the replay form of one evaluation.
type Case struct {
	Op       string   `json:"op"`
	Variant  string   `json:"variant"`
	Engine   string   `json:"engine"`
	Imm      string   `json:"imm,omitempty"` // hex of the lane / shuffle immediate
	Args     []string `json:"args"`          // one "lo" or "lo:hi" hex per operand (const operand included)
	Expected string   `json:"expected"`
	Got      string   `json:"got"`
	// ViaLoop: the wrong result was only seen through the in-guest loop ("run": the generic
	// loop calling the one-instruction function, "sweep": the 16-bit sweep loop); replay then
	// goes the same way.
	ViaLoop string `json:"via_loop,omitempty"`
}

func fmtV(p refnum.Param, v refnum.V) string {
	if p.T == refnum.V128 {
		return fmt.Sprintf("%016x:%016x", v[0], v[1])
	}
	if p.T == refnum.I32 || p.T == refnum.F32 {
		return fmt.Sprintf("%08x", uint32(v[0]))
	}
	return fmt.Sprintf("%016x", v[0])
}

func parseV(s string) (refnum.V, error) {
	var v refnum.V
	parts := strings.Split(s, ":")
	for i, p := range parts {
		if i > 1 {
			break
		}
		x, err := strconv.ParseUint(p, 16, 64)
		if err != nil {
			return v, err
		}
		v[i] = x
	}
	return v, nil
}

func mkCase(op *refnum.Op, variant, engine string, imm []byte, args []refnum.V, want refnum.Res, got observed) Case {
	c := Case{Op: op.Name, Variant: variant, Engine: engine, Imm: hex.EncodeToString(imm), Expected: op.Describe(want), Got: got.String(op)}
	for j, a := range args {
		c.Args = append(c.Args, fmtV(op.Params[j], a))
	}
	return c
}

// judge compares an observation with the reference outcome.
func judge(op *refnum.Op, want refnum.Res, got observed) bool {
	if want.Trap != "" || got.Trap != "" {
		return want.Trap == got.Trap
	}
	if hasCanon(op) && uint32(got.V[1]) != 0 {
		return false // the low 32 bits may be right, but consumers inside the guest see another value
	}
	return op.Match(want, got.V)
}

// execCase re-executes one case from scratch (used by TestReplay and to confirm failures).
func execCase(c Case) (ok bool, msg string, err error) {
	op := refnum.ByName(c.Op)
	if op == nil {
		return false, "", fmt.Errorf("unknown op %q", c.Op)
	}
	imm, err := hex.DecodeString(c.Imm)
	if err != nil {
		return false, "", err
	}
	if len(c.Args) != len(op.Params) {
		return false, "", fmt.Errorf("arity")
	}
	args := make([]refnum.V, len(c.Args))
	for i, a := range c.Args {
		if args[i], err = parseV(a); err != nil {
			return false, "", err
		}
	}
	in := instance{Imm: imm}
	if ci := constIdx(c.Variant); ci >= 0 {
		if ci >= len(args) {
			return false, "", fmt.Errorf("const index")
		}
		in.Const = args[ci]
	}
	l, err := load(op, c.Variant, c.Engine, []instance{in}, c.ViaLoop != "sweep")
	if err != nil {
		return false, "", err
	}
	defer l.close()
	want := op.Eval(args, imm)
	var got observed
	switch c.ViaLoop {
	case "run":
		if want.Trap != "" {
			return false, "", fmt.Errorf("loop replay of a trapping tuple")
		}
		var rep []refnum.V
		for i := 0; i < 64; i++ {
			rep = append(rep, args...)
		}
		res, err := l.bulk(0, rep, 64)
		if err != nil {
			got = observed{Trap: "!loop: " + err.Error()}
			break
		}
		for i := 0; i < 64; i++ {
			got = observed{V: refnum.V{binary.LittleEndian.Uint64(res[i*16:]), binary.LittleEndian.Uint64(res[i*16+8:])}}
			if !judge(op, want, got) {
				break
			}
		}
	case "sweep":
		sw := l.mod.ExportedFunction("sweep")
		if sw == nil || len(args) != 2 {
			return false, "", fmt.Errorf("no sweep function for %s", c.Op)
		}
		in := make([]byte, 131072)
		for y := 0; y < 65536; y++ {
			binary.LittleEndian.PutUint16(in[2*y:], uint16(y))
		}
		j := int(args[1][0]&0xffff) / 8
		binary.LittleEndian.PutUint64(in[16*j:], args[1][0])
		binary.LittleEndian.PutUint64(in[16*j+8:], args[1][1])
		l.mod.Memory().Write(inBase, in)
		if _, out := wz.SafeCall(ctx, sw, args[0][0]&0xffff, 131072); out.Kind != wz.KOK {
			got = observed{Trap: "!" + out.String()}
			break
		}
		res, _ := l.mod.Memory().Read(l.outBase+uint32(16*j), 16)
		got = observed{V: refnum.V{binary.LittleEndian.Uint64(res), binary.LittleEndian.Uint64(res[8:])}}
	default:
		got = l.direct(0, args)
	}
	if judge(op, want, got) {
		return true, "", nil
	}
	return false, fmt.Sprintf("%s [%s, %s] imm=%s args=%v: specified %s, wazero returned %s", c.Op, c.Variant, c.Engine, c.Imm, c.Args,
		op.Describe(want), got.String(op)), nil
}
