package c05

import (
	"encoding/binary"
	"encoding/hex"
	"fmt"
	"regexp"
	"strconv"
	"strings"
	"testing"

	"github.com/tetratelabs/wazero"
	"pgregory.net/rapid"

	"verif/internal/evid"
	"verif/internal/refnum"
	"verif/internal/wasmenc"
	"verif/internal/wz"
)

// Sequence functions: ONE function applies two or three instructions and stores every result
// to memory; each result is compared with the reference. Per-function compiler state shared
// between the instructions of one function (constant pools, memoised labels, scratch
// registers, register pressure) is the target. The instructions are sibling opcodes (signed /
// unsigned, low / high, other lane shapes or widths of the same operation) in both orders, and
// drawn combinations.
//
//	seq<k>(addr): operand j of instruction i lives at addr + 48*i + 16*j (v128: 16 bytes),
//	              result i is stored at addr + 256 + 16*i
//	Share : instructions whose operand types equal those of instruction 0 use ITS operands
//	        (the same SSA values feed both, as in real code)
//	Direct: operands are loaded right before each instruction; otherwise all operands are loaded
//	        into locals first and stay live across the whole sequence

type seqInstr struct {
	op  *refnum.Op
	imm []byte
}

type seqSpec struct {
	ins    []seqInstr
	share  bool
	direct bool
}

const (
	seqIn     = 0
	seqOut    = 256
	seqStride = 48
)

func sameTypes(a, b *refnum.Op) bool {
	if len(a.Params) != len(b.Params) {
		return false
	}
	for i := range a.Params {
		if a.Params[i].T != b.Params[i].T {
			return false
		}
	}
	return true
}

// shared reports whether instruction i takes instruction 0's operands.
func (s seqSpec) shared(i int) bool { return i > 0 && s.share && sameTypes(s.ins[0].op, s.ins[i].op) }

func loadOperand(b *wasmenc.B, p refnum.Param, off uint32) {
	b.LocalGet(0)
	if p.T == refnum.V128 {
		b.FDMem(0, 4, off)
	} else {
		o, al := loadOp(p.T)
		b.Mem(o, al, off)
	}
}

func emitSeq(s seqSpec) (locals, body []byte) {
	b := wasmenc.NewB()
	newLocal := func(t byte) uint32 {
		locals = append(locals, t)
		return uint32(len(locals)) // parameter 0 is addr
	}
	loc := make([][]uint32, len(s.ins))
	if !s.direct {
		for i, in := range s.ins {
			if s.shared(i) {
				loc[i] = loc[0]
				continue
			}
			for j, p := range in.op.Params {
				l := newLocal(byte(p.T))
				loadOperand(b, p, uint32(seqIn+seqStride*i+16*j))
				b.LocalSet(l)
				loc[i] = append(loc[i], l)
			}
		}
	}
	for i, in := range s.ins {
		b.LocalGet(0) // address of the result store
		src := i
		if s.shared(i) {
			src = 0
		}
		for j, p := range in.op.Params {
			if s.direct {
				loadOperand(b, p, uint32(seqIn+seqStride*src+16*j))
			} else {
				b.LocalGet(loc[i][j])
			}
		}
		b.Append(in.op.Enc).Raw(in.imm...)
		off := uint32(seqOut + 16*i)
		if in.op.Result.T == refnum.V128 {
			b.FDMem(0x0b, 4, off)
		} else {
			o, al := storeOp(byte(in.op.Result.T))
			b.Mem(o, al, off)
		}
	}
	return locals, b.Bytes()
}

func buildSeqModule(specs []seqSpec) []byte {
	m := &wasmenc.Module{}
	m.Mems = [][]byte{wasmenc.Limits(1, 1, false)}
	for k, s := range specs {
		locals, body := emitSeq(s)
		idx := m.AddFunc([]byte{wasmenc.I32}, nil, locals, body)
		m.ExportFunc("seq"+strconv.Itoa(k), idx)
	}
	return m.Encode()
}

// ---- replay form ----

type SeqInstr struct {
	Op   string   `json:"op"`
	Imm  string   `json:"imm,omitempty"`
	Args []string `json:"args,omitempty"` // operands of this instruction in the failing call
}

type SeqSpec struct {
	Instrs []SeqInstr `json:"instrs"`
	Share  bool       `json:"share,omitempty"`
	Direct bool       `json:"direct,omitempty"`
}

func seqJSON(s seqSpec, args [][]V) SeqSpec {
	out := SeqSpec{Share: s.share, Direct: s.direct}
	for i, in := range s.ins {
		si := SeqInstr{Op: in.op.Name, Imm: hex.EncodeToString(in.imm)}
		if args != nil {
			for j, a := range args[i] {
				si.Args = append(si.Args, fmtV(in.op.Params[j], a))
			}
		}
		out.Instrs = append(out.Instrs, si)
	}
	return out
}

func seqOf(j SeqSpec) (seqSpec, [][]V, error) {
	s := seqSpec{share: j.Share, direct: j.Direct}
	var args [][]V
	for _, si := range j.Instrs {
		op := refnum.ByName(si.Op)
		if op == nil {
			return s, nil, fmt.Errorf("unknown op %q", si.Op)
		}
		imm, err := hex.DecodeString(si.Imm)
		if err != nil {
			return s, nil, err
		}
		s.ins = append(s.ins, seqInstr{op, imm})
		var a []V
		for _, x := range si.Args {
			v, err := parseV(x)
			if err != nil {
				return s, nil, err
			}
			a = append(a, v)
		}
		if len(a) != 0 && len(a) != len(op.Params) {
			return s, nil, fmt.Errorf("arity of %s", si.Op)
		}
		args = append(args, a)
	}
	if len(s.ins) == 0 || len(s.ins) > 4 {
		return s, nil, fmt.Errorf("sequence length")
	}
	return s, args, nil
}

func (s seqSpec) String() string {
	var n []string
	for _, in := range s.ins {
		x := in.op.Name
		if len(in.imm) > 0 {
			x += fmt.Sprintf("(imm %x)", in.imm)
		}
		n = append(n, x)
	}
	mode := "operands preloaded into locals"
	if s.direct {
		mode = "operands loaded right before each instruction"
	}
	if s.share {
		mode += ", shared operands"
	}
	return "[" + strings.Join(n, " ; ") + "] (" + mode + ")"
}

// ---- execution ----

func loadSeq(specs []seqSpec, engine string) (*loaded, error) {
	bin := buildSeqModule(specs)
	c := Case{Engine: engine}
	for _, s := range specs {
		c.Seqs = append(c.Seqs, seqJSON(s, nil))
	}
	evid.Journal(c)
	rt := runtimeFor(engine)
	l := &loaded{engine: engine}
	e, panicked := wz.Safely(func() error {
		var err error
		if l.cm, err = rt.CompileModule(ctx, bin); err != nil {
			return err
		}
		l.mod, err = rt.InstantiateModule(ctx, l.cm, wazero.NewModuleConfig().WithName(""))
		return err
	})
	if panicked != nil {
		e = fmt.Errorf("panic: %v", panicked)
	}
	if e != nil {
		if l.cm != nil {
			l.cm.Close(ctx)
		}
		return nil, fmt.Errorf("valid module of %d sequence functions (first: %s) rejected on %s: %s", len(specs), specs[0], engine,
			strings.SplitN(e.Error(), "\n", 2)[0])
	}
	for k := range specs {
		l.fs = append(l.fs, l.mod.ExportedFunction("seq"+strconv.Itoa(k)))
	}
	return l, nil
}

// runSeq calls sequence k on the operands (args[i] = operands of instruction i; shared
// instructions must carry instruction 0's operands) and returns a message for the first
// result that is not the specified one.
func runSeq(l *loaded, s seqSpec, k int, args [][]V) string {
	buf := make([]byte, seqStride*len(s.ins))
	for i := range s.ins {
		for j, a := range args[i] {
			binary.LittleEndian.PutUint64(buf[seqStride*i+16*j:], a[0])
			binary.LittleEndian.PutUint64(buf[seqStride*i+16*j+8:], a[1])
		}
	}
	mem := l.mod.Memory()
	mem.Write(seqIn, buf)
	mem.Write(seqOut, make([]byte, 16*len(s.ins)))
	_, out := wz.SafeCall(ctx, l.fs[k], seqIn)
	// the specified outcome: the first instruction specified to trap traps the call
	wants := make([]refnum.Res, len(s.ins))
	for i, in := range s.ins {
		wants[i] = in.op.Eval(args[i], in.imm)
		if wants[i].Trap != "" {
			if out.Kind == wz.KTrap && out.Detail == wants[i].Trap {
				return ""
			}
			return fmt.Sprintf("instruction %d (%s) args=%v: specified trap(%s), wazero: %s", i, in.op.Name, fmtArgs(in.op, args[i]), wants[i].Trap, out.String())
		}
	}
	if out.Kind != wz.KOK {
		return fmt.Sprintf("no instruction of the sequence is specified to trap, wazero: %s", out.String())
	}
	for i, in := range s.ins {
		res, _ := mem.Read(uint32(seqOut+16*i), 16)
		got := observed{V: V{binary.LittleEndian.Uint64(res), binary.LittleEndian.Uint64(res[8:])}}
		if !in.op.Match(wants[i], got.V) {
			return fmt.Sprintf("instruction %d (%s) args=%v: specified %s, wazero returned %s", i, in.op.Name, fmtArgs(in.op, args[i]),
				in.op.Describe(wants[i]), got.String(in.op))
		}
	}
	return ""
}

func fmtArgs(op *refnum.Op, a []V) []string {
	var r []string
	for j, x := range a {
		r = append(r, fmtV(op.Params[j], x))
	}
	return r
}

// execSeqCase replays a sequence case: alone in its module, or (Seqs) the whole module.
func execSeqCase(c Case) (bool, string, error) {
	if c.Seq == nil {
		// module-level case: it must compile
		var specs []seqSpec
		for _, j := range c.Seqs {
			s, _, err := seqOf(j)
			if err != nil {
				return false, "", err
			}
			specs = append(specs, s)
		}
		l, err := loadSeq(specs, c.Engine)
		if err != nil {
			return false, err.Error(), nil
		}
		l.close()
		return true, "", nil
	}
	s, args, err := seqOf(*c.Seq)
	if err != nil {
		return false, "", err
	}
	for i := range s.ins {
		if len(args[i]) != len(s.ins[i].op.Params) {
			return false, "", fmt.Errorf("operands of instruction %d missing", i)
		}
	}
	l, lerr := loadSeq([]seqSpec{s}, c.Engine)
	if lerr != nil {
		return false, lerr.Error(), nil
	}
	defer l.close()
	if msg := runSeq(l, s, 0, args); msg != "" {
		return false, fmt.Sprintf("sequence %s on %s: %s", s, c.Engine, msg), nil
	}
	return true, "", nil
}

// ---- operand lists and families ----

var seqTupleCache = map[string][][]V{}

// seqTuples: operand tuples of one opcode for sequence functions: its key tuples and a spread
// sample of every block of its deterministic plan (boundary lanes incl. infinities, NaNs,
// values beyond the integer ranges).
func seqTuples(op *refnum.Op) [][]V {
	if t, ok := seqTupleCache[op.Name]; ok {
		return t
	}
	ar := len(op.Params)
	var out [][]V
	add := func(flat []V, n int) {
		for i := 0; i < n; i++ {
			out = append(out, append([]V{}, flat[i*ar:(i+1)*ar]...))
		}
	}
	k := keyTuples(op)
	add(k, len(k)/ar)
	for _, b := range blocksFor(op) {
		crossSample(b, 96, add)
	}
	seqTupleCache[op.Name] = out
	return out
}

var (
	reShape = regexp.MustCompile(`^(i8x16|i16x8|i32x4|i64x2|f32x4|f64x2|v128|i32|i64|f32|f64)\.`)
	reSign  = regexp.MustCompile(`_(s|u)(_|$)`)
)

// familyKey maps sibling opcodes to one key: the lane shape / width prefix, the signedness
// suffix and low/high are dropped.
func familyKey(op *refnum.Op) string {
	n := reShape.ReplaceAllString(op.Name, "")
	n = reSign.ReplaceAllString(n, "$2")
	n = strings.NewReplacer("_low", "_half", "_high", "_half", "extract_lane", "lane", "replace_lane", "lane").Replace(n)
	cls := "s"
	if op.Vector {
		cls = "v"
	}
	return cls + ":" + strings.TrimSuffix(n, "_")
}

func families() [][]*refnum.Op {
	idx := map[string]int{}
	var fams [][]*refnum.Op
	for _, op := range refnum.Ops() {
		k := familyKey(op)
		i, ok := idx[k]
		if !ok {
			i = len(fams)
			idx[k] = i
			fams = append(fams, nil)
		}
		fams[i] = append(fams[i], op)
	}
	return fams
}

// ---- the tests ----

type seqStats struct {
	seen    u64set
	evals   int64
	fresh   int64
	written int
}

func (st *seqStats) record(s seqSpec, args [][]V) {
	h := evid.Hash64(s.String())
	for _, a := range args {
		for _, v := range a {
			h = (h ^ v[0]) * 0x9e3779b97f4a7c15
			h = (h ^ v[1] ^ h>>29) * 0xbf58476d1ce4e5b9
		}
	}
	st.evals++
	if st.seen.add(h) {
		st.fresh++
	}
}

func seqCase(s seqSpec, engine string, args [][]V, msg string) Case {
	j := seqJSON(s, args)
	return Case{Op: s.ins[0].op.Name, Variant: "sequence", Engine: engine, Seq: &j, Got: msg}
}

// argsFor builds the operands of call n of a sequence from the per-opcode tuple lists.
func argsFor(s seqSpec, n int) [][]V {
	args := make([][]V, len(s.ins))
	for i, in := range s.ins {
		if s.shared(i) {
			args[i] = args[0]
			continue
		}
		tl := seqTuples(in.op)
		args[i] = tl[(n+7*i)%len(tl)]
	}
	return args
}

func maxTuples(s seqSpec) int {
	m := 0
	for _, in := range s.ins {
		if n := len(seqTuples(in.op)); n > m {
			m = n
		}
	}
	return m
}

func TestSequences(t *testing.T) {
	if evid.ReplayPath() != "" {
		t.Skip()
	}
	st := &seqStats{}
	// deterministic: every ordered pair of sibling opcodes (an opcode with itself included)
	var specs []seqSpec
	pairNo := 0
	for _, fam := range families() {
		if len(fam) > 12 { // very large families (lane moves): neighbours only
			fam = fam[:12]
		}
		for _, a := range fam {
			for _, b := range fam {
				pairNo++
				if !evid.Mine(pairNo) {
					continue
				}
				ia, ib := immediates(a), immediates(b)
				s := seqSpec{ins: []seqInstr{{a, ia[pairNo%len(ia)]}, {b, ib[(pairNo/3)%len(ib)]}}}
				s.share = sameTypes(a, b)
				s.direct = pairNo%2 == 0
				specs = append(specs, s)
				if s.share { // the same pair on separate operands as well
					s2 := s
					s2.share, s2.direct = false, !s.direct
					specs = append(specs, s2)
				}
			}
		}
	}
	evid.Label("sequence-sibling-functions", int64(len(specs)))
	for _, engine := range wz.Engines {
		for off := 0; off < len(specs); off += batchFuncs {
			end := off + batchFuncs
			if end > len(specs) {
				end = len(specs)
			}
			l, err := loadSeq(specs[off:end], engine)
			if err != nil {
				c := Case{Engine: engine, Variant: "sequence"}
				for _, s := range specs[off:end] {
					c.Seqs = append(c.Seqs, seqJSON(s, nil))
				}
				evid.Violation("sequence", c, "%v", err)
				t.Errorf("%v", err)
				continue
			}
			for k, s := range specs[off:end] {
				bad := 0
				for n := 0; n < maxTuples(s) && bad < 2; n++ {
					args := argsFor(s, n)
					st.record(s, args)
					if msg := runSeq(l, s, k, args); msg != "" {
						bad++
						st.written++
						if st.written > 24 {
							evid.Label("further-failures-not-written", 1)
							continue
						}
						full := fmt.Sprintf("sequence %s on %s: %s", s, engine, msg)
						evid.Violation("sequence", seqCase(s, engine, args, msg), "%s", full)
						t.Errorf("%s", full)
					}
				}
			}
			l.close()
		}
	}
	evid.Bulk(st.evals, st.fresh, "sequence-calls")
	// drawn sequences
	fams := families()
	famOf := map[string][]*refnum.Op{}
	for _, f := range fams {
		for _, op := range f {
			famOf[op.Name] = f
		}
	}
	all := refnum.Ops()
	evid.Check(t, "sequence", evid.Scale(3000, 100000), func(t *rapid.T) {
		engine := rapid.SampledFrom(wz.Engines).Draw(t, "engine")
		n := rapid.IntRange(2, 3).Draw(t, "length")
		s := seqSpec{share: rapid.Bool().Draw(t, "share"), direct: rapid.Bool().Draw(t, "direct")}
		for i := 0; i < n; i++ {
			var op *refnum.Op
			if i > 0 && rapid.IntRange(0, 2).Draw(t, "related") > 0 {
				f := famOf[s.ins[0].op.Name]
				op = f[rapid.IntRange(0, len(f)-1).Draw(t, "sibling")]
			} else {
				op = all[rapid.IntRange(0, len(all)-1).Draw(t, "op")]
			}
			s.ins = append(s.ins, seqInstr{op, drawImm(t, op)})
		}
		l, err := loadSeq([]seqSpec{s}, engine)
		if err != nil {
			j := seqJSON(s, nil)
			evid.Fail(t, Case{Engine: engine, Variant: "sequence", Seqs: []SeqSpec{j}}, "%v", err)
		}
		defer l.close()
		calls := 0
		check := func(args [][]V) {
			calls++
			if msg := runSeq(l, s, 0, args); msg != "" {
				evid.Fail(t, seqCase(s, engine, args, msg), "sequence %s on %s: %s", s, engine, msg)
			}
		}
		base := rapid.IntRange(0, 1<<20).Draw(t, "base")
		for c := 0; c < 24; c++ {
			check(argsFor(s, base+c))
		}
		for c := 0; c < 4; c++ {
			args := make([][]V, n)
			for i, in := range s.ins {
				if s.shared(i) {
					args[i] = args[0]
				} else {
					args[i] = drawTuples(t, in.op, 1)
				}
			}
			check(args)
		}
		lbl := []string{"sequence-drawn"}
		if s.shared(1) {
			lbl = append(lbl, "sequence-shared-operands")
		}
		evid.Case(evid.Hash64("seq", s.String(), base), true, lbl...)
		evid.Bulk(int64(calls-1), 0)
	})
}
