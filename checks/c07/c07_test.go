// C07 — close-on-context-done always stops a running guest.
//
// Every case builds a guest whose exported function calls a host "heartbeat" and then enters a
// cycle drawn from a grammar (guest_test.go), runs it on one engine with
// RuntimeConfig.WithCloseOnContextDone(true), and fires one cause (context cancelled, deadline,
// already-done context, Close / CloseWithExitCode from another goroutine) a drawn delay after
// the heartbeat. The call must return (within a very generous bound) with the sys.ExitError of
// that cause, the module must be closed and further calls must fail with the same exit error.
// A control group runs terminating variants with the option on and nothing triggered.
//
// A guest that does not stop cannot be killed from Go: every case is journaled and guarded by a
// watchdog that ends the process; the driver then re-runs the journaled case alone.
package c07

import (
	"context"
	"encoding/json"
	"errors"
	"fmt"
	"io"
	"io/fs"
	"os"
	"runtime"
	"sync"
	"sync/atomic"
	"testing"
	"time"

	"github.com/tetratelabs/wazero"
	"github.com/tetratelabs/wazero/api"
	"github.com/tetratelabs/wazero/experimental"
	"github.com/tetratelabs/wazero/sys"
	"pgregory.net/rapid"

	"verif/internal/evid"
	"verif/internal/wasiproxy"
	"verif/internal/wasmenc"
	"verif/internal/wz"
)

type ctxKey struct{}

var errCustomCause = errors.New("custom cancellation cause")

func TestMain(m *testing.M) { evid.Main(m, "C07") }

// Case is one replayable experiment.
type Case struct {
	Engine  string `json:"engine"`
	Shape   Shape  `json:"shape"`
	Flavor  string `json:"ctx_flavor,omitempty"` // "" | "cause" (WithCancelCause / WithDeadlineCause with a custom cause) | "child" (a value context derived from the cancellable one)
	Cause   string `json:"cause"`                // "cancel" | "timeout" | "done-cancel" | "done-deadline" | "close" | "close-code" | "none" (control)
	DelayUs int    `json:"delay_us"`             // delay between the heartbeat and the trigger (timeout: the timeout itself)
	Code    uint32 `json:"code,omitempty"`
	Procs   int    `json:"procs"`             // GOMAXPROCS during the case
	CtlCtx  string `json:"ctl_ctx,omitempty"` // control group: "background" | "cancel" | "timeout"
	// Cache: "" | "mem" | "dir": the runtime under test uses a CompilationCache of that kind.
	// Primed: "" | "off" | "on": before the runtime under test exists, another runtime sharing the
	// cache, with close-on-context-done off / on, compiled the same guest binaries (and stays open).
	Cache  string `json:"cache,omitempty"`
	Primed string `json:"primed,omitempty"`
	// Listener: "" | "all": the guest modules are compiled with an experimental
	// FunctionListenerFactory in the context that attaches a listener to every function
	Listener string `json:"listener,omitempty"`
	// Noise: things done in the same runtime after the guest modules were instantiated and before
	// the call starts: "dup-name" (an instantiation under the name of the called module: refused),
	// "failing-start" (a module whose start function traps), "cancelled-start" (a module with a
	// spinning start function instantiated with an already cancelled context), "other" (another
	// instance that stays open), "other-closed" (another instance, closed again), "fs-close-error"
	// (a WASI guest with a mounted fs.FS whose root directory fails to close, touched by the guest)
	Noise []string `json:"noise,omitempty"`
	// Overlap: further calls on the same instance, each on its own goroutine and api.Function
	Overlap *Overlap `json:"overlap,omitempty"`
}

const (
	// "promptly": a guest whose every round passes a check point must be back within a fixed
	// slack plus a few rounds of its cycle after the trigger; the slack is what a loaded machine
	// may need to schedule the watcher, the guest and the caller (observed: < 1 ms typical)
	promptSlack  = 3 * time.Second
	promptRounds = 20
	// cycles that can only end by exhausting the call stack on their own (compiler: up to ~1 s)
	returnBound  = 10 * time.Second
	watchdogTime = 20 * time.Second
)

// bound is how long after the trigger the call may still be running.
func (c *Case) bound() time.Duration {
	s := &c.Shape
	if s.class() == "must-exit" || s.hasCheckPoint() {
		return promptSlack + promptRounds*time.Duration(s.SleepMs)*time.Millisecond
	}
	return returnBound
}

func (c *Case) wantCode() uint32 {
	switch c.Cause {
	case "cancel", "done-cancel":
		return sys.ExitCodeContextCanceled
	case "timeout", "done-deadline":
		return sys.ExitCodeDeadlineExceeded
	case "close-code", "rt-close-code":
		return c.Code
	}
	return 0
}

func (c *Case) closeCause() bool {
	switch c.Cause {
	case "close", "close-code", "rt-close", "rt-close-code":
		return true
	}
	return false
}

func (c *Case) runtimeCause() bool { return c.Cause == "rt-close" || c.Cause == "rt-close-code" }

// Overlap describes calls that overlap with the non-terminating call without being nested in it.
// Every entry names how the call's context relates to the context of the main call: "same" (the
// same context value), "value" (a value context derived from it: same Done channel), "child" (a
// context.WithCancel derived from it).
type Overlap struct {
	// Early: terminating calls that start BEFORE the non-terminating one(s), park in a host
	// function, and return normally after those are in flight - still before the trigger.
	Early []string `json:"early,omitempty"`
	// Late: terminating calls made and finished while the non-terminating one(s) are in flight.
	Late []string `json:"late,omitempty"`
	// Twin: a second non-terminating call (same export, own goroutine and api.Function).
	Twin string `json:"twin,omitempty"`
}

// Result is what one execution observed.
type Result struct {
	Msg        string // non-empty = the property is violated
	Outcome    string // "exit" | "stack-overflow" | "ok" | other
	Heartbeat  bool   // the guest was running when the trigger was armed
	TriggerLag time.Duration
}

// hostRecursion is the host side of Shape.Kind "host-recursion".
type hostRecursion struct {
	at        int // the entry at which the context is made done (0 = never: control group)
	fire      func()
	entered   int
	afterDone int  // entries with a context that was already done
	runaway   bool // the guest kept calling although its context was done
}

// afterDoneBound: the context becomes done inside the host function; the call it then makes must
// not run the guest at all, so no further entry is expected. A small allowance anyway.
const afterDoneBound = 2

func (h *hostRecursion) enter(ctx context.Context, mod api.Module) {
	h.entered++
	if ctx.Err() != nil {
		h.afterDone++
		if h.afterDone > afterDoneBound {
			h.runaway = true
			return // end the experiment instead of exhausting the Go stack
		}
	}
	if h.entered == h.at && h.fire != nil {
		h.fire()
	}
	if _, err := mod.ExportedFunction("cycle").Call(ctx); err != nil {
		panic(err)
	}
}

// expiring is a context whose deadline is reached when expire is called (Done closed, Err =
// context.DeadlineExceeded): a deadline context without the wall clock.
type expiring struct {
	context.Context
	mu   sync.Mutex
	done chan struct{}
	err  error
}

func (d *expiring) Done() <-chan struct{} { return d.done }
func (d *expiring) Err() error {
	d.mu.Lock()
	defer d.mu.Unlock()
	return d.err
}
func (d *expiring) Deadline() (time.Time, bool) { return time.Now().Add(time.Hour), true }
func (d *expiring) expire() {
	d.mu.Lock()
	defer d.mu.Unlock()
	if d.err == nil {
		d.err = context.DeadlineExceeded
		close(d.done)
	}
}

// ---- noise ----

var (
	binTrapStart = func() []byte { // (func unreachable) (start 0)
		m := &wasmenc.Module{}
		m.Start = wasmenc.P(m.AddFunc(nil, nil, nil, wasmenc.NewB().Unreachable().Bytes()))
		return m.Encode()
	}()
	binSpinStart = func() []byte { // (func (loop (br 0))) (start 0)
		m := &wasmenc.Module{}
		m.Start = wasmenc.P(m.AddFunc(nil, nil, nil, wasmenc.NewB().Loop().Br(0).End().Bytes()))
		return m.Encode()
	}()
	binHealthy = func() []byte {
		m := &wasmenc.Module{}
		m.ExportFunc("f", m.AddFunc(nil, nil, nil, wasmenc.NewB().Nop().Bytes()))
		return m.Encode()
	}()
)

// failFS is a file system whose root directory fails to close (think of a network mount).
type failFS struct{}

func (failFS) Open(name string) (fs.File, error) {
	if name == "." {
		return failDir{}, nil
	}
	return nil, fs.ErrNotExist
}

type failDir struct{}

func (failDir) Stat() (fs.FileInfo, error) { return failDirInfo{}, nil }
func (failDir) Read([]byte) (int, error)   { return 0, io.EOF }
func (failDir) Close() error               { return errors.New("close failed") }

type failDirInfo struct{}

func (failDirInfo) Name() string       { return "." }
func (failDirInfo) Size() int64        { return 0 }
func (failDirInfo) Mode() fs.FileMode  { return fs.ModeDir | 0o755 }
func (failDirInfo) ModTime() time.Time { return time.Time{} }
func (failDirInfo) IsDir() bool        { return true }
func (failDirInfo) Sys() any           { return nil }

// doNoise performs the noise steps. What they return is C10's business; here they only have to
// leave the runtime in a state in which every stop route still reaches the running guest.
func doNoise(bg context.Context, rt wazero.Runtime, noise []string) (msg string) {
	defer func() {
		if r := recover(); r != nil {
			msg = fmt.Sprintf("noise step panicked: %v", r)
		}
	}()
	inst := func(ctx context.Context, bin []byte, cfg wazero.ModuleConfig) api.Module {
		cm, err := rt.CompileModule(bg, bin)
		if err != nil {
			return nil
		}
		m, _ := rt.InstantiateModule(ctx, cm, cfg)
		return m
	}
	for k, n := range noise {
		name := fmt.Sprintf("noise%d", k)
		switch n {
		case "dup-name":
			inst(bg, binHealthy, wazero.NewModuleConfig().WithName("a"))
		case "failing-start":
			inst(bg, binTrapStart, wazero.NewModuleConfig().WithName(name))
		case "cancelled-start":
			ctx, cancel := context.WithCancel(bg)
			cancel()
			inst(ctx, binSpinStart, wazero.NewModuleConfig().WithName(name))
		case "other":
			inst(bg, binHealthy, wazero.NewModuleConfig().WithName(name))
		case "other-closed":
			if m := inst(bg, binHealthy, wazero.NewModuleConfig().WithName(name)); m != nil {
				m.Close(bg)
			}
		case "fs-close-error":
			cfg := wazero.NewModuleConfig().WithName(name).WithFSConfig(wazero.NewFSConfig().WithFSMount(failFS{}, "/"))
			if p, err := wasiproxy.New(bg, rt, cfg, 1, -1); err == nil {
				// touch the pre-opened root directory as a WASI guest does: this opens it
				p.Call(bg, "fd_fdstat_get", 3, 0)
				p.Call(bg, "fd_filestat_get", 3, 64)
				p.Call(bg, "fd_readdir", 3, 256, 128, 0, 200)
			}
		}
	}
	return ""
}

// listenerFactory attaches a listener that does nothing to every function.
type listenerFactory struct{}

func (listenerFactory) NewFunctionListener(api.FunctionDefinition) experimental.FunctionListener {
	return nopListener{}
}

type nopListener struct{}

func (nopListener) Before(context.Context, api.Module, api.FunctionDefinition, []uint64, experimental.StackIterator) {
}
func (nopListener) After(context.Context, api.Module, api.FunctionDefinition, []uint64) {}
func (nopListener) Abort(context.Context, api.Module, api.FunctionDefinition, error)    {}

// ---- watchdog ----

var inReplay atomic.Bool

// armWatchdog makes a call that never returns end the process: a Go timer first and, because a
// compiled guest that spins without ever leaving native code starves Go timers when GOMAXPROCS
// is 1, an external watchdog process behind it (watchdog_test.go). The returned function disarms
// both.
func armWatchdog(c *Case) func() {
	b, _ := json.Marshal(c)
	t := time.AfterFunc(watchdogTime, func() {
		msg := fmt.Sprintf("the call did not return within %v (cause %s, %s); case: %s", watchdogTime, c.Cause, c.Engine, b)
		if inReplay.Load() {
			evid.Violation("replay", c, "%s", msg)
		}
		fmt.Fprintf(os.Stderr, "\nfatal error: C07 watchdog: %s\n", msg)
		os.Exit(3)
	})
	externalWatchdog("arm")
	return func() {
		t.Stop()
		externalWatchdog("disarm")
	}
}

// ---- execution ----

type env struct {
	started   chan struct{} // closed when `need` heartbeats were seen
	need      int32
	seen      atomic.Int32
	startOnce sync.Once
	hbTime    atomic.Int64
	parked    chan struct{} // one token per call parked in gate
	release   chan struct{} // closed to let the parked calls go
}

func (e *env) gate() {
	e.parked <- struct{}{}
	<-e.release
}

// onHeartbeat is set by the helper process of known_test.go.
var onHeartbeat func()

func (e *env) heartbeat() {
	if e.seen.Add(1) < e.need {
		return
	}
	e.startOnce.Do(func() {
		e.hbTime.Store(time.Now().UnixNano())
		close(e.started)
		if onHeartbeat != nil {
			onHeartbeat()
		}
	})
}

func runCase(c *Case) (res Result) {
	procs := c.Procs
	if procs < 1 {
		procs = runtime.NumCPU()
	}
	old := runtime.GOMAXPROCS(procs)
	defer runtime.GOMAXPROCS(old)

	bg := context.Background()
	cfg := wz.Config(c.Engine).WithCloseOnContextDone(true)
	if c.Cache != "" {
		var cache wazero.CompilationCache
		if c.Cache == "dir" {
			dir, err := os.MkdirTemp(evid.WorkDir(), "c07-cache-")
			if err != nil {
				res.Msg = "harness: " + err.Error()
				return
			}
			defer os.RemoveAll(dir)
			if cache, err = wazero.NewCompilationCacheWithDir(dir); err != nil {
				res.Msg = "harness: " + err.Error()
				return
			}
		} else {
			cache = wazero.NewCompilationCache()
		}
		defer cache.Close(bg)
		cfg = cfg.WithCompilationCache(cache)
		if c.Primed != "" {
			// another runtime that shares the cache compiled the very same binaries first
			other := wazero.NewRuntimeWithConfig(bg, wz.Config(c.Engine).WithCloseOnContextDone(c.Primed == "on").WithCompilationCache(cache))
			defer other.Close(bg)
			bins := [][]byte{buildCycle(&c.Shape)}
			if c.Shape.twoModules() {
				bins = append(bins, buildOuter(&c.Shape))
			}
			for _, b := range bins {
				if _, err := other.CompileModule(bg, b); err != nil {
					res.Msg = "harness: priming the cache: " + err.Error()
					return
				}
			}
		}
	}
	rt := wazero.NewRuntimeWithConfig(bg, cfg)
	defer rt.Close(bg)
	ev := &env{started: make(chan struct{}), need: 1, parked: make(chan struct{}, 8), release: make(chan struct{})}
	ov := c.Overlap
	if ov == nil || c.Cause == "none" || c.Shape.Entry == "start" || c.Shape.Entry == "_start" {
		ov = &Overlap{}
	}
	if ov.Twin != "" {
		ev.need = 2
	}
	hr := &hostRecursion{at: c.Shape.TriggerDepth}
	_, err := rt.NewHostModuleBuilder("env").
		NewFunctionBuilder().WithFunc(func(ctx context.Context) { ev.heartbeat() }).Export("hb").
		NewFunctionBuilder().WithFunc(func(ctx context.Context) {}).Export("nop").
		NewFunctionBuilder().WithFunc(func(ctx context.Context) { ev.gate() }).Export("gate").
		NewFunctionBuilder().WithFunc(func(ctx context.Context) { time.Sleep(time.Duration(c.Shape.SleepMs) * time.Millisecond) }).Export("nap").
		NewFunctionBuilder().WithFunc(func(ctx context.Context, mod api.Module) uint32 {
		// guest -> host -> guest: a fresh function object, the context passed through
		r, err := mod.ExportedFunction("spin").Call(ctx)
		if err != nil {
			panic(err)
		}
		return uint32(r[0])
	}).Export("reenter").
		NewFunctionBuilder().WithFunc(func(ctx context.Context, mod api.Module) { hr.enter(ctx, mod) }).Export("recur").
		Instantiate(bg)
	if err != nil {
		res.Msg = "harness: host module: " + err.Error()
		return
	}
	s := &c.Shape
	cycleBin := buildCycle(s)
	cctx := bg // the context of compilation
	if c.Listener != "" {
		cctx = experimental.WithFunctionListenerFactory(bg, listenerFactory{})
	}
	cmCycle, err := rt.CompileModule(cctx, cycleBin)
	if err != nil {
		res.Msg = "harness: the generated guest does not compile: " + err.Error()
		return
	}
	startEntry := s.Entry == "start" || s.Entry == "_start"
	control := c.Cause == "none"

	// the context of the call
	ctx, cancel := bg, context.CancelFunc(func() {})
	delay := time.Duration(c.DelayUs) * time.Microsecond
	var deadline time.Time
	switch {
	case c.Cause == "cancel" && c.Flavor == "cause":
		cctx, cc := context.WithCancelCause(bg)
		ctx, cancel = cctx, func() { cc(errCustomCause) }
	case c.Cause == "cancel" || c.Cause == "done-cancel" || (control && c.CtlCtx == "cancel"):
		ctx, cancel = context.WithCancel(bg)
	case c.Cause == "done-deadline":
		ctx, cancel = context.WithDeadline(bg, time.Now().Add(-time.Second))
	case control && c.CtlCtx == "timeout":
		ctx, cancel = context.WithTimeout(bg, time.Hour)
	}
	defer func() { cancel() }()
	if c.Cause == "done-cancel" {
		cancel()
	}

	var mod api.Module // the module whose function is called
	if !startEntry {
		name := "a"
		if s.twoModules() {
			name = "b"
		}
		inner, err := rt.InstantiateModule(bg, cmCycle, wazero.NewModuleConfig().WithName(name).WithStartFunctions())
		if err != nil {
			res.Msg = "harness: instantiate: " + err.Error()
			return
		}
		mod = inner
		if s.twoModules() {
			cmOuter, err := rt.CompileModule(cctx, buildOuter(s))
			if err != nil {
				res.Msg = "harness: outer module: " + err.Error()
				return
			}
			if mod, err = rt.InstantiateModule(bg, cmOuter, wazero.NewModuleConfig().WithName("a")); err != nil {
				res.Msg = "harness: instantiate outer: " + err.Error()
				return
			}
		}
	}

	if !startEntry {
		if msg := doNoise(bg, rt, c.Noise); msg != "" {
			res.Msg = msg
			return
		}
	}

	selfTrigger := s.Kind == "host-recursion" && !control
	var selfFired atomic.Int64
	if selfTrigger {
		// the host function of the cycle makes the context done at the drawn depth
		switch c.Cause {
		case "timeout":
			ex := &expiring{Context: bg, done: make(chan struct{})}
			ctx = ex
			hr.fire = func() { selfFired.Store(time.Now().UnixNano()); ex.expire() }
		default:
			hr.fire = func() { selfFired.Store(time.Now().UnixNano()); cancel() }
		}
	}

	// the trigger: armed by the heartbeat (and, with overlapping calls, once the terminating ones
	// have returned), fired after the delay
	armed := make(chan struct{})
	finished := make(chan struct{})
	triggerDone := make(chan struct{})
	var firedAt atomic.Int64
	go func() {
		defer close(triggerDone)
		if (c.Cause != "cancel" && !c.closeCause()) || selfTrigger {
			return
		}
		select {
		case <-armed:
		case <-finished:
			return
		}
		if delay > 0 {
			time.Sleep(delay)
		}
		firedAt.Store(time.Now().UnixNano())
		switch c.Cause {
		case "cancel":
			cancel()
		case "close":
			mod.Close(bg)
		case "close-code":
			mod.CloseWithExitCode(bg, c.Code)
		case "rt-close":
			rt.Close(bg) // its error (a noise module may fail to close) does not matter here
		case "rt-close-code":
			rt.CloseWithExitCode(bg, c.Code)
		}
	}()

	if c.Cause == "timeout" && !selfTrigger {
		deadline = time.Now().Add(delay)
		var cancelT context.CancelFunc
		if c.Flavor == "cause" {
			ctx, cancelT = context.WithDeadlineCause(bg, deadline, errCustomCause)
		} else {
			ctx, cancelT = context.WithDeadline(bg, deadline)
		}
		defer cancelT()
	}
	if c.Flavor == "child" {
		ctx = context.WithValue(ctx, ctxKey{}, 1)
	}

	// contexts of the overlapping calls
	var childCancels []context.CancelFunc
	defer func() {
		for _, cc := range childCancels {
			cc()
		}
	}()
	related := func(rel string) context.Context {
		switch rel {
		case "value":
			return context.WithValue(ctx, ctxKey{}, 2)
		case "child":
			cctx, cc := context.WithCancel(ctx)
			childCancels = append(childCancels, cc)
			return cctx
		}
		return ctx
	}
	type sideResult struct {
		what string
		res  []uint64
		err  error
		at   time.Time
	}
	sideCall := func(what, export string, cctx context.Context, ch chan<- sideResult) {
		var r sideResult
		r.what = what
		defer func() {
			if p := recover(); p != nil {
				r.err = fmt.Errorf("panic escaped the call: %v", p)
			}
			r.at = time.Now()
			ch <- r
		}()
		r.res, r.err = mod.ExportedFunction(export).Call(cctx)
	}
	earlyCh := make(chan sideResult, len(ov.Early))
	twinCh := make(chan sideResult, 1)
	var overlapMsg atomic.Value // string: what went wrong with a terminating overlapping call
	// 1. the early terminating calls start first and park in the host
	for i, rel := range ov.Early {
		go sideCall(fmt.Sprintf("early terminating call %d (%s context)", i, rel), "wait", related(rel), earlyCh)
	}
	for range ov.Early {
		select {
		case <-ev.parked:
		case <-time.After(watchdogTime):
			res.Msg = "harness: an early overlapping call did not reach the host function"
			close(ev.release)
			return
		}
	}
	// 2. the non-terminating calls start (the main one below, on this goroutine)
	if ov.Twin != "" {
		go sideCall("second non-terminating call ("+ov.Twin+" context)", "go", related(ov.Twin), twinCh)
	}
	// 3. once they are in flight: the early calls return, the late calls are made, then the
	// trigger is armed
	go func() {
		select {
		case <-ev.started:
		case <-finished:
			close(ev.release)
			return
		}
		close(ev.release)
		fail := func(r sideResult, want uint64) {
			if r.err != nil || len(r.res) != 1 || r.res[0] != want {
				overlapMsg.Store(fmt.Sprintf("%s, finished before anything was triggered, returned (%v, %v), expected %d", r.what, r.res, r.err, want))
			}
		}
		for range ov.Early {
			fail(<-earlyCh, waitResult)
		}
		for i, rel := range ov.Late {
			ch := make(chan sideResult, 1)
			sideCall(fmt.Sprintf("late terminating call %d (%s context)", i, rel), "nop", related(rel), ch)
			fail(<-ch, nopResult)
		}
		close(armed)
	}()

	var results []uint64
	var callErr error
	var escaped any
	func() {
		defer func() { escaped = recover() }()
		if startEntry {
			cfg := wazero.NewModuleConfig().WithName("a")
			mod, callErr = rt.InstantiateModule(ctx, cmCycle, cfg)
		} else {
			results, callErr = mod.ExportedFunction("go").Call(ctx)
		}
	}()
	returned := time.Now()
	var twin *sideResult
	if ov.Twin != "" {
		// every in-flight call must come back, not only the one on this goroutine (the watchdog
		// ends the process if it does not)
		r := <-twinCh
		twin = &r
		if r.at.After(returned) {
			returned = r.at
		}
	}
	close(finished)
	<-triggerDone
	res.Heartbeat = ev.hbTime.Load() != 0
	if m, _ := overlapMsg.Load().(string); m != "" {
		res.Msg = m
		return
	}

	if escaped != nil {
		res.Msg = fmt.Sprintf("a panic escaped the call: %v", escaped)
		return
	}
	out := wz.Classify(callErr)
	res.Outcome = out.Kind
	if out.Kind == wz.KExit {
		res.Outcome = "exit"
	}

	if control {
		if callErr != nil {
			res.Msg = fmt.Sprintf("control group (terminating guest, option on, nothing triggered): the call failed with %s (%v)", out, firstLine(callErr))
			return
		}
		got := uint64(0)
		if startEntry {
			if mod == nil {
				res.Msg = "control group: InstantiateModule returned neither module nor error"
				return
			}
			got = mod.ExportedGlobal("g").Get()
		} else if len(results) == 1 {
			got = results[0]
		}
		if got != uint64(s.Limit) {
			res.Msg = fmt.Sprintf("control group: the terminating guest returned %d (results %v), expected %d rounds", got, results, s.Limit)
			return
		}
		if mod.IsClosed() {
			res.Msg = "control group: the module is closed although nothing was triggered"
			return
		}
		r, err := mod.ExportedFunction("nop").Call(bg)
		if err != nil || len(r) != 1 || r[0] != nopResult {
			res.Msg = fmt.Sprintf("control group: a later call gives %v, %v", r, err)
		}
		return
	}

	// triggered cases
	trig := firedAt.Load()
	if selfTrigger {
		if hr.runaway {
			res.Msg = fmt.Sprintf("the guest kept running although the context of its calls was done: the host function closing the cycle was entered %d more times with a context that was already done (each time through a new api.Function.Call with that context)", hr.afterDone)
			return
		}
		trig = selfFired.Load()
	}
	switch {
	case selfTrigger:
	case c.Cause == "timeout":
		trig = deadline.UnixNano()
	case c.Cause == "done-cancel" || c.Cause == "done-deadline":
		trig = 0
	}
	if trig != 0 && returned.UnixNano() > trig {
		res.TriggerLag = time.Duration(returned.UnixNano() - trig)
		if b := c.bound(); res.TriggerLag > b {
			res.Msg = fmt.Sprintf("the call returned only %v after the trigger (cause %s); one round of the cycle costs about %d ms and every round passes a check point, so it should have been back within %v", res.TriggerLag, c.Cause, s.SleepMs, b)
			return
		}
	}
	if c.Cause == "timeout" && !selfTrigger && res.Heartbeat && ev.hbTime.Load() > deadline.UnixNano() {
		res.Heartbeat = false // the deadline had passed before the guest ran
	}
	want := c.wantCode()
	class := s.class()
	if twin != nil {
		to := wz.Classify(twin.err)
		if !(to.Kind == wz.KExit && to.Exit == want) && !(to.Kind == wz.KStack && class == "exit-or-overflow") {
			res.Msg = fmt.Sprintf("the %s returned %s (%q), expected sys.ExitError with code %#x for cause %s", twin.what, to, firstLine(twin.err), want, c.Cause)
			return
		}
	}
	switch {
	case out.Kind == wz.KExit && out.Exit == want:
	case out.Kind == wz.KStack && class == "exit-or-overflow":
		// call-stack exhaustion reached on the engine's own: the resource-limit carve-out
		if c.closeCause() && firedAt.Load() != 0 {
			// the closer has run by now whatever the call returned
			if msg := checkClosed(mod, want, !c.runtimeCause()); msg != "" {
				res.Msg = "after stack overflow and " + c.Cause + ": " + msg
			}
		}
		return
	default:
		res.Msg = fmt.Sprintf("the call returned %s (%q), expected sys.ExitError with code %#x for cause %s (shape class %s)", out, firstLine(callErr), want, c.Cause, class)
		return
	}
	if startEntry {
		return // no module handle is documented to be returned with an error
	}
	if msg := checkClosed(mod, want, !c.runtimeCause()); msg != "" {
		res.Msg = msg
	}
	return
}

// checkClosed: afterwards the module is closed and a new call fails with the same exit error.
func checkClosed(mod api.Module, want uint32, newCall bool) string {
	if !mod.IsClosed() {
		return "the call returned the exit error but mod.IsClosed() is false"
	}
	if !newCall {
		return "" // the runtime is closed: nothing is called in it any more
	}
	r, err := mod.ExportedFunction("nop").Call(context.Background())
	var ee *sys.ExitError
	if !errors.As(err, &ee) || ee.ExitCode() != want {
		return fmt.Sprintf("a new call on the closed module gives (%v, %v), expected sys.ExitError with code %#x", r, err, want)
	}
	return ""
}

func firstLine(err error) string {
	if err == nil {
		return ""
	}
	s := err.Error()
	for i := 0; i < len(s); i++ {
		if s[i] == '\n' {
			s = s[:i]
			break
		}
	}
	if len(s) > 160 {
		s = s[:160]
	}
	return s
}

// guarded runs a case under journal + watchdog.
func guarded(c *Case) Result {
	evid.Journal(c)
	disarm := armWatchdog(c)
	defer disarm()
	return runCase(c)
}

// ---- generator ----

var delaysUs = []int{0, 100, 1000, 10000, 50000}

func genShape(t *rapid.T) Shape {
	s := Shape{}
	if rapid.IntRange(0, 11).Draw(t, "host-recursion") == 0 {
		s.Kind = "host-recursion"
		s.TriggerDepth = rapid.SampledFrom([]int{1, 2, 3, 10, 50, 200}).Draw(t, "trigger-depth")
		s.Entry = rapid.SampledFrom([]string{"export", "export", "callback"}).Draw(t, "entry")
		return s
	}
	if rapid.IntRange(0, 9).Draw(t, "kind") < 6 {
		s.Kind = "loop"
		s.Back = rapid.SampledFrom([]string{"br", "br_if", "br_table"}).Draw(t, "back")
		s.Depth = rapid.IntRange(0, 3).Draw(t, "depth")
		s.BT = rapid.IntRange(0, 2).Draw(t, "blocktype")
		s.Nest = rapid.SampledFrom([]string{"", "", "outer", "inner"}).Draw(t, "nest")
		s.Body = rapid.SampledFrom([]string{"", "", "call", "call-loop", "indirect", "host"}).Draw(t, "body")
	} else {
		s.Kind = "calls"
		n := rapid.IntRange(1, 3).Draw(t, "cycle-length")
		family := rapid.SampledFrom([]string{"any", "any", "tail", "tail", "nontail"}).Draw(t, "edge-family")
		for i := 0; i < n; i++ {
			var ed string
			switch family {
			case "tail":
				ed = rapid.SampledFrom([]string{"return_call", "return_call_indirect"}).Draw(t, "edge")
			case "nontail":
				ed = rapid.SampledFrom([]string{"call", "call_indirect"}).Draw(t, "edge")
			default:
				ed = rapid.SampledFrom([]string{"call", "call_indirect", "return_call", "return_call_indirect"}).Draw(t, "edge")
			}
			s.Edges = append(s.Edges, ed)
		}
		s.Inner = rapid.SampledFrom([]int{0, 1, 10, 1000, 1000}).Draw(t, "inner-loop")
	}
	if rapid.IntRange(0, 3).Draw(t, "slow-round") == 0 {
		// a round that is slow: 1023 of them take 5-10 s
		s.SleepMs = rapid.SampledFrom([]int{5, 8, 10}).Draw(t, "sleep-ms")
		s.SleepVia = rapid.SampledFrom([]string{"body", "callee"}).Draw(t, "sleep-via")
		if !s.hasCheckPoint() {
			// plain recursion without any loop has no check point and would need hours of such
			// rounds to exhaust the stack: give every level a loop header
			s.Inner = 1
		}
	}
	s.Entry = rapid.SampledFrom([]string{"export", "export", "callback", "callback", "import", "import2", "import2", "start", "_start"}).Draw(t, "entry")
	return s
}

func genCase(t *rapid.T) *Case {
	c := &Case{Engine: rapid.SampledFrom(wz.Engines).Draw(t, "engine")}
	c.Shape = genShape(t)
	c.Procs = rapid.SampledFrom([]int{1, 2, 16, 16}).Draw(t, "gomaxprocs")
	if rapid.IntRange(0, 3).Draw(t, "listener") == 0 {
		c.Listener = "all"
	}
	c.Shape.Mem = rapid.SampledFrom([]string{"", "nomax", "nomax", "max"}).Draw(t, "memory")
	if rapid.IntRange(0, 3).Draw(t, "with-cache") == 0 {
		c.Cache = rapid.SampledFrom([]string{"mem", "mem", "dir"}).Draw(t, "cache")
		c.Primed = rapid.SampledFrom([]string{"off", "off", "on", ""}).Draw(t, "primed-by")
	}
	if rapid.IntRange(0, 7).Draw(t, "control") == 0 {
		c.Cause = "none"
		c.CtlCtx = rapid.SampledFrom([]string{"background", "cancel", "timeout"}).Draw(t, "control-ctx")
		c.Shape.Limit = rapid.SampledFrom([]int{1, 2, 17, 300}).Draw(t, "rounds")
		if c.Shape.SleepMs > 0 && c.Shape.Limit > 17 {
			c.Shape.Limit = 17
		}
		return c
	}
	causes := []string{"cancel", "cancel", "timeout", "timeout", "close", "close-code", "rt-close", "rt-close-code", "done-cancel", "done-deadline"}
	if c.Shape.Entry == "start" || c.Shape.Entry == "_start" {
		causes = []string{"cancel", "cancel", "timeout", "timeout", "done-cancel", "done-deadline"} // no module handle to close
	}
	if c.Shape.Kind == "host-recursion" {
		// the context becomes done inside the host function that closes the cycle; closing the
		// module instead would not do: such a cycle passes no point at which the closed flag is read
		causes = []string{"cancel", "cancel", "timeout", "timeout", "done-cancel", "done-deadline"}
	}
	c.Cause = rapid.SampledFrom(causes).Draw(t, "cause")
	if c.Cause == "cancel" || c.Cause == "timeout" {
		c.Flavor = rapid.SampledFrom([]string{"", "", "cause", "child"}).Draw(t, "flavor")
	}
	c.DelayUs = rapid.SampledFrom(delaysUs).Draw(t, "delay")
	if c.Cause == "close-code" || c.Cause == "rt-close-code" {
		c.Code = rapid.SampledFrom([]uint32{0, 1, 2, 255, 0x7fffffff, 0xfffffffe}).Draw(t, "code")
	}
	if c.Cause == "done-cancel" || c.Cause == "done-deadline" {
		c.DelayUs = 0
	}
	startEntry := c.Shape.Entry == "start" || c.Shape.Entry == "_start"
	if !startEntry && rapid.IntRange(0, 1).Draw(t, "with-noise") == 0 {
		c.Noise = rapid.SliceOfN(rapid.SampledFrom([]string{"dup-name", "dup-name", "failing-start", "cancelled-start", "other", "other-closed", "fs-close-error"}), 1, 3).Draw(t, "noise")
	}
	if (c.Cause == "cancel" || c.closeCause()) && !startEntry && c.Shape.Kind != "host-recursion" && rapid.IntRange(0, 2).Draw(t, "overlap") == 0 {
		// other calls on the same instance overlap with the non-terminating one
		rel := rapid.SampledFrom([]string{"same", "same", "value", "child"})
		ov := &Overlap{
			Early: rapid.SliceOfN(rel, 0, 2).Draw(t, "early-calls"),
			Late:  rapid.SliceOfN(rel, 0, 2).Draw(t, "late-calls"),
		}
		if rapid.IntRange(0, 2).Draw(t, "twin") == 0 {
			ov.Twin = rel.Draw(t, "twin-ctx")
		}
		if len(ov.Early)+len(ov.Late) > 0 || ov.Twin != "" {
			c.Overlap = ov
		}
	}
	return c
}

func caseKey(c *Case) uint64 {
	b, _ := json.Marshal(c)
	return evid.Key(b)
}

func labelsOf(c *Case, r Result) []string {
	s := &c.Shape
	l := []string{"engine:" + c.Engine, "cause:" + c.Cause, "ctx-flavor:" + c.Flavor, "entry:" + s.Entry, fmt.Sprintf("gomaxprocs:%d", c.Procs), "outcome:" + r.Outcome}
	if c.Cause != "none" {
		l = append(l, fmt.Sprintf("delay_us:%d", c.DelayUs), "class:"+s.class())
	}
	if s.Kind == "host-recursion" {
		l = append(l, "host-recursion", fmt.Sprintf("host-recursion:context-done-at-depth:%d", s.TriggerDepth))
	} else if s.Kind == "loop" {
		l = append(l, "loop:back:"+s.Back, fmt.Sprintf("loop:blocktype:%d", s.BT), fmt.Sprintf("loop:branch-depth:%d", s.Depth))
		if s.Nest != "" {
			l = append(l, "loop:nest:"+s.Nest)
		}
		if s.Body != "" {
			l = append(l, "loop:body:"+s.Body)
		}
	} else {
		tail, non := 0, 0
		for _, ed := range s.Edges {
			l = append(l, "calls:edge:"+ed)
			if ed == "call" || ed == "call_indirect" {
				non++
			} else {
				tail++
			}
		}
		switch {
		case tail > 0 && non > 0:
			l = append(l, "calls:mixed-tail-and-plain")
		case tail > 0 && s.Inner == 0:
			l = append(l, "calls:tail-calls-only")
		case tail > 0:
			l = append(l, "calls:tail-calls-with-inner-loop")
		case s.Inner == 0:
			l = append(l, "calls:pure-recursion")
		default:
			l = append(l, "calls:recursion-with-inner-loop")
		}
		l = append(l, fmt.Sprintf("calls:cycle-length:%d", len(s.Edges)))
	}
	l = append(l, "memory:"+s.Mem)
	if c.Listener != "" {
		l = append(l, "function-listeners", "function-listeners:"+s.Kind+":"+c.Engine)
		if s.tailOnly() {
			l = append(l, "function-listeners:tail-call-cycle:"+c.Engine)
		}
	}
	if c.Cache != "" {
		l = append(l, "cache:"+c.Cache+":primed-by-runtime-with-option-"+c.Primed)
	}
	for _, n := range c.Noise {
		l = append(l, "noise:"+n)
	}
	if ov := c.Overlap; ov != nil {
		l = append(l, "overlapping-calls")
		if len(ov.Early) > 0 {
			l = append(l, "overlap:terminating-call-started-first-returns-before-trigger")
		}
		if len(ov.Late) > 0 {
			l = append(l, "overlap:terminating-call-inside-the-flight")
		}
		if ov.Twin != "" {
			l = append(l, "overlap:two-non-terminating-calls")
		}
	}
	if s.SleepMs > 0 {
		l = append(l, "slow-round:"+s.SleepVia, "slow-round:"+s.Kind+":"+c.Engine)
	}
	if r.Heartbeat {
		l = append(l, "in-flight-when-triggered")
	}
	return l
}

func TestCycles(t *testing.T) {
	if evid.ReplayPath() != "" {
		t.Skip()
	}
	knownClasses(t)
	evid.Check(t, "cycles", evid.Scale(2000, 48000), func(t *rapid.T) {
		c := genCase(t)
		exclude(c)
		r := guarded(c)
		if r.Msg != "" {
			evid.Fail(t, c, "%s on %s: %s", shapeString(&c.Shape), c.Engine, r.Msg)
		}
		nontrivial := c.Cause != "none" && r.Heartbeat && !c.Shape.plain() && c.Cause != "done-cancel" && c.Cause != "done-deadline"
		evid.Case(caseKey(c), nontrivial, labelsOf(c, r)...)
		if c.Cause != "none" && c.bound() != returnBound && r.TriggerLag > 0 {
			// distribution of the observed latency for the shapes held to the prompt bound
			lag := r.TriggerLag - time.Duration(c.Shape.SleepMs)*time.Millisecond
			switch {
			case lag < 10*time.Millisecond:
				evid.Label("latency-beyond-one-round:<10ms", 1)
			case lag < 100*time.Millisecond:
				evid.Label("latency-beyond-one-round:<100ms", 1)
			case lag < time.Second:
				evid.Label("latency-beyond-one-round:<1s", 1)
			default:
				evid.Label("latency-beyond-one-round:>=1s", 1)
			}
		}
		if r.TriggerLag > time.Second {
			evid.Label(fmt.Sprintf("returned-more-than-1s-after-trigger:%s:gomaxprocs=%d:%s:%s", c.Engine, c.Procs, c.Cause, c.Shape.class()), 1)
			evid.Sample("slow-return", 4, map[string]any{"case": c, "lag_ms": r.TriggerLag.Milliseconds()})
		}
		if nontrivial {
			evid.Sample("cycle:"+c.Shape.Kind+":"+c.Engine, 1, c)
		}
	})
}

func shapeString(s *Shape) string {
	b, _ := json.Marshal(s)
	return string(b)
}

func TestReplay(t *testing.T) {
	p := evid.ReplayPath()
	if p == "" {
		t.Skip()
	}
	var c Case
	if _, err := evid.LoadReplay(p, &c); err != nil {
		t.Fatal(err)
	}
	inReplay.Store(true)
	disarm := armWatchdog(&c)
	defer disarm()
	if r := runCase(&c); r.Msg != "" {
		evid.Violation("replay", c, "%s", r.Msg)
		t.Fatal(r.Msg)
	}
}
