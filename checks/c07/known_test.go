package c07

import (
	"bufio"
	"encoding/json"
	"fmt"
	"os"
	"os/exec"
	"strings"
	"sync"
	"testing"
	"time"

	"verif/internal/evid"
	"verif/internal/wz"
)

// Known findings. Each has specific inputs that are run here, each in a child process (a guest
// that does not stop cannot be killed from inside the process): the test binary is re-executed
// with -test.run of TestHelperCase and killed when it does not finish in time.
//
// While an input of a finding still fails, the finding's class is excluded from the generator of
// TestCycles by construction (counted); once all its inputs pass, nothing is excluded any more.
//
//   - C07-tailcall-cycle-no-check: a cycle that consists only of tail calls (return_call /
//     return_call_indirect) contains no termination check on either engine.
//   - C07-interp-check-wrong-instance: the interpreter's check at a loop header tests the closed
//     flag of the instance of the function that made the current call, not of the module whose
//     exported function was called: a loop in another instance that is reached through an import
//     and then one more (local) call never sees the close.
const (
	idTailCall    = "C07-tailcall-cycle-no-check"
	idInterpOther = "C07-interp-check-wrong-instance"
	helperEnv     = "VERIF_C07_HELPER_CASE"
)

type finding struct {
	id     string
	what   string
	inputs []*Case
	live   bool
}

var findings = []*finding{
	{id: idTailCall, what: "a guest cycle consisting only of tail calls is not stopped by close-on-context-done"},
	{id: idInterpOther, what: "interpreter: a loop in a function of another instance, reached through an import and one further local call, is not stopped by close-on-context-done"},
}

func init() {
	for _, eng := range wz.Engines {
		findings[0].inputs = append(findings[0].inputs,
			&Case{Engine: eng, Shape: Shape{Kind: "calls", Edges: []string{"return_call"}, Entry: "export"}, Cause: "cancel", DelayUs: 1000, Procs: 16},
			&Case{Engine: eng, Shape: Shape{Kind: "calls", Edges: []string{"return_call_indirect", "return_call_indirect"}, Entry: "export"}, Cause: "timeout", DelayUs: 10000, Procs: 16})
	}
	findings[1].inputs = []*Case{
		{Engine: "interpreter", Shape: Shape{Kind: "loop", Back: "br", Entry: "import2"}, Cause: "cancel", DelayUs: 1000, Procs: 16},
		{Engine: "interpreter", Shape: Shape{Kind: "loop", Back: "br", Entry: "import2"}, Cause: "close", DelayUs: 1000, Procs: 16},
		{Engine: "interpreter", Shape: Shape{Kind: "calls", Edges: []string{"return_call"}, Inner: 10, Entry: "import"}, Cause: "timeout", DelayUs: 10000, Procs: 16},
	}
}

// exclude moves a generated case out of the classes of the live findings (counted).
func exclude(c *Case) {
	if c.Cause == "none" {
		return
	}
	if findings[0].live && c.Shape.tailOnly() && c.Shape.Inner == 0 {
		// class: cycle consisting only of tail calls. Give every level a loop header.
		evid.Label("excluded-"+idTailCall, 1)
		c.Shape.Inner = 10
	}
	if findings[1].live && interpBlind(c) {
		// class: interpreter, every loop header of the cycle lies in a function of another
		// instance that was entered by a call from within that instance
		evid.Label("excluded-"+idInterpOther, 1)
		if c.Shape.Kind == "loop" {
			c.Shape.Entry = "import" // the loop sits in the imported function itself
		} else {
			c.Shape.Entry = "export"
		}
	}
}

// interpBlind: under the interpreter the check at a loop header consults the instance of the
// function that made the current call. With the cycle in instance b and the called function in
// instance a, that is b (never closed) unless the loop is in the imported function itself.
func interpBlind(c *Case) bool {
	return c.Engine == "interpreter" && c.Shape.twoModules() && (c.Shape.Entry == "import2" || c.Shape.Kind == "calls")
}

type childResult struct {
	hung      bool
	heartbeat bool
	res       *Result
	problem   string // the child could not be judged
}

// runInChild executes the case in a child process and waits at most `wait` after the guest's
// heartbeat (the trigger follows the heartbeat by the case's delay) for it to finish.
func runInChild(c *Case, wait time.Duration) childResult {
	b, _ := json.Marshal(c)
	cmd := exec.Command(os.Args[0], "-test.run", "^TestHelperCase$", "-test.count=1", "-test.v")
	for _, kv := range os.Environ() {
		k := strings.SplitN(kv, "=", 2)[0]
		switch k {
		case "VERIF_SHARD_OUT", "VERIF_JOURNAL", "VERIF_REPLAY", helperEnv:
			continue
		}
		cmd.Env = append(cmd.Env, kv)
	}
	cmd.Env = append(cmd.Env, helperEnv+"="+string(b))
	out, err := cmd.StdoutPipe()
	if err != nil {
		return childResult{problem: err.Error()}
	}
	cmd.Stderr = cmd.Stdout
	if err := cmd.Start(); err != nil {
		return childResult{problem: err.Error()}
	}
	lines := make(chan string, 64)
	go func() {
		sc := bufio.NewScanner(out)
		sc.Buffer(make([]byte, 1<<20), 1<<20)
		for sc.Scan() {
			lines <- sc.Text()
		}
		close(lines)
	}()
	var cr childResult
	timer := time.NewTimer(60 * time.Second) // until the heartbeat: process start under load
	defer timer.Stop()
	for {
		select {
		case l, ok := <-lines:
			if !ok {
				cmd.Wait()
				if cr.res == nil {
					cr.problem = "the child ended without a result"
				}
				return cr
			}
			switch {
			case strings.HasPrefix(l, "C07-HELPER heartbeat"):
				cr.heartbeat = true
				timer.Reset(wait)
			case strings.HasPrefix(l, "C07-HELPER result "):
				var r Result
				if json.Unmarshal([]byte(strings.TrimPrefix(l, "C07-HELPER result ")), &r) == nil {
					cr.res = &r
				}
			}
		case <-timer.C:
			cmd.Process.Kill()
			cmd.Wait()
			if cr.heartbeat {
				cr.hung = true
			} else {
				cr.problem = "the child did not reach the guest's heartbeat"
			}
			return cr
		}
	}
}

// TestHelperCase runs in the child process only.
func TestHelperCase(t *testing.T) {
	js := os.Getenv(helperEnv)
	if js == "" {
		t.Skip()
	}
	var c Case
	if err := json.Unmarshal([]byte(js), &c); err != nil {
		t.Fatal(err)
	}
	time.AfterFunc(2*time.Minute, func() { os.Exit(4) }) // never outlive the parent by much
	onHeartbeat = func() { fmt.Println("C07-HELPER heartbeat") }
	r := runCase(&c)
	b, _ := json.Marshal(r)
	fmt.Println("C07-HELPER result " + string(b))
}

var knownOnce sync.Once

// knownClasses runs the specific inputs of the known findings (every shard needs the answer;
// shard 0 reports) and records which classes still fail.
func knownClasses(t *testing.T) {
	knownOnce.Do(func() {
		wait := 6 * time.Second
		if evid.Thorough() {
			wait = 12 * time.Second
		}
		type job struct {
			f *finding
			c *Case
			r childResult
		}
		var jobs []*job
		for _, f := range findings {
			for _, c := range f.inputs {
				jobs = append(jobs, &job{f: f, c: c})
			}
		}
		var wg sync.WaitGroup
		for _, j := range jobs {
			wg.Add(1)
			go func(j *job) {
				defer wg.Done()
				j.r = runInChild(j.c, wait)
			}(j)
		}
		wg.Wait()
		shard, _ := evid.Shard()
		for _, f := range findings {
			var failing []string
			var first *Case
			for _, j := range jobs {
				if j.f != f {
					continue
				}
				desc := fmt.Sprintf("%s on %s (cause %s)", shapeString(&j.c.Shape), j.c.Engine, j.c.Cause)
				switch {
				case j.r.problem != "":
					evid.Incomplete("known-finding input %s could not be judged: %s", desc, j.r.problem)
					continue
				case j.r.hung:
					failing = append(failing, desc+": no return")
				case j.r.res != nil && j.r.res.Msg != "":
					failing = append(failing, desc+": "+j.r.res.Msg)
				default:
					continue
				}
				if first == nil {
					first = j.c
				}
			}
			if len(failing) == 0 {
				evid.Note("known class %s: its specific inputs return with the exit error on this tree; the class is not excluded", f.id)
				continue
			}
			f.live = true
			evid.Label("known-class-live:"+f.id, 1)
			if shard == 0 {
				msg := fmt.Sprintf("%s (each input run in a child process, killed %v after the trigger when it had not returned): %s", f.what, wait, strings.Join(failing, "; "))
				if evid.Finding(f.id, "known-finding", first, "%s", msg) {
					t.Errorf("%s", msg)
				}
			}
		}
	})
}

func TestKnownFindings(t *testing.T) {
	if evid.ReplayPath() != "" || os.Getenv(helperEnv) != "" {
		t.Skip()
	}
	knownClasses(t)
}
