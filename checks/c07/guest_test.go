package c07

import (
	e "verif/internal/wasmenc"
)

// Shape describes one way of forming a cycle in the control-flow / call graph of a guest and
// how that cycle is entered.
type Shape struct {
	Kind string `json:"kind"` // "loop" | "calls" | "host-recursion"

	// Kind "host-recursion": the cycle is closed by a host function: guest cycle -> host recur ->
	// mod.ExportedFunction("cycle").Call(ctx) -> guest cycle -> ... with no loop header or tail
	// call on the way. The host function itself makes the context done when it is entered for the
	// TriggerDepth-th time (before it calls back into the guest).
	TriggerDepth int `json:"trigger_depth,omitempty"`

	// Kind "loop"
	Back  string `json:"back,omitempty"`  // back edge: "br" | "br_if" | "br_table"
	Depth int    `json:"depth,omitempty"` // blocks nested between the loop and the branch (0..3)
	BT    int    `json:"bt,omitempty"`    // loop block type: 0 none, 1 (param i32), 2 (param i32 i64)(result i32 i64)
	Nest  string `json:"nest,omitempty"`  // "" | "outer" (the spinning loop contains a bounded loop) | "inner" (it sits inside another loop)
	Body  string `json:"body,omitempty"`  // "" | "call" | "call-loop" | "indirect" | "host"

	// Kind "calls": edge i leads from f_i to f_(i+1 mod n)
	Edges []string `json:"edges,omitempty"` // "call" | "call_indirect" | "return_call" | "return_call_indirect"
	Inner int      `json:"inner,omitempty"` // iterations of a bounded loop executed by every level (0 = none)

	// cost of one round of the cycle: when SleepMs > 0 every round calls a host function that
	// sleeps that long, from the cycle itself ("body") or from a function it calls ("callee")
	SleepMs  int    `json:"sleep_ms,omitempty"`
	SleepVia string `json:"sleep_via,omitempty"`

	// Mem: the memory defined by the module that contains the cycle: "" none | "nomax" (no declared
	// maximum: can grow to 65536 pages) | "max" (declared maximum)
	Mem string `json:"mem,omitempty"`

	// how the cycle is entered
	Entry string `json:"entry"` // "export" | "callback" | "import" | "import2" | "start" | "_start"
	// 0 = never terminates; otherwise the cycle stops after Limit rounds (control group)
	Limit int `json:"limit,omitempty"`
}

func (s *Shape) twoModules() bool { return s.Entry == "import" || s.Entry == "import2" }

func (s *Shape) tailOnly() bool {
	if s.Kind != "calls" || len(s.Edges) == 0 {
		return false
	}
	for _, ed := range s.Edges {
		if ed != "return_call" && ed != "return_call_indirect" {
			return false
		}
	}
	return true
}

// class says what the property demands of a triggered, non terminating shape.
//
//	must-exit          the cycle passes a loop header on every round (or, for cycles made of tail
//	                   calls only, cannot end any other way): only the exit error is acceptable
//	exit-or-overflow   the cycle grows the call stack on every round: the engine may run into
//	                   call-stack exhaustion on its own before or after the trigger
func (s *Shape) class() string {
	if s.Kind == "loop" || s.tailOnly() || s.Kind == "host-recursion" {
		return "must-exit" // host-recursion: every round enters an api.Function.Call, which looks at its context
	}
	return "exit-or-overflow"
}

// hasCheckPoint: every round of the cycle passes a point at which the engines look at the closed
// state (a loop header or a tail call), so a slow round does not make the guest unstoppable.
func (s *Shape) hasCheckPoint() bool {
	return s.Kind == "loop" || s.Inner > 0 || s.tailOnly() || s.Kind == "host-recursion"
}

// plain is the shape of the upstream example: a bare `loop ... br 0`.
func (s *Shape) plain() bool {
	return s.Kind == "loop" && s.Back == "br" && s.Depth == 0 && s.BT == 0 && s.Nest == "" && s.Body == "" && s.SleepMs == 0 && s.Entry == "export"
}

const (
	nopResult  = 7
	waitResult = 9
)

// buildCycle encodes the module that contains the cycle. Exports: go, spin, cycle, nop, g
// (and _start / a start section for the start entries).
func buildCycle(s *Shape) []byte {
	m := &e.Module{}
	hb := m.ImportFunc("env", "hb", nil, nil)
	hnop := m.ImportFunc("env", "nop", nil, nil)
	reenter := m.ImportFunc("env", "reenter", nil, []byte{e.I32})
	recur := m.ImportFunc("env", "recur", nil, nil)
	nap := m.ImportFunc("env", "nap", nil, nil)
	gate := m.ImportFunc("env", "gate", nil, nil)
	base := m.NumImportedFuncs()
	fLeaf, fBounded, fF0, fCycle, fSpin, fGo, fNop, fStart, fNapper, fWait := base, base+1, base+2, base+5, base+6, base+7, base+8, base+9, base+10, base+11
	tVoid := m.AddType(nil, nil)
	tP1 := m.AddType([]byte{e.I32}, nil)
	tP2 := m.AddType([]byte{e.I32, e.I64}, []byte{e.I32, e.I64})
	const gG = 0
	m.Globals = []e.Global{{Type: e.I32, Mut: true, Init: e.NewB().I32Const(0).Bytes()}}
	switch s.Mem {
	case "nomax":
		m.Mems = [][]byte{e.Limits(1, -1, false)}
	case "max":
		m.Mems = [][]byte{e.Limits(1, 2, false)}
	}
	m.Tables = [][]byte{e.TableType(e.FuncRef, 4, 4)}
	m.Elems = [][]byte{e.ActiveElemFuncs(0, []uint32{fLeaf, fF0, fF0 + 1, fF0 + 2})}
	slotOf := func(i int) int32 { return int32(1 + i) }

	incG := func(b *e.B) { b.GlobalGet(gG).I32Const(1).Raw(e.OpI32Add).GlobalSet(gG) }
	// the slow part of a round
	slow := func(b *e.B) {
		if s.SleepMs > 0 {
			if s.SleepVia == "callee" {
				b.Call(fNapper)
			} else {
				b.Call(nap)
			}
		}
	}
	// a loop of n iterations using local `l`
	bounded := func(b *e.B, l uint32, n int) {
		b.I32Const(0).LocalSet(l)
		b.Loop()
		b.LocalGet(l).I32Const(1).Raw(e.OpI32Add).LocalTee(l).I32Const(int32(n)).Raw(e.OpI32LtU).BrIf(0)
		b.End()
	}

	m.AddFunc(nil, nil, nil, e.NewB().Nop().Bytes()) // leaf
	{
		b := e.NewB()
		bounded(b, 0, 10)
		m.AddFunc(nil, nil, []byte{e.I32}, b.Bytes()) // bounded
	}
	// f0..f2
	n := len(s.Edges)
	for i := 0; i < 3; i++ {
		b := e.NewB()
		if s.Kind == "calls" && i < n {
			incG(b)
			if s.Limit > 0 {
				b.GlobalGet(gG).I32Const(int32(s.Limit)).Raw(e.OpI32GeU).If().Return().End()
			}
			if s.Inner > 0 {
				bounded(b, 0, s.Inner)
			}
			slow(b)
			next := (i + 1) % n
			switch s.Edges[i] {
			case "call":
				b.Call(fF0 + uint32(next))
			case "call_indirect":
				b.I32Const(slotOf(next)).CallIndirect(tVoid, 0)
			case "return_call":
				b.ReturnCall(fF0 + uint32(next))
			default:
				b.I32Const(slotOf(next)).ReturnCallIndirect(tVoid, 0)
			}
		}
		m.AddFunc(nil, nil, []byte{e.I32}, b.Bytes())
	}
	// cycle: () -> i32
	{
		b := e.NewB()
		const lT32, lT64, lI, lSel = 0, 1, 2, 3
		if s.Kind == "calls" {
			b.Call(fF0)
		} else if s.Kind == "host-recursion" {
			incG(b)
			if s.Limit > 0 {
				b.GlobalGet(gG).I32Const(int32(s.Limit)).Raw(e.OpI32GeU).If().GlobalGet(gG).Return().End()
			}
			b.Call(recur)
		} else {
			// labels seen from the body of the spinning loop: 0 = the loop, then (Nest inner) the outer loop, then $out
			out := uint32(1)
			b.Block() // $out
			if s.Nest == "inner" {
				out = 2
				b.Loop() // an enclosing loop that is entered once
			}
			k := 0 // values carried along the back edge
			switch s.BT {
			case 1:
				k = 1
				b.I32Const(5).LoopT(tP1).LocalSet(lT32)
			case 2:
				k = 2
				b.I32Const(5).I64Const(6).LoopT(tP2).LocalSet(lT64).LocalSet(lT32)
			default:
				b.Loop()
			}
			incG(b)
			switch s.Body {
			case "call":
				b.Call(fLeaf)
			case "call-loop":
				b.Call(fBounded)
			case "indirect":
				b.I32Const(0).CallIndirect(tVoid, 0)
			case "host":
				b.Call(hnop)
			}
			if s.Limit > 0 {
				b.GlobalGet(gG).I32Const(int32(s.Limit)).Raw(e.OpI32GeU).BrIf(out)
			}
			slow(b)
			if s.Nest == "outer" {
				bounded(b, lI, 3)
			}
			for d := 0; d < s.Depth; d++ {
				b.Block()
			}
			pushBack := func() {
				if k >= 1 {
					b.LocalGet(lT32).I32Const(1).Raw(e.OpI32Add)
				}
				if k == 2 {
					b.LocalGet(lT64).I64Const(1).Raw(e.OpI64Add)
				}
			}
			pushBack()
			L := uint32(s.Depth)
			switch s.Back {
			case "br_if":
				b.I32Const(1).BrIf(L)
			case "br_table":
				b.GlobalGet(gG).I32Const(3).Raw(e.OpI32And).BrTable([]uint32{L, L, L}, L)
			default:
				b.Br(L)
			}
			for i := 0; i < k; i++ {
				b.Drop()
			}
			for d := 0; d < s.Depth; d++ {
				b.End()
			}
			if k == 2 { // the loop's results
				b.LocalGet(lT32).LocalGet(lT64)
			}
			b.End() // spinning loop
			if k == 2 {
				b.Drop().Drop()
			}
			if s.Nest == "inner" {
				b.End()
			}
			b.End() // $out
		}
		b.GlobalGet(gG)
		if idx := m.AddFunc(nil, []byte{e.I32}, []byte{e.I32, e.I64, e.I32, e.I32}, b.Bytes()); idx != fCycle {
			panic("index plan")
		}
	}
	m.AddFunc(nil, []byte{e.I32}, nil, e.NewB().Call(hb).Call(fCycle).Bytes()) // spin
	if s.Entry == "callback" {
		m.AddFunc(nil, []byte{e.I32}, nil, e.NewB().Call(reenter).Bytes()) // go
	} else {
		m.AddFunc(nil, []byte{e.I32}, nil, e.NewB().Call(hb).Call(fCycle).Bytes()) // go
	}
	m.AddFunc(nil, []byte{e.I32}, nil, e.NewB().I32Const(nopResult).Bytes()) // nop
	m.AddFunc(nil, nil, nil, e.NewB().Call(fSpin).Drop().Bytes())            // start
	if idx := m.AddFunc(nil, nil, nil, e.NewB().Call(nap).Bytes()); idx != fNapper {
		panic("index plan")
	}
	// wait: a terminating call that parks in the host until the harness lets it go
	if idx := m.AddFunc(nil, []byte{e.I32}, nil, e.NewB().Call(gate).I32Const(waitResult).Bytes()); idx != fWait {
		panic("index plan")
	}
	m.ExportFunc("wait", fWait)
	m.ExportFunc("go", fGo)
	m.ExportFunc("spin", fSpin)
	m.ExportFunc("cycle", fCycle)
	m.ExportFunc("nop", fNop)
	m.Exports = append(m.Exports, e.Export{Name: "g", Kind: e.KGlobal, Idx: gG})
	switch s.Entry {
	case "start":
		m.Start = e.P(fStart)
	case "_start":
		m.ExportFunc("_start", fStart)
	}
	return m.Encode()
}

// buildOuter encodes the importing module of the two-module entries: its `go` reaches the
// cycle in instance "b" through an import.
func buildOuter(s *Shape) []byte {
	m := &e.Module{}
	hb := m.ImportFunc("env", "hb", nil, nil)
	gate := m.ImportFunc("env", "gate", nil, nil)
	var target uint32
	if s.Entry == "import" {
		target = m.ImportFunc("b", "cycle", nil, []byte{e.I32}) // the cycle is in the imported function itself
	} else {
		target = m.ImportFunc("b", "spin", nil, []byte{e.I32}) // ... one local call deeper; b calls the heartbeat
	}
	var goFn uint32
	if s.Entry == "import" {
		goFn = m.AddFunc(nil, []byte{e.I32}, nil, e.NewB().Call(hb).Call(target).Bytes())
	} else {
		goFn = m.AddFunc(nil, []byte{e.I32}, nil, e.NewB().Call(target).Bytes())
	}
	nop := m.AddFunc(nil, []byte{e.I32}, nil, e.NewB().I32Const(nopResult).Bytes())
	m.ExportFunc("wait", m.AddFunc(nil, []byte{e.I32}, nil, e.NewB().Call(gate).I32Const(waitResult).Bytes()))
	m.ExportFunc("go", goFn)
	m.ExportFunc("nop", nop)
	return m.Encode()
}
