package c07

import (
	"bufio"
	"fmt"
	"io"
	"os"
	"os/exec"
	"sync"
	"syscall"
	"testing"
	"time"
)

// The external watchdog: a child process (this test binary re-executed with -test.run of
// TestHelperWatchdog) that is told "arm" before every case and "disarm" after it. When it stays
// armed for longer than externalTimeout it kills this process with SIGKILL; the driver then
// attributes the death to the journaled case and re-runs that case alone. It exists because a
// Go timer cannot fire while the only P is occupied by native code that never returns to Go.
const (
	watchdogEnv     = "VERIF_C07_WATCHDOG"
	externalTimeout = watchdogTime + 10*time.Second
)

var (
	wdOnce sync.Once
	wdIn   io.WriteCloser
)

func externalWatchdog(cmd string) {
	wdOnce.Do(func() {
		c := exec.Command(os.Args[0], "-test.run", "^TestHelperWatchdog$", "-test.count=1")
		c.Env = append(os.Environ(), watchdogEnv+"=1", "VERIF_SHARD_OUT=", "VERIF_JOURNAL=", "VERIF_REPLAY=")
		c.Stdout, c.Stderr = os.Stderr, os.Stderr
		in, err := c.StdinPipe()
		if err != nil {
			return
		}
		if err := c.Start(); err != nil {
			return
		}
		wdIn = in
		go c.Wait()
	})
	if wdIn != nil {
		fmt.Fprintln(wdIn, cmd)
	}
}

// TestHelperWatchdog runs in the watchdog process only.
func TestHelperWatchdog(t *testing.T) {
	if os.Getenv(watchdogEnv) == "" {
		t.Skip()
	}
	parent := os.Getppid()
	lines := make(chan string)
	go func() {
		sc := bufio.NewScanner(os.Stdin)
		for sc.Scan() {
			lines <- sc.Text()
		}
		close(lines)
	}()
	armed := false
	for {
		var timeout <-chan time.Time
		if armed {
			timeout = time.After(externalTimeout)
		}
		select {
		case l, ok := <-lines:
			if !ok {
				return // the parent is gone
			}
			armed = l == "arm"
		case <-timeout:
			fmt.Fprintf(os.Stderr, "\nfatal error: C07 external watchdog: the test process did not finish its case within %v (and its own timer did not fire); killing it\n", externalTimeout)
			syscall.Kill(parent, syscall.SIGKILL)
			return
		}
	}
}
