package zzinv

// Minimal reproducer of the C01 disagreement
//
//	engines disagree: step 8: interpreter=trap:unreachable compiler=trap:out of bounds memory access
//
// (replay /tmp/r3/C01-differential-3fcd8e4bd7.json). In the found case the guest grows its memory
// one page at a time through the "grow" host import; during script step 8 the memory reaches the
// 65536-page (4 GiB) ceiling of wasm32. From then on the compiler (wazevo) reads the memory length
// 0x1_0000_0000 with a 32-bit load -> 0, so every access traps "out of bounds memory access",
// while the interpreter keeps running until the fuel runs out (unreachable).
//
// Module used here (WAT):
//
//	(module
//	  (import "env" "grow" (func $grow (param i32) (result i32)))   ;; host: mod.Memory().Grow(arg)
//	  (memory (export "memory") 65535)                               ;; no max => 65536 allowed
//	  (func (export "load") (result i32) (i32.load (i32.const 96)))
//	  (func (export "size") (result i32) (memory.size))
//	  (func (export "grow_host") (result i32) (call $grow (i32.const 1)) drop (i32.load (i32.const 96)))
//	  (func (export "grow_op") (result i32) (memory.grow (i32.const 1)) drop (i32.load (i32.const 96)))
//	  (func (export "fill") (memory.fill (i32.const 0) (i32.const 7) (i32.const 8))))
//
// Expected (and interpreter) behaviour: every call returns normally; size = 65536 after the grow.

import (
	"context"
	"fmt"
	"strings"
	"testing"

	"github.com/tetratelabs/wazero"
	"github.com/tetratelabs/wazero/api"

	e "verif/internal/wasmenc"
)

func minimalModule(minPages uint32) []byte {
	m := &e.Module{}
	grow := m.ImportFunc("env", "grow", []byte{e.I32}, []byte{e.I32})
	m.Mems = [][]byte{e.Limits(minPages, -1, false)}
	m.Exports = append(m.Exports, e.Export{Name: "memory", Kind: e.KMem, Idx: 0})
	add := func(name string, r []byte, b *e.B) {
		m.ExportFunc(name, m.AddFunc(nil, r, nil, b.Bytes()))
	}
	i32 := []byte{e.I32}
	add("load", i32, e.NewB().I32Const(96).Mem(0x28, 2, 0))
	add("size", i32, e.NewB().MemorySize())
	add("grow_host", i32, e.NewB().I32Const(1).Call(grow).Drop().I32Const(96).Mem(0x28, 2, 0))
	add("grow_op", i32, e.NewB().I32Const(1).MemoryGrow().Drop().I32Const(96).Mem(0x28, 2, 0))
	add("fill", nil, e.NewB().I32Const(0).I32Const(7).I32Const(8).MemoryFill())
	return m.Encode()
}

func runScript(t *testing.T, cfg wazero.RuntimeConfig, minPages uint32, script []string) []string {
	ctx := context.Background()
	rt := wazero.NewRuntimeWithConfig(ctx, cfg)
	defer rt.Close(ctx)
	_, err := rt.NewHostModuleBuilder("env").NewFunctionBuilder().
		WithGoModuleFunction(api.GoModuleFunc(func(ctx context.Context, mod api.Module, stack []uint64) {
			prev, ok := mod.Memory().Grow(uint32(stack[0]))
			if !ok {
				prev = 0xffffffff
			}
			stack[0] = uint64(prev)
		}), []api.ValueType{api.ValueTypeI32}, []api.ValueType{api.ValueTypeI32}).Export("grow").Instantiate(ctx)
	if err != nil {
		t.Fatal(err)
	}
	mod, err := rt.Instantiate(ctx, minimalModule(minPages))
	if err != nil {
		t.Fatal(err)
	}
	var out []string
	for _, fn := range script {
		res, err := mod.ExportedFunction(fn).Call(ctx)
		if err != nil {
			out = append(out, fmt.Sprintf("%s -> ERR %s", fn, strings.SplitN(err.Error(), "\n", 2)[0]))
		} else {
			out = append(out, fmt.Sprintf("%s -> %v", fn, res))
		}
	}
	pages, _ := mod.Memory().Grow(0)
	out = append(out, fmt.Sprintf("host view: %d pages", pages))
	return out
}

func TestMinimal(t *testing.T) {
	for _, tc := range []struct {
		name     string
		minPages uint32
		script   []string
	}{
		{"host-grow-to-65536", 65535, []string{"load", "size", "grow_host", "load", "size", "fill"}},
		{"memory.grow-to-65536", 65535, []string{"load", "size", "grow_op", "load", "size", "fill"}},
		{"declared-65536", 65536, []string{"load", "size", "fill"}},
	} {
		t.Run(tc.name, func(t *testing.T) {
			i := runScript(t, wazero.NewRuntimeConfigInterpreter(), tc.minPages, tc.script)
			c := runScript(t, wazero.NewRuntimeConfigCompiler(), tc.minPages, tc.script)
			for k := range i {
				mark := ""
				if i[k] != c[k] {
					mark = "   <-- DISAGREE"
				}
				t.Logf("interpreter: %-28s compiler: %s%s", i[k], c[k], mark)
			}
			if strings.Join(i, "|") != strings.Join(c, "|") {
				t.Errorf("engines disagree")
			}
		})
	}
}

// TestMinimalImported: the same defect through an imported memory. Only memory.size is wrong there
// (the bounds checks of imported memories already read the length with a 64-bit load).
//
//	(module $a (memory (export "memory") 65536))
//	(module $b (import "a" "memory" (memory 1))
//	  (func (export "load") (result i32) (i32.load (i32.const 96)))
//	  (func (export "size") (result i32) (memory.size)))
func TestMinimalImported(t *testing.T) {
	ma := &e.Module{Mems: [][]byte{e.Limits(65536, -1, false)}}
	ma.Exports = append(ma.Exports, e.Export{Name: "memory", Kind: e.KMem, Idx: 0})
	mb := &e.Module{}
	mb.Imports = append(mb.Imports, e.Import{Mod: "a", Name: "memory", Kind: e.KMem, Desc: e.Limits(1, -1, false)})
	mb.ExportFunc("load", mb.AddFunc(nil, []byte{e.I32}, nil, e.NewB().I32Const(96).Mem(0x28, 2, 0).Bytes()))
	mb.ExportFunc("size", mb.AddFunc(nil, []byte{e.I32}, nil, e.NewB().MemorySize().Bytes()))
	run := func(cfg wazero.RuntimeConfig) (out []string) {
		ctx := context.Background()
		rt := wazero.NewRuntimeWithConfig(ctx, cfg)
		defer rt.Close(ctx)
		if _, err := rt.InstantiateWithConfig(ctx, ma.Encode(), wazero.NewModuleConfig().WithName("a")); err != nil {
			t.Fatal(err)
		}
		mod, err := rt.InstantiateWithConfig(ctx, mb.Encode(), wazero.NewModuleConfig().WithName("b"))
		if err != nil {
			t.Fatal(err)
		}
		for _, fn := range []string{"load", "size"} {
			res, err := mod.ExportedFunction(fn).Call(ctx)
			if err != nil {
				out = append(out, fmt.Sprintf("%s -> ERR %s", fn, strings.SplitN(err.Error(), "\n", 2)[0]))
			} else {
				out = append(out, fmt.Sprintf("%s -> %v", fn, res))
			}
		}
		return
	}
	i, c := run(wazero.NewRuntimeConfigInterpreter()), run(wazero.NewRuntimeConfigCompiler())
	for k := range i {
		t.Logf("interpreter: %-28s compiler: %s", i[k], c[k])
	}
	if strings.Join(i, "|") != strings.Join(c, "|") {
		t.Errorf("engines disagree")
	}
}
