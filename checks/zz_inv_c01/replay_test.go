package zzinv

import (
	"encoding/json"
	"os"
	"testing"

	"verif/internal/runner"
	"verif/internal/wasmgen"
	"verif/internal/wz"
)

type rcase struct {
	Lib    *wasmgen.Module `json:"lib,omitempty"`
	Module *wasmgen.Module `json:"module"`
	Script []runner.Call   `json:"script"`
	Fuel   int32           `json:"fuel"`
}

func TestReplayFull(t *testing.T) {
	p := os.Getenv("INV_REPLAY")
	if p == "" {
		t.Skip("INV_REPLAY not set")
	}
	b, err := os.ReadFile(p)
	if err != nil {
		t.Skip(err)
	}
	var f struct {
		Case rcase `json:"case"`
	}
	if err := json.Unmarshal(b, &f); err != nil {
		t.Fatal(err)
	}
	c := &f.Case
	var trs []runner.Trace
	for _, e := range []string{"interpreter", "compiler"} {
		tr := runner.Run(wz.Config(e), c.Module, c.Script, runner.Options{FuelPerCall: c.Fuel, Lib: c.Lib})
		trs = append(trs, tr)
		t.Logf("%s inst=%v", e, tr.Inst)
		for i, s := range tr.Steps {
			t.Logf("  step %d: %s %s %v", i, s.Kind, s.Detail, s.Results)
		}
		t.Logf("  hostlog: %d entries", len(tr.HostLog))
		t.Logf("  pages=%d", tr.MemPages)
	}
	if d := runner.Diff(&trs[0], &trs[1], "interpreter", "compiler"); d != "" {
		t.Errorf("engines disagree: %s", d)
	}
}
