package c12

import (
	"context"
	"fmt"
	"testing"

	"github.com/tetratelabs/wazero"

	"verif/internal/evid"
	"verif/internal/wasmenc"
	"verif/internal/wz"
)

// TestSharedCacheDifferentLimit4GiB: a compilation cache shared by a runtime with a small memory
// limit (which compiles first) and a runtime with the default limit. The guest of the second
// runtime grows its memory to 65536 pages and must behave as with a cache of its own (the
// compiler's code for the memory length differs when the memory can be 4 GiB long, which depends
// on the run-time limit, so the two runtimes must not share that code).
func TestSharedCacheDifferentLimit4GiB(t *testing.T) {
	if evid.ReplayPath() != "" {
		t.Skip()
	}
	if s, _ := evid.Shard(); s != 0 {
		t.Skip()
	}
	ctx := context.Background()
	// variants: the guest defines its memory / imports it (memory import first / after a function import)
	for _, variant := range []string{"local", "imported", "imported-after-func-import"} {
		m := &wasmenc.Module{}
		owner := &wasmenc.Module{Mems: [][]byte{wasmenc.Limits(1, -1, false)}}
		owner.Exports = append(owner.Exports, wasmenc.Export{Name: "memory", Kind: wasmenc.KMem, Idx: 0})
		owner.ExportFunc("nop", owner.AddFunc(nil, nil, nil, wasmenc.NewB().Nop().Bytes()))
		switch variant {
		case "local":
			m.Mems = [][]byte{wasmenc.Limits(1, -1, false)}
		case "imported":
			m.Imports = append(m.Imports, wasmenc.Import{Mod: "owner", Name: "memory", Kind: wasmenc.KMem, Desc: wasmenc.Limits(1, -1, false)})
		default:
			m.ImportFunc("owner", "nop", nil, nil)
			m.Imports = append(m.Imports, wasmenc.Import{Mod: "owner", Name: "memory", Kind: wasmenc.KMem, Desc: wasmenc.Limits(1, -1, false)})
		}
		// f(): memory.grow(65535); i32.store(96, 7); i32.load(96) + memory.size
		m.ExportFunc("f", m.AddFunc(nil, []byte{wasmenc.I32}, nil, wasmenc.NewB().
			I32Const(65535).MemoryGrow().Drop().I32Const(96).I32Const(7).Mem(0x36, 2, 0).I32Const(96).Mem(0x28, 2, 0).MemorySize().Raw(0x6a).Bytes()))
		bin, ownerBin := m.Encode(), owner.Encode()
		run := func(shared bool) string {
			var cache wazero.CompilationCache
			if shared {
				cache = wazero.NewCompilationCache()
				defer cache.Close(ctx)
				a := wazero.NewRuntimeWithConfig(ctx, wz.Config("compiler").WithMemoryLimitPages(100).WithCompilationCache(cache))
				defer a.Close(ctx)
				if _, err := a.CompileModule(ctx, ownerBin); err != nil {
					return "harness: " + err.Error()
				}
				if _, err := a.CompileModule(ctx, bin); err != nil {
					return "harness: " + err.Error()
				}
			}
			cfg := wz.Config("compiler")
			if shared {
				cfg = cfg.WithCompilationCache(cache)
			}
			b := wazero.NewRuntimeWithConfig(ctx, cfg)
			defer b.Close(ctx)
			if variant != "local" {
				if _, err := b.InstantiateWithConfig(ctx, ownerBin, wazero.NewModuleConfig().WithName("owner")); err != nil {
					return "instantiate owner: " + err.Error()
				}
			}
			mod, err := b.InstantiateWithConfig(ctx, bin, wazero.NewModuleConfig().WithName("guest"))
			if err != nil {
				return "instantiate: " + err.Error()
			}
			res, out := wz.SafeCall(ctx, mod.ExportedFunction("f"))
			return fmt.Sprintf("%v %v", out, res)
		}
		own, shared := run(false), run(true)
		c := map[string]any{"known": "shared-cache-different-limit-4gib", "variant": variant}
		if own != shared {
			evid.Violation("shared-cache-limit", c, "a guest (%s memory) growing its memory to 65536 pages behaves differently when its runtime shares the compilation cache with a runtime of a smaller memory limit: own cache %s, shared cache %s", variant, own, shared)
			t.Fail()
		}
		evid.Case(evid.Hash64("shared-cache-limit", variant), true, "shared-cache-different-memory-limit-4GiB")
	}
}
