// C12 — non-semantic configuration does not change guest behaviour.
//
// A wasmgen program + call script is executed under a baseline configuration (defaults, no
// cache) and under drawn configuration points that the documentation describes as performance
// or tooling choices: compilation cache (in-memory, directory cold, directory warm, shared by
// runtimes with different settings), WithMemoryCapacityFromMax, a custom MemoryAllocator
// (stable or moving), WithDebugInfoEnabled, WithCustomSections, function listeners attached,
// WithCloseOnContextDone (never triggered). Oracle: the canonical trace (runner.Trace, which
// includes whether compilation/instantiation succeeded) equals the baseline trace of the same
// engine.
package c12

import (
	"context"
	"fmt"
	"os"
	"path/filepath"
	"strings"
	"sync"
	"sync/atomic"
	"testing"

	"github.com/tetratelabs/wazero"
	"github.com/tetratelabs/wazero/api"
	"github.com/tetratelabs/wazero/experimental"
	"pgregory.net/rapid"

	"verif/internal/evid"
	"verif/internal/runner"
	"verif/internal/wasmenc"
	"verif/internal/wasmgen"
	"verif/internal/wz"
)

func TestMain(m *testing.M) { evid.Main(m, "C12") }

// Point is one configuration point.
type Point struct {
	Cache     string `json:"cache"` // none | mem | dir-cold | dir-warm | shared
	CapMax    bool   `json:"capacity_from_max"`
	Allocator string `json:"allocator"` // "" | stable | moving
	NoDebug   bool   `json:"debug_info_disabled"`
	Custom    bool   `json:"custom_sections"`
	Listeners string `json:"listeners"` // "" | "all" | "nil" (a factory is installed but returns no listener for any function)
	CloseCtx  bool   `json:"close_on_context_done"`
	// CancelAfter: every call gets its own context, cancelled after the call has returned (the
	// `defer cancel()` idiom): the option is enabled and still never triggered while a guest runs
	CancelAfter bool `json:"cancel_call_context_after_return,omitempty"`
}

func (p Point) differs() int {
	n := 0
	if p.Cache != "none" {
		n++
	}
	for _, b := range []bool{p.CapMax, p.Allocator != "", p.NoDebug, p.Custom, p.Listeners != "", p.CloseCtx} {
		if b {
			n++
		}
	}
	return n
}

// Case is the replayable form.
type Case struct {
	Lib      *wasmgen.Module `json:"lib,omitempty"` // a second module whose exports Module imports (instantiated as "lib")
	Module   *wasmgen.Module `json:"module"`
	Script   []runner.Call   `json:"script"`
	Fuel     int32           `json:"fuel"`
	Engine   string          `json:"engine"`
	Features uint64          `json:"features"`
	Limit    uint32          `json:"memory_limit_pages"`
	Points   []Point         `json:"points"`
	// for the shared-cache variant: the other runtime's semantic options
	OtherFeatures uint64 `json:"other_features"`
	OtherLimit    uint32 `json:"other_limit"`
	OtherFirst    bool   `json:"other_first"`
}

// ---- allocators ----

type sliceMem struct {
	buf    []byte
	max    uint64
	moving bool
}

func (m *sliceMem) Reallocate(size uint64) []byte {
	if size > m.max {
		return nil
	}
	if m.moving || uint64(cap(m.buf)) < size {
		nb := make([]byte, size, size+4096)
		copy(nb, m.buf)
		// poison the old buffer so that a stale base pointer shows up as a behaviour change
		for i := range m.buf {
			m.buf[i] = 0xa5
		}
		m.buf = nb
		return m.buf
	}
	m.buf = m.buf[:size]
	return m.buf
}
func (m *sliceMem) Free() {
	// what an mmap-based allocator does to the pages, as far as a Go slice can show it: whoever
	// still reads this buffer afterwards sees a behaviour change
	b := m.buf[:cap(m.buf)]
	for i := range b {
		b[i] = 0xa5
	}
	m.buf = nil
}

func allocator(kind string, shared bool) experimental.MemoryAllocator {
	return experimental.MemoryAllocatorFunc(func(cap, max uint64) experimental.LinearMemory {
		if kind == "stable" || shared { // shared memories need a stable address
			c := max
			if c > 64<<20 {
				c = cap
			}
			return &sliceMem{buf: make([]byte, 0, c), max: max}
		}
		return &sliceMem{buf: make([]byte, 0, cap), max: max, moving: true}
	})
}

// ---- listeners ----

type nopListener struct {
	n       *int64
	nilOnly bool
}

func (l nopListener) NewFunctionListener(api.FunctionDefinition) experimental.FunctionListener {
	if l.nilOnly {
		return nil
	}
	return l
}
func (l nopListener) Before(context.Context, api.Module, api.FunctionDefinition, []uint64, experimental.StackIterator) {
	atomic.AddInt64(l.n, 1)
}
func (l nopListener) After(context.Context, api.Module, api.FunctionDefinition, []uint64) {}
func (l nopListener) Abort(context.Context, api.Module, api.FunctionDefinition, error)    {}

var dirSeq int64

func newDir() string {
	d := filepath.Join(evid.WorkDir(), fmt.Sprintf("cache-%d", atomic.AddInt64(&dirSeq, 1)))
	os.MkdirAll(d, 0o755)
	return d
}

func baseCfg(engine string, feats api.CoreFeatures, limit uint32) wazero.RuntimeConfig {
	c := wz.Config(engine).WithCoreFeatures(feats)
	if limit != 0 {
		c = c.WithMemoryLimitPages(limit)
	}
	return c
}

func apply(c wazero.RuntimeConfig, p Point) wazero.RuntimeConfig {
	if p.CapMax {
		c = c.WithMemoryCapacityFromMax(true)
	}
	if p.NoDebug {
		c = c.WithDebugInfoEnabled(false)
	}
	if p.Custom {
		c = c.WithCustomSections(true)
	}
	if p.CloseCtx {
		c = c.WithCloseOnContextDone(true)
	}
	return c
}

var (
	dbgOnce sync.Once
	dbgSets [][]wasmenc.Custom
)

func debugSections() [][]wasmenc.Custom {
	dbgOnce.Do(func() { dbgSets = wasmgen.RepoDebugSections() })
	return dbgSets
}

func ctxFor(p Point, m, lib *wasmgen.Module, calls *int64) context.Context {
	ctx := context.Background()
	if p.Allocator != "" {
		ctx = experimental.WithMemoryAllocator(ctx, allocator(p.Allocator, m.MemShared || (lib != nil && lib.MemShared))) // one allocator serves every memory of the runtime
	}
	if p.Listeners != "" {
		ctx = experimental.WithFunctionListenerFactory(ctx, nopListener{n: calls, nilOnly: p.Listeners == "nil"})
	}
	return ctx
}

// RunCase returns a violation message or "".
func RunCase(c *Case) (msg string, labels []string) {
	feats := api.CoreFeatures(c.Features)
	opt := runner.Options{FuelPerCall: c.Fuel, Lib: c.Lib}
	base := runner.Run(baseCfg(c.Engine, feats, c.Limit), c.Module, c.Script, opt)
	if base.HasKind(wz.KInternal) {
		return fmt.Sprintf("internal failure under the baseline configuration: %v %v", base.Inst, base.Steps), nil
	}
	if base.HasKind(wz.KStack) {
		return "", []string{"discarded-stack-overflow"}
	}
	if base.Inst.Kind == "lib-failed" {
		return "", []string{"discarded-lib-start-failed"}
	}
	if c.Lib != nil {
		labels = append(labels, "cross-module-calls")
	}
	if base.Inst.Kind != wz.KOK {
		labels = append(labels, "baseline-inst-fails")
	}
	cmp := func(tr *runner.Trace, what string, p Point) string {
		if tr.HasKind(wz.KStack) {
			if c.Engine == "interpreter" {
				// the interpreter's limit counts call frames, which no configuration point changes:
				// the baseline did not exhaust the stack, so the point must not either
				return fmt.Sprintf("behaviour differs from baseline under %s %+v (engine %s): the call stack is exhausted although it is not under the baseline: %v", what, p, c.Engine, tr.Steps)
			}
			return "" // native stack use may legitimately differ between configurations
		}
		if d := runner.Diff(&base, tr, "baseline", what); d != "" {
			return fmt.Sprintf("behaviour differs from baseline under %s %+v (engine %s): %s", what, p, c.Engine, d)
		}
		return ""
	}
	for _, p := range c.Points {
		var calls int64
		cfg := apply(baseCfg(c.Engine, feats, c.Limit), p)
		o := opt
		o.Ctx = ctxFor(p, c.Module, c.Lib, &calls)
		o.CancelAfterCall = p.CancelAfter
		if p.CancelAfter {
			labels = append(labels, "call-contexts-cancelled-after-return")
		}
		ctx := context.Background()
		switch p.Cache {
		case "none":
			tr := runner.Run(cfg, c.Module, c.Script, o)
			if m := cmp(&tr, "point", p); m != "" {
				return m, labels
			}
		case "mem":
			cache := wazero.NewCompilationCache()
			for i := 0; i < 2; i++ { // second run hits the in-memory cache
				tr := runner.Run(cfg.WithCompilationCache(cache), c.Module, c.Script, o)
				if m := cmp(&tr, fmt.Sprintf("in-memory cache (use %d)", i+1), p); m != "" {
					cache.Close(ctx)
					return m, labels
				}
			}
			cache.Close(ctx)
			labels = append(labels, "cache-hit")
		case "dir-cold", "dir-warm":
			dir := newDir()
			runs := 1
			if p.Cache == "dir-warm" {
				runs = 2
				labels = append(labels, "cache-hit")
			}
			for i := 0; i < runs; i++ {
				cache, err := wazero.NewCompilationCacheWithDir(dir)
				if err != nil {
					os.RemoveAll(dir)
					return "harness: " + err.Error(), labels
				}
				tr := runner.Run(cfg.WithCompilationCache(cache), c.Module, c.Script, o)
				cache.Close(ctx)
				if m := cmp(&tr, fmt.Sprintf("directory cache (process-level use %d)", i+1), p); m != "" {
					os.RemoveAll(dir)
					return m, labels
				}
			}
			os.RemoveAll(dir)
		case "shared":
			// two runtimes with different settings (also semantic ones) share one cache; each is
			// compared with its own uncached baseline
			of, ol := api.CoreFeatures(c.OtherFeatures), c.OtherLimit
			obase := runner.Run(baseCfg(c.Engine, of, ol), c.Module, c.Script, opt)
			cache := wazero.NewCompilationCache()
			runOther := func() string {
				tr := runner.Run(baseCfg(c.Engine, of, ol).WithCompilationCache(cache), c.Module, c.Script, opt)
				if tr.HasKind(wz.KStack) || obase.HasKind(wz.KStack) {
					return ""
				}
				if d := runner.Diff(&obase, &tr, "own-baseline", "shared-cache"); d != "" {
					return fmt.Sprintf("runtime (features %d, limit %d) sharing a cache differs from its own uncached baseline (engine %s): %s", of, ol, c.Engine, d)
				}
				return ""
			}
			if c.OtherFirst {
				if m := runOther(); m != "" {
					cache.Close(ctx)
					return m, labels
				}
			}
			tr := runner.Run(cfg.WithCompilationCache(cache), c.Module, c.Script, o)
			if m := cmp(&tr, "cache shared with a runtime of other settings", p); m != "" {
				cache.Close(ctx)
				return m, labels
			}
			if !c.OtherFirst {
				if m := runOther(); m != "" {
					cache.Close(ctx)
					return m, labels
				}
			}
			cache.Close(ctx)
			labels = append(labels, "shared-cache")
		}
		if p.Listeners == "all" && calls > 0 {
			labels = append(labels, "listener-saw-calls")
		}
		labels = append(labels, "cache:"+p.Cache)
		if p.Allocator != "" {
			labels = append(labels, "allocator:"+p.Allocator)
		}
	}
	return "", labels
}

var featChoices = []struct {
	g wasmgen.Feature
	a api.CoreFeatures
}{{wasmgen.FeatV1, api.CoreFeaturesV1}, {wasmgen.FeatV2, api.CoreFeaturesV2}, {wasmgen.FeatAll, wz.AllFeatures}, {wasmgen.FeatAll, wz.AllFeatures}}

func drawPoint(t *rapid.T) Point {
	p := drawPoint0(t)
	p.CancelAfter = p.CloseCtx && rapid.Bool().Draw(t, "cancelafter")
	return p
}

func drawPoint0(t *rapid.T) Point {
	return Point{
		Cache:     rapid.SampledFrom([]string{"none", "none", "mem", "dir-cold", "dir-warm", "shared"}).Draw(t, "cache"),
		CapMax:    rapid.Bool().Draw(t, "capmax"),
		Allocator: rapid.SampledFrom([]string{"", "", "stable", "moving"}).Draw(t, "alloc"),
		NoDebug:   rapid.Bool().Draw(t, "nodebug"),
		Custom:    rapid.Bool().Draw(t, "custom"),
		Listeners: rapid.SampledFrom([]string{"", "all", "nil"}).Draw(t, "listeners"),
		CloseCtx:  rapid.Bool().Draw(t, "closectx"),
	}
}

func prop(t *rapid.T) {
	fc := featChoices[rapid.IntRange(0, len(featChoices)-1).Draw(t, "feat")]
	cfg := wasmgen.DefaultConfig()
	cfg.Features = fc.g
	cfg.MaxFuncs = rapid.IntRange(1, 6).Draw(t, "maxfuncs")
	cfg.MaxStmts = rapid.IntRange(2, 6).Draw(t, "maxstmts")
	cfg.MaxDepth = rapid.IntRange(2, 5).Draw(t, "maxdepth")
	cfg.Names, cfg.Customs = true, true
	cfg.DebugSections = debugSections()
	cfg.SegmentRich = rapid.Bool().Draw(t, "segrich")
	var lib *wasmgen.Module
	if rapid.IntRange(0, 2).Draw(t, "withlib") == 0 {
		lcfg := cfg
		lcfg.HostModule, lcfg.ModuleName, lcfg.AllowStart = "env2", "lib", false
		lcfg.MaxFuncs = rapid.IntRange(1, 6).Draw(t, "libfuncs")
		lib = wasmgen.Generate(t, lcfg)
		cfg.Lib, cfg.LibName = lib, "lib"
	}
	if rapid.IntRange(0, 5).Draw(t, "longfuel") == 0 {
		cfg.FuelInit = 16 * 3000 // long call chains: tail-call loops of thousands of steps must not need stack
		cfg.TailRich = true
	}
	m := wasmgen.Generate(t, cfg)
	c := &Case{Module: m, Lib: lib, Fuel: cfg.FuelInit, Engine: rapid.SampledFrom(wz.Engines).Draw(t, "engine"), Features: uint64(fc.a)}
	c.Limit = rapid.SampledFrom([]uint32{0, 0, 1, 2, 3, 4, 100}).Draw(t, "limit")
	ex := m.Exports()
	n := rapid.IntRange(1, 6).Draw(t, "ncalls")
	for i := 0; i < n; i++ {
		e := ex[rapid.IntRange(0, len(ex)-1).Draw(t, "export")]
		c.Script = append(c.Script, runner.Call{Fn: e.Export, Args: args(t, e.Sig.P)})
	}
	np := rapid.IntRange(1, 4).Draw(t, "npoints")
	for i := 0; i < np; i++ {
		c.Points = append(c.Points, drawPoint(t))
	}
	for _, p := range c.Points {
		// capacity-from-max with the default 4 GiB limit pre-allocates (and zeroes) 4 GiB per
		// instance: keep the (fixed, semantic) limit small when that option is in play
		if p.CapMax && c.Limit == 0 {
			c.Limit = 100
		}
		// the test allocators copy (and poison) the whole buffer on every growth: a guest that
		// grows page by page towards the default 4 GiB limit would make the harness quadratic
		if p.Allocator != "" && c.Limit == 0 {
			c.Limit = 100
		}
	}
	of := featChoices[rapid.IntRange(0, len(featChoices)-1).Draw(t, "ofeat")]
	c.OtherFeatures = uint64(of.a)
	c.OtherLimit = rapid.SampledFrom([]uint32{0, 1, 2, 100}).Draw(t, "olimit")
	c.OtherFirst = rapid.Bool().Draw(t, "ofirst")
	evid.Journal(c)
	msg, labels := RunCase(c)
	if msg != "" {
		evid.Fail(t, c, "%s\n%s", msg, strings.Join(m.Text, "\n"))
	}
	nt := false
	for _, p := range c.Points {
		if p.differs() >= 2 || p.Cache == "mem" || p.Cache == "dir-warm" || p.Cache == "shared" {
			nt = true
		}
	}
	st := m.Stats
	nt = nt && st["load"]+st["store"]+st["call"]+st["loop"]+st["scalar"] > 0
	evid.Case(evid.Hash64(m.Bytes, fmt.Sprint(c.Script), fmt.Sprint(c.Points), c.Engine, c.Limit), nt, labels...)
	if nt {
		evid.Sample("case", 2, map[string]any{"engine": c.Engine, "features": c.Features, "limit": c.Limit, "points": c.Points, "script": c.Script, "module_bytes": len(m.Bytes)})
	}
}

func args(t *rapid.T, p []byte) []uint64 {
	var a []uint64
	for _, ty := range p {
		switch ty {
		case wasmgen.V128:
			a = append(a, rapid.Uint64().Draw(t, "v"), rapid.Uint64().Draw(t, "v"))
		case wasmgen.I32, wasmgen.F32:
			a = append(a, uint64(rapid.Uint32().Draw(t, "a32")))
		case wasmgen.FuncRef:
			a = append(a, 0)
		case wasmgen.ExternRef:
			a = append(a, uint64(rapid.IntRange(0, 3).Draw(t, "ext")))
		default:
			a = append(a, rapid.Uint64().Draw(t, "a64"))
		}
	}
	return a
}

func TestConfigPoints(t *testing.T) {
	if evid.ReplayPath() != "" {
		t.Skip()
	}
	evid.Check(t, "config-points", evid.Scale(10000, 240000), prop)
}

func TestReplay(t *testing.T) {
	p := evid.ReplayPath()
	if p == "" {
		t.Skip()
	}
	var cc struct {
		Conc   *ConcCase `json:"conc"`
		Failed *FailCase `json:"failed"`
	}
	if _, err := evid.LoadReplay(p, &cc); err == nil && cc.Failed != nil {
		if want, got := runFail(cc.Failed, ""), runFail(cc.Failed, cc.Failed.Alloc); want != got {
			msg := fmt.Sprintf("without allocator: %s; with: %s", want, got)
			evid.Violation("replay", map[string]any{"failed": cc.Failed}, "%s", msg)
			t.Fatal(msg)
		}
		return
	}
	if cc.Conc != nil {
		// schedule dependent: a few attempts
		for i := 0; i < 5; i++ {
			if msg := RunConcCase(cc.Conc); msg != "" {
				evid.Violation("replay", map[string]any{"conc": cc.Conc}, "%s", msg)
				t.Fatal(msg)
			}
		}
		return
	}
	var c Case
	if _, err := evid.LoadReplay(p, &c); err != nil {
		t.Fatal(err)
	}
	if msg, _ := RunCase(&c); msg != "" {
		evid.Violation("replay", &c, "%s", msg)
		t.Fatal(msg)
	}
}
