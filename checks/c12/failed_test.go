package c12

import (
	"context"
	"fmt"
	"testing"

	"github.com/tetratelabs/wazero"
	"github.com/tetratelabs/wazero/api"
	"github.com/tetratelabs/wazero/experimental"
	"pgregory.net/rapid"

	"verif/internal/evid"
	"verif/internal/wasmenc"
	"verif/internal/wz"
)

// A module whose instantiation FAILS after its active element segments were applied leaves its
// functions in the importing table (the specification keeps those writes); they stay callable
// and keep using that module's own memory. Whether a custom memory allocator is configured must
// not change what such a call observes (nor whether it faults): owner A exports a table and
// call(i); importer B has its own memory with drawn contents, a function reading it, an element
// segment storing that function into A's table, and a drawn way to fail (trapping start
// function, out-of-bounds data segment after the element segment, out-of-bounds later element
// segment). Oracle: A.call(slot) under every allocator kind and engine equals the result
// without an allocator.

type FailCase struct {
	Engine string `json:"engine"`
	Alloc  string `json:"allocator"`
	Fail   string `json:"fail"` // start-trap | data-oob | elem-oob | none
	Slot   uint32 `json:"slot"`
	Off    uint32 `json:"offset"`
	Val    uint32 `json:"value"`
	Grow   uint32 `json:"grow_before_read"`
	CapMax bool   `json:"capacity_from_max"`
}

func failModules(c *FailCase) (a, b []byte) {
	ma := &wasmenc.Module{}
	ma.Tables = [][]byte{wasmenc.TableType(wasmenc.FuncRef, 8, -1)}
	ma.Exports = append(ma.Exports, wasmenc.Export{Name: "table", Kind: wasmenc.KTable, Idx: 0})
	ti := ma.AddType(nil, []byte{wasmenc.I32})
	ma.ExportFunc("call", ma.AddFunc([]byte{wasmenc.I32}, []byte{wasmenc.I32}, nil, wasmenc.NewB().LocalGet(0).CallIndirect(ti, 0).Bytes()))

	mb := &wasmenc.Module{}
	mb.Imports = append(mb.Imports, wasmenc.Import{Mod: "a", Name: "table", Kind: wasmenc.KTable, Desc: wasmenc.TableType(wasmenc.FuncRef, 8, -1)})
	mb.Mems = [][]byte{wasmenc.Limits(1, 4, false)}
	var data [4]byte
	data[0], data[1], data[2], data[3] = byte(c.Val), byte(c.Val>>8), byte(c.Val>>16), byte(c.Val>>24)
	mb.Datas = append(mb.Datas, wasmenc.ActiveData(int32(c.Off), data[:]))
	rb := wasmenc.NewB()
	if c.Grow > 0 {
		rb.I32Const(int32(c.Grow)).MemoryGrow().Drop()
	}
	rb.I32Const(int32(c.Off)).Mem(0x28, 2, 0)
	read := mb.AddFunc(nil, []byte{wasmenc.I32}, nil, rb.Bytes())
	mb.Elems = append(mb.Elems, wasmenc.ActiveElemFuncs(int32(c.Slot), []uint32{read}))
	switch c.Fail {
	case "start-trap":
		mb.Start = wasmenc.P(mb.AddFunc(nil, nil, nil, wasmenc.NewB().Unreachable().Bytes()))
	case "data-oob":
		mb.Datas = append(mb.Datas, wasmenc.ActiveData(65534, []byte{1, 2, 3, 4}))
	case "elem-oob":
		mb.Elems = append(mb.Elems, wasmenc.ActiveElemFuncs(7, []uint32{read, read}))
	}
	return ma.Encode(), mb.Encode()
}

func runFail(c *FailCase, alloc string) string {
	ctx := context.Background()
	ictx := ctx
	if alloc != "" {
		ictx = experimental.WithMemoryAllocator(ctx, allocator(alloc, false))
	}
	cfg := wz.Config(c.Engine).WithMemoryLimitPages(16)
	if c.CapMax {
		cfg = cfg.WithMemoryCapacityFromMax(true)
	}
	rt := wazero.NewRuntimeWithConfig(ictx, cfg)
	defer rt.Close(ctx)
	a, b := failModules(c)
	am, err := rt.InstantiateWithConfig(ictx, a, wazero.NewModuleConfig().WithName("a"))
	if err != nil {
		return "harness: " + err.Error()
	}
	_, err = rt.InstantiateWithConfig(ictx, b, wazero.NewModuleConfig().WithName("b"))
	out := fmt.Sprintf("instantiate(b): %v; ", wz.Classify(err).Kind)
	var res []uint64
	var o wz.Outcome
	for k := 0; k < 2; k++ { // twice: the second call sees what the first one left
		res, o = wz.SafeCall(ictx, am.ExportedFunction("call"), uint64(c.Slot))
		out += fmt.Sprintf("call#%d: %v %x; ", k, o.Kind, res)
	}
	return out
}

func propFailed(t *rapid.T) {
	c := &FailCase{Engine: rapid.SampledFrom(wz.Engines).Draw(t, "engine"), Alloc: rapid.SampledFrom([]string{"stable", "moving"}).Draw(t, "alloc"),
		Fail: rapid.SampledFrom([]string{"start-trap", "data-oob", "elem-oob", "none"}).Draw(t, "fail"), Slot: uint32(rapid.IntRange(0, 6).Draw(t, "slot")),
		Off: uint32(rapid.SampledFrom([]int{0, 4, 1000, 65528, 65532}).Draw(t, "off")), Val: rapid.Uint32().Draw(t, "val"), Grow: uint32(rapid.IntRange(0, 2).Draw(t, "grow")), CapMax: rapid.Bool().Draw(t, "capmax")}
	rc := map[string]any{"failed": c}
	evid.Journal(rc)
	want := runFail(c, "")
	got := runFail(c, c.Alloc)
	if want != got {
		evid.Fail(t, rc, "a function of a module whose instantiation failed (%s), called through the table it was stored in, behaves differently with a custom memory allocator (%s, engine %s):\n  without: %s\n  with:    %s", c.Fail, c.Alloc, c.Engine, want, got)
	}
	evid.Case(evid.Hash64("failed", c.Engine, c.Alloc, c.Fail, c.Slot, c.Off, c.Val, c.Grow, c.CapMax), c.Fail != "none", "failed-importer-keeps-function:"+c.Fail, "allocator:"+c.Alloc)
	_ = api.ValueTypeI32
}

func TestFailedImporterWithAllocator(t *testing.T) {
	if evid.ReplayPath() != "" {
		t.Skip()
	}
	evid.Check(t, "failed-importer-allocator", evid.Scale(400, 20000), propFailed)
}
