package c12

import (
	"context"
	"fmt"
	"sync"
	"testing"

	"github.com/tetratelabs/wazero"
	"github.com/tetratelabs/wazero/api"
	"pgregory.net/rapid"

	"verif/internal/evid"
	"verif/internal/runner"
	"verif/internal/wasmgen"
	"verif/internal/wz"
)

// Concurrent use of one shared compilation cache: several runtimes, each in its own goroutine,
// share one in-memory cache (documented as supported) and compile + run their own program at
// the same time, with the drawn listener / debug / close-on-context-done options. Every program
// must behave exactly as it does alone, uncached and under the default configuration (computed
// sequentially before). What a cache-sharing runtime does while another one compiles is part of
// "shared between runtimes": the engine behind the cache has compiler state of its own (machine,
// shared trampolines for listeners) that every CompileModule goes through.

type ConcCase struct {
	Engine   string            `json:"engine"`
	Features uint64            `json:"features"`
	Fuel     int32             `json:"fuel"`
	Mods     []*wasmgen.Module `json:"modules"`
	Scripts  [][]runner.Call   `json:"scripts"`
	Point    Point             `json:"point"` // Cache is ignored: the cache is always the shared in-memory one
	Rounds   int               `json:"rounds"`
}

func RunConcCase(c *ConcCase) string {
	feats := api.CoreFeatures(c.Features)
	opt := runner.Options{FuelPerCall: c.Fuel}
	base := make([]runner.Trace, len(c.Mods))
	for i, m := range c.Mods {
		base[i] = runner.Run(baseCfg(c.Engine, feats, 100), m, c.Scripts[i], opt)
		if base[i].HasKind(wz.KInternal) {
			return fmt.Sprintf("internal failure under the baseline configuration: %v %v", base[i].Inst, base[i].Steps)
		}
	}
	ctx := context.Background()
	for r := 0; r < c.Rounds; r++ {
		cache := wazero.NewCompilationCache()
		got := make([]runner.Trace, len(c.Mods))
		var calls int64
		var wg sync.WaitGroup
		start := make(chan struct{})
		for i := range c.Mods {
			wg.Add(1)
			go func(i int) {
				defer wg.Done()
				o := opt
				o.Ctx = ctxFor(c.Point, c.Mods[i], nil, &calls)
				o.CancelAfterCall = c.Point.CancelAfter
				<-start
				got[i] = runner.Run(apply(baseCfg(c.Engine, feats, 100), c.Point).WithCompilationCache(cache), c.Mods[i], c.Scripts[i], o)
			}(i)
		}
		close(start)
		wg.Wait()
		cache.Close(ctx)
		for i := range c.Mods {
			if base[i].HasKind(wz.KStack) || got[i].HasKind(wz.KStack) {
				continue
			}
			if d := runner.Diff(&base[i], &got[i], "alone-uncached", "concurrent-shared-cache"); d != "" {
				return fmt.Sprintf("program %d of %d compiled and run while other runtimes used the same cache (round %d, point %+v, engine %s) differs from the same program alone: %s", i, len(c.Mods), r, c.Point, c.Engine, d)
			}
		}
	}
	return ""
}

func propConc(t *rapid.T) {
	fc := featChoices[rapid.IntRange(1, len(featChoices)-1).Draw(t, "feat")]
	c := &ConcCase{Engine: rapid.SampledFrom(wz.Engines).Draw(t, "engine"), Features: uint64(fc.a), Rounds: 2}
	c.Point = drawPoint(t)
	c.Point.Cache, c.Point.Allocator, c.Point.CapMax = "shared-concurrent", "", false
	if rapid.IntRange(0, 2).Draw(t, "forcelisteners") != 0 {
		c.Point.Listeners = "all"
	}
	n := rapid.IntRange(3, 8).Draw(t, "nprograms")
	for i := 0; i < n; i++ {
		cfg := wasmgen.DefaultConfig()
		cfg.Features = fc.g
		cfg.MaxFuncs = rapid.IntRange(2, 8).Draw(t, "maxfuncs")
		cfg.MaxStmts = rapid.IntRange(2, 5).Draw(t, "maxstmts")
		cfg.MaxDepth = rapid.IntRange(2, 4).Draw(t, "maxdepth")
		m := wasmgen.Generate(t, cfg)
		c.Fuel = cfg.FuelInit
		c.Mods = append(c.Mods, m)
		ex := m.Exports()
		var sc []runner.Call
		for k, nc := 0, rapid.IntRange(1, 3).Draw(t, "ncalls"); k < nc; k++ {
			e := ex[rapid.IntRange(0, len(ex)-1).Draw(t, "export")]
			sc = append(sc, runner.Call{Fn: e.Export, Args: args(t, e.Sig.P)})
		}
		c.Scripts = append(c.Scripts, sc)
	}
	rc := map[string]any{"conc": c}
	evid.Journal(rc)
	if msg := RunConcCase(c); msg != "" {
		evid.Fail(t, rc, "%s", msg)
	}
	lbl := []string{"concurrent-shared-cache", fmt.Sprintf("concurrent-runtimes=%d", n)}
	if c.Point.Listeners == "all" {
		lbl = append(lbl, "concurrent-compile-with-listeners")
	}
	var h []any
	for _, m := range c.Mods {
		h = append(h, m.Bytes)
	}
	evid.Case(evid.Hash64(append(h, c.Engine, fmt.Sprint(c.Point), fmt.Sprint(c.Scripts))...), true, lbl...)
	evid.Sample("concurrent-case", 1, map[string]any{"engine": c.Engine, "programs": n, "point": c.Point})
}

func TestConcurrentSharedCache(t *testing.T) {
	if evid.ReplayPath() != "" {
		t.Skip()
	}
	evid.Check(t, "concurrent-shared-cache", evid.Scale(240, 8000), propConc)
}
