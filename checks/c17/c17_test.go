// C17 — read-only mounts cannot be modified by the guest.
//
// A small host tree (files, nested directories, an empty directory, symlinks) is mounted
// three ways: WithReadOnlyDirMount(dir), WithFSMount(os.DirFS(dir)) and
// WithFSMount(fstest.MapFS). A guest (the WASI proxy) issues path_open with the complete
// cross product of oflags x fdflags x rights x lookup flags x paths followed by every
// mutating descriptor operation on whatever descriptor it obtained (TestOpenCrossProduct,
// exhaustive), and rapid-generated sequences of all path and descriptor operations
// (TestSequences). Oracle: a recursive snapshot of the host directory (names, types, modes,
// inode numbers, link counts, sizes, SHA-256 of contents, link targets, mtime and ctime; for
// MapFS the map itself) is identical before and after every step, no file's atime equals a
// value the guest asked for, and a known file can still be read through the mount.
package c17

import (
	"context"
	"crypto/sha256"
	"encoding/binary"
	"encoding/hex"
	"encoding/json"
	"fmt"
	"hash/maphash"
	"io/fs"
	"os"
	"path"
	"path/filepath"
	"sort"
	"strings"
	"syscall"
	"testing"
	"testing/fstest"
	"time"

	"github.com/tetratelabs/wazero"
	"pgregory.net/rapid"

	"verif/internal/evid"
	"verif/internal/wasiproxy"
	"verif/internal/wz"
)

func TestMain(m *testing.M) { evid.Main(m, "C17") }

// findingCreatTrunc is the class "path_open on the WithReadOnlyDirMount mount with O_CREAT or
// O_TRUNC while the requested rights select the read-only access mode" (seen while reading:
// sysfs.ReadFS.OpenFile only rejects O_WRONLY/O_RDWR). Violations whose culprit step is in
// this class are routed through evid.Finding; the sequence generator leaves the class out
// only while the finding is listed as open in known_findings.json.
const findingCreatTrunc = "C17-ro-open-creat-trunc"

// WASI constants.
const (
	oCreat, oDirectory, oExcl, oTrunc = 1, 2, 4, 8
	fdAppend                          = 1
	rightRead, rightWrite             = uint64(1) << 1, uint64(1) << 6
	fstAtim, fstAtimNow               = 1, 2
	fstMtim, fstMtimNow               = 4, 8
)

var mountKinds = []string{"rodir", "dirfs", "mapfs"}

// ---- the tree ----

type entry struct {
	name    string // slash-separated, relative
	dir     bool
	link    string // symlink target (host mounts only)
	content string
}

var tree = []entry{
	{name: "d", dir: true},
	{name: "d/g.txt", content: "nested g: abcdefghij\n"},
	{name: "d/sub", dir: true},
	{name: "d/sub/h.txt", content: "deep h\n"},
	{name: "empty", dir: true},
	{name: "f.txt", content: "C17 file f: 0123456789\n"},
	{name: "z.bin", content: strings.Repeat("Z", 5000)},
	// symbolic links of every kind (host mounts only)
	{name: "ln", link: "f.txt"},                // to a file
	{name: "lnd", link: "d"},                   // to a directory
	{name: "chain", link: "ln"},                // to a link
	{name: "d/lnup", link: "../f.txt"},         // upwards, inside the mount
	{name: "dang", link: "d/missing.txt"},      // dangling: missing name in an existing directory
	{name: "dang2", link: "nodir/missing.txt"}, // dangling: missing directory
	{name: "dangchain", link: "dang"},          // link to a dangling link
	{name: "up", link: "../out/o.txt"},         // leaves the mount: existing file next to it
	{name: "updang", link: "../out/missing"},   // leaves the mount: missing name next to it
}

// outTree lives next to the read-only tree (host directory "out"); it is reachable from the
// mount only through the links "up"/"updang" and is part of the snapshot.
var outTree = []entry{
	{name: "o.txt", content: "outside o\n"},
}

const knownFile, knownContent = "f.txt", "C17 file f: 0123456789\n"

var rwTree = []entry{
	{name: "w.txt", content: "writable w\n"},
	{name: "wd", dir: true},
}

var oldTime = time.Date(2001, 2, 3, 4, 5, 6, 0, time.UTC)

func buildTree(root string, es []entry) error {
	// the root directory itself is kept (wazero holds its path); its children are recreated
	os.MkdirAll(root, 0o755)
	kids, _ := os.ReadDir(root)
	for _, k := range kids {
		if err := os.RemoveAll(filepath.Join(root, k.Name())); err != nil {
			return err
		}
	}
	os.Chmod(root, 0o755)
	for _, e := range es {
		p := filepath.Join(root, filepath.FromSlash(e.name))
		var err error
		switch {
		case e.dir:
			err = os.Mkdir(p, 0o755)
		case e.link != "":
			err = os.Symlink(e.link, p)
		default:
			err = os.WriteFile(p, []byte(e.content), 0o644)
		}
		if err != nil {
			return err
		}
	}
	// old, fixed mtimes/atimes (deepest first so that parents are not touched afterwards)
	for i := len(es) - 1; i >= 0; i-- {
		if es[i].link != "" {
			continue
		}
		if err := os.Chtimes(filepath.Join(root, filepath.FromSlash(es[i].name)), oldTime, oldTime); err != nil {
			return err
		}
	}
	return os.Chtimes(root, oldTime, oldTime)
}

func buildMapFS() fstest.MapFS {
	m := fstest.MapFS{}
	for _, e := range tree {
		switch {
		case e.link != "":
		case e.dir:
			m[e.name] = &fstest.MapFile{Mode: fs.ModeDir | 0o755, ModTime: oldTime}
		default:
			m[e.name] = &fstest.MapFile{Data: []byte(e.content), Mode: 0o644, ModTime: oldTime}
		}
	}
	return m
}

var (
	hashSeed = maphash.MakeSeed()
	readBuf  = make([]byte, 1<<16)
)

// readInto reads a (small) file into the shared buffer.
func readInto(p string) ([]byte, error) {
	f, err := os.Open(p)
	if err != nil {
		return nil, err
	}
	defer f.Close()
	n := 0
	for n < len(readBuf) {
		k, err := f.Read(readBuf[n:])
		n += k
		if err != nil || k == 0 {
			break
		}
	}
	return readBuf[:n], nil
}

// snapshot of a host directory: one line per entry. atimes are returned separately.
func snapshotDir(root string) (string, map[string]int64) {
	var sb strings.Builder
	at := map[string]int64{}
	var walk func(rel string)
	walk = func(rel string) {
		p := filepath.Join(root, filepath.FromSlash(rel))
		var st syscall.Stat_t
		if err := syscall.Lstat(p, &st); err != nil {
			fmt.Fprintf(&sb, "%s: lstat error %v\n", rel, err)
			return
		}
		at[rel] = st.Atim.Sec*1e9 + st.Atim.Nsec
		fmt.Fprintf(&sb, "%s mode=%o ino=%d nlink=%d uid=%d mtime=%d.%09d ctime=%d.%09d", rel, st.Mode, st.Ino, st.Nlink, st.Uid,
			st.Mtim.Sec, st.Mtim.Nsec, st.Ctim.Sec, st.Ctim.Nsec)
		switch st.Mode & syscall.S_IFMT {
		case syscall.S_IFDIR:
			sb.WriteString(" dir\n")
			des, err := os.ReadDir(p)
			if err != nil {
				fmt.Fprintf(&sb, "%s: readdir error %v\n", rel, err)
				return
			}
			names := make([]string, 0, len(des))
			for _, d := range des {
				names = append(names, d.Name())
			}
			sort.Strings(names)
			for _, n := range names {
				if rel == "." {
					walk(n)
				} else {
					walk(rel + "/" + n)
				}
			}
		case syscall.S_IFLNK:
			t, _ := os.Readlink(p)
			fmt.Fprintf(&sb, " symlink link=%s\n", t)
		case syscall.S_IFREG:
			b, err := readInto(p)
			head := b
			if len(head) > 24 {
				head = head[:24]
			}
			// the content hash only has to be comparable within this process
			fmt.Fprintf(&sb, " size=%d read=%d hash=%016x head=%q err=%v\n", st.Size, len(b), maphash.Bytes(hashSeed, b), strings.ReplaceAll(string(head), " ", "_"), err)
		default:
			sb.WriteString(" other\n")
		}
	}
	walk(".")
	return sb.String(), at
}

func snapshotMap(m fstest.MapFS) string {
	names := make([]string, 0, len(m))
	for n := range m {
		names = append(names, n)
	}
	sort.Strings(names)
	var sb strings.Builder
	for _, n := range names {
		f := m[n]
		h := sha256.Sum256(f.Data)
		fmt.Fprintf(&sb, "%s mode=%o mtime=%d size=%d sha=%s ptr=%p\n", n, uint32(f.Mode), f.ModTime.UnixNano(), len(f.Data), hex.EncodeToString(h[:8]), f)
	}
	return sb.String()
}

// volatile fields of a snapshot line: their values differ between runs of the same case, so
// the violation message names them without values (rapid needs a message that is a function
// of the case); the values are kept in the detail text stored in the replay file.
func parseSnap(snap string) (map[string]map[string]string, []string) {
	m := map[string]map[string]string{}
	var order []string
	for _, l := range strings.Split(snap, "\n") {
		if l == "" {
			continue
		}
		toks := strings.Split(l, " ")
		f := map[string]string{}
		for _, t := range toks[1:] {
			if k := strings.IndexByte(t, '='); k > 0 {
				f[t[:k]] = t[k+1:]
			} else {
				f["type"] = t
			}
		}
		m[toks[0]] = f
		order = append(order, toks[0])
	}
	return m, order
}

// diffSnap returns a stable description (entry names and the names of the fields that
// changed) and the detailed before/after lines.
func diffSnap(a, b string) (stable, detail string) {
	ma, oa := parseSnap(a)
	mb, ob := parseSnap(b)
	var st []string
	for _, n := range oa {
		fa := ma[n]
		fb, ok := mb[n]
		if !ok {
			st = append(st, n+": removed")
			continue
		}
		var ch []string
		for _, k := range []string{"type", "mode", "ino", "nlink", "uid", "size", "read", "hash", "sha", "head", "link", "mtime", "ctime", "ptr", "err"} {
			if fa[k] != fb[k] {
				switch k {
				case "hash", "sha", "head", "read":
					k = "content"
				}
				if len(ch) == 0 || ch[len(ch)-1] != k {
					ch = append(ch, k)
				}
			}
		}
		if len(ch) > 0 {
			st = append(st, n+": changed "+strings.Join(ch, ","))
		}
	}
	for _, n := range ob {
		if _, ok := ma[n]; !ok {
			st = append(st, n+": created")
		}
	}
	la, lb := strings.Split(a, "\n"), strings.Split(b, "\n")
	sa, sb := map[string]bool{}, map[string]bool{}
	for _, l := range la {
		sa[l] = true
	}
	for _, l := range lb {
		sb[l] = true
	}
	var out []string
	for _, l := range la {
		if !sb[l] {
			out = append(out, "  before: "+l)
		}
	}
	for _, l := range lb {
		if !sa[l] {
			out = append(out, "  after:  "+l)
		}
	}
	if len(out) > 16 {
		out = append(out[:16], "  ...")
	}
	if len(st) > 8 {
		st = append(st[:8], "...")
	}
	return strings.Join(st, "; "), strings.Join(out, "\n")
}

// ---- static knowledge of the tree for the non-triviality rule ----

// resolveLinks follows the tree's symbolic links in rel; "" when the path leaves the mount.
func resolveLinks(rel string) string {
	for depth := 0; depth < 8; depth++ {
		parts := strings.Split(rel, "/")
		changed := false
		for k := range parts {
			prefix := strings.Join(parts[:k+1], "/")
			for _, e := range tree {
				if e.link != "" && e.name == prefix {
					t := path.Clean(path.Join(path.Dir(prefix), e.link))
					if t == ".." || strings.HasPrefix(t, "../") {
						return ""
					}
					rel = path.Clean(path.Join(append([]string{t}, parts[k+1:]...)...))
					changed = true
				}
			}
			if changed {
				break
			}
		}
		if !changed {
			return rel
		}
	}
	return ""
}

// lookupTree reports whether rel (cleaned, relative to the mount root) exists and whether it
// is a directory.
func lookupTree(rel string, withLinks bool) (exists, isDir bool) {
	if withLinks {
		if rel = resolveLinks(rel); rel == "" {
			return false, false
		}
	}
	if rel == "." || rel == "" {
		return true, true
	}
	for _, e := range tree {
		if e.name == rel && (withLinks || e.link == "") {
			return true, e.dir
		}
	}
	return false, false
}

// insideMount: the guest path (relative to base inside the ro mount) names an existing entry
// or a missing name in an existing directory.
func insideMount(base, p string, withLinks bool) bool {
	if p == "" {
		return false
	}
	c := path.Clean(p)
	if !fs.ValidPath(c) {
		return false
	}
	full := path.Clean(path.Join(base, c))
	if !fs.ValidPath(full) {
		return false
	}
	if ok, _ := lookupTree(full, withLinks); ok {
		return true
	}
	ok, isDir := lookupTree(path.Dir(full), withLinks)
	return ok && isDir
}

// ---- case and steps ----

type step struct {
	Op      string `json:"op"`
	Dir     int    `json:"dir,omitempty"`  // base descriptor of Path: -1 ro preopen, -2 rw preopen, k>=0 k-th opened descriptor
	Path    string `json:"path,omitempty"` //
	Dir2    int    `json:"dir2,omitempty"`
	Path2   string `json:"path2,omitempty"`
	Fd      int    `json:"fd,omitempty"` // descriptor operand: -1 ro preopen, k>=0 k-th opened descriptor
	Oflags  uint16 `json:"oflags,omitempty"`
	Fdflags uint16 `json:"fdflags,omitempty"`
	Rights  uint64 `json:"rights,omitempty"`
	Lookup  uint16 `json:"lookup,omitempty"`
	A       uint64 `json:"a,omitempty"`
	B       uint64 `json:"b,omitempty"`
	Flags   uint16 `json:"flags,omitempty"`
	Data    string `json:"data,omitempty"`
}

// mountOp is one With...Mount derivation of an FSConfig.
//
// Kind: "dir-same" WithDirMount(the read-only tree's host dir) (for the MapFS mount: another
// directory), "dir-other" WithDirMount(another directory), "rodir-other"
// WithReadOnlyDirMount(another directory), "map-other" WithFSMount(another MapFS), "nil"
// WithFSMount(nil).
type mountOp struct {
	Kind  string `json:"kind"`
	Guest string `json:"guest"`
	// After-ops only: Chain derives from the previous derived config instead of from the
	// configuration under test; Use instantiates a sibling guest with the derived config
	// (it makes no calls); ViaModule also passes it through ModuleConfig.WithFSConfig.
	Chain     bool `json:"chain,omitempty"`
	Use       bool `json:"use,omitempty"`
	ViaModule bool `json:"via_module,omitempty"`
}

// recipe says how the FSConfig of the instance under test is built and what else is derived
// from it before instantiation. The zero value is NewFSConfig().With<ro mount>("/ro").
// WithDirMount(rw, "/rw").
type recipe struct {
	Spelling string    `json:"spelling,omitempty"` // guest path spelling of the read-only mount ("" = "/ro")
	RWFirst  bool      `json:"rw_first,omitempty"` // the writable mount "/rw" is added before, not after
	Before   []mountOp `json:"before,omitempty"`   // mounts made before the read-only mount (same guest path: overridden by it)
	After    []mountOp `json:"after,omitempty"`    // configs derived from the finished config; never used by the instance under test
}

func (r recipe) key() string {
	b, _ := json.Marshal(r)
	return string(b)
}

func (r recipe) isDefault() bool { return r.key() == recipe{}.key() }

func cleanGuest(p string) string {
	for strings.HasSuffix(p, "/") {
		p = p[:len(p)-1]
	}
	for {
		switch {
		case strings.HasPrefix(p, "/"):
			p = p[1:]
		case strings.HasPrefix(p, "./"):
			p = p[2:]
		case p == ".":
			p = ""
		default:
			return p
		}
	}
}

type caseT struct {
	Mount  string `json:"mount"`
	Engine string `json:"engine"`
	Config recipe `json:"config"`
	Steps  []step `json:"steps"`
	// CLI, when set, makes this a case of TestCLIMounts (cli_test.go); the other fields are unused
	CLI *cliCase `json:"cli,omitempty"`
	// filled in when a violation is written out; ignored by replay
	Observed []string `json:"observed,omitempty"`
}

func (c caseT) withObserved(res result) caseT {
	c.Observed = append(append([]string{}, res.trace...), strings.Split(res.detail, "\n")...)
	return c
}

func (s step) String() string {
	switch s.Op {
	case "open":
		return fmt.Sprintf("path_open(dir=%d, lookup=%d, %q, oflags=%#x, rights=%#x, fdflags=%#x)", s.Dir, s.Lookup, s.Path, s.Oflags, s.Rights, s.Fdflags)
	case "rename", "link":
		return fmt.Sprintf("path_%s(dir=%d, %q -> dir=%d, %q)", s.Op, s.Dir, s.Path, s.Dir2, s.Path2)
	case "symlink":
		return fmt.Sprintf("path_symlink(%q, dir=%d, %q)", s.Path2, s.Dir, s.Path)
	case "mkdir", "rmdir", "unlink", "path_set_times", "path_filestat_get", "readlink":
		return fmt.Sprintf("%s(dir=%d, %q, a=%d, b=%d, flags=%#x, lookup=%d)", s.Op, s.Dir, s.Path, s.A, s.B, s.Flags, s.Lookup)
	}
	return fmt.Sprintf("fd_%s(fd=%d, a=%d, b=%d, flags=%#x, data=%q)", s.Op, s.Fd, s.A, s.B, s.Flags, s.Data)
}

func isKnownClass(mount string, s step) bool {
	return mount == "rodir" && s.Op == "open" && s.Oflags&(oCreat|oTrunc) != 0 && s.Rights&(rightRead|rightWrite) == rightRead
}

var mutatingOps = map[string]bool{"write": true, "pwrite": true, "set_size": true, "set_times": true, "allocate": true,
	"set_flags": true, "sync": true, "datasync": true, "mkdir": true, "rmdir": true, "unlink": true, "rename": true,
	"link": true, "symlink": true, "path_set_times": true}

func openIsMutating(s step) bool {
	return s.Oflags&(oCreat|oTrunc) != 0 || s.Fdflags&fdAppend != 0 || s.Rights&rightWrite != 0
}

// ---- world ----

type slot struct {
	fd    uint32
	rel   string // path relative to the ro root ("" when unknown / rw mount)
	inRO  bool
	isDir bool
	open  bool
}

// host is the host side of one mount kind: the directories (or the map) and their last
// snapshot. It is shared by all worlds (guests with differently built configurations) of
// that mount kind in this process; cases run one after the other.
type host struct {
	roDir, rwDir string
	outDir       string // next to roDir, reachable through links only; "" for the MapFS mount
	otherDir     string
	otherMap     fstest.MapFS
	mapfs        fstest.MapFS
	snap         string
	rwSnap       string
	atimes       map[string]int64
	guestAtimes  map[int64]bool
}

var hosts = map[string]*host{}

func hostFor(mount string) (*host, error) {
	if h := hosts[mount]; h != nil {
		return h, nil
	}
	base := filepath.Join(evid.WorkDir(), "host-"+mount)
	h := &host{roDir: filepath.Join(base, "ro"), rwDir: filepath.Join(base, "rw"), otherDir: filepath.Join(base, "other"),
		otherMap: fstest.MapFS{"o.txt": &fstest.MapFile{Data: []byte("other map\n")}}, guestAtimes: map[int64]bool{}}
	if err := buildTree(h.rwDir, rwTree); err != nil {
		return nil, err
	}
	if err := buildTree(h.otherDir, rwTree); err != nil {
		return nil, err
	}
	if mount == "mapfs" {
		h.mapfs = buildMapFS()
		h.roDir = ""
	} else {
		h.outDir = filepath.Join(base, "out")
		if err := buildTree(h.roDir, tree); err != nil {
			return nil, err
		}
		if err := buildTree(h.outDir, outTree); err != nil {
			return nil, err
		}
	}
	hosts[mount] = h
	return h, nil
}

type world struct {
	*host
	mount, engine string
	cfg           recipe
	fdRO, fdRW    uint32 // preopens: read-only mount under test, writable mount
	rt            wazero.Runtime
	p             *wasiproxy.Proxy
	slots         []slot
	nontrivial    int
	mutFirst      bool // the first step of the running case satisfied the non-triviality rule
	steps         int
	labels        map[string]int
	internal      string
}

func newWorld(mount, engine string, cfg recipe) (*world, error) {
	h, err := hostFor(mount)
	if err != nil {
		return nil, err
	}
	w := &world{host: h, mount: mount, engine: engine, cfg: cfg, labels: map[string]int{}}
	if err := w.boot(); err != nil {
		return nil, err
	}
	w.resnap()
	return w, nil
}

// mountRO adds the read-only mount under test.
func (w *world) mountRO(fc wazero.FSConfig, guest string) (wazero.FSConfig, error) {
	switch w.mount {
	case "rodir":
		return fc.WithReadOnlyDirMount(w.roDir, guest), nil
	case "dirfs":
		return fc.WithFSMount(os.DirFS(w.roDir), guest), nil
	case "mapfs":
		return fc.WithFSMount(w.mapfs, guest), nil
	}
	return nil, fmt.Errorf("unknown mount kind %q", w.mount)
}

func (w *world) applyMount(fc wazero.FSConfig, op mountOp) wazero.FSConfig {
	switch op.Kind {
	case "dir-same":
		d := w.roDir
		if d == "" {
			d = w.otherDir
		}
		return fc.WithDirMount(d, op.Guest)
	case "dir-other":
		return fc.WithDirMount(w.otherDir, op.Guest)
	case "rodir-other":
		return fc.WithReadOnlyDirMount(w.otherDir, op.Guest)
	case "map-other":
		return fc.WithFSMount(w.otherMap, op.Guest)
	case "nil":
		return fc.WithFSMount(nil, op.Guest)
	}
	return fc
}

func (w *world) boot() error {
	ctx := context.Background()
	if w.rt != nil {
		w.rt.Close(ctx)
	}
	w.slots = nil
	w.rt = wazero.NewRuntimeWithConfig(ctx, wz.Config(w.engine))
	spelling := w.cfg.Spelling
	if cleanGuest(spelling) != "ro" {
		spelling = "/ro"
	}
	fc := wazero.NewFSConfig()
	if w.cfg.RWFirst {
		fc = fc.WithDirMount(w.rwDir, "/rw")
	}
	for _, op := range w.cfg.Before {
		// a mount that would legitimately expose the tree writable under another guest path, or
		// replace the writable mount, is not part of the domain
		if g := cleanGuest(op.Guest); g == "rw" || g == "" || op.Kind == "nil" || (op.Kind == "dir-same" && g != "ro") {
			continue
		}
		fc = w.applyMount(fc, op)
	}
	fc, err := w.mountRO(fc, spelling)
	if err != nil {
		return err
	}
	if !w.cfg.RWFirst {
		fc = fc.WithDirMount(w.rwDir, "/rw")
	}
	// the configuration under test is finished; everything below only derives from it
	mc := wazero.NewModuleConfig().WithFSConfig(fc)
	prev := fc
	for _, op := range w.cfg.After {
		from := fc
		if op.Chain {
			from = prev
		}
		d := w.applyMount(from, op)
		prev = d
		dm := mc
		if op.ViaModule {
			dm = mc.WithFSConfig(d)
		}
		if op.Use && op.Kind != "nil" {
			if !op.ViaModule {
				dm = wazero.NewModuleConfig().WithFSConfig(d)
			}
			if _, err := wasiproxy.New(ctx, w.rt, dm, 1, 1); err != nil {
				return fmt.Errorf("sibling: %w", err)
			}
		}
	}
	p, err := wasiproxy.New(ctx, w.rt, mc, 1, 1)
	if err != nil {
		return err
	}
	w.p = p
	// find the preopens by name
	w.fdRO, w.fdRW = 0, 0
	for fd := uint32(3); fd < 16; fd++ {
		e, out := p.Call(ctx, "fd_prestat_get", uint64(fd), mResult)
		if out.Kind != wz.KOK || e != 0 {
			continue
		}
		n, _ := p.Mem.ReadUint32Le(mResult + 4)
		if e, out = p.Call(ctx, "fd_prestat_dir_name", uint64(fd), mBuf, uint64(n)); out.Kind != wz.KOK || e != 0 {
			continue
		}
		nm, _ := p.Mem.Read(mBuf, n)
		switch cleanGuest(string(nm)) {
		case "ro":
			w.fdRO = fd
		case "rw":
			w.fdRW = fd
		}
	}
	if w.fdRO == 0 || w.fdRW == 0 {
		return fmt.Errorf("preopens not found (ro=%d rw=%d) for config %s", w.fdRO, w.fdRW, w.cfg.key())
	}
	return nil
}

func (w *world) close() {
	if w.rt != nil {
		w.rt.Close(context.Background())
		w.rt = nil
	}
}

func (w *world) takeSnap() (string, map[string]int64) {
	if w.mount == "mapfs" {
		return snapshotMap(w.mapfs), nil
	}
	// the whole tree is walked (entries that appear anywhere are seen), plus the directory that
	// links of the tree point to
	sn, at := snapshotDir(w.roDir)
	so, ao := snapshotDir(w.outDir)
	for _, l := range strings.Split(so, "\n") {
		if l != "" {
			sn += "../out/" + l + "\n"
		}
	}
	for k, v := range ao {
		at["../out/"+k] = v
	}
	return sn, at
}

func (w *world) resnap() {
	w.snap, w.atimes = w.takeSnap()
	w.rwSnap, _ = snapshotDir(w.rwDir)
}

// restore rebuilds the tree after a violation and restarts the guest.
func (w *world) restore() error {
	if w.mount == "mapfs" {
		for k := range w.mapfs {
			delete(w.mapfs, k)
		}
		for k, v := range buildMapFS() {
			w.mapfs[k] = v
		}
	} else {
		if err := buildTree(w.roDir, tree); err != nil {
			return err
		}
		if err := buildTree(w.outDir, outTree); err != nil {
			return err
		}
	}
	if err := buildTree(w.rwDir, rwTree); err != nil {
		return err
	}
	if err := w.boot(); err != nil {
		return err
	}
	w.resnap()
	w.guestAtimes = map[int64]bool{}
	return nil
}

// checkInvariant compares the tree with the snapshot; "" when unchanged.
func (w *world) checkInvariant() (stable, detail string) {
	now, at := w.takeSnap()
	if now != w.snap {
		st, d := diffSnap(w.snap, now)
		return "the read-only mounted tree changed (" + st + ")", d
	}
	rels := make([]string, 0, len(at))
	for rel := range at {
		rels = append(rels, rel)
	}
	sort.Strings(rels)
	for _, rel := range rels {
		if a := at[rel]; w.guestAtimes[a] && w.atimes[rel] != a {
			return fmt.Sprintf("atime of %s was set to the guest-requested value %d", rel, a), ""
		}
	}
	w.atimes = at
	return "", ""
}

// memory layout of the proxy guest (one page)
const (
	mResult = 512
	mPath1  = 1024
	mPath2  = 2048
	mIovec  = 3072
	mData   = 4096
	mBuf    = 8192
	bufLen  = 4096
)

func (w *world) resolveDir(ref int) (fd uint32, base string, inRO bool) {
	switch {
	case ref == -2:
		return w.fdRW, "", false
	case ref >= 0 && len(w.slots) > 0:
		s := w.slots[ref%len(w.slots)]
		return s.fd, s.rel, s.inRO
	}
	return w.fdRO, ".", true
}

func (w *world) resolveFd(ref int) (fd uint32, sl *slot) {
	if ref >= 0 && len(w.slots) > 0 {
		s := &w.slots[ref%len(w.slots)]
		return s.fd, s
	}
	return w.fdRO, nil
}

func (w *world) putPath(off uint32, p string) (uint64, uint64) {
	if len(p) > 900 {
		p = p[:900]
	}
	w.p.Mem.Write(off, []byte(p))
	return uint64(off), uint64(len(p))
}

func (w *world) noteTimes(s step) {
	if s.Flags&fstAtim != 0 {
		w.guestAtimes[int64(s.A)] = true
	}
}

// apply executes one step and returns a one-line description of the result.
func (w *world) apply(s step) string {
	ctx := context.Background()
	p := w.p
	var errno uint32
	var out wz.Outcome
	mut := false // counts for the non-triviality rule
	switch s.Op {
	case "open":
		dfd, base, inRO := w.resolveDir(s.Dir)
		po, pl := w.putPath(mPath1, s.Path)
		p.Mem.WriteUint32Le(mResult, 0xffffffff)
		errno, out = p.Call(ctx, "path_open", uint64(dfd), uint64(s.Lookup), po, pl, uint64(s.Oflags), s.Rights, s.Rights, uint64(s.Fdflags), mResult)
		mut = inRO && openIsMutating(s) && insideMount(base, s.Path, s.Lookup&1 != 0 && w.mount != "mapfs")
		if out.Kind == wz.KOK && errno == 0 {
			nfd, _ := p.Mem.ReadUint32Le(mResult)
			rel := ""
			if inRO {
				rel = path.Clean(path.Join(base, path.Clean(s.Path)))
			}
			_, isDir := lookupTree(rel, true)
			w.slots = append(w.slots, slot{fd: nfd, rel: rel, inRO: inRO, isDir: isDir, open: true})
			w.labels["open-ok"]++
			if openIsMutating(s) {
				w.labels["open-ok-with-mutating-request"]++
			}
		}
	case "write", "pwrite":
		fd, sl := w.resolveFd(s.Fd)
		p.Mem.Write(mData, []byte(s.Data))
		var iov [8]byte
		binary.LittleEndian.PutUint32(iov[0:], mData)
		binary.LittleEndian.PutUint32(iov[4:], uint32(len(s.Data)))
		p.Mem.Write(mIovec, iov[:])
		if s.Op == "write" {
			errno, out = p.Call(ctx, "fd_write", uint64(fd), mIovec, 1, mResult)
		} else {
			errno, out = p.Call(ctx, "fd_pwrite", uint64(fd), mIovec, 1, s.A, mResult)
		}
		mut = sl == nil || (sl.inRO && sl.open)
	case "set_size":
		fd, sl := w.resolveFd(s.Fd)
		errno, out = p.Call(ctx, "fd_filestat_set_size", uint64(fd), s.A)
		mut = sl == nil || (sl.inRO && sl.open)
	case "set_times":
		fd, sl := w.resolveFd(s.Fd)
		w.noteTimes(s)
		errno, out = p.Call(ctx, "fd_filestat_set_times", uint64(fd), s.A, s.B, uint64(s.Flags))
		mut = sl == nil || (sl.inRO && sl.open)
	case "allocate":
		fd, sl := w.resolveFd(s.Fd)
		errno, out = p.Call(ctx, "fd_allocate", uint64(fd), s.A, s.B)
		mut = sl == nil || (sl.inRO && sl.open)
	case "set_flags":
		fd, sl := w.resolveFd(s.Fd)
		errno, out = p.Call(ctx, "fd_fdstat_set_flags", uint64(fd), uint64(s.Flags))
		mut = sl == nil || (sl.inRO && sl.open)
	case "sync", "datasync":
		fd, sl := w.resolveFd(s.Fd)
		errno, out = p.Call(ctx, "fd_"+s.Op, uint64(fd))
		mut = sl == nil || (sl.inRO && sl.open)
	case "close":
		fd, sl := w.resolveFd(s.Fd)
		if sl == nil {
			w.labels["skipped-close-of-preopen"]++
			return "skipped (the guest keeps its preopens)"
		}
		errno, out = p.Call(ctx, "fd_close", uint64(fd))
		if errno == 0 {
			// every slot holding this number is closed now
			for i := range w.slots {
				if w.slots[i].fd == fd {
					w.slots[i].open = false
				}
			}
		}
	case "read", "pread":
		fd, _ := w.resolveFd(s.Fd)
		var iov [8]byte
		binary.LittleEndian.PutUint32(iov[0:], mBuf)
		binary.LittleEndian.PutUint32(iov[4:], uint32(s.B%bufLen))
		p.Mem.Write(mIovec, iov[:])
		if s.Op == "read" {
			errno, out = p.Call(ctx, "fd_read", uint64(fd), mIovec, 1, mResult)
		} else {
			errno, out = p.Call(ctx, "fd_pread", uint64(fd), mIovec, 1, s.A, mResult)
		}
	case "seek":
		fd, _ := w.resolveFd(s.Fd)
		errno, out = p.Call(ctx, "fd_seek", uint64(fd), s.A, uint64(s.Flags%3), mResult)
	case "readdir":
		fd, _ := w.resolveFd(s.Fd)
		errno, out = p.Call(ctx, "fd_readdir", uint64(fd), mBuf, uint64(24+s.B%(bufLen-24)), s.A, mResult)
	case "fdstat_get":
		fd, _ := w.resolveFd(s.Fd)
		errno, out = p.Call(ctx, "fd_fdstat_get", uint64(fd), mBuf)
	case "filestat_get":
		fd, _ := w.resolveFd(s.Fd)
		errno, out = p.Call(ctx, "fd_filestat_get", uint64(fd), mBuf)
	case "advise":
		fd, _ := w.resolveFd(s.Fd)
		errno, out = p.Call(ctx, "fd_advise", uint64(fd), s.A, s.B, uint64(s.Flags%6))
	case "mkdir", "rmdir", "unlink":
		dfd, base, inRO := w.resolveDir(s.Dir)
		po, pl := w.putPath(mPath1, s.Path)
		name := map[string]string{"mkdir": "path_create_directory", "rmdir": "path_remove_directory", "unlink": "path_unlink_file"}[s.Op]
		errno, out = p.Call(ctx, name, uint64(dfd), po, pl)
		mut = inRO && insideMount(base, s.Path, false)
	case "rename":
		dfd, base, inRO := w.resolveDir(s.Dir)
		dfd2, base2, inRO2 := w.resolveDir(s.Dir2)
		po, pl := w.putPath(mPath1, s.Path)
		po2, pl2 := w.putPath(mPath2, s.Path2)
		errno, out = p.Call(ctx, "path_rename", uint64(dfd), po, pl, uint64(dfd2), po2, pl2)
		mut = (inRO && insideMount(base, s.Path, false)) || (inRO2 && insideMount(base2, s.Path2, false))
	case "link":
		dfd, base, inRO := w.resolveDir(s.Dir)
		dfd2, base2, inRO2 := w.resolveDir(s.Dir2)
		po, pl := w.putPath(mPath1, s.Path)
		po2, pl2 := w.putPath(mPath2, s.Path2)
		errno, out = p.Call(ctx, "path_link", uint64(dfd), uint64(s.Lookup), po, pl, uint64(dfd2), po2, pl2)
		mut = (inRO && insideMount(base, s.Path, false)) || (inRO2 && insideMount(base2, s.Path2, false))
	case "symlink":
		dfd, base, inRO := w.resolveDir(s.Dir)
		po, pl := w.putPath(mPath1, s.Path)
		po2, pl2 := w.putPath(mPath2, s.Path2)
		errno, out = p.Call(ctx, "path_symlink", po2, pl2, uint64(dfd), po, pl)
		mut = inRO && insideMount(base, s.Path, false)
	case "path_set_times":
		dfd, base, inRO := w.resolveDir(s.Dir)
		po, pl := w.putPath(mPath1, s.Path)
		w.noteTimes(s)
		errno, out = p.Call(ctx, "path_filestat_set_times", uint64(dfd), uint64(s.Lookup), po, pl, s.A, s.B, uint64(s.Flags))
		mut = inRO && insideMount(base, s.Path, s.Lookup&1 != 0 && w.mount != "mapfs")
	case "path_filestat_get":
		dfd, _, _ := w.resolveDir(s.Dir)
		po, pl := w.putPath(mPath1, s.Path)
		errno, out = p.Call(ctx, "path_filestat_get", uint64(dfd), uint64(s.Lookup), po, pl, mBuf)
	case "readlink":
		dfd, _, _ := w.resolveDir(s.Dir)
		po, pl := w.putPath(mPath1, s.Path)
		errno, out = p.Call(ctx, "path_readlink", uint64(dfd), po, pl, mBuf, 256, mResult)
	default:
		return "unknown op"
	}
	if mut {
		w.nontrivial++
		if w.steps == 0 {
			w.mutFirst = true
		}
	}
	w.steps++
	if out.Kind != wz.KOK {
		w.labels["call-outcome-"+out.Kind]++
		if out.Kind == wz.KInternal && w.internal == "" {
			w.internal = s.String() + ": " + out.String()
		}
		return out.String()
	}
	if errno == 0 && (mutatingOps[s.Op] && s.Op != "sync" && s.Op != "datasync" && s.Op != "set_flags") {
		if mut {
			w.labels["mutating-op-returned-success-on-ro-target-"+s.Op]++
		} else {
			w.labels["mutating-op-returned-success-elsewhere-"+s.Op]++
		}
	}
	return fmt.Sprintf("errno=%d", errno)
}

// readKnown reads the known file through the read-only mount; "" when it works.
func (w *world) readKnown() string {
	ctx := context.Background()
	p := w.p
	po, pl := w.putPath(mPath1, knownFile)
	e, out := p.Call(ctx, "path_open", uint64(w.fdRO), 1, po, pl, 0, rightRead, rightRead, 0, mResult)
	if out.Kind != wz.KOK || e != 0 {
		return fmt.Sprintf("reading through the mount stopped working: path_open(%q, read) = errno %d %v", knownFile, e, out)
	}
	fd, _ := p.Mem.ReadUint32Le(mResult)
	defer p.Call(ctx, "fd_close", uint64(fd))
	var iov [8]byte
	binary.LittleEndian.PutUint32(iov[0:], mBuf)
	binary.LittleEndian.PutUint32(iov[4:], 256)
	p.Mem.Write(mIovec, iov[:])
	e, out = p.Call(ctx, "fd_read", uint64(fd), mIovec, 1, mResult)
	if out.Kind != wz.KOK || e != 0 {
		return fmt.Sprintf("reading through the mount stopped working: fd_read = errno %d %v", e, out)
	}
	n, _ := p.Mem.ReadUint32Le(mResult)
	b, _ := p.Mem.Read(mBuf, n)
	if string(b) != knownContent {
		return fmt.Sprintf("reading %q through the mount returns %q, want %q", knownFile, b, knownContent)
	}
	return ""
}

// closeAll closes the descriptors the case opened (so that a world can be reused).
func (w *world) closeAll() {
	ctx := context.Background()
	for i := range w.slots {
		if w.slots[i].open {
			w.p.Call(ctx, "fd_close", uint64(w.slots[i].fd))
			for j := range w.slots {
				if w.slots[j].fd == w.slots[i].fd {
					w.slots[j].open = false
				}
			}
		}
	}
	w.slots = nil
}

type result struct {
	msg     string // "" = held; a function of the case only (no inode numbers, times)
	detail  string // before/after snapshot lines
	culprit int    // index of the step after which the violation was seen (-1: final read)
	trace   []string
}

// runCase executes the steps in w. With every=true the invariant is evaluated after every
// step, otherwise after the first step and at the end. The world is left clean (descriptors
// closed; tree restored if it was changed).
func runCase(w *world, steps []step, every bool) result {
	res := result{culprit: -1}
	w.nontrivial, w.mutFirst, w.steps = 0, false, 0
	for i, s := range steps {
		r := w.apply(s)
		res.trace = append(res.trace, s.String()+" = "+r)
		if every || i == 0 || i == len(steps)-1 {
			if msg, detail := w.checkInvariant(); msg != "" {
				res.msg = fmt.Sprintf("mount %s: after step %d %s = %s: %s", w.mount, i, s, r, msg)
				res.detail = detail
				res.culprit = i
				break
			}
		}
	}
	if res.msg == "" {
		if msg := w.readKnown(); msg != "" {
			res.msg = fmt.Sprintf("mount %s: after %d steps: %s", w.mount, len(steps), msg)
		} else if msg, detail := w.checkInvariant(); msg != "" {
			res.msg = fmt.Sprintf("mount %s: after the final read: %s", w.mount, msg)
			res.detail = detail
		}
	}
	w.closeAll()
	if res.msg != "" {
		if err := w.restore(); err != nil {
			res.detail += "\n(harness: restore failed: " + err.Error() + ")"
		}
	} else if now, _ := snapshotDir(w.rwDir); now != w.rwSnap {
		// the writable mount may change; put it back so that cases stay independent
		w.labels["rw-mount-restored"]++
		buildTree(w.rwDir, rwTree)
		w.rwSnap, _ = snapshotDir(w.rwDir)
	}
	return res
}

// ---- exhaustive cross product of path_open ----

var crossPaths = []string{"f.txt", "d/g.txt", "d", "empty", ".", "ln", "lnd/g.txt", "new", "d/new", "empty/new", "f.txt/", "d/sub/../g.txt",
	"lnd", "chain", "d/lnup", "dang", "dang2", "dangchain", "up", "updang", "lnd/new"}

var crossRights = []uint64{0, rightRead, rightWrite, rightRead | rightWrite, ^uint64(0)}

// battery is applied to the descriptor obtained by the open (slot 0); without a descriptor
// the steps address the ro preopen itself.
func battery() []step {
	return []step{
		{Op: "write", Data: "XXXX"},
		{Op: "pwrite", A: 2, Data: "YY"},
		{Op: "set_flags", Flags: fdAppend},
		{Op: "write", Data: "AAAA"},
		{Op: "set_size", A: 3},
		{Op: "set_size", A: 9000},
		{Op: "allocate", A: 0, B: 7000},
		{Op: "set_times", A: 1111111111000000000, B: 1222222222000000000, Flags: fstAtim | fstMtim},
		{Op: "set_times", Flags: fstMtimNow},
		{Op: "sync"},
		{Op: "datasync"},
		{Op: "close"},
	}
}

// crossRecipes are the ways the configuration is built in the cross product; block k of 512
// consecutive cases (all oflags x fdflags of one rights/lookup/path/mount combination) uses
// recipe k mod 4.
var crossRecipes = []recipe{
	{},
	{After: []mountOp{{Kind: "dir-same", Guest: "/ro"}}},
	{Spelling: "ro", Before: []mountOp{{Kind: "dir-same", Guest: "/ro"}}},
	{RWFirst: true, Before: []mountOp{{Kind: "map-other", Guest: "/x"}},
		After: []mountOp{{Kind: "dir-other", Guest: "ro/", Use: true}, {Kind: "dir-same", Guest: "/ro", Chain: true, ViaModule: true}}},
}

func crossCase(i int) (caseT, bool) {
	n := i
	of := uint16(n % 16)
	n /= 16
	ff := uint16(n % 32)
	n /= 32
	r := crossRights[n%len(crossRights)]
	n /= len(crossRights)
	lk := uint16(n % 2)
	n /= 2
	p := crossPaths[n%len(crossPaths)]
	n /= len(crossPaths)
	if n >= len(mountKinds) {
		return caseT{}, false
	}
	open := step{Op: "open", Dir: -1, Path: p, Oflags: of, Fdflags: ff, Rights: r, Lookup: lk}
	return caseT{Mount: mountKinds[n], Engine: "interpreter", Config: crossRecipes[(i/512)%len(crossRecipes)], Steps: append([]step{open}, battery()...)}, true
}

var crossTotal = 16 * 32 * len(crossRights) * 2 * len(crossPaths) * len(mountKinds)

func TestOpenCrossProduct(t *testing.T) {
	if evid.ReplayPath() != "" {
		t.Skip()
	}
	worlds := map[string]*world{}
	defer func() {
		for _, w := range worlds {
			w.close()
		}
	}()
	var n, nt int64
	reported := map[string]int{}
	lbl := map[string]int64{}
	for i := 0; i < crossTotal; i++ {
		if !evid.Mine(i) {
			continue
		}
		c, ok := crossCase(i)
		if !ok {
			break
		}
		wk := c.Mount + c.Config.key()
		w := worlds[wk]
		if w == nil {
			var err error
			if w, err = newWorld(c.Mount, c.Engine, c.Config); err != nil {
				t.Fatalf("harness: %v", err)
			}
			worlds[wk] = w
		}
		if !c.Config.isDefault() {
			lbl["cross-nondefault-config"]++
		}
		res := runCase(w, c.Steps, false)
		n++
		if w.mutFirst { // the rule is applied to the generated open alone, not to the fixed battery
			nt++
		}
		open := c.Steps[0]
		if strings.HasSuffix(res.trace[0], "errno=0") {
			lbl["cross-open-ok-"+c.Mount]++
		}
		if i%9973 == 0 {
			evid.Sample("cross-"+c.Mount, 1, map[string]any{"case": c.Steps[0], "trace": res.trace})
		}
		if res.msg == "" {
			continue
		}
		// a violation: classify by the culprit
		known := res.culprit == 0 && isKnownClass(c.Mount, open)
		key := c.Mount + "/other"
		if known {
			key = c.Mount + "/known-class"
		}
		reported[key]++
		lbl["cross-violating-cases"]++
		if reported[key] > 2 {
			continue // the same class on the same mount: counted, not written out again
		}
		if res.culprit > 0 {
			// localise: replay with the invariant evaluated after every step
			if r2 := runCase(w, c.Steps, true); r2.msg != "" {
				res = r2
			}
		}
		if known {
			if evid.Finding(findingCreatTrunc, "open-cross-product", c.withObserved(res), "%s", res.msg) {
				t.Errorf("%s", res.msg)
			}
		} else {
			evid.Violation("open-cross-product", c.withObserved(res), "%s", res.msg)
			t.Errorf("%s", res.msg)
		}
	}
	for _, w := range worlds {
		for k, v := range w.labels {
			lbl["cross-"+k] += int64(v)
		}
		if w.internal != "" {
			evid.Note("internal outcome (belongs to C15): %s", w.internal)
		}
	}
	evid.Bulk(n, nt, "cross-product-open")
	for k, v := range lbl {
		evid.Label(k, v)
	}
	for k, v := range reported {
		evid.Note("cross product: %d violating cases in class %s (first 2 written out)", v, k)
	}
}

// ---- rapid sequences ----

var seqPaths = []string{"chain", "d/lnup", "dang", "dang", "dang2", "dangchain", "up", "updang", "lnd/new", "lnd/sub", "dang/x", "chain/", "d/missing.txt",
	"f.txt", "d/g.txt", "d", "empty", ".", "ln", "lnd", "lnd/g.txt", "new", "d/new", "empty/new", "d/sub", "d/sub/h.txt",
	"z.bin", "f.txt/", "d/", "d/sub/../g.txt", "./f.txt", "..", "../ro/f.txt", "../rw/w.txt", "/f.txt", "", "d/../../ro/new", "nodir/x", "w.txt", "wd", "moved"}

var sentinelTimes = []uint64{0, 1, 1111111111000000000, 1222222222000000000, 1333333333000000000, 1 << 62, ^uint64(0)}

func genPath(t *rapid.T, label string) string {
	if rapid.IntRange(0, 9).Draw(t, label+"-kind") == 0 {
		return rapid.StringMatching(`[a-z./]{0,12}`).Draw(t, label+"-free")
	}
	return rapid.SampledFrom(seqPaths).Draw(t, label)
}

func genDirRef(t *rapid.T, label string) int {
	switch rapid.IntRange(0, 9).Draw(t, label+"-kind") {
	case 0:
		return -2
	case 1, 2, 3:
		return rapid.IntRange(0, 5).Draw(t, label+"-slot")
	}
	return -1
}

func genFdRef(t *rapid.T) int {
	if rapid.IntRange(0, 7).Draw(t, "fd-kind") == 0 {
		return -1
	}
	return rapid.IntRange(0, 5).Draw(t, "fd-slot")
}

func genSize(t *rapid.T, label string) uint64 {
	return rapid.SampledFrom([]uint64{0, 1, 3, 22, 23, 100, 5000, 9000, 1 << 20, 1 << 31, 1 << 62, ^uint64(0)}).Draw(t, label)
}

var opWeights = []string{
	"open", "open", "open", "open", "open", "open", "open", "open",
	"write", "write", "pwrite", "set_size", "set_size", "set_times", "set_times", "allocate", "set_flags", "sync", "datasync", "close",
	"read", "pread", "seek", "readdir", "fdstat_get", "filestat_get", "advise",
	"mkdir", "rmdir", "unlink", "unlink", "rename", "rename", "link", "symlink", "path_set_times", "path_set_times", "path_filestat_get", "readlink",
}

func genStep(t *rapid.T, mount string, excludeKnown bool) step {
	s := step{Op: rapid.SampledFrom(opWeights).Draw(t, "op")}
	switch s.Op {
	case "open":
		s.Dir = genDirRef(t, "dir")
		s.Path = genPath(t, "path")
		if rapid.IntRange(0, 15).Draw(t, "raw-flags") == 0 {
			s.Oflags = rapid.Uint16().Draw(t, "oflags-raw")
			s.Fdflags = rapid.Uint16().Draw(t, "fdflags-raw")
			s.Lookup = rapid.Uint16().Draw(t, "lookup-raw")
		} else {
			s.Oflags = uint16(rapid.IntRange(0, 15).Draw(t, "oflags"))
			s.Fdflags = uint16(rapid.IntRange(0, 31).Draw(t, "fdflags"))
			s.Lookup = uint16(rapid.IntRange(0, 1).Draw(t, "lookup"))
		}
		if rapid.IntRange(0, 7).Draw(t, "raw-rights") == 0 {
			s.Rights = rapid.Uint64().Draw(t, "rights-raw")
		} else {
			s.Rights = rapid.SampledFrom(crossRights).Draw(t, "rights")
		}
		if excludeKnown && isKnownClass(mount, s) {
			// open finding: its class is left out by construction (see findingCreatTrunc)
			s.Oflags &^= oCreat | oTrunc
			evid.Label("excluded-known-class-creat-trunc-readonly", 1)
		}
	case "write", "pwrite":
		s.Fd = genFdRef(t)
		s.Data = rapid.SampledFrom([]string{"", "X", "guest-data", strings.Repeat("W", 600)}).Draw(t, "data")
		if s.Op == "pwrite" {
			s.A = genSize(t, "offset")
		}
	case "set_size":
		s.Fd = genFdRef(t)
		s.A = genSize(t, "size")
	case "set_times", "path_set_times":
		if s.Op == "set_times" {
			s.Fd = genFdRef(t)
		} else {
			s.Dir = genDirRef(t, "dir")
			s.Path = genPath(t, "path")
			s.Lookup = uint16(rapid.IntRange(0, 1).Draw(t, "lookup"))
		}
		s.A = rapid.SampledFrom(sentinelTimes).Draw(t, "atim")
		s.B = rapid.SampledFrom(sentinelTimes).Draw(t, "mtim")
		s.Flags = uint16(rapid.IntRange(0, 15).Draw(t, "fstflags"))
	case "allocate":
		s.Fd = genFdRef(t)
		s.A = genSize(t, "offset")
		s.B = genSize(t, "len")
	case "set_flags":
		s.Fd = genFdRef(t)
		s.Flags = uint16(rapid.IntRange(0, 31).Draw(t, "fdflags"))
	case "sync", "datasync", "close", "fdstat_get", "filestat_get":
		s.Fd = genFdRef(t)
	case "read", "pread":
		s.Fd = genFdRef(t)
		s.A = genSize(t, "offset")
		s.B = uint64(rapid.IntRange(0, 300).Draw(t, "len"))
	case "seek":
		s.Fd = genFdRef(t)
		s.A = rapid.SampledFrom([]uint64{0, 1, 10, 5000, ^uint64(0), 1 << 62}).Draw(t, "offset")
		s.Flags = uint16(rapid.IntRange(0, 2).Draw(t, "whence"))
	case "readdir":
		s.Fd = genFdRef(t)
		s.A = rapid.SampledFrom([]uint64{0, 0, 1, 2, 3, 100}).Draw(t, "cookie")
		s.B = uint64(rapid.IntRange(0, 600).Draw(t, "buflen"))
	case "advise":
		s.Fd = genFdRef(t)
		s.A, s.B = genSize(t, "offset"), genSize(t, "len")
		s.Flags = uint16(rapid.IntRange(0, 5).Draw(t, "advice"))
	case "mkdir", "rmdir", "unlink", "path_filestat_get", "readlink":
		s.Dir = genDirRef(t, "dir")
		s.Path = genPath(t, "path")
		s.Lookup = uint16(rapid.IntRange(0, 1).Draw(t, "lookup"))
	case "rename", "link":
		s.Dir = genDirRef(t, "dir")
		s.Path = genPath(t, "path")
		s.Dir2 = genDirRef(t, "dir2")
		s.Path2 = genPath(t, "path2")
		s.Lookup = uint16(rapid.IntRange(0, 1).Draw(t, "lookup"))
	case "symlink":
		s.Dir = genDirRef(t, "dir")
		s.Path = genPath(t, "newpath")
		// link contents: names inside the mount only (the writable mount holding links into the
		// read-only directory is outside the property: see check.json assumptions)
		s.Path2 = rapid.SampledFrom([]string{"f.txt", "d", "x", "../f.txt", "nowhere/y"}).Draw(t, "target")
	}
	return s
}

func seqKey(c caseT) uint64 {
	var sb strings.Builder
	sb.WriteString(c.Mount)
	sb.WriteString(c.Config.key())
	for _, s := range c.Steps {
		fmt.Fprintf(&sb, "|%+v", s)
	}
	return evid.Hash64(sb.String())
}

var seqWorlds = map[string]*world{}

var mountOpKinds = []string{"dir-same", "dir-same", "dir-same", "dir-other", "rodir-other", "map-other", "nil"}
var mountGuests = []string{"/ro", "/ro", "ro", "/ro/", "./ro", "/x", "y/", "/rw", "/"}

func genRecipe(t *rapid.T) recipe {
	var r recipe
	if rapid.IntRange(0, 9).Draw(t, "cfg-default") < 4 {
		return r
	}
	r.Spelling = rapid.SampledFrom([]string{"", "/ro", "ro", "/ro/", "./ro"}).Draw(t, "cfg-spelling")
	r.RWFirst = rapid.Bool().Draw(t, "cfg-rwfirst")
	for i, n := 0, rapid.IntRange(0, 2).Draw(t, "cfg-nbefore"); i < n; i++ {
		// (no nil file system here: overriding a mount with nil leaves a preopen without a
		// file system in the instance under test, which is outside this property)
		r.Before = append(r.Before, mountOp{Kind: rapid.SampledFrom(mountOpKinds[:len(mountOpKinds)-1]).Draw(t, "cfg-kind"), Guest: rapid.SampledFrom(mountGuests).Draw(t, "cfg-guest")})
	}
	for i, n := 0, rapid.IntRange(0, 3).Draw(t, "cfg-nafter"); i < n; i++ {
		r.After = append(r.After, mountOp{Kind: rapid.SampledFrom(mountOpKinds).Draw(t, "cfg-kind"), Guest: rapid.SampledFrom(mountGuests).Draw(t, "cfg-guest"),
			Chain: rapid.Bool().Draw(t, "cfg-chain"), Use: rapid.IntRange(0, 3).Draw(t, "cfg-use") == 0, ViaModule: rapid.IntRange(0, 3).Draw(t, "cfg-via") == 0})
	}
	return r
}

func worldFor(mount, engine string, cfg recipe) (*world, error) {
	k := mount + "/" + engine + cfg.key()
	if w := seqWorlds[k]; w != nil {
		return w, nil
	}
	if len(seqWorlds) >= 48 { // bound the number of live runtimes and trees
		for k, w := range seqWorlds {
			w.close()
			delete(seqWorlds, k)
		}
	}
	w, err := newWorld(mount, engine, cfg)
	if err != nil {
		return nil, err
	}
	seqWorlds[k] = w
	return w, nil
}

func TestSequences(t *testing.T) {
	if evid.ReplayPath() != "" {
		t.Skip()
	}
	defer func() {
		for k, w := range seqWorlds {
			w.close()
			delete(seqWorlds, k)
		}
	}()
	excludeKnown := evid.KnownOpen(findingCreatTrunc)
	evid.Check(t, "sequences", evid.Scale(24000, 3200000), func(t *rapid.T) {
		c := caseT{Mount: rapid.SampledFrom(mountKinds).Draw(t, "mount"), Engine: rapid.SampledFrom(wz.Engines).Draw(t, "engine")}
		c.Config = genRecipe(t)
		n := rapid.IntRange(1, 15).Draw(t, "nsteps")
		for i := 0; i < n; i++ {
			c.Steps = append(c.Steps, genStep(t, c.Mount, excludeKnown))
		}
		w, err := worldFor(c.Mount, c.Engine, c.Config)
		if err != nil {
			t.Fatalf("harness: %v", err)
		}
		w.labels = map[string]int{}
		res := runCase(w, c.Steps, true)
		if res.msg != "" {
			if res.culprit >= 0 { // later steps were not executed
				c.Steps = c.Steps[:res.culprit+1]
			}
			evid.Fail(t, c.withObserved(res), "%s", res.msg)
		}
		lbls := []string{"seq-" + c.Mount, "seq-" + c.Engine}
		if !c.Config.isDefault() {
			lbls = append(lbls, "seq-nondefault-config")
			for _, op := range c.Config.After {
				if cleanGuest(op.Guest) == "ro" {
					lbls = append(lbls, "seq-config-remounts-ro-path-in-derived-config")
					break
				}
			}
			for _, op := range c.Config.Before {
				if cleanGuest(op.Guest) == "ro" && op.Kind != "nil" {
					lbls = append(lbls, "seq-config-ro-mount-overrides-earlier-mount")
					break
				}
			}
		}
		for k := range w.labels {
			lbls = append(lbls, "seq-with-"+k)
		}
		ops := map[string]bool{}
		for _, s := range c.Steps {
			if !ops[s.Op] {
				ops[s.Op] = true
				lbls = append(lbls, "seq-has-"+s.Op)
			}
		}
		sort.Strings(lbls)
		evid.Case(seqKey(c), w.nontrivial > 0, lbls...)
		evid.Label("seq-steps", int64(len(c.Steps)))
		evid.Label("seq-nontrivial-steps", int64(w.nontrivial))
		if w.internal != "" {
			evid.Note("internal outcome (belongs to C15): %s", w.internal)
			w.internal = ""
		}
		if w.nontrivial > 2 {
			evid.Sample("sequence", 2, map[string]any{"case": c, "trace": res.trace})
		}
	})
}

// TestKnownInput re-runs the specific input of the finding seen while reading the code, so
// that it stays reported whatever the generators do.
func TestKnownInput(t *testing.T) {
	if evid.ReplayPath() != "" {
		t.Skip()
	}
	if s, _ := evid.Shard(); s != 0 {
		t.Skip()
	}
	inputs := []caseT{
		{Mount: "rodir", Engine: "interpreter", Steps: []step{{Op: "open", Dir: -1, Path: "new", Oflags: oCreat, Rights: rightRead, Lookup: 1}}},
		{Mount: "rodir", Engine: "compiler", Steps: []step{{Op: "open", Dir: -1, Path: "f.txt", Oflags: oTrunc, Rights: rightRead, Lookup: 1}}},
	}
	for _, c := range inputs {
		w, err := newWorld(c.Mount, c.Engine, c.Config)
		if err != nil {
			t.Fatalf("harness: %v", err)
		}
		res := runCase(w, c.Steps, true)
		w.close()
		evid.Case(seqKey(c), true, "known-input")
		if res.msg != "" {
			if evid.Finding(findingCreatTrunc, "known-input", c.withObserved(res), "%s", res.msg) {
				t.Errorf("%s", res.msg)
			}
		}
	}
}

func TestReplay(t *testing.T) {
	p := evid.ReplayPath()
	if p == "" {
		t.Skip()
	}
	var c caseT
	if _, err := evid.LoadReplay(p, &c); err != nil {
		t.Fatal(err)
	}
	if c.CLI != nil {
		msg, detail, err := runCLICase(*c.CLI)
		if err != nil {
			t.Fatalf("harness: %v", err)
		}
		if msg != "" {
			c.Observed = strings.Split(detail, "\n")
			evid.Violation("replay", c, "%s", msg)
			t.Fatal(msg + "\n" + detail)
		}
		return
	}
	if c.Engine == "" {
		c.Engine = "interpreter"
	}
	w, err := newWorld(c.Mount, c.Engine, c.Config)
	if err != nil {
		t.Fatalf("harness: %v", err)
	}
	defer w.close()
	res := runCase(w, c.Steps, true)
	for _, l := range res.trace {
		t.Log(l)
	}
	if res.msg != "" {
		evid.Violation("replay", c.withObserved(res), "%s", res.msg)
		t.Fatal(res.msg + "\n" + res.detail)
	}
}
