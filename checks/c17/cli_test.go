// C17 through the command line: `wazero run -mount=<host>[:<guest>][:ro] guest.wasm`.
//
// The CLI binary is built from the repository under test (VERIF_REPO, default /repo) and
// exec'ed with generated mount specifications; the guest is a WASI command that tries every
// mutating path and descriptor operation on each of its preopens. Oracle: the host tree of
// every mount declared ":ro" is identical before and after (same snapshot as the rest of
// C17), while every writable twin did change (which shows that the guest reaches the mounts).
package c17

import (
	"bytes"
	"context"
	"encoding/binary"
	"fmt"
	"os"
	"os/exec"
	"path/filepath"
	"strings"
	"sync"
	"testing"
	"time"

	"github.com/tetratelabs/wazero"
	"github.com/tetratelabs/wazero/api"
	"github.com/tetratelabs/wazero/imports/wasi_snapshot_preview1"
	"pgregory.net/rapid"

	"verif/internal/evid"
	"verif/internal/wasiproxy"
	"verif/internal/wasmenc"
)

type cliMount struct {
	HostAbs   bool   `json:"host_abs,omitempty"`   // host directory spelled absolute (else relative to the CLI's working directory)
	HostSlash bool   `json:"host_slash,omitempty"` // ... with a trailing slash
	Guest     string `json:"guest"`                // "" = no guest path field; %d is the mount number
	RO        bool   `json:"ro,omitempty"`         // ":ro" suffix
}

type cliCase struct {
	Mounts      []cliMount `json:"mounts"`
	Interpreter bool       `json:"interpreter,omitempty"`
}

func (m cliMount) spec(base string, i int) string {
	h := fmt.Sprintf("t%d", i)
	if m.HostAbs {
		h = filepath.Join(base, h)
	}
	if m.HostSlash {
		h += "/"
	}
	s := h
	if m.Guest != "" {
		s += ":" + strings.ReplaceAll(m.Guest, "%d", fmt.Sprint(i))
	}
	if m.RO {
		s += ":ro"
	}
	return s
}

var (
	cliOnce sync.Once
	cliBin  string
	cliErr  error
)

// cliBinary builds cmd/wazero of the repository under test once per process.
func cliBinary() (string, error) {
	cliOnce.Do(func() {
		repo := os.Getenv("VERIF_REPO")
		if repo == "" {
			repo = "/repo"
		}
		cliBin = filepath.Join(evid.WorkDir(), "wazero-cli")
		cmd := exec.Command("go", "build", "-o", cliBin, "./cmd/wazero")
		cmd.Dir = repo
		cmd.Env = append(os.Environ(), "GOFLAGS=-mod=mod", "GOPROXY=off", "GOSUMDB=off", "GOTOOLCHAIN=local")
		if out, err := cmd.CombinedOutput(); err != nil {
			cliErr = fmt.Errorf("building cmd/wazero in %s: %v\n%s", repo, err, out)
		}
	})
	return cliBin, cliErr
}

// guest memory layout
const (
	gFd    = 64  // opened descriptor
	gRes   = 72  // nwritten etc.
	gIov   = 80  // iovec -> gData
	gData  = 96  // "GUEST-WRITE"
	gStr   = 256 // strings
	rwBits = int64(1<<1 | 1<<6)
)

var (
	cliGuests  = map[int][]byte{}
	cliGuestMu sync.Mutex
)

// cliGuest builds a WASI command that attacks the preopens 3..3+n-1.
func cliGuest(n int) ([]byte, error) {
	cliGuestMu.Lock()
	defer cliGuestMu.Unlock()
	if b := cliGuests[n]; b != nil {
		return b, nil
	}
	ctx := context.Background()
	rt := wazero.NewRuntimeWithConfig(ctx, wazero.NewRuntimeConfigInterpreter())
	defer rt.Close(ctx)
	sigs, names, err := wasiproxy.Signatures(ctx, rt)
	if err != nil {
		return nil, err
	}
	m := &wasmenc.Module{}
	idx := map[string]uint32{}
	for i, nm := range names {
		idx[nm] = uint32(i)
		m.ImportFunc(wasi_snapshot_preview1.ModuleName, nm, sigs[nm].Params, sigs[nm].Results)
	}
	// strings
	strs := map[string][2]int32{}
	data := make([]byte, 0, 512)
	str := func(s string) (int32, int32) {
		if v, ok := strs[s]; ok {
			return v[0], v[1]
		}
		off := int32(gStr + len(data))
		data = append(data, s...)
		data = append(data, 0)
		strs[s] = [2]int32{off, int32(len(s))}
		return off, int32(len(s))
	}
	b := wasmenc.NewB()
	call := func(fn string, args ...func()) {
		for _, a := range args {
			a()
		}
		b.Call(idx[fn])
		if len(sigs[fn].Results) > 0 {
			b.Drop()
		}
	}
	i32 := func(v int32) func() { return func() { b.I32Const(v) } }
	i64 := func(v int64) func() { return func() { b.I64Const(v) } }
	opened := func() { b.I32Const(gFd).Mem(0x28, 2, 0) } // i32.load
	path := func(s string) []func() {
		o, l := str(s)
		return []func(){i32(o), i32(l)}
	}
	open := func(fd int32, p string, oflags int32, rights int64, fdflags int32) {
		b.I32Const(gFd).I32Const(-1).Mem(0x36, 2, 0) // i32.store: no descriptor
		pa := path(p)
		call("path_open", i32(fd), i32(1), pa[0], pa[1], i32(oflags), i64(rights), i64(rights), i32(fdflags), i32(gFd))
	}
	for k := 0; k < n; k++ {
		fd := int32(3 + k)
		// write into, resize and re-time an existing file
		open(fd, "f.txt", 0, rwBits, 0)
		call("fd_write", opened, i32(gIov), i32(1), i32(gRes))
		call("fd_pwrite", opened, i32(gIov), i32(1), i64(40), i32(gRes))
		call("fd_filestat_set_size", opened, i64(3))
		call("fd_filestat_set_times", opened, i64(1e9), i64(2e9), i32(1|4))
		call("fd_close", opened)
		open(fd, "d/g.txt", 0, 1<<6, 1) // write only, append
		call("fd_write", opened, i32(gIov), i32(1), i32(gRes))
		call("fd_close", opened)
		// create and truncate by open flags, with and without the write right
		open(fd, "created-rw", 1, rwBits, 0)
		call("fd_close", opened)
		open(fd, "created-read-right-only", 1, 1<<1, 0)
		call("fd_close", opened)
		open(fd, "z.bin", 8, 1<<1, 0)
		call("fd_close", opened)
		// path operations
		pa := path("newdir")
		call("path_create_directory", i32(fd), pa[0], pa[1])
		p1, p2 := path("d/sub/h.txt"), path("d/sub/renamed")
		call("path_rename", i32(fd), p1[0], p1[1], i32(fd), p2[0], p2[1])
		pa = path("ln")
		call("path_unlink_file", i32(fd), pa[0], pa[1])
		pa = path("empty")
		call("path_remove_directory", i32(fd), pa[0], pa[1])
		p1, p2 = path("f.txt"), path("newlink")
		call("path_symlink", p1[0], p1[1], i32(fd), p2[0], p2[1])
		p1, p2 = path("d/g.txt"), path("hardlink")
		call("path_link", i32(fd), i32(0), p1[0], p1[1], i32(fd), p2[0], p2[1])
		pa = path("d")
		call("path_filestat_set_times", i32(fd), i32(1), pa[0], pa[1], i64(3e9), i64(4e9), i32(1|4))
	}
	fi := m.AddFunc(nil, nil, nil, b.Bytes())
	m.ExportFunc("_start", fi)
	m.Mems = [][]byte{wasmenc.Limits(1, 1, false)}
	m.Exports = append(m.Exports, wasmenc.Export{Name: "memory", Kind: wasmenc.KMem, Idx: 0})
	var iov [8]byte
	binary.LittleEndian.PutUint32(iov[0:], gData)
	binary.LittleEndian.PutUint32(iov[4:], 11)
	m.Datas = [][]byte{wasmenc.ActiveData(gIov, iov[:]), wasmenc.ActiveData(gData, []byte("GUEST-WRITE")), wasmenc.ActiveData(gStr, data)}
	_ = api.ValueTypeI32
	bin := m.Encode()
	// it must at least compile here
	if _, err := rt.CompileModule(ctx, bin); err != nil {
		return nil, fmt.Errorf("cli guest does not compile: %w", err)
	}
	cliGuests[n] = bin
	return bin, nil
}

var cliSeq int

// runCLICase returns a violation message (stable) and its detail, or a harness error.
func runCLICase(c cliCase) (msg, detail string, err error) {
	bin, err := cliBinary()
	if err != nil {
		return "", "", err
	}
	guest, err := cliGuest(len(c.Mounts))
	if err != nil {
		return "", "", err
	}
	cliSeq++
	base := filepath.Join(evid.WorkDir(), fmt.Sprintf("cli-%d", cliSeq))
	defer os.RemoveAll(base)
	if err := os.MkdirAll(base, 0o755); err != nil {
		return "", "", err
	}
	wasm := filepath.Join(base, "guest.wasm")
	if err := os.WriteFile(wasm, guest, 0o644); err != nil {
		return "", "", err
	}
	args := []string{"run"}
	if c.Interpreter {
		args = append(args, "-interpreter")
	}
	before := make([]string, len(c.Mounts))
	var specs []string
	for i, m := range c.Mounts {
		d := filepath.Join(base, fmt.Sprintf("t%d", i))
		if err := buildTree(d, tree); err != nil {
			return "", "", err
		}
		before[i], _ = snapshotDir(d)
		specs = append(specs, m.spec(base, i))
		args = append(args, "-mount="+specs[i])
	}
	args = append(args, wasm)
	ctx, cancel := context.WithTimeout(context.Background(), 120*time.Second)
	defer cancel()
	cmd := exec.CommandContext(ctx, bin, args...)
	cmd.Dir = base
	cmd.Env = []string{"HOME=" + base, "TMPDIR=" + base, "PATH=/usr/bin:/bin"}
	var out bytes.Buffer
	cmd.Stdout, cmd.Stderr = &out, &out
	if err := cmd.Run(); err != nil {
		return "", "", fmt.Errorf("wazero %s: %v: %s", strings.Join(args, " "), err, out.String())
	}
	for i, m := range c.Mounts {
		after, _ := snapshotDir(filepath.Join(base, fmt.Sprintf("t%d", i)))
		if m.RO && after != before[i] {
			st, d := diffSnap(before[i], after)
			return fmt.Sprintf("wazero run %s: the host directory of mount %d, declared read-only (%q), was changed by the guest (%s)", mountsText(c), i, m.spec("<dir>", i), st), d, nil
		}
		if !m.RO && after == before[i] {
			return "", "", fmt.Errorf("wazero %s: the writable mount %d (%s) was not changed: the guest does not reach it: %s", strings.Join(args, " "), i, specs[i], out.String())
		}
	}
	return "", "", nil
}

func mountsText(c cliCase) string {
	var s []string
	for i, m := range c.Mounts {
		s = append(s, "-mount="+m.spec("<dir>", i))
	}
	return strings.Join(s, " ")
}

var cliGuestPaths = []string{"", "", "", "/", "/m%d", "m%d", "/m%d/", "./m%d"}

func TestCLIMounts(t *testing.T) {
	if evid.ReplayPath() != "" {
		t.Skip()
	}
	// one process in four builds the CLI and runs these cases
	if s, _ := evid.Shard(); s%4 != 0 {
		t.Skip()
	}
	n := 40
	if evid.Thorough() {
		n = 300
	}
	evid.Check(t, "cli-mounts", n, func(t *rapid.T) {
		var c cliCase
		c.Interpreter = rapid.Bool().Draw(t, "interpreter")
		root := false
		for i, k := 0, rapid.IntRange(1, 3).Draw(t, "nmounts"); i < k; i++ {
			m := cliMount{HostAbs: rapid.Bool().Draw(t, "abs"), HostSlash: rapid.Bool().Draw(t, "slash"),
				Guest: rapid.SampledFrom(cliGuestPaths).Draw(t, "guest"), RO: rapid.IntRange(0, 2).Draw(t, "ro") > 0}
			if m.Guest == "/" {
				if root {
					m.Guest = "/m%d"
				}
				root = true
			}
			c.Mounts = append(c.Mounts, m)
		}
		msg, detail, err := runCLICase(c)
		if err != nil {
			t.Fatalf("harness: %v", err)
		}
		cs := caseT{CLI: &c}
		if msg != "" {
			cs.Observed = strings.Split(detail, "\n")
			evid.Fail(t, cs, "%s", msg)
		}
		ro, noGuest := 0, 0
		for _, m := range c.Mounts {
			if m.RO {
				ro++
				if m.Guest == "" {
					noGuest++
				}
			}
		}
		lbls := []string{"cli-case"}
		if noGuest > 0 {
			lbls = append(lbls, "cli-ro-mount-without-guest-path")
		}
		if ro > 0 && ro < len(c.Mounts) {
			lbls = append(lbls, "cli-ro-and-rw-mounts-together")
		}
		evid.Case(evid.Hash64("cli", mountsText(c), c.Interpreter), ro > 0, lbls...)
		evid.Label("cli-mounts", int64(len(c.Mounts)))
		evid.Label("cli-ro-mounts", int64(ro))
		evid.Sample("cli", 2, c)
	})
}
