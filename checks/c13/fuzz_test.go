package c13

import (
	"encoding/json"
	"fmt"
	"os"
	"path/filepath"
	"sync"
	"testing"

	"verif/internal/evid"
	"verif/internal/wasmenc"
)

// FuzzCacheEntry is the coverage-guided (native `go test -fuzz`, thorough tier only) form of the
// planted-entry part of the property. Input: a selector for one of a few fixed modules and
// mutation bytes. Each worker process compiles the selected module once into a scratch cache
// directory and keeps the genuine entry; the mutation bytes are either taken as the entry
// wholesale or applied to the genuine entry as an edit script (truncate, xor in the code
// segment, rewrite the version field, xor anywhere, splice, extend). The resulting bytes are
// planted under the module's key and a fresh runtime compiles, instantiates and runs the
// module. The oracle is the one of the seeded part (faultEntryAs) and depends on how the bytes
// relate to the genuine entry (modCtx.classify): the genuine entry must be a hit with the
// uncached trace; a truncated entry, an entry with a foreign version field, or an entry whose
// code/checksum bytes were changed must be reported by an ordinary error or discarded and
// replaced (then the uncached trace), never accepted in place, never a Go runtime error.
// Bytes outside that fault model (changed counts, offsets, lengths, source map, appended data:
// not covered by a checksum, excluded by "the embedder must safeguard this directory") are
// not planted: no verdict is possible for them.
func FuzzCacheEntry(f *testing.F) {
	n := len(fuzzSpecs())
	for sel := 0; sel < n; sel++ {
		f.Add(byte(sel), []byte{})                                             // identity
		f.Add(byte(sel), []byte{0, 1, 1, 0, 0, 0})                             // cut 1 byte from the end
		f.Add(byte(sel), []byte{0, 1, 4, 0, 0, 0})                             // cut 4
		f.Add(byte(sel), []byte{0, 1, 9, 0, 0, 0})                             // cut 9
		f.Add(byte(sel), []byte{0, 1, 40, 0, 0, 0})                            // cut 40
		f.Add(byte(sel), []byte{0, 0, 0, 0, 0, 0})                             // cut to 0
		f.Add(byte(sel), []byte{0, 0, 13, 0, 0, 0})                            // cut inside the header
		f.Add(byte(sel), []byte{0, 2, 0, 0, 1, 0})                             // flip a bit in the first code byte
		f.Add(byte(sel), []byte{0, 3, 200, 0, 0x80, 0})                        // flip a bit further into the code
		f.Add(byte(sel), []byte{0, 4, 0, 0, 3, 0})                             // version field: same length, not changed (identity)
		f.Add(byte(sel), []byte{0, 4, 2, 0, 3, 1})                             // version field: last byte differs
		f.Add(byte(sel), []byte{0, 4, 0, 0, 2, 0})                             // version field: shorter
		f.Add(byte(sel), []byte{0, 4, 0, 0, 7, 0})                             // version field: longer (header boundary)
		f.Add(byte(sel), []byte{0, 4, 0, 0, 0, 0})                             // version field: empty
		f.Add(byte(sel), []byte{0, 7, 0, 0, 0xaa, 3})                          // extend
		f.Add(byte(sel), []byte{0, 6, 30, 0, 9, 7})                            // splice
		f.Add(byte(sel), append([]byte{0x80}, "WAZEVO\x03dew"...))             // wholesale
		for _, off := range []byte{0, 5, 6, 7, 8, 9, 10, 13, 14, 21, 22, 29} { // single-bit flips in header and size fields
			f.Add(byte(sel), []byte{0, 5, off, 0, 1, 0})
			f.Add(byte(sel), []byte{0, 5, off, 0, 0x80, 0})
		}
	}
	f.Fuzz(func(t *testing.T, sel byte, script []byte) {
		if len(script) > 1<<12 {
			return
		}
		mc, err := fuzzCtx(int(sel) % n)
		if err != nil {
			t.Fatalf("harness: %v", err)
		}
		entry := deriveEntry(mc, script)
		if len(entry) > len(mc.ref)+4096 {
			return
		}
		fl := fault{Kind: "entry", Entry: entry}
		msg, _, infra := mc.runFault(fl)
		if infra != nil {
			t.Fatalf("harness: %v", infra)
		}
		if msg != "" {
			msg = fmt.Sprintf("module %s (%d functions, entry %d bytes): %s", mc.wasmID, len(mc.spec.Funcs), len(mc.ref), msg)
			if dir := os.Getenv("VERIF_FUZZ_OUT"); dir != "" {
				b, _ := json.Marshal(map[string]any{"property": "C13", "check": "native-fuzz", "message": msg, "case": mc.rcase(fl)})
				os.WriteFile(filepath.Join(dir, fmt.Sprintf("C13-fuzz-%016x.json", evid.Hash64(mc.wasmID, entry))), b, 0o644)
			}
			t.Fatalf("%s", msg)
		}
	})
}

var fuzzCtxs struct {
	sync.Mutex
	m map[int]*modCtx
}

// fuzzCtx returns the per-process context (references) of fixed module i.
func fuzzCtx(i int) (*modCtx, error) {
	fuzzCtxs.Lock()
	defer fuzzCtxs.Unlock()
	if mc := fuzzCtxs.m[i]; mc != nil {
		return mc, nil
	}
	mc, err := newModCtx(fuzzSpecs()[i])
	if err != nil {
		return nil, err
	}
	mc.noChild = true
	if fuzzCtxs.m == nil {
		fuzzCtxs.m = map[int]*modCtx{}
	}
	fuzzCtxs.m[i] = mc
	return mc, nil
}

// deriveEntry turns mutation bytes into the bytes to plant. script[0]&0x80: the rest replaces
// the entry wholesale. Otherwise 5-byte operations (op, a lo, a hi, b, c) edit the genuine entry.
func deriveEntry(mc *modCtx, script []byte) []byte {
	e := append([]byte{}, mc.ref...)
	if len(script) == 0 {
		return e
	}
	if script[0]&0x80 != 0 {
		return append([]byte{}, script[1:]...)
	}
	l := mc.lay
	for p := 1; p+5 <= len(script) && len(e) <= len(mc.ref)+4096; p += 5 {
		op, a, b, c := script[p]%8, int(script[p+1])|int(script[p+2])<<8, script[p+3], script[p+4]
		switch op {
		case 0: // truncate to a
			e = e[:a%(len(e)+1)]
		case 1: // cut a bytes from the end
			e = e[:len(e)-a%(len(e)+1)]
		case 2, 3: // xor inside code segment + checksum
			if n := l.ExecEnd + 4 - l.ExecStart; l.ExecEnd > l.ExecStart {
				if i := l.ExecStart + a%n; i < len(e) {
					if b == 0 {
						b = 1
					}
					e[i] ^= b
				}
			}
		case 4: // rewrite the version field: length b%9 (from the current version, padded), one byte xored with c
			if len(e) >= 7 && len(e) >= 7+int(e[6]) {
				old := e[7 : 7+int(e[6])]
				v := make([]byte, int(b)%9)
				for i := range v {
					if i < len(old) {
						v[i] = old[i]
					} else {
						v[i] = 'x'
					}
				}
				if len(v) > 0 {
					v[a%len(v)] ^= c
				}
				ne := append([]byte{}, e[:6]...)
				ne = append(ne, byte(len(v)))
				ne = append(ne, v...)
				e = append(ne, e[7+len(old):]...)
			}
		case 5: // xor anywhere
			if len(e) > 0 {
				if b == 0 {
					b = 1
				}
				e[a%len(e)] ^= b
			}
		case 6: // splice: copy c+1 bytes from a to (a*31+b)
			if len(e) > 0 {
				src, dst := a%len(e), (a*31+int(b))%len(e)
				for i := 0; i <= int(c) && src+i < len(e) && dst+i < len(e); i++ {
					e[dst+i] = e[src+i]
				}
			}
		case 7: // extend
			for i := 0; i <= int(c)%16; i++ {
				e = append(e, b)
			}
		}
	}
	return e
}

// fuzzSpecs: the fixed corner modules plus a module with several functions, memory, a table,
// data and host imports, once without and once with DWARF sections (source map in the entry).
func fuzzSpecs() []*modSpec {
	specs := fixedSpecs()
	for _, dwarf := range []bool{false, true} {
		fuel := func(b *wasmenc.B) *wasmenc.B {
			return b.GlobalGet(0).Raw(wasmenc.OpI32Eqz).If().Unreachable().End().GlobalGet(0).I32Const(1).Raw(wasmenc.OpI32Sub).GlobalSet(0)
		}
		// imports: h0 (i32)->i32 = function 0, h1 (i64,i32)->i64 = function 1; local functions 2,3,4
		// f0(i32)->i32: stores the argument, loops 5 times adding memory contents
		f0 := fuel(wasmenc.NewB()).
			I32Const(16).LocalGet(0).Mem(wasmenc.OpI32Store, 2, 0).
			I32Const(5).LocalSet(1).
			Loop().
			LocalGet(2).I32Const(16).Mem(wasmenc.OpI32Load, 2, 0).Raw(wasmenc.OpI32Add).LocalGet(1).Raw(wasmenc.OpI32Mul).LocalSet(2).
			LocalGet(1).I32Const(1).Raw(wasmenc.OpI32Sub).LocalTee(1).BrIf(0).
			End().
			LocalGet(2).GlobalGet(1).Raw(wasmenc.OpI32WrapI64).Raw(wasmenc.OpI32Xor)
		// f1(i32,i64)->i64: calls the host functions and f0, may divide by zero
		f1 := fuel(wasmenc.NewB()).
			LocalGet(1).LocalGet(0).Call(0).Call(1).
			LocalGet(0).Call(2).Raw(wasmenc.OpI64ExtendI32U).Raw(wasmenc.OpI64Add).
			LocalGet(1).Raw(wasmenc.OpI64DivS)
		// f2(i32)->i32: call_indirect through the table with the argument as index, then a load that may be out of bounds
		f2 := fuel(wasmenc.NewB()).
			LocalGet(0).LocalGet(0).I32Const(7).Raw(wasmenc.OpI32And)
		s := &modSpec{NHost: 2, Mem: 1, Table: 6, Data: []byte("c13-fuzz-data...."), Dwarf: dwarf, Names: dwarf,
			Globals: []globSpec{{T: tI32, Mut: true, V: fuelPerCall}, {T: tI64, Mut: true, V: 0x1234567890}},
			Customs: []custSpec{{Name: "c13.note", Data: []byte{1, 2, 3}}}}
		scratch := &wasmenc.Module{}
		scratch.AddType(hostSigs[0].P, hostSigs[0].R)
		scratch.AddType(hostSigs[1].P, hostSigs[1].R)
		tf0 := scratch.AddType([]byte{tI32}, []byte{tI32})
		scratch.AddType([]byte{tI32, tI64}, []byte{tI64})
		f2.CallIndirect(tf0, 0).LocalGet(0).Mem(wasmenc.OpI32Load, 2, 65000).Raw(wasmenc.OpI32Add)
		s.Funcs = []funcSpec{
			{P: []byte{tI32}, R: []byte{tI32}, Locals: []byte{tI32, tI32}, Body: f0.Bytes(), Export: true},
			{P: []byte{tI32, tI64}, R: []byte{tI64}, Body: f1.Bytes(), Export: true},
			{P: []byte{tI32}, R: []byte{tI32}, Body: f2.Bytes(), Export: true},
		}
		s.Calls = []callSpec{{Func: 0, Args: []uint64{7}}, {Func: 1, Args: []uint64{3, 9}}, {Func: 1, Args: []uint64{3, 0}},
			{Func: 2, Args: []uint64{0}}, {Func: 2, Args: []uint64{2}}, {Func: 2, Args: []uint64{5}}, {Func: 2, Args: []uint64{600}}}
		specs = append(specs, s)
	}
	return specs
}

// TestFuzzModules keeps the fixed fuzz modules honest in every tier: they compile, give varied
// traces, and the DWARF variant ends with a source map (checked by newModCtx).
func TestFuzzModules(t *testing.T) {
	if evid.ReplayPath() != "" || os.Getenv("C13_REQ") != "" {
		t.Skip()
	}
	if sh, _ := evid.Shard(); sh != 0 {
		t.Skip()
	}
	for i, s := range fuzzSpecs() {
		mc, err := newModCtx(s)
		if err != nil {
			t.Fatalf("fuzz module %d: %v", i, err)
		}
		if i >= len(fixedSpecs()) {
			kinds := map[string]bool{}
			for _, st := range mc.uncached.Steps {
				kinds[st[len(st)-6:]] = true
			}
			if mc.uncached.HostN == 0 || len(kinds) < 3 {
				t.Errorf("fuzz module %d: dull trace %s", i, mc.uncached)
			}
			// the classifier on a few hand-made entries
			for _, c := range []struct {
				script []byte
				want   string
			}{{nil, "identity"}, {[]byte{0, 1, 3, 0, 0, 0}, "trunc"}, {[]byte{0, 2, 5, 0, 1, 0}, "corrupt"}, {[]byte{0, 4, 2, 0, 3, 1}, "version"},
				{[]byte{0, 5, 12, 0, 1, 0}, ""}, {[]byte{0, 7, 0, 0, 0, 0}, ""}, {[]byte{0, 2, 5, 0, 1, 0, 1, 2, 0, 0, 0}, "trunc"}} {
				if got := mc.classify(deriveEntry(mc, c.script)); got != c.want {
					t.Errorf("fuzz module %d: classify(script %v) = %q, want %q", i, c.script, got, c.want)
				}
			}
		}
		mc.cleanup()
	}
}
