package c13

// Module generator for C13. A module is described by a modSpec (plain data, JSON-marshalable,
// sufficient to rebuild the exact wasm binary without rapid). genSpec draws a spec from rapid;
// build turns a spec into bytes with wasmenc. Generated modules are valid by construction:
// function bodies are produced by a type-directed expression generator, calls go to any
// function (termination is guaranteed by a fuel global that every function decrements on
// entry and that the harness refills before each top-level call), loops count a private local
// down from a small constant.

import (
	"fmt"

	"pgregory.net/rapid"

	"verif/internal/wasmenc"
)

const (
	tI32 = wasmenc.I32
	tI64 = wasmenc.I64
	tF32 = wasmenc.F32
	tF64 = wasmenc.F64
)

var valTypes = []byte{tI32, tI64, tF32, tF64}

type sig struct {
	P []byte `json:"p"`
	R []byte `json:"r"`
}

// hostSigs are the signatures of the importable host functions env.h<i> (i modulo the table).
var hostSigs = []sig{
	{[]byte{tI32}, []byte{tI32}},
	{[]byte{tI64, tI32}, []byte{tI64}},
	{nil, nil},
	{[]byte{tF64}, []byte{tF64}},
	{[]byte{tI32, tI32}, nil},
	{[]byte{tF32, tI64}, []byte{tF32}},
}

type funcSpec struct {
	P      []byte `json:"p"`
	R      []byte `json:"r"`
	Locals []byte `json:"locals"`
	Body   []byte `json:"body"` // instruction bytes without the final end
	Export bool   `json:"export"`
}

type globSpec struct {
	T   byte   `json:"t"`
	Mut bool   `json:"mut"`
	V   uint64 `json:"v"` // raw bits
}

type custSpec struct {
	Name string `json:"name"`
	Data []byte `json:"data"`
}

type callSpec struct {
	Func int      `json:"func"` // index into Funcs (must be exported)
	Args []uint64 `json:"args"`
}

type modSpec struct {
	NHost   int        `json:"nhost"`   // imported host functions env.h0..h<n-1>
	Mem     int        `json:"mem"`     // -1: none; else minimum pages (max = min+2), exported as "mem"
	Data    []byte     `json:"data"`    // active data segment at offset 0 (only if Mem >= 1)
	Globals []globSpec `json:"globals"` // global 0 is always the fuel counter when there are functions
	Table   int        `json:"table"`   // -1: none; else size of funcref table 0 filled with functions
	Funcs   []funcSpec `json:"funcs"`
	Customs []custSpec `json:"customs"`
	Dwarf   bool       `json:"dwarf"` // minimal valid .debug_info/.debug_abbrev: wazero records a source map in the entry
	Names   bool       `json:"names"` // name section
	Calls   []callSpec `json:"calls"`
}

const fuelPerCall = 300

// minimal DWARF: one compilation-unit header (length 7, version 4, abbrev offset 0, address
// size 4) without entries, and an empty abbreviation table.
var dwarfInfo = []byte{7, 0, 0, 0, 4, 0, 0, 0, 0, 0, 4}
var dwarfAbbrev = []byte{0}

func (s *modSpec) hasFuel() bool { return len(s.Funcs) > 0 }

func constExpr(t byte, v uint64) []byte {
	b := wasmenc.NewB()
	switch t {
	case tI32:
		b.I32Const(int32(uint32(v)))
	case tI64:
		b.I64Const(int64(v))
	case tF32:
		b.F32Const(uint32(v))
	default:
		b.F64Const(v)
	}
	return b.Bytes()
}

// build encodes the module described by the spec.
func build(s *modSpec) []byte {
	m := &wasmenc.Module{}
	for i := 0; i < s.NHost; i++ {
		hs := hostSigs[i%len(hostSigs)]
		m.ImportFunc("env", fmt.Sprintf("h%d", i), hs.P, hs.R)
	}
	for i, f := range s.Funcs {
		idx := m.AddFunc(f.P, f.R, f.Locals, f.Body)
		if s.Names {
			m.Funcs[i].Name = fmt.Sprintf("fn%d", i)
		}
		if f.Export {
			m.ExportFunc(fmt.Sprintf("f%d", i), idx)
		}
	}
	if s.Names {
		m.ModuleName = "c13mod"
	}
	if s.Mem >= 0 {
		m.Mems = [][]byte{wasmenc.Limits(uint32(s.Mem), int64(s.Mem+2), false)}
		m.Exports = append(m.Exports, wasmenc.Export{Name: "mem", Kind: wasmenc.KMem, Idx: 0})
		if s.Mem >= 1 && len(s.Data) > 0 {
			m.Datas = [][]byte{wasmenc.ActiveData(0, s.Data)}
		}
	}
	for i, g := range s.Globals {
		m.Globals = append(m.Globals, wasmenc.Global{Type: g.T, Mut: g.Mut, Init: constExpr(g.T, g.V)})
		name := fmt.Sprintf("g%d", i)
		if i == 0 && s.hasFuel() {
			name = "fuel"
		}
		m.Exports = append(m.Exports, wasmenc.Export{Name: name, Kind: wasmenc.KGlobal, Idx: uint32(i)})
	}
	if s.Table >= 0 {
		m.Tables = [][]byte{wasmenc.TableType(wasmenc.FuncRef, uint32(s.Table), -1)}
		nf := s.NHost + len(s.Funcs)
		if nf > 0 && s.Table > 0 {
			el := make([]uint32, s.Table)
			for i := range el {
				el[i] = uint32((i * 7) % nf)
			}
			m.Elems = [][]byte{wasmenc.ActiveElemFuncs(0, el)}
		}
	}
	if s.Dwarf {
		m.Customs = append(m.Customs, wasmenc.Custom{Name: ".debug_abbrev", Data: dwarfAbbrev}, wasmenc.Custom{Name: ".debug_info", Data: dwarfInfo})
	}
	for _, c := range s.Customs {
		m.Customs = append(m.Customs, wasmenc.Custom{Name: c.Name, Data: c.Data})
	}
	return m.Encode()
}

// ---- generator ----

var interesting64 = []uint64{0, 1, 2, 3, 7, 8, 31, 32, 63, 64, 255, 256, 65535, 65536, 0x7fffffff, 0x80000000, 0xffffffff,
	0x100000000, 0x7fffffffffffffff, 0x8000000000000000, 0xffffffffffffffff,
	0x3f800000, 0x7fc00000, 0x7f800000, 0xff800000, 0x80000000, 0x4f000000, // f32 1, nan, +inf, -inf, -0, 2^31
	0x3ff0000000000000, 0x7ff8000000000000, 0x7ff0000000000000, 0x41e0000000000000, 0x43e0000000000000}

func genVal(t *rapid.T, ty byte, label string) uint64 {
	var v uint64
	if rapid.IntRange(0, 2).Draw(t, label+"-kind") == 0 {
		v = rapid.Uint64().Draw(t, label)
	} else {
		v = rapid.SampledFrom(interesting64).Draw(t, label)
	}
	if ty == tI32 || ty == tF32 {
		v &= 0xffffffff
	}
	return v
}

type bodyGen struct {
	t        *rapid.T
	spec     *modSpec
	sigs     []sig  // signature per function index (imports first, then all local functions)
	self     int    // function index of the function being generated
	locals   []byte // params followed by locals
	nparams  int
	budget   int
	typeIdx  func(p, r []byte) uint32
	reserved map[uint32]bool // loop counters
}

func (g *bodyGen) pick(n int, label string) int { return rapid.IntRange(0, n-1).Draw(g.t, label) }

func (g *bodyGen) localsOf(ty byte) []uint32 {
	var r []uint32
	for i, l := range g.locals {
		if l == ty && !g.reserved[uint32(i)] {
			r = append(r, uint32(i))
		}
	}
	return r
}

func (g *bodyGen) newLocal(ty byte) uint32 {
	g.locals = append(g.locals, ty)
	return uint32(len(g.locals) - 1)
}

// globalsOf lists globals of the type (never the fuel global); mutOnly restricts to mutable ones.
func (g *bodyGen) globalsOf(ty byte, mutOnly bool) []uint32 {
	var r []uint32
	for i, gl := range g.spec.Globals {
		if i == 0 && g.spec.hasFuel() {
			continue
		}
		if gl.T == ty && (gl.Mut || !mutOnly) {
			r = append(r, uint32(i))
		}
	}
	return r
}

var (
	intBin   = []byte{0, 1, 2, 3, 4, 5, 6, 7, 8, 9, 10, 11, 12, 13, 14} // + base 0x6a / 0x7c
	floatBin = []byte{0, 1, 2, 3, 4, 5, 6}                              // + base 0x92 / 0xa0
)

type conv struct {
	from byte
	op   []byte
}

var convs = map[byte][]conv{
	tI32: {{tI64, []byte{0xa7}}, {tF32, []byte{0xa8}}, {tF32, []byte{0xa9}}, {tF64, []byte{0xaa}}, {tF64, []byte{0xab}}, {tF32, []byte{0xbc}},
		{tF32, []byte{0xfc, 0}}, {tF32, []byte{0xfc, 1}}, {tF64, []byte{0xfc, 2}}, {tF64, []byte{0xfc, 3}}, {tI32, []byte{0xc0}}, {tI32, []byte{0xc1}}},
	tI64: {{tI32, []byte{0xac}}, {tI32, []byte{0xad}}, {tF32, []byte{0xae}}, {tF32, []byte{0xaf}}, {tF64, []byte{0xb0}}, {tF64, []byte{0xb1}}, {tF64, []byte{0xbd}},
		{tF32, []byte{0xfc, 4}}, {tF32, []byte{0xfc, 5}}, {tF64, []byte{0xfc, 6}}, {tF64, []byte{0xfc, 7}}, {tI64, []byte{0xc2}}, {tI64, []byte{0xc3}}, {tI64, []byte{0xc4}}},
	tF32: {{tI32, []byte{0xb2}}, {tI32, []byte{0xb3}}, {tI64, []byte{0xb4}}, {tI64, []byte{0xb5}}, {tF64, []byte{0xb6}}, {tI32, []byte{0xbe}}},
	tF64: {{tI32, []byte{0xb7}}, {tI32, []byte{0xb8}}, {tI64, []byte{0xb9}}, {tI64, []byte{0xba}}, {tF32, []byte{0xbb}}, {tI64, []byte{0xbf}}},
}

func loadOp(ty byte) (op byte, align uint32) {
	switch ty {
	case tI32:
		return 0x28, 2
	case tI64:
		return 0x29, 3
	case tF32:
		return 0x2a, 2
	}
	return 0x2b, 3
}

func storeOp(ty byte) (op byte, align uint32) {
	switch ty {
	case tI32:
		return 0x36, 2
	case tI64:
		return 0x37, 3
	case tF32:
		return 0x38, 2
	}
	return 0x39, 3
}

// addr emits an i32 address: an expression masked so that most accesses are in bounds.
func (g *bodyGen) addr(b *wasmenc.B, depth int) {
	g.expr(b, tI32, depth+1)
	mask := rapid.SampledFrom([]int32{0xff, 0xfff, 0xffff, 0x1ffff, -1}).Draw(g.t, "addr-mask")
	b.I32Const(mask).Raw(wasmenc.OpI32And)
}

// calleesWith lists function indices whose result list is exactly want.
func (g *bodyGen) calleesWith(want []byte) []int {
	var r []int
	for i, s := range g.sigs {
		if string(s.R) == string(want) {
			r = append(r, i)
		}
	}
	return r
}

func (g *bodyGen) args(b *wasmenc.B, p []byte, depth int) {
	for _, pt := range p {
		g.expr(b, pt, depth+1)
	}
}

// expr emits code that pushes exactly one value of type ty.
func (g *bodyGen) expr(b *wasmenc.B, ty byte, depth int) {
	g.budget--
	leaf := depth >= 5 || g.budget <= 0
	k := 0
	if !leaf {
		k = g.pick(16, "expr")
	} else {
		k = g.pick(3, "leaf")
	}
	switch k {
	case 0: // constant
		b.Append(constExpr(ty, genVal(g.t, ty, "const")))
		return
	case 1:
		if ls := g.localsOf(ty); len(ls) > 0 {
			b.LocalGet(ls[g.pick(len(ls), "local")])
			return
		}
	case 2:
		if gs := g.globalsOf(ty, false); len(gs) > 0 {
			b.GlobalGet(gs[g.pick(len(gs), "global")])
			return
		}
	case 3, 4: // binary operator
		g.expr(b, ty, depth+1)
		g.expr(b, ty, depth+1)
		switch ty {
		case tI32:
			b.Raw(0x6a + intBin[g.pick(len(intBin), "binop")])
		case tI64:
			b.Raw(0x7c + intBin[g.pick(len(intBin), "binop")])
		case tF32:
			b.Raw(0x92 + floatBin[g.pick(len(floatBin), "binop")])
		default:
			b.Raw(0xa0 + floatBin[g.pick(len(floatBin), "binop")])
		}
		return
	case 5: // unary operator
		g.expr(b, ty, depth+1)
		switch ty {
		case tI32:
			b.Raw(0x67 + byte(g.pick(3, "unop")))
		case tI64:
			b.Raw(0x79 + byte(g.pick(3, "unop")))
		case tF32:
			b.Raw(0x8b + byte(g.pick(7, "unop")))
		default:
			b.Raw(0x99 + byte(g.pick(7, "unop")))
		}
		return
	case 6: // comparison (i32 only)
		if ty == tI32 {
			ot := valTypes[g.pick(4, "cmp-type")]
			g.expr(b, ot, depth+1)
			g.expr(b, ot, depth+1)
			switch ot {
			case tI32:
				b.Raw(0x46 + byte(g.pick(10, "cmp")))
			case tI64:
				b.Raw(0x51 + byte(g.pick(10, "cmp")))
			case tF32:
				b.Raw(0x5b + byte(g.pick(6, "cmp")))
			default:
				b.Raw(0x61 + byte(g.pick(6, "cmp")))
			}
			return
		}
	case 7: // conversion
		cs := convs[ty]
		c := cs[g.pick(len(cs), "conv")]
		g.expr(b, c.from, depth+1)
		b.Raw(c.op...)
		return
	case 8: // load
		if g.spec.Mem >= 0 {
			g.addr(b, depth)
			op, al := loadOp(ty)
			b.Mem(op, uint32(g.pick(int(al)+1, "align")), uint32(rapid.SampledFrom([]int{0, 1, 4, 8, 100, 65532}).Draw(g.t, "offset")))
			return
		}
	case 9, 10: // direct call
		if cs := g.calleesWith([]byte{ty}); len(cs) > 0 {
			f := cs[g.pick(len(cs), "callee")]
			g.args(b, g.sigs[f].P, depth)
			b.Call(uint32(f))
			return
		}
	case 11: // if/else with a result
		g.expr(b, tI32, depth+1)
		b.If(ty)
		g.expr(b, ty, depth+1)
		b.Else()
		g.expr(b, ty, depth+1)
		b.End()
		return
	case 12: // select
		g.expr(b, ty, depth+1)
		g.expr(b, ty, depth+1)
		g.expr(b, tI32, depth+1)
		b.Select()
		return
	case 13: // local.tee
		if ls := g.localsOf(ty); len(ls) > 0 {
			g.expr(b, ty, depth+1)
			b.LocalTee(ls[g.pick(len(ls), "local")])
			return
		}
	case 14: // call_indirect
		if g.spec.Table >= 0 {
			if cs := g.calleesWith([]byte{ty}); len(cs) > 0 {
				f := cs[g.pick(len(cs), "itype")]
				g.args(b, g.sigs[f].P, depth)
				g.expr(b, tI32, depth+1)
				b.I32Const(int32(rapid.SampledFrom([]int{1, 3, 7, 15, 63}).Draw(g.t, "tmask"))).Raw(wasmenc.OpI32And)
				b.CallIndirect(g.typeIdx(g.sigs[f].P, g.sigs[f].R), 0)
				return
			}
		}
	case 15: // memory.size / memory.grow
		if ty == tI32 && g.spec.Mem >= 0 {
			if g.pick(3, "grow") == 0 {
				b.I32Const(int32(g.pick(3, "pages"))).MemoryGrow()
			} else {
				b.MemorySize()
			}
			return
		}
	}
	// fallback: a constant
	b.Append(constExpr(ty, genVal(g.t, ty, "const")))
}

// stmt emits code with no net stack effect.
func (g *bodyGen) stmt(b *wasmenc.B, depth int) {
	g.budget--
	ty := valTypes[g.pick(4, "stmt-type")]
	switch g.pick(10, "stmt") {
	case 9: // call of an imported host function, results dropped
		if g.spec.NHost > 0 {
			f := g.pick(g.spec.NHost, "host-callee")
			g.args(b, g.sigs[f].P, depth)
			b.Call(uint32(f))
			for range g.sigs[f].R {
				b.Drop()
			}
			return
		}
	case 0, 1:
		if ls := g.localsOf(ty); len(ls) > 0 {
			g.expr(b, ty, depth+1)
			b.LocalSet(ls[g.pick(len(ls), "local")])
			return
		}
	case 2:
		if gs := g.globalsOf(ty, true); len(gs) > 0 {
			g.expr(b, ty, depth+1)
			b.GlobalSet(gs[g.pick(len(gs), "global")])
			return
		}
	case 3, 4:
		if g.spec.Mem >= 0 {
			g.addr(b, depth)
			g.expr(b, ty, depth+1)
			op, al := storeOp(ty)
			b.Mem(op, uint32(g.pick(int(al)+1, "align")), uint32(rapid.SampledFrom([]int{0, 2, 16, 65528}).Draw(g.t, "offset")))
			return
		}
	case 5: // call of any function, results dropped
		if len(g.sigs) > 0 {
			f := g.pick(len(g.sigs), "callee")
			g.args(b, g.sigs[f].P, depth)
			b.Call(uint32(f))
			for range g.sigs[f].R {
				b.Drop()
			}
			return
		}
	case 6: // bounded loop
		if depth < 2 && g.budget > 4 {
			c := g.newLocal(tI32) // private loop counter: never a target of generated local.set/tee
			if g.reserved == nil {
				g.reserved = map[uint32]bool{}
			}
			g.reserved[c] = true
			b.I32Const(int32(1 + g.pick(6, "iters"))).LocalSet(c)
			b.Loop()
			n := 1 + g.pick(2, "loop-stmts")
			for i := 0; i < n; i++ {
				g.stmt(b, depth+1)
			}
			b.LocalGet(c).I32Const(1).Raw(wasmenc.OpI32Sub).LocalTee(c).BrIf(0)
			b.End()
			return
		}
	case 7: // block with conditional exit
		if depth < 3 && g.budget > 4 {
			b.Block()
			g.expr(b, tI32, depth+1)
			b.BrIf(0)
			g.stmt(b, depth+1)
			b.End()
			return
		}
	case 8: // if without result
		if depth < 3 && g.budget > 4 {
			g.expr(b, tI32, depth+1)
			b.If()
			g.stmt(b, depth+1)
			if g.pick(2, "else") == 0 {
				b.Else()
				g.stmt(b, depth+1)
			}
			b.End()
			return
		}
	}
	g.expr(b, ty, depth+1)
	b.Drop()
}

func genTypes(t *rapid.T, min, max int, label string) []byte {
	n := rapid.IntRange(min, max).Draw(t, label+"-n")
	r := make([]byte, n)
	for i := range r {
		r[i] = rapid.SampledFrom(valTypes).Draw(t, label)
	}
	return r
}

var customNames = []string{"x", "producers", ".debug_str", "target_features", "c13.note", ".debug_line"}

// genSpec draws a module spec.
func genSpec(t *rapid.T) *modSpec {
	s := &modSpec{Mem: -1, Table: -1}
	nf := rapid.SampledFrom([]int{0, 0, 1, 1, 2, 3, 4, 6, 9, 14, 22, 35, 50}).Draw(t, "nfuncs")
	if rapid.IntRange(0, 3).Draw(t, "imports?") != 0 {
		s.NHost = rapid.IntRange(1, 6).Draw(t, "nhost")
	}
	if rapid.IntRange(0, 3).Draw(t, "mem?") != 0 {
		s.Mem = rapid.IntRange(0, 3).Draw(t, "mem")
		if s.Mem >= 1 && rapid.Bool().Draw(t, "data?") {
			s.Data = rapid.SliceOfN(rapid.Byte(), 1, 48).Draw(t, "data")
		}
	}
	if nf > 0 {
		s.Globals = append(s.Globals, globSpec{T: tI32, Mut: true, V: fuelPerCall})
	}
	ng := rapid.IntRange(0, 5).Draw(t, "nglobals")
	for i := 0; i < ng; i++ {
		ty := rapid.SampledFrom(valTypes).Draw(t, "gtype")
		s.Globals = append(s.Globals, globSpec{T: ty, Mut: rapid.Bool().Draw(t, "gmut"), V: genVal(t, ty, "gval")})
	}
	if rapid.IntRange(0, 2).Draw(t, "table?") == 0 {
		s.Table = rapid.IntRange(0, 12).Draw(t, "table")
	}
	s.Names = rapid.Bool().Draw(t, "names")
	s.Dwarf = rapid.IntRange(0, 2).Draw(t, "dwarf") == 0
	if rapid.Bool().Draw(t, "customs?") {
		nc := rapid.IntRange(1, 3).Draw(t, "ncustoms")
		for i := 0; i < nc; i++ {
			s.Customs = append(s.Customs, custSpec{Name: rapid.SampledFrom(customNames).Draw(t, "cname"),
				// payload of at least one byte: wazero rejects a module that ends with an empty
				// custom section (decoder defect outside this property, reported separately)
				Data: rapid.SliceOfN(rapid.Byte(), 1, 40).Draw(t, "cdata")})
		}
	}
	// signatures first (functions may call each other in any direction; fuel bounds recursion)
	var sigs []sig
	for i := 0; i < s.NHost; i++ {
		sigs = append(sigs, hostSigs[i%len(hostSigs)])
	}
	for i := 0; i < nf; i++ {
		f := funcSpec{P: genTypes(t, 0, 4, "param"), R: genTypes(t, 0, 2, "result")}
		if rapid.IntRange(0, 3).Draw(t, "r1") != 0 && len(f.R) != 1 { // favour single results: they are callable from expressions
			f.R = []byte{rapid.SampledFrom(valTypes).Draw(t, "result1")}
		}
		f.Export = rapid.IntRange(0, 2).Draw(t, "export") != 0
		s.Funcs = append(s.Funcs, f)
		sigs = append(sigs, sig{f.P, f.R})
	}
	if nf > 0 {
		s.Funcs[rapid.IntRange(0, nf-1).Draw(t, "forced-export")].Export = true
	}
	// a scratch module is used only to obtain stable type indices (same AddType order as build)
	scratch := &wasmenc.Module{}
	for i := 0; i < s.NHost; i++ {
		scratch.AddType(hostSigs[i%len(hostSigs)].P, hostSigs[i%len(hostSigs)].R)
	}
	for _, f := range s.Funcs {
		scratch.AddType(f.P, f.R)
	}
	for i := range s.Funcs {
		f := &s.Funcs[i]
		g := &bodyGen{t: t, spec: s, sigs: sigs, self: s.NHost + i, nparams: len(f.P), typeIdx: scratch.AddType}
		g.locals = append(append([]byte{}, f.P...), genTypes(t, 0, 4, "local")...)
		g.budget = rapid.SampledFrom([]int{0, 3, 8, 20, 40, 80}).Draw(t, "budget")
		b := wasmenc.NewB()
		// fuel: trap when exhausted, else decrement
		b.GlobalGet(0).Raw(wasmenc.OpI32Eqz).If().Unreachable().End()
		b.GlobalGet(0).I32Const(1).Raw(wasmenc.OpI32Sub).GlobalSet(0)
		for g.budget > 0 && rapid.IntRange(0, 4).Draw(t, "more-stmts") != 0 {
			g.stmt(b, 0)
		}
		for _, rt := range f.R {
			g.expr(b, rt, 0)
		}
		f.Locals = g.locals[len(f.P):]
		f.Body = b.Bytes()
	}
	// calls: argument vectors for exported functions
	var exported []int
	for i, f := range s.Funcs {
		if f.Export {
			exported = append(exported, i)
		}
	}
	if len(exported) > 0 {
		nc := rapid.IntRange(1, 6).Draw(t, "ncalls")
		for i := 0; i < nc; i++ {
			fi := exported[rapid.IntRange(0, len(exported)-1).Draw(t, "call-func")]
			c := callSpec{Func: fi}
			for _, pt := range s.Funcs[fi].P {
				c.Args = append(c.Args, genVal(t, pt, "arg"))
			}
			s.Calls = append(s.Calls, c)
		}
	}
	return s
}
