// C13 — the on-disk compilation cache is deterministic and crash-safe.
//
// For every generated module (gen_test.go) the check builds a reference: the uncached
// execution trace (compiler engine, no cache) and the reference cache entry (compiled once
// into a fresh directory). Then it runs faults, each one a replayable {module, fault} case:
//
//	determinism  2 further in-process compilations (own runtimes, own directories) and 2 child
//	             processes: same file name, byte-identical entry; a third process and a fresh
//	             in-process runtime load the entries written by the other processes
//	crash        a child process compiles with VERIF_CRASHPOINT=<point> and must die by SIGKILL
//	             there; afterwards the final name holds nothing or the reference bytes, every
//	             other file is a temp file of that key; fresh runtimes (in-process, and for some
//	             points a fresh process on a copy of the directory) compile successfully, give
//	             the uncached trace and leave the reference entry under the final name
//	trunc        the reference entry cut to n bytes is put under the final name: CompileModule
//	             of a fresh runtime errors, or succeeds having discarded the entry (final name
//	             then absent or holding the reference) with the uncached trace; succeeding with
//	             the cut entry still in place (a cache hit) is a violation, except for the
//	             never-read tail of an entry without code
//	version      the version field of the entry is replaced (header re-serialised): as trunc,
//	             and on success the stale entry must be gone or replaced by the reference
//	corrupt      one byte of the code body / CRC field is changed: as trunc (CRC must catch it)
//	sequence     2-3 writers die one after the other at drawn crash points in one directory
//	             (optionally starting from a foreign-version entry): invariant after each death,
//	             then recovery
//	wfail        a writer process whose file writes fail with EFBIG beyond k bytes (RLIMIT_FSIZE;
//	             k in {0, 1, len/2, len-1}) while close succeeds: error or success, but the
//	             final name holds nothing or the reference entry; then recovery
//	paused       a writer process is stopped (SIGSTOP) while its temp file exists and the final
//	             name does not; other users open the directory (and compile); the writer
//	             continues: everybody succeeds, final entry = reference
//	concurrent   G goroutines (own cache handles and runtimes) and P processes compile into one
//	             directory at once: no error, uncached traces, final file = reference
//
// Whenever CompileModule succeeds while a faulty entry is still in place this is a violation
// (the entry was accepted as a cache hit); the module is then executed in a child process with
// a timeout, never in the shard, to describe what the accepted entry does.
package c13

import (
	"bufio"
	"bytes"
	"context"
	"crypto/sha256"
	"encoding/binary"
	"encoding/hex"
	"encoding/json"
	"errors"
	"fmt"
	"hash/crc32"
	"hash/fnv"
	"io"
	"os"
	"os/exec"
	"os/signal"
	"path/filepath"
	"reflect"
	"sort"
	"strings"
	"sync"
	"syscall"
	"testing"
	"time"

	"github.com/tetratelabs/wazero"
	"github.com/tetratelabs/wazero/api"
	"pgregory.net/rapid"

	"verif/internal/evid"
	"verif/internal/wz"
)

func TestMain(m *testing.M) { evid.Main(m, "C13") }

// ---------- execution trace ----------

type traceT struct {
	Inst    string   `json:"inst"`
	Steps   []string `json:"steps"`
	HostN   int      `json:"host_calls"`
	HostH   string   `json:"host_hash"`
	HostLog []string `json:"host_first"`
	Mem     string   `json:"mem"`
	Globals []string `json:"globals"`
}

func (a *traceT) equal(b *traceT) bool { return a != nil && b != nil && reflect.DeepEqual(a, b) }

func (a *traceT) String() string {
	if a == nil {
		return "<nil>"
	}
	b, _ := json.Marshal(a)
	return string(b)
}

type hostLog struct {
	n     int
	h     uint64
	first []string
}

func (l *hostLog) add(name string, args []uint64) {
	l.n++
	f := fnv.New64a()
	var b [8]byte
	binary.LittleEndian.PutUint64(b[:], l.h)
	f.Write(b[:])
	f.Write([]byte(name))
	for _, a := range args {
		binary.LittleEndian.PutUint64(b[:], a)
		f.Write(b[:])
	}
	l.h = f.Sum64()
	if len(l.first) < 24 {
		l.first = append(l.first, fmt.Sprintf("%s%x", name, args))
	}
}

func instantiateHost(ctx context.Context, rt wazero.Runtime, spec *modSpec, hl *hostLog) error {
	if spec.NHost == 0 {
		return nil
	}
	hb := rt.NewHostModuleBuilder("env")
	for i := 0; i < spec.NHost; i++ {
		i := i
		hs := hostSigs[i%len(hostSigs)]
		name := fmt.Sprintf("h%d", i)
		np := len(hs.P)
		fn := api.GoModuleFunc(func(_ context.Context, _ api.Module, stack []uint64) {
			// decode by type: only the low 32 bits of an i32/f32 slot are defined (api.DecodeI32,
			// api.DecodeF32); the compiler leaves arbitrary upper bits there
			var args [4]uint64
			for j, pt := range hs.P {
				args[j] = stack[j]
				if pt == tI32 || pt == tF32 {
					args[j] &= 0xffffffff
				}
			}
			hl.add(name, args[:np])
			acc := uint64(i+1) * 0x9e3779b97f4a7c15
			for _, a := range args[:np] {
				acc = acc*31 + a
			}
			for j, r := range hs.R {
				v := acc + uint64(j)
				if r == tI32 || r == tF32 {
					v &= 0xffffffff
				}
				stack[j] = v
			}
		})
		hb.NewFunctionBuilder().WithGoModuleFunction(fn, hs.P, hs.R).Export(name)
	}
	_, err := hb.Instantiate(ctx)
	return err
}

// execTrace instantiates the compiled module in rt and performs the call script.
func execTrace(ctx context.Context, rt wazero.Runtime, cm wazero.CompiledModule, spec *modSpec) *traceT {
	tr := &traceT{}
	hl := &hostLog{}
	if err := instantiateHost(ctx, rt, spec, hl); err != nil {
		tr.Inst = "host module: " + err.Error()
		return tr
	}
	var inst api.Module
	err, p := wz.Safely(func() (e error) {
		inst, e = rt.InstantiateModule(ctx, cm, wazero.NewModuleConfig().WithName("guest").WithStartFunctions())
		return
	})
	if p != nil {
		tr.Inst = fmt.Sprintf("internal: panic escaped InstantiateModule: %v", p)
		return tr
	}
	tr.Inst = wz.Classify(err).String()
	if err != nil {
		return tr
	}
	var fuel api.MutableGlobal
	if spec.hasFuel() {
		fuel, _ = inst.ExportedGlobal("fuel").(api.MutableGlobal)
	}
	for _, c := range spec.Calls {
		name := fmt.Sprintf("f%d", c.Func)
		f := inst.ExportedFunction(name)
		if f == nil {
			tr.Steps = append(tr.Steps, name+": not exported")
			continue
		}
		if fuel != nil {
			fuel.Set(fuelPerCall)
		}
		res, out := wz.SafeCall(ctx, f, c.Args...)
		if c.Func < len(spec.Funcs) { // decode 32-bit results by type (upper bits are not defined)
			for j, rt := range spec.Funcs[c.Func].R {
				if j < len(res) && (rt == tI32 || rt == tF32) {
					res[j] &= 0xffffffff
				}
			}
		}
		if out.Kind == wz.KOK {
			tr.Steps = append(tr.Steps, fmt.Sprintf("%s%x -> %x", name, c.Args, res))
		} else {
			tr.Steps = append(tr.Steps, fmt.Sprintf("%s%x -> %s", name, c.Args, out))
		}
	}
	tr.HostN, tr.HostH, tr.HostLog = hl.n, fmt.Sprintf("%x", hl.h), hl.first
	if spec.Mem >= 0 {
		m := inst.ExportedMemory("mem")
		sz := m.Size()
		b, _ := m.Read(0, sz)
		s := sha256.Sum256(b)
		tr.Mem = fmt.Sprintf("%d:%s", sz, hex.EncodeToString(s[:8]))
	}
	for i := range spec.Globals {
		name := fmt.Sprintf("g%d", i)
		if i == 0 && spec.hasFuel() {
			name = "fuel"
		}
		if g := inst.ExportedGlobal(name); g != nil {
			v := g.Get()
			if t := spec.Globals[i].T; t == tI32 || t == tF32 {
				v &= 0xffffffff
			}
			tr.Globals = append(tr.Globals, fmt.Sprintf("%s=%x", name, v))
		}
	}
	return tr
}

func safeCompile(ctx context.Context, rt wazero.Runtime, wasm []byte) (cm wazero.CompiledModule, err error, panicked any) {
	err, panicked = wz.Safely(func() (e error) {
		cm, e = rt.CompileModule(ctx, wasm)
		return
	})
	return
}

// ---------- cache directory ----------

// dirState is the content of the version-specific subdirectory of a cache directory.
type dirState struct {
	Sub   string
	Files map[string][]byte
}

func readDir(dir string) (*dirState, error) {
	st := &dirState{Files: map[string][]byte{}}
	des, err := os.ReadDir(dir)
	if err != nil {
		if errors.Is(err, os.ErrNotExist) {
			return st, nil
		}
		return nil, err
	}
	for _, de := range des {
		if !de.IsDir() || !strings.HasPrefix(de.Name(), "wazero-") {
			return nil, fmt.Errorf("unexpected entry %q in cache directory", de.Name())
		}
		if st.Sub != "" {
			return nil, fmt.Errorf("two version directories: %q and %q", st.Sub, de.Name())
		}
		st.Sub = de.Name()
	}
	if st.Sub == "" {
		return st, nil
	}
	fes, err := os.ReadDir(filepath.Join(dir, st.Sub))
	if err != nil {
		return nil, err
	}
	for _, fe := range fes {
		b, err := os.ReadFile(filepath.Join(dir, st.Sub, fe.Name()))
		if err != nil {
			return nil, err
		}
		st.Files[fe.Name()] = b
	}
	return st, nil
}

func (st *dirState) names() []string {
	var r []string
	for n := range st.Files {
		r = append(r, n)
	}
	sort.Strings(r)
	return r
}

func (st *dirState) describe() string {
	var sb strings.Builder
	for _, n := range st.names() {
		fmt.Fprintf(&sb, " %s(%d bytes)", n, len(st.Files[n]))
	}
	if sb.Len() == 0 {
		return " <empty>"
	}
	return sb.String()
}

func isTempOf(name, key string) bool {
	return strings.HasPrefix(name, key+".") && strings.HasSuffix(name, ".tmp")
}

// layout of an entry as documented in the property record: magic, version, function offsets,
// code length, code, CRC32 of code, optional source map. Parsed independently of wazero.
type layout struct {
	VerLen    int
	Version   string
	NFuncs    int
	Offsets   []uint64
	HeaderEnd int // end of magic+verlen+version+nfuncs
	ExecStart int // end of offset table and code length
	ExecEnd   int
	TrailerAt int  // = ExecEnd: CRC (if code non-empty), source-map flag, source map
	SMStart   int  // first byte after the source-map flag
	HasSM     bool // the entry ends with a source map (flag 1)
	SMPairs   int
	Len       int
}

func parseEntry(b []byte) (layout, error) {
	var l layout
	l.Len = len(b)
	if len(b) < 7 || string(b[:6]) != "WAZEVO" {
		return l, fmt.Errorf("no WAZEVO magic")
	}
	l.VerLen = int(b[6])
	p := 7 + l.VerLen
	if len(b) < p+4 {
		return l, fmt.Errorf("short header")
	}
	l.Version = string(b[7:p])
	l.NFuncs = int(binary.LittleEndian.Uint32(b[p:]))
	p += 4
	l.HeaderEnd = p
	if len(b) < p+8*l.NFuncs+8 {
		return l, fmt.Errorf("short offset table")
	}
	for i := 0; i < l.NFuncs; i++ {
		l.Offsets = append(l.Offsets, binary.LittleEndian.Uint64(b[p:]))
		p += 8
	}
	el := binary.LittleEndian.Uint64(b[p:])
	p += 8
	l.ExecStart = p
	if el > uint64(len(b)-p) {
		return l, fmt.Errorf("code length %d exceeds the entry", el)
	}
	p += int(el)
	l.ExecEnd, l.TrailerAt = p, p
	// the writer always appends the checksum, also after an empty code segment
	if len(b) < p+4 {
		return l, fmt.Errorf("no checksum")
	}
	p += 4
	if len(b) < p+1 {
		return l, fmt.Errorf("no source-map flag")
	}
	flag := b[p]
	p++
	l.SMStart = p
	if flag == 1 {
		if len(b) < p+8 {
			return l, fmt.Errorf("short source map")
		}
		n := binary.LittleEndian.Uint64(b[p:])
		p += 8
		if n > uint64(len(b)-p)/16 {
			return l, fmt.Errorf("short source map")
		}
		p += int(n) * 16
		l.HasSM, l.SMPairs = true, int(n)
	} else if flag != 0 {
		return l, fmt.Errorf("source-map flag %d", flag)
	}
	if p != len(b) {
		return l, fmt.Errorf("%d trailing bytes", len(b)-p)
	}
	return l, nil
}

// ---------- child processes ----------

type childReq struct {
	Spec    *modSpec `json:"spec"`
	Dir     string   `json:"dir"`
	Out     string   `json:"out"`
	Barrier bool     `json:"barrier"`
}

type childOut struct {
	CompileErr string  `json:"compile_err"`
	Panic      string  `json:"panic"`
	Trace      *traceT `json:"trace"`
}

type childRes struct {
	signaled bool
	sig      syscall.Signal
	exit     int
	timedOut bool
	out      *childOut
	log      string
}

func (r *childRes) status() string {
	switch {
	case r.timedOut:
		return "timed out"
	case r.signaled:
		return "killed by signal " + r.sig.String()
	}
	return fmt.Sprintf("exit status %d", r.exit)
}

func (r *childRes) tail() string {
	s := r.log
	if len(s) > 1500 {
		s = "..." + s[len(s)-1500:]
	}
	return s
}

const readyMark = "C13-CHILD-READY"

type child struct {
	cmd   *exec.Cmd
	stdin io.WriteCloser
	ready chan struct{}
	done  chan struct{}
	ebuf  bytes.Buffer // stderr (written by os/exec until Wait returns)
	obuf  bytes.Buffer // stdout (written by the reader goroutine until done is closed)
	out   string
	tmo   *time.Timer
	timed bool
	mu    sync.Mutex
}

func childEnv(extra ...string) []string {
	var env []string
	for _, kv := range os.Environ() {
		k := kv
		if i := strings.IndexByte(kv, '='); i >= 0 {
			k = kv[:i]
		}
		switch k {
		case "VERIF_SHARD_OUT", "VERIF_JOURNAL", "VERIF_REPLAY", "VERIF_CRASHPOINT", "C13_REQ", "C13_FSIZE", "VERIF_FUZZ_OUT", "GO_TEST_FUZZ_WORKER_ID":
			continue
		}
		env = append(env, kv)
	}
	return append(env, extra...)
}

// startChild re-executes the test binary as a child helper.
func startChild(req *childReq, reqPath string, timeout time.Duration, extraEnv ...string) (*child, error) {
	b, err := json.Marshal(req)
	if err != nil {
		return nil, err
	}
	if err := os.WriteFile(reqPath, b, 0o644); err != nil {
		return nil, err
	}
	self, err := os.Executable()
	if err != nil {
		self = os.Args[0]
	}
	c := &child{ready: make(chan struct{}), done: make(chan struct{}), out: req.Out}
	c.cmd = exec.Command(self, "-test.run=^TestChildHelper$", "-test.count=1", "-test.timeout=120s")
	c.cmd.Env = childEnv(append([]string{"C13_REQ=" + reqPath}, extraEnv...)...)
	c.cmd.Stderr = &c.ebuf
	stdout, err := c.cmd.StdoutPipe()
	if err != nil {
		return nil, err
	}
	if c.stdin, err = c.cmd.StdinPipe(); err != nil {
		return nil, err
	}
	if err := c.cmd.Start(); err != nil {
		return nil, err
	}
	c.tmo = time.AfterFunc(timeout, func() {
		c.mu.Lock()
		c.timed = true
		c.mu.Unlock()
		c.cmd.Process.Kill()
	})
	go func() {
		defer close(c.done)
		sc := bufio.NewScanner(stdout)
		sc.Buffer(make([]byte, 64<<10), 1<<20)
		signalled := false
		ob := &c.obuf
		for sc.Scan() {
			if !signalled && strings.Contains(sc.Text(), readyMark) {
				signalled = true
				close(c.ready)
			}
			if ob.Len() < 1<<16 {
				ob.WriteString(sc.Text() + "\n")
			}
		}
		if !signalled {
			close(c.ready)
		}
	}()
	return c, nil
}

func (c *child) wait() *childRes {
	<-c.done
	err := c.cmd.Wait()
	c.tmo.Stop()
	c.stdin.Close()
	r := &childRes{}
	c.mu.Lock()
	r.timedOut = c.timed
	c.mu.Unlock()
	r.log = c.obuf.String() + c.ebuf.String()
	var ee *exec.ExitError
	if errors.As(err, &ee) {
		if ws, ok := ee.Sys().(syscall.WaitStatus); ok {
			if ws.Signaled() {
				r.signaled, r.sig = true, ws.Signal()
			} else {
				r.exit = ws.ExitStatus()
			}
		} else {
			r.exit = -1
		}
	} else if err != nil {
		r.exit = -1
		r.log += "\nwait: " + err.Error()
	}
	if b, err := os.ReadFile(c.out); err == nil {
		var co childOut
		if json.Unmarshal(b, &co) == nil {
			r.out = &co
		}
	}
	return r
}

// TestChildHelper is the child role: compile the module with a cache on the given directory,
// run the call script, write the result. With VERIF_CRASHPOINT set it dies inside CompileModule.
func TestChildHelper(t *testing.T) {
	rp := os.Getenv("C13_REQ")
	if rp == "" {
		t.Skip()
	}
	b, err := os.ReadFile(rp)
	if err != nil {
		t.Fatal(err)
	}
	var req childReq
	if err := json.Unmarshal(b, &req); err != nil {
		t.Fatal(err)
	}
	var co childOut
	ctx := context.Background()
	wasm := build(req.Spec)
	cache, err := wazero.NewCompilationCacheWithDir(req.Dir)
	if err != nil {
		t.Fatal(err)
	}
	rt := wazero.NewRuntimeWithConfig(ctx, wz.Config("compiler").WithCompilationCache(cache))
	if req.Barrier {
		os.Stdout.WriteString(readyMark + "\n")
		var one [1]byte
		os.Stdin.Read(one[:]) // released when the parent closes our stdin
	}
	// C13_FSIZE=k: writes to any file fail with EFBIG beyond k bytes while compiling (a write
	// error part-way through the temp file; close still succeeds)
	var oldLim syscall.Rlimit
	limited := false
	if v := os.Getenv("C13_FSIZE"); v != "" {
		var k uint64
		fmt.Sscan(v, &k)
		signal.Ignore(syscall.SIGXFSZ)
		if err := syscall.Getrlimit(syscall.RLIMIT_FSIZE, &oldLim); err != nil {
			t.Fatal(err)
		}
		if err := syscall.Setrlimit(syscall.RLIMIT_FSIZE, &syscall.Rlimit{Cur: k, Max: oldLim.Max}); err != nil {
			t.Fatal(err)
		}
		limited = true
	}
	cm, cerr, p := safeCompile(ctx, rt, wasm)
	if limited {
		if err := syscall.Setrlimit(syscall.RLIMIT_FSIZE, &oldLim); err != nil {
			t.Fatal(err)
		}
	}
	switch {
	case p != nil:
		co.Panic = fmt.Sprint(p)
	case cerr != nil:
		co.CompileErr = cerr.Error()
	default:
		co.Trace = execTrace(ctx, rt, cm, req.Spec)
	}
	ob, _ := json.Marshal(co)
	if err := os.WriteFile(req.Out+".tmp", ob, 0o644); err != nil {
		t.Fatal(err)
	}
	os.Rename(req.Out+".tmp", req.Out)
	rt.Close(ctx)
	cache.Close(ctx)
}

// ---------- module context ----------

type fault struct {
	Kind    string `json:"kind"`              // determinism | crash | trunc | version | corrupt | concurrent
	Point   string `json:"point,omitempty"`   // crash: after_create, mid_copy@<k>, ...
	Len     int    `json:"len,omitempty"`     // trunc: kept length
	Version string `json:"version,omitempty"` // version: foreign version string
	Off     int    `json:"off,omitempty"`     // corrupt: byte offset in the entry
	Xor     int    `json:"xor,omitempty"`     // corrupt: mask (1..255)
	G       int    `json:"g,omitempty"`       // concurrent: goroutines
	P       int    `json:"p,omitempty"`       // concurrent: processes
	// sequence: optional foreign-version entry planted first (Version, used when Stale), then one
	// writer process per point, each killed at its point (or finding a complete entry)
	Stale  bool     `json:"stale,omitempty"`
	Points []string `json:"points,omitempty"`
	// entry: these bytes are planted under the final name (native fuzzing); the oracle depends on
	// how they relate to the reference entry (see classify)
	Entry []byte `json:"entry,omitempty"`
}

func (f fault) param() string {
	switch f.Kind {
	case "crash":
		return f.Point
	case "trunc", "wfail":
		return fmt.Sprint(f.Len)
	case "version":
		return f.Version
	case "corrupt":
		return fmt.Sprintf("%d^%d", f.Off, f.Xor)
	case "concurrent":
		return fmt.Sprintf("%d+%d", f.G, f.P)
	case "sequence":
		return fmt.Sprintf("stale=%v(%s) %s", f.Stale, f.Version, strings.Join(f.Points, ","))
	case "entry":
		return fmt.Sprintf("%d bytes, fnv %x", len(f.Entry), evid.Hash64(f.Entry))
	}
	return ""
}

type replayCase struct {
	Mod   json.RawMessage `json:"module"`
	Fault fault           `json:"fault"`
}

type modCtx struct {
	spec     *modSpec
	specJSON json.RawMessage
	wasm     []byte
	wasmID   string
	uncached *traceT
	ref      []byte
	refName  string
	refSub   string
	lay      layout
	work     string
	seq      int
	noChild  bool // native fuzz workers: never re-execute the binary
}

var ctxSeq struct {
	sync.Mutex
	n int
}

func (mc *modCtx) newDir(tag string) string {
	mc.seq++
	return filepath.Join(mc.work, fmt.Sprintf("%s%d", tag, mc.seq))
}

func (mc *modCtx) cleanup() { os.RemoveAll(mc.work) }

func (mc *modCtx) rcase(f fault) replayCase { return replayCase{Mod: mc.specJSON, Fault: f} }

func cachedConfig(cache wazero.CompilationCache) wazero.RuntimeConfig {
	return wz.Config("compiler").WithCompilationCache(cache)
}

// compileInto compiles the module with a fresh runtime and a fresh cache handle on dir.
// It returns the runtime and cache (to be closed by the caller) when run is wanted.
type session struct {
	cache wazero.CompilationCache
	rt    wazero.Runtime
	cm    wazero.CompiledModule
}

func (s *session) close() {
	ctx := context.Background()
	if s.rt != nil {
		s.rt.Close(ctx)
	}
	if s.cache != nil {
		s.cache.Close(ctx)
	}
}

func openSession(dir string, wasm []byte) (s *session, compileErr error, panicked any, infra error) {
	ctx := context.Background()
	s = &session{}
	var err error
	if s.cache, err = wazero.NewCompilationCacheWithDir(dir); err != nil {
		return s, nil, nil, fmt.Errorf("NewCompilationCacheWithDir(%s): %v", dir, err)
	}
	s.rt = wazero.NewRuntimeWithConfig(ctx, cachedConfig(s.cache))
	s.cm, compileErr, panicked = safeCompile(ctx, s.rt, wasm)
	return
}

// newModCtx builds the references. A failure here is not a fault-run verdict: err != nil
// means the harness could not establish its references (reported as infrastructure trouble),
// except for msg != "" which is a violation of the base case (complete entry written).
func newModCtx(spec *modSpec) (mc *modCtx, err error) {
	ctx := context.Background()
	mc = &modCtx{spec: spec, wasm: build(spec)}
	mc.specJSON, _ = json.Marshal(spec)
	sum := sha256.Sum256(mc.wasm)
	mc.wasmID = hex.EncodeToString(sum[:8])
	ctxSeq.Lock()
	ctxSeq.n++
	mc.work = filepath.Join(evid.WorkDir(), fmt.Sprintf("m%d-%d-%s", os.Getpid(), ctxSeq.n, mc.wasmID))
	ctxSeq.Unlock()
	os.RemoveAll(mc.work)
	if err := os.MkdirAll(mc.work, 0o755); err != nil {
		return nil, err
	}
	// uncached trace
	rt := wazero.NewRuntimeWithConfig(ctx, wz.Config("compiler"))
	cm, cerr, p := safeCompile(ctx, rt, mc.wasm)
	if cerr != nil || p != nil {
		rt.Close(ctx)
		return nil, fmt.Errorf("generated module does not compile without a cache (generator defect?): err=%v panic=%v\nspec=%s", cerr, p, mc.specJSON)
	}
	mc.uncached = execTrace(ctx, rt, cm, spec)
	rt.Close(ctx)
	if strings.HasPrefix(mc.uncached.Inst, "internal") || strings.HasPrefix(mc.uncached.Inst, "host module") {
		return nil, fmt.Errorf("uncached run failed to instantiate: %s", mc.uncached.Inst)
	}
	// reference entry
	dir := mc.newDir("ref")
	s, cerr, p, infra := openSession(dir, mc.wasm)
	defer s.close()
	if infra != nil {
		return nil, infra
	}
	if cerr != nil || p != nil {
		return nil, fmt.Errorf("compiling into a fresh cache directory failed: err=%v panic=%v", cerr, p)
	}
	st, err := readDir(dir)
	if err != nil {
		return nil, err
	}
	if len(st.Files) != 1 {
		return nil, fmt.Errorf("fresh cache directory holds%s after one CompileModule, want exactly one entry", st.describe())
	}
	mc.refSub = st.Sub
	for n, b := range st.Files {
		mc.refName, mc.ref = n, b
	}
	if len(mc.refName) != 64 || strings.Contains(mc.refName, ".") {
		return nil, fmt.Errorf("entry name %q is not a hex SHA-256 key", mc.refName)
	}
	if mc.lay, err = parseEntry(mc.ref); err != nil {
		return nil, fmt.Errorf("reference entry does not have the documented layout: %v", err)
	}
	if crc32.Checksum(mc.ref[mc.lay.ExecStart:mc.lay.ExecEnd], castagnoli) != binary.LittleEndian.Uint32(mc.ref[mc.lay.ExecEnd:]) {
		return nil, fmt.Errorf("reference entry: the checksum field is not the CRC-32C of the code segment (layout changed?)")
	}
	if spec.Dwarf && len(spec.Funcs) > 0 && (!mc.lay.HasSM || mc.lay.SMPairs == 0) {
		return nil, fmt.Errorf("module with DWARF sections and %d functions: the entry does not end with a source map (the truncation of the source-map tail would not be exercised)", len(spec.Funcs))
	}
	if mc.lay.NFuncs != len(spec.Funcs) {
		return nil, fmt.Errorf("reference entry lists %d functions, module has %d", mc.lay.NFuncs, len(spec.Funcs))
	}
	return mc, nil
}

func (mc *modCtx) finalPath(dir string) string { return filepath.Join(dir, mc.refSub, mc.refName) }

// plant puts entry under the final name of dir. An existing file is overwritten in place and
// cut to the new length (not truncated to zero first: on ext4 that forces a flush on close).
func (mc *modCtx) plant(dir string, entry []byte) error {
	p := mc.finalPath(dir)
	f, err := os.OpenFile(p, os.O_WRONLY|os.O_CREATE, 0o600)
	if errors.Is(err, os.ErrNotExist) {
		if err = os.MkdirAll(filepath.Join(dir, mc.refSub), 0o700); err != nil {
			return err
		}
		f, err = os.OpenFile(p, os.O_WRONLY|os.O_CREATE, 0o600)
	}
	if err != nil {
		return err
	}
	if _, err = f.WriteAt(entry, 0); err == nil {
		err = f.Truncate(int64(len(entry)))
	}
	if cerr := f.Close(); err == nil {
		err = cerr
	}
	return err
}

func readFinal(path string) ([]byte, bool) {
	b, err := os.ReadFile(path)
	return b, err == nil
}

func diffAt(a, b []byte) string {
	n := len(a)
	if len(b) < n {
		n = len(b)
	}
	for i := 0; i < n; i++ {
		if a[i] != b[i] {
			return fmt.Sprintf("lengths %d/%d, first difference at byte %d (%#x vs %#x)", len(a), len(b), i, a[i], b[i])
		}
	}
	return fmt.Sprintf("lengths %d/%d, common prefix equal", len(a), len(b))
}

// spawn runs one child to completion.
func (mc *modCtx) spawn(dir string, timeout time.Duration, extraEnv ...string) (*childRes, error) {
	mc.seq++
	base := filepath.Join(mc.work, fmt.Sprintf("child%d", mc.seq))
	c, err := startChild(&childReq{Spec: mc.spec, Dir: dir, Out: base + ".out"}, base+".req", timeout, extraEnv...)
	if err != nil {
		return nil, err
	}
	c.stdin.Close()
	return c.wait(), nil
}

// checkChildOK verifies that a child without fault injection compiled and produced the
// uncached trace.
func (mc *modCtx) checkChildOK(what string, r *childRes) (msg string, infra error) {
	if r.timedOut {
		return fmt.Sprintf("%s: process hung (killed after the timeout)\n%s", what, r.tail()), nil
	}
	if r.signaled {
		return fmt.Sprintf("%s: process %s\n%s", what, r.status(), r.tail()), nil
	}
	if r.out == nil {
		if r.exit != 0 && (strings.Contains(r.log, "fatal error:") || strings.Contains(r.log, "panic:") || strings.Contains(r.log, "unexpected signal")) {
			return fmt.Sprintf("%s: process crashed (%s)\n%s", what, r.status(), r.tail()), nil
		}
		return "", fmt.Errorf("%s: child produced no result (%s)\n%s", what, r.status(), r.tail())
	}
	if r.out.Panic != "" {
		return fmt.Sprintf("%s: CompileModule panicked: %s", what, r.out.Panic), nil
	}
	if r.out.CompileErr != "" {
		return fmt.Sprintf("%s: CompileModule failed: %s", what, r.out.CompileErr), nil
	}
	if !mc.uncached.equal(r.out.Trace) {
		return fmt.Sprintf("%s: execution trace differs from the uncached trace\n cached:   %s\n uncached: %s", what, r.out.Trace, mc.uncached), nil
	}
	return "", nil
}

// useDir compiles with a fresh in-process runtime on dir (which is expected to hold no
// faulty entry) and compares the trace; afterwards the final name must hold the reference.
func (mc *modCtx) useDir(what, dir string) (msg string, infra error) {
	s, cerr, p, infra := openSession(dir, mc.wasm)
	defer s.close()
	if infra != nil {
		return "", infra
	}
	if p != nil {
		return fmt.Sprintf("%s: CompileModule panicked: %v", what, p), nil
	}
	if cerr != nil {
		return fmt.Sprintf("%s: CompileModule failed: %v", what, cerr), nil
	}
	tr := execTrace(context.Background(), s.rt, s.cm, mc.spec)
	if !mc.uncached.equal(tr) {
		return fmt.Sprintf("%s: execution trace differs from the uncached trace\n cached:   %s\n uncached: %s", what, tr, mc.uncached), nil
	}
	b, ok := readFinal(mc.finalPath(dir))
	if !ok {
		return fmt.Sprintf("%s: after a successful CompileModule there is no entry under the final name", what), nil
	}
	if !bytes.Equal(b, mc.ref) {
		return fmt.Sprintf("%s: entry under the final name differs from the reference entry (%s)", what, diffAt(b, mc.ref)), nil
	}
	return "", nil
}

func copyDir(src, dst string) error {
	return filepath.Walk(src, func(p string, fi os.FileInfo, err error) error {
		if err != nil {
			return err
		}
		rel, _ := filepath.Rel(src, p)
		if fi.IsDir() {
			return os.MkdirAll(filepath.Join(dst, rel), 0o700)
		}
		b, err := os.ReadFile(p)
		if err != nil {
			return err
		}
		return os.WriteFile(filepath.Join(dst, rel), b, 0o600)
	})
}

// ---------- faults ----------

const childTimeout = 90 * time.Second
const riskyTimeout = 20 * time.Second

// runFault executes one fault case. msg != "" is a violation; infra != nil means the case
// could not be carried out. labels describe what happened (generator/fault health).
func (mc *modCtx) runFault(f fault) (msg string, labels []string, infra error) {
	switch f.Kind {
	case "determinism":
		return mc.faultDeterminism()
	case "crash":
		return mc.faultCrash(f)
	case "trunc":
		if f.Len < 0 || f.Len >= len(mc.ref) {
			return "", nil, fmt.Errorf("truncation length %d outside 0..%d (entry changed since the case was recorded?)", f.Len, len(mc.ref)-1)
		}
		return mc.faultEntry(f, mc.ref[:f.Len])
	case "version":
		e := append([]byte{}, mc.ref[:6]...)
		e = append(e, byte(len(f.Version)))
		e = append(e, f.Version...)
		e = append(e, mc.ref[7+mc.lay.VerLen:]...)
		return mc.faultEntry(f, e)
	case "corrupt":
		if f.Off < 0 || f.Off >= len(mc.ref) || f.Xor&0xff == 0 {
			return "", nil, fmt.Errorf("corruption offset %d outside the entry (%d bytes)", f.Off, len(mc.ref))
		}
		e := append([]byte{}, mc.ref...)
		e[f.Off] ^= byte(f.Xor)
		return mc.faultEntry(f, e)
	case "concurrent":
		return mc.faultConcurrent(f)
	case "sequence":
		return mc.faultSequence(f)
	case "paused":
		return mc.faultPaused()
	case "wfail":
		return mc.faultWriteFail(f)
	case "entry":
		class := mc.classify(f.Entry)
		if class == "" {
			return "", []string{"entry:outside-fault-model"}, nil
		}
		return mc.faultEntryAs(class, fmt.Sprintf("planted entry (%s; classified as %s; reference entry %d bytes)", f.param(), class, len(mc.ref)), f.Entry)
	}
	return "", nil, fmt.Errorf("unknown fault kind %q", f.Kind)
}

func (mc *modCtx) faultDeterminism() (msg string, labels []string, infra error) {
	// two more in-process compilations
	var dirs []string
	for i := 0; i < 2; i++ {
		dir := mc.newDir("det")
		dirs = append(dirs, dir)
		s, cerr, p, infra := openSession(dir, mc.wasm)
		s.close()
		if infra != nil {
			return "", nil, infra
		}
		if cerr != nil || p != nil {
			return fmt.Sprintf("in-process compilation #%d into a fresh directory failed: err=%v panic=%v", i+2, cerr, p), nil, nil
		}
	}
	// two child processes
	for i := 0; i < 2; i++ {
		dir := mc.newDir("detp")
		dirs = append(dirs, dir)
		r, err := mc.spawn(dir, childTimeout)
		if err != nil {
			return "", nil, err
		}
		if m, infra := mc.checkChildOK(fmt.Sprintf("child process #%d compiling into a fresh directory", i+1), r); m != "" || infra != nil {
			return m, nil, infra
		}
	}
	for i, dir := range dirs {
		who := fmt.Sprintf("in-process compilation #%d", i+2)
		if i >= 2 {
			who = fmt.Sprintf("child process #%d", i-1)
		}
		st, err := readDir(dir)
		if err != nil {
			return "", nil, err
		}
		if len(st.Files) != 1 {
			return fmt.Sprintf("%s left%s in its fresh cache directory, the first compilation left exactly %s", who, st.describe(), mc.refName), nil, nil
		}
		b, ok := st.Files[mc.refName]
		if !ok || st.Sub != mc.refSub {
			return fmt.Sprintf("%s wrote %s/%v, the first compilation wrote %s/%s (file name not deterministic)", who, st.Sub, st.names(), mc.refSub, mc.refName), nil, nil
		}
		if !bytes.Equal(b, mc.ref) {
			return fmt.Sprintf("%s produced a different entry for the same module: %s", who, diffAt(b, mc.ref)), nil, nil
		}
	}
	// a third process loads what child #1 wrote; the shard loads what child #2 wrote
	r, err := mc.spawn(dirs[2], childTimeout)
	if err != nil {
		return "", nil, err
	}
	if m, infra := mc.checkChildOK("fresh process loading the entry written by another process", r); m != "" || infra != nil {
		return m, nil, infra
	}
	if b, ok := readFinal(mc.finalPath(dirs[2])); !ok || !bytes.Equal(b, mc.ref) {
		return "entry changed or vanished after being loaded by a fresh process", nil, nil
	}
	if m, infra := mc.useDir("fresh runtime loading the entry written by a child process", dirs[3]); m != "" || infra != nil {
		return m, nil, infra
	}
	for _, d := range dirs {
		os.RemoveAll(d)
	}
	return "", nil, nil
}

func pointName(p string) string {
	if i := strings.IndexByte(p, '@'); i >= 0 {
		return p[:i]
	}
	return p
}

func (mc *modCtx) faultCrash(f fault) (msg string, labels []string, infra error) {
	dir := mc.newDir("crash")
	defer os.RemoveAll(dir)
	r, err := mc.spawn(dir, childTimeout, "VERIF_CRASHPOINT="+f.Point)
	if err != nil {
		return "", nil, err
	}
	if !r.signaled || r.sig != syscall.SIGKILL || r.timedOut {
		return "", nil, fmt.Errorf("child with VERIF_CRASHPOINT=%s did not die by SIGKILL at the crash point: %s\n%s", f.Point, r.status(), r.tail())
	}
	after := "after the writer was killed at " + f.Point
	m, final, temps, infra := mc.checkAfterKill(dir, after)
	if m != "" || infra != nil {
		return m, nil, infra
	}
	for _, b := range temps {
		labels = append(labels, "crash:temp-left")
		if pointName(f.Point) == "mid_copy" {
			var k int
			fmt.Sscanf(f.Point, "mid_copy@%d", &k)
			if len(b) == k {
				labels = append(labels, "crash:mid_copy-temp-has-k-bytes")
			}
		}
	}
	if final {
		labels = append(labels, "crash:final-present-complete")
	} else {
		labels = append(labels, "crash:final-absent")
	}
	// recovery by a fresh process on a copy of the directory (selected points)
	switch pointName(f.Point) {
	case "after_create", "after_rename":
		cp := mc.newDir("crashcopy")
		defer os.RemoveAll(cp)
		if err := copyDir(dir, cp); err != nil {
			return "", nil, err
		}
		r, err := mc.spawn(cp, childTimeout)
		if err != nil {
			return "", nil, err
		}
		if m, infra := mc.checkChildOK("fresh process using the directory "+after, r); m != "" || infra != nil {
			return m, labels, infra
		}
		b, ok := readFinal(mc.finalPath(cp))
		if !ok || !bytes.Equal(b, mc.ref) {
			return fmt.Sprintf("fresh process using the directory %s compiled successfully but the final name does not hold the reference entry afterwards", after), labels, nil
		}
		labels = append(labels, "crash:recovered-by-process")
	}
	m, infra = mc.useDir("fresh runtime using the directory "+after, dir)
	return m, labels, infra
}

// faultPaused: a writer process is stopped (SIGSTOP) while it is between CreateTemp and Rename
// inside fileCache.Add - observed from outside: its temp file exists and the final name does
// not - then other users open the same directory (a cache object that compiles the module, and
// one that is only constructed), then the writer continues. The writer's CompileModule must
// succeed with the uncached trace, the other user must work, the final name must hold the
// reference entry. The stop is attempted by polling the directory; when the window is missed
// (the writer had already renamed) the attempt is repeated with a fresh directory, and after 8
// misses the case gives no verdict (label paused:window-never-hit).
func (mc *modCtx) faultPaused() (msg string, labels []string, infra error) {
	for attempt := 0; attempt < 8; attempt++ {
		dir := mc.newDir("pause")
		sub := filepath.Join(dir, mc.refSub)
		if err := os.MkdirAll(sub, 0o700); err != nil {
			return "", labels, err
		}
		mc.seq++
		base := filepath.Join(mc.work, fmt.Sprintf("child%d", mc.seq))
		c, err := startChild(&childReq{Spec: mc.spec, Dir: dir, Out: base + ".out", Barrier: true}, base+".req", childTimeout)
		if err != nil {
			return "", labels, err
		}
		<-c.ready
		c.stdin.Close() // release the writer
		paused := false
	poll:
		for {
			select {
			case <-c.done:
				break poll
			default:
			}
			temp, final := scanSub(sub, mc.refName)
			switch {
			case final:
				break poll
			case temp:
				c.cmd.Process.Signal(syscall.SIGSTOP)
				// the signal is asynchronous: wait until the process is really stopped
				stopped := false
				for i := 0; i < 20000 && !stopped; i++ {
					if b, err := os.ReadFile(fmt.Sprintf("/proc/%d/stat", c.cmd.Process.Pid)); err == nil {
						if j := bytes.LastIndexByte(b, ')'); j >= 0 && j+2 < len(b) && (b[j+2] == 'T' || b[j+2] == 't') {
							stopped = true
						}
					} else {
						break
					}
				}
				temp, final = scanSub(sub, mc.refName)
				if stopped && temp && !final {
					paused = true
				} else {
					c.cmd.Process.Signal(syscall.SIGCONT)
				}
				break poll
			}
		}
		if !paused {
			r := c.wait()
			os.RemoveAll(dir)
			if m, infra := mc.checkChildOK("writer process (not paused)", r); m != "" || infra != nil {
				return m, labels, infra
			}
			labels = append(labels, "paused:window-missed")
			continue
		}
		labels = append(labels, "paused:writer-stopped-with-temp-file-present")
		what := "while a writer process is stopped between CreateTemp and Rename (its temp file exists, no final entry)"
		m1, infra1 := mc.useDir("another user opening the directory and compiling the module "+what, dir)
		var openErr error
		if cc, err := wazero.NewCompilationCacheWithDir(dir); err != nil {
			openErr = err
		} else {
			cc.Close(context.Background())
		}
		c.cmd.Process.Signal(syscall.SIGCONT)
		r := c.wait()
		defer os.RemoveAll(dir)
		if m1 != "" || infra1 != nil {
			return m1, labels, infra1
		}
		if openErr != nil {
			return "", labels, openErr
		}
		if m, infra := mc.checkChildOK("writer process that continued after other users opened the directory "+what, r); m != "" || infra != nil {
			return m, labels, infra
		}
		if b, ok := readFinal(mc.finalPath(dir)); !ok || !bytes.Equal(b, mc.ref) {
			return "after the paused writer finished the final name does not hold the reference entry", labels, nil
		}
		return "", labels, nil
	}
	return "", append(labels, "paused:window-never-hit"), nil
}

// faultWriteFail: a writer process whose file writes fail with EFBIG beyond f.Len bytes
// (RLIMIT_FSIZE, SIGXFSZ ignored) - the temp file receives f.Len bytes, the next write fails, close
// succeeds. The process is not killed: CompileModule may report the error or succeed, but the
// final name must hold nothing or the complete reference entry, and a fresh runtime using the
// directory must behave like a cold compile.
func (mc *modCtx) faultWriteFail(f fault) (msg string, labels []string, infra error) {
	if f.Len < 0 || f.Len >= len(mc.ref) {
		return "", nil, fmt.Errorf("write-failure offset %d outside 0..%d", f.Len, len(mc.ref)-1)
	}
	dir := mc.newDir("wfail")
	defer os.RemoveAll(dir)
	r, err := mc.spawn(dir, childTimeout, fmt.Sprintf("C13_FSIZE=%d", f.Len))
	if err != nil {
		return "", nil, err
	}
	who := fmt.Sprintf("writer process whose writes fail beyond %d of %d bytes", f.Len, len(mc.ref))
	if r.timedOut || r.signaled {
		return fmt.Sprintf("%s: process %s\n%s", who, r.status(), r.tail()), nil, nil
	}
	if r.out == nil {
		return "", nil, fmt.Errorf("%s: child produced no result (%s)\n%s", who, r.status(), r.tail())
	}
	switch {
	case r.out.Panic != "":
		return fmt.Sprintf("%s: CompileModule panicked: %s", who, r.out.Panic), nil, nil
	case r.out.CompileErr != "":
		labels = append(labels, "wfail:reported-error")
	default:
		labels = append(labels, "wfail:compile-succeeded")
		if !mc.uncached.equal(r.out.Trace) {
			return fmt.Sprintf("%s: trace differs from the uncached trace\n got:      %s\n uncached: %s", who, r.out.Trace, mc.uncached), labels, nil
		}
	}
	m, final, temps, infra := mc.checkAfterKill(dir, "after the "+who+" finished,")
	if m != "" || infra != nil {
		return m, labels, infra
	}
	if final {
		labels = append(labels, "wfail:final-present-complete")
	} else {
		labels = append(labels, "wfail:final-absent")
	}
	if len(temps) > 0 {
		labels = append(labels, "wfail:temp-left")
	}
	m, infra = mc.useDir("fresh runtime using the directory after the "+who+" finished", dir)
	return m, labels, infra
}

// scanSub reports whether the version directory holds a temp file of the key / the final name.
func scanSub(sub, key string) (temp, final bool) {
	f, err := os.Open(sub)
	if err != nil {
		return
	}
	names, _ := f.Readdirnames(-1)
	f.Close()
	for _, n := range names {
		if n == key {
			final = true
		} else if isTempOf(n, key) {
			temp = true
		}
	}
	return
}

// checkAfterKill verifies the directory invariant after a writer died: the final name holds
// nothing or the reference entry, everything else is a temp file of the key.
func (mc *modCtx) checkAfterKill(dir, after string) (msg string, final bool, temps map[string][]byte, infra error) {
	st, err := readDir(dir)
	if err != nil {
		return "", false, nil, err
	}
	if st.Sub != "" && st.Sub != mc.refSub {
		return fmt.Sprintf("%s: version directory %q, expected %q", after, st.Sub, mc.refSub), false, nil, nil
	}
	temps = map[string][]byte{}
	for _, n := range st.names() {
		b := st.Files[n]
		switch {
		case n == mc.refName:
			final = true
			if !bytes.Equal(b, mc.ref) {
				return fmt.Sprintf("%s the final name %s holds an incomplete or different entry: %s; directory:%s", after, n, diffAt(b, mc.ref), st.describe()), final, nil, nil
			}
		case isTempOf(n, mc.refName):
			temps[n] = b
		default:
			return fmt.Sprintf("%s the directory holds a file that is neither the final name nor a temp file of the key: %s (key %s)", after, n, mc.refName), final, nil, nil
		}
	}
	return "", final, temps, nil
}

// faultSequence: several writers die one after the other in the same directory (optionally
// starting from an entry of a foreign version); the invariant must hold after each death and
// the directory must be usable afterwards.
func (mc *modCtx) faultSequence(f fault) (msg string, labels []string, infra error) {
	dir := mc.newDir("seq")
	defer os.RemoveAll(dir)
	if f.Stale {
		e := append([]byte{}, mc.ref[:6]...)
		e = append(e, byte(len(f.Version)))
		e = append(e, f.Version...)
		e = append(e, mc.ref[7+mc.lay.VerLen:]...)
		if err := mc.plant(dir, e); err != nil {
			return "", nil, err
		}
	}
	done := ""
	for i, pt := range f.Points {
		r, err := mc.spawn(dir, childTimeout, "VERIF_CRASHPOINT="+pt)
		if err != nil {
			return "", nil, err
		}
		step := fmt.Sprintf("writer #%d of sequence [stale=%v%s] with crash point %s", i+1, f.Stale, done, pt)
		done += " " + pt
		switch {
		case r.timedOut:
			return fmt.Sprintf("%s hung", step), labels, nil
		case r.signaled && r.sig == syscall.SIGKILL:
			labels = append(labels, "sequence:writer-killed")
		case r.signaled:
			return fmt.Sprintf("%s: process %s\n%s", step, r.status(), r.tail()), labels, nil
		default:
			// not killed: it must have found a complete entry (no Add) and worked normally
			labels = append(labels, "sequence:writer-found-entry")
			if m, infra := mc.checkChildOK(step+" (not killed, so it must have found a complete entry)", r); m != "" || infra != nil {
				return m, labels, infra
			}
			if b, ok := readFinal(mc.finalPath(dir)); !ok || !bytes.Equal(b, mc.ref) {
				return "", labels, fmt.Errorf("%s was not killed although no complete entry exists (crash point not reached?)", step)
			}
		}
		m, _, _, infra := mc.checkAfterKill(dir, "after "+step+" ended,")
		if m != "" || infra != nil {
			return m, labels, infra
		}
	}
	m, infra := mc.useDir(fmt.Sprintf("fresh runtime using the directory after the sequence [stale=%v%s]", f.Stale, done), dir)
	return m, labels, infra
}

var castagnoli = crc32.MakeTable(crc32.Castagnoli)

// classify relates arbitrary bytes e to the reference entry and returns the fault class whose
// oracle applies, or "" when e is outside the property's fault model (the property speaks of
// truncated entries and entries of another version; the checksum additionally protects the
// code segment; any other change of the directory is excluded by the documentation of
// NewCompilationCacheWithDir: "the embedder must safeguard this directory from external
// changes" - function offsets, counts, lengths and the source map carry no checksum).
//
//	identity  e is the reference entry
//	version   e starts with the magic and a complete version field that differs from the
//	          running version (whatever follows: the layout behind it belongs to that version)
//	trunc     e is shorter than the reference and equals it wherever it is defined, except
//	          possibly inside the code segment and its checksum
//	corrupt   e has the reference's length and equals it outside code segment + checksum,
//	          differs inside, and its checksum field does not match its code (module has code)
func (mc *modCtx) classify(e []byte) string {
	r, l := mc.ref, mc.lay
	if bytes.Equal(e, r) {
		return "identity"
	}
	if len(e) >= 7 && string(e[:6]) == "WAZEVO" && len(e) >= 7+int(e[6]) && string(e[7:7+int(e[6])]) != l.Version {
		return "version"
	}
	if len(e) > len(r) {
		return ""
	}
	hasCode := l.ExecEnd > l.ExecStart
	inside := false
	for i := range e {
		if e[i] != r[i] {
			if !hasCode || i < l.ExecStart || i >= l.ExecEnd+4 {
				return ""
			}
			inside = true
		}
	}
	if len(e) < len(r) {
		return "trunc"
	}
	if !inside {
		return ""
	}
	if crc32.Checksum(e[l.ExecStart:l.ExecEnd], castagnoli) == binary.LittleEndian.Uint32(e[l.ExecEnd:]) {
		return "" // a consistent checksum: indistinguishable from a genuine entry
	}
	return "corrupt"
}

// faultEntry plants a faulty entry under the final name and lets a fresh runtime compile.
func (mc *modCtx) faultEntry(f fault, entry []byte) (msg string, labels []string, infra error) {
	return mc.faultEntryAs(f.Kind, fmt.Sprintf("entry with fault %s(%s)", f.Kind, f.param()), entry)
}

// faultEntryAs applies the oracle of fault class kind (trunc | version | corrupt | identity) to
// the planted entry.
func (mc *modCtx) faultEntryAs(kind, what string, entry []byte) (msg string, labels []string, infra error) {
	f := fault{Kind: kind, Len: len(entry)}
	// one directory per module is reused for all planted entries (creating directories is the
	// dominant cost otherwise); it is emptied of everything but the planted file first.
	dir := filepath.Join(mc.work, "planted")
	if des, err := os.ReadDir(filepath.Join(dir, mc.refSub)); err == nil {
		for _, de := range des {
			if de.Name() != mc.refName {
				os.Remove(filepath.Join(dir, mc.refSub, de.Name()))
			}
		}
	}
	if err := mc.plant(dir, entry); err != nil {
		return "", nil, err
	}
	s, cerr, p, infra := openSession(dir, mc.wasm)
	defer s.close()
	if infra != nil {
		return "", nil, infra
	}
	if p != nil {
		return fmt.Sprintf("%s: CompileModule panicked: %v", what, p), nil, nil
	}
	if cerr != nil {
		if o := wz.Classify(cerr); o.Kind == wz.KInternal {
			return fmt.Sprintf("%s: CompileModule returned an internal error: %v", what, cerr), nil, nil
		}
		if kind == "identity" {
			return fmt.Sprintf("%s: the complete reference entry is rejected: %v", what, cerr), nil, nil
		}
		return "", []string{f.Kind + ":reported-error"}, nil
	}
	now, present := readFinal(mc.finalPath(dir))
	if kind == "identity" {
		if !present || !bytes.Equal(now, mc.ref) {
			return fmt.Sprintf("%s: the complete reference entry was removed or changed by CompileModule", what), nil, nil
		}
		tr := execTrace(context.Background(), s.rt, s.cm, mc.spec)
		if !mc.uncached.equal(tr) {
			return fmt.Sprintf("%s: trace of the module loaded from the reference entry differs from the uncached trace\n got:      %s\n uncached: %s", what, tr, mc.uncached), nil, nil
		}
		return "", []string{"identity:hit"}, nil
	}
	switch {
	case !present, bytes.Equal(now, mc.ref):
		// discarded and compiled afresh: safe to execute here
		if present {
			labels = append(labels, f.Kind+":discarded-and-replaced")
		} else {
			labels = append(labels, f.Kind+":discarded-and-removed")
		}
		tr := execTrace(context.Background(), s.rt, s.cm, mc.spec)
		if !mc.uncached.equal(tr) {
			return fmt.Sprintf("%s: CompileModule succeeded (entry discarded) but the trace differs from the uncached trace\n got:      %s\n uncached: %s", what, tr, mc.uncached), labels, nil
		}
		return "", labels, nil
	case !bytes.Equal(now, entry):
		return fmt.Sprintf("%s: after CompileModule the final name holds neither the faulty entry nor the reference entry (%s)", what, diffAt(now, mc.ref)), labels, nil
	}
	// CompileModule succeeded and the faulty entry is still in place.
	if f.Kind == "version" {
		return fmt.Sprintf("%s: CompileModule succeeded but the entry of the foreign version is still in place (neither replaced nor removed)", what), labels, nil
	}
	// Exemption (documented in check.json): the entry of a module WITHOUT code. The writer
	// appends the checksum also after an empty code segment, the reader does not read it there
	// and takes its first byte (0) as the source-map flag; cutting the entry anywhere behind
	// that byte removes only bytes that are never read, and there is no code to execute.
	exempt := f.Kind == "trunc" && mc.lay.ExecEnd == mc.lay.ExecStart && f.Len > mc.lay.ExecEnd
	if mc.noChild {
		if exempt { // no code: executing in this process is safe
			tr := execTrace(context.Background(), s.rt, s.cm, mc.spec)
			if !mc.uncached.equal(tr) {
				return fmt.Sprintf("%s: entry without code accepted, trace differs from the uncached trace\n got:      %s\n uncached: %s", what, tr, mc.uncached), labels, nil
			}
			return "", append(labels, "trunc:no-code-entry-tail-cut-accepted(exempt)"), nil
		}
		return fmt.Sprintf("%s: CompileModule succeeded and the faulty entry is still in place unchanged (%d bytes, complete entry %d bytes): it was accepted as a cache hit instead of being reported or discarded and replaced (module not executed)", what, len(entry), len(mc.ref)), append(labels, f.Kind+":accepted-faulty-entry"), nil
	}
	s.close()
	r, err := mc.spawn(dir, riskyTimeout)
	if err != nil {
		return "", labels, err
	}
	detail := ""
	switch {
	case r.timedOut:
		detail = fmt.Sprintf("executing the module hung (killed after %s)", riskyTimeout)
	case r.signaled || (r.out == nil && r.exit != 0):
		detail = fmt.Sprintf("a process executing the module crashed (%s)\n%s", r.status(), r.tail())
	case r.out == nil:
		return "", labels, fmt.Errorf("%s: child produced no result (%s)\n%s", what, r.status(), r.tail())
	case r.out.Panic != "":
		detail = "CompileModule panicked in a fresh process: " + r.out.Panic
	case r.out.CompileErr != "":
		detail = "a fresh process reports it: " + r.out.CompileErr
		if exempt {
			return "", append(labels, "trunc:no-code-entry-accepted-then-reported"), nil
		}
	case !mc.uncached.equal(r.out.Trace):
		detail = fmt.Sprintf("the execution trace differs from the uncached trace\n got:      %s\n uncached: %s", r.out.Trace, mc.uncached)
	default:
		if exempt {
			return "", append(labels, "trunc:no-code-entry-tail-cut-accepted(exempt)"), nil
		}
		detail = "the execution trace happens to equal the uncached trace"
	}
	labels = append(labels, f.Kind+":accepted-faulty-entry")
	return fmt.Sprintf("%s: CompileModule succeeded and the faulty entry is still in place unchanged (%d bytes, complete entry %d bytes): it was accepted as a cache hit instead of being reported or discarded and replaced; in a fresh process using it, %s", what, len(entry), len(mc.ref), detail), labels, nil
}

func (mc *modCtx) faultConcurrent(f fault) (msg string, labels []string, infra error) {
	dir := mc.newDir("conc")
	defer os.RemoveAll(dir)
	ctx := context.Background()
	// processes first: they wait at the barrier
	var kids []*child
	for i := 0; i < f.P; i++ {
		mc.seq++
		base := filepath.Join(mc.work, fmt.Sprintf("child%d", mc.seq))
		c, err := startChild(&childReq{Spec: mc.spec, Dir: dir, Out: base + ".out", Barrier: true}, base+".req", childTimeout)
		if err != nil {
			for _, k := range kids {
				k.stdin.Close()
				k.wait()
			}
			return "", nil, err
		}
		kids = append(kids, c)
	}
	for _, k := range kids {
		<-k.ready
	}
	sess := make([]*session, f.G)
	for i := range sess {
		s := &session{}
		var err error
		if s.cache, err = wazero.NewCompilationCacheWithDir(dir); err != nil {
			infra = err
		}
		if infra == nil {
			s.rt = wazero.NewRuntimeWithConfig(ctx, cachedConfig(s.cache))
		}
		sess[i] = s
	}
	defer func() {
		for _, s := range sess {
			s.close()
		}
	}()
	start := make(chan struct{})
	errs := make([]error, f.G)
	pans := make([]any, f.G)
	var wg sync.WaitGroup
	if infra == nil {
		for i := range sess {
			wg.Add(1)
			go func(i int) {
				defer wg.Done()
				<-start
				sess[i].cm, errs[i], pans[i] = safeCompile(ctx, sess[i].rt, mc.wasm)
			}(i)
		}
	}
	close(start)
	for _, k := range kids {
		k.stdin.Close()
	}
	wg.Wait()
	var results []*childRes
	for _, k := range kids {
		results = append(results, k.wait())
	}
	if infra != nil {
		return "", nil, infra
	}
	for i := range sess {
		if pans[i] != nil || errs[i] != nil {
			return fmt.Sprintf("concurrent writers (%d goroutines + %d processes): goroutine %d: CompileModule failed: err=%v panic=%v", f.G, f.P, i, errs[i], pans[i]), nil, nil
		}
	}
	for i, r := range results {
		if m, infra := mc.checkChildOK(fmt.Sprintf("concurrent writers (%d goroutines + %d processes): process %d", f.G, f.P, i), r); m != "" || infra != nil {
			return m, nil, infra
		}
	}
	st, err := readDir(dir)
	if err != nil {
		return "", nil, err
	}
	b, ok := st.Files[mc.refName]
	if !ok {
		return fmt.Sprintf("concurrent writers (%d goroutines + %d processes): no entry under the final name afterwards; directory:%s", f.G, f.P, st.describe()), nil, nil
	}
	if !bytes.Equal(b, mc.ref) {
		return fmt.Sprintf("concurrent writers (%d goroutines + %d processes): final entry differs from the reference: %s", f.G, f.P, diffAt(b, mc.ref)), nil, nil
	}
	for n := range st.Files {
		if n != mc.refName {
			if !isTempOf(n, mc.refName) {
				return fmt.Sprintf("concurrent writers: unexpected file %s in the directory (key %s)", n, mc.refName), nil, nil
			}
			labels = append(labels, "concurrent:temp-left")
		}
	}
	for i, s := range sess {
		tr := execTrace(ctx, s.rt, s.cm, mc.spec)
		if !mc.uncached.equal(tr) {
			return fmt.Sprintf("concurrent writers: goroutine %d: trace differs from the uncached trace\n got:      %s\n uncached: %s", i, tr, mc.uncached), labels, nil
		}
	}
	return "", labels, nil
}

// ---------- the enumeration for one module ----------

func crashPoints(entryLen int) []string {
	ks := []int{0, 1, entryLen / 2, entryLen - 1}
	pts := []string{"after_create"}
	seen := map[int]bool{}
	for _, k := range ks {
		if k < 0 || seen[k] {
			continue
		}
		seen[k] = true
		pts = append(pts, fmt.Sprintf("mid_copy@%d", k))
	}
	return append(pts, "after_copy", "after_sync", "after_close", "after_rename")
}

func crashLabel(p string, entryLen int) string {
	if pointName(p) != "mid_copy" {
		return "crash-point:" + p
	}
	var k int
	fmt.Sscanf(p, "mid_copy@%d", &k)
	switch k {
	case 0:
		return "crash-point:mid_copy@0"
	case 1:
		return "crash-point:mid_copy@1"
	case entryLen / 2:
		return "crash-point:mid_copy@half"
	case entryLen - 1:
		return "crash-point:mid_copy@len-1"
	}
	return "crash-point:mid_copy@other"
}

func foreignVersions(v string) []string {
	var out []string
	seen := map[string]bool{v: true}
	add := func(s string) {
		if len(s) <= 255 && !seen[s] {
			seen[s] = true
			out = append(out, s)
		}
	}
	if len(v) > 0 {
		b := []byte(v)
		b[len(b)-1] ^= 1
		add(string(b)) // same length, last byte differs
		b = []byte(v)
		b[0] ^= 1
		add(string(b)) // same length, first byte differs
		add(v[:len(v)-1])
		add(v[1:])
	}
	add("")
	add("v")
	add(v + "x")
	add(v + "xyz")
	add(v + "wxyz") // version end reaches the end of the expected header
	add(v + "vwxyz")
	add(v + strings.Repeat("a", 40))
	add(strings.Repeat("a", 255))
	return out
}

func (mc *modCtx) truncRegion(n int) string {
	switch {
	case mc.lay.HasSM && n >= mc.lay.Len-64:
		return "trunc-in:source-map-last-64-bytes"
	case n < mc.lay.HeaderEnd:
		return "trunc-in:header"
	case n < mc.lay.ExecStart:
		return "trunc-in:offset-table"
	case n < mc.lay.ExecEnd:
		return "trunc-in:code"
	}
	return "trunc-in:trailer"
}

const smallEntry = 4096

// truncLengths returns the truncation lengths for the entry: all of them for a small entry.
func (mc *modCtx) truncLengths(t *rapid.T) (lens []int, exhaustive bool) {
	n := len(mc.ref)
	if n <= smallEntry {
		for i := 0; i < n; i++ {
			lens = append(lens, i)
		}
		return lens, true
	}
	set := map[int]bool{}
	add := func(i int) {
		if i >= 0 && i < n {
			set[i] = true
		}
	}
	for i := 0; i <= mc.lay.ExecStart; i++ { // header, offset table, code length
		add(i)
	}
	for i := mc.lay.ExecEnd - 8; i <= mc.lay.SMStart+8+48; i++ { // checksum, flag, source-map length, first pairs
		add(i)
	}
	for i := n - 64; i < n; i++ { // the tail: the last fields read (end of the source map)
		add(i)
	}
	if mc.lay.ExecEnd-mc.lay.ExecStart > 2 {
		for i := 0; i < 256; i++ {
			add(rapid.IntRange(mc.lay.ExecStart+1, mc.lay.ExecEnd-1).Draw(t, "trunc-code"))
		}
	}
	if n-mc.lay.SMStart > 128 {
		for i := 0; i < 48; i++ {
			add(rapid.IntRange(mc.lay.SMStart, n-1).Draw(t, "trunc-sourcemap"))
		}
	}
	for i := range set {
		lens = append(lens, i)
	}
	sort.Ints(lens)
	return lens, false
}

func (mc *modCtx) corruptions(t *rapid.T, n int) []fault {
	var fs []fault
	lo, hi := mc.lay.ExecStart, mc.lay.ExecEnd+4 // code and its checksum
	if mc.lay.ExecEnd == mc.lay.ExecStart {
		return nil
	}
	seen := map[int]bool{}
	for i := 0; i < n; i++ {
		var off int
		if i%2 == 0 && len(mc.lay.Offsets) > 0 {
			fi := rapid.IntRange(0, len(mc.lay.Offsets)-1).Draw(t, "corrupt-func")
			off = mc.lay.ExecStart + int(mc.lay.Offsets[fi]) + rapid.IntRange(0, 24).Draw(t, "corrupt-delta")
			if off >= hi {
				off = hi - 1
			}
		} else {
			off = rapid.IntRange(lo, hi-1).Draw(t, "corrupt-off")
		}
		x := rapid.IntRange(1, 255).Draw(t, "corrupt-xor")
		if seen[off<<8|x] {
			continue
		}
		seen[off<<8|x] = true
		fs = append(fs, fault{Kind: "corrupt", Off: off, Xor: x})
	}
	return fs
}

type coverageSample struct {
	Module      string   `json:"module_sha256_prefix"`
	Funcs       int      `json:"functions"`
	WasmLen     int      `json:"wasm_bytes"`
	EntryLen    int      `json:"entry_bytes"`
	SourceMap   bool     `json:"entry_has_source_map"`
	CrashPoints []string `json:"crash_points"`
	TruncCount  int      `json:"truncation_lengths"`
	TruncAll    bool     `json:"truncation_exhaustive"`
	Versions    []string `json:"foreign_versions"`
	Corruptions int      `json:"corruptions"`
	Sequences   []string `json:"crash_sequences"`
	Concurrent  string   `json:"concurrent"`
}

func moduleLabels(s *modSpec, mc *modCtx) []string {
	l := []string{}
	add := func(c bool, n string) {
		if c {
			l = append(l, "module:"+n)
		}
	}
	add(len(s.Funcs) == 0, "no-functions")
	add(len(s.Funcs) >= 1 && len(s.Funcs) < 10, "1-9-functions")
	add(len(s.Funcs) >= 10, "10+-functions")
	add(len(s.Funcs) >= 35, "35+-functions")
	add(s.NHost > 0, "host-imports")
	add(s.Mem >= 0, "memory")
	add(s.Table >= 0, "table")
	add(len(s.Globals) > 1, "globals")
	add(len(s.Customs) > 0, "custom-sections")
	add(s.Dwarf, "dwarf")
	add(s.Names, "name-section")
	add(len(mc.ref) > smallEntry, "entry>4KiB")
	add(len(mc.ref) <= smallEntry, "entry<=4KiB")
	add(mc.lay.HasSM, "entry-with-source-map")
	traps := false
	for _, st := range mc.uncached.Steps {
		if strings.Contains(st, "trap:") {
			traps = true
		}
	}
	add(traps, "trace-with-trap")
	add(mc.uncached.HostN > 0, "trace-with-host-calls")
	return l
}

func runModule(t *rapid.T) { runSpec(t, genSpec(t)) }

// fixedSpecs are corner modules that every run covers whatever the seed draws.
func fixedSpecs() []*modSpec {
	one := funcSpec{R: []byte{tI32}, Body: []byte{0x23, 0, 0x45, 0x04, 0x40, 0x00, 0x0b, 0x23, 0, 0x41, 1, 0x6b, 0x24, 0, 0x41, 42}, Export: true}
	fuel := []globSpec{{T: tI32, Mut: true, V: fuelPerCall}}
	return []*modSpec{
		{Mem: -1, Table: -1}, // the empty module
		{Mem: -1, Table: -1, Customs: []custSpec{{Name: "x", Data: []byte{1}}}, Names: true},
		{Mem: 1, Table: 3, Data: []byte("c13"), Globals: []globSpec{{T: tI64, Mut: false, V: 7}}},
		{Mem: -1, Table: -1, NHost: 3},
		{Mem: -1, Table: -1, Globals: fuel, Funcs: []funcSpec{one}, Calls: []callSpec{{Func: 0}}},
		{Mem: 0, Table: -1, Globals: fuel, Funcs: []funcSpec{one}, Calls: []callSpec{{Func: 0}}, Dwarf: true, Names: true},
	}
}

func runSpec(t *rapid.T, spec *modSpec) {
	mc, err := newModCtx(spec)
	if err != nil {
		t.Fatalf("harness: %v", err)
	}
	defer mc.cleanup()
	nontrivial := len(spec.Funcs) >= 1 && mc.lay.ExecEnd > mc.lay.ExecStart
	do := func(f fault, lbls ...string) {
		evid.Journal(mc.rcase(f)) // a death of the shard is attributed to this case
		msg, labels, infra := mc.runFault(f)
		if infra != nil {
			t.Fatalf("harness: fault %s(%s): %v", f.Kind, f.param(), infra)
		}
		if msg != "" {
			evid.Fail(t, mc.rcase(f), "module %s (%d functions, entry %d bytes): %s", mc.wasmID, len(spec.Funcs), len(mc.ref), msg)
		}
		evid.Case(evid.Hash64(mc.wasmID, f.Kind, f.param()), nontrivial, append(append(lbls, "fault:"+f.Kind), labels...)...)
	}
	cov := coverageSample{Module: mc.wasmID, Funcs: len(spec.Funcs), WasmLen: len(mc.wasm), EntryLen: len(mc.ref), SourceMap: mc.lay.HasSM}

	do(fault{Kind: "determinism"})
	for _, p := range crashPoints(len(mc.ref)) {
		do(fault{Kind: "crash", Point: p}, crashLabel(p, len(mc.ref)))
		cov.CrashPoints = append(cov.CrashPoints, p)
	}
	lens, all := mc.truncLengths(t)
	for _, n := range lens {
		do(fault{Kind: "trunc", Len: n}, mc.truncRegion(n))
	}
	cov.TruncCount, cov.TruncAll = len(lens), all
	for _, v := range foreignVersions(mc.lay.Version) {
		lbl := "version:same-length"
		if len(v) < mc.lay.VerLen {
			lbl = "version:shorter"
		} else if len(v) > mc.lay.VerLen {
			lbl = "version:longer"
		}
		do(fault{Kind: "version", Version: v}, lbl)
		cov.Versions = append(cov.Versions, v)
	}
	cs := mc.corruptions(t, 48)
	for _, f := range cs {
		do(f)
	}
	cov.Corruptions = len(cs)
	pts := crashPoints(len(mc.ref))
	for i := 0; i < 2; i++ {
		sf := fault{Kind: "sequence", Stale: rapid.Bool().Draw(t, "seq-stale")}
		if sf.Stale {
			sf.Version = rapid.SampledFrom(foreignVersions(mc.lay.Version)).Draw(t, "seq-version")
		}
		n := rapid.IntRange(2, 3).Draw(t, "seq-len")
		for j := 0; j < n; j++ {
			sf.Points = append(sf.Points, rapid.SampledFrom(pts).Draw(t, "seq-point"))
		}
		do(sf)
		cov.Sequences = append(cov.Sequences, sf.param())
	}
	for _, k := range []int{0, 1, len(mc.ref) / 2, len(mc.ref) - 1} {
		do(fault{Kind: "wfail", Len: k})
	}
	do(fault{Kind: "paused"})
	g, p := rapid.IntRange(2, 8).Draw(t, "goroutines"), rapid.IntRange(2, 4).Draw(t, "processes")
	do(fault{Kind: "concurrent", G: g, P: p})
	cov.Concurrent = fmt.Sprintf("%d goroutines + %d processes", g, p)

	for _, l := range moduleLabels(spec, mc) {
		evid.Label(l, 1)
	}
	evid.Label("modules", 1)
	if nontrivial {
		evid.Sample("module-x-faults", 2, cov)
	} else {
		evid.Sample("module-x-faults (no code)", 1, cov)
	}
}

func TestCache(t *testing.T) {
	if evid.ReplayPath() != "" || os.Getenv("C13_REQ") != "" {
		t.Skip()
	}
	evid.Check(t, "fixed-modules", 1, func(t *rapid.T) {
		for i, spec := range fixedSpecs() {
			if evid.Mine(i) {
				evid.Label("fixed-modules", 1)
				runSpec(t, spec)
			}
		}
	})
	evid.Check(t, "cache-faults", evid.Scale(20, 200), runModule)
	if sh, _ := evid.Shard(); sh != 0 {
		return
	}
	evid.Note("crash points are enumerated completely per module (after_create, mid_copy@{0,1,len/2,len-1}, after_copy, after_sync, after_close, after_rename); truncation is complete (every length 0..len-1) for entries <= %d bytes, otherwise complete over header/offset table/checksum/trailer plus drawn lengths in the code body and source map; modules, corrupted bytes and writer counts are sampled", smallEntry)
}

func TestReplay(t *testing.T) {
	p := evid.ReplayPath()
	if p == "" || os.Getenv("C13_REQ") != "" {
		t.Skip()
	}
	var c struct {
		Mod   *modSpec   `json:"module"`
		Fault fault      `json:"fault"`
		Multi *multiCase `json:"multi"`
	}
	if _, err := evid.LoadReplay(p, &c); err != nil {
		t.Fatal(err)
	}
	if c.Fault.Kind == "multi" && c.Multi != nil {
		// schedule-dependent: repeat for more rounds than the search did
		msg, infra := runMulti(c.Multi, 10*c.Multi.Rounds)
		if infra != nil {
			t.Fatalf("harness: %v", infra)
		}
		if msg != "" {
			evid.Violation("replay", map[string]any{"fault": map[string]any{"kind": "multi"}, "multi": c.Multi}, "%s", msg)
			t.Fatal(msg)
		}
		return
	}
	if c.Mod == nil {
		t.Fatal("replay file has no module")
	}
	mc, err := newModCtx(c.Mod)
	if err != nil {
		t.Fatalf("harness: %v", err)
	}
	defer mc.cleanup()
	msg, _, infra := mc.runFault(c.Fault)
	if infra != nil {
		t.Fatalf("harness: %v", infra)
	}
	if msg != "" {
		evid.Violation("replay", mc.rcase(c.Fault), "%s", msg)
		t.Fatal(msg)
	}
}
