package c13

import (
	"flag"
	"fmt"
	"os"
	"testing"

	"pgregory.net/rapid"
)

func TestBenchTmp(t *testing.T) {
	if os.Getenv("C13_BENCH") == "" {
		t.Skip()
	}
	flag.Set("rapid.nofailfile", "true")
	rapid.Check(t, func(rt *rapid.T) {
		spec := genSpec(rt)
		mc, err := newModCtx(spec)
		if err != nil {
			rt.Fatalf("%v", err)
		}
		defer mc.cleanup()
		fmt.Printf("funcs=%d wasm=%d entry=%d inst=%s hostN=%d mem=%s\n", len(spec.Funcs), len(mc.wasm), len(mc.ref), mc.uncached.Inst, mc.uncached.HostN, mc.uncached.Mem)
		for _, s := range mc.uncached.Steps {
			if len(s) > 150 {
				s = s[:150]
			}
			fmt.Println("    ", s)
		}
	})
}
