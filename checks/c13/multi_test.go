package c13

// Concurrent writers of DIFFERENT keys. Goroutines of one process (runtimes sharing one cache
// handle, or separate handles on one directory) compile distinct modules at the same time.
// Oracle: afterwards every key holds exactly the entry that a lone sequential compilation of
// its module produces (byte identity: this also covers "entry of another module under this
// key" and mixed/cut-off entries without executing anything); then a fresh cache object on the
// directory loads every module (cache hit path), CompileModule must succeed and the trace must
// equal the uncached trace. Each module of a family returns its own constants, so behaviour
// identifies the module; code sizes vary widely so that buffers are reused across sizes.

import (
	"bytes"
	"context"
	"encoding/json"
	"fmt"
	"os"
	"path/filepath"
	"sync"
	"testing"

	"github.com/tetratelabs/wazero"
	"pgregory.net/rapid"

	"verif/internal/evid"
	"verif/internal/wasmenc"
)

// multiCase is the replayable description of one distinct-writers case.
type multiCase struct {
	N      int    `json:"n"`      // modules = goroutines
	Base   uint32 `json:"base"`   // module i returns Base+i (and adds it to its argument)
	Sizes  []int  `json:"sizes"`  // per module: number of padding functions
	Pads   []int  `json:"pads"`   // per module: padding instructions per function
	Rounds int    `json:"rounds"` // rounds with a fresh directory each
}

// familySpec builds module i of the family.
func familySpec(c *multiCase, i int) *modSpec {
	k := int32(c.Base + uint32(i))
	pad := func(b *wasmenc.B, n int) *wasmenc.B {
		for j := 0; j < n; j++ {
			b.I32Const(k + int32(j)).I32Const(int32(j)).Raw(wasmenc.OpI32Xor).Drop()
		}
		return b
	}
	s := &modSpec{Mem: -1, Table: -1, Globals: []globSpec{{T: tI32, Mut: true, V: fuelPerCall}}}
	s.Funcs = append(s.Funcs,
		funcSpec{R: []byte{tI32}, Body: pad(wasmenc.NewB(), c.Pads[i]).I32Const(k).Bytes(), Export: true},
		funcSpec{P: []byte{tI32}, R: []byte{tI32}, Body: wasmenc.NewB().LocalGet(0).I32Const(k).Raw(wasmenc.OpI32Add).Bytes(), Export: true})
	for j := 0; j < c.Sizes[i]; j++ {
		s.Funcs = append(s.Funcs, funcSpec{R: []byte{tI32}, Body: pad(wasmenc.NewB(), c.Pads[i]).I32Const(k + int32(j)).Bytes()})
	}
	s.Calls = []callSpec{{Func: 0}, {Func: 1, Args: []uint64{1000}}}
	return s
}

// runMulti executes the case; rounds overrides c.Rounds when > 0.
func runMulti(c *multiCase, rounds int) (msg string, infra error) {
	if c.N < 2 || len(c.Sizes) < c.N || len(c.Pads) < c.N {
		return "", fmt.Errorf("malformed distinct-writers case")
	}
	if rounds <= 0 {
		rounds = c.Rounds
	}
	ctx := context.Background()
	mcs := make([]*modCtx, c.N)
	defer func() {
		for _, mc := range mcs {
			if mc != nil {
				mc.cleanup()
			}
		}
	}()
	byName := map[string]int{}
	for i := range mcs {
		mc, err := newModCtx(familySpec(c, i)) // lone sequential compilation: uncached trace + reference entry
		if err != nil {
			return "", err
		}
		mcs[i] = mc
		if j, dup := byName[mc.refName]; dup {
			return "", fmt.Errorf("modules %d and %d of the family have the same key", i, j)
		}
		byName[mc.refName] = i
	}
	base := filepath.Join(evid.WorkDir(), fmt.Sprintf("multi-%d", os.Getpid()))
	defer os.RemoveAll(base)
	for round := 0; round < rounds; round++ {
		dir := filepath.Join(base, fmt.Sprintf("r%d", round))
		shared := round%2 == 0
		errs := make([]error, c.N)
		pans := make([]any, c.N)
		start := make(chan struct{})
		var wg sync.WaitGroup
		var infraMu sync.Mutex
		var infraErr error
		if shared {
			// runtimes sharing one cache handle, one module each
			cc, err := wazero.NewCompilationCacheWithDir(dir)
			if err != nil {
				return "", err
			}
			rts := make([]wazero.Runtime, c.N)
			for i := range rts {
				rts[i] = wazero.NewRuntimeWithConfig(ctx, cachedConfig(cc))
				wg.Add(1)
				go func(i int) {
					defer wg.Done()
					<-start
					_, errs[i], pans[i] = safeCompile(ctx, rts[i], mcs[i].wasm)
				}(i)
			}
			close(start)
			wg.Wait()
			for _, rt := range rts {
				rt.Close(ctx)
			}
			cc.Close(ctx)
		} else {
			// users that open the directory themselves: each goroutine opens a cache object and
			// compiles a module, twice (modules 2g and 2g+1), so that directories are opened while
			// other users are in the middle of adding entries
			for g := 0; g < (c.N+1)/2; g++ {
				wg.Add(1)
				go func(g int) {
					defer wg.Done()
					<-start
					for i := 2 * g; i < 2*g+2 && i < c.N; i++ {
						cc, err := wazero.NewCompilationCacheWithDir(dir)
						if err != nil {
							infraMu.Lock()
							infraErr = err
							infraMu.Unlock()
							return
						}
						rt := wazero.NewRuntimeWithConfig(ctx, cachedConfig(cc))
						_, errs[i], pans[i] = safeCompile(ctx, rt, mcs[i].wasm)
						rt.Close(ctx)
						cc.Close(ctx)
					}
				}(g)
			}
			close(start)
			wg.Wait()
			if infraErr != nil {
				return "", infraErr
			}
		}
		how := "users opening their own cache object on one directory, two modules each"
		if shared {
			how = "runtimes sharing one cache handle"
		}
		what := fmt.Sprintf("%d different modules compiled concurrently (%s), round %d", c.N, how, round)
		for i := range errs {
			if errs[i] != nil || pans[i] != nil {
				return fmt.Sprintf("%s: module %d: CompileModule failed: err=%v panic=%v", what, i, errs[i], pans[i]), nil
			}
		}
		st, err := readDir(dir)
		if err != nil {
			return "", err
		}
		for i, mc := range mcs {
			b, ok := st.Files[mc.refName]
			if !ok {
				return fmt.Sprintf("%s: no entry under the key of module %d afterwards", what, i), nil
			}
			if !bytes.Equal(b, mc.ref) {
				whose := "not the entry of any module of the family (mixed or cut off)"
				for j, o := range mcs {
					if bytes.Equal(b, o.ref) {
						whose = fmt.Sprintf("the complete entry of module %d (a later process would run module %d's code for module %d)", j, j, i)
					}
				}
				return fmt.Sprintf("%s: the entry stored under the key of module %d (%d functions, reference entry %d bytes) differs from the entry of a lone compilation of that module: %s; it is %s", what, i, len(mc.spec.Funcs), len(mc.ref), diffAt(b, mc.ref), whose), nil
			}
		}
		for n := range st.Files {
			if _, ok := byName[n]; !ok {
				owner := -1
				for i, mc := range mcs {
					if isTempOf(n, mc.refName) {
						owner = i
					}
				}
				if owner < 0 {
					return fmt.Sprintf("%s: unexpected file %s in the directory", what, n), nil
				}
			}
		}
		// a fresh cache object loads every module (entries are known to be the reference bytes)
		for i, mc := range mcs {
			if m, infra := mc.useDir(fmt.Sprintf("%s: fresh cache object loading module %d", what, i), dir); m != "" || infra != nil {
				return m, infra
			}
		}
		os.RemoveAll(dir)
	}
	return "", nil
}

func genMulti(t *rapid.T) *multiCase {
	c := &multiCase{N: rapid.IntRange(32, 64).Draw(t, "modules"), Base: uint32(rapid.IntRange(1, 1<<20).Draw(t, "base")), Rounds: 3}
	for i := 0; i < c.N; i++ {
		c.Sizes = append(c.Sizes, rapid.SampledFrom([]int{0, 0, 1, 2, 4, 8, 20}).Draw(t, "size"))
		c.Pads = append(c.Pads, rapid.SampledFrom([]int{0, 1, 4, 16, 60}).Draw(t, "pad"))
	}
	return c
}

// TestConcurrentDistinct: see the comment at the top of this file. Also run under -race
// (check.json race_run): sharing a serialisation buffer between writers is a data race.
func TestConcurrentDistinct(t *testing.T) {
	if evid.ReplayPath() != "" || os.Getenv("C13_REQ") != "" {
		t.Skip()
	}
	evid.Check(t, "distinct-writers", evid.Scale(4, 48), func(t *rapid.T) {
		c := genMulti(t)
		cj, _ := json.Marshal(c)
		rc := map[string]any{"fault": map[string]any{"kind": "multi"}, "multi": json.RawMessage(cj)}
		evid.Journal(rc)
		msg, infra := runMulti(c, 0)
		if infra != nil {
			t.Fatalf("harness: %v", infra)
		}
		if msg != "" {
			evid.Fail(t, rc, "%s (schedule-dependent: the replay repeats the case for more rounds)", msg)
		}
		for r := 0; r < c.Rounds; r++ {
			for i := 0; i < c.N; i++ {
				evid.Case(evid.Hash64("multi", c.Base, i, c.Sizes[i], c.Pads[i], r), true, "fault:distinct-writers")
			}
		}
		evid.Label("distinct-writers:cases", 1)
		evid.Sample("distinct-writers", 1, c)
	})
}
