// C10 — module lifecycle and name registry are linearizable.
//
// Part 1 (this file): sequential histories. A rapid-generated operation program over the
// names {"a","b","" (anonymous)} and two binaries (one with a name section "a", one
// without) is executed step by step on a real runtime and compared, after every step, with
// a sequential registry model: name -> open instance, anonymous open instances,
// runtime-closed flag. Every instantiation carries its own experimental.CloseNotifier and
// experimental.MemoryAllocator, so that "closed exactly once / released exactly once" is a
// counter comparison after every step and at quiescence.
//
// Part 2 (conc_test.go): concurrent programs, recorded histories checked with porcupine.
package c10

import (
	"context"
	"errors"
	"fmt"
	"io/fs"
	"os"
	"runtime"
	"runtime/debug"
	"sort"
	"strings"
	"sync"
	"sync/atomic"
	"testing"
	"time"

	"github.com/tetratelabs/wazero"
	"github.com/tetratelabs/wazero/api"
	"github.com/tetratelabs/wazero/experimental"
	experimentalsys "github.com/tetratelabs/wazero/experimental/sys"
	"github.com/tetratelabs/wazero/experimental/sysfs"
	"github.com/tetratelabs/wazero/imports/wasi_snapshot_preview1"
	"github.com/tetratelabs/wazero/sys"
	"pgregory.net/rapid"

	"verif/internal/evid"
	"verif/internal/wasmenc"
	"verif/internal/wz"
)

func TestMain(m *testing.M) {
	if os.Getenv("VERIF_C10_CHILD") != "" {
		// race-probe child process: no evidence file, plain run of the selected test.
		os.Unsetenv("VERIF_SHARD_OUT")
	}
	// the programs allocate many short-lived runtimes; fewer collections keep the Go runtime's
	// background sweeper from dominating the CPU time of a shard
	debug.SetGCPercent(400)
	evid.Main(m, "C10")
}

// ---------------------------------------------------------------------------------------
// guest binaries
// ---------------------------------------------------------------------------------------

const sectionName = "a" // module name in the name section of binary 0

// guestBinary builds: memory (0..1 pages), func f: () -> i32 (const result), export "f",
// extra params on a second function so that variants have distinct function types.
//
// salt > 0 adds a custom section so that the bytes (and with them the module ID under which
// the engine caches compiled code) differ from every other binary of the run: closing a
// CompiledModule removes the engine's cache entry of that ID, which would otherwise
// invalidate a second CompiledModule made from identical bytes (observed; outside C10).
//
// Every binary imports four functions of the host module "env" (instantiated in every runtime
// under test) and exports one candidate start function per startSpec entry plus "wait" (calls
// env.block). defStart != "" additionally exports that start function under the default start
// name "_start".
func guestBinary(named bool, variant, salt int, defStart string) []byte {
	m := &wasmenc.Module{Mems: [][]byte{wasmenc.Limits(1, 1, false)}}
	if salt > 0 {
		m.Customs = []wasmenc.Custom{{Name: "salt", Data: []byte(fmt.Sprint(salt))}}
	}
	imp := map[string]uint32{
		"close_self": m.ImportFunc("env", "close_self", []byte{wasmenc.I32}, nil),
		"exit_only":  m.ImportFunc("env", "exit_only", []byte{wasmenc.I32}, nil),
		"kill_b":     m.ImportFunc("env", "kill_b", []byte{wasmenc.I32}, nil),
	}
	block := m.ImportFunc("env", "block", nil, nil)
	i32, i64 := wasmenc.I32, wasmenc.I64
	pathOpen := m.ImportFunc("wasi_snapshot_preview1", "path_open", []byte{i32, i32, i32, i32, i32, i64, i64, i32, i32}, []byte{i32})
	res := int32(42)
	if variant > 0 {
		res = int32(1000 + variant)
	}
	f := m.AddFunc(nil, []byte{wasmenc.I32}, nil, wasmenc.NewB().I32Const(res).Bytes())
	m.ExportFunc("f", f)
	m.ExportFunc("wait", m.AddFunc(nil, nil, nil, wasmenc.NewB().Call(block).Bytes()))
	// open(k): path_open(preopen fd 3, path "f<k>") -> errno; the names sit at k*8 in the data segment
	var names []byte
	for k := 0; k < numFiles; k++ {
		names = append(names, 'f', byte('0'+k), 0, 0, 0, 0, 0, 0)
	}
	m.Datas = [][]byte{wasmenc.ActiveData(0, names)}
	m.ExportFunc("open", m.AddFunc([]byte{i32}, []byte{i32}, nil, wasmenc.NewB().
		I32Const(3).I32Const(0).LocalGet(0).I32Const(8).Raw(wasmenc.OpI32Mul).I32Const(2).
		I32Const(0).I64Const(0).I64Const(0).I32Const(0).I32Const(1024).Call(pathOpen).Bytes()))
	for _, name := range startNames {
		sp := startSpec[name]
		var body []byte
		switch sp.kind {
		case stOK:
			body = wasmenc.NewB().Nop().Bytes()
		case stTrap:
			body = wasmenc.NewB().Unreachable().Bytes()
		default:
			body = wasmenc.NewB().I32Const(int32(sp.code)).Call(imp[sp.kind]).Bytes()
		}
		fi := m.AddFunc(nil, nil, nil, body)
		m.ExportFunc(name, fi)
		if name == defStart {
			m.ExportFunc("_start", fi)
		}
	}
	if variant > 0 {
		var p []byte
		for i := 0; i < variant%5; i++ {
			p = append(p, wasmenc.I64)
		}
		p = append(p, wasmenc.F32)
		m.AddFunc(p, []byte{wasmenc.I32}, nil, wasmenc.NewB().I32Const(res).Bytes())
	}
	if named {
		m.ModuleName = sectionName
	}
	return m.Encode()
}

var (
	binNamed = guestBinary(true, 0, 0, "")
	binPlain = guestBinary(false, 0, 0, "")
)

// numFiles: files f0..f4 of the per-instance file system; file object index 0 is the mount's
// root directory (opened lazily by the first path_open), 1+k is f<k>.
const numFiles = 5

// start functions: how a start function (ModuleConfig.WithStartFunctions, or "_start" by
// default) ends.
const (
	stOK      = "ok"         // returns
	stTrap    = "trap"       // unreachable
	stSelf    = "close_self" // proc_exit-like: the host import closes the calling module with the code, then panics with sys.ExitError
	stForeign = "exit_only"  // the host import panics with sys.ExitError(code) and closes nothing
	stKillB   = "kill_b"     // the host import closes the module registered as "b" (if any) with the code, then panics with sys.ExitError
)

type startKind struct {
	kind string
	code uint32
}

var startSpec = map[string]startKind{
	"s_ok": {stOK, 0}, "s_trap": {stTrap, 0},
	"s_self0": {stSelf, 0}, "s_self3": {stSelf, 3},
	"s_foreign0": {stForeign, 0}, "s_foreign5": {stForeign, 5},
	"s_killb0": {stKillB, 0}, "s_killb4": {stKillB, 4},
}

var startNames = []string{"s_ok", "s_trap", "s_self0", "s_self3", "s_foreign0", "s_foreign5", "s_killb0", "s_killb4"}

// context-done closes (kCallCtx, Op.Var): how the context of a call of export "wait" ends.
const (
	ctxCancelInFlight  = 0 // cancelled while the guest is inside the host function
	ctxTimeoutInFlight = 1 // the deadline passes while the guest is inside the host function
	ctxCancelledBefore = 2 // already cancelled when Call is invoked
	ctxExpiredBefore   = 3 // deadline already passed when Call is invoked
)

func ctxCode(v int) uint32 {
	if v == ctxTimeoutInFlight || v == ctxExpiredBefore {
		return sys.ExitCodeDeadlineExceeded
	}
	return sys.ExitCodeContextCanceled
}

func binOf(i int) []byte {
	if i == 0 {
		return binNamed
	}
	return binPlain
}

// ---------------------------------------------------------------------------------------
// operations
// ---------------------------------------------------------------------------------------

// Op is one operation of a program. Handle operations name the *slot* of an earlier
// operation (index into the program's global operation numbering) whose result was an
// api.Module: inst, hostinst and lookup fill their slot.
type Op struct {
	K        string `json:"k"`
	Name     string `json:"name,omitempty"`     // inst (with Set), lookup, hostinst, hostcompile
	Set      bool   `json:"set,omitempty"`      // inst: ModuleConfig.WithName(Name) is applied
	Bin      int    `json:"bin,omitempty"`      // inst: 0 = binary with name section "a", 1 = without
	FromBin  bool   `json:"frombin,omitempty"`  // inst through Runtime.InstantiateWithConfig(bytes)
	H        int    `json:"h,omitempty"`        // close, closec, isclosed, call: slot
	Code     uint32 `json:"code,omitempty"`     // closec, rtclosec
	Var      int    `json:"var,omitempty"`      // compile: binary variant (>0)
	Start    string `json:"start,omitempty"`    // inst: name of the start function (startSpec); "" = none
	DefStart bool   `json:"defstart,omitempty"` // inst+frombin+start: exported as "_start", ModuleConfig start functions left at the default
	N        int    `json:"n,omitempty"`        // open: how many times the file is opened (each time a new descriptor); 0 = once
	Bad      int    `json:"bad,omitempty"`      // inst: bit i set = file objects of index i (0 root dir, 1+k = f<k>) fail on Close with EIO
	Hold     bool   `json:"hold,omitempty"`     // callctx in flight: the guest stays parked in the host function until a later "release" of this operation
	NoNotif  bool   `json:"nonotif,omitempty"`  // inst/hostinst: no CloseNotifier in the context
	Y        int    `json:"y,omitempty"`        // concurrent: yield spec before the operation
	Sync     int    `json:"sync,omitempty"`     // concurrent: rendezvous number (0 none)
	ND       int    `json:"nd,omitempty"`       // inst/hostinst: delay spec inside the close notifier
}

const (
	kInst        = "inst"
	kLookup      = "lookup"
	kClose       = "close"
	kCloseC      = "closec"
	kIsClosed    = "isclosed"
	kCall        = "call"
	kCompile     = "compile"
	kHostInst    = "hostinst"
	kHostCompile = "hostcompile"
	kRtClose     = "rtclose"
	kRtCloseC    = "rtclosec"
	kCallCtx     = "callctx" // call export "wait" with a context that ends (Var: how); needs WithCloseOnContextDone
	kOpen        = "open"    // the guest of slot H opens file f<Var> of its file system through WASI path_open
	kRelease     = "release" // let the guest parked by callctx operation H return and collect the result of its call
)

func (o Op) String() string {
	switch o.K {
	case kInst:
		n := "name-section"
		if o.Bin == 1 {
			n = "no-name-section"
		}
		cfg := "default name"
		if o.Set {
			cfg = fmt.Sprintf("WithName(%q)", o.Name)
		}
		via := "InstantiateModule"
		if o.FromBin {
			via = "InstantiateWithConfig"
		}
		st := ""
		if o.Start != "" {
			sp := startSpec[o.Start]
			st = fmt.Sprintf(" start:%s(%d)", sp.kind, sp.code)
			if o.DefStart && o.FromBin {
				st += " as _start"
			}
		}
		if o.Bad != 0 {
			st += fmt.Sprintf(" files-failing-on-close:%06b", o.Bad)
		}
		return fmt.Sprintf("%s(bin:%s, %s%s) [effective name %q]", via, n, cfg, st, o.effName())
	case kLookup:
		return fmt.Sprintf("Runtime.Module(%q)", o.Name)
	case kClose:
		return fmt.Sprintf("slot%d.Close()", o.H)
	case kCloseC:
		return fmt.Sprintf("slot%d.CloseWithExitCode(%d)", o.H, o.Code)
	case kIsClosed:
		return fmt.Sprintf("slot%d.IsClosed()", o.H)
	case kCall:
		return fmt.Sprintf("slot%d.ExportedFunction(f).Call()", o.H)
	case kCallCtx:
		how := []string{"cancelled in flight", "deadline exceeded in flight", "already cancelled", "already expired"}[o.Var&3]
		hold := ""
		if o.Hold && o.Var&3 < 2 {
			hold = ", guest stays parked in the host function"
		}
		return fmt.Sprintf("slot%d.ExportedFunction(wait).Call(ctx %s%s)", o.H, how, hold)
	case kRelease:
		return fmt.Sprintf("release the guest parked by #%d and collect its call", o.H)
	case kOpen:
		return fmt.Sprintf("slot%d guest: %d x path_open(f%d)", o.H, max(1, o.N), o.Var%numFiles)
	case kCompile:
		return fmt.Sprintf("Runtime.CompileModule(variant %d)", o.Var)
	case kHostInst:
		return fmt.Sprintf("NewHostModuleBuilder(%q)...Instantiate()", o.Name)
	case kHostCompile:
		return fmt.Sprintf("NewHostModuleBuilder(%q)...Compile()", o.Name)
	case kRtClose:
		return "Runtime.Close()"
	case kRtCloseC:
		return fmt.Sprintf("Runtime.CloseWithExitCode(%d)", o.Code)
	}
	return o.K
}

// effName is the name the documentation assigns to the instance: ModuleConfig.WithName
// wins (the empty string makes it anonymous), else the name section's module name, else "".
func (o Op) effName() string {
	switch o.K {
	case kHostInst, kHostCompile:
		return o.Name
	case kInst:
		if o.Set {
			return o.Name
		}
		if o.Bin == 0 {
			return sectionName
		}
	}
	return ""
}

func (o Op) closeCode() uint32 {
	if o.K == kCloseC || o.K == kRtCloseC {
		return o.Code
	}
	return 0
}

// Res is the observable result of one operation.
type Res struct {
	Skip   bool   `json:"skip,omitempty"`             // handle slot empty (or call on a host module): nothing was executed
	Err    string `json:"err,omitempty"`              // first line of the returned error
	Panic  string `json:"panic,omitempty"`            // a panic escaped the API call
	Inst   int    `json:"inst"`                       // inst/hostinst ok: own id; lookup: id of the returned module, -1 = nil; -2 = unknown module
	Closed bool   `json:"closed,omitempty"`           // isclosed; callctx: IsClosed() observed true
	Reg    bool   `json:"still_registered,omitempty"` // callctx: Runtime.Module(name) still returned the instance after IsClosed() was observed true
	Kind   string `json:"kind,omitempty"`             // call: wz outcome kind
	Exit   uint32 `json:"exit,omitempty"`             // call: exit code of the sys.ExitError
	Val    uint64 `json:"val,omitempty"`              // call: result
}

func (r Res) String() string {
	switch {
	case r.Skip:
		return "skipped"
	case r.Panic != "":
		return "PANIC " + r.Panic
	case r.Err != "":
		return "error: " + r.Err
	}
	reg := ""
	if r.Reg {
		reg = " STILL-REGISTERED"
	}
	return fmt.Sprintf("ok{inst:%d closed:%v kind:%s exit:%d val:%d%s}", r.Inst, r.Closed, r.Kind, r.Exit, r.Val, reg)
}

// ---------------------------------------------------------------------------------------
// real execution
// ---------------------------------------------------------------------------------------

// attempt is the bookkeeping of one instantiation attempt (one per inst/hostinst op).
type attempt struct {
	op      int // global op index = instance id
	host    bool
	hasNote bool
	delay   int
	mod     atomic.Value // modBox, set when the instantiation returned a module
	notes   atomic.Int32 // CloseNotify calls
	code    atomic.Uint32
	allocs  atomic.Int32
	frees   atomic.Int32
	bad     int // bit i: file objects of index i fail on Close with EIO
	fmu     sync.Mutex
	files   []*countFile // every file object the instance's file system handed out
}

// countFS is the file system mounted at "/" of one instance: its files count Close calls.
type countFS struct {
	experimentalsys.UnimplementedFS
	a *attempt
}

func (c *countFS) OpenFile(path string, _ experimentalsys.Oflag, _ fs.FileMode) (experimentalsys.File, experimentalsys.Errno) {
	k := -1
	if path == "." || path == "" || path == "/" {
		k = 0
	} else if len(path) == 2 && path[0] == 'f' && path[1] >= '0' && path[1] < '0'+numFiles {
		k = 1 + int(path[1]-'0')
	}
	if k < 0 {
		return nil, experimentalsys.ENOENT
	}
	f := &countFile{k: k, dir: k == 0}
	if c.a.bad&(1<<k) != 0 {
		f.closeErr = experimentalsys.EIO
	}
	c.a.fmu.Lock()
	c.a.files = append(c.a.files, f)
	c.a.fmu.Unlock()
	return f, 0
}

type countFile struct {
	experimentalsys.UnimplementedFile
	k        int
	dir      bool
	closeErr experimentalsys.Errno
	closes   atomic.Int32
}

func (f *countFile) IsDir() (bool, experimentalsys.Errno) { return f.dir, 0 }
func (f *countFile) Close() experimentalsys.Errno {
	f.closes.Add(1)
	return f.closeErr
}

// fileCloses returns the Close count of every file object handed out so far.
func (a *attempt) fileCloses() []int32 {
	a.fmu.Lock()
	defer a.fmu.Unlock()
	r := make([]int32, len(a.files))
	for i, f := range a.files {
		r[i] = f.closes.Load()
	}
	return r
}

type modBox struct{ m api.Module }

func (a *attempt) CloseNotify(_ context.Context, exitCode uint32) {
	delay(a.delay)
	a.code.Store(exitCode)
	a.notes.Add(1)
}

func (a *attempt) Allocate(_, _ uint64) experimental.LinearMemory {
	a.allocs.Add(1)
	return &linMem{a: a}
}

type linMem struct {
	a      *attempt
	buf    []byte
	pooled *[]byte
}

// pagePool recycles the one-page buffers of the guests' memories (they dominate the garbage
// collector's work otherwise). A buffer goes back only on the first Free of its memory.
var pagePool = sync.Pool{New: func() any { b := make([]byte, 65536); return &b }}

func (l *linMem) Reallocate(size uint64) []byte {
	if uint64(cap(l.buf)) < size {
		var nb []byte
		if size <= 65536 && l.pooled == nil {
			l.pooled = pagePool.Get().(*[]byte)
			nb = (*l.pooled)[:size]
			clear(nb)
		} else {
			nb = make([]byte, size)
		}
		copy(nb, l.buf)
		l.buf = nb
	}
	l.buf = l.buf[:size]
	return l.buf
}

func (l *linMem) Free() {
	if l.a.frees.Add(1) == 1 && l.pooled != nil {
		pagePool.Put(l.pooled)
	}
}

var spinSink atomic.Uint64

// delay implements a drawn yield point: 0 none, 1..3 that many Gosched, >=4 a short spin.
func delay(spec int) {
	switch {
	case spec <= 0:
	case spec <= 3:
		for i := 0; i < spec; i++ {
			runtime.Gosched()
		}
	default:
		n := uint64(spec) * 40
		var x uint64
		for i := uint64(0); i < n; i++ {
			x += i * i
		}
		spinSink.Add(x)
	}
}

// env is a live runtime under test plus the bookkeeping needed to interpret results.
type env struct {
	ctx      context.Context
	engine   string
	rt       wazero.Runtime
	compiled [2]wazero.CompiledModule
	cod      bool                // RuntimeConfig.WithCloseOnContextDone(true)
	parked   map[int]*parkedCall // by op index of the callctx operation (guarded by mu)
	mu       sync.Mutex
	attempts map[int]*attempt
	slots    []atomic.Value // modBox per op index
}

type parkKey struct{}

// ctlCtx is a context whose end the harness triggers (cancellation or deadline) once the guest
// is parked, so that "the context ended while the call was in flight" does not depend on timing.
type ctlCtx struct {
	context.Context
	done chan struct{}
	mu   sync.Mutex
	err  error
}

func newCtlCtx(parent context.Context) *ctlCtx {
	return &ctlCtx{Context: parent, done: make(chan struct{})}
}
func (c *ctlCtx) Done() <-chan struct{} { return c.done }
func (c *ctlCtx) Err() error {
	c.mu.Lock()
	defer c.mu.Unlock()
	return c.err
}
func (c *ctlCtx) end(err error) {
	c.mu.Lock()
	defer c.mu.Unlock()
	if c.err == nil {
		c.err = err
		close(c.done)
	}
}

// pollPause: yield for the first polls, then sleep briefly (no busy spinning under load).
func pollPause(i int) {
	if i < 50 {
		runtime.Gosched()
	} else {
		time.Sleep(20 * time.Microsecond)
	}
}

// park is handed to the host function env.block through the call context.
type park struct {
	entered chan struct{}
	release chan struct{}
}

// parkedCall is a call of export "wait" whose guest is still inside env.block.
type parkedCall struct {
	p    *park
	done chan wz.Outcome
}

const (
	closedWait   = 10 * time.Second       // bound for IsClosed()==true after the context ended (the runtime's watcher goroutine needs scheduling)
	unlinkRetry  = 500 * time.Millisecond // the watcher sets the closed word, then unlinks: bounded retry for the lookup, never "until the guest is released"
	releaseBound = 20 * time.Second
)

func newEnv(engine string, nops int, closeOnDone bool) (*env, error) {
	ctx := context.Background()
	e := &env{ctx: ctx, engine: engine, cod: closeOnDone, parked: map[int]*parkedCall{}, attempts: map[int]*attempt{}, slots: make([]atomic.Value, nops)}
	e.rt = wazero.NewRuntimeWithConfig(ctx, wz.Config(engine).WithCloseOnContextDone(closeOnDone))
	rt := e.rt
	_, err := rt.NewHostModuleBuilder("env").
		NewFunctionBuilder().WithFunc(func(ctx context.Context, mod api.Module, code uint32) {
		_ = mod.CloseWithExitCode(ctx, code)
		panic(sys.NewExitError(code))
	}).Export("close_self").
		NewFunctionBuilder().WithFunc(func(ctx context.Context, mod api.Module, code uint32) {
		panic(sys.NewExitError(code))
	}).Export("exit_only").
		NewFunctionBuilder().WithFunc(func(ctx context.Context, mod api.Module, code uint32) {
		if b := rt.Module("b"); b != nil {
			_ = b.CloseWithExitCode(ctx, code)
		}
		panic(sys.NewExitError(code))
	}).Export("kill_b").
		NewFunctionBuilder().WithFunc(func(ctx context.Context, mod api.Module) {
		// parks the guest inside the host function until the harness releases it
		if p, ok := ctx.Value(parkKey{}).(*park); ok {
			select {
			case p.entered <- struct{}{}:
			default:
			}
			select {
			case <-p.release:
			case <-time.After(60 * time.Second): // safety net only
			}
		}
	}).Export("block").
		Instantiate(ctx)
	if err != nil {
		return nil, fmt.Errorf("setup: env host module: %v", err)
	}
	if _, err = wasi_snapshot_preview1.Instantiate(ctx, rt); err != nil {
		return nil, fmt.Errorf("setup: wasi: %v", err)
	}
	for i := 0; i < 2; i++ {
		c, err := e.rt.CompileModule(ctx, binOf(i))
		if err != nil {
			return nil, fmt.Errorf("setup: compile binary %d: %v", i, err)
		}
		e.compiled[i] = c
	}
	return e, nil
}

// releaseAllQuiet lets every guest that is still parked return (clean-up on any exit path).
func (e *env) releaseAllQuiet() {
	e.mu.Lock()
	defer e.mu.Unlock()
	for k, pc := range e.parked {
		close(pc.p.release)
		delete(e.parked, k)
	}
}

func (e *env) slot(i int) api.Module {
	if i < 0 || i >= len(e.slots) {
		return nil
	}
	if b, ok := e.slots[i].Load().(modBox); ok {
		return b.m
	}
	return nil
}

func (e *env) attemptOf(i int) *attempt {
	e.mu.Lock()
	defer e.mu.Unlock()
	return e.attempts[i]
}

// resolve maps a module handle to the id of the instantiation that created it.
func (e *env) resolve(m api.Module) int {
	if m == nil {
		return -1
	}
	e.mu.Lock()
	defer e.mu.Unlock()
	for id, a := range e.attempts {
		if b, ok := a.mod.Load().(modBox); ok && b.m == m {
			return id
		}
	}
	return -2
}

// wazeroFrames extracts the innermost n wazero frames (function + file:line) of a stack.
func wazeroFrames(stack string, n int) string {
	lines := strings.Split(stack, "\n")
	var fr []string
	for i := 0; i+1 < len(lines) && len(fr) < n; i++ {
		if strings.HasPrefix(lines[i], "github.com/tetratelabs/wazero") {
			fn := lines[i]
			if j := strings.LastIndexByte(fn, '('); j > 0 {
				fn = fn[:j]
			}
			fn = strings.TrimPrefix(fn, "github.com/tetratelabs/wazero")
			loc := strings.Fields(strings.TrimSpace(lines[i+1]))
			l := ""
			if len(loc) > 0 {
				l = loc[0]
				if k := strings.LastIndex(l, "/internal/"); k >= 0 {
					l = l[k+1:]
				} else if k := strings.LastIndexByte(l, '/'); k >= 0 {
					l = l[k+1:]
				}
			}
			fr = append(fr, fn+" "+l)
		}
	}
	return strings.Join(fr, " <- ")
}

func firstLine(err error) string {
	s := err.Error()
	if i := strings.IndexByte(s, '\n'); i >= 0 {
		s = s[:i]
	}
	if s == "" {
		s = "(empty error text)"
	}
	return s
}

// exec performs operation number idx for real. raw (optional) receives the module returned
// by a lookup or used by a handle operation; the concurrent executor resolves identities
// after the run.
func (e *env) exec(idx int, o Op, raw *api.Module) (r Res) {
	r.Inst = -1
	defer func() {
		if p := recover(); p != nil {
			r = Res{Inst: -1, Panic: fmt.Sprint(p) + " @ " + wazeroFrames(string(debug.Stack()), 3)}
		}
	}()
	ctx := e.ctx
	switch o.K {
	case kInst, kHostInst:
		a := &attempt{op: idx, host: o.K == kHostInst, hasNote: !o.NoNotif, delay: o.ND, bad: o.Bad}
		e.mu.Lock()
		e.attempts[idx] = a
		e.mu.Unlock()
		ictx := experimental.WithMemoryAllocator(ctx, a)
		if a.hasNote {
			ictx = experimental.WithCloseNotifier(ictx, a)
		}
		var mod api.Module
		var err error
		if o.K == kHostInst {
			mod, err = e.rt.NewHostModuleBuilder(o.Name).NewFunctionBuilder().
				WithFunc(func() uint32 { return 7 }).Export("hf").Instantiate(ictx)
		} else {
			cfg := wazero.NewModuleConfig().
				WithFSConfig(wazero.NewFSConfig().(sysfs.FSConfig).WithSysFSMount(&countFS{a: a}, "/"))
			defStart := ""
			switch {
			case o.Start == "":
				cfg = cfg.WithStartFunctions()
			case o.FromBin && o.DefStart:
				defStart = o.Start // exported as "_start": the default start function
			default:
				cfg = cfg.WithStartFunctions(o.Start)
			}
			if o.Set {
				cfg = cfg.WithName(o.Name)
			}
			if o.FromBin {
				mod, err = e.rt.InstantiateWithConfig(ictx, guestBinary(o.Bin == 0, 0, idx+1, defStart), cfg)
			} else {
				mod, err = e.rt.InstantiateModule(ictx, e.compiled[o.Bin], cfg)
			}
		}
		if err != nil {
			r.Err = firstLine(err)
			var ee *sys.ExitError
			switch {
			case errors.As(err, &ee):
				r.Kind, r.Exit = wz.KExit, ee.ExitCode() // a start function ended with an exit
			case strings.Contains(r.Err, "] function["):
				r.Kind = kindStartFailed // a start function failed otherwise
			}
			if mod != nil {
				// the module that was instantiated and closed again is returned with the error
				a.mod.Store(modBox{mod})
			}
			return
		}
		if mod == nil {
			r.Err = "nil module and nil error"
			return
		}
		a.mod.Store(modBox{mod})
		e.slots[idx].Store(modBox{mod})
		r.Inst = idx
	case kLookup:
		m := e.rt.Module(o.Name)
		if raw != nil {
			*raw = m
		} else {
			r.Inst = e.resolve(m)
		}
		if m != nil {
			e.slots[idx].Store(modBox{m})
		}
	case kOpen:
		m := e.slot(o.H)
		if m == nil || isHostHandle(m) || m.IsClosed() {
			r.Skip = true // WASI calls of a closed instance are not part of the domain
			return
		}
		if raw != nil {
			*raw = m
		}
		f := m.ExportedFunction("open")
		if f == nil {
			r.Err = "ExportedFunction(open) returned nil"
			return
		}
		for i := 0; i < max(1, o.N); i++ { // every path_open yields a new descriptor and file object
			res, err := f.Call(ctx, uint64(o.Var%numFiles))
			out := wz.Classify(err)
			r.Kind = out.Kind
			if out.Kind != wz.KOK || len(res) != 1 {
				r.Err = "open: " + out.String()
				break
			}
			if r.Val = res[0]; r.Val != 0 { // errno of path_open
				break
			}
		}
	case kClose, kCloseC:
		m := e.slot(o.H)
		if m == nil {
			r.Skip = true
			return
		}
		if raw != nil {
			*raw = m
		}
		var err error
		if o.K == kClose {
			err = m.Close(ctx)
		} else {
			err = m.CloseWithExitCode(ctx, o.Code)
		}
		if err != nil {
			r.Err = firstLine(err)
		}
	case kIsClosed:
		m := e.slot(o.H)
		if m == nil {
			r.Skip = true
			return
		}
		if raw != nil {
			*raw = m
		}
		r.Closed = m.IsClosed()
	case kCall:
		m := e.slot(o.H)
		if m == nil || isHostHandle(m) {
			r.Skip = true // ExportedFunction is documented as forbidden on host modules
			return
		}
		if raw != nil {
			*raw = m
		}
		f := m.ExportedFunction("f")
		if f == nil {
			r.Err = "ExportedFunction(f) returned nil"
			return
		}
		res, out := safeCall(ctx, f)
		r.Kind, r.Exit = out.Kind, out.Exit
		if out.Kind == wz.KOK && len(res) == 1 {
			r.Val = res[0]
		}
		if out.Kind != wz.KOK && out.Kind != wz.KExit {
			r.Err = out.String()
		}
	case kCallCtx:
		m := e.slot(o.H)
		if m == nil || isHostHandle(m) || !e.cod {
			r.Skip = true
			return
		}
		if raw != nil {
			*raw = m
		}
		f := m.ExportedFunction("wait")
		if f == nil {
			r.Err = "ExportedFunction(wait) returned nil"
			return
		}
		// stillRegistered: after IsClosed() was observed true the registry must not return the
		// instance any more (lookups return only open modules; the name can be taken again).
		stillRegistered := func(retry time.Duration) bool {
			n := m.Name()
			if n == "" {
				return false
			}
			deadline := time.Now().Add(retry)
			for i := 0; e.rt.Module(n) == m; i++ {
				if !time.Now().Before(deadline) {
					return true
				}
				pollPause(i)
			}
			return false
		}
		v := o.Var & 3
		if v == ctxCancelledBefore || v == ctxExpiredBefore {
			cctx, cancel := context.WithCancel(ctx)
			if v == ctxExpiredBefore {
				cancel()
				cctx, cancel = context.WithDeadline(ctx, time.Now().Add(-time.Second))
			}
			cancel()
			_, out := safeCall(cctx, f)
			r.Kind, r.Exit = out.Kind, out.Exit
			if out.Kind != wz.KExit {
				r.Err = "call with a done context returned " + out.String()
			}
			r.Closed = m.IsClosed()
			r.Reg = r.Closed && stillRegistered(unlinkRetry) // (closed synchronously when this call closes it)
			return
		}
		// in flight: the guest parks inside env.block, then its context ends
		pk := &park{entered: make(chan struct{}, 1), release: make(chan struct{})}
		cctx := newCtlCtx(context.WithValue(ctx, parkKey{}, pk))
		pc := &parkedCall{p: pk, done: make(chan wz.Outcome, 1)}
		go func() {
			_, out := safeCall(cctx, f)
			pc.done <- out
		}()
		finished := false
		var out wz.Outcome
		select {
		case <-pk.entered:
		case out = <-pc.done: // returned without reaching the host function (context already over)
			finished = true
		case <-time.After(closedWait):
			r.Err = "the guest neither reached the host function nor returned"
		}
		if v == ctxCancelInFlight {
			cctx.end(context.Canceled)
		} else {
			cctx.end(context.DeadlineExceeded)
		}
		if !finished && r.Err == "" {
			// the guest is parked; wait (bounded) until the runtime has closed the module
			deadline := time.Now().Add(closedWait)
			for i := 0; !m.IsClosed() && time.Now().Before(deadline); i++ {
				pollPause(i)
			}
		}
		r.Closed = m.IsClosed()
		r.Reg = r.Closed && stillRegistered(unlinkRetry) // observed while the guest is still parked
		if finished {
			r.Kind, r.Exit = out.Kind, out.Exit
			return
		}
		if o.Hold && r.Err == "" {
			e.mu.Lock()
			e.parked[idx] = pc
			e.mu.Unlock()
			return
		}
		close(pk.release)
		select {
		case out = <-pc.done:
			r.Kind, r.Exit = out.Kind, out.Exit
			if out.Kind != wz.KExit && r.Err == "" {
				r.Err = "call whose context ended returned " + out.String()
			}
		case <-time.After(releaseBound):
			r.Err = "the released call did not return"
		}
	case kRelease:
		e.mu.Lock()
		pc := e.parked[o.H]
		delete(e.parked, o.H)
		e.mu.Unlock()
		if pc == nil {
			r.Skip = true
			return
		}
		close(pc.p.release)
		select {
		case out := <-pc.done:
			r.Kind, r.Exit = out.Kind, out.Exit
			if out.Kind != wz.KExit {
				r.Err = "call whose context ended returned " + out.String()
			}
		case <-time.After(releaseBound):
			r.Err = "the released call did not return"
		}
	case kCompile:
		c, err := e.rt.CompileModule(ctx, guestBinary(false, o.Var, 0, ""))
		if err != nil {
			r.Err = firstLine(err)
		} else if c == nil {
			r.Err = "nil CompiledModule and nil error"
		}
	case kHostCompile:
		c, err := e.rt.NewHostModuleBuilder(o.Name).NewFunctionBuilder().
			WithFunc(func(uint64) uint32 { return 7 }).Export("hf").Compile(ctx)
		if err != nil {
			r.Err = firstLine(err)
		} else if c == nil {
			r.Err = "nil CompiledModule and nil error"
		}
	case kRtClose:
		if err := e.rt.Close(ctx); err != nil {
			r.Err = firstLine(err)
		}
	case kRtCloseC:
		if err := e.rt.CloseWithExitCode(ctx, o.Code); err != nil {
			r.Err = firstLine(err)
		}
	default:
		r.Skip = true
	}
	return
}

const kindStartFailed = "start-failed"

// safeCall is wz.SafeCall plus the innermost wazero frames of an escaping panic.
func safeCall(ctx context.Context, f api.Function) (res []uint64, out wz.Outcome) {
	defer func() {
		if r := recover(); r != nil {
			out = wz.Outcome{Kind: wz.KInternal, Detail: fmt.Sprintf("panic escaped Call: %v @ %s", r, wazeroFrames(string(debug.Stack()), 4))}
		}
	}()
	r, err := f.Call(ctx)
	return r, wz.Classify(err)
}

// isHostHandle: host module handles are a wrapper struct, guest handles a pointer.
func isHostHandle(m api.Module) bool {
	return strings.HasPrefix(fmt.Sprintf("%T", m), "wazero.hostModuleInstance")
}

// ---------------------------------------------------------------------------------------
// sequential registry model
// ---------------------------------------------------------------------------------------

type mInst struct {
	name    string
	host    bool
	hasNote bool
	open    bool
	code    uint32
	pending int // calls of this instance whose guest is still parked in a host function
	bad     int // Op.Bad of the instantiation
	files   bool
	badOpen bool // a file object that fails on Close is open
}

type seqModel struct {
	rtClosed bool
	rtCode   uint32
	cod      bool           // runtime built WithCloseOnContextDone(true)
	inst     map[int]*mInst // instantiations that were registered, by id (= op index); a start function may have closed them again
	failed   map[int]bool   // failed instantiation attempts
	owner    map[string]int // non-empty name -> id of the open owner
	slot     map[int]int    // op index -> instance id held by the slot (absent = empty)
	parkedOp map[int]int    // callctx op index -> instance whose guest it left parked
	tainted  map[string]bool
}

func newSeqModel() *seqModel {
	return &seqModel{inst: map[int]*mInst{}, failed: map[int]bool{}, owner: map[string]int{}, slot: map[int]int{}, parkedOp: map[int]int{}, tainted: map[string]bool{}}
}

func (m *seqModel) closeInst(id int, code uint32) {
	in := m.inst[id]
	if in == nil || !in.open {
		return
	}
	in.open, in.code = false, code
	if in.name != "" && m.owner[in.name] == id {
		delete(m.owner, in.name)
		delete(m.tainted, in.name)
	}
}

// step returns the result the sequential specification demands for op number idx and
// updates the model. want.Err == "*" means "some error".
func (m *seqModel) step(idx int, o Op) (want Res) {
	want.Inst = -1
	switch o.K {
	case kInst, kHostInst:
		name := o.effName()
		_, owned := m.owner[name]
		if m.rtClosed || (name != "" && owned) {
			want.Err = "*"
			m.failed[idx] = true
			if !m.rtClosed {
				m.tainted[name] = true
			}
			return
		}
		m.inst[idx] = &mInst{name: name, host: o.K == kHostInst, hasNote: !o.NoNotif, open: true, bad: o.Bad}
		if name != "" {
			m.owner[name] = idx
		}
		if sp, ok := startSpec[o.Start]; ok && o.K == kInst && sp.kind != stOK {
			// The start function does not return normally. Whatever the reason, an
			// instantiation that does not hand out a usable module leaves nothing open or
			// registered: the instance is closed (by itself with its code, else with 0).
			switch sp.kind {
			case stSelf:
				m.closeInst(idx, sp.code)
			case stKillB:
				if v, ok := m.owner["b"]; ok {
					m.closeInst(v, sp.code)
				}
			}
			m.closeInst(idx, 0)
			if sp.kind == stTrap {
				want.Err, want.Kind = "*", kindStartFailed
				return
			}
			if sp.code != 0 { // the exit error is returned as it is
				want.Err, want.Kind, want.Exit = "*", wz.KExit, sp.code
				return
			}
			// exit code 0 is not an error: the (closed) module is returned
		}
		m.slot[idx] = idx
		want.Inst = idx
	case kCallCtx:
		id, ok := m.slot[o.H]
		if !ok || m.inst[id].host || !m.cod {
			want.Skip = true
			return
		}
		m.closeInst(id, ctxCode(o.Var))
		want.Closed = true // and, once IsClosed() was seen, not registered any more (Reg stays false)
		if o.Hold && o.Var&3 < 2 {
			m.inst[id].pending++
			m.parkedOp[idx] = id
			return
		}
		want.Kind, want.Exit = wz.KExit, m.inst[id].code
	case kRelease:
		id, ok := m.parkedOp[o.H]
		if !ok {
			want.Skip = true
			return
		}
		delete(m.parkedOp, o.H)
		m.inst[id].pending--
		want.Kind, want.Exit = wz.KExit, m.inst[id].code
	case kLookup:
		if id, ok := m.owner[o.Name]; ok && o.Name != "" && !m.rtClosed {
			want.Inst = id
			m.slot[idx] = id
		}
	case kOpen:
		id, ok := m.slot[o.H]
		if !ok || m.inst[id].host || !m.inst[id].open {
			want.Skip = true
			return
		}
		in := m.inst[id]
		in.files = true
		if in.bad&(1|1<<(1+o.Var%numFiles)) != 0 { // the first open also opens the root directory
			in.badOpen = true
		}
		want.Kind, want.Val = wz.KOK, 0
	case kClose, kCloseC:
		id, ok := m.slot[o.H]
		if !ok {
			want.Skip = true
			return
		}
		if in := m.inst[id]; in.open && in.badOpen {
			want.Err = "?" // the close reports the I/O error of a file; everything is released all the same
		}
		m.closeInst(id, o.closeCode())
	case kIsClosed:
		id, ok := m.slot[o.H]
		if !ok {
			want.Skip = true
			return
		}
		want.Closed = !m.inst[id].open
	case kCall:
		id, ok := m.slot[o.H]
		if !ok || m.inst[id].host {
			want.Skip = true
			return
		}
		if in := m.inst[id]; in.open {
			want.Kind, want.Val = wz.KOK, 42
		} else {
			want.Kind, want.Exit = wz.KExit, in.code
		}
	case kCompile, kHostCompile:
		if m.rtClosed {
			want.Err = "*"
		}
	case kRtClose, kRtCloseC:
		if !m.rtClosed {
			for _, in := range m.inst {
				if in.open && in.badOpen {
					want.Err = "?"
				}
			}
			m.rtClosed, m.rtCode = true, o.closeCode()
			for id := range m.inst {
				m.closeInst(id, m.rtCode)
			}
		}
	default:
		want.Skip = true
	}
	return
}

func sameRes(got, want Res) bool {
	if got.Panic != "" {
		return false
	}
	if want.Err == "?" { // an error may be reported
		got.Err, want.Err = "", ""
	}
	if want.Err == "*" {
		if want.Kind != "" && (got.Kind != want.Kind || got.Exit != want.Exit) {
			return false
		}
		return got.Err != "" && !got.Skip
	}
	return got == want
}

func b2i(b bool) int {
	if b {
		return 1
	}
	return 0
}

func fileName(k int) string {
	if k == 0 {
		return "root directory of the mount"
	}
	return fmt.Sprintf("f%d", k-1)
}

// counters compares the notifier / allocator counters of every instantiation attempt with
// what the model state demands. final: the runtime has been closed.
func (m *seqModel) counters(e *env) string {
	for id := range m.failed {
		a := e.attemptOf(id)
		if a == nil {
			continue
		}
		if n := a.notes.Load(); n != 0 {
			return fmt.Sprintf("failed instantiation #%d: close notifier fired %d times", id, n)
		}
		if al, fr := a.allocs.Load(), a.frees.Load(); al != fr || al > 1 {
			return fmt.Sprintf("failed instantiation #%d: memory allocated %d times, freed %d times", id, al, fr)
		}
	}
	for id, in := range m.inst {
		a := e.attemptOf(id)
		if a == nil {
			return fmt.Sprintf("instance #%d: no attempt record", id)
		}
		wantNotes := int32(0)
		if !in.open && in.hasNote {
			wantNotes = 1
		}
		// A module closed through a done context while its guest sits in a host function
		// releases its resources (and notifies) when a call next notices: until the parked
		// guest has returned, "not yet" is as good as "once".
		deferred := !in.open && in.pending > 0
		if n := a.notes.Load(); n != wantNotes && !(deferred && n == 0) {
			return fmt.Sprintf("instance #%d (name %q, open=%v): close notifier fired %d times, want %d", id, in.name, in.open, n, wantNotes)
		}
		if wantNotes == 1 && a.notes.Load() == 1 && a.code.Load() != in.code {
			return fmt.Sprintf("instance #%d (name %q): close notifier received exit code %d, the close that took effect had %d", id, in.name, a.code.Load(), in.code)
		}
		for i, n := range a.fileCloses() {
			if want := 1 - b2i(in.open); n != int32(want) && !(deferred && n == 0) {
				a.fmu.Lock()
				k := a.files[i].k
				a.fmu.Unlock()
				return fmt.Sprintf("instance #%d (name %q, open=%v): file object %d (%s) that the guest opened was closed %d times, want %d", id, in.name, in.open, i, fileName(k), n, want)
			}
		}
		wantAlloc, wantFree := int32(1), int32(0)
		if in.host {
			wantAlloc = 0
		}
		if !in.open {
			wantFree = wantAlloc
		}
		if al, fr := a.allocs.Load(), a.frees.Load(); al != wantAlloc || (fr != wantFree && !(deferred && fr == 0)) {
			return fmt.Sprintf("instance #%d (name %q, open=%v): memory allocated %d times (want %d), freed %d times (want %d)", id, in.name, in.open, al, wantAlloc, fr, wantFree)
		}
	}
	return ""
}

// ---------------------------------------------------------------------------------------
// sequential programs
// ---------------------------------------------------------------------------------------

// SeqCase is the replayable form of a sequential program.
type SeqCase struct {
	Kind   string `json:"kind"` // "seq"
	Engine string `json:"engine"`
	COD    bool   `json:"close_on_context_done,omitempty"` // RuntimeConfig.WithCloseOnContextDone(true)
	Ops    []Op   `json:"ops"`
}

type seqRun struct {
	c     SeqCase
	e     *env
	m     *seqModel
	trace []string
}

const maxSeqOps = 40

func newSeqRun(engine string, cod bool) (*seqRun, error) {
	e, err := newEnv(engine, maxSeqOps+8, cod)
	if err != nil {
		return nil, err
	}
	m := newSeqModel()
	m.cod = cod
	return &seqRun{c: SeqCase{Kind: "seq", Engine: engine, COD: cod}, e: e, m: m}, nil
}

// apply executes one more operation and returns a non-empty message on a violation.
func (s *seqRun) apply(o Op) string {
	idx := len(s.c.Ops)
	s.c.Ops = append(s.c.Ops, o)
	want := s.m.step(idx, o)
	var got Res
	if want.Skip {
		got = Res{Skip: true, Inst: -1}
	} else {
		got = s.e.exec(idx, o, nil)
	}
	s.trace = append(s.trace, fmt.Sprintf("  #%d %s -> %s", idx, o, got))
	if !sameRes(got, want) {
		w := want.String()
		if want.Err == "*" {
			w = "an error"
		}
		return fmt.Sprintf("step #%d %s returned %s; the sequential registry model demands %s\nhistory:\n%s", idx, o, got, w, strings.Join(s.trace, "\n"))
	}
	if msg := s.m.counters(s.e); msg != "" {
		return fmt.Sprintf("after step #%d %s: %s\nhistory:\n%s", idx, o, msg, strings.Join(s.trace, "\n"))
	}
	return ""
}

// finish brings the run to quiescence: every instance is asked IsClosed, every name looked
// up, then the runtime is closed (if the program did not) and everything asked again.
func (s *seqRun) finish() string {
	var ids []int
	for i := range s.c.Ops {
		if _, ok := s.m.inst[i]; ok {
			ids = append(ids, i)
		}
	}
	probe := func() string {
		for _, id := range ids {
			b, ok := s.e.attemptOf(id).mod.Load().(modBox)
			if !ok {
				continue
			}
			m := b.m
			if got, want := m.IsClosed(), !s.m.inst[id].open; got != want {
				return fmt.Sprintf("at quiescence: instance #%d (name %q) IsClosed()=%v, model says %v", id, s.m.inst[id].name, got, want)
			}
		}
		for _, n := range []string{"a", "b"} {
			want := -1
			if id, ok := s.m.owner[n]; ok {
				want = id
			}
			if s.m.tainted[n] && exclDupTaint {
				continue
			}
			if got := s.e.resolve(s.e.rt.Module(n)); got != want {
				return fmt.Sprintf("at quiescence: Runtime.Module(%q) returned instance %d, model says %d", n, got, want)
			}
		}
		return s.m.counters(s.e)
	}
	msg := probe()
	if msg == "" {
		// let every guest that is still parked return: its call reports the exit code, and the
		// deferred release (notification, memory) has happened exactly once afterwards
		var pend []int
		for k := range s.m.parkedOp {
			pend = append(pend, k)
		}
		sort.Ints(pend)
		for _, k := range pend {
			o := Op{K: kRelease, H: k}
			want := s.m.step(-1, o)
			got := s.e.exec(-1, o, nil)
			s.trace = append(s.trace, fmt.Sprintf("  final %s -> %s", o, got))
			if !sameRes(got, want) {
				msg = fmt.Sprintf("at quiescence: %s returned %s, the model demands %s", o, got, want)
				break
			}
		}
		if msg == "" {
			msg = s.m.counters(s.e)
		}
	}
	if msg == "" {
		var p any
		func() {
			defer func() { p = recover() }()
			errOK := false // a file that fails on Close may be open
			for _, in := range s.m.inst {
				errOK = errOK || (in.open && in.badOpen)
			}
			if err := s.e.rt.Close(s.e.ctx); err != nil && !errOK {
				msg = "final Runtime.Close returned " + firstLine(err)
			}
		}()
		if p != nil {
			msg = fmt.Sprintf("final Runtime.Close panicked: %v", p)
		}
		s.m.step(-1, Op{K: kRtClose})
		s.trace = append(s.trace, "  final Runtime.Close()")
	}
	if msg == "" {
		msg = probe()
	}
	if msg != "" {
		return msg + "\nhistory:\n" + strings.Join(s.trace, "\n")
	}
	return ""
}

// runSeqCase re-executes a recorded sequential program (used by replay and by the
// known-finding probes).
func runSeqCase(c SeqCase) string {
	s, err := newSeqRun(c.Engine, c.COD)
	if err != nil {
		return err.Error()
	}
	defer s.e.rt.Close(s.e.ctx)
	defer s.e.releaseAllQuiet()
	for _, o := range c.Ops {
		if len(s.c.Ops) >= maxSeqOps+8 {
			break
		}
		if msg := s.apply(o); msg != "" {
			return msg
		}
	}
	return s.finish()
}

// ---- exclusions for known findings (see FRAMEWORK.md, known-findings protocol) ----

var (
	// exclDupTaint: finding C10-failed-dup-deletes-name reproduces on this tree; the
	// generator then never observes a name's registry entry (lookup / instantiate of that
	// name) between a failed duplicate-name instantiation and the close of the name's owner.
	exclDupTaint bool
	// exclHostAfterClose: finding C10-hostmodule-after-close reproduces; the generator then
	// issues no HostModuleBuilder.Compile/Instantiate after Runtime.Close.
	exclHostAfterClose bool
	probeOnce          sync.Once
)

var dupCase = SeqCase{Kind: "seq", Engine: "interpreter", Ops: []Op{
	{K: kInst, Bin: 1, Set: true, Name: "a"},
	{K: kInst, Bin: 1, Set: true, Name: "a"},
	{K: kLookup, Name: "a"},
}}

func hostAfterCloseCase(engine, kind string) SeqCase {
	return SeqCase{Kind: "seq", Engine: engine, Ops: []Op{{K: kRtClose}, {K: kind, Name: "b"}}}
}

// probeKnown runs the fixed inputs of the two deterministic known findings once per
// process; the exclusions are active only while the findings reproduce.
func probeKnown() {
	probeOnce.Do(func() {
		// the finding's signature: the duplicate is rejected (steps 0,1 as specified) and the
		// lookup of step 2 then misses the open owner
		exclDupTaint = strings.HasPrefix(runSeqCase(dupCase), "step #2 ")
		for _, eng := range wz.Engines {
			for _, k := range []string{kHostCompile, kHostInst} {
				if strings.HasPrefix(runSeqCase(hostAfterCloseCase(eng, k)), "step #1 ") {
					exclHostAfterClose = true
				}
			}
		}
	})
}

// drawOpenCount: mostly one descriptor per open operation, sometimes enough to fill and cross
// the 64- and 128-descriptor boundaries of the instance's descriptor table (descriptors 0-3
// are stdio and the pre-opened mount).
func drawOpenCount(t *rapid.T) int {
	switch rapid.IntRange(0, 11).Draw(t, "open-count-class") {
	case 0:
		return rapid.IntRange(2, 6).Draw(t, "open-count")
	case 1:
		return rapid.IntRange(56, 70).Draw(t, "open-count")
	case 2:
		return rapid.IntRange(118, 134).Draw(t, "open-count")
	}
	return 1
}

var names = []string{"a", "b", ""}

// genSeqOp draws the next operation given the model state (the model is pure: drawing from
// it keeps generation deterministic in the draws).
func genSeqOp(t *rapid.T, s *seqRun) Op {
	m := s.m
	// slots that hold a handle
	var held []int
	for i := range s.c.Ops {
		if _, ok := m.slot[i]; ok {
			held = append(held, i)
		}
	}
	nameFree := func(n string) bool { // may the registry entry of n be observed?
		return !(exclDupTaint && m.tainted[n])
	}
	kinds := []string{
		kInst, kInst, kInst, kInst, kInst, kLookup, kLookup, kLookup, kClose, kClose, kCloseC, kCloseC,
		kIsClosed, kIsClosed, kCall, kCall, kCompile, kHostInst, kHostInst, kHostCompile, kRtClose, kRtCloseC,
	}
	if m.cod {
		kinds = append(kinds, kCallCtx, kCallCtx, kCallCtx)
	}
	if len(m.parkedOp) > 0 {
		kinds = append(kinds, kRelease, kRelease)
	}
	kinds = append(kinds, kOpen, kOpen, kOpen, kOpen)
	for try := 0; ; try++ {
		k := rapid.SampledFrom(kinds).Draw(t, "kind")
		switch k {
		case kInst:
			o := Op{K: kInst, Bin: rapid.IntRange(0, 1).Draw(t, "bin")}
			if rapid.IntRange(0, 3).Draw(t, "setname") > 0 {
				o.Set, o.Name = true, rapid.SampledFrom(names).Draw(t, "name")
			}
			o.FromBin = rapid.IntRange(0, 4).Draw(t, "frombin") == 0
			o.NoNotif = rapid.IntRange(0, 7).Draw(t, "nonotif") == 0
			if rapid.Bool().Draw(t, "failing-file-closes") {
				o.Bad = rapid.IntRange(1, 1<<(numFiles+1)-1).Draw(t, "bad-files")
			}
			if rapid.IntRange(0, 9).Draw(t, "with-start") >= 6 {
				o.Start = rapid.SampledFrom(startNames).Draw(t, "start")
				o.DefStart = o.FromBin && rapid.Bool().Draw(t, "as-_start")
			}
			if !nameFree(o.effName()) || (exclDupTaint && startSpec[o.Start].kind == stKillB && m.tainted["b"]) {
				evid.Label("excluded-dup-taint", 1)
				continue
			}
			return o
		case kHostInst, kHostCompile:
			if m.rtClosed && exclHostAfterClose {
				evid.Label("excluded-hostmodule-after-close", 1)
				continue
			}
			o := Op{K: k, Name: rapid.SampledFrom([]string{"a", "b"}).Draw(t, "name")}
			if k == kHostInst && !nameFree(o.Name) {
				evid.Label("excluded-dup-taint", 1)
				continue
			}
			return o
		case kLookup:
			o := Op{K: k, Name: rapid.SampledFrom(names).Draw(t, "name")}
			if !nameFree(o.Name) {
				evid.Label("excluded-dup-taint", 1)
				continue
			}
			return o
		case kOpen:
			// guests that are open (WASI calls of a closed instance are outside the domain)
			var cand []int
			for _, h := range held {
				if in := m.inst[m.slot[h]]; in.open && !in.host {
					cand = append(cand, h)
				}
			}
			if len(cand) == 0 {
				continue
			}
			return Op{K: kOpen, H: rapid.SampledFrom(cand).Draw(t, "slot"), Var: rapid.IntRange(0, numFiles-1).Draw(t, "file"), N: drawOpenCount(t)}
		case kClose, kCloseC, kIsClosed, kCall, kCallCtx:
			if len(held) == 0 {
				if try > 8 {
					return Op{K: kLookup, Name: ""}
				}
				continue
			}
			o := Op{K: k, H: rapid.SampledFrom(held).Draw(t, "slot")}
			if k == kCloseC {
				o.Code = rapid.SampledFrom([]uint32{0, 1, 2, 3, 7, 255, 0xffffffff}).Draw(t, "code")
			}
			if (k == kCall || k == kCallCtx) && m.inst[m.slot[o.H]].host {
				continue
			}
			if k == kCallCtx {
				o.Var = rapid.IntRange(0, 3).Draw(t, "context-end")
				o.Hold = o.Var < 2 && rapid.IntRange(0, 2).Draw(t, "stay-parked") > 0
			}
			return o
		case kRelease:
			var pend []int
			for k := range m.parkedOp {
				pend = append(pend, k)
			}
			sort.Ints(pend)
			return Op{K: kRelease, H: rapid.SampledFrom(pend).Draw(t, "parked-call")}
		case kCompile:
			return Op{K: k, Var: rapid.IntRange(1, 12).Draw(t, "variant")}
		case kRtClose, kRtCloseC:
			// keep most of the program before the runtime is closed
			if !m.rtClosed && rapid.IntRange(0, 3).Draw(t, "really") != 0 {
				continue
			}
			o := Op{K: k}
			if k == kRtCloseC {
				o.Code = rapid.SampledFrom([]uint32{0, 1, 9, 0xffffffff}).Draw(t, "code")
			}
			return o
		}
	}
}

func seqKey(c SeqCase) uint64 {
	var sb strings.Builder
	fmt.Fprint(&sb, c.Engine, c.COD)
	for _, o := range c.Ops {
		fmt.Fprintf(&sb, "|%+v", o)
	}
	return evid.Hash64(sb.String())
}

// seqStats derives the non-triviality rule and labels from the executed program.
func seqStats(s *seqRun) (nontrivial bool, labels []string) {
	m := newSeqModel()
	m.cod = s.c.COD
	touched := map[string]bool{} // names that saw an instantiate or a close
	var reinst, dupFail, afterClose, postCloseReq, hostPost, ctxClose, ctxObserved bool
	startKinds := map[string]bool{}
	ctxClosed := map[int]bool{}
	var parkedNamed, nameWhileParked bool
	parkedName := func(n string) bool { // is a closed instance of that name still parked?
		for _, id := range m.parkedOp {
			if in := m.inst[id]; n != "" && in.name == n && !in.open {
				return true
			}
		}
		return false
	}
	for i, o := range s.c.Ops {
		switch o.K {
		case kLookup:
			nameWhileParked = nameWhileParked || parkedName(o.Name)
		case kInst, kHostInst:
			nameWhileParked = nameWhileParked || parkedName(o.effName())
		}
		switch o.K {
		case kCallCtx:
			if id, ok := m.slot[o.H]; ok && !m.inst[id].host && m.cod && o.Hold && o.Var&3 < 2 && m.inst[id].open && m.inst[id].name != "" {
				parkedNamed = true
			}
			if id, ok := m.slot[o.H]; ok && !m.inst[id].host && m.cod {
				if m.inst[id].open {
					ctxClose = true
					ctxClosed[id] = true
				} else if ctxClosed[id] {
					ctxObserved = true
				}
			}
		case kCall, kIsClosed:
			if id, ok := m.slot[o.H]; ok && ctxClosed[id] {
				ctxObserved = true
			}
		}
		switch o.K {
		case kInst, kHostInst:
			n := o.effName()
			if _, owned := m.owner[n]; !m.rtClosed && !(owned && n != "") && o.Start != "" {
				startKinds[startSpec[o.Start].kind] = true
			}
			if n != "" && touched[n] {
				reinst = true
			}
			if _, owned := m.owner[n]; owned && n != "" && !m.rtClosed {
				dupFail = true
			}
			if m.rtClosed {
				postCloseReq = true
				if o.K == kHostInst {
					hostPost = true
				}
			}
			if n != "" {
				touched[n] = true
			}
		case kCompile, kHostCompile:
			if m.rtClosed {
				postCloseReq = true
				if o.K == kHostCompile {
					hostPost = true
				}
			}
		case kClose, kCloseC, kCallCtx:
			if id, ok := m.slot[o.H]; ok && m.inst[id].open && m.inst[id].name != "" {
				touched[m.inst[id].name] = true
			}
			if id, ok := m.slot[o.H]; ok && ctxClosed[id] && o.K != kCallCtx {
				ctxObserved = true
			}
		case kRtClose, kRtCloseC:
			if !m.rtClosed && len(m.inst) > 0 {
				afterClose = true
			}
		}
		m.step(i, o)
	}
	for k := range startKinds {
		labels = append(labels, "seq-start-function-"+k)
	}
	sort.Strings(labels)
	if ctxClose {
		labels = append(labels, "seq-closed-by-context-done")
	}
	var d64, d128 bool
	for _, a := range s.e.attempts {
		n := len(a.fileCloses())
		d64, d128 = d64 || n >= 60, d128 || n >= 124
	}
	if d64 {
		labels = append(labels, "seq-instance-with-64-or-more-descriptors")
	}
	if d128 {
		labels = append(labels, "seq-instance-with-128-or-more-descriptors")
	}
	var files, badFiles bool
	for _, in := range m.inst {
		if in.files && !in.open {
			files = true
			badFiles = badFiles || in.badOpen
		}
	}
	if files {
		labels = append(labels, "seq-instance-closed-with-open-files")
	}
	if badFiles {
		labels = append(labels, "seq-instance-closed-with-file-failing-on-close")
	}
	if parkedNamed {
		labels = append(labels, "seq-named-guest-parked-in-host-when-closed-by-context")
	}
	if nameWhileParked {
		labels = append(labels, "seq-name-looked-up-or-instantiated-while-old-guest-parked")
	}
	if ctxObserved {
		labels = append(labels, "seq-context-closed-instance-used-again")
	}
	nontrivial = reinst || (afterClose && postCloseReq)
	if reinst {
		labels = append(labels, "seq-reinstantiate-same-name")
	}
	if dupFail {
		labels = append(labels, "seq-duplicate-name-rejected")
	}
	if afterClose {
		labels = append(labels, "seq-runtime-close-with-instances")
	}
	if postCloseReq {
		labels = append(labels, "seq-request-after-runtime-close")
	}
	if hostPost {
		labels = append(labels, "seq-hostmodule-after-runtime-close")
	}
	labels = append(labels, "seq-"+s.c.Engine)
	return
}

func runSeq(t *rapid.T) {
	probeKnown()
	engine := rapid.SampledFrom(wz.Engines).Draw(t, "engine")
	cod := rapid.IntRange(0, 9).Draw(t, "close-on-context-done") < 3
	s, err := newSeqRun(engine, cod)
	if err != nil {
		t.Fatalf("%v", err)
	}
	defer s.e.rt.Close(s.e.ctx)
	defer s.e.releaseAllQuiet()
	n := rapid.IntRange(2, maxSeqOps).Draw(t, "nops")
	for i := 0; i < n; i++ {
		o := genSeqOp(t, s)
		if msg := s.apply(o); msg != "" {
			evid.Fail(t, s.c, "%s", msg)
		}
	}
	if msg := s.finish(); msg != "" {
		evid.Fail(t, s.c, "%s", msg)
	}
	nt, labels := seqStats(s)
	evid.Case(seqKey(s.c), nt, labels...)
	if nt {
		evid.Sample("sequential", 2, s.c)
	}
}

func TestSequential(t *testing.T) {
	if evid.ReplayPath() != "" || os.Getenv("VERIF_C10_CHILD") != "" {
		t.Skip()
	}
	evid.Check(t, "sequential", evid.Scale(8000, 640000), runSeq)
}

// TestKnownFindings re-runs the fixed inputs of the deterministic known findings so that
// they stay reported while the generator avoids their class.
func TestKnownFindings(t *testing.T) {
	if evid.ReplayPath() != "" || os.Getenv("VERIF_C10_CHILD") != "" {
		t.Skip()
	}
	if sh, _ := evid.Shard(); sh != 0 || os.Getenv("VERIF_RACE") != "" {
		t.Skip()
	}
	if msg := runSeqCase(dupCase); strings.HasPrefix(msg, "step #2 ") {
		if evid.Finding("C10-failed-dup-deletes-name", "known-failed-dup-deletes-name", dupCase, "%s", msg) {
			t.Fail()
		}
	} else if msg != "" { // fails, but not in the way of the finding
		evid.Violation("fixed-input-dup", dupCase, "%s", msg)
		t.Fail()
	} else {
		evid.Note("C10-failed-dup-deletes-name no longer reproduces on its fixed input")
	}
	seen := false
	for _, eng := range wz.Engines {
		for _, k := range []string{kHostCompile, kHostInst} {
			c := hostAfterCloseCase(eng, k)
			msg := runSeqCase(c)
			if strings.HasPrefix(msg, "step #1 ") && !seen {
				seen = true
				if evid.Finding("C10-hostmodule-after-close", "known-hostmodule-after-close", c, "%s", msg) {
					t.Fail()
				}
			} else if msg != "" && !strings.HasPrefix(msg, "step #1 ") {
				evid.Violation("fixed-input-host-after-close", c, "%s", msg)
				t.Fail()
			}
		}
	}
	if !seen {
		evid.Note("C10-hostmodule-after-close no longer reproduces on its fixed inputs")
	}
}
