// C10, part 2: concurrent programs.
//
// A program is a sequential setup followed by 2..8 goroutines with 2..10 operations each
// (plus drawn yield points and a drawn GOMAXPROCS). Every operation records its invocation
// and response on a logical clock (an atomic counter) together with its result. After the
// goroutines have finished, a sequential tail observes every handle and every name, closes
// the runtime and observes again. The recorded history is then judged:
//
//  1. registry: porcupine decides whether the history is linearizable with respect to the
//     sequential registry model (regModel). Two operations are implemented by wazero in two
//     atomic steps and are therefore entered as two sub-operations with the interval of the
//     call: Module.Close = set the closed word, then unlink under the store lock;
//     Runtime.Close = set the runtime's closed word, then close and unlink every module under
//     the store lock. Once the call has returned both have happened, so nothing that the
//     documentation promises about a *finished* close is lost; only observations that overlap
//     an in-flight close may see the intermediate state.
//  2. closed words: interval rules (flagRules) for IsClosed / Call results / exit codes.
//  3. quiescence: every close notifier fired exactly once with the exit code that won, every
//     memory was freed exactly once.
//
// The strict single-step model (strictModel) is evaluated as well, for evidence labels only.
package c10

import (
	"encoding/json"
	"fmt"
	"os"
	"os/exec"
	"path/filepath"
	"runtime"
	"sort"
	"strings"
	"sync"
	"sync/atomic"
	"testing"
	"time"

	"github.com/anishathalye/porcupine"
	"github.com/tetratelabs/wazero/api"
	"pgregory.net/rapid"

	"verif/internal/evid"
	"verif/internal/wz"
)

// ConcCase is the replayable form of a concurrent program; History is present in replay
// files of failures (the recorded history is the artefact that is re-checked).
type ConcCase struct {
	Kind    string `json:"kind"` // "conc"
	Engine  string `json:"engine"`
	Procs   int    `json:"procs"`
	COD     bool   `json:"close_on_context_done,omitempty"`
	Setup   []Op   `json:"setup"`
	Threads [][]Op `json:"threads"`
	History []HOp  `json:"history,omitempty"`
}

// HOp is one recorded operation.
type HOp struct {
	I      int   `json:"i"` // global operation index (slot number)
	T      int   `json:"t"` // thread; -1 setup, -2 tail
	Op     Op    `json:"op"`
	Call   int64 `json:"call"`
	Ret    int64 `json:"ret"`
	Res    Res   `json:"res"`
	Target int   `json:"target"` // handle operations: instance acted upon (-1 none, -2 unknown)
}

func (h HOp) String() string {
	tg := ""
	switch h.Op.K {
	case kClose, kCloseC, kIsClosed, kCall, kCallCtx, kOpen:
		tg = fmt.Sprintf(" [instance %d]", h.Target)
	}
	return fmt.Sprintf("[%4d,%4d] t%-2d #%-3d %s%s -> %s", h.Call, h.Ret, h.T, h.I, h.Op, tg, h.Res)
}

func (c *ConcCase) numOps() int {
	n := len(c.Setup)
	for _, th := range c.Threads {
		n += len(th)
	}
	return n
}

// counts of one attempt at quiescence, recorded with the history so that replay can re-check.
type attemptCounts struct {
	ID      int     `json:"id"`
	OK      bool    `json:"ok"`
	Host    bool    `json:"host"`
	HasNote bool    `json:"has_note"`
	Notes   int32   `json:"notes"`
	Code    uint32  `json:"code"`
	Allocs  int32   `json:"allocs"`
	Frees   int32   `json:"frees"`
	Files   []int32 `json:"file_closes,omitempty"` // Close calls of every file object the guest opened
}

type concResult struct {
	hist   []HOp
	counts []attemptCounts
}

// ---------------------------------------------------------------------------------------
// execution
// ---------------------------------------------------------------------------------------

func tailOps(c *ConcCase, base int) []Op {
	var ops []Op
	var slots []int
	idx := 0
	add := func(o Op) {
		if o.K == kInst || o.K == kHostInst || o.K == kLookup {
			slots = append(slots, idx)
		}
		idx++
	}
	for _, o := range c.Setup {
		add(o)
	}
	for _, th := range c.Threads {
		for _, o := range th {
			add(o)
		}
	}
	observe := func() {
		for _, n := range []string{"a", "b"} {
			ops = append(ops, Op{K: kLookup, Name: n})
		}
		for _, s := range slots {
			ops = append(ops, Op{K: kIsClosed, H: s})
		}
	}
	observe()
	ops = append(ops, Op{K: kRtClose})
	observe()
	for _, s := range slots {
		ops = append(ops, Op{K: kCall, H: s})
	}
	_ = base
	return ops
}

// runConc executes the program once and returns the recorded history.
func runConc(c *ConcCase) (*concResult, error) {
	total := c.numOps()
	tail := tailOps(c, total)
	e, err := newEnv(c.Engine, total+len(tail), c.COD)
	if err != nil {
		return nil, err
	}
	old := runtime.GOMAXPROCS(c.Procs)
	defer runtime.GOMAXPROCS(old)
	var clock atomic.Int64
	type rec struct {
		h   HOp
		raw api.Module
	}
	recs := make([]rec, total+len(tail))
	// rendezvous points: operations with the same Sync number wait (bounded spin) for each
	// other right before their invocation, which makes narrow overlaps likely.
	expect := map[int]int32{}
	maxSync := 0
	for _, th := range c.Threads {
		for _, o := range th {
			if o.Sync > 0 {
				expect[o.Sync]++
				if o.Sync > maxSync {
					maxSync = o.Sync
				}
			}
		}
	}
	arrived := make([]atomic.Int32, maxSync+1)
	do := func(idx, thread int, o Op) {
		r := &recs[idx]
		r.h = HOp{I: idx, T: thread, Op: o, Target: -1}
		delay(o.Y)
		if o.Sync > 0 && thread >= 0 {
			arrived[o.Sync].Add(1)
			for spin := 0; arrived[o.Sync].Load() < expect[o.Sync] && spin < 60000; spin++ {
				if spin%2000 == 1999 {
					runtime.Gosched()
				}
			}
		}
		r.h.Call = clock.Add(1)
		r.h.Res = e.exec(idx, o, &r.raw)
		r.h.Ret = clock.Add(1)
	}
	idx := 0
	for _, o := range c.Setup {
		do(idx, -1, o)
		idx++
	}
	var wg sync.WaitGroup
	start := make(chan struct{})
	for t, th := range c.Threads {
		wg.Add(1)
		go func(t, base int, th []Op) {
			defer wg.Done()
			<-start
			for j, o := range th {
				do(base+j, t, o)
			}
		}(t, idx, th)
		idx += len(th)
	}
	close(start)
	wg.Wait()
	e.releaseAllQuiet() // (concurrent programs do not keep guests parked across operations)
	for _, o := range tail {
		do(idx, -2, o)
		idx++
	}
	res := &concResult{}
	for i := range recs {
		r := &recs[i]
		switch r.h.Op.K {
		case kLookup:
			if !r.h.Res.Skip && r.h.Res.Panic == "" {
				r.h.Res.Inst = e.resolve(r.raw)
			}
		case kClose, kCloseC, kIsClosed, kCall, kCallCtx, kOpen:
			if !r.h.Res.Skip {
				r.h.Target = e.resolve(r.raw)
			}
		}
		if r.h.Res.Skip {
			continue // nothing was executed (empty slot): not part of the history
		}
		res.hist = append(res.hist, r.h)
	}
	var ids []int
	for id := range e.attempts {
		ids = append(ids, id)
	}
	sort.Ints(ids)
	for _, id := range ids {
		a := e.attempts[id]
		_, ok := a.mod.Load().(modBox)
		res.counts = append(res.counts, attemptCounts{ID: id, OK: ok, Host: a.host, HasNote: a.hasNote,
			Notes: a.notes.Load(), Code: a.code.Load(), Allocs: a.allocs.Load(), Frees: a.frees.Load(), Files: a.fileCloses()})
	}
	return res, nil
}

// ---------------------------------------------------------------------------------------
// registry model for porcupine
// ---------------------------------------------------------------------------------------

const (
	pInst uint8 = iota
	pLookup
	pMark   // Module.Close, step 1: compare-and-swap of the instance's closed word
	pUnlink // Module.Close, step 2 (only the call that won step 1): unlink under the store lock
	pRC1
	pRC2
	pCompile
	// strict model only
	pCloseAtomic
	pRCAtomic
	pObserve
)

type pIn struct {
	k    uint8
	name int8  // 0 anonymous / none, 1 "a", 2 "b"
	id   int16 // instance id (inst: the id it gets when it succeeds; mark/unlink/close/observe: target)
	dn   int16 // dense index of the target instance (mark/unlink)
	op   int16 // operation index (pairing of the two steps of one call)
	desc string
}

type pOut struct {
	ok     bool  // inst, compile: returned without error; observe: seen closed
	id     int16 // lookup: returned instance, -1 nil
	closed bool
}

const maxDense = 96

type regState struct {
	rtFlag      bool
	storeClosed bool
	rtCloser    int16
	owner       [3]int16        // id+1 of the registered owner of names 1,2; 0 none
	closer      [maxDense]int16 // per instance: op+1 of the Module.Close call that won its closed word
}

func nameIdx(n string) int8 {
	switch n {
	case "a":
		return 1
	case "b":
		return 2
	}
	return 0
}

func regStep(state, input, output interface{}) (bool, interface{}) {
	st := state.(regState)
	in := input.(pIn)
	out := output.(pOut)
	switch in.k {
	case pInst:
		if out.ok {
			if st.storeClosed || (in.name != 0 && st.owner[in.name] != 0) {
				return false, st
			}
			if in.name != 0 {
				st.owner[in.name] = in.id + 1
			}
			return true, st
		}
		return st.rtFlag || (in.name != 0 && st.owner[in.name] != 0), st
	case pLookup:
		if in.name == 0 {
			return out.id == -1, st
		}
		return st.owner[in.name] == out.id+1, st
	case pMark:
		// wins unless another Module.Close won before or the store close already closed everything
		if st.closer[in.dn] == 0 && !st.storeClosed {
			st.closer[in.dn] = in.op + 1
		}
		return true, st
	case pUnlink:
		if st.closer[in.dn] == 0 && !st.storeClosed {
			return false, st // step 2 cannot precede step 1
		}
		if st.closer[in.dn] == in.op+1 && in.name != 0 && st.owner[in.name] == in.id+1 {
			st.owner[in.name] = 0
		}
		return true, st
	case pRC1:
		if !st.rtFlag {
			st.rtFlag, st.rtCloser = true, in.op
		}
		return true, st
	case pRC2:
		if !st.rtFlag {
			return false, st
		}
		if st.rtCloser == in.op {
			st.storeClosed = true
			st.owner = [3]int16{}
		}
		return true, st
	case pCompile:
		return out.ok == !st.rtFlag, st
	}
	return false, st
}

var regModel = porcupine.Model{
	Init:  func() interface{} { return regState{rtCloser: -1} },
	Step:  regStep,
	Equal: func(a, b interface{}) bool { return a.(regState) == b.(regState) },
	DescribeOperation: func(in, out interface{}) string {
		return fmt.Sprintf("%s -> %+v", in.(pIn).desc, out)
	},
}

// strict model: every operation is one atomic step, the closed words included.
type strictState struct {
	rtClosed bool
	owner    [3]int16
	exists   [4]uint64
	closed   [4]uint64
}

func bit(b *[4]uint64, i int16) bool { return b[i/64]&(1<<(uint(i)%64)) != 0 }
func set(b *[4]uint64, i int16)      { b[i/64] |= 1 << (uint(i) % 64) }

func strictStep(state, input, output interface{}) (bool, interface{}) {
	st := state.(strictState)
	in := input.(pIn)
	out := output.(pOut)
	switch in.k {
	case pInst:
		if out.ok {
			if st.rtClosed || (in.name != 0 && st.owner[in.name] != 0) {
				return false, st
			}
			if in.name != 0 {
				st.owner[in.name] = in.id + 1
			}
			set(&st.exists, in.id)
			return true, st
		}
		return st.rtClosed || (in.name != 0 && st.owner[in.name] != 0), st
	case pLookup:
		if in.name == 0 {
			return out.id == -1, st
		}
		return st.owner[in.name] == out.id+1, st
	case pCloseAtomic:
		set(&st.closed, in.id)
		if in.name != 0 && st.owner[in.name] == in.id+1 {
			st.owner[in.name] = 0
		}
		return true, st
	case pRCAtomic:
		st.rtClosed = true
		st.owner = [3]int16{}
		for i := range st.closed {
			st.closed[i] |= st.exists[i]
		}
		return true, st
	case pCompile:
		return out.ok == !st.rtClosed, st
	case pObserve:
		return bit(&st.closed, in.id) == out.closed, st
	}
	return false, st
}

var strictModel = porcupine.Model{
	Init:  func() interface{} { return strictState{} },
	Step:  strictStep,
	Equal: func(a, b interface{}) bool { return a.(strictState) == b.(strictState) },
}

// registered: the instantiation got as far as registering the instance (it returned a module,
// or one of its start functions ended with an exit or another failure).
func registered(h HOp) bool {
	if (h.Op.K != kInst && h.Op.K != kHostInst) || h.Res.Panic != "" || h.Res.Skip {
		return false
	}
	return h.Res.Err == "" || h.Res.Kind == wz.KExit || h.Res.Kind == kindStartFailed
}

// selfClosing: a registered instantiation whose start function does not return normally
// closes its instance before InstantiateModule returns; code is the exit code it uses.
func selfClosing(h HOp) (bool, uint32) {
	sp, ok := startSpec[h.Op.Start]
	if !ok || h.Op.K != kInst || sp.kind == stOK || !registered(h) {
		return false, 0
	}
	if sp.kind == stSelf {
		return true, sp.code
	}
	return true, 0
}

// instNames maps instance id -> effective name for every registered instantiation.
func instNames(hist []HOp) map[int]string {
	m := map[int]string{}
	for _, h := range hist {
		if registered(h) {
			m[h.I] = h.Op.effName()
		}
	}
	return m
}

// porcupineOps translates the history for the relaxed (strict=false) or strict model.
func porcupineOps(hist []HOp, strict bool) []porcupine.Operation {
	names := instNames(hist)
	dense := map[int]int16{}
	{
		var ids []int
		for id := range names {
			ids = append(ids, id)
		}
		sort.Ints(ids)
		for i, id := range ids {
			dense[id] = int16(i % maxDense)
		}
	}
	var ops []porcupine.Operation
	add := func(h HOp, in pIn, out pOut) {
		in.desc = h.Op.String()
		cl := h.T + 2
		ops = append(ops, porcupine.Operation{ClientId: cl, Input: in, Call: h.Call, Output: out, Return: h.Ret})
	}
	for _, h := range hist {
		if h.Res.Skip || h.Res.Panic != "" {
			continue
		}
		switch h.Op.K {
		case kInst, kHostInst:
			add(h, pIn{k: pInst, name: nameIdx(h.Op.effName()), id: int16(h.I)}, pOut{ok: registered(h)})
			if sc, _ := selfClosing(h); sc {
				// registered, then closed again inside the same call
				if strict {
					add(h, pIn{k: pCloseAtomic, id: int16(h.I), name: nameIdx(names[h.I])}, pOut{})
				} else {
					add(h, pIn{k: pMark, id: int16(h.I), dn: dense[h.I], op: int16(h.I)}, pOut{})
					add(h, pIn{k: pUnlink, id: int16(h.I), dn: dense[h.I], op: int16(h.I), name: nameIdx(names[h.I])}, pOut{})
				}
			}
		case kLookup:
			add(h, pIn{k: pLookup, name: nameIdx(h.Op.Name)}, pOut{id: int16(h.Res.Inst)})
		case kClose, kCloseC, kCallCtx:
			if h.Target < 0 {
				continue
			}
			if strict {
				add(h, pIn{k: pCloseAtomic, id: int16(h.Target), name: nameIdx(names[h.Target])}, pOut{})
			} else {
				add(h, pIn{k: pMark, id: int16(h.Target), dn: dense[h.Target], op: int16(h.I)}, pOut{})
				add(h, pIn{k: pUnlink, id: int16(h.Target), dn: dense[h.Target], op: int16(h.I), name: nameIdx(names[h.Target])}, pOut{})
			}
		case kRtClose, kRtCloseC:
			if strict {
				add(h, pIn{k: pRCAtomic}, pOut{})
			} else {
				add(h, pIn{k: pRC1, op: int16(h.I)}, pOut{})
				add(h, pIn{k: pRC2, op: int16(h.I)}, pOut{})
			}
		case kCompile, kHostCompile:
			add(h, pIn{k: pCompile}, pOut{ok: h.Res.Err == ""})
		case kIsClosed:
			if strict && h.Target >= 0 {
				add(h, pIn{k: pObserve, id: int16(h.Target)}, pOut{closed: h.Res.Closed})
			}
		case kCall:
			if strict && h.Target >= 0 && (h.Res.Kind == wz.KOK || h.Res.Kind == wz.KExit) {
				add(h, pIn{k: pObserve, id: int16(h.Target)}, pOut{closed: h.Res.Kind == wz.KExit})
			}
		}
	}
	return ops
}

// ---------------------------------------------------------------------------------------
// closed-word rules
// ---------------------------------------------------------------------------------------

type closer struct {
	call, ret int64
	code      uint32
	rc        bool
	desc      string
}

// flagRules checks the IsClosed / Call observations and the exit codes of every instance
// against the close operations of the history. It returns "" or a description.
func flagRules(hist []HOp, counts []attemptCounts) string {
	names := instNames(hist)
	// Runtime.Close operations: the one that wins the runtime's closed word is among those
	// invoked before the first of them returned; all modules are closed once every such
	// candidate has returned (a losing call returns early).
	var rcs []closer
	for _, h := range hist {
		if (h.Op.K == kRtClose || h.Op.K == kRtCloseC) && h.Res.Panic == "" {
			rcs = append(rcs, closer{call: h.Call, ret: h.Ret, code: h.Op.closeCode(), rc: true, desc: h.String()})
		}
	}
	var cand []closer
	tSafe := int64(-1)
	if len(rcs) > 0 {
		first := rcs[0].ret
		for _, r := range rcs {
			if r.ret < first {
				first = r.ret
			}
		}
		for _, r := range rcs {
			if r.call < first {
				cand = append(cand, r)
				if r.ret > tSafe {
					tSafe = r.ret
				}
			}
		}
	}
	notified := map[int]attemptCounts{}
	for _, c := range counts {
		notified[c.ID] = c
	}
	ids := make([]int, 0, len(names))
	for id := range names {
		ids = append(ids, id)
	}
	sort.Ints(ids)
	for _, id := range ids {
		var closes []closer // Module.Close calls on this instance
		type obs struct {
			call, ret int64
			closed    bool
			hasCode   bool
			code      uint32
			desc      string
		}
		var ob []obs
		for _, h := range hist {
			if h.I == id {
				if sc, code := selfClosing(h); sc {
					closes = append(closes, closer{call: h.Call, ret: h.Ret, code: code, desc: h.String()})
				}
			}
			if h.Target != id || h.Res.Skip || h.Res.Panic != "" {
				continue
			}
			switch h.Op.K {
			case kClose, kCloseC:
				closes = append(closes, closer{call: h.Call, ret: h.Ret, code: h.Op.closeCode(), desc: h.String()})
			case kCallCtx:
				closes = append(closes, closer{call: h.Call, ret: h.Ret, code: ctxCode(h.Op.Var), desc: h.String()})
				if h.Res.Kind != wz.KExit {
					return fmt.Sprintf("instance %d: a call whose context was done did not return a sys.ExitError: %s", id, h)
				}
				ob = append(ob, obs{call: h.Call, ret: h.Ret, closed: true, hasCode: true, code: h.Res.Exit, desc: h.String()})
			case kIsClosed:
				ob = append(ob, obs{call: h.Call, ret: h.Ret, closed: h.Res.Closed, desc: h.String()})
			case kCall:
				switch h.Res.Kind {
				case wz.KOK:
					if h.Res.Val != 42 {
						return fmt.Sprintf("instance %d: call returned %d, want 42: %s", id, h.Res.Val, h)
					}
					ob = append(ob, obs{call: h.Call, ret: h.Ret, closed: false, desc: h.String()})
				case wz.KExit:
					ob = append(ob, obs{call: h.Call, ret: h.Ret, closed: true, hasCode: true, code: h.Res.Exit, desc: h.String()})
				default:
					return fmt.Sprintf("instance %d: call neither succeeded nor returned a sys.ExitError: %s", id, h)
				}
			}
		}
		if c, ok := notified[id]; ok && c.HasNote && c.Notes > 0 {
			const inf = int64(1) << 60
			ob = append(ob, obs{call: inf, ret: inf + 1, closed: true, hasCode: true, code: c.Code,
				desc: fmt.Sprintf("close notifier of instance %d received exit code %d", id, c.Code)})
		}
		all := append(append([]closer{}, closes...), cand...)
		firstClosedRet := int64(1) << 62
		for _, o := range ob {
			if o.closed {
				if o.ret < firstClosedRet {
					firstClosedRet = o.ret
				}
				started := false
				for _, k := range all {
					if k.call < o.ret {
						started = true
					}
				}
				if !started {
					return fmt.Sprintf("instance %d (name %q) was observed closed before any close of it or of the runtime had been invoked:\n  %s", id, names[id], o.desc)
				}
				continue
			}
			for _, k := range closes {
				if k.ret < o.call {
					return fmt.Sprintf("instance %d (name %q) was observed open after a close of it had returned:\n  close: %s\n  observation: %s", id, names[id], k.desc, o.desc)
				}
			}
			if tSafe >= 0 && tSafe < o.call {
				return fmt.Sprintf("instance %d (name %q) was observed open after Runtime.Close had returned (logical time %d):\n  observation: %s", id, names[id], tSafe, o.desc)
			}
			for _, p := range ob {
				if p.closed && p.ret < o.call {
					return fmt.Sprintf("instance %d (name %q) was observed closed and later open again:\n  %s\n  %s", id, names[id], p.desc, o.desc)
				}
			}
		}
		// exit codes: one winner
		var code uint32
		haveCode := false
		for _, o := range ob {
			if !o.hasCode {
				continue
			}
			if haveCode && o.code != code {
				return fmt.Sprintf("instance %d (name %q): two different exit codes were observed, %d and %d (the closed word must be set once):\n  %s", id, names[id], code, o.code, o.desc)
			}
			code, haveCode = o.code, true
		}
		if haveCode {
			okWinner := false
			for wi, w := range all {
				if w.code != code || !(w.call < firstClosedRet) {
					continue
				}
				beaten := false
				for ki, k := range closes {
					if !(wi < len(closes) && ki == wi) && k.ret < w.call {
						beaten = true // a close of this instance had fully returned before w began
					}
				}
				if !w.rc && tSafe >= 0 && tSafe < w.call {
					beaten = true
				}
				if !beaten {
					okWinner = true
				}
			}
			if !okWinner {
				var ds []string
				for _, k := range all {
					ds = append(ds, "  "+k.desc)
				}
				return fmt.Sprintf("instance %d (name %q): observed exit code %d cannot be the code of the close that took effect; closes:\n%s", id, names[id], code, strings.Join(ds, "\n"))
			}
		}
	}
	return ""
}

// quiescence checks the exactly-once counters recorded after the final Runtime.Close.
// It returns (message, lostNotification) where lostNotification marks the class of
// finding C10-closenotifier-race (no notification for an instance whose instantiation
// overlapped a close that could reach it).
func quiescence(hist []HOp, counts []attemptCounts) (string, bool) {
	byID := map[int]HOp{}
	for _, h := range hist {
		byID[h.I] = h
	}
	for _, c := range counts {
		h := byID[c.ID]
		if !c.OK {
			if c.Notes != 0 {
				return fmt.Sprintf("failed instantiation #%d: close notifier fired %d times", c.ID, c.Notes), false
			}
			if c.Allocs != c.Frees || c.Allocs > 1 {
				return fmt.Sprintf("failed instantiation #%d: memory allocated %d times, freed %d times", c.ID, c.Allocs, c.Frees), false
			}
			continue
		}
		wantAlloc := int32(1)
		if c.Host {
			wantAlloc = 0
		}
		for i, n := range c.Files {
			if n != 1 {
				return fmt.Sprintf("instance #%d (%s): file object %d that its guest had opened was closed %d times after everything was closed, want exactly 1", c.ID, h.Op, i, n), false
			}
		}
		if c.Allocs != wantAlloc || c.Frees != wantAlloc {
			return fmt.Sprintf("instance #%d (%s): memory allocated %d times and freed %d times after everything was closed, want %d/%d", c.ID, h.Op, c.Allocs, c.Frees, wantAlloc, wantAlloc), false
		}
		want := int32(0)
		if c.HasNote {
			want = 1
		}
		if c.Notes != want {
			lost := false
			if c.Notes == 0 {
				// did a close that can reach the instance start before the instantiation returned?
				for _, k := range hist {
					switch k.Op.K {
					case kRtClose, kRtCloseC:
						if k.Call < h.Ret && k.T != -2 {
							lost = true
						}
					case kClose, kCloseC:
						if k.Target == c.ID && k.Call < h.Ret {
							lost = true
						}
					}
				}
			}
			return fmt.Sprintf("instance #%d (%s): close notifier fired %d times after everything was closed, want exactly %d", c.ID, h.Op, c.Notes, want), lost
		}
	}
	return "", false
}

// closeErrorExpected: a close may report the I/O error of a file that fails on Close.
func closeErrorExpected(hist []HOp, h HOp) bool {
	for _, k := range hist {
		if k.Op.K == kInst && k.Op.Bad != 0 && (k.I == h.Target || h.Op.K == kRtClose || h.Op.K == kRtCloseC) {
			return true
		}
	}
	return false
}

// otherCloserInFlight: does another close that can reach the instance of h overlap h? Such a
// close may have set the closed word and not yet unlinked (in-flight closes are judged as two
// steps), which explains a closed-but-registered observation made by h.
func otherCloserInFlight(hist []HOp, h HOp) bool {
	for _, k := range hist {
		if k.I == h.I || !(k.Call < h.Ret && h.Call < k.Ret) {
			continue
		}
		switch k.Op.K {
		case kRtClose, kRtCloseC:
			return true
		case kClose, kCloseC, kCallCtx:
			if k.Target == h.Target {
				return true
			}
		case kInst:
			if sc, _ := selfClosing(k); sc && k.I == h.Target {
				return true
			}
		}
	}
	return false
}

// judge applies all oracles to a recorded history. kind: "" held, else a class name.
func judge(hist []HOp, counts []attemptCounts) (kind, msg string) {
	for _, h := range hist {
		if h.Res.Panic != "" || h.Res.Kind == wz.KInternal {
			return "panic", fmt.Sprintf("a panic escaped the API: %s", h)
		}
		if (h.Op.K == kLookup && h.Res.Inst == -2) || h.Target == -2 {
			return "unknown-module", fmt.Sprintf("an operation returned or used a module that no instantiation returned: %s", h)
		}
		if h.Op.K == kCallCtx {
			if !h.Res.Closed {
				return "context-close", fmt.Sprintf("the context of a running call ended but the module was not closed within %v: %s", closedWait, h)
			}
			if h.Res.Reg && !otherCloserInFlight(hist, h) {
				return "context-close", fmt.Sprintf("IsClosed() of the instance was observed true, yet Runtime.Module(name) still returned it %v later (guest still parked in its host function): %s", unlinkRetry, h)
			}
		}
		switch h.Op.K {
		case kOpen:
			if h.Res.Kind != wz.KOK || h.Res.Val != 0 {
				return "open", fmt.Sprintf("path_open of the guest failed: %s", h)
			}
		case kClose, kCloseC, kRtClose, kRtCloseC:
			if h.Res.Err != "" && !closeErrorExpected(hist, h) {
				return "close-error", fmt.Sprintf("a close returned an error: %s", h)
			}
		}
	}
	switch porcupine.CheckOperationsTimeout(regModel, porcupineOps(hist, false), 20*time.Second) {
	case porcupine.Illegal:
		return "not-linearizable", "the history is not linearizable with respect to the registry model"
	case porcupine.Unknown:
		evid.Label("conc-porcupine-timeout", 1)
	}
	if m := flagRules(hist, counts); m != "" {
		return "closed-word", m
	}
	if m, lost := quiescence(hist, counts); m != "" {
		if lost {
			return "lost-notification", m
		}
		return "exactly-once", m
	}
	return "", ""
}

func renderHistory(hist []HOp) string {
	hs := append([]HOp{}, hist...)
	sort.Slice(hs, func(i, j int) bool { return hs[i].Call < hs[j].Call })
	var sb strings.Builder
	for _, h := range hs {
		sb.WriteString("  " + h.String() + "\n")
	}
	return sb.String()
}

// ---------------------------------------------------------------------------------------
// exclusions of open race findings (set in check.json "env": VERIF_C10_EXCLUDE)
// ---------------------------------------------------------------------------------------

func excluded(class string) bool {
	for _, c := range strings.Split(os.Getenv("VERIF_C10_EXCLUDE"), ",") {
		if strings.TrimSpace(c) == class {
			return true
		}
	}
	return false
}

// class names:
//
//	closenotifier-race   C10-closenotifier-race: InstantiateModule attaches CloseNotifier and
//	                     CodeCloser to the instance after it was registered. Excluded: an
//	                     instantiation with a notifier or with its own code (InstantiateWithConfig,
//	                     host Instantiate) never runs in a goroutine phase that also contains a
//	                     Runtime.Close or a close through a handle obtained from Runtime.Module.
//	compile-during-close C10-compile-during-close-panics: CompileModule / host Compile that has
//	                     passed the closed check panics on the nil maps left by a concurrent
//	                     Runtime.Close. Excluded: no compilation in a goroutine phase that
//	                     contains a Runtime.Close.
//	engine-close-race    C10-race-engine-close (interpreter; fixed by 458ac39; for runs on older
//	                     trees). Excluded like compile-during-close.
//	codecloser-race      C10-codecloser-race: InstantiateModule attaches CodeCloser after the instance
//	                     was registered. Only the race detector sees it: excluded (race binary)
//	                     like the code-owning half of closenotifier-race.
//	deferred-close-race  C10-deferred-close-race: FailIfClosed runs the deferred resource release of a
//	                     module closed by context-done from every goroutine that observes it,
//	                     unsynchronised. Excluded: a call with a done context only targets an
//	                     anonymous instance created by the same goroutine and plain calls never
//	                     target slots of other goroutines, so that a single goroutine observes it.
//	wazevo-engine-close-race
//	                     C10-race-wazevo-engine-close: wazevo compileModule reads
//	                     engine.sharedFunctions without the engine mutex while engine.Close
//	                     writes it. Only the race detector sees it: excluded (race binary,
//	                     compiler engine) like compile-during-close.

// ---------------------------------------------------------------------------------------
// generator
// ---------------------------------------------------------------------------------------

func genConc(t *rapid.T) *ConcCase {
	probeKnown()
	c := &ConcCase{Kind: "conc", Engine: rapid.SampledFrom(wz.Engines).Draw(t, "engine"),
		Procs: rapid.SampledFrom([]int{2, 4, 16}).Draw(t, "gomaxprocs")}
	c.COD = rapid.IntRange(0, 9).Draw(t, "close-on-context-done") < 3
	exD, exP, exC := excluded("closenotifier-race"), excluded("compile-during-close"), excluded("engine-close-race")
	if excluded("wazevo-engine-close-race") && raceMode() && c.Engine == "compiler" {
		exC = true
	}
	hasRC := rapid.IntRange(0, 9).Draw(t, "has-runtime-close") < 4
	lookupCloses := rapid.IntRange(0, 9).Draw(t, "closes-through-lookup") < 5
	notifOK := !(exD && (hasRC || lookupCloses))
	exCC := excluded("codecloser-race") && raceMode()
	ownCodeOK := !(((exD || exCC) && (hasRC || lookupCloses)) || (hasRC && (exP || exC)))
	if exCC && (hasRC || lookupCloses) {
		evid.Label("excluded-codecloser-race", 1)
	}
	compileOK := !(hasRC && (exP || exC))
	hostPostOK := !(hasRC && exclHostAfterClose)
	if !notifOK {
		evid.Label("excluded-closenotifier-race", 1)
	}
	if !compileOK {
		evid.Label("excluded-compile-during-close", 1)
	}
	usedName := map[string]bool{} // for exclDupTaint: one instantiation per name
	nameGen := rapid.SampledFrom([]string{"a", "a", "a", "a", "a", "b", "b", "", ""})

	var kinds []string // kind of every op by global index, for slot selection
	slotsOf := func(pred func(k string) bool) []int {
		var r []int
		for i, k := range kinds {
			if pred(k) {
				r = append(r, i)
			}
		}
		return r
	}
	isInstK := func(k string) bool { return k == kInst || k == kHostInst }
	isSlotK := func(k string) bool { return isInstK(k) || k == kLookup }

	genInst := func(inThread bool) (Op, bool) {
		o := Op{K: kInst, Bin: rapid.IntRange(0, 1).Draw(t, "bin")}
		if rapid.IntRange(0, 4).Draw(t, "setname") > 0 {
			o.Set, o.Name = true, nameGen.Draw(t, "name")
		}
		if rapid.IntRange(0, 5).Draw(t, "frombin") == 0 && (!inThread || (ownCodeOK && compileOK)) {
			o.FromBin = true
		}
		if rapid.Bool().Draw(t, "failing-file-closes") {
			o.Bad = rapid.IntRange(1, 1<<(numFiles+1)-1).Draw(t, "bad-files")
		}
		o.NoNotif = inThread && !notifOK
		if !o.NoNotif {
			o.ND = rapid.SampledFrom([]int{0, 0, 0, 1, 2, 5, 20}).Draw(t, "notifier-delay")
		}
		if rapid.IntRange(0, 9).Draw(t, "with-start") >= 7 {
			// kill_b closes whichever module owns "b" at that moment: sequential programs only
			o.Start = rapid.SampledFrom([]string{"s_ok", "s_trap", "s_self0", "s_self3", "s_foreign0", "s_foreign5"}).Draw(t, "start")
			o.DefStart = o.FromBin && rapid.Bool().Draw(t, "as-_start")
		}
		if n := o.effName(); exclDupTaint && n != "" {
			if usedName[n] {
				evid.Label("excluded-dup-taint", 1)
				return o, false
			}
			usedName[n] = true
		}
		return o, true
	}
	genHost := func(k string, inThread bool) (Op, bool) {
		o := Op{K: k, Name: rapid.SampledFrom([]string{"a", "a", "b"}).Draw(t, "name")}
		if inThread && (!compileOK || !hostPostOK || (k == kHostInst && !ownCodeOK)) {
			return o, false
		}
		if k == kHostInst {
			o.NoNotif = inThread && !notifOK
			if exclDupTaint {
				if usedName[o.Name] {
					evid.Label("excluded-dup-taint", 1)
					return o, false
				}
				usedName[o.Name] = true
			}
		}
		return o, true
	}

	// setup
	ns := rapid.IntRange(0, 4).Draw(t, "nsetup")
	for i := 0; i < ns; i++ {
		var o Op
		ok := false
		switch rapid.SampledFrom([]string{kInst, kInst, kInst, kHostInst, kCompile}).Draw(t, "setup-kind") {
		case kInst:
			o, ok = genInst(false)
		case kHostInst:
			o, ok = genHost(kHostInst, false)
		case kCompile:
			o, ok = Op{K: kCompile, Var: rapid.IntRange(1, 12).Draw(t, "variant")}, true
		}
		if ok {
			c.Setup = append(c.Setup, o)
			kinds = append(kinds, o.K)
		}
	}
	// files: the guests of some setup instances open 1-4 files before the goroutines start
	for i, o := range append([]Op{}, c.Setup...) {
		if o.K != kInst || rapid.IntRange(0, 9).Draw(t, "open-files") >= 6 {
			continue
		}
		for _, f := range rapid.SliceOfNDistinct(rapid.IntRange(0, numFiles-1), 1, 4, rapid.ID[int]).Draw(t, "files") {
			c.Setup = append(c.Setup, Op{K: kOpen, H: i, Var: f, N: drawOpenCount(t)})
			kinds = append(kinds, kOpen)
		}
	}
	nt := rapid.IntRange(2, 8).Draw(t, "goroutines")
	rcThread := rapid.IntRange(0, nt-1).Draw(t, "rc-thread")
	rc2Thread := -1
	if hasRC && rapid.IntRange(0, 4).Draw(t, "second-rc") == 0 {
		rc2Thread = rapid.IntRange(0, nt-1).Draw(t, "rc2-thread")
	}
	// lay out lengths first so that ops may name slots of other goroutines
	lens := make([]int, nt)
	base := make([]int, nt)
	tot := len(kinds)
	for i := range lens {
		lens[i] = rapid.IntRange(2, 10).Draw(t, "nops")
		base[i] = tot
		tot += lens[i]
	}
	all := make([]string, tot)
	copy(all, kinds)
	kinds = all
	yield := rapid.SampledFrom([]int{0, 0, 0, 0, 1, 1, 2, 3, 4, 10, 40})
	weights := []string{kInst, kInst, kInst, kInst, kInst, kLookup, kLookup, kLookup, kClose, kClose, kClose, kCloseC, kCloseC,
		kIsClosed, kIsClosed, kCall, kCall, kCompile, kHostInst, kHostCompile}
	if c.COD {
		weights = append(weights, kCallCtx, kCallCtx)
	}
	exDC := c.COD && excluded("deferred-close-race")
	if exDC {
		evid.Label("excluded-deferred-close-race", 1)
	}
	anon := map[int]bool{} // slots of anonymous guest instantiations
	for ti := 0; ti < nt; ti++ {
		rcPos, rc2Pos := -1, -1
		if hasRC && ti == rcThread {
			rcPos = rapid.IntRange(0, lens[ti]-1).Draw(t, "rc-pos")
		}
		if ti == rc2Thread {
			rc2Pos = rapid.IntRange(0, lens[ti]-1).Draw(t, "rc2-pos")
		}
		var th []Op
		for j := 0; j < lens[ti]; j++ {
			gi := base[ti] + j
			var o Op
			if j == rcPos || j == rc2Pos {
				o = Op{K: kRtClose}
				if rapid.Bool().Draw(t, "rc-with-code") {
					o = Op{K: kRtCloseC, Code: uint32(rapid.IntRange(100, 103).Draw(t, "rc-code"))}
				}
			} else {
				for try := 0; ; try++ {
					k := rapid.SampledFrom(weights).Draw(t, "kind")
					ok := true
					switch k {
					case kInst:
						o, ok = genInst(true)
					case kHostInst, kHostCompile:
						o, ok = genHost(k, true)
					case kCompile:
						o, ok = Op{K: k, Var: rapid.IntRange(1, 12).Draw(t, "variant")}, compileOK
					case kLookup:
						o = Op{K: k, Name: nameGen.Draw(t, "name")}
					default: // handle operations
						pred := isSlotK
						if (k == kClose || k == kCloseC || k == kCallCtx) && !lookupCloses {
							pred = isInstK
						}
						// prefer slots that are certainly filled: setup and own earlier operations
						var cands []int
						for _, s := range slotsOf(pred) {
							own := s >= base[ti] && s < gi
							if exDC && k == kCallCtx && !(own && anon[s]) {
								continue
							}
							if exDC && k == kCall && !own && s >= len(c.Setup) {
								continue
							}
							if s < len(c.Setup) || (s >= base[ti] && s < gi) {
								cands = append(cands, s, s, s)
							} else if s < base[ti] || s >= base[ti]+lens[ti] {
								cands = append(cands, s)
							}
						}
						if len(cands) == 0 {
							ok = false
							break
						}
						o = Op{K: k, H: rapid.SampledFrom(cands).Draw(t, "slot")}
						if k == kCloseC {
							o.Code = uint32(rapid.IntRange(1, 9).Draw(t, "code"))
						}
						if k == kCallCtx {
							o.Var = rapid.IntRange(0, 3).Draw(t, "context-end")
						}
					}
					if ok {
						break
					}
					if try > 20 {
						o = Op{K: kLookup, Name: "a"}
						break
					}
				}
			}
			o.Y = yield.Draw(t, "yield")
			if o.K == kInst && o.effName() == "" {
				anon[gi] = true
			}
			kinds[gi] = o.K
			th = append(th, o)
		}
		c.Threads = append(c.Threads, th)
	}
	// collision groups: 2..4 goroutines get one conflicting operation each, joined by a
	// rendezvous point. Only when no exclusion of a known finding restricts the program.
	if !exclDupTaint && !exclHostAfterClose && strings.TrimSpace(os.Getenv("VERIF_C10_EXCLUDE")) == "" {
		isRC := func(o Op) bool { return o.K == kRtClose || o.K == kRtCloseC }
		var setupInst []int
		for i, o := range c.Setup {
			if o.K == kInst || o.K == kHostInst {
				setupInst = append(setupInst, i)
			}
		}
		taken := map[[2]int]bool{}
		ng := rapid.SampledFrom([]int{0, 1, 1, 1, 2}).Draw(t, "collision-groups")
		for g := 1; g <= ng; g++ {
			typ := rapid.SampledFrom([]string{"closes", "closes", "insts", "close-vs-inst", "rc-vs", "rc-vs"}).Draw(t, "collision-type")
			if (typ == "closes" || typ == "close-vs-inst") && len(setupInst) == 0 {
				typ = "insts"
			}
			if typ == "rc-vs" && !hasRC {
				typ = "insts"
			}
			k := rapid.IntRange(2, min(4, nt)).Draw(t, "collision-size")
			members := rapid.SliceOfNDistinct(rapid.IntRange(0, nt-1), k, k, rapid.ID[int]).Draw(t, "collision-threads")
			target, name := -1, rapid.SampledFrom([]string{"a", "a", "b"}).Draw(t, "collision-name")
			if len(setupInst) > 0 {
				target = rapid.SampledFrom(setupInst).Draw(t, "collision-target")
				if typ == "close-vs-inst" {
					if n := c.Setup[target].effName(); n != "" {
						name = n
					}
				}
			}
			mkInst := func() Op {
				return Op{K: kInst, Bin: rapid.IntRange(0, 1).Draw(t, "bin"), Set: true, Name: name,
					FromBin: rapid.IntRange(0, 5).Draw(t, "frombin") == 0, ND: rapid.SampledFrom([]int{0, 0, 1, 5}).Draw(t, "notifier-delay")}
			}
			mkClose := func() Op {
				if rapid.Bool().Draw(t, "with-code") {
					return Op{K: kCloseC, H: target, Code: uint32(rapid.IntRange(1, 9).Draw(t, "code"))}
				}
				return Op{K: kClose, H: target}
			}
			if typ == "rc-vs" {
				// the goroutine that closes the runtime is the first member
				has := false
				for _, m := range members {
					has = has || m == rcThread
				}
				if !has {
					members[0] = rcThread
				}
			}
			for mi, ti := range members {
				var pos int
				var o Op
				if typ == "rc-vs" && ti == rcThread {
					pos = -1
					for j, x := range c.Threads[ti] {
						if isRC(x) && pos < 0 {
							pos = j
						}
					}
					if pos < 0 || taken[[2]int{ti, pos}] {
						continue
					}
					o = c.Threads[ti][pos]
				} else {
					pos = rapid.IntRange(0, lens[ti]-1).Draw(t, "collision-pos")
					if isRC(c.Threads[ti][pos]) || taken[[2]int{ti, pos}] {
						continue
					}
					switch typ {
					case "closes":
						o = mkClose()
					case "insts":
						o = mkInst()
					case "close-vs-inst":
						switch {
						case mi == 0:
							o = mkClose()
						case mi == 2:
							o = Op{K: kLookup, Name: name}
						default:
							o = mkInst()
						}
					case "rc-vs":
						switch v := rapid.IntRange(0, 5).Draw(t, "versus"); {
						case v == 0 && target >= 0:
							o = mkClose()
						case v == 1:
							o = Op{K: kCompile, Var: rapid.IntRange(1, 12).Draw(t, "variant")}
						case v == 2:
							o = Op{K: kHostInst, Name: name}
						case v == 3:
							o = Op{K: kLookup, Name: name}
						default:
							o = mkInst()
						}
					}
				}
				o.Sync, o.Y = g, 0
				taken[[2]int{ti, pos}] = true
				c.Threads[ti][pos] = o
			}
		}
	}
	return c
}

// concStats: the non-triviality rule of the concurrent part, evaluated on the history.
func concStats(hist []HOp) (nontrivial bool, labels []string) {
	names := instNames(hist)
	var overlapRC, contend, dupLoser, reinst, lookupHit, closeRace bool
	for _, h := range hist {
		if h.T < 0 {
			continue
		}
		switch h.Op.K {
		case kRtClose, kRtCloseC:
			for _, k := range hist {
				if k.T >= 0 && k.I != h.I && k.Call < h.Ret && h.Call < k.Ret && !k.Res.Skip {
					overlapRC = true
				}
			}
		case kInst, kHostInst:
			n := h.Op.effName()
			if n == "" {
				continue
			}
			for _, k := range hist {
				if k.I == h.I || k.Res.Skip || k.T == -2 {
					continue
				}
				same := false
				switch k.Op.K {
				case kInst, kHostInst:
					same = k.Op.effName() == n
				case kClose, kCloseC:
					same = k.Target >= 0 && names[k.Target] == n
				}
				if !same {
					continue
				}
				if k.Call < h.Ret {
					reinst = true
					if h.Call < k.Ret {
						contend = true
					}
				}
			}
			if h.Res.Err != "" {
				dupLoser = true
			}
		case kLookup:
			if h.Res.Inst >= 0 {
				lookupHit = true
			}
		case kClose, kCloseC:
			for _, k := range hist {
				if k.I != h.I && (k.Op.K == kClose || k.Op.K == kCloseC) && k.Target == h.Target && h.Target >= 0 && k.Call < h.Ret && h.Call < k.Ret {
					closeRace = true
				}
			}
		}
	}
	nontrivial = reinst || overlapRC
	add := func(b bool, l string) {
		if b {
			labels = append(labels, l)
		}
	}
	add(overlapRC, "conc-op-overlaps-runtime-close")
	add(reinst, "conc-instantiate-after-or-during-same-name-op")
	add(contend, "conc-same-name-ops-overlap")
	add(dupLoser, "conc-instantiate-rejected")
	add(lookupHit, "conc-lookup-hit")
	add(closeRace, "conc-closes-of-one-instance-overlap")
	var startAbn, ctxClose bool
	for _, h := range hist {
		if sc, _ := selfClosing(h); sc {
			startAbn = true
		}
		if h.Op.K == kCallCtx && h.Target >= 0 {
			ctxClose = true
		}
	}
	var withFiles bool
	for _, h := range hist {
		withFiles = withFiles || h.Op.K == kOpen
	}
	add(withFiles, "conc-instances-with-open-files")
	add(startAbn, "conc-start-function-ends-abnormally")
	add(ctxClose, "conc-call-with-done-context")
	return
}

func concKey(c *ConcCase, hist []HOp) uint64 {
	var sb strings.Builder
	fmt.Fprintf(&sb, "%s/%d/%v/%+v/%+v", c.Engine, c.Procs, c.COD, c.Setup, c.Threads)
	hs := append([]HOp{}, hist...)
	sort.Slice(hs, func(i, j int) bool { return hs[i].Call < hs[j].Call })
	for _, h := range hs {
		fmt.Fprintf(&sb, "|%d:%v", h.I, h.Res)
	}
	return evid.Hash64(sb.String())
}

type concReplay struct {
	ConcCase
	Counts []attemptCounts `json:"counts,omitempty"`
}

func raceMode() bool { return os.Getenv("VERIF_RACE") != "" }

func runConcProp(t *rapid.T) {
	c := genConc(t)
	evid.Journal(c)
	reps := 2
	for rep := 0; rep < reps; rep++ {
		res, err := runConc(c)
		if err != nil {
			t.Fatalf("%v", err)
		}
		kind, msg := judge(res.hist, res.counts)
		if kind != "" {
			rc := concReplay{ConcCase: *c, Counts: res.counts}
			rc.History = res.hist
			full := fmt.Sprintf("%s\nengine=%s GOMAXPROCS=%d; recorded history (logical clock):\n%s", msg, c.Engine, c.Procs, renderHistory(res.hist))
			id := ""
			switch kind {
			case "lost-notification":
				id = "C10-closenotifier-race"
			case "panic":
				if strings.Contains(msg, "nil map") {
					id = "C10-compile-during-close-panics"
				}
			}
			if id != "" && evid.KnownOpen(id) {
				evid.KnownFinding(id, "%s", full)
				evid.Label("conc-known-finding-hit", 1)
				continue
			}
			evid.Fail(t, rc, "%s", full)
		}
		nt, labels := concStats(res.hist)
		if porcupine.CheckOperationsTimeout(strictModel, porcupineOps(res.hist, true), 5*time.Second) == porcupine.Illegal {
			labels = append(labels, "conc-strict-single-step-model-illegal")
			if evid.WantSample("strict-model-illegal", 1) {
				evid.Sample("strict-model-illegal", 1, renderHistory(res.hist))
			}
		}
		labels = append(labels, "conc-"+c.Engine, fmt.Sprintf("conc-gomaxprocs-%d", c.Procs))
		evid.Case(concKey(c, res.hist), nt, labels...)
		if nt && evid.WantSample("concurrent", 1) {
			evid.Sample("concurrent", 1, map[string]any{"program": c, "history": strings.Split(renderHistory(res.hist), "\n")})
		}
	}
}

func TestConcurrent(t *testing.T) {
	if evid.ReplayPath() != "" || os.Getenv("VERIF_C10_CHILD") != "" {
		t.Skip()
	}
	n := evid.Scale(4000, 192000)
	if raceMode() {
		n = evid.Scale(500, 12000)
	}
	evid.Check(t, "concurrent", n, runConcProp)
}

// ---------------------------------------------------------------------------------------
// race detector: reports of this process, and child-process probes of the race findings
// ---------------------------------------------------------------------------------------

func classifyRace(report string) string {
	switch {
	case strings.Contains(report, "wazevo.(*engine).Close") && strings.Contains(report, "wazevo.(*engine).compileModule"):
		return "C10-race-wazevo-engine-close"
	case strings.Contains(report, "ensureResourcesClosed") && strings.Contains(report, "InstantiateModule"):
		return "C10-closenotifier-race"
	case strings.Contains(report, "interpreter.(*engine).Close"):
		return "C10-race-engine-close"
	}
	return ""
}

func splitRaceReports(text string) []string {
	var out []string
	for _, part := range strings.Split(text, "WARNING: DATA RACE")[1:] {
		if i := strings.Index(part, "=================="); i >= 0 {
			part = part[:i]
		}
		out = append(out, "WARNING: DATA RACE"+part)
	}
	return out
}

// TestRaceReports runs last in the -race binary: the driver points GORACE log_path at a
// file, so reports of this process are read from there and turned into violations (or
// known-finding hits).
func TestRaceReports(t *testing.T) {
	if evid.ReplayPath() != "" || os.Getenv("VERIF_C10_CHILD") != "" || !raceMode() {
		t.Skip()
	}
	prefix := ""
	for _, f := range strings.Fields(os.Getenv("GORACE")) {
		if strings.HasPrefix(f, "log_path=") {
			prefix = strings.TrimPrefix(f, "log_path=")
		}
	}
	if prefix == "" {
		return
	}
	files, _ := filepath.Glob(fmt.Sprintf("%s.%d", prefix, os.Getpid()))
	seen := map[string]bool{}
	for _, f := range files {
		b, _ := os.ReadFile(f)
		for _, rep := range splitRaceReports(string(b)) {
			if !strings.Contains(rep, "tetratelabs/wazero") && !strings.Contains(rep, "/repo/") {
				continue
			}
			id := classifyRace(rep)
			key := id + "|" + firstFrames(rep)
			if seen[key] {
				continue
			}
			seen[key] = true
			if id == "" {
				id = "C10-unclassified-race"
			}
			if evid.Finding(id, "race-detector", map[string]any{"kind": "race-report", "report": rep}, "data race reported inside wazero during the concurrent programs:\n%s", clip(rep, 2500)) {
				t.Fail()
			}
		}
	}
}

func firstFrames(rep string) string {
	var fr []string
	for _, l := range strings.Split(rep, "\n") {
		l = strings.TrimSpace(l)
		if strings.HasPrefix(l, "github.com/tetratelabs/wazero") {
			fr = append(fr, l)
			if len(fr) == 2 {
				break
			}
		}
	}
	return strings.Join(fr, ";")
}

func clip(s string, n int) string {
	if len(s) > n {
		return s[:n] + "..."
	}
	return s
}

// child probes -------------------------------------------------------------------------

// probeNotifierRace: instantiate with a close notifier while another goroutine closes the
// runtime. Returns the number of iterations in which the notification was lost.
func probeNotifierRace(iter int, fromBin bool) (lost int, detail string) {
	for i := 0; i < iter; i++ {
		c := &ConcCase{Kind: "conc", Engine: wz.Engines[i%2], Procs: 4,
			Threads: [][]Op{{{K: kInst, Bin: 1, Set: true, Name: "a", Y: i % 5, FromBin: fromBin, NoNotif: fromBin}}, {{K: kRtClose, Y: (i / 5) % 5}}}}
		res, err := runConc(c)
		if err != nil {
			return lost, err.Error()
		}
		if m, l := quiescence(res.hist, res.counts); l {
			lost++
			if detail == "" {
				detail = m + "\n" + renderHistory(res.hist)
			}
		}
	}
	return
}

// probeCompileDuringClose: CompileModule of fresh binaries / host Compile while another
// goroutine closes the runtime.
func probeCompileDuringClose(iter int) (panics int, detail string) {
	for i := 0; i < iter; i++ {
		k := Op{K: kCompile, Var: 1 + i%12, Y: i % 4}
		if i%3 == 2 {
			k = Op{K: kHostCompile, Name: "b", Y: i % 4}
		}
		c := &ConcCase{Kind: "conc", Engine: wz.Engines[i%2], Procs: 4,
			Threads: [][]Op{{k, k}, {{K: kRtClose, Y: (i / 4) % 6}}, {k}}}
		res, err := runConc(c)
		if err != nil {
			return panics, err.Error()
		}
		for _, h := range res.hist {
			if h.Res.Panic != "" {
				panics++
				if detail == "" {
					detail = fmt.Sprintf("a panic escaped the API: %s\nengine=%s; recorded history:\n%s", h, c.Engine, renderHistory(res.hist))
				}
				break
			}
		}
	}
	return
}

// probeDeferredClose: several goroutines use a module at the moment it is closed because the
// context of running calls ended. Returns the number of runs in which an oracle failed.
func probeDeferredClose(iter int) (bad int, detail string) {
	for i := 0; i < iter; i++ {
		c := &ConcCase{Kind: "conc", Engine: wz.Engines[i%2], Procs: 4, COD: true,
			Setup: []Op{{K: kInst, Bin: 1, Set: true, Name: "a"}},
			Threads: [][]Op{
				{{K: kCallCtx, H: 0, Var: i % 4, Sync: 1}, {K: kCall, H: 0}},
				{{K: kCallCtx, H: 0, Var: (i / 4) % 4, Sync: 1}, {K: kCall, H: 0}},
				{{K: kCall, H: 0, Sync: 1}, {K: kCall, H: 0}, {K: kClose, H: 0}},
			}}
		res, err := runConc(c)
		if err != nil {
			return bad, err.Error()
		}
		if kind, msg := judge(res.hist, res.counts); kind != "" {
			bad++
			if detail == "" || (strings.Contains(msg, "runtime error") && !strings.Contains(detail, "runtime error")) {
				detail = msg + "\nengine=" + c.Engine + "; recorded history:\n" + renderHistory(res.hist)
			}
		}
	}
	return
}

var probeText = map[string]string{
	"notifier":   "{InstantiateModule of a pre-compiled module with a CloseNotifier || Runtime.Close}, 300 runs",
	"codecloser": "{InstantiateWithConfig(bytes) without notifier || Runtime.Close}, 300 runs",
	"compile":    "{CompileModule of fresh binaries / HostModuleBuilder.Compile || Runtime.Close}, 300 runs",
}

// TestProbeChild is what the child process of TestRaceFindings runs.
func TestProbeChild(t *testing.T) {
	switch os.Getenv("VERIF_C10_CHILD") {
	case "notifier":
		lost, _ := probeNotifierRace(300, false)
		fmt.Printf("CHILD lost-notifications=%d\n", lost)
	case "codecloser":
		probeNotifierRace(300, true)
	case "compile":
		p, _ := probeCompileDuringClose(300)
		fmt.Printf("CHILD panics=%d\n", p)
	default:
		t.Skip()
	}
}

func runChild(which string) string {
	cmd := exec.Command(os.Args[0], "-test.run", "^TestProbeChild$", "-test.count=1", "-test.timeout=120s")
	env := []string{}
	for _, kv := range os.Environ() {
		if strings.HasPrefix(kv, "GORACE=") || strings.HasPrefix(kv, "VERIF_SHARD_OUT=") || strings.HasPrefix(kv, "VERIF_JOURNAL=") {
			continue
		}
		env = append(env, kv)
	}
	cmd.Env = append(env, "VERIF_C10_CHILD="+which, "GORACE=halt_on_error=0")
	out, _ := cmd.CombinedOutput()
	return string(out)
}

// TestRaceFindings re-runs, in a child process under the race detector, the fixed programs
// of the race findings, so that they stay reported while the generator avoids their class.
func TestRaceFindings(t *testing.T) {
	if evid.ReplayPath() != "" || os.Getenv("VERIF_C10_CHILD") != "" || !raceMode() {
		t.Skip()
	}
	if sh, _ := evid.Shard(); sh != 0 {
		t.Skip()
	}
	reported := map[string]bool{}
	for _, probe := range []string{"notifier", "codecloser", "compile"} {
		out := runChild(probe)
		for _, rep := range splitRaceReports(out) {
			if !strings.Contains(rep, "tetratelabs/wazero") {
				continue
			}
			id := classifyRace(rep)
			if id == "C10-closenotifier-race" && probe == "codecloser" {
				id = "C10-codecloser-race" // same frames; this probe attaches no notifier
			}
			if id == "" {
				id = "C10-unclassified-race"
			}
			if reported[id] {
				continue
			}
			reported[id] = true
			if evid.Finding(id, "race-probe-"+id, map[string]any{"kind": "race-report", "probe": probe, "report": rep},
				"data race inside wazero (probe %q: %s)\n%s", probe, probeText[probe], clip(rep, 2500)) {
				t.Fail()
			}
		}
	}
	for _, id := range []string{"C10-closenotifier-race", "C10-codecloser-race", "C10-race-engine-close", "C10-race-wazevo-engine-close"} {
		if !reported[id] {
			evid.Note("%s: not reported by the race detector in this run of the probes", id)
		}
	}
}

// TestConcFindings: probes that need no race detector (lost notification, escaping panic).
func TestConcFindings(t *testing.T) {
	if evid.ReplayPath() != "" || os.Getenv("VERIF_C10_CHILD") != "" || raceMode() {
		t.Skip()
	}
	// the two probes run on different shards (1 and 2, modulo the shard count)
	if evid.Mine(1) {
		if lost, detail := probeNotifierRace(3000, false); lost > 0 {
			c := map[string]any{"kind": "probe", "probe": "notifier", "iterations": 3000}
			if evid.Finding("C10-closenotifier-race", "probe-closenotifier-race", c, "%d of 3000 runs of {InstantiateModule with CloseNotifier || Runtime.Close}: the instance was closed without its notification\n%s", lost, detail) {
				t.Fail()
			}
		} else {
			evid.Note("C10-closenotifier-race: no lost notification in 3000 runs of the probe")
		}
	}
	if evid.Mine(3) {
		if n, detail := probeDeferredClose(2000); n > 0 {
			c := map[string]any{"kind": "probe", "probe": "deferred", "iterations": 2000}
			// C10-deferred-close-race (fixed by bb97b82): any recurrence is a violation
			evid.Violation("probe-deferred-close-race", c, "%d of 2000 runs of {two calls ended by context-done || call; Close} on one instance (WithCloseOnContextDone) failed an oracle\n%s", n, detail)
			t.Fail()
		}
	}
	if evid.Mine(2) {
		if p, detail := probeCompileDuringClose(1500); p > 0 {
			c := map[string]any{"kind": "probe", "probe": "compile", "iterations": 1500}
			if evid.Finding("C10-compile-during-close-panics", "probe-compile-during-close", c, "%d of 1500 runs of {CompileModule / HostModuleBuilder.Compile || Runtime.Close} ended in a panic instead of an error\n%s", p, detail) {
				t.Fail()
			}
		} else {
			evid.Note("C10-compile-during-close-panics: no panic in 1500 runs of the probe")
		}
	}
}

// ---------------------------------------------------------------------------------------
// replay
// ---------------------------------------------------------------------------------------

func TestReplay(t *testing.T) {
	p := evid.ReplayPath()
	if p == "" {
		t.Skip()
	}
	var head struct {
		Kind  string `json:"kind"`
		Probe string `json:"probe"`
	}
	if _, err := evid.LoadReplay(p, &head); err != nil {
		t.Fatal(err)
	}
	switch head.Kind {
	case "seq":
		var c SeqCase
		if _, err := evid.LoadReplay(p, &c); err != nil {
			t.Fatal(err)
		}
		probeKnown()
		if msg := runSeqCase(c); msg != "" {
			evid.Violation("replay", c, "%s", msg)
			t.Fatal(msg)
		}
	case "conc":
		var c concReplay
		if _, err := evid.LoadReplay(p, &c); err != nil {
			t.Fatal(err)
		}
		if len(c.History) > 0 {
			// the recorded history is the artefact: judge it again, deterministically
			if kind, msg := judge(c.History, c.Counts); kind != "" {
				full := msg + "\nrecorded history:\n" + renderHistory(c.History)
				evid.Violation("replay", c, "%s", full)
				t.Fatal(full)
			}
			return
		}
		// a journaled program without history (process death): execute it repeatedly
		cc := c.ConcCase
		for i := 0; i < 300; i++ {
			res, err := runConc(&cc)
			if err != nil {
				t.Fatal(err)
			}
			if kind, msg := judge(res.hist, res.counts); kind != "" {
				rc := concReplay{ConcCase: cc, Counts: res.counts}
				rc.History = res.hist
				full := msg + "\nrecorded history:\n" + renderHistory(res.hist)
				evid.Violation("replay", rc, "%s", full)
				t.Fatal(full)
			}
		}
	case "probe":
		var lost int
		var detail string
		if head.Probe == "compile" {
			lost, detail = probeCompileDuringClose(3000)
		} else if head.Probe == "deferred" {
			lost, detail = probeDeferredClose(3000)
		} else {
			lost, detail = probeNotifierRace(3000, false)
		}
		if lost > 0 {
			evid.Violation("replay", head, "probe %s: %d of 3000 runs failed\n%s", head.Probe, lost, detail)
			t.Fatal(detail)
		}
	case "race-report":
		b, _ := os.ReadFile(p)
		var v any
		json.Unmarshal(b, &v)
		t.Logf("race reports are not re-executable; see the report text in %s", p)
	default:
		t.Fatalf("unknown replay kind %q", head.Kind)
	}
}
