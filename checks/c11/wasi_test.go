package c11

import (
	"bytes"
	"context"
	"encoding/binary"
	"fmt"
	"github.com/tetratelabs/wazero/experimental/sock"
	"os"
	"path/filepath"
	"sort"
	"strings"
	"syscall"
	"testing"
	"testing/fstest"
	"time"

	"github.com/tetratelabs/wazero"
	"pgregory.net/rapid"

	"verif/internal/evid"
	"verif/internal/wasiproxy"
	"verif/internal/wz"
)

// WASI-level isolation: N guests (each with its own pre-opened directory of identical initial
// content, its own args/environment/stdio and the default fake clocks and random source) issue
// WASI calls interleaved step by step. Metamorphic oracle: the complete trace of every guest
// (errno and decoded output of each call, stdout/stderr bytes, final directory tree) equals
// the trace of the same calls made by a lone guest in a fresh runtime. Inode numbers are
// mapped to the path they belong to inside the guest's own directory, so an inode that leaks
// from another guest's directory shows up as a different name.

type WOp struct {
	Inst int    `json:"inst"`
	K    string `json:"k"`
	A    int64  `json:"a,omitempty"`
	B    int64  `json:"b,omitempty"`
	C    int64  `json:"c,omitempty"`
	S    string `json:"s,omitempty"`
}

type WCase struct {
	Engine       string `json:"engine"`
	N            int    `json:"n"`
	Ops          []WOp  `json:"ops"`
	BaseMounts   int    `json:"base_mounts,omitempty"`        // every guest's FSConfig is derived from one common FSConfig with this many immutable in-memory mounts; the private directory is mounted after them
	Sock         bool   `json:"sock,omitempty"`               // every instantiation uses one context carrying an experimental/sock configuration with a TCP listener on 127.0.0.1:0 (pre-opened after the directories)
	SharedStdout bool   `json:"shared_stdout_file,omitempty"` // every guest gets the same *os.File as stdout (the embedder's file must survive a guest's fd_close(1) / module close)
}

type wguest struct {
	nonblock bool // the model of the listener's non-blocking flag as set by this guest
	sock     bool
	mc       wazero.ModuleConfig
	root     uint64 // descriptor of the private pre-opened directory (3 + number of common mounts)
	closed   bool
	p        *wasiproxy.Proxy
	dir      string
	so, se   bytes.Buffer
	trace    []string
}

func wpopulate(dir string) error {
	if err := os.MkdirAll(filepath.Join(dir, "d"), 0o755); err != nil {
		return err
	}
	for _, f := range [][2]string{{"a", "hello"}, {"b", "world!!"}, {"d/x", "xx"}} {
		if err := os.WriteFile(filepath.Join(dir, f[0]), []byte(f[1]), 0o644); err != nil {
			return err
		}
	}
	// fixed timestamps, so that a timestamp change made through another guest's descriptor shows
	for _, f := range []string{"a", "b", "d/x", "d", "."} {
		if err := os.Chtimes(filepath.Join(dir, f), wInitialTime, wInitialTime); err != nil {
			return err
		}
	}
	return nil
}

var wInitialTime = time.Unix(1_000_000_000, 0)

// wTimes are the timestamps (ns) guests set explicitly.
var wTimes = []int64{1_500_000_000_000_000_000, 1_600_000_000_000_000_000, 1_700_000_000_123_456_789}

func wTimeName(ns uint64) string {
	if int64(ns) == wInitialTime.UnixNano() {
		return "initial"
	}
	for i, v := range wTimes {
		if int64(ns) == v {
			return fmt.Sprintf("set%d", i)
		}
	}
	return "other" // a time taken from the host clock when an entry was created or written
}

func newGuest(ctx context.Context, rt wazero.Runtime, base string, i int, shared *os.File, common wazero.FSConfig, ncommon int, mcBase wazero.ModuleConfig, withSock bool) (*wguest, error) {
	g := &wguest{dir: base, root: 3 + uint64(ncommon), sock: withSock}
	if err := wpopulate(base); err != nil {
		return nil, err
	}
	mc := mcBase.WithName("").WithArgs("guest", fmt.Sprint(i)).WithEnv("ID", fmt.Sprint(i)).
		WithStdout(&g.so).WithStderr(&g.se).WithFSConfig(common.WithDirMount(base, "/"))
	if shared != nil {
		mc = mc.WithStdout(shared)
	}
	g.mc = mc
	return g, nil
}

// start instantiates the guest; all guests' configurations are derived before the first one starts.
func (g *wguest) start(ctx context.Context, rt wazero.Runtime) error {
	p, err := wasiproxy.New(ctx, rt, g.mc, 1, -1)
	g.p = p
	return err
}

// inoNames maps inode numbers of the guest's directory tree to relative paths.
func (g *wguest) inoNames() map[uint64]string {
	m := map[uint64]string{}
	filepath.Walk(g.dir, func(p string, fi os.FileInfo, err error) error {
		if err != nil {
			return nil
		}
		if st, ok := fi.Sys().(*syscall.Stat_t); ok {
			rel, _ := filepath.Rel(g.dir, p)
			m[st.Ino] = rel
		}
		return nil
	})
	if fi, err := os.Stat(filepath.Dir(g.dir)); err == nil {
		if st, ok := fi.Sys().(*syscall.Stat_t); ok {
			if _, dup := m[st.Ino]; !dup {
				m[st.Ino] = "<parent-of-mount>"
			}
		}
	}
	return m
}

const (
	wPath = 1024
	wRes  = 2048
	wIov  = 2100
	wBuf  = 4096
)

func (g *wguest) putPath(s string) (uint64, uint64) {
	g.p.Mem.Write(wPath, []byte(s))
	return wPath, uint64(len(s))
}

func (g *wguest) u32(off uint32) uint32 { v, _ := g.p.Mem.ReadUint32Le(off); return v }
func (g *wguest) u64(off uint32) uint64 { v, _ := g.p.Mem.ReadUint64Le(off); return v }

// ino renders an inode number; it is resolved to a name at the end of the run.
func ino(v uint64) string { return fmt.Sprintf("ino{%d}", v) }

func (g *wguest) filestat(off uint32) string {
	ft, _ := g.p.Mem.ReadByte(off + 16)
	return fmt.Sprintf("type=%d size=%d mtim=%s %s", ft, g.u64(off+32), wTimeName(g.u64(off+48)), ino(g.u64(off+8)))
}

// do executes one op and appends its trace line.
func (g *wguest) do(ctx context.Context, op WOp) string {
	p := g.p
	// the generator's descriptor numbers assume the private directory is descriptor 3
	shift := func(v int64) int64 {
		if v >= 4 && g.sock {
			v++ // the pre-opened socket sits right after the private directory
		}
		if v >= 3 {
			return v + int64(g.root) - 3
		}
		return v
	}
	switch op.K {
	case "read", "write", "seek", "tell", "close", "filestat", "fdstat", "prestat", "settimes", "readdir":
		op.A = shift(op.A)
	case "renumber":
		op.A, op.B = shift(op.A), shift(op.B)
	}
	line := func(e uint32, o wz.Outcome, f string, a ...any) {
		s := fmt.Sprintf("%s(%d,%d,%d,%q) -> ", op.K, op.A, op.B, op.C, op.S)
		if o.Kind != wz.KOK {
			s += "FAILED " + o.String()
		} else if e != 0 {
			s += fmt.Sprintf("errno %d", e)
		} else {
			s += "ok " + fmt.Sprintf(f, a...)
		}
		g.trace = append(g.trace, s)
	}
	p.Mem.Write(wRes, make([]byte, 48))
	var e uint32
	var o wz.Outcome
	switch op.K {
	case "open":
		pp, pl := g.putPath(op.S)
		e, o = p.Call(ctx, "path_open", g.root, 1, pp, pl, uint64(op.A), 0x1fffffff, 0x1fffffff, uint64(op.B), wRes)
		line(e, o, "fd=%d", g.u32(wRes))
	case "read", "write":
		var iov [8]byte
		binary.LittleEndian.PutUint32(iov[0:], wBuf)
		if op.K == "write" {
			p.Mem.Write(wBuf, []byte(op.S))
			binary.LittleEndian.PutUint32(iov[4:], uint32(len(op.S)))
		} else {
			p.Mem.Write(wBuf, bytes.Repeat([]byte{0xee}, 80))
			binary.LittleEndian.PutUint32(iov[4:], uint32(op.B))
		}
		p.Mem.Write(wIov, iov[:])
		e, o = p.Call(ctx, "fd_"+op.K, uint64(op.A), wIov, 1, wRes)
		n := g.u32(wRes)
		if op.K == "read" {
			b, _ := p.Mem.Read(wBuf, 80)
			line(e, o, "n=%d data=%q", n, string(b[:min(int(n), 80)]))
		} else {
			line(e, o, "n=%d", n)
		}
	case "seek":
		e, o = p.Call(ctx, "fd_seek", uint64(op.A), uint64(op.B), uint64(op.C), wRes)
		line(e, o, "pos=%d", g.u64(wRes))
	case "tell":
		e, o = p.Call(ctx, "fd_tell", uint64(op.A), wRes)
		line(e, o, "pos=%d", g.u64(wRes))
	case "close":
		e, o = p.Call(ctx, "fd_close", uint64(op.A))
		line(e, o, "")
	case "renumber":
		e, o = p.Call(ctx, "fd_renumber", uint64(op.A), uint64(op.B))
		line(e, o, "")
	case "mkdir":
		pp, pl := g.putPath(op.S)
		e, o = p.Call(ctx, "path_create_directory", g.root, pp, pl)
		line(e, o, "")
	case "settimes":
		e, o = p.Call(ctx, "fd_filestat_set_times", uint64(op.A), uint64(wTimes[op.B%int64(len(wTimes))]), uint64(wTimes[op.C%int64(len(wTimes))]), 1|4)
		line(e, o, "")
	case "pathsettimes":
		pp, pl := g.putPath(op.S)
		e, o = p.Call(ctx, "path_filestat_set_times", g.root, 1, pp, pl, uint64(wTimes[op.B%int64(len(wTimes))]), uint64(wTimes[op.C%int64(len(wTimes))]), 1|4)
		line(e, o, "")
	case "filestat":
		e, o = p.Call(ctx, "fd_filestat_get", uint64(op.A), wRes+64)
		line(e, o, "%s", g.filestat(wRes+64))
	case "pathstat":
		pp, pl := g.putPath(op.S)
		e, o = p.Call(ctx, "path_filestat_get", g.root, uint64(op.A&1), pp, pl, wRes+64)
		line(e, o, "%s", g.filestat(wRes+64))
	case "fdstat":
		e, o = p.Call(ctx, "fd_fdstat_get", uint64(op.A), wRes)
		ft, _ := p.Mem.ReadByte(wRes)
		fl, _ := p.Mem.ReadUint16Le(wRes + 2)
		line(e, o, "type=%d flags=%d", ft, fl)
	case "prestat":
		e, o = p.Call(ctx, "fd_prestat_get", uint64(op.A), wRes)
		n := g.u32(wRes + 4)
		name := ""
		if e == 0 && o.Kind == wz.KOK && n < 64 {
			if e2, o2 := p.Call(ctx, "fd_prestat_dir_name", uint64(op.A), wBuf, uint64(n)); e2 == 0 && o2.Kind == wz.KOK {
				b, _ := p.Mem.Read(wBuf, n)
				name = string(b)
			}
		}
		line(e, o, "len=%d name=%q", n, name)
	case "socknb":
		// the pre-opened listener: switch it to non-blocking (or back)
		e, o = p.Call(ctx, "fd_fdstat_set_flags", g.root+1, uint64(op.A&1)*4)
		if e == 0 && o.Kind == wz.KOK {
			g.nonblock = op.A&1 == 1
		}
		line(e, o, "")
	case "sockstat":
		e, o = p.Call(ctx, "fd_fdstat_get", g.root+1, wRes)
		ft, _ := p.Mem.ReadByte(wRes)
		fl, _ := p.Mem.ReadUint16Le(wRes + 2)
		line(e, o, "filetype=%d flags=%d", ft, fl)
	case "sockaccept":
		// nobody connects: a non-blocking listener answers EAGAIN; a blocking one is not asked
		if !g.nonblock {
			g.trace = append(g.trace, "sockaccept skipped (blocking)")
			return ""
		}
		e, o = p.Call(ctx, "sock_accept", g.root+1, 0, wRes)
		line(e, o, "fd=%d", g.u32(wRes))
	case "clock":
		e, o = p.Call(ctx, "clock_time_get", uint64(op.A), 0, wRes)
		line(e, o, "t=%d", g.u64(wRes))
	case "random":
		e, o = p.Call(ctx, "random_get", wBuf, uint64(op.A))
		b, _ := p.Mem.Read(wBuf, uint32(op.A))
		line(e, o, "%x", b)
	case "args", "environ":
		e, o = p.Call(ctx, op.K+"_sizes_get", wRes, wRes+4)
		cnt, bl := g.u32(wRes), g.u32(wRes+4)
		out := ""
		if e == 0 && o.Kind == wz.KOK && bl < 512 && cnt < 16 {
			if e2, o2 := p.Call(ctx, op.K+"_get", wRes+16, wBuf); e2 == 0 && o2.Kind == wz.KOK {
				b, _ := p.Mem.Read(wBuf, bl)
				out = string(b)
			}
		}
		line(e, o, "count=%d %q", cnt, out)
	case "readdir":
		p.Mem.Write(wBuf, bytes.Repeat([]byte{0xee}, 600))
		e, o = p.Call(ctx, "fd_readdir", uint64(op.A), wBuf, uint64(op.B), uint64(op.C), wRes)
		used := g.u32(wRes)
		var ents []string
		if e == 0 && o.Kind == wz.KOK && used <= uint32(op.B) && used <= 600 {
			b, _ := p.Mem.Read(wBuf, used)
			for len(b) > 0 {
				if len(b) < 24 {
					ents = append(ents, fmt.Sprintf("truncated-header:%d", len(b)))
					break
				}
				next, inode, nl, ty := binary.LittleEndian.Uint64(b), binary.LittleEndian.Uint64(b[8:]), binary.LittleEndian.Uint32(b[16:]), b[20]
				b = b[24:]
				name := b
				if uint32(len(name)) > nl {
					name = name[:nl]
				}
				b = b[len(name):]
				ents = append(ents, fmt.Sprintf("{next=%d %s len=%d type=%d %q}", next, ino(inode), nl, ty, string(name)))
			}
		}
		line(e, o, "used=%d %s", used, strings.Join(ents, " "))
	}
	if o.Kind == wz.KInternal {
		return fmt.Sprintf("%s raised an internal failure: %s", op.K, o)
	}
	return ""
}

// finish resolves inode numbers and appends stdio and the final tree.
func (g *wguest) finish() []string {
	names := g.inoNames()
	out := make([]string, 0, len(g.trace)+4)
	for _, l := range g.trace {
		for {
			i := strings.Index(l, "ino{")
			if i < 0 {
				break
			}
			j := strings.Index(l[i:], "}") + i
			var v uint64
			fmt.Sscanf(l[i+4:j], "%d", &v)
			nm, ok := names[v]
			switch {
			case v == 0:
				nm = "0"
			case !ok:
				nm = "<not in this guest's directory>"
			}
			l = l[:i] + "ino:" + nm + l[j+1:]
		}
		out = append(out, l)
	}
	out = append(out, fmt.Sprintf("stdout=%q", g.so.String()), fmt.Sprintf("stderr=%q", g.se.String()))
	var tree []string
	filepath.Walk(g.dir, func(p string, fi os.FileInfo, err error) error {
		if err != nil {
			return nil
		}
		rel, _ := filepath.Rel(g.dir, p)
		ent := rel
		if fi.Mode().IsRegular() {
			b, _ := os.ReadFile(p)
			ent += fmt.Sprintf("=%q", b)
		} else {
			ent += "/"
		}
		tree = append(tree, ent)
		return nil
	})
	sort.Strings(tree)
	return append(out, "tree: "+strings.Join(tree, " "))
}

var wDirSeq int

func wdir() string {
	wDirSeq++
	d := filepath.Join(evid.WorkDir(), fmt.Sprintf("c11wasi-%d", wDirSeq))
	os.RemoveAll(d)
	return d
}

// runWasi executes the ops of the listed guests (nil = all) and returns each guest's trace.
func runWasi(c *WCase, only int) (map[int][]string, string) {
	ctx := context.Background()
	rt := wazero.NewRuntimeWithConfig(ctx, wz.Config(c.Engine))
	defer rt.Close(ctx)
	guests := map[int]*wguest{}
	var dirs []string
	defer func() {
		for _, d := range dirs {
			os.RemoveAll(d)
		}
	}()
	var shared *os.File
	if c.SharedStdout {
		sd := wdir()
		dirs = append(dirs, sd)
		os.MkdirAll(sd, 0o755)
		f, err := os.Create(filepath.Join(sd, "stdout"))
		if err != nil {
			return nil, "harness: " + err.Error()
		}
		defer f.Close()
		shared = f
	}
	// every guest's module configuration is derived from one NewModuleConfig() value, and with
	// Sock every instantiation uses the same context carrying one sock configuration
	mcBase := wazero.NewModuleConfig()
	if c.Sock {
		ctx = sock.WithConfig(ctx, sock.NewConfig().WithTCPListener("127.0.0.1", 0))
	}
	// the configuration all guests' file systems are derived from (documented as immutable: deriving
	// one guest's configuration from it must not be visible to the guests derived before or after)
	common := wazero.NewFSConfig()
	for k := 0; k < c.BaseMounts; k++ {
		common = common.WithFSMount(fstest.MapFS{"shared.txt": &fstest.MapFile{Data: []byte("ro")}}, fmt.Sprintf("/common%d", k))
	}
	for i := 0; i < c.N; i++ {
		if only >= 0 && i != only {
			continue
		}
		d := wdir()
		dirs = append(dirs, d)
		g, err := newGuest(ctx, rt, d, i, shared, common, c.BaseMounts, mcBase, c.Sock)
		if err != nil {
			return nil, "harness: " + err.Error()
		}
		guests[i] = g
	}
	for i := 0; i < c.N; i++ {
		if g := guests[i]; g != nil {
			if err := g.start(ctx, rt); err != nil {
				return nil, "harness: " + err.Error()
			}
		}
	}
	for _, op := range c.Ops {
		g := guests[op.Inst]
		if g == nil || g.closed {
			continue
		}
		if op.K == "closemod" {
			g.p.Mod.Close(ctx)
			g.closed = true
			g.trace = append(g.trace, "closemod")
			continue
		}
		if msg := g.do(ctx, op); msg != "" {
			return nil, fmt.Sprintf("guest %d: %s", op.Inst, msg)
		}
	}
	res := map[int][]string{}
	for i, g := range guests {
		res[i] = g.finish()
	}
	return res, ""
}

func RunWasiCase(c *WCase) (string, bool) {
	all, msg := runWasi(c, -1)
	if msg != "" {
		return msg, false
	}
	for i := 0; i < c.N; i++ {
		lone, msg := runWasi(c, i)
		if msg != "" {
			return msg, false
		}
		a, b := lone[i], all[i]
		for k := 0; k < len(a) || k < len(b); k++ {
			x, y := "<none>", "<none>"
			if k < len(a) {
				x = a[k]
			}
			if k < len(b) {
				y = b[k]
			}
			if x != y {
				return fmt.Sprintf("guest %d among %d guests differs from the same guest alone at its trace line %d:\n  alone:  %s\n  among:  %s", i, c.N, k, x, y), false
			}
		}
	}
	per := map[int]int{}
	for _, op := range c.Ops {
		per[op.Inst]++
	}
	busy := 0
	for _, n := range per {
		if n >= 2 {
			busy++
		}
	}
	return "", busy >= 2
}

var wPaths = []string{"a", "b", "d", "d/x", "n1", "n2", "d/n", ".", "d/..", "nodir/x"}

func genWOp(t *rapid.T, n int) WOp {
	op := WOp{Inst: rapid.IntRange(0, n-1).Draw(t, "inst")}
	fd := func() int64 { return int64(rapid.IntRange(0, 7).Draw(t, "fd")) }
	dfd := func() int64 { return int64(rapid.SampledFrom([]int{3, 3, 3, 4, 5, 6}).Draw(t, "dirfd")) }
	op.K = rapid.SampledFrom([]string{"open", "open", "open", "read", "read", "write", "write", "seek", "tell", "close", "renumber", "mkdir",
		"filestat", "filestat", "pathstat", "pathstat", "settimes", "settimes", "pathsettimes", "fdstat", "prestat", "clock", "random", "args", "environ", "readdir", "readdir", "readdir", "readdir", "closemod"}).Draw(t, "k")
	switch op.K {
	case "open":
		op.S = rapid.SampledFrom(wPaths).Draw(t, "path")
		op.A = int64(rapid.SampledFrom([]int{0, 0, 1, 2, 1 | 4, 8, 1 | 8}).Draw(t, "oflags"))
		op.B = int64(rapid.SampledFrom([]int{0, 0, 1}).Draw(t, "fdflags"))
	case "read":
		op.A, op.B = fd(), int64(rapid.IntRange(0, 16).Draw(t, "len"))
	case "write":
		op.A = int64(rapid.SampledFrom([]int{1, 2, 4, 5, 6, 3}).Draw(t, "wfd"))
		op.S = rapid.StringMatching("[a-z]{0,6}").Draw(t, "data")
	case "seek":
		op.A, op.B, op.C = fd(), int64(rapid.IntRange(-3, 9).Draw(t, "off")), int64(rapid.IntRange(0, 2).Draw(t, "whence"))
	case "tell", "close", "filestat", "fdstat", "prestat":
		op.A = fd()
	case "settimes":
		op.A, op.B, op.C = fd(), int64(rapid.IntRange(0, 2).Draw(t, "atim")), int64(rapid.IntRange(0, 2).Draw(t, "mtim"))
	case "pathsettimes":
		op.S = rapid.SampledFrom(wPaths).Draw(t, "path")
		op.B, op.C = int64(rapid.IntRange(0, 2).Draw(t, "atim")), int64(rapid.IntRange(0, 2).Draw(t, "mtim"))
	case "renumber":
		op.A, op.B = fd(), int64(rapid.IntRange(4, 9).Draw(t, "to"))
	case "mkdir":
		op.S = rapid.SampledFrom([]string{"n1", "n2", "d/n", "d", "a/z"}).Draw(t, "path")
	case "pathstat":
		op.S = rapid.SampledFrom(wPaths).Draw(t, "path")
		op.A = int64(rapid.IntRange(0, 1).Draw(t, "follow"))
	case "clock":
		op.A = int64(rapid.IntRange(0, 1).Draw(t, "clockid"))
	case "random":
		op.A = int64(rapid.IntRange(1, 12).Draw(t, "n"))
	case "readdir":
		op.A = dfd()
		op.B = int64(rapid.SampledFrom([]int{24, 40, 64, 128, 600}).Draw(t, "buflen"))
		op.C = int64(rapid.SampledFrom([]int{0, 0, 0, 1, 2, 3, 5}).Draw(t, "cookie"))
	}
	return op
}

func propWasi(t *rapid.T) {
	c := &WCase{Engine: rapid.SampledFrom(wz.Engines).Draw(t, "engine"), N: rapid.IntRange(2, 3).Draw(t, "n")}
	c.SharedStdout = rapid.IntRange(0, 2).Draw(t, "sharedstdout") == 0
	c.BaseMounts = rapid.SampledFrom([]int{0, 0, 1, 2, 3, 3, 5}).Draw(t, "basemounts")
	c.Sock = rapid.IntRange(0, 3).Draw(t, "sock") == 0
	n := rapid.IntRange(3, 24).Draw(t, "nops")
	for i := 0; i < n; i++ {
		op := genWOp(t, c.N)
		if c.Sock && rapid.IntRange(0, 3).Draw(t, "sockop") == 0 {
			op = WOp{Inst: op.Inst, K: rapid.SampledFrom([]string{"socknb", "socknb", "sockstat", "sockaccept", "sockaccept"}).Draw(t, "sk")}
			if op.K == "socknb" {
				op.A = int64(rapid.SampledFrom([]int{1, 1, 1, 0}).Draw(t, "nb"))
			}
		}
		if c.SharedStdout && op.A == 1 {
			// the file behind fd 1 is shared by the embedder's choice: its offset and size depend on
			// the other guests' writes; only writing, closing and fdstat are independent of them
			switch op.K {
			case "tell", "seek", "filestat", "read", "renumber", "settimes":
				continue
			}
		}
		c.Ops = append(c.Ops, op)
	}
	rc := map[string]any{"wasi": c}
	evid.Journal(rc)
	msg, nt := RunWasiCase(c)
	if msg != "" {
		evid.Fail(t, rc, "%s (engine %s)", msg, c.Engine)
	}
	lbl := []string{"wasi-isolation"}
	if c.SharedStdout {
		lbl = append(lbl, "wasi-shared-stdout-file")
	}
	if c.BaseMounts > 0 {
		lbl = append(lbl, "wasi-fsconfig-derived-from-common-base")
	}
	if c.Sock {
		lbl = append(lbl, "wasi-preopened-socket-per-guest")
	}
	for _, op := range c.Ops {
		if op.K == "readdir" {
			lbl = append(lbl, "wasi-readdir")
			break
		}
	}
	evid.Case(evid.Hash64("wasi", c.Engine, c.N, c.SharedStdout, c.BaseMounts, c.Sock, fmt.Sprint(c.Ops)), nt, lbl...)
	if nt {
		evid.Sample("wasi-history", 2, c)
	}
}

func TestWasiIsolation(t *testing.T) {
	if evid.ReplayPath() != "" {
		t.Skip()
	}
	evid.Check(t, "wasi-isolation", evid.Scale(2400, 120000), propWasi)
}
