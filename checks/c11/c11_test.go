// C11 — instances are isolated unless explicitly linked.
//
// A wasmgen program P (passive data/element segments, memory.init/data.drop/table.init/
// elem.drop, mutable globals, tables, memory growth, WASI fd_write to stdout/stderr) and a call
// script S. Instance I1 runs S while N-1 other instances of the same compiled module (or of a
// different module; in the same runtime or in a second runtime sharing a CompilationCache) run
// other scripts interleaved step by step, including closing themselves. Oracle (metamorphic):
// the trace of I1 (results, traps, host-call log, stdout/stderr bytes, final memory / globals /
// tables) equals the trace of a lone instance running S in a fresh runtime; and a fresh instance
// created after all that behaves like the lone one too (catches write-through to the compiled
// module's segments or shared global/table objects).
package c11

import (
	"bytes"
	"context"
	"fmt"
	"strings"
	"testing"

	"github.com/tetratelabs/wazero"
	"github.com/tetratelabs/wazero/imports/wasi_snapshot_preview1"
	"pgregory.net/rapid"

	"verif/internal/evid"
	"verif/internal/runner"
	"verif/internal/wasmgen"
	"verif/internal/wz"
)

func TestMain(m *testing.M) { evid.Main(m, "C11") }

// Step of the interleaving: instance index and what it does.
type Step struct {
	Inst  int         `json:"inst"`
	Call  runner.Call `json:"call"`
	Close bool        `json:"close,omitempty"` // the instance closes itself instead of calling
	Renew bool        `json:"renew,omitempty"` // with Close: a new instance takes the closed one's place at once (instance churn)
}

// Case is the replayable form.
type Case struct {
	Module           *wasmgen.Module `json:"module"`
	Other            *wasmgen.Module `json:"other,omitempty"` // different module for the other instances (nil = same compiled module)
	Engine           string          `json:"engine"`
	N                int             `json:"n"`
	Steps            []Step          `json:"steps"` // Inst 0 steps form the script S
	Fuel             int32           `json:"fuel"`
	TwoRT            bool            `json:"two_runtimes_shared_cache"`
	Recreat          bool            `json:"fresh_instance_afterwards"`
	Lazy             bool            `json:"lazy_instantiation"`          // other instances are created at their first step, not up front
	CapMax           bool            `json:"capacity_from_max,omitempty"` // all runtimes (also the lone one) pre-allocate memory capacity (limit 64 pages)
	CloseOthersFirst bool            `json:"close_others_before_fresh,omitempty"`
}

type obs struct {
	tr     *runner.Trace
	stdout string
	stderr string
}

func (a obs) diff(b obs, an, bn string) string {
	if d := runner.Diff(a.tr, b.tr, an, bn); d != "" {
		return d
	}
	if a.stdout != b.stdout {
		return fmt.Sprintf("stdout differs: %s=%q %s=%q", an, a.stdout, bn, b.stdout)
	}
	if a.stderr != b.stderr {
		return fmt.Sprintf("stderr differs: %s=%q %s=%q", an, a.stderr, bn, b.stderr)
	}
	return ""
}

func newRT(ctx context.Context, engine string, cache wazero.CompilationCache, capMax bool) wazero.Runtime {
	cfg := wz.Config(engine)
	if capMax {
		cfg = cfg.WithMemoryCapacityFromMax(true).WithMemoryLimitPages(64)
	}
	if cache != nil {
		cfg = cfg.WithCompilationCache(cache)
	}
	rt := wazero.NewRuntimeWithConfig(ctx, cfg)
	wasi_snapshot_preview1.MustInstantiate(ctx, rt)
	return rt
}

func script(c *Case) []runner.Call {
	var s []runner.Call
	for _, st := range c.Steps {
		if st.Inst == 0 && !st.Close {
			s = append(s, st.Call)
		}
	}
	return s
}

// lone runs S on a single instance in a fresh runtime.
func lone(ctx context.Context, c *Case) (obs, string) {
	rt := newRT(ctx, c.Engine, nil, c.CapMax)
	defer rt.Close(ctx)
	s, err := runner.NewSession(ctx, rt, c.Module)
	if err != nil {
		return obs{}, "valid-by-construction module rejected: " + err.Error()
	}
	var so, se bytes.Buffer
	in := s.Instantiate(ctx, wazero.NewModuleConfig().WithStdout(&so).WithStderr(&se))
	for _, call := range script(c) {
		in.Call(ctx, call, c.Fuel)
	}
	return obs{in.Finish(ctx), so.String(), se.String()}, ""
}

// RunCase returns a violation message ("" if none), labels and non-triviality.
func RunCase(c *Case) (string, []string, bool) {
	ctx := context.Background()
	want, msg := lone(ctx, c)
	if msg != "" {
		return msg, nil, false
	}
	if want.tr.HasKind(wz.KInternal) {
		return fmt.Sprintf("internal failure in the lone run: %v %v", want.tr.Inst, want.tr.Steps), nil, false
	}
	if want.tr.HasKind(wz.KStack) {
		return "", []string{"discarded-stack-overflow"}, false
	}
	var cache wazero.CompilationCache
	if c.TwoRT {
		cache = wazero.NewCompilationCache()
		defer cache.Close(ctx)
	}
	rtA := newRT(ctx, c.Engine, cache, c.CapMax)
	defer rtA.Close(ctx)
	rtB := rtA
	if c.TwoRT {
		rtB = newRT(ctx, c.Engine, cache, c.CapMax)
		defer rtB.Close(ctx)
	}
	sA, err := runner.NewSession(ctx, rtA, c.Module)
	if err != nil {
		return "valid-by-construction module rejected: " + err.Error(), nil, false
	}
	sB := sA
	om := c.Module
	if c.Other != nil {
		om = c.Other
	}
	if c.TwoRT || c.Other != nil {
		if sB, err = runner.NewSession(ctx, rtB, om); err != nil {
			return "valid-by-construction module rejected: " + err.Error(), nil, false
		}
	}
	type slot struct {
		in     *runner.Inst
		so, se bytes.Buffer
	}
	slots := make([]*slot, c.N)
	mk := func(i int) {
		sl := &slot{}
		s := sB
		if i == 0 {
			s = sA
		}
		slots[i] = sl
		sl.in = s.Instantiate(ctx, wazero.NewModuleConfig().WithStdout(&sl.so).WithStderr(&sl.se))
	}
	for i := range slots {
		if i == 0 || !c.Lazy {
			mk(i)
		}
	}
	othersMutated := false
	churn := 0
	for _, st := range c.Steps {
		if st.Inst >= c.N {
			continue
		}
		if slots[st.Inst] == nil {
			mk(st.Inst) // instantiated in the middle of the history
		}
		sl := slots[st.Inst]
		if st.Close {
			if st.Inst != 0 && sl.in.Mod != nil {
				sl.in.Mod.Close(ctx)
				if st.Renew {
					if tr := sl.in.Finish(ctx); tr.HasKind(wz.KInternal) {
						return fmt.Sprintf("internal failure in instance %d: %v %v", st.Inst, tr.Inst, tr.Steps), nil, false
					}
					mk(st.Inst)
					churn++
				}
			}
			continue
		}
		if sl.in.Mod != nil && sl.in.Mod.IsClosed() {
			// api.Module.IsClosed: "no longer usable ... check this value before calling an
			// ExportedFunction" - a closed instance (closed by itself, by proc_exit or by the
			// step above) is not called again
			continue
		}
		sl.in.Call(ctx, st.Call, c.Fuel)
		if st.Inst != 0 {
			othersMutated = true
		}
	}
	got := obs{slots[0].in.Finish(ctx), slots[0].so.String(), slots[0].se.String()}
	for i := 1; i < c.N; i++ {
		if slots[i] == nil {
			continue
		}
		if tr := slots[i].in.Finish(ctx); tr.HasKind(wz.KInternal) {
			return fmt.Sprintf("internal failure in instance %d: %v %v", i, tr.Inst, tr.Steps), nil, false
		}
	}
	if got.tr.HasKind(wz.KInternal) {
		return fmt.Sprintf("internal failure in instance 0: %v %v", got.tr.Inst, got.tr.Steps), nil, false
	}
	if f := append(append([]string{}, sA.Host.Foreign...), sB.Host.Foreign...); len(f) > 0 && sA != sB {
		// the guests of one runtime import that runtime's own host module; a call that arrives at the
		// other runtime's host functions means the two runtimes share what the host modules compiled to
		return fmt.Sprintf("host functions of one runtime were invoked by guests of the other runtime (shared compilation cache): %v", f), nil, false
	}
	if got.tr.HasKind(wz.KStack) {
		return "", []string{"discarded-stack-overflow"}, false
	}
	if d := want.diff(got, "lone", "among-others"); d != "" {
		return "instance 0 behaves differently among other instances than alone: " + d, nil, false
	}
	labels := []string{fmt.Sprintf("n=%d", c.N)}
	if c.Recreat {
		// a fresh instance of the same compiled module must still start from the pristine state
		if c.CloseOthersFirst {
			for i := 1; i < c.N; i++ {
				if slots[i] != nil && slots[i].in.Mod != nil {
					slots[i].in.Mod.Close(ctx)
				}
			}
			labels = append(labels, "others-closed-before-fresh")
		}
		var so, se bytes.Buffer
		in := sA.Instantiate(ctx, wazero.NewModuleConfig().WithStdout(&so).WithStderr(&se))
		for _, call := range script(c) {
			in.Call(ctx, call, c.Fuel)
		}
		fresh := obs{in.Finish(ctx), so.String(), se.String()}
		if !fresh.tr.HasKind(wz.KStack) {
			if d := want.diff(fresh, "lone", "fresh-instance-afterwards"); d != "" {
				return "an instance created after other instances ran differs from a lone instance: " + d, nil, false
			}
		}
		labels = append(labels, "fresh-afterwards")
	}
	if c.TwoRT {
		labels = append(labels, "two-runtimes-shared-cache")
	}
	if c.CapMax {
		labels = append(labels, "capacity-from-max")
	}
	if churn > 0 {
		labels = append(labels, "instance-churn")
	}
	if c.Lazy {
		labels = append(labels, "instances-created-mid-history")
	}
	if c.Other != nil {
		labels = append(labels, "different-module")
	} else {
		labels = append(labels, "same-compiled-module")
	}
	st := c.Module.Stats
	stateful := st["store"]+st["memory.fill"]+st["memory.copy"]+st["memory.init"]+st["data.drop"]+st["elem.drop"]+st["table.set"]+st["table.init"]+st["memory.grow"]+st["simd-mem"]+st["atomic"] > 0 || len(c.Module.Globals) > 0
	if st["data.drop"]+st["elem.drop"]+st["memory.init"]+st["table.init"] > 0 {
		labels = append(labels, "uses-passive-segments")
	}
	if want.stdout+want.stderr != "" {
		labels = append(labels, "writes-stdio")
	}
	okSteps := 0
	for _, s := range want.tr.Steps {
		if s.Kind == wz.KOK {
			okSteps++
		}
	}
	return "", labels, othersMutated && stateful && okSteps > 0
}

func drawArgs(t *rapid.T, p []byte) []uint64 {
	var a []uint64
	for _, ty := range p {
		switch ty {
		case wasmgen.V128:
			a = append(a, rapid.Uint64().Draw(t, "v"), rapid.Uint64().Draw(t, "v"))
		case wasmgen.I32, wasmgen.F32:
			a = append(a, uint64(rapid.Uint32().Draw(t, "a32")))
		case wasmgen.FuncRef:
			a = append(a, 0)
		case wasmgen.ExternRef:
			a = append(a, uint64(rapid.IntRange(0, 3).Draw(t, "ext")))
		default:
			a = append(a, rapid.Uint64().Draw(t, "a64"))
		}
	}
	return a
}

func genModule(t *rapid.T, hostMod string) *wasmgen.Module {
	cfg := wasmgen.DefaultConfig()
	cfg.HostModule = hostMod
	cfg.MaxFuncs = rapid.IntRange(1, 6).Draw(t, "maxfuncs")
	cfg.MaxStmts = rapid.IntRange(2, 7).Draw(t, "maxstmts")
	cfg.MaxDepth = rapid.IntRange(2, 4).Draw(t, "maxdepth")
	cfg.WASI = true
	cfg.AllowStart = true
	cfg.SegmentRich = rapid.Bool().Draw(t, "segrich")
	return wasmgen.Generate(t, cfg)
}

func prop(t *rapid.T) {
	m := genModule(t, "env")
	c := &Case{Module: m, Engine: rapid.SampledFrom(wz.Engines).Draw(t, "engine"), N: rapid.IntRange(2, 4).Draw(t, "n"), Fuel: 4000}
	switch rapid.IntRange(0, 5).Draw(t, "topology") {
	case 0:
		c.Other = genModule(t, "env2")
	case 1:
		c.TwoRT = true
	case 2:
		c.TwoRT = true
		c.Other = genModule(t, "env2")
	}
	c.Recreat = c.Other == nil && rapid.Bool().Draw(t, "fresh")
	c.Lazy = rapid.Bool().Draw(t, "lazy")
	c.CapMax = rapid.IntRange(0, 2).Draw(t, "capmax") == 0
	c.CloseOthersFirst = c.Recreat && rapid.Bool().Draw(t, "closefirst")
	om := m
	if c.Other != nil {
		om = c.Other
	}
	ns := rapid.IntRange(2, 16).Draw(t, "nsteps")
	for i := 0; i < ns; i++ {
		inst := rapid.IntRange(0, c.N-1).Draw(t, "inst")
		mod := m
		if inst != 0 {
			mod = om
		}
		if inst != 0 && rapid.IntRange(0, 7).Draw(t, "close") == 0 {
			c.Steps = append(c.Steps, Step{Inst: inst, Close: true, Renew: rapid.Bool().Draw(t, "renew")})
			continue
		}
		ex := mod.Exports()
		e := ex[rapid.IntRange(0, len(ex)-1).Draw(t, "export")]
		c.Steps = append(c.Steps, Step{Inst: inst, Call: runner.Call{Fn: e.Export, Args: drawArgs(t, e.Sig.P)}})
	}
	evid.Journal(c)
	msg, labels, nt := RunCase(c)
	if msg != "" {
		evid.Fail(t, c, "%s (engine %s)\n%s", msg, c.Engine, strings.Join(m.Text, "\n"))
	}
	evid.Case(evid.Hash64(m.Bytes, fmt.Sprint(c.Steps), c.Engine, c.N, c.TwoRT), nt, labels...)
	if nt {
		evid.Sample("history", 2, map[string]any{"engine": c.Engine, "n": c.N, "two_runtimes": c.TwoRT, "different_module": c.Other != nil, "steps": c.Steps, "module_bytes": len(m.Bytes)})
	}
}

func TestIsolation(t *testing.T) {
	if evid.ReplayPath() != "" {
		t.Skip()
	}
	evid.Check(t, "isolation", evid.Scale(12000, 600000), prop)
}

func TestReplay(t *testing.T) {
	p := evid.ReplayPath()
	if p == "" {
		t.Skip()
	}
	var ec struct {
		Em *ECase `json:"emscripten"`
	}
	if _, err := evid.LoadReplay(p, &ec); err == nil && ec.Em != nil {
		if msg, _ := RunEmCase(ec.Em); msg != "" {
			evid.Violation("replay", &ec, "%s", msg)
			t.Fatal(msg)
		}
		return
	}
	var wc struct {
		Wasi *WCase `json:"wasi"`
	}
	if _, err := evid.LoadReplay(p, &wc); err == nil && wc.Wasi != nil {
		if msg, _ := RunWasiCase(wc.Wasi); msg != "" {
			evid.Violation("replay", &wc, "%s", msg)
			t.Fatal(msg)
		}
		return
	}
	var c Case
	if _, err := evid.LoadReplay(p, &c); err != nil {
		t.Fatal(err)
	}
	if msg, _, _ := RunCase(&c); msg != "" {
		evid.Violation("replay", &c, "%s", msg)
		t.Fatal(msg)
	}
}
