package c11

import (
	"context"
	"fmt"
	"testing"

	"github.com/tetratelabs/wazero"
	"github.com/tetratelabs/wazero/imports/emscripten"
	"pgregory.net/rapid"

	"verif/internal/evid"
	"verif/internal/wasmenc"
	"verif/internal/wz"
)

// Isolation through a shared host module that keeps per-caller protocol state: the emscripten
// "env" module (invoke_* trampolines used for setjmp/longjmp and C++ exceptions) is instantiated
// once per runtime and serves every guest. N guests of the shape emscripten generates (stack
// pointer and "threw" flag in globals, helper exports, functions reached through invoke_*)
// run interleaved; each guest's observable state after every step must equal what the same
// guest does alone.

type EOp struct {
	Inst int    `json:"inst"`
	K    string `json:"k"` // ok | throw | clear | setsp | closemod
	V    uint32 `json:"v,omitempty"`
}

type ECase struct {
	Engine string `json:"engine"`
	N      int    `json:"n"`
	Ops    []EOp  `json:"ops"`
}

func emGuest() []byte {
	m := &wasmenc.Module{}
	I32 := []byte{wasmenc.I32}
	invokeV := m.ImportFunc("env", "invoke_vi", []byte{wasmenc.I32, wasmenc.I32}, nil) // invoke_vi(index, arg)
	throw := m.ImportFunc("env", "_emscripten_throw_longjmp", nil, nil)
	// globals: 0 sp, 1 threw, 2 work
	m.Globals = []wasmenc.Global{
		{Type: wasmenc.I32, Mut: true, Init: wasmenc.NewB().I32Const(1000).Bytes()},
		{Type: wasmenc.I32, Mut: true, Init: wasmenc.NewB().I32Const(0).Bytes()},
		{Type: wasmenc.I32, Mut: true, Init: wasmenc.NewB().I32Const(0).Bytes()},
	}
	// table functions (i32)->(): 0 worker: work = arg; 1 thrower: sp = sp - arg; longjmp
	worker := m.AddFunc(I32, nil, nil, wasmenc.NewB().LocalGet(0).GlobalSet(2).Bytes())
	thrower := m.AddFunc(I32, nil, nil, wasmenc.NewB().GlobalGet(0).LocalGet(0).Raw(0x6b).GlobalSet(0).LocalGet(0).GlobalSet(2).Call(throw).Bytes())
	m.Tables = [][]byte{wasmenc.TableType(0x70, 2, 2)}
	m.Elems = [][]byte{wasmenc.ActiveElemFuncs(0, []uint32{worker, thrower})}
	m.ExportFunc("run_ok", m.AddFunc(I32, nil, nil, wasmenc.NewB().I32Const(0).LocalGet(0).Call(invokeV).Bytes()))
	m.ExportFunc("run_throw", m.AddFunc(I32, nil, nil, wasmenc.NewB().I32Const(1).LocalGet(0).Call(invokeV).Bytes()))
	m.ExportFunc("emscripten_stack_get_current", m.AddFunc(nil, I32, nil, wasmenc.NewB().GlobalGet(0).Bytes()))
	m.ExportFunc("_emscripten_stack_restore", m.AddFunc(I32, nil, nil, wasmenc.NewB().LocalGet(0).GlobalSet(0).Bytes()))
	m.ExportFunc("setThrew", m.AddFunc([]byte{wasmenc.I32, wasmenc.I32}, nil, nil, wasmenc.NewB().LocalGet(0).GlobalSet(1).Bytes()))
	m.ExportFunc("get_threw", m.AddFunc(nil, I32, nil, wasmenc.NewB().GlobalGet(1).Bytes()))
	m.ExportFunc("get_work", m.AddFunc(nil, I32, nil, wasmenc.NewB().GlobalGet(2).Bytes()))
	return m.Encode()
}

func runEm(c *ECase, only int) (map[int][]string, string) {
	ctx := context.Background()
	rt := wazero.NewRuntimeWithConfig(ctx, wz.Config(c.Engine))
	defer rt.Close(ctx)
	cm, err := rt.CompileModule(ctx, emGuest())
	if err != nil {
		return nil, "harness: compile: " + err.Error()
	}
	if _, err = emscripten.InstantiateForModule(ctx, rt, cm); err != nil {
		return nil, "harness: emscripten host module: " + err.Error()
	}
	type guest struct {
		closed bool
		tr     []string
		call   func(name string, args ...uint64) string
		close  func()
	}
	gs := map[int]*guest{}
	for i := 0; i < c.N; i++ {
		if only >= 0 && i != only {
			continue
		}
		mod, err := rt.InstantiateModule(ctx, cm, wazero.NewModuleConfig().WithName(""))
		if err != nil {
			return nil, "harness: instantiate: " + err.Error()
		}
		g := &guest{}
		g.call = func(name string, args ...uint64) string {
			res, out := wz.SafeCall(ctx, mod.ExportedFunction(name), args...)
			if out.Kind != wz.KOK {
				return out.String()
			}
			return fmt.Sprint(res)
		}
		g.close = func() { mod.Close(ctx) }
		gs[i] = g
	}
	for _, op := range c.Ops {
		g := gs[op.Inst]
		if g == nil || g.closed {
			continue
		}
		var r string
		switch op.K {
		case "ok":
			r = g.call("run_ok", uint64(op.V))
		case "throw":
			r = g.call("run_throw", uint64(op.V))
		case "clear":
			r = g.call("setThrew", 0, 0)
		case "setsp":
			r = g.call("_emscripten_stack_restore", uint64(op.V))
		case "closemod":
			g.close()
			g.closed = true
			g.tr = append(g.tr, "closemod")
			continue
		}
		if len(r) > 9 && r[:9] == "internal:" {
			return nil, fmt.Sprintf("guest %d: %s(%d) raised an internal failure: %s", op.Inst, op.K, op.V, r)
		}
		g.tr = append(g.tr, fmt.Sprintf("%s(%d) -> %s ; sp=%s threw=%s work=%s", op.K, op.V, r,
			g.call("emscripten_stack_get_current"), g.call("get_threw"), g.call("get_work")))
	}
	out := map[int][]string{}
	for i, g := range gs {
		out[i] = g.tr
	}
	return out, ""
}

func RunEmCase(c *ECase) (string, bool) {
	all, msg := runEm(c, -1)
	if msg != "" {
		return msg, false
	}
	throwers := map[int]bool{}
	for _, op := range c.Ops {
		if op.K == "throw" {
			throwers[op.Inst] = true
		}
	}
	for i := 0; i < c.N; i++ {
		lone, msg := runEm(c, i)
		if msg != "" {
			return msg, false
		}
		a, b := lone[i], all[i]
		for k := 0; k < len(a) || k < len(b); k++ {
			x, y := "<none>", "<none>"
			if k < len(a) {
				x = a[k]
			}
			if k < len(b) {
				y = b[k]
			}
			if x != y {
				return fmt.Sprintf("emscripten guest %d among %d guests differs from the same guest alone at its step %d:\n  alone:  %s\n  among:  %s", i, c.N, k, x, y), false
			}
		}
	}
	return "", len(throwers) >= 2
}

func propEm(t *rapid.T) {
	c := &ECase{Engine: rapid.SampledFrom(wz.Engines).Draw(t, "engine"), N: rapid.IntRange(2, 3).Draw(t, "n")}
	for i, n := 0, rapid.IntRange(2, 14).Draw(t, "nops"); i < n; i++ {
		k := rapid.SampledFrom([]string{"ok", "throw", "throw", "clear", "setsp", "closemod", "ok", "throw"}).Draw(t, "k")
		if k == "closemod" && rapid.IntRange(0, 2).Draw(t, "reallyclose") != 0 {
			k = "clear"
		}
		c.Ops = append(c.Ops, EOp{Inst: rapid.IntRange(0, c.N-1).Draw(t, "inst"), K: k, V: uint32(rapid.IntRange(1, 400).Draw(t, "v"))})
	}
	rc := map[string]any{"emscripten": c}
	evid.Journal(rc)
	msg, nt := RunEmCase(c)
	if msg != "" {
		evid.Fail(t, rc, "%s (engine %s)", msg, c.Engine)
	}
	evid.Case(evid.Hash64("em", c.Engine, c.N, fmt.Sprint(c.Ops)), nt, "emscripten-isolation")
	if nt {
		evid.Sample("emscripten-history", 1, c)
	}
}

func TestEmscriptenIsolation(t *testing.T) {
	if evid.ReplayPath() != "" {
		t.Skip()
	}
	evid.Check(t, "emscripten-isolation", evid.Scale(1200, 60000), propEm)
}
