package c14

import (
	"context"
	"fmt"
	"runtime"
	"runtime/debug"
	"testing"
	"time"

	"github.com/tetratelabs/wazero"
	"verif/internal/wasmenc"
	"verif/internal/wz"
)

func rss() uint64 {
	var ms runtime.MemStats
	runtime.ReadMemStats(&ms)
	return (ms.HeapSys - ms.HeapReleased) >> 20
}

func TestProbe(t *testing.T) {
	ctx := context.Background()
	for _, eng := range wz.Engines {
		for i := 0; i < 2; i++ {
			m := &wasmenc.Module{Mems: [][]byte{wasmenc.Limits(65535, -1, false)}}
			m.Exports = append(m.Exports, wasmenc.Export{Name: "mem", Kind: wasmenc.KMem, Idx: 0})
			f := m.AddFunc([]byte{wasmenc.I32}, []byte{wasmenc.I32}, nil, wasmenc.NewB().LocalGet(0).MemoryGrow().Bytes())
			m.ExportFunc("grow", f)
			t0 := time.Now()
			rt := wazero.NewRuntimeWithConfig(ctx, wz.Config(eng))
			mod, err := rt.Instantiate(ctx, m.Encode())
			if err != nil {
				t.Fatal(err)
			}
			t1 := time.Now()
			r, err := mod.ExportedFunction("grow").Call(ctx, 1)
			t2 := time.Now()
			rt.Close(ctx)
			t3 := time.Now()
			debug.FreeOSMemory()
			fmt.Println(eng, i, "inst", t1.Sub(t0), "grow", t2.Sub(t1), r, err, "close", t3.Sub(t2), "free", time.Since(t3), "heapMB", rss())
		}
	}
}
