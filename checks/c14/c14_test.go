// C14 — memory size, growth and the host memory API follow the limits exactly.
//
// A case is a memory configuration (min, declared max, WithMemoryLimitPages,
// WithMemoryCapacityFromMax, allocator, shared, engine) plus a history of guest and host
// operations. The oracle is a reference model written for this check: a page count, the bound
// min(declared max, limit) and sparse contents. Every step's result is compared with the
// model, and after every step guest memory.size, host Size() and host Grow(0) must agree
// with the model's page count.
package c14

import (
	"bytes"
	"context"
	"encoding/binary"
	"fmt"
	"math"
	"os"
	"path/filepath"
	"runtime/debug"
	"sort"
	"strings"
	"sync"
	"syscall"
	"testing"

	"github.com/tetratelabs/wazero"
	"github.com/tetratelabs/wazero/api"
	"github.com/tetratelabs/wazero/experimental"
	"pgregory.net/rapid"

	"verif/internal/evid"
	"verif/internal/wasmenc"
	"verif/internal/wz"
)

func TestMain(m *testing.M) { evid.Main(m, "C14") }

const (
	pageSize  = 65536
	maxPages  = 65536
	heavyPage = 256 // Go-heap backed buffers above this many pages are "heavy" (zeroing/copy cost)

	findImpFree = "C14-importer-close-frees-owner-allocator-buffer"
	findMemLen  = "C14-compiler-memlen-32bit"
	findWrap    = "C14-memory-accessor-u32-wrap"
)

// ---------------------------------------------------------------- case form

// Config is one memory configuration.
type Config struct {
	Engine string `json:"engine"`
	Min    uint32 `json:"min"`
	Max    int64  `json:"max"`   // -1: no maximum declared
	Limit  int64  `json:"limit"` // -1: WithMemoryLimitPages not called (documented default 65536)
	CapMax bool   `json:"cap_from_max"`
	Alloc  string `json:"alloc"` // default | slice | mmap | reserve | guard (see allocator)
	Shared bool   `json:"shared,omitempty"`
	// Imported: the memory is defined and exported by a second module "m" and imported by the
	// guest (the compiler addresses an imported memory through a different path).
	Imported bool `json:"imported,omitempty"`
	// X adds a callee module whose exported functions (size, grow, loads, stores) are imported
	// by the guest and reached through guest wrappers, so that memory.grow / memory.size /
	// accesses execute in another module than the one the call was entered through:
	//   "own":    module "b" with its own, distinct memory (BMin, BMax; same runtime limits);
	//   "shared": the module "m" that defines the memory the guest imports (needs Imported).
	X    string `json:"x,omitempty"`
	BMin uint32 `json:"b_min,omitempty"`
	BMax int64  `json:"b_max,omitempty"` // -1: none
}

// Op is one operation of a history, with explicit arguments.
type Op struct {
	K    string `json:"k"`
	D    uint32 `json:"d,omitempty"`    // grow delta
	Off  uint32 `json:"off,omitempty"`  // address / offset
	Off2 uint32 `json:"off2,omitempty"` // second address (gsl)
	Imm  int    `json:"imm,omitempty"`  // index into imms (static offset of guest accesses)
	W    string `json:"w,omitempty"`    // width: 8 16 32 64 f32 f64 bytes string
	N    uint32 `json:"n,omitempty"`    // byte count for Read/Write
	V    uint64 `json:"v,omitempty"`    // value / fill seed
}

// Case is the replayable unit.
type Case struct {
	Cfg Config `json:"cfg"`
	Ops []Op   `json:"ops"`
}

func (c Config) String() string {
	return fmt.Sprintf("{engine=%s min=%d max=%d limit=%d capFromMax=%v alloc=%s shared=%v imported=%v}", c.Engine, c.Min, c.Max, c.Limit, c.CapMax, c.Alloc, c.Shared, c.Imported) + c.xString()
}

func (c Config) xString() string {
	switch c.X {
	case "own":
		return fmt.Sprintf("+callee module b{min=%d max=%d}", c.BMin, c.BMax)
	case "shared":
		return "+callee code in the memory's defining module"
	}
	return ""
}

// bCfg is the memory configuration of the callee module "b" (X == "own").
func (c Config) bCfg() Config {
	return Config{Engine: c.Engine, Min: c.BMin, Max: c.BMax, Limit: c.Limit, CapMax: c.CapMax, Alloc: c.Alloc}
}

func (c Config) limit() uint32 {
	if c.Limit < 0 {
		return maxPages
	}
	return uint32(c.Limit)
}

// bound is min(declared max or 65536, limit).
func (c Config) bound() uint32 {
	b := uint32(maxPages)
	if c.Max >= 0 && c.Max < int64(b) {
		b = uint32(c.Max)
	}
	if l := c.limit(); l < b {
		b = l
	}
	return b
}

// verdict derives from the documentation whether compile+instantiate must succeed:
//   - the WebAssembly specification makes a memory type invalid when min > max or
//     max > 65536 pages  -> must be rejected;
//   - WithMemoryLimitPages "overrides the maximum pages allowed per memory": a memory whose
//     minimum exceeds it cannot exist -> must be rejected;
//   - a declared maximum above the limit (but valid) is not addressed by the documentation
//     (the default path clamps, the capacity-from-max path rejects: property C12) -> either;
//   - everything else is a valid module within the limit -> must be accepted.
func (c Config) verdict() string {
	if c.Max >= 0 {
		if c.Max > maxPages || int64(c.Min) > c.Max {
			return "reject"
		}
	}
	if c.Min > c.limit() || c.Min > maxPages {
		return "reject"
	}
	if c.Max >= 0 && c.Max > int64(c.limit()) {
		return "either"
	}
	return "accept"
}

// heapPages is the number of pages the Go heap must provide at instantiation.
func (c Config) heapPages() uint32 {
	if c.Alloc == "mmap" || c.Alloc == "guard" {
		return 0
	}
	if c.Alloc == "reserve" {
		return c.bound() // the whole maximum is allocated and poisoned up front
	}
	if c.CapMax || (c.Shared && c.Alloc == "default") {
		return c.bound()
	}
	return c.Min
}

func (c Config) heavy() bool {
	if c.X == "own" && c.bCfg().heapPages() > heavyPage {
		return true
	}
	return c.heapPages() > heavyPage
}

// cheapGrow: growing never copies or zeroes Go heap memory.
func (c Config) cheapGrow() bool {
	return c.Alloc == "mmap" || c.Alloc == "guard" || c.Alloc == "reserve"
}

// ---------------------------------------------------------------- allocators

// allocator kinds:
//
//	slice    Go slices, cap == len, moves on every grow and poisons the old buffer
//	mmap     reserves the maximum read-write, grows in place (cap > len, fresh pages are zero)
//	reserve  allocates the maximum up front filled with 0xde, returns buf[:size:max] and zeroes
//	         exactly [old size, new size) in Reallocate: spare capacity that is NOT zero
//	guard    reserves the maximum PROT_NONE and makes exactly [0, size) accessible in Reallocate:
//	         touching a page the allocator was not asked for kills the process (journaled case)
type allocStats struct {
	mu       sync.Mutex
	problems []string
	mems     []*linMem // in Allocate order
	live     map[*linMem]bool
	allocs   int
	frees    int
}

type allocator struct {
	kind string
	st   *allocStats
}

type linMem struct {
	a     *allocator
	buf   []byte // current view
	full  []byte // mmap: whole reservation
	max   uint64
	freed bool
	cur   uint64 // size of the last Reallocate
	calls int
}

func newAllocator(kind string) *allocator {
	return &allocator{kind: kind, st: &allocStats{live: map[*linMem]bool{}}}
}

func (a *allocator) problem(f string, args ...any) {
	a.st.mu.Lock()
	a.st.problems = append(a.st.problems, fmt.Sprintf(f, args...))
	a.st.mu.Unlock()
}

// Allocate implements experimental.MemoryAllocator.
func (a *allocator) Allocate(capacity, max uint64) experimental.LinearMemory {
	m := &linMem{a: a, max: max}
	if capacity > max {
		a.problem("Allocate(cap=%d, max=%d): capacity above the maximum", capacity, max)
	}
	switch a.kind {
	case "mmap", "guard":
		n := max
		if n == 0 {
			n = pageSize
		}
		prot := syscall.PROT_READ | syscall.PROT_WRITE
		if a.kind == "guard" {
			prot = syscall.PROT_NONE
		}
		b, err := syscall.Mmap(-1, 0, int(n), prot, syscall.MAP_ANON|syscall.MAP_PRIVATE|syscall.MAP_NORESERVE)
		if err != nil {
			panic(fmt.Sprintf("harness: mmap %d: %v", n, err))
		}
		m.full = b
		m.buf = b[:0]
	case "reserve":
		b := make([]byte, max)
		for i := range b {
			b[i] = 0xde
		}
		m.buf = b[:0]
	default:
		m.buf = make([]byte, 0, capacity)
	}
	a.st.mu.Lock()
	a.st.live[m] = true
	a.st.mems = append(a.st.mems, m)
	a.st.allocs++
	a.st.mu.Unlock()
	return m
}

// Reallocate implements experimental.LinearMemory.
func (m *linMem) Reallocate(size uint64) []byte {
	if m.freed {
		m.a.problem("Reallocate(%d) after Free", size)
		return nil
	}
	if size > m.max {
		m.a.problem("Reallocate(%d) beyond the maximum %d given to Allocate", size, m.max)
		return nil
	}
	if size < uint64(len(m.buf)) {
		m.a.problem("Reallocate(%d) shrinks from %d", size, len(m.buf))
	}
	m.a.st.mu.Lock()
	prevSize := m.cur
	m.cur, m.calls = size, m.calls+1
	m.a.st.mu.Unlock()
	switch m.a.kind {
	case "mmap":
		m.buf = m.full[:size]
		return m.buf
	case "guard":
		if size > prevSize {
			if err := syscall.Mprotect(m.full[prevSize:size], syscall.PROT_READ|syscall.PROT_WRITE); err != nil {
				panic(fmt.Sprintf("harness: mprotect: %v", err))
			}
		}
		m.buf = m.full[:size:len(m.full)]
		return m.buf
	case "reserve":
		b := m.buf[:size:cap(m.buf)]
		for i := prevSize; i < size; i++ {
			b[i] = 0
		}
		m.buf = b
		return b
	}
	if size <= uint64(cap(m.buf)) {
		m.buf = m.buf[:size]
		return m.buf
	}
	// move on grow; the old buffer is poisoned so that a stale base pointer shows
	nb := make([]byte, size)
	copy(nb, m.buf)
	old := m.buf[:cap(m.buf)]
	for i := range old {
		old[i] = 0xdb
	}
	m.buf = nb
	return nb
}

// Free implements experimental.LinearMemory.
func (m *linMem) Free() {
	m.a.st.mu.Lock()
	defer m.a.st.mu.Unlock()
	if m.freed {
		return
	}
	m.freed = true
	m.a.st.frees++
	delete(m.a.st.live, m)
	if m.full != nil {
		syscall.Munmap(m.full)
		m.full = nil
	}
	m.buf = nil
}

// known returns the size the k-th allocated memory was last asked for.
func (a *allocator) known(k int) (size uint64, ok bool) {
	a.st.mu.Lock()
	defer a.st.mu.Unlock()
	if k < 0 || k >= len(a.st.mems) {
		return 0, false
	}
	return a.st.mems[k].cur, true
}

// release unmaps whatever wazero did not free (harness hygiene, not an oracle).
func (a *allocator) release() {
	a.st.mu.Lock()
	var l []*linMem
	for m := range a.st.live {
		l = append(l, m)
	}
	a.st.mu.Unlock()
	for _, m := range l {
		m.Free()
	}
}

// ---------------------------------------------------------------- guest module

var imms = []uint32{0, 7, 65536, 0xffffffff}

type width struct {
	name   string
	bytes  int
	ld, st byte
	vt     byte
}

var widths = []width{
	{"8", 1, wasmenc.OpI32Load8U, wasmenc.OpI32Store8, wasmenc.I32},
	{"16", 2, wasmenc.OpI32Load16U, wasmenc.OpI32Store16, wasmenc.I32},
	{"32", 4, wasmenc.OpI32Load, wasmenc.OpI32Store, wasmenc.I32},
	{"64", 8, wasmenc.OpI64Load, wasmenc.OpI64Store, wasmenc.I64},
	{"f32", 4, wasmenc.OpF32Load, wasmenc.OpF32Store, wasmenc.F32},
	{"f64", 8, wasmenc.OpF64Load, wasmenc.OpF64Store, wasmenc.F64},
}

func widthOf(name string) (width, bool) {
	for _, w := range widths {
		if w.name == name {
			return w, true
		}
	}
	return width{}, false
}

var i32 = wasmenc.I32

func limits(c Config) []byte {
	if c.Max < 0 {
		return append([]byte{0}, wasmenc.U32(c.Min)...)
	}
	flag := byte(1)
	if c.Shared {
		flag = 3
	}
	return wasmenc.Cat([]byte{flag}, wasmenc.U32(c.Min), wasmenc.U64(uint64(c.Max)))
}

// tinyModule: memory + size/grow only (used by the configuration enumeration).
func tinyModule(c Config) []byte {
	m := &wasmenc.Module{Mems: [][]byte{limits(c)}}
	m.Exports = append(m.Exports, wasmenc.Export{Name: "mem", Kind: wasmenc.KMem, Idx: 0})
	m.ExportFunc("size", m.AddFunc(nil, []byte{i32}, nil, wasmenc.NewB().MemorySize().Bytes()))
	m.ExportFunc("grow", m.AddFunc([]byte{i32}, []byte{i32}, nil, wasmenc.NewB().LocalGet(0).MemoryGrow().Bytes()))
	return m.Encode()
}

// definerModule defines and exports the memory for the Imported variant.
func definerModule(c Config) []byte {
	m := &wasmenc.Module{Mems: [][]byte{limits(c)}}
	m.Exports = append(m.Exports, wasmenc.Export{Name: "mem", Kind: wasmenc.KMem, Idx: 0})
	if c.X == "shared" {
		addCalleeFuncs(m)
	}
	return m.Encode()
}

// importerModule imports the memory defined by "m" and exports size/grow ("impclose" op).
func importerModule(c Config) []byte {
	m := &wasmenc.Module{}
	m.Imports = append(m.Imports, wasmenc.Import{Mod: "m", Name: "mem", Kind: wasmenc.KMem, Desc: limits(c)})
	m.ExportFunc("size", m.AddFunc(nil, []byte{i32}, nil, wasmenc.NewB().MemorySize().Bytes()))
	m.ExportFunc("grow", m.AddFunc([]byte{i32}, []byte{i32}, nil, wasmenc.NewB().LocalGet(0).MemoryGrow().Bytes()))
	return m.Encode()
}

// calleeModule is module "b": its own memory plus the callee functions.
func calleeModule(c Config) []byte {
	m := &wasmenc.Module{Mems: [][]byte{limits(c.bCfg())}}
	m.Exports = append(m.Exports, wasmenc.Export{Name: "mem", Kind: wasmenc.KMem, Idx: 0})
	addCalleeFuncs(m)
	return m.Encode()
}

type calleeFn struct {
	name string
	p, r []byte
	body []byte
}

func calleeFns() []calleeFn {
	i64 := wasmenc.I64
	return []calleeFn{
		{"size", nil, []byte{i32}, wasmenc.NewB().MemorySize().Bytes()},
		{"grow", []byte{i32}, []byte{i32}, wasmenc.NewB().LocalGet(0).MemoryGrow().Bytes()},
		// growsz(d) -> (size before, grow result, size after), all executing in the callee
		{"growsz", []byte{i32}, []byte{i32, i32, i32}, wasmenc.NewB().MemorySize().LocalGet(0).MemoryGrow().MemorySize().Bytes()},
		{"ld8", []byte{i32}, []byte{i32}, wasmenc.NewB().LocalGet(0).Mem(wasmenc.OpI32Load8U, 0, 0).Bytes()},
		{"ld64", []byte{i32}, []byte{i64}, wasmenc.NewB().LocalGet(0).Mem(wasmenc.OpI64Load, 0, 0).Bytes()},
		{"st8", []byte{i32, i32}, nil, wasmenc.NewB().LocalGet(0).LocalGet(1).Mem(wasmenc.OpI32Store8, 0, 0).Bytes()},
		{"st64", []byte{i32, i64}, nil, wasmenc.NewB().LocalGet(0).LocalGet(1).Mem(wasmenc.OpI64Store, 0, 0).Bytes()},
	}
}

func addCalleeFuncs(m *wasmenc.Module) {
	for _, f := range calleeFns() {
		m.ExportFunc(f.name, m.AddFunc(f.p, f.r, nil, f.body))
	}
}

func fullModule(c Config) []byte {
	m := &wasmenc.Module{}
	if c.Imported {
		m.Imports = append(m.Imports, wasmenc.Import{Mod: "m", Name: "mem", Kind: wasmenc.KMem, Desc: limits(c)})
	} else {
		m.Mems = [][]byte{limits(c)}
	}
	hgrow := m.ImportFunc("env", "hgrow", []byte{i32}, []byte{i32})
	xidx := map[string]uint32{}
	if c.X != "" {
		from := "b"
		if c.X == "shared" {
			from = "m"
		}
		for _, f := range calleeFns() {
			xidx[f.name] = m.ImportFunc(from, f.name, f.p, f.r)
		}
	}
	m.Exports = append(m.Exports, wasmenc.Export{Name: "mem", Kind: wasmenc.KMem, Idx: 0})
	if c.X != "" {
		// wrappers: the call is entered through the guest and reaches the callee's code
		for _, f := range calleeFns() {
			b := wasmenc.NewB()
			for i := range f.p {
				b.LocalGet(uint32(i))
			}
			m.ExportFunc("x"+f.name, m.AddFunc(f.p, f.r, nil, b.Call(xidx[f.name]).Bytes()))
		}
		// xmix(d, addr, v) -> (own memory.size, callee grow result, own memory.size, callee memory.size, own load8_u addr):
		// own size and base are in use around a call that grows memory in the callee; before it the guest stores v at addr
		m.ExportFunc("xmix", m.AddFunc([]byte{i32, i32, i32}, []byte{i32, i32, i32, i32, i32}, nil,
			wasmenc.NewB().LocalGet(1).LocalGet(2).Mem(wasmenc.OpI32Store8, 0, 0).MemorySize().
				LocalGet(0).Call(xidx["grow"]).MemorySize().Call(xidx["size"]).
				LocalGet(1).Mem(wasmenc.OpI32Load8U, 0, 0).Bytes()))
	}
	m.ExportFunc("size", m.AddFunc(nil, []byte{i32}, nil, wasmenc.NewB().MemorySize().Bytes()))
	m.ExportFunc("grow", m.AddFunc([]byte{i32}, []byte{i32}, nil, wasmenc.NewB().LocalGet(0).MemoryGrow().Bytes()))
	// vgrow(d) -> (host grow result, memory.size afterwards): growth by the host in the middle of a guest function
	m.ExportFunc("vgrow", m.AddFunc([]byte{i32}, []byte{i32, i32}, nil,
		wasmenc.NewB().LocalGet(0).Call(hgrow).MemorySize().Bytes()))
	// vgrowld(d, addr0, addr1) -> (memory.size, load8_u addr0, host grow result, memory.size, load8_u addr1):
	// size and base are in use before the host call that grows the memory
	m.ExportFunc("vgrowld", m.AddFunc([]byte{i32, i32, i32}, []byte{i32, i32, i32, i32, i32}, nil,
		wasmenc.NewB().MemorySize().LocalGet(1).Mem(wasmenc.OpI32Load8U, 0, 0).
			LocalGet(0).Call(hgrow).MemorySize().LocalGet(2).Mem(wasmenc.OpI32Load8U, 0, 0).Bytes()))
	// gsl(addr0, v, d, addr1) -> (memory.size before, grow result, memory.size after, load8_u addr1, load8_u addr0)
	m.ExportFunc("gsl", m.AddFunc([]byte{i32, i32, i32, i32}, []byte{i32, i32, i32, i32, i32}, nil,
		wasmenc.NewB().MemorySize().
			LocalGet(0).LocalGet(1).Mem(wasmenc.OpI32Store8, 0, 0).
			LocalGet(2).MemoryGrow().MemorySize().
			LocalGet(3).Mem(wasmenc.OpI32Load8U, 0, 0).
			LocalGet(0).Mem(wasmenc.OpI32Load8U, 0, 0).Bytes()))
	for _, w := range widths {
		for ii, imm := range imms {
			m.ExportFunc(fmt.Sprintf("ld%s_%d", w.name, ii), m.AddFunc([]byte{i32}, []byte{w.vt}, nil,
				wasmenc.NewB().LocalGet(0).Mem(w.ld, 0, imm).Bytes()))
			m.ExportFunc(fmt.Sprintf("st%s_%d", w.name, ii), m.AddFunc([]byte{i32, w.vt}, nil, nil,
				wasmenc.NewB().LocalGet(0).LocalGet(1).Mem(w.st, 0, imm).Bytes()))
		}
	}
	return m.Encode()
}

// ---------------------------------------------------------------- reference model

type model struct {
	pages, bound                                   uint32
	mem                                            map[uint32][]byte // page index -> 64 KiB, only pages ever written
	okGrow, failGrow, guestGrow, hostGrow, edgeOps int
}

func (m *model) size() uint64 { return uint64(m.pages) << 16 }

func (m *model) inRange(off, n uint64) bool { return off+n <= m.size() } // 64-bit, cannot overflow: off < 2^33, n <= 2^32

func (m *model) get(a uint64) byte {
	if p := m.mem[uint32(a>>16)]; p != nil {
		return p[a&0xffff]
	}
	return 0
}

func (m *model) set(a uint64, b byte) {
	pi := uint32(a >> 16)
	p := m.mem[pi]
	if p == nil {
		if b == 0 {
			return
		}
		p = make([]byte, pageSize)
		m.mem[pi] = p
	}
	p[a&0xffff] = b
}

func (m *model) read(a uint64, n int) []byte {
	r := make([]byte, n)
	for i := 0; i < n; {
		x := a + uint64(i)
		k := int(pageSize - x&0xffff)
		if k > n-i {
			k = n - i
		}
		if p := m.mem[uint32(x>>16)]; p != nil {
			copy(r[i:i+k], p[x&0xffff:])
		}
		i += k
	}
	return r
}

func (m *model) write(a uint64, b []byte) {
	for i, x := range b {
		m.set(a+uint64(i), x)
	}
}

func (m *model) grow(d uint32) (uint32, bool) {
	if uint64(m.pages)+uint64(d) > uint64(m.bound) {
		m.failGrow++
		return 0, false
	}
	prev := m.pages
	m.pages += d
	if d > 0 {
		m.okGrow++
	}
	return prev, true
}

// ---------------------------------------------------------------- execution

type instance struct {
	cfg   Config
	rt    wazero.Runtime
	mod   api.Module
	mem   api.Memory
	alloc *allocator
	fn    map[string]api.Function
	bmod  api.Module // callee module "b" (X == "own")
	bmem  api.Memory
	ctx   context.Context // instantiation context (carries the allocator)
}

var bg = context.Background()

// open builds the runtime and instantiates the module. A non-nil error is wazero's rejection;
// internal is set when the rejection is a Go runtime error / panic.
func open(c Config, wasm []byte) (in *instance, err error, internal string) {
	defer func() {
		if r := recover(); r != nil {
			internal = fmt.Sprintf("panic escaped: %v", r)
			if in != nil {
				in.close()
				in = nil
			}
		}
	}()
	rc := wz.Config(c.Engine)
	if c.Limit >= 0 {
		rc = rc.WithMemoryLimitPages(uint32(c.Limit))
	}
	if c.CapMax {
		rc = rc.WithMemoryCapacityFromMax(true)
	}
	in = &instance{cfg: c, fn: map[string]api.Function{}}
	in.rt = wazero.NewRuntimeWithConfig(bg, rc)
	ctx := bg
	if c.Alloc != "default" {
		in.alloc = newAllocator(c.Alloc)
		ctx = experimental.WithMemoryAllocator(bg, in.alloc)
	}
	in.ctx = ctx
	_, err = in.rt.NewHostModuleBuilder("env").NewFunctionBuilder().
		WithGoModuleFunction(api.GoModuleFunc(func(_ context.Context, mod api.Module, stack []uint64) {
			prev, ok := mod.Memory().Grow(api.DecodeU32(stack[0]))
			if !ok {
				stack[0] = api.EncodeI32(-1)
			} else {
				stack[0] = api.EncodeU32(prev)
			}
		}), []api.ValueType{api.ValueTypeI32}, []api.ValueType{api.ValueTypeI32}).Export("hgrow").Instantiate(bg)
	if err != nil {
		in.close()
		return nil, nil, "harness: host module: " + err.Error()
	}
	if c.Imported {
		var dm wazero.CompiledModule
		if dm, err = in.rt.CompileModule(bg, definerModule(c)); err == nil {
			_, err = in.rt.InstantiateModule(ctx, dm, wazero.NewModuleConfig().WithName("m"))
		}
	}
	if err == nil && c.X == "own" {
		var bm wazero.CompiledModule
		if bm, err = in.rt.CompileModule(bg, calleeModule(c)); err == nil {
			in.bmod, err = in.rt.InstantiateModule(ctx, bm, wazero.NewModuleConfig().WithName("b"))
		}
		if err != nil {
			in.close()
			return nil, nil, "harness: callee module b was rejected: " + firstLine(err)
		}
		in.bmem = in.bmod.ExportedMemory("mem")
	}
	var cm wazero.CompiledModule
	if err == nil {
		cm, err = in.rt.CompileModule(bg, wasm)
	}
	if err == nil {
		in.mod, err = in.rt.InstantiateModule(ctx, cm, wazero.NewModuleConfig().WithName("g"))
	}
	if err != nil {
		if o := wz.Classify(err); o.Kind == wz.KInternal {
			internal = o.Detail
		}
		in.close()
		return nil, err, internal
	}
	in.mem = in.mod.ExportedMemory("mem")
	return in, nil, ""
}

func (in *instance) close() {
	if in.rt != nil {
		in.rt.Close(bg)
	}
	if in.alloc != nil {
		in.alloc.release()
	}
}

func (in *instance) f(name string) api.Function {
	if f := in.fn[name]; f != nil {
		return f
	}
	f := in.mod.ExportedFunction(name)
	in.fn[name] = f
	return f
}

func (in *instance) call(name string, args ...uint64) ([]uint64, wz.Outcome) {
	f := in.f(name)
	if f == nil {
		return nil, wz.Outcome{Kind: wz.KOther, Detail: "harness: no export " + name}
	}
	return wz.SafeCall(bg, f, args...)
}

// host runs a host API call and reports an escaping panic.
func host(fn func()) (panicked string) {
	defer func() {
		if r := recover(); r != nil {
			panicked = fmt.Sprintf("%v", r)
		}
	}()
	fn()
	return ""
}

const oob = "out of bounds memory access"

func pattern(seed uint64, n int) []byte {
	b := make([]byte, n)
	x := seed*0x9e3779b97f4a7c15 + 0x1234567
	for i := range b {
		x ^= x << 13
		x ^= x >> 7
		x ^= x << 17
		b[i] = byte(x>>32) | 1 // never zero: a lost write is visible
	}
	return b
}

// failure describes a mismatch with the model.
type failure struct{ msg string }

func failf(f string, a ...any) *failure { return &failure{msg: fmt.Sprintf(f, a...)} }

// runner executes a case step by step against the model.
type runner struct {
	in *instance
	m  *model
	c  Config
	mb *model // memory of the callee module b (X == "own")
	// ldfn is the guest export used for byte loads from this runner's memory ("" = ld8_0)
	ldfn string
}

// mx is the model of the memory the callee's code works on.
func (r *runner) mx() *model {
	if r.c.X == "own" {
		return r.mb
	}
	return r.m
}

// bview is a runner whose content checks (window, dirty, afterGrow) look at the callee's memory.
func (r *runner) bview() *runner {
	if r.c.X != "own" {
		return r
	}
	return &runner{in: &instance{cfg: r.c, mem: r.in.bmem, mod: r.in.mod, fn: r.in.fn}, m: r.mb, c: r.c, ldfn: "xld8"}
}

// checkCalleeSizes: the callee's memory.size reached through the guest wrapper, entered
// directly through b, and b's host Size()/Grow(0) agree with the model of that memory.
func (r *runner) checkCalleeSizes(when string) *failure {
	if r.c.X == "" {
		return nil
	}
	mx := r.mx()
	res, o := r.in.call("xsize")
	if o.Kind != wz.KOK || len(res) != 1 {
		return failf("%s: callee memory.size called through the guest failed: %v", when, o)
	}
	if uint32(res[0]) != mx.pages {
		return failf("%s: memory.size executing in the callee module (called through the guest) = %d pages, model of that memory has %d pages", when, uint32(res[0]), mx.pages)
	}
	if r.c.X != "own" {
		return nil
	}
	var bres []uint64
	bres, o = wz.SafeCall(bg, r.in.bmod.ExportedFunction("size"))
	if o.Kind != wz.KOK || len(bres) != 1 || uint32(bres[0]) != mx.pages {
		return failf("%s: memory.size of module b entered directly = %v %v, model has %d pages", when, bres, o, mx.pages)
	}
	var sz, g0 uint32
	var ok bool
	if p := host(func() { sz = r.in.bmem.Size(); g0, ok = r.in.bmem.Grow(0) }); p != "" {
		return failf("%s: host Size()/Grow(0) of module b's memory panicked: %s", when, p)
	}
	if sz != uint32(mx.size()) || !ok || g0 != mx.pages {
		return failf("%s: host view of module b's memory: Size()=%d Grow(0)=(%d,%v), model has %d pages", when, sz, g0, ok, mx.pages)
	}
	return nil
}

// checkSizes: guest memory.size, host Size() and Grow(0) agree with the model.
func (r *runner) checkSizes(when string) *failure {
	res, o := r.in.call("size")
	if o.Kind != wz.KOK || len(res) != 1 {
		return failf("%s: guest memory.size failed: %v", when, o)
	}
	if uint32(res[0]) != r.m.pages {
		return failf("%s: guest memory.size = %d pages, model has %d pages", when, uint32(res[0]), r.m.pages)
	}
	var sz, g0 uint32
	var ok bool
	if p := host(func() { sz = r.in.mem.Size(); g0, ok = r.in.mem.Grow(0) }); p != "" {
		return failf("%s: host Size()/Grow(0) panicked: %s", when, p)
	}
	// api.Memory.Size is documented to overflow to 0 at 65536 pages.
	if want := uint32(r.m.size()); sz != want {
		return failf("%s: host Memory.Size() = %d bytes, model has %d pages (= %d as uint32)", when, sz, r.m.pages, want)
	}
	if !ok || g0 != r.m.pages {
		return failf("%s: host Memory.Grow(0) = (%d,%v), model has %d pages", when, g0, ok, r.m.pages)
	}
	if f := r.checkAllocatorSizes(when); f != nil {
		return f
	}
	return r.checkCalleeSizes(when)
}

// checkAllocatorSizes: the custom allocator was asked (LinearMemory.Reallocate) for exactly the
// current size of every memory: memories are allocated in instantiation order (callee b first).
func (r *runner) checkAllocatorSizes(when string) *failure {
	al := r.in.alloc
	if al == nil {
		return nil
	}
	k := 0
	if r.c.X == "own" {
		if sz, ok := al.known(0); !ok || sz != r.mb.size() {
			return failf("%s: module b's memory has %d pages (%d bytes) but the last LinearMemory.Reallocate of its allocator asked for %d bytes (allocated=%v): the memory changed size without the allocator", when, r.mb.pages, r.mb.size(), sz, ok)
		}
		k = 1
	}
	if sz, ok := al.known(k); !ok || sz != r.m.size() {
		return failf("%s: the memory has %d pages (%d bytes) but the last LinearMemory.Reallocate of its allocator asked for %d bytes (allocated=%v): the memory changed size without the allocator", when, r.m.pages, r.m.size(), sz, ok)
	}
	return nil
}

// window compares memory [a, a+n) (clipped to the model size) with the model through host Read.
func (r *runner) window(when string, a uint64, n uint64) *failure {
	sz := r.m.size()
	if a >= sz || n == 0 {
		return nil
	}
	if a+n > sz {
		n = sz - a
	}
	if n > math.MaxUint32 {
		n = math.MaxUint32
	}
	var b []byte
	var ok bool
	if p := host(func() { b, ok = r.in.mem.Read(uint32(a), uint32(n)) }); p != "" {
		return failf("%s: host Read(%#x,%d) inside the memory (%d pages) panicked: %s", when, a, n, r.m.pages, p)
	}
	if !ok || uint64(len(b)) != n {
		return failf("%s: host Read(%#x,%d) inside the memory (%d pages) returned ok=%v len=%d", when, a, n, r.m.pages, ok, len(b))
	}
	want := r.m.read(a, int(n))
	if !bytes.Equal(b, want) {
		i := 0
		for b[i] == want[i] {
			i++
		}
		return failf("%s: memory content differs from the model at %#x: got %#x want %#x (window %#x+%d, %d pages)", when, a+uint64(i), b[i], want[i], a, n, r.m.pages)
	}
	return nil
}

// afterGrow checks that old contents survived and new pages read as zero (sampled for large growth).
func (r *runner) afterGrow(when string, prev uint32) *failure {
	if f := r.dirty(when); f != nil {
		return f
	}
	lo, hi := uint64(prev)<<16, r.m.size()
	// new pages read as zero through guest loads as well
	if r.in.mod != nil && hi > lo {
		ld := r.ldfn
		if ld == "" {
			ld = "ld8_0"
		}
		for _, a := range []uint64{lo, lo + pageSize - 1, hi - 1} {
			res, o := r.in.call(ld, a)
			if o.Kind != wz.KOK || len(res) != 1 {
				return failf("%s: guest load8_u(%#x) inside the new pages failed: %v", when, a, o)
			}
			if w := r.m.get(a); byte(res[0]) != w {
				return failf("%s: guest load8_u(%#x) inside the new pages = %#x, expected %#x (new pages must read as zero)", when, a, res[0], w)
			}
		}
	}
	if hi-lo <= 8*pageSize {
		return r.window(when+" (new pages)", lo, hi-lo)
	}
	for _, a := range []uint64{lo, lo + pageSize - 64, (lo+hi)/2 - 32, hi - pageSize, hi - 64} {
		if f := r.window(when+" (new pages)", a, 64); f != nil {
			return f
		}
	}
	return nil
}

// dirty compares every page the model has written.
func (r *runner) dirty(when string) *failure {
	var ps []uint32
	for p := range r.m.mem {
		ps = append(ps, p)
	}
	sort.Slice(ps, func(i, j int) bool { return ps[i] < ps[j] })
	for _, p := range ps {
		if f := r.window(when+" (written page)", uint64(p)<<16, pageSize); f != nil {
			return f
		}
	}
	return nil
}

func (r *runner) noteGrow(guest bool, ok bool, d uint32) {
	if d == 0 {
		return
	}
	if guest {
		r.m.guestGrow++
	} else {
		r.m.hostGrow++
	}
}

func (r *runner) step(op Op) *failure {
	m, in := r.m, r.in
	if m.pages >= maxPages-1 {
		m.edgeOps++
	}
	switch op.K {
	case "gsize", "hsize":
		return nil // sizes are compared after every step
	case "ggrow":
		prevPages := m.pages
		want, wok := m.grow(op.D)
		r.noteGrow(true, wok, op.D)
		res, o := in.call("grow", uint64(op.D))
		if o.Kind != wz.KOK || len(res) != 1 {
			return failf("guest memory.grow(%d) at %d pages failed: %v", op.D, prevPages, o)
		}
		got := uint32(res[0])
		if !wok {
			if got != 0xffffffff {
				return failf("guest memory.grow(%d) at %d pages (bound %d) returned %d, expected -1", op.D, prevPages, m.bound, int32(got))
			}
			return nil
		}
		if got != want {
			return failf("guest memory.grow(%d) at %d pages (bound %d) returned %d, expected the previous size %d", op.D, prevPages, m.bound, int32(got), want)
		}
		if op.D > 0 {
			if f := r.checkSizes("after guest grow"); f != nil {
				return f
			}
			return r.afterGrow(fmt.Sprintf("after guest memory.grow(%d) from %d pages", op.D, prevPages), prevPages)
		}
	case "hgrow":
		prevPages := m.pages
		want, wok := m.grow(op.D)
		r.noteGrow(false, wok, op.D)
		var got uint32
		var ok bool
		if p := host(func() { got, ok = in.mem.Grow(op.D) }); p != "" {
			return failf("host Memory.Grow(%d) at %d pages panicked: %s", op.D, prevPages, p)
		}
		if ok != wok {
			return failf("host Memory.Grow(%d) at %d pages (bound %d) returned ok=%v, expected ok=%v", op.D, prevPages, m.bound, ok, wok)
		}
		if ok && got != want {
			return failf("host Memory.Grow(%d) at %d pages returned previous=%d, expected %d", op.D, prevPages, got, want)
		}
		if ok && op.D > 0 {
			if f := r.checkSizes("after host grow"); f != nil {
				return f
			}
			return r.afterGrow(fmt.Sprintf("after host Memory.Grow(%d) from %d pages", op.D, prevPages), prevPages)
		}
	case "vgrow":
		prevPages := m.pages
		want, wok := m.grow(op.D)
		r.noteGrow(false, wok, op.D)
		wantR := uint32(0xffffffff)
		if wok {
			wantR = want
		}
		res, o := in.call("vgrow", uint64(op.D))
		desc := fmt.Sprintf("guest function calling a host function that does Memory.Grow(%d) at %d pages (bound %d)", op.D, prevPages, m.bound)
		if o.Kind != wz.KOK || len(res) != 2 {
			return failf("%s failed: %v", desc, o)
		}
		if uint32(res[0]) != wantR {
			return failf("%s: host grow result seen by the guest %d, expected %d", desc, int32(res[0]), int32(wantR))
		}
		if uint32(res[1]) != m.pages {
			return failf("%s: memory.size right after the host call = %d, model has %d pages", desc, uint32(res[1]), m.pages)
		}
		if wok && op.D > 0 {
			return r.afterGrow("after "+desc, prevPages)
		}
	case "vgrowld":
		desc := fmt.Sprintf("guest memory.size; load8_u(%#x); call host function doing Memory.Grow(%d); memory.size; load8_u(%#x) at %d pages (bound %d)", op.Off, op.D, op.Off2, m.pages, m.bound)
		res, o := in.call("vgrowld", uint64(op.D), uint64(op.Off), uint64(op.Off2))
		if !m.inRange(uint64(op.Off), 1) {
			if o.Kind != wz.KTrap || o.Detail != oob {
				return failf("%s: expected an out-of-bounds trap at the first load, got %v %v", desc, o, res)
			}
			return nil
		}
		before := m.pages
		want, wok := m.grow(op.D)
		r.noteGrow(false, wok, op.D)
		if !m.inRange(uint64(op.Off2), 1) {
			if o.Kind != wz.KTrap || o.Detail != oob {
				return failf("%s: expected an out-of-bounds trap at the second load (size now %d pages), got %v %v", desc, m.pages, o, res)
			}
			return nil
		}
		if o.Kind != wz.KOK || len(res) != 5 {
			return failf("%s failed: %v", desc, o)
		}
		wantR := uint32(0xffffffff)
		if wok {
			wantR = want
		}
		exp := []uint32{before, uint32(m.get(uint64(op.Off))), wantR, m.pages, uint32(m.get(uint64(op.Off2)))}
		for i := range exp {
			if uint32(res[i]) != exp[i] {
				return failf("%s: result %d = %d, expected %d (all results %v, expected %v)", desc, i, int32(res[i]), int32(exp[i]), res, exp)
			}
		}
		if wok && op.D > 0 {
			return r.afterGrow("after "+desc, before)
		}
	case "impclose":
		// another module importing the same memory is instantiated, used and closed while the
		// defining module and the guest stay open
		if !r.c.Imported {
			return nil
		}
		desc := fmt.Sprintf("instantiating a second importer of the memory (%d pages), memory.grow(%d) in it, then closing it (%s)", m.pages, op.D, op.W)
		var imod api.Module
		var err error
		if p := host(func() {
			var cm wazero.CompiledModule
			if cm, err = in.rt.CompileModule(bg, importerModule(r.c)); err == nil {
				imod, err = in.rt.InstantiateModule(in.ctx, cm, wazero.NewModuleConfig().WithName(""))
			}
		}); p != "" || err != nil {
			return failf("%s: instantiation failed: %v %s", desc, err, p)
		}
		res, o := wz.SafeCall(bg, imod.ExportedFunction("size"))
		if o.Kind != wz.KOK || uint32(res[0]) != m.pages {
			return failf("%s: memory.size in the new importer = %v %v, model has %d pages", desc, res, o, m.pages)
		}
		prevPages := m.pages
		want, wok := m.grow(op.D)
		r.noteGrow(true, wok, op.D)
		wantR := uint32(0xffffffff)
		if wok {
			wantR = want
		}
		res, o = wz.SafeCall(bg, imod.ExportedFunction("grow"), uint64(op.D))
		if o.Kind != wz.KOK || uint32(res[0]) != wantR {
			return failf("%s: memory.grow in the new importer returned %v %v, expected %d", desc, res, o, int32(wantR))
		}
		if p := host(func() {
			if op.W == "exit" {
				err = imod.CloseWithExitCode(bg, 7)
			} else {
				err = imod.Close(bg)
			}
		}); p != "" || err != nil {
			return failf("%s: close failed: %v %s", desc, err, p)
		}
		if in.alloc != nil {
			in.alloc.st.mu.Lock()
			frees := in.alloc.st.frees
			in.alloc.st.mu.Unlock()
			if frees > 0 {
				return failf("%s: closing the importing module made wazero call LinearMemory.Free on the buffer of the memory although the module that defines it (and another importer) is still open", desc)
			}
		}
		if f := r.checkSizes("after " + desc); f != nil {
			return f
		}
		if wok && op.D > 0 {
			if f := r.afterGrow("after "+desc, prevPages); f != nil {
				return f
			}
		}
		if f := r.dirty("after " + desc); f != nil {
			return f
		}
		return r.window("after "+desc, 0, 64)
	case "xgrow", "xgrowsz":
		if r.c.X == "" {
			return nil
		}
		mx := r.mx()
		prevPages := mx.pages
		want, wok := mx.grow(op.D)
		r.noteGrow(true, wok, op.D)
		wantR := uint32(0xffffffff)
		if wok {
			wantR = want
		}
		desc := fmt.Sprintf("memory.grow(%d) executing in the callee module (its memory: %d pages, bound %d) called through the guest (own memory %d pages)", op.D, prevPages, mx.bound, r.m.pages)
		res, o := in.call(op.K, uint64(op.D))
		if o.Kind != wz.KOK {
			return failf("%s failed: %v", desc, o)
		}
		exp := []uint32{wantR}
		if op.K == "xgrowsz" {
			exp = []uint32{prevPages, wantR, mx.pages}
		}
		for i := range exp {
			if i >= len(res) || uint32(res[i]) != exp[i] {
				return failf("%s returned %v, expected %v", desc, res, exp)
			}
		}
		if f := r.checkSizes("after " + desc); f != nil {
			return f
		}
		if wok && op.D > 0 {
			return r.bview().afterGrow("after "+desc, prevPages)
		}
	case "bhgrow":
		if r.c.X != "own" {
			return nil
		}
		prevPages := r.mb.pages
		want, wok := r.mb.grow(op.D)
		r.noteGrow(false, wok, op.D)
		var got uint32
		var ok bool
		if p := host(func() { got, ok = in.bmem.Grow(op.D) }); p != "" {
			return failf("host Memory.Grow(%d) on module b's memory panicked: %s", op.D, p)
		}
		if ok != wok || ok && got != want {
			return failf("host Memory.Grow(%d) on module b's memory at %d pages (bound %d) returned (%d,%v), expected (%d,%v)", op.D, prevPages, r.mb.bound, got, ok, want, wok)
		}
		if ok && op.D > 0 {
			if f := r.checkSizes("after host grow of module b's memory"); f != nil {
				return f
			}
			return r.bview().afterGrow("after host grow of module b's memory", prevPages)
		}
	case "xmix":
		if r.c.X == "" {
			return nil
		}
		mx := r.mx()
		desc := fmt.Sprintf("guest store8(%#x,%#x); memory.size; call callee memory.grow(%d); memory.size; call callee memory.size; load8_u(%#x) (own memory %d pages, callee's memory %d pages bound %d)", op.Off, byte(op.V), op.D, op.Off, m.pages, mx.pages, mx.bound)
		res, o := in.call("xmix", uint64(op.D), uint64(op.Off), uint64(byte(op.V)))
		if !m.inRange(uint64(op.Off), 1) {
			if o.Kind != wz.KTrap || o.Detail != oob {
				return failf("%s: expected an out-of-bounds trap at the store, got %v", desc, o)
			}
			return nil
		}
		m.set(uint64(op.Off), byte(op.V))
		before, cprev := m.pages, mx.pages
		want, wok := mx.grow(op.D)
		r.noteGrow(true, wok, op.D)
		wantR := uint32(0xffffffff)
		if wok {
			wantR = want
		}
		if o.Kind != wz.KOK || len(res) != 5 {
			return failf("%s failed: %v", desc, o)
		}
		exp := []uint32{before, wantR, m.pages, mx.pages, uint32(byte(op.V))}
		for i := range exp {
			if uint32(res[i]) != exp[i] {
				return failf("%s: result %d = %d, expected %d (all results %v, expected %v)", desc, i, int32(res[i]), int32(exp[i]), res, exp)
			}
		}
		if f := r.checkSizes("after " + desc); f != nil {
			return f
		}
		if wok && op.D > 0 {
			return r.bview().afterGrow("after "+desc, cprev)
		}
	case "xload", "xstore":
		if r.c.X == "" || (op.W != "8" && op.W != "64") {
			return nil
		}
		mx := r.mx()
		nb := uint64(1)
		if op.W == "64" {
			nb = 8
		}
		ea := uint64(op.Off)
		desc := fmt.Sprintf("%s%s at %#x executing in the callee module (its memory: %d pages) called through the guest", op.K[1:], op.W, ea, mx.pages)
		if op.K == "xload" {
			res, o := in.call("xld"+op.W, ea)
			if !mx.inRange(ea, nb) {
				if o.Kind != wz.KTrap || o.Detail != oob {
					return failf("%s: expected an out-of-bounds trap, got %v %v", desc, o, res)
				}
				return nil
			}
			if o.Kind != wz.KOK || len(res) != 1 {
				return failf("%s: in range but failed: %v", desc, o)
			}
			var buf [8]byte
			copy(buf[:], mx.read(ea, int(nb)))
			want := binary.LittleEndian.Uint64(buf[:])
			got := res[0]
			if nb < 8 {
				got = uint64(uint32(got))
			}
			if got != want {
				return failf("%s: loaded %#x, model has %#x", desc, got, want)
			}
			return nil
		}
		v := op.V
		if nb < 8 {
			v = uint64(uint32(v))
		}
		_, o := in.call("xst"+op.W, ea, v)
		if !mx.inRange(ea, nb) {
			if o.Kind != wz.KTrap || o.Detail != oob {
				return failf("%s: expected an out-of-bounds trap, got %v", desc, o)
			}
			return r.bview().window(desc+": after the trapping store", sat(ea, 16), 32+nb)
		}
		if o.Kind != wz.KOK {
			return failf("%s: in range but failed: %v", desc, o)
		}
		var buf [8]byte
		binary.LittleEndian.PutUint64(buf[:], v)
		mx.write(ea, buf[:nb])
		if f := r.bview().window(desc+": afterwards", sat(ea, 16), 32+nb); f != nil {
			return f
		}
		if r.c.X == "own" { // the guest's own memory must not have been touched
			return r.window(desc+": the guest's own memory afterwards", sat(ea, 16), 32+nb)
		}
	case "gsl":
		desc := fmt.Sprintf("guest store8(%#x,%#x); memory.grow(%d); memory.size; load8_u(%#x); load8_u(%#x) at %d pages (bound %d)", op.Off, byte(op.V), op.D, op.Off2, op.Off, m.pages, m.bound)
		res, o := in.call("gsl", uint64(op.Off), uint64(uint32(op.V)), uint64(op.D), uint64(op.Off2))
		if !m.inRange(uint64(op.Off), 1) {
			if o.Kind != wz.KTrap || o.Detail != oob {
				return failf("%s: expected an out-of-bounds trap at the store, got %v", desc, o)
			}
			return nil
		}
		before := m.pages
		m.set(uint64(op.Off), byte(op.V))
		want, wok := m.grow(op.D)
		r.noteGrow(true, wok, op.D)
		if !m.inRange(uint64(op.Off2), 1) {
			if o.Kind != wz.KTrap || o.Detail != oob {
				return failf("%s: expected an out-of-bounds trap at the first load (size now %d pages), got %v %v", desc, m.pages, o, res)
			}
			return nil
		}
		if o.Kind != wz.KOK || len(res) != 5 {
			return failf("%s failed: %v", desc, o)
		}
		wantR := uint32(0xffffffff)
		if wok {
			wantR = want
		}
		exp := []uint32{before, wantR, m.pages, uint32(m.get(uint64(op.Off2))), uint32(byte(op.V))}
		for i := range exp {
			if uint32(res[i]) != exp[i] {
				return failf("%s: result %d = %d, expected %d (all results %v, expected %v)", desc, i, int32(res[i]), int32(exp[i]), res, exp)
			}
		}
		if wok && op.D > 0 {
			return r.afterGrow("after "+desc, before)
		}
	case "gload":
		w, okw := widthOf(op.W)
		if !okw || op.Imm < 0 || op.Imm >= len(imms) {
			return nil
		}
		ea := uint64(op.Off) + uint64(imms[op.Imm])
		res, o := in.call(fmt.Sprintf("ld%s_%d", w.name, op.Imm), uint64(op.Off))
		desc := fmt.Sprintf("guest load%s addr=%#x offset=%#x (effective %#x) with %d pages", w.name, op.Off, imms[op.Imm], ea, m.pages)
		if !m.inRange(ea, uint64(w.bytes)) {
			if o.Kind != wz.KTrap || o.Detail != oob {
				return failf("%s: expected an out-of-bounds trap, got %v %v", desc, o, res)
			}
			return nil
		}
		if o.Kind != wz.KOK || len(res) != 1 {
			return failf("%s: in range but failed: %v", desc, o)
		}
		var buf [8]byte
		copy(buf[:], m.read(ea, w.bytes))
		want := binary.LittleEndian.Uint64(buf[:])
		got := res[0]
		if w.bytes < 8 {
			got = uint64(uint32(got)) // i32 / f32 result: the value is the low half of the slot
		}
		if got != want {
			return failf("%s: loaded %#x, model has %#x", desc, got, want)
		}
	case "gstore":
		w, okw := widthOf(op.W)
		if !okw || op.Imm < 0 || op.Imm >= len(imms) {
			return nil
		}
		ea := uint64(op.Off) + uint64(imms[op.Imm])
		v := op.V
		if w.vt == i32 || w.vt == wasmenc.F32 {
			v = uint64(uint32(v))
		}
		_, o := in.call(fmt.Sprintf("st%s_%d", w.name, op.Imm), uint64(op.Off), v)
		desc := fmt.Sprintf("guest store%s addr=%#x offset=%#x (effective %#x) value=%#x with %d pages", w.name, op.Off, imms[op.Imm], ea, v, m.pages)
		if !m.inRange(ea, uint64(w.bytes)) {
			if o.Kind != wz.KTrap || o.Detail != oob {
				return failf("%s: expected an out-of-bounds trap, got %v", desc, o)
			}
			return r.window(desc+": after the trapping store", sat(ea, 16), 32+uint64(w.bytes))
		}
		if o.Kind != wz.KOK {
			return failf("%s: in range but failed: %v", desc, o)
		}
		var buf [8]byte
		binary.LittleEndian.PutUint64(buf[:], v)
		m.write(ea, buf[:w.bytes])
		return r.window(desc+": afterwards", sat(ea, 16), 32+uint64(w.bytes))
	case "hread":
		return r.hostRead(op)
	case "hwrite":
		return r.hostWrite(op)
	case "hview":
		// Read returns a write-through view (documented): write through it, guest must see it.
		n := uint64(op.N)
		if n > 64 {
			n = 64
		}
		if !m.inRange(uint64(op.Off), n) || n == 0 {
			return nil
		}
		var b []byte
		var ok bool
		if p := host(func() { b, ok = in.mem.Read(op.Off, uint32(n)) }); p != "" || !ok || uint64(len(b)) != n {
			return failf("host Read(%#x,%d) with %d pages: ok=%v len=%d panic=%q", op.Off, n, m.pages, ok, len(b), p)
		}
		pat := pattern(op.V, int(n))
		copy(b, pat)
		m.write(uint64(op.Off), pat)
		return r.window(fmt.Sprintf("after writing through the view returned by Read(%#x,%d)", op.Off, n), sat(uint64(op.Off), 8), n+16)
	}
	return nil
}

func sat(a, d uint64) uint64 {
	if a < d {
		return 0
	}
	return a - d
}

func (r *runner) hostRead(op Op) *failure {
	m, mem := r.m, r.in.mem
	off := uint64(op.Off)
	var n uint64
	var got uint64
	var gotB []byte
	var ok bool
	var p string
	switch op.W {
	case "8":
		n = 1
		p = host(func() { var v byte; v, ok = mem.ReadByte(op.Off); got = uint64(v) })
	case "16":
		n = 2
		p = host(func() { var v uint16; v, ok = mem.ReadUint16Le(op.Off); got = uint64(v) })
	case "32":
		n = 4
		p = host(func() { var v uint32; v, ok = mem.ReadUint32Le(op.Off); got = uint64(v) })
	case "f32":
		n = 4
		p = host(func() { var v float32; v, ok = mem.ReadFloat32Le(op.Off); got = uint64(math.Float32bits(v)) })
	case "64":
		n = 8
		p = host(func() { got, ok = mem.ReadUint64Le(op.Off) })
	case "f64":
		n = 8
		p = host(func() { var v float64; v, ok = mem.ReadFloat64Le(op.Off); got = math.Float64bits(v) })
	case "bytes":
		n = uint64(op.N)
		p = host(func() { gotB, ok = mem.Read(op.Off, op.N) })
	default:
		return nil
	}
	desc := fmt.Sprintf("host Read[%s](offset=%#x, n=%d) with %d pages (%#x bytes)", op.W, off, n, m.pages, m.size())
	if p != "" {
		return failf("%s panicked: %s", desc, p)
	}
	want := m.inRange(off, n)
	if ok != want {
		return failf("%s returned ok=%v, but offset+len %s size", desc, ok, map[bool]string{true: "<=", false: ">"}[want])
	}
	if !ok {
		return nil
	}
	if op.W == "bytes" {
		if uint64(len(gotB)) != n {
			return failf("%s returned %d bytes", desc, len(gotB))
		}
		// compare: head, tail and every written page that intersects (never touch all of a huge view)
		if n <= 4*pageSize {
			if w := m.read(off, int(n)); !bytes.Equal(gotB, w) {
				return failf("%s: content differs from the model", desc)
			}
			return nil
		}
		chk := func(a, l uint64) *failure {
			if w := m.read(a, int(l)); !bytes.Equal(gotB[a-off:a-off+l], w) {
				return failf("%s: content differs from the model in [%#x,+%d)", desc, a, l)
			}
			return nil
		}
		if f := chk(off, 256); f != nil {
			return f
		}
		if f := chk(off+n-256, 256); f != nil {
			return f
		}
		for pg := range m.mem {
			a, e := uint64(pg)<<16, uint64(pg+1)<<16
			if a < off {
				a = off
			}
			if e > off+n {
				e = off + n
			}
			if a < e {
				if f := chk(a, e-a); f != nil {
					return f
				}
			}
		}
		return nil
	}
	var buf [8]byte
	copy(buf[:], m.read(off, int(n)))
	if w := binary.LittleEndian.Uint64(buf[:]); got != w {
		return failf("%s = %#x, model has %#x", desc, got, w)
	}
	return nil
}

func (r *runner) hostWrite(op Op) *failure {
	m, mem := r.m, r.in.mem
	off := uint64(op.Off)
	var data []byte
	var ok bool
	var p string
	var buf [8]byte
	binary.LittleEndian.PutUint64(buf[:], op.V)
	switch op.W {
	case "8":
		data = buf[:1]
		p = host(func() { ok = mem.WriteByte(op.Off, byte(op.V)) })
	case "16":
		data = buf[:2]
		p = host(func() { ok = mem.WriteUint16Le(op.Off, uint16(op.V)) })
	case "32":
		data = buf[:4]
		p = host(func() { ok = mem.WriteUint32Le(op.Off, uint32(op.V)) })
	case "f32":
		data = buf[:4]
		p = host(func() { ok = mem.WriteFloat32Le(op.Off, math.Float32frombits(uint32(op.V))) })
	case "64":
		data = buf[:8]
		p = host(func() { ok = mem.WriteUint64Le(op.Off, op.V) })
	case "f64":
		data = buf[:8]
		p = host(func() { ok = mem.WriteFloat64Le(op.Off, math.Float64frombits(op.V)) })
	case "bytes":
		n := op.N
		if n > 3*pageSize {
			n = 3 * pageSize
		}
		data = pattern(op.V, int(n))
		p = host(func() { ok = mem.Write(op.Off, data) })
	case "string":
		n := op.N
		if n > 3*pageSize {
			n = 3 * pageSize
		}
		data = pattern(op.V, int(n))
		s := string(data)
		p = host(func() { ok = mem.WriteString(op.Off, s) })
	default:
		return nil
	}
	n := uint64(len(data))
	desc := fmt.Sprintf("host Write[%s](offset=%#x, n=%d) with %d pages (%#x bytes)", op.W, off, n, m.pages, m.size())
	if p != "" {
		return failf("%s panicked: %s", desc, p)
	}
	want := m.inRange(off, n)
	if ok != want {
		return failf("%s returned ok=%v, but offset+len %s size", desc, ok, map[bool]string{true: "<=", false: ">"}[want])
	}
	if ok {
		m.write(off, data)
	}
	// exactly those bytes: compare the written range and its surroundings with the model
	return r.window(desc+": afterwards", sat(off, 16), n+32)
}

// runCase executes a whole case. skipped is set when the configuration is not instantiable
// (rejected by wazero in a way the verdict allows).
func runCase(c Case) (f *failure, st *model, skipped bool) {
	cfg := c.Cfg
	v := cfg.verdict()
	in, err, internal := open(cfg, fullModule(cfg))
	if internal != "" {
		return failf("configuration %v: compile/instantiate raised an internal error: %s", cfg, internal), nil, false
	}
	if err != nil {
		if v == "accept" {
			return failf("configuration %v is valid and within the limit but was rejected: %v", cfg, firstLine(err)), nil, false
		}
		return nil, nil, true
	}
	defer in.close()
	if v == "reject" {
		return failf("configuration %v must be rejected (%s) but was instantiated", cfg, rejectReason(cfg)), nil, false
	}
	m := &model{pages: cfg.Min, bound: cfg.bound(), mem: map[uint32][]byte{}}
	r := &runner{in: in, m: m, c: cfg}
	if cfg.X == "own" {
		r.mb = &model{pages: cfg.BMin, bound: cfg.bCfg().bound(), mem: map[uint32][]byte{}}
	}
	if f := r.checkSizes("right after instantiation"); f != nil {
		f.msg = fmt.Sprintf("configuration %v: %s", cfg, f.msg)
		return f, m, false
	}
	if f := initialDefinition(in, cfg); f != nil {
		return f, m, false
	}
	for i, op := range c.Ops {
		f := r.step(op)
		if f == nil {
			f = r.checkSizes(fmt.Sprintf("after step %d (%s)", i, op.K))
		}
		if f == nil && in.alloc != nil {
			in.alloc.st.mu.Lock()
			if len(in.alloc.st.problems) > 0 {
				f = failf("custom allocator contract: %s", in.alloc.st.problems[0])
			}
			in.alloc.st.mu.Unlock()
		}
		if f != nil {
			f.msg = fmt.Sprintf("configuration %v, step %d %+v: %s", cfg, i, op, f.msg)
			return f, m, false
		}
	}
	if f := r.dirty("at the end of the history"); f != nil {
		f.msg = fmt.Sprintf("configuration %v: %s", cfg, f.msg)
		return f, m, false
	}
	if cfg.X == "own" {
		if f := r.bview().dirty("at the end of the history (module b's memory)"); f != nil {
			f.msg = fmt.Sprintf("configuration %v: %s", cfg, f.msg)
			return f, m, false
		}
		m.okGrow, m.failGrow = m.okGrow+r.mb.okGrow, m.failGrow+r.mb.failGrow
	}
	// a few never-written places read as zero
	for _, a := range []uint64{0, m.size() / 2, sat(m.size(), 64)} {
		if f := r.window("at the end of the history", a, 64); f != nil {
			f.msg = fmt.Sprintf("configuration %v: %s", cfg, f.msg)
			return f, m, false
		}
	}
	return nil, m, false
}

func initialDefinition(in *instance, cfg Config) *failure {
	d := in.mem.Definition()
	if d.Min() != cfg.Min {
		return failf("configuration %v: MemoryDefinition.Min() = %d", cfg, d.Min())
	}
	mx, enc := d.Max()
	if enc != (cfg.Max >= 0) {
		return failf("configuration %v: MemoryDefinition.Max() encoded=%v", cfg, enc)
	}
	if enc && cfg.Max <= int64(cfg.limit()) && int64(mx) != cfg.Max {
		return failf("configuration %v: MemoryDefinition.Max() = %d", cfg, mx)
	}
	return nil
}

func rejectReason(c Config) string {
	switch {
	case c.Max > maxPages:
		return "declared maximum above 65536 pages"
	case c.Max >= 0 && int64(c.Min) > c.Max:
		return "minimum above the declared maximum"
	default:
		return "minimum above the configured limit"
	}
}

func firstLine(err error) string {
	return strings.SplitN(err.Error(), "\n", 2)[0]
}

// ---------------------------------------------------------------- concurrent growth of a shared memory

// ConcCase: one shared memory (threads feature) defined by module "owner" is grown at the same
// time by guest "threads" (separate instances importing the memory, one goroutine and one
// api.Function each, executing memory.grow) and by host goroutines calling api.Memory.Grow.
// Goroutine k performs N[k] grows with deltas cycling through Pat[k]; the first Guests
// goroutines are guest threads, the others host goroutines.
type ConcCase struct {
	Conc   bool       `json:"concurrent"`
	Engine string     `json:"engine"`
	Alloc  string     `json:"alloc"` // default | mmap (a shared memory must not move)
	Min    uint32     `json:"min"`
	Max    uint32     `json:"max"`
	Guests int        `json:"guest_threads"`
	N      []int      `json:"grows"`
	Pat    [][]uint32 `json:"deltas"`
	Rounds int        `json:"rounds"`
}

func (c ConcCase) String() string {
	return fmt.Sprintf("{engine=%s alloc=%s shared memory min=%d max=%d, %d guest threads + %d host goroutines, grows=%v deltas=%v}",
		c.Engine, c.Alloc, c.Min, c.Max, c.Guests, len(c.N)-c.Guests, c.N, c.Pat)
}

func validConc(c ConcCase) bool {
	if (c.Engine != "interpreter" && c.Engine != "compiler") || (c.Alloc != "default" && c.Alloc != "mmap") {
		return false
	}
	if c.Min > c.Max || c.Max > 8192 || len(c.N) < 1 || len(c.N) > 32 || len(c.Pat) != len(c.N) || c.Guests < 0 || c.Guests > len(c.N) || c.Rounds < 1 || c.Rounds > 50 {
		return false
	}
	for k := range c.N {
		if c.N[k] < 0 || c.N[k] > 5000 || len(c.Pat[k]) == 0 {
			return false
		}
	}
	return true
}

type growRec struct {
	d    uint32
	prev uint32
	ok   bool
}

// checkGrowHistory decides whether the per-goroutine results are the results of SOME serial
// order of the grow requests on a counter starting at init and bounded by max.
func checkGrowHistory(init, max uint32, recs [][]growRec) (final uint32, msg string) {
	type pair struct{ prev, d uint32 }
	var ps []pair
	for _, rs := range recs {
		for _, r := range rs {
			if r.ok && r.d > 0 {
				ps = append(ps, pair{r.prev, r.d})
			}
		}
	}
	sort.Slice(ps, func(i, j int) bool { return ps[i].prev < ps[j].prev })
	cur := init
	states := map[uint32]bool{init: true}
	for _, p := range ps {
		if p.prev != cur {
			if p.prev < cur {
				return 0, fmt.Sprintf("a successful grow by %d returned the previous size %d, but in every serial order the size at that point is %d (another successful grow already returned %d or covers it): two growers saw the same size / growth was lost", p.d, p.prev, cur, p.prev)
			}
			return 0, fmt.Sprintf("a successful grow by %d returned the previous size %d, but no sequence of the other successful grows reaches that size (closest below: %d)", p.d, p.prev, cur)
		}
		cur += p.d
		if cur > max {
			return 0, fmt.Sprintf("successful grows add up to %d pages, above the maximum %d", cur, max)
		}
		states[cur] = true
	}
	final = cur
	// per goroutine: observed sizes never decrease, zero-delta grows return a size that existed,
	// failures only when the request did not fit at some size the goroutine could have seen
	for g, rs := range recs {
		seen := init
		for i, r := range rs {
			if !r.ok {
				if r.d == 0 {
					return final, fmt.Sprintf("goroutine %d: Grow(0) failed", g)
				}
				// the size at the time of the failure is at most the next size this goroutine observed
				upper := final
				for _, n := range rs[i+1:] {
					if n.ok {
						upper = n.prev
						break
					}
				}
				if uint64(upper)+uint64(r.d) <= uint64(max) {
					return final, fmt.Sprintf("goroutine %d, grow #%d by %d failed although the size was at most %d then and the maximum is %d", g, i, r.d, upper, max)
				}
				continue
			}
			if r.prev < seen {
				return final, fmt.Sprintf("goroutine %d, grow #%d returned the previous size %d after the same goroutine had already seen %d pages: the memory shrank", g, i, r.prev, seen)
			}
			if !states[r.prev] {
				return final, fmt.Sprintf("goroutine %d, grow #%d (delta %d) returned the size %d, which the memory never had in any serial order of the successful grows", g, i, r.d, r.prev)
			}
			seen = r.prev + r.d
		}
	}
	return final, ""
}

func concModules(c ConcCase) (owner, thread []byte) {
	lim := wasmenc.Limits(c.Min, int64(c.Max), true)
	o := &wasmenc.Module{Mems: [][]byte{lim}}
	o.Exports = append(o.Exports, wasmenc.Export{Name: "mem", Kind: wasmenc.KMem, Idx: 0})
	t := &wasmenc.Module{}
	t.Imports = append(t.Imports, wasmenc.Import{Mod: "owner", Name: "mem", Kind: wasmenc.KMem, Desc: lim})
	t.ExportFunc("grow", t.AddFunc([]byte{i32}, []byte{i32}, nil, wasmenc.NewB().LocalGet(0).MemoryGrow().Bytes()))
	t.ExportFunc("size", t.AddFunc(nil, []byte{i32}, nil, wasmenc.NewB().MemorySize().Bytes()))
	return o.Encode(), t.Encode()
}

func runConcRound(c ConcCase) (f *failure) {
	defer func() {
		if r := recover(); r != nil {
			f = failf("%v: panic escaped wazero's API: %v", c, r)
		}
	}()
	rt := wazero.NewRuntimeWithConfig(bg, wz.Config(c.Engine))
	defer rt.Close(bg)
	ctx := bg
	var al *allocator
	if c.Alloc == "mmap" {
		al = newAllocator("mmap")
		defer al.release()
		ctx = experimental.WithMemoryAllocator(bg, al)
	}
	ob, tb := concModules(c)
	owner, err := rt.InstantiateWithConfig(ctx, ob, wazero.NewModuleConfig().WithName("owner"))
	if err != nil {
		return failf("%v: the module defining the shared memory was rejected: %s", c, firstLine(err))
	}
	mem := owner.ExportedMemory("mem")
	cm, err := rt.CompileModule(bg, tb)
	if err != nil {
		return failf("%v: thread module rejected: %s", c, firstLine(err))
	}
	grow := make([]api.Function, c.Guests)
	var size api.Function
	for k := 0; k < c.Guests; k++ {
		m, err := rt.InstantiateModule(bg, cm, wazero.NewModuleConfig().WithName(fmt.Sprintf("thread%d", k)))
		if err != nil {
			return failf("%v: instantiating thread %d failed: %s", c, k, firstLine(err))
		}
		grow[k] = m.ExportedFunction("grow") // one api.Function per goroutine
		size = m.ExportedFunction("size")
	}
	recs := make([][]growRec, len(c.N))
	errs := make([]string, len(c.N))
	start := make(chan struct{})
	var wg sync.WaitGroup
	for k := range c.N {
		wg.Add(1)
		go func(k int) {
			defer wg.Done()
			defer func() {
				if r := recover(); r != nil {
					errs[k] = fmt.Sprintf("goroutine %d: panic escaped: %v", k, r)
				}
			}()
			rs := make([]growRec, 0, c.N[k])
			<-start
			for n := 0; n < c.N[k]; n++ {
				d := c.Pat[k][n%len(c.Pat[k])]
				if k < c.Guests {
					res, err := grow[k].Call(bg, uint64(d))
					if err != nil {
						errs[k] = fmt.Sprintf("guest thread %d: memory.grow(%d) failed: %s", k, d, firstLine(err))
						break
					}
					rs = append(rs, growRec{d: d, prev: uint32(res[0]), ok: uint32(res[0]) != 0xffffffff})
				} else {
					prev, ok := mem.Grow(d)
					rs = append(rs, growRec{d: d, prev: prev, ok: ok})
				}
			}
			recs[k] = rs
		}(k)
	}
	close(start)
	wg.Wait()
	for _, e := range errs {
		if e != "" {
			return failf("%v: %s", c, e)
		}
	}
	final, msg := checkGrowHistory(c.Min, c.Max, recs)
	if msg != "" {
		return failf("%v: concurrent grows of the shared memory are not explained by any serial order: %s", c, msg)
	}
	// afterwards (single-threaded): every view agrees on the final size
	g0, ok := mem.Grow(0)
	if !ok || g0 != final || mem.Size() != uint32(uint64(final)<<16) {
		return failf("%v: after the concurrent grows the host sees Grow(0)=(%d,%v) Size()=%d bytes, the successful grows add up to %d pages", c, g0, ok, mem.Size(), final)
	}
	if size != nil {
		res, o := wz.SafeCall(bg, size)
		if o.Kind != wz.KOK || uint32(res[0]) != final {
			return failf("%v: after the concurrent grows guest memory.size = %v %v, the successful grows add up to %d pages", c, res, o, final)
		}
	}
	if al != nil {
		al.st.mu.Lock()
		defer al.st.mu.Unlock()
		if len(al.st.problems) > 0 {
			return failf("%v: custom allocator contract: %s", c, al.st.problems[0])
		}
	}
	return nil
}

func runConc(c ConcCase) *failure {
	if !validConc(c) {
		return nil
	}
	for r := 0; r < c.Rounds; r++ {
		if f := runConcRound(c); f != nil {
			f.msg = fmt.Sprintf("round %d: %s", r, f.msg)
			return f
		}
	}
	return nil
}

func genConc(t *rapid.T) ConcCase {
	c := ConcCase{Conc: true, Engine: rapid.SampledFrom(wz.Engines).Draw(t, "engine"), Alloc: rapid.SampledFrom([]string{"default", "default", "mmap"}).Draw(t, "alloc"), Rounds: 3}
	c.Max = rapid.SampledFrom([]uint32{64, 128, 256, 256, 512, 512, 1024, 2048}).Draw(t, "max")
	if rapid.IntRange(0, 19).Draw(t, "max-big") == 0 {
		c.Max = 4096
	}
	c.Min = uint32(rapid.IntRange(0, 3).Draw(t, "min"))
	g := rapid.IntRange(2, 8).Draw(t, "goroutines")
	c.Guests = rapid.IntRange(0, g).Draw(t, "guest-threads")
	// mostly "max large enough": scale the number of grows so that the sum stays below max
	fit := rapid.IntRange(0, 3).Draw(t, "may-exceed-max") != 0
	for k := 0; k < g; k++ {
		pat := rapid.SampledFrom([][]uint32{{1}, {1}, {1}, {0, 1}, {1, 2}, {2}, {1, 0, 3}, {1, 1, 5}}).Draw(t, "deltas")
		n := rapid.SampledFrom([]int{30, 100, 300, 300, 600}).Draw(t, "n")
		if fit {
			sum := 0
			for _, d := range pat {
				sum += int(d)
			}
			per := int(c.Max-c.Min) / g // pages this goroutine may use
			if lim := per * len(pat) / sum; n > lim {
				n = lim
			}
		}
		c.N = append(c.N, n)
		c.Pat = append(c.Pat, pat)
	}
	return c
}

// TestConcurrentGrow: also run as a small batch under the race detector by the driver.
func TestConcurrentGrow(t *testing.T) {
	if evid.ReplayPath() != "" {
		t.Skip()
	}
	n := evid.Scale(300, 16000)
	if os.Getenv("VERIF_RACE") != "" {
		n = 16
		if evid.Thorough() {
			n = 100
		}
	}
	evid.Check(t, "concurrent-grow", n, func(t *rapid.T) {
		c := genConc(t)
		evid.Journal(c)
		if f := runConc(c); f != nil {
			evid.Fail(t, c, "%s", f.msg)
		}
		l := []string{"concurrent-grow", "concurrent-grow-" + c.Engine}
		if c.Guests > 0 && c.Guests < len(c.N) {
			l = append(l, "concurrent-guest-and-host-growers")
		}
		evid.Case(evid.Hash64(fmt.Sprintf("%+v", c)), true, l...)
		evid.Sample("concurrent-grow", 1, c)
	})
}

// ---------------------------------------------------------------- known-defect probes

var (
	probeOnce              sync.Once
	hasImpFree             bool
	hasMemLen32, hasWrap   bool
	probeMemLen, probeWrap Case
	probeViolations        []string
)

// probes runs the specific inputs of the two defects known on the pinned tree. When one still
// reproduces it is reported through evid.Finding and its class is excluded from generation:
//   - memlen: engine=compiler and the memory has (or would reach) 65536 pages;
//   - wrap:   an access whose end offset+len is exactly 2^32 on a 65536-page memory.
func probes() {
	probeOnce.Do(func() {
		// Only "specific input fails and the control input (same operations one page below the
		// 4 GiB end) passes" is attributed to the finding; otherwise it is an ordinary violation.
		attribute := func(id, check string, c, control Case) bool {
			f, _, _ := runCase(c)
			if f == nil {
				return false
			}
			if fc, _, _ := runCase(control); fc != nil {
				evid.Violation(check+"-control", control, "%s", fc.msg)
				probeViolations = append(probeViolations, fc.msg)
				return false
			}
			if evid.Finding(id, check, c, "%s", f.msg) {
				probeViolations = append(probeViolations, f.msg)
			}
			return true
		}
		ops := []Op{{K: "gsize"}, {K: "gload", W: "8", Off: 0}, {K: "gstore", W: "32", Off: 16, V: 0x11223344}}
		probeMemLen = Case{Cfg: Config{Engine: "compiler", Min: 65536, Max: -1, Limit: -1, Alloc: "mmap"}, Ops: ops}
		hasMemLen32 = attribute(findMemLen, "known-memlen", probeMemLen,
			Case{Cfg: Config{Engine: "compiler", Min: 65535, Max: -1, Limit: -1, Alloc: "mmap"}, Ops: ops})
		wrapOps := func(end uint32) []Op { // end = address of the last byte
			return []Op{{K: "hwrite", W: "64", Off: end - 7, V: 0x8877665544332211},
				{K: "gload", W: "32", Off: end - 3}, {K: "gload", W: "64", Off: end - 7}, {K: "gload", W: "16", Off: end - 1},
				{K: "hread", W: "32", Off: end - 3}, {K: "hread", W: "f32", Off: end - 3}, {K: "hread", W: "64", Off: end - 7},
				{K: "hread", W: "f64", Off: end - 7}, {K: "hread", W: "16", Off: end - 1}, {K: "hread", W: "bytes", Off: end - 15, N: 16}}
		}
		probeWrap = Case{Cfg: Config{Engine: "interpreter", Min: 65536, Max: -1, Limit: -1, Alloc: "mmap"}, Ops: wrapOps(0xffffffff)}
		hasWrap = attribute(findWrap, "known-wrap", probeWrap,
			Case{Cfg: Config{Engine: "interpreter", Min: 65535, Max: -1, Limit: -1, Alloc: "mmap"}, Ops: wrapOps(0xfffeffff)})
		impOps := []Op{{K: "hwrite", W: "32", Off: 16, V: 0xa1b2c3d4}, {K: "impclose", W: "close"}, {K: "hread", W: "32", Off: 16}, {K: "ggrow", D: 1}, {K: "gload", W: "32", Off: 16}}
		hasImpFree = attribute(findImpFree, "known-importer-close-frees", Case{Cfg: Config{Engine: "interpreter", Min: 1, Max: -1, Limit: -1, Alloc: "slice", Imported: true}, Ops: impOps},
			Case{Cfg: Config{Engine: "interpreter", Min: 1, Max: -1, Limit: -1, Alloc: "default", Imported: true}, Ops: impOps})
		debug.FreeOSMemory()
	})
}

// excluded reports whether the case falls into the class of a reproduced known finding.
func excludedCfg(c Config) bool {
	return hasMemLen32 && c.Engine == "compiler" && c.Min == maxPages
}

// ---------------------------------------------------------------- cross-shard throttle for 4 GiB Go-heap buffers

// withBigSlot runs fn while holding one of two cross-shard slots (at most two shards hold a
// 4 GiB Go-heap buffer at a time, ~5 GiB resident each); exclusive takes both (the thorough
// re-allocating grow needs ~10 GiB resident).
func withBigSlot(exclusive bool, fn func()) {
	const slots = 2
	if os.Getenv("VERIF_WORK") != "" { // under the driver: the parent of the shard's work dir is per run and removed afterwards
		dir := filepath.Dir(evid.WorkDir())
		sh, _ := evid.Shard()
		want := []int{sh % slots}
		if exclusive {
			want = []int{0, 1}
		}
		for _, k := range want {
			fd, err := syscall.Open(filepath.Join(dir, fmt.Sprintf("c14-bigslot-%d", k)), syscall.O_CREAT|syscall.O_RDWR, 0o644)
			if err != nil {
				continue
			}
			syscall.Flock(fd, syscall.LOCK_EX)
			defer func(fd int) {
				syscall.Flock(fd, syscall.LOCK_UN)
				syscall.Close(fd)
			}(fd)
		}
	}
	fn()
	debug.FreeOSMemory()
}

// ---------------------------------------------------------------- generators

var (
	pageVals  = []uint32{0, 1, 2, 3, 7, 100, 32768, 40000, 65534, 65535, 65536}
	maxVals   = []int64{-1, 0, 1, 2, 3, 7, 100, 32768, 40000, 65534, 65535, 65536, 65537, 0xffffffff}
	limitVals = []int64{-1, 0, 1, 2, 3, 8, 100, 40000, 65534, 65535, 65536}
	allocs    = []string{"default", "slice", "mmap", "reserve", "guard"}
)

func genConfig(t *rapid.T) Config {
	c := Config{
		Engine: rapid.SampledFrom(wz.Engines).Draw(t, "engine"),
		Alloc:  rapid.SampledFrom(allocs).Draw(t, "alloc"),
		CapMax: rapid.Bool().Draw(t, "capFromMax"),
	}
	pv := func(name string) uint32 {
		if rapid.IntRange(0, 3).Draw(t, name+"-mid") == 0 {
			return uint32(rapid.IntRange(0, 70).Draw(t, name+"-small"))
		}
		return rapid.SampledFrom(pageVals).Draw(t, name)
	}
	c.Min = pv("min")
	switch rapid.IntRange(0, 5).Draw(t, "max-kind") {
	case 0, 1:
		c.Max = -1
	case 2:
		c.Max = int64(c.Min) + int64(rapid.IntRange(0, 3).Draw(t, "max-above-min"))
	default:
		c.Max = int64(pv("max"))
	}
	switch rapid.IntRange(0, 5).Draw(t, "limit-kind") {
	case 0, 1:
		c.Limit = -1
	case 2:
		c.Limit = int64(c.Min) + int64(rapid.IntRange(0, 3).Draw(t, "limit-above-min"))
	case 3:
		if c.Max >= 0 {
			c.Limit = c.Max + int64(rapid.IntRange(-1, 1).Draw(t, "limit-near-max"))
		} else {
			c.Limit = int64(pv("limit"))
		}
	default:
		c.Limit = int64(pv("limit"))
	}
	if c.Limit > maxPages {
		c.Limit = maxPages
	}
	if c.Limit < -1 {
		c.Limit = 0
	}
	if c.Max > maxPages {
		c.Max = maxPages
	}
	if c.Max >= 0 && c.Alloc != "slice" && rapid.IntRange(0, 5).Draw(t, "shared") == 0 {
		c.Shared = true // needs a declared maximum; a moving allocator cannot back a shared memory
	}
	if c.verdict() == "accept" && rapid.IntRange(0, 3).Draw(t, "imported") == 0 {
		c.Imported = true
	}
	if c.verdict() == "accept" {
		switch x := rapid.IntRange(0, 5).Draw(t, "xmod"); {
		case x <= 1 && c.Imported:
			c.X = "shared"
		case x <= 2 && !c.Imported:
			// callee module with its own memory; its limits are valid under the same runtime limit
			c.X = "own"
			c.BMin = uint32(rapid.IntRange(0, 5).Draw(t, "b-min"))
			if l := c.limit(); c.BMin > l {
				c.BMin = l
			}
			switch rapid.IntRange(0, 4).Draw(t, "b-max-kind") {
			case 0:
				c.BMax = -1
			case 1:
				c.BMax = int64(c.BMin)
			case 2:
				c.BMax = int64(c.BMin) + int64(rapid.IntRange(1, 4).Draw(t, "b-room"))
			case 3:
				c.BMax = int64(rapid.SampledFrom([]uint32{7, 100, 65535, 65536}).Draw(t, "b-max"))
			default:
				c.BMax = int64(c.Min) // same maximum as the guest's minimum: mixed-up bounds show
			}
			if c.BMax >= 0 && c.BMax < int64(c.BMin) {
				c.BMax = int64(c.BMin)
			}
		}
	}
	return c
}

type genState struct {
	pages, bound uint32
	written      []uint64
	b            *genState // callee module's own memory (X == "own")
}

func (g *genState) size() uint64 { return uint64(g.pages) << 16 }

func genAddr(t *rapid.T, g *genState, n uint64) uint32 {
	sz := g.size()
	var a int64
	switch rapid.IntRange(0, 9).Draw(t, "addr-kind") {
	case 0, 1, 2: // around the current size
		a = int64(sz) - int64(n) + int64(rapid.IntRange(-9, 9).Draw(t, "d"))
	case 3: // around 2^32
		a = 1<<32 - int64(n) + int64(rapid.IntRange(-9, 9).Draw(t, "d"))
	case 4: // around 2^31
		a = 1<<31 - int64(n) + int64(rapid.IntRange(-9, 9).Draw(t, "d"))
	case 5: // page boundaries inside
		if g.pages > 0 {
			a = int64(rapid.Uint32Range(0, g.pages).Draw(t, "page"))<<16 - int64(rapid.IntRange(0, 9).Draw(t, "d"))
		}
	case 6, 7: // something written earlier
		if len(g.written) > 0 {
			a = int64(rapid.SampledFrom(g.written).Draw(t, "written")) + int64(rapid.IntRange(-4, 4).Draw(t, "d"))
		} else {
			a = int64(rapid.IntRange(0, 300).Draw(t, "low"))
		}
	case 8:
		a = int64(rapid.Uint32().Draw(t, "any"))
	default:
		a = int64(rapid.IntRange(0, 70000).Draw(t, "low"))
	}
	if a < 0 {
		a = 0
	}
	if a > math.MaxUint32 {
		a = math.MaxUint32
	}
	return uint32(a)
}

func genDelta(t *rapid.T, g *genState, c Config) uint32 {
	room := g.bound - g.pages
	if g.bound < g.pages {
		room = 0
	}
	var d uint32
	switch rapid.IntRange(0, 11).Draw(t, "delta-kind") {
	case 0:
		d = 0
	case 1, 2:
		d = 1
	case 3:
		d = 2
	case 4, 5:
		d = room
	case 6:
		d = room + 1
	case 7:
		d = rapid.SampledFrom([]uint32{65535, 65536, 1 << 31, 0xffffffff, 0x80000001, 0xffff0001}).Draw(t, "huge")
	case 8:
		if room > 0 {
			d = room - 1
		}
	case 9:
		d = uint32(rapid.IntRange(0, 20).Draw(t, "small"))
	default:
		d = rapid.SampledFrom([]uint32{1, 3, 16}).Draw(t, "few")
	}
	// growing a Go-heap backed buffer copies/zeroes in proportion to the new size: keep the
	// successful ones below the heavy threshold unless growth is free (mmap / pre-allocated capacity).
	if uint64(g.pages)+uint64(d) <= uint64(g.bound) && d > 0 && !c.cheapGrow() {
		if g.pages+d > heavyPage {
			evid.Label("avoided-heavy-grow", 1)
			if g.pages+1 <= heavyPage && g.pages+1 <= g.bound {
				d = 1
			} else {
				d = room + 1 // a failing grow instead
			}
		}
	}
	if hasMemLen32 && c.Engine == "compiler" && uint64(g.pages)+uint64(d) == maxPages && d > 0 {
		evid.Label("excluded-compiler-65536-pages", 1)
		d--
	}
	return d
}

var accessWidths = []string{"8", "16", "32", "64", "f32", "f64"}

func genValue(t *rapid.T) uint64 {
	return rapid.OneOf(rapid.SampledFrom([]uint64{0xffffffffffffffff, 0x8000000080000000, 0x0102030405060708, 0x7fc000017ff00001}), rapid.Uint64()).Draw(t, "value")
}

func genOp(t *rapid.T, g *genState, c Config) Op {
	kinds := []string{"ggrow", "ggrow", "hgrow", "hgrow", "vgrow", "vgrowld", "gsl", "gsize", "hsize",
		"hread", "hread", "hread", "hwrite", "hwrite", "hwrite", "gload", "gload", "gstore", "gstore", "hview"}
	if c.Imported {
		if hasImpFree && c.Alloc != "default" {
			evid.Label("excluded-importer-close-with-custom-allocator", 1)
		} else {
			kinds = append(kinds, "impclose", "impclose", "impclose")
		}
	}
	if c.X != "" {
		kinds = append(kinds, "xgrow", "xgrow", "xgrowsz", "xgrowsz", "xmix", "xmix", "xload", "xload", "xstore", "xstore", "xsize")
		if c.X == "own" {
			kinds = append(kinds, "bhgrow")
		}
	}
	kind := rapid.SampledFrom(kinds).Draw(t, "op")
	op := Op{K: kind}
	gx := g // state of the memory the callee's code works on
	if g.b != nil {
		gx = g.b
	}
	noteGrow := func(d uint32) {
		if uint64(g.pages)+uint64(d) <= uint64(g.bound) {
			g.pages += d
		}
	}
	noteGrowX := func(d uint32) {
		if uint64(gx.pages)+uint64(d) <= uint64(gx.bound) {
			gx.pages += d
		}
	}
	switch kind {
	case "impclose":
		op.W = rapid.SampledFrom([]string{"close", "close", "exit"}).Draw(t, "how")
		if rapid.Bool().Draw(t, "grow-in-importer") {
			op.D = genDelta(t, g, c)
			noteGrow(op.D)
		}
	case "xgrow", "xgrowsz", "bhgrow":
		op.D = genDelta(t, gx, c)
		noteGrowX(op.D)
	case "xmix":
		op.Off = genAddr(t, g, 1)
		if g.pages > 0 && rapid.IntRange(0, 3).Draw(t, "in-range") != 0 {
			op.Off = uint32(rapid.Uint64Range(0, g.size()-1).Draw(t, "addr"))
		}
		op.V = uint64(rapid.IntRange(1, 255).Draw(t, "marker"))
		if uint64(op.Off) < g.size() {
			op.D = genDelta(t, gx, c)
			g.written = append(g.written, uint64(op.Off))
			noteGrowX(op.D)
		} else {
			op.D = 1 // never executed: the store traps first
		}
	case "xload", "xstore":
		op.W = rapid.SampledFrom([]string{"8", "64"}).Draw(t, "w")
		n := uint64(1)
		if op.W == "64" {
			n = 8
		}
		op.Off = genAddr(t, gx, n)
		if kind == "xstore" {
			op.V = genValue(t)
			gx.written = append(gx.written, uint64(op.Off))
		}
	case "ggrow", "hgrow", "vgrow":
		op.D = genDelta(t, g, c)
		noteGrow(op.D)
	case "vgrowld":
		if g.pages > 0 && rapid.IntRange(0, 7).Draw(t, "addr0-any") != 0 {
			op.Off = uint32(rapid.Uint64Range(0, g.size()-1).Draw(t, "addr0"))
			if len(g.written) > 0 && rapid.Bool().Draw(t, "addr0-written") {
				if w := rapid.SampledFrom(g.written).Draw(t, "w"); w < g.size() {
					op.Off = uint32(w)
				}
			}
		} else {
			op.Off = genAddr(t, g, 1)
		}
		if uint64(op.Off) < g.size() {
			op.D = genDelta(t, g, c)
			noteGrow(op.D)
		} else {
			op.D = 1 // never executed: the first load traps
		}
		op.Off2 = genAddr(t, g, 1)
	case "gsl":
		op.Off = genAddr(t, g, 1)
		op.V = uint64(rapid.IntRange(1, 255).Draw(t, "marker"))
		if uint64(op.Off) < g.size() {
			op.D = genDelta(t, g, c)
			g.written = append(g.written, uint64(op.Off))
			noteGrow(op.D)
		} else {
			op.D = 1 // never executed: the store traps first
		}
		op.Off2 = genAddr(t, g, 1)
	case "hread":
		op.W = rapid.SampledFrom([]string{"8", "16", "32", "f32", "64", "f64", "bytes", "bytes"}).Draw(t, "w")
		if op.W == "bytes" {
			op.N = genLen(t, g, true)
			op.Off = genAddr(t, g, uint64(op.N))
		} else {
			w, _ := widthOf(op.W)
			op.Off = genAddr(t, g, uint64(w.bytes))
		}
	case "hwrite":
		op.W = rapid.SampledFrom([]string{"8", "16", "32", "f32", "64", "f64", "bytes", "string"}).Draw(t, "w")
		op.V = genValue(t)
		if op.W == "bytes" || op.W == "string" {
			op.N = genLen(t, g, false)
			op.Off = genAddr(t, g, uint64(op.N))
		} else {
			w, _ := widthOf(op.W)
			op.Off = genAddr(t, g, uint64(w.bytes))
		}
		g.written = append(g.written, uint64(op.Off))
	case "hview":
		op.N = uint32(rapid.IntRange(1, 64).Draw(t, "n"))
		op.Off = genAddr(t, g, uint64(op.N))
		op.V = genValue(t)
		g.written = append(g.written, uint64(op.Off))
	case "gload", "gstore":
		op.W = rapid.SampledFrom(accessWidths).Draw(t, "w")
		op.Imm = rapid.IntRange(0, len(imms)-1).Draw(t, "imm")
		w, _ := widthOf(op.W)
		ea := genAddr(t, g, uint64(w.bytes))
		// choose addr so that addr+imm is the interesting effective address (when representable)
		if uint64(ea) >= uint64(imms[op.Imm]) && rapid.IntRange(0, 4).Draw(t, "ea-direct") != 0 {
			op.Off = ea - imms[op.Imm]
		} else {
			op.Off = ea
		}
		if kind == "gstore" {
			op.V = genValue(t)
			g.written = append(g.written, uint64(op.Off)+uint64(imms[op.Imm]))
		}
	}
	if hasWrap && g.pages == maxPages {
		// class of the reproduced finding: accesses ending exactly at 2^32
		end := uint64(op.Off) + uint64(op.N)
		if op.K == "gload" || op.K == "gstore" {
			w, _ := widthOf(op.W)
			end = uint64(op.Off) + uint64(imms[op.Imm]) + uint64(w.bytes)
		} else if w, ok := widthOf(op.W); ok {
			end = uint64(op.Off) + uint64(w.bytes)
		}
		if end == 1<<32 && (op.K == "gload" || op.K == "hread") {
			evid.Label("excluded-access-ending-at-4GiB", 1)
			return Op{K: "gsize"}
		}
	}
	return op
}

func genLen(t *rapid.T, g *genState, read bool) uint32 {
	sz := g.size()
	switch rapid.IntRange(0, 7).Draw(t, "len-kind") {
	case 0:
		return 0
	case 1, 2:
		return uint32(rapid.IntRange(1, 64).Draw(t, "len"))
	case 3:
		return uint32(rapid.IntRange(65530, 65545).Draw(t, "len"))
	case 4:
		if read {
			if sz > math.MaxUint32 {
				return math.MaxUint32
			}
			return uint32(sz)
		}
		return uint32(rapid.IntRange(1, 3*pageSize).Draw(t, "len"))
	case 5:
		if read {
			return rapid.SampledFrom([]uint32{0xffffffff, 0xfffffff0, 0x80000000, 0x7fffffff, 0x10000}).Draw(t, "len")
		}
		return uint32(rapid.IntRange(1, 300).Draw(t, "len"))
	default:
		return uint32(rapid.IntRange(1, 16).Draw(t, "len"))
	}
}

func genCase(t *rapid.T) (Case, bool) {
	var c Config
	for try := 0; ; try++ {
		c = genConfig(t)
		if c.verdict() == "reject" && rapid.IntRange(0, 9).Draw(t, "keep-rejected") != 0 {
			continue // mostly instantiable configurations; rejections are enumerated in TestConfigs
		}
		if c.heavy() {
			evid.Label("regenerated-heavy-config", 1)
			continue // covered by TestBig (bounded number of 4 GiB Go-heap buffers)
		}
		if excludedCfg(c) {
			evid.Label("excluded-compiler-65536-pages", 1)
			continue
		}
		break
	}
	g := &genState{pages: c.Min, bound: c.bound()}
	if c.X == "own" {
		g.b = &genState{pages: c.BMin, bound: c.bCfg().bound()}
	}
	n := rapid.IntRange(1, 25).Draw(t, "nops")
	cs := Case{Cfg: c}
	for i := 0; i < n; i++ {
		cs.Ops = append(cs.Ops, genOp(t, g, c))
	}
	return cs, true
}

func keyOf(c Case) uint64 {
	return evid.Hash64(fmt.Sprintf("%+v", c))
}

func labelsOf(c Case, m *model, skipped bool) (bool, []string) {
	var l []string
	l = append(l, "engine-"+c.Cfg.Engine, "alloc-"+c.Cfg.Alloc, "verdict-"+c.Cfg.verdict())
	if skipped {
		return false, append(l, "config-rejected")
	}
	if m == nil {
		return false, l
	}
	nt := false
	if m.okGrow > 0 && m.failGrow > 0 {
		nt = true
		l = append(l, "ok-and-failing-grow")
	}
	if m.edgeOps > 0 {
		nt = true
		l = append(l, "ops-at-65535/65536-pages")
	}
	if m.guestGrow > 0 && m.hostGrow > 0 {
		nt = true
		l = append(l, "guest-and-host-growth")
	}
	if m.pages == maxPages {
		l = append(l, "reached-4GiB")
	}
	if m.pages >= 32768 {
		l = append(l, "size>=2GiB")
	}
	if c.Cfg.CapMax {
		l = append(l, "cap-from-max")
	}
	if c.Cfg.Shared {
		l = append(l, "shared")
	}
	if c.Cfg.Imported {
		l = append(l, "imported-memory")
	}
	for _, op := range c.Ops {
		if op.K == "impclose" && c.Cfg.Imported {
			l = append(l, "importer-instantiated-and-closed")
			break
		}
	}
	if c.Cfg.X != "" {
		l = append(l, "callee-module-"+c.Cfg.X+"-memory")
		for _, op := range c.Ops {
			if op.K == "xgrow" || op.K == "xgrowsz" || op.K == "xmix" {
				l = append(l, "grow-executing-in-callee-module")
				break
			}
		}
	}
	if len(m.mem) > 0 {
		l = append(l, "with-written-pages")
	}
	return nt, l
}

// TestKnownFindings re-runs the specific inputs of the defects known on the pinned tree
// (see probes); a reproduced one is a KNOWN-FINDING when listed as open, else a violation.
func TestKnownFindings(t *testing.T) {
	if evid.ReplayPath() != "" {
		t.Skip()
	}
	probes()
	for _, m := range probeViolations {
		t.Errorf("%s", m)
	}
	if !hasMemLen32 {
		evid.Note("known defect %s did not reproduce: 65536-page memories are explored on the compiler too", findMemLen)
	}
	if !hasImpFree {
		evid.Note("known defect %s did not reproduce: closing importers is explored with custom allocators too", findImpFree)
	}
	if !hasWrap {
		evid.Note("known defect %s did not reproduce: accesses ending at 2^32 are explored", findWrap)
	}
}

func TestHistories(t *testing.T) {
	if evid.ReplayPath() != "" {
		t.Skip()
	}
	probes()
	evid.Check(t, "histories", evid.Scale(12000, 1200000), func(t *rapid.T) {
		c, _ := genCase(t)
		evid.Journal(c)
		f, m, skipped := runCase(c)
		if f != nil {
			evid.Fail(t, c, "%s", f.msg)
		}
		nt, l := labelsOf(c, m, skipped)
		evid.Case(keyOf(c), nt, l...)
		if nt {
			evid.Sample("history", 2, c)
		}
	})
}

// TestConfigs enumerates the boundary product of configurations and checks which ones are
// accepted; accepted light ones get a fixed script around their bound.
func TestConfigs(t *testing.T) {
	if evid.ReplayPath() != "" {
		t.Skip()
	}
	probes()
	i := 0
	var n, nt int64
	lab := map[string]int64{}
	for _, eng := range wz.Engines {
		for _, al := range allocs {
			for _, cm := range []bool{false, true} {
				for _, mn := range append(append([]uint32{}, pageVals...), 65537) {
					for _, mx := range maxVals {
						for _, lm := range limitVals {
							for _, sh := range []bool{false, true} {
								if sh && (mx < 0 || al == "slice" || lm >= 0 && lm != 3 && lm != 65535) {
									continue // shared: needs a maximum and a non-moving buffer; a thinner slice of limits
								}
								i++
								if !evid.Mine(i) {
									continue
								}
								c := Config{Engine: eng, Min: mn, Max: mx, Limit: lm, CapMax: cm, Alloc: al, Shared: sh}
								if (al == "reserve" || al == "guard") && c.verdict() == "reject" {
									continue // rejection happens before any allocator is involved: enumerated with the other three
								}
								if excludedCfg(c) {
									lab["excluded-compiler-65536-pages"]++
									continue
								}
								n++
								ok, msg, class := checkConfig(c)
								lab["verdict-"+c.verdict()]++
								lab[class]++
								if class != "either-rejected" && class != "heavy-compile-only" {
									nt++
								}
								if !ok {
									cs := Case{Cfg: c}
									evid.Violation("configs", cs, "%s", msg)
									t.Errorf("%s", msg)
									if evid.ViolationCount() > 5 {
										return
									}
								}
							}
						}
					}
				}
			}
		}
	}
	evid.Bulk(n, nt)
	for k, v := range lab {
		evid.Label("configs-"+k, v)
	}
	// WithMemoryLimitPages above 65536 is documented to panic.
	p := host(func() { wazero.NewRuntimeConfig().WithMemoryLimitPages(65537) })
	if p == "" {
		evid.Violation("configs", Case{Cfg: Config{Limit: 65537}}, "WithMemoryLimitPages(65537) did not panic although documented to")
		t.Errorf("WithMemoryLimitPages(65537) did not panic")
	}
}

// fixedScript is what every accepted light configuration goes through.
func fixedScript(c Config) []Op {
	b, mn := c.bound(), c.Min
	room := b - mn
	ops := []Op{{K: "gsize"}, {K: "ggrow", D: room + 1}, {K: "hgrow", D: room + 1}, {K: "ggrow", D: 0xffffffff}, {K: "hgrow", D: 1 << 31}}
	top := uint64(mn) << 16
	if mn > 0 {
		ops = append(ops, Op{K: "hwrite", W: "32", Off: uint32(top - 4), V: 0xa1b2c3d4}, Op{K: "gload", W: "32", Off: uint32(top - 4)})
	}
	if mn > 0 && room == 0 {
		ops = append(ops, Op{K: "vgrowld", D: 1, Off: uint32(top - 4), Off2: uint32(top - 1)})
	}
	ops = append(ops, Op{K: "hread", W: "8", Off: uint32(min64(top, math.MaxUint32))}, Op{K: "gload", W: "8", Off: uint32(min64(top, math.MaxUint32))})
	grow := room
	if !c.cheapGrow() && !c.CapMax && mn+grow > heavyPage {
		grow = 0
		if room > 0 && mn+1 <= heavyPage {
			grow = 1
		}
	}
	if hasMemLen32 && c.Engine == "compiler" && mn+grow == maxPages && grow > 0 {
		grow--
	}
	if grow > 0 {
		k := "ggrow"
		if (mn+b)%2 == 1 {
			k = "vgrow"
		}
		if mn > 0 && k == "vgrow" {
			ops = append(ops, Op{K: "vgrowld", D: grow, Off: uint32(top - 4), Off2: uint32(uint64(mn+grow)<<16 - 1)})
		} else {
			ops = append(ops, Op{K: k, D: grow})
		}
		ntop := uint64(mn+grow) << 16
		ops = append(ops, Op{K: "gstore", W: "64", Off: uint32(ntop - 8), V: 0x1122334455667788}, Op{K: "hread", W: "64", Off: uint32(ntop - 8)},
			Op{K: "hread", W: "16", Off: uint32(ntop - 1)}, Op{K: "gload", W: "16", Off: uint32(ntop - 1)})
		if mn > 0 {
			ops = append(ops, Op{K: "hread", W: "32", Off: uint32(top - 4)})
		}
		if mn+grow == b {
			ops = append(ops, Op{K: "hgrow", D: 1}, Op{K: "ggrow", D: 1})
		}
	}
	return ops
}

func min64(a, b uint64) uint64 {
	if a < b {
		return a
	}
	return b
}

func checkConfig(c Config) (ok bool, msg, class string) {
	v := c.verdict()
	if c.heavy() || v == "reject" {
		// compile/instantiate verdict only; heavy accepted configurations are not instantiated here
		if v != "reject" {
			rc := wz.Config(c.Engine)
			if c.Limit >= 0 {
				rc = rc.WithMemoryLimitPages(uint32(c.Limit))
			}
			rt := wazero.NewRuntimeWithConfig(bg, rc.WithMemoryCapacityFromMax(c.CapMax))
			defer rt.Close(bg)
			_, err := rt.CompileModule(bg, tinyModule(c))
			if err != nil && v == "accept" {
				return false, fmt.Sprintf("configuration %v is valid and within the limit but CompileModule rejected it: %s", c, firstLine(err)), ""
			}
			return true, "", "heavy-compile-only"
		}
		in, err, internal := open(c, tinyModule(c))
		if internal != "" {
			return false, fmt.Sprintf("configuration %v: internal error instead of a rejection: %s", c, internal), ""
		}
		if err == nil {
			in.close()
			return false, fmt.Sprintf("configuration %v must be rejected (%s) but was instantiated", c, rejectReason(c)), ""
		}
		return true, "", "rejected-as-required"
	}
	cs := Case{Cfg: c, Ops: fixedScript(c)}
	evid.Journal(cs)
	f, _, skipped := runCase(cs)
	if f != nil {
		return false, f.msg, ""
	}
	if skipped {
		return true, "", "either-rejected"
	}
	if v == "either" {
		return true, "", "either-accepted-and-run"
	}
	return true, "", "accepted-and-run"
}

// TestBig runs a bounded number of cases whose 4 GiB buffers come from the Go heap
// (default allocator / capacity-from-max). They are throttled across shards.
func bigCases() []Case {
	var cs []Case
	top := uint32(0xffffffff)
	for _, eng := range wz.Engines {
		// 65536 pages from the start, default allocator
		cs = append(cs, Case{Cfg: Config{Engine: eng, Min: 65536, Max: -1, Limit: -1, Alloc: "default"}, Ops: []Op{
			{K: "hwrite", W: "64", Off: top - 7, V: 0x0807060504030201}, {K: "gload", W: "64", Off: top - 7}, {K: "gload", W: "8", Off: top},
			{K: "gload", W: "16", Off: top}, {K: "hread", W: "bytes", Off: top - 15, N: 16}, {K: "hread", W: "bytes", Off: top - 15, N: 17},
			{K: "hread", W: "32", Off: top - 3}, {K: "hread", W: "32", Off: top - 2}, {K: "ggrow", D: 1}, {K: "hgrow", D: 1}, {K: "ggrow", D: 0},
			{K: "gstore", W: "32", Off: top - 3, V: 0xcafebabe}, {K: "gstore", W: "32", Off: top - 2, V: 1}, {K: "hread", W: "bytes", Off: 1, N: top},
			{K: "gload", W: "8", Off: 1, Imm: 3}, {K: "gload", W: "8", Off: 0, Imm: 3}}})
		// capacity from max (no declared max: 4 GiB capacity), grow to the very end
		cs = append(cs, Case{Cfg: Config{Engine: eng, Min: 65535, Max: -1, Limit: -1, CapMax: true, Alloc: "default"}, Ops: []Op{
			{K: "hwrite", W: "32", Off: 0xfffefffc, V: 0x55667788}, {K: "gload", W: "8", Off: 0xffff0000}, {K: "ggrow", D: 2}, {K: "vgrowld", D: 1, Off: 0xfffefffc, Off2: top},
			{K: "gload", W: "32", Off: 0xfffefffc}, {K: "hread", W: "64", Off: top - 7}, {K: "gstore", W: "16", Off: top - 1, V: 0xbeef},
			{K: "hread", W: "16", Off: top - 1}, {K: "hgrow", D: 1}, {K: "ggrow", D: 1}}})
		// declared max 65536 with shared memory (default allocator allocates the maximum)
		cs = append(cs, Case{Cfg: Config{Engine: eng, Min: 65534, Max: 65536, Limit: -1, Alloc: "default", Shared: true}, Ops: []Op{
			{K: "ggrow", D: 3}, {K: "hgrow", D: 1}, {K: "gsl", Off: 0xfffdffff, V: 0x5a, D: 1, Off2: 0xfffe0000}, {K: "vgrow", D: 1},
			{K: "gload", W: "64", Off: top - 7}, {K: "hread", W: "8", Off: top}}})
	}
	for _, eng := range wz.Engines {
		// imported memory of 65535 pages grown to the end (mmap allocator: no Go heap buffer)
		cs = append(cs, Case{Cfg: Config{Engine: eng, Min: 65535, Max: -1, Limit: -1, Alloc: "mmap", Imported: true}, Ops: []Op{
			{K: "gstore", W: "32", Off: 0xfffefffc, V: 0x55667788}, {K: "vgrowld", D: 1, Off: 0xfffefffc, Off2: top}, {K: "gload", W: "64", Off: top - 7},
			{K: "hread", W: "32", Off: 0xfffefffc}, {K: "gsl", Off: top, V: 0x77, D: 1, Off2: top - 1}, {K: "hread", W: "8", Off: top}}})
	}
	if evid.Thorough() {
		// growth by re-allocation at the 4 GiB end (copies 4 GiB: slow, thorough tier only)
		for _, eng := range wz.Engines {
			cs = append(cs, Case{Cfg: Config{Engine: eng, Min: 65535, Max: -1, Limit: -1, Alloc: "default"}, Ops: []Op{
				{K: "hwrite", W: "32", Off: 0xfffefffc, V: 0x55667788}, {K: "ggrow", D: 1}, {K: "gload", W: "32", Off: 0xfffefffc},
				{K: "gload", W: "64", Off: top - 7}, {K: "ggrow", D: 1}}})
		}
	}
	return cs
}

func stripExcluded(c Case) (Case, bool) {
	if !hasMemLen32 || c.Cfg.Engine != "compiler" {
		return c, true
	}
	if c.Cfg.Min == maxPages {
		return c, false
	}
	// drop the part of the script from the grow that reaches 65536 pages
	pages, bound := c.Cfg.Min, c.Cfg.bound()
	for i, op := range c.Ops {
		switch op.K {
		case "ggrow", "hgrow", "vgrow", "vgrowld", "gsl":
			if uint64(pages)+uint64(op.D) <= uint64(bound) {
				pages += op.D
			}
		}
		if pages == maxPages {
			return Case{Cfg: c.Cfg, Ops: c.Ops[:i]}, true
		}
	}
	return c, true
}

func TestBig(t *testing.T) {
	if evid.ReplayPath() != "" {
		t.Skip()
	}
	probes()
	for i, c := range bigCases() {
		if !evid.Mine(i) {
			continue
		}
		c, ok := stripExcluded(c)
		if !ok {
			evid.Label("excluded-compiler-65536-pages", 1)
			continue
		}
		reallocates := c.Cfg.Alloc == "default" && !c.Cfg.CapMax && !c.Cfg.Shared && c.Cfg.Min < maxPages
		withBigSlot(reallocates, func() {
			evid.Journal(c)
			f, m, skipped := runCase(c)
			if f != nil {
				evid.Violation("big", c, "%s", f.msg)
				t.Errorf("%s", f.msg)
				return
			}
			nt, l := labelsOf(c, m, skipped)
			evid.Case(keyOf(c), nt, append(l, "big-go-heap-buffer")...)
		})
	}
}

func TestReplay(t *testing.T) {
	p := evid.ReplayPath()
	if p == "" {
		t.Skip()
	}
	var cc ConcCase
	if _, err := evid.LoadReplay(p, &cc); err == nil && cc.Conc {
		for i := 0; i < 8; i++ { // schedule dependent: try the recorded case several times
			if f := runConc(cc); f != nil {
				evid.Violation("replay", cc, "%s", f.msg)
				t.Fatal(f.msg)
			}
		}
		return
	}
	var c Case
	if _, err := evid.LoadReplay(p, &c); err != nil {
		t.Fatal(err)
	}
	if c.Cfg.Limit > maxPages {
		if host(func() { wazero.NewRuntimeConfig().WithMemoryLimitPages(uint32(c.Cfg.Limit)) }) == "" {
			evid.Violation("replay", c, "WithMemoryLimitPages(%d) did not panic", c.Cfg.Limit)
			t.Fatal("no panic")
		}
		return
	}
	f, _, _ := runCase(c)
	if f != nil {
		evid.Violation("replay", c, "%s", f.msg)
		t.Fatal(f.msg)
	}
}
