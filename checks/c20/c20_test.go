// C20 — function listeners see every call, correctly bracketed.
//
// Generator: wasmgen programs (call-rich: direct, indirect, imported host calls, host
// callbacks re-entering the guest, start functions, recursion bounded to 25 frames by fuel,
// multi-value signatures, traps and host-propagated failures at any depth) with a ground-truth
// hook woven into every function entry (host import enter(funcIndex)). A recording listener is
// attached to all functions or to a drawn subset.
//
// Oracles: (1) invariants of the event stream (every Before matched by exactly one After or
// Abort of the same function, LIFO; nothing open when the outermost Call returns; After only
// when the frame returned, Abort only when it failed); (2) ground truth: Before events of wasm
// functions == sequence of enter() reports, Before/After of host functions == the host's own
// log of arguments and results, outermost params/results == what the caller passed/received;
// (3) the StackIterator at each Before lists the callee followed by the listened frames that
// are open, innermost first; (4) differential: the event sequence (incl. values) is the same
// on both engines; (5) metamorphic: the guest's trace with listeners == without.
package c20

import (
	"context"
	"fmt"
	"strings"
	"testing"

	"github.com/tetratelabs/wazero"
	"github.com/tetratelabs/wazero/api"
	"github.com/tetratelabs/wazero/experimental"
	"pgregory.net/rapid"

	"verif/internal/evid"
	"verif/internal/runner"
	"verif/internal/wasmgen"
	"verif/internal/wz"
)

func TestMain(m *testing.M) { evid.Main(m, "C20") }

// Event is one listener notification.
type Event struct {
	Kind  byte     // 'B', 'A', 'X'
	ID    string   // module.index (host functions: env.<name>)
	Host  bool     // host function
	Vals  []uint64 // params (B) or results (A), masked by type
	Stack []string // B only: ids from the iterator, callee first
	Extra int      // number of value slots handed to the listener beyond (or, negative, short of) the function's signature
}

func (e Event) String() string {
	s := fmt.Sprintf("%c %s %x", e.Kind, e.ID, e.Vals)
	if e.Extra != 0 {
		s += fmt.Sprintf(" slots%+d", e.Extra)
	}
	if e.Kind == 'B' {
		s += " stack=" + strings.Join(e.Stack, "<")
	}
	return s
}

type recorder struct {
	subset map[string]bool // nil = all
	ev     []Event
	max    int
}

func id(def api.FunctionDefinition) (string, bool) {
	if def.GoFunction() != nil {
		return def.ModuleName() + "." + def.Name(), true
	}
	return fmt.Sprintf("%s.%d", def.ModuleName(), def.Index()), false
}

func mask(ts []api.ValueType, vs []uint64) []uint64 {
	out := make([]uint64, 0, len(vs))
	i := 0
	for _, t := range ts {
		if i >= len(vs) {
			break
		}
		switch t {
		case api.ValueTypeI32, api.ValueTypeF32:
			out = append(out, vs[i]&0xffffffff)
		case 0x7b: // v128: two slots
			out = append(out, vs[i])
			i++
			if i < len(vs) {
				out = append(out, vs[i])
			}
		case 0x70: // funcref: opaque
			if vs[i] != 0 {
				out = append(out, 1)
			} else {
				out = append(out, 0)
			}
		default:
			out = append(out, vs[i])
		}
		i++
	}
	return out
}

func slots(ts []api.ValueType) int {
	n := 0
	for _, t := range ts {
		n++
		if t == 0x7b {
			n++
		}
	}
	return n
}

func (r *recorder) NewFunctionListener(def api.FunctionDefinition) experimental.FunctionListener {
	i, _ := id(def)
	if strings.HasSuffix(i, ".enter") {
		return nil // the ground-truth hook itself is not observed
	}
	if r.subset != nil && !r.subset[i] && !strings.HasSuffix(i, ".callback") {
		return nil // (the callback host function is always listened: it marks call-stack boundaries)
	}
	return r
}

func (r *recorder) add(e Event) {
	if len(r.ev) < r.max {
		r.ev = append(r.ev, e)
	}
}

func (r *recorder) Before(ctx context.Context, mod api.Module, def api.FunctionDefinition, params []uint64, si experimental.StackIterator) {
	i, host := id(def)
	e := Event{Kind: 'B', ID: i, Host: host, Vals: mask(def.ParamTypes(), params), Extra: len(params) - slots(def.ParamTypes())}
	for si.Next() {
		d := si.Function().Definition()
		fi, _ := id(d)
		e.Stack = append(e.Stack, fi)
		if len(e.Stack) > 200 {
			break
		}
	}
	r.add(e)
}

func (r *recorder) After(ctx context.Context, mod api.Module, def api.FunctionDefinition, results []uint64) {
	i, host := id(def)
	r.add(Event{Kind: 'A', ID: i, Host: host, Vals: mask(def.ResultTypes(), results), Extra: len(results) - slots(def.ResultTypes())})
}

func (r *recorder) Abort(ctx context.Context, mod api.Module, def api.FunctionDefinition, err error) {
	i, host := id(def)
	r.add(Event{Kind: 'X', ID: i, Host: host})
}

// Case is the replayable form.
type Case struct {
	Lib           *wasmgen.Module `json:"lib,omitempty"` // second module ("lib") whose exports Module imports (wasm-to-wasm calls)
	Module        *wasmgen.Module `json:"module"`
	Script        []runner.Call   `json:"script"`
	Fuel          int32           `json:"fuel"`
	Subset        []uint32        `json:"subset,omitempty"`                 // listened wasm function indices (nil = all functions incl. host)
	FromBytes     bool            `json:"instantiate_from_bytes,omitempty"` // Runtime.InstantiateWithConfig: the code is released when the instance closes
	MultiAllFirst bool            `json:"multi_all_first,omitempty"`        // order of the two factories
	Multi         bool            `json:"multi_listener_factory,omitempty"` // two recorders combined by experimental.MultiFunctionListenerFactory
	CloseCtx      bool            `json:"close_on_context_done,omitempty"`  // runtime built WithCloseOnContextDone(true): termination checks at loop headers
}

type runResult struct {
	multiMsg string
	tr       runner.Trace
	perCal   [][]Event  // events per script step (index 0 = instantiation)
	enter    [][]string // cumulative global enter() reports "<module>.<index>"
	hostlg   [][]string // cumulative global host-call log
}

func run(engine string, c *Case, listen bool) runResult {
	var res runResult
	ctx := context.Background()
	rec := &recorder{max: 200000}
	var rec2 *recorder // second listener of a MultiFunctionListenerFactory: must see exactly what the first sees
	if c.Subset != nil {
		rec.subset = map[string]bool{}
		for _, f := range c.Subset {
			rec.subset[fmt.Sprintf(".%d", f)] = true
		}
		if c.Lib != nil {
			for _, f := range c.Lib.Funcs {
				if !f.Imported {
					rec.subset[fmt.Sprintf("lib.%d", f.Index)] = true
				}
			}
		}
	}
	lctx := ctx
	if listen {
		if c.Multi {
			// the second recorder listens to every function: with a subset recorder beside it the
			// combined factory sees factories that decline some functions, in either order
			rec2 = &recorder{max: 200000}
			if c.MultiAllFirst {
				lctx = experimental.WithFunctionListenerFactory(ctx, experimental.MultiFunctionListenerFactory(rec2, rec))
			} else {
				lctx = experimental.WithFunctionListenerFactory(ctx, experimental.MultiFunctionListenerFactory(rec, rec2))
			}
		} else {
			lctx = experimental.WithFunctionListenerFactory(ctx, rec)
		}
	}
	rcfg := wz.Config(engine)
	if c.CloseCtx {
		rcfg = rcfg.WithCloseOnContextDone(true)
	}
	rt := wazero.NewRuntimeWithConfig(lctx, rcfg)
	defer rt.Close(ctx)
	gl := &runner.GlobalLog{}
	var inLib *runner.Inst
	if c.Lib != nil {
		sl, err := runner.NewSession(lctx, rt, c.Lib)
		if err != nil {
			res.tr.Inst = wz.Outcome{Kind: wz.KOther, Detail: "compile lib: " + err.Error()}
			return res
		}
		sl.Host.MaxLog, sl.Host.Global = 0, gl
		inLib = sl.InstantiateNamed(lctx, nil, "lib")
		if inLib.Mod == nil {
			// the library's start function failed: nothing to link against
			res.tr.Inst = wz.Outcome{Kind: "lib-failed", Detail: inLib.Tr.Inst.String()}
			res.perCal = append(res.perCal, nil)
			res.enter = append(res.enter, nil)
			res.hostlg = append(res.hostlg, nil)
			return res
		}
		rec.ev = nil // events of the library's own instantiation are not part of the case
		if rec2 != nil {
			rec2.ev = nil
		}
		gl.Entered, gl.Calls = nil, nil
	}
	s, err := runner.NewSession(lctx, rt, c.Module)
	if err != nil {
		res.tr.Inst = wz.Outcome{Kind: wz.KOther, Detail: "compile: " + err.Error()}
		return res
	}
	s.FromBytes = c.FromBytes
	s.Host.MaxLog, s.Host.Global = 0, gl // unlimited: the logs are ground truth here (fuel bounds the number of calls)
	in := s.Instantiate(lctx, nil)
	lastEntered := 0
	cut := func() {
		res.perCal = append(res.perCal, rec.ev)
		if rec2 != nil {
			// what the all-functions recorder saw, restricted to the functions the first recorder
			// listens to, must be exactly what the first recorder saw
			var proj []Event
			for _, e := range rec2.ev {
				if rec.subset == nil || rec.subset[e.ID] || strings.HasSuffix(e.ID, ".callback") {
					proj = append(proj, e)
				}
			}
			for k := 0; k < len(rec.ev) || k < len(proj); k++ {
				x, y := "<none>", "<none>"
				if k < len(rec.ev) {
					x = rec.ev[k].String()
				}
				if k < len(proj) {
					y = proj[k].String()
				}
				if x != y && res.multiMsg == "" {
					res.multiMsg = fmt.Sprintf("the listeners combined by MultiFunctionListenerFactory saw different events: #%d subset listener=%s, all-functions listener (restricted to that subset)=%s", k, x, y)
				}
			}
			// and the all-functions recorder must have seen every function that was entered
			var gotW []string
			for _, e := range rec2.ev {
				if e.Kind == 'B' && !e.Host {
					gotW = append(gotW, e.ID)
				}
			}
			wantW := gl.Entered[lastEntered:]
			if len(gotW) == len(wantW)+1 { // a function whose fuel check trapped before its entry hook
				gotW = gotW[:len(gotW)-1]
			}
			if strings.Join(gotW, " ") != strings.Join(wantW, " ") && res.multiMsg == "" && (len(res.perCal) > 1 || res.tr.Inst.Kind == wz.KOK || in.Mod != nil) {
				res.multiMsg = fmt.Sprintf("the all-functions listener combined with a subset listener by MultiFunctionListenerFactory saw Before events for [%s], the functions actually entered are [%s]", strings.Join(gotW, " "), strings.Join(wantW, " "))
			}
			rec2.ev = nil
		}
		rec.ev = nil
		lastEntered = len(gl.Entered)
		res.enter = append(res.enter, append([]string{}, gl.Entered...))
		res.hostlg = append(res.hostlg, append([]string{}, gl.Calls...))
	}
	cut()
	for _, call := range c.Script {
		if inLib != nil {
			inLib.ResetFuel(c.Fuel)
		}
		in.Call(lctx, call, c.Fuel)
		cut()
	}
	res.tr = *in.Finish(ctx)
	return res
}

// checkStream validates the events of one outermost call. failed says whether that call
// returned an error. It returns a message or "".
func checkStream(ev []Event, failed bool, all bool) string {
	var stack []Event
	for k, e := range ev {
		switch e.Kind {
		case 'B':
			if len(e.Stack) == 0 {
				return fmt.Sprintf("event %d (%s): stack iterator is empty (at least the called function is guaranteed)", k, e)
			}
			if e.Stack[0] != e.ID {
				return fmt.Sprintf("event %d (%s): first stack-iterator frame is %s, not the called function", k, e, e.Stack[0])
			}
			// the open listened frames, innermost first, must appear in the iterator in that
			// order (as a subsequence; exactly, when every function is listened)
			// A guest call made by a host function through api.Function.Call is a new
			// top-level invocation with its own call stack: the chain is cut there.
			want := []string{e.ID}
			for i := len(stack) - 1; i >= 0; i-- {
				if stack[i].Host && strings.HasSuffix(stack[i].ID, ".callback") {
					break
				}
				want = append(want, stack[i].ID)
			}
			if all {
				if strings.Join(want, "<") != strings.Join(e.Stack, "<") {
					return fmt.Sprintf("event %d (%s): stack iterator lists [%s], the open calls are [%s]", k, e, strings.Join(e.Stack, "<"), strings.Join(want, "<"))
				}
			} else {
				j := 0
				for _, f := range e.Stack {
					if j < len(want) && f == want[j] {
						j++
					}
				}
				if j != len(want) {
					return fmt.Sprintf("event %d (%s): open listened calls [%s] are not a subsequence of the stack iterator [%s]", k, e, strings.Join(want, "<"), strings.Join(e.Stack, "<"))
				}
			}
			stack = append(stack, e)
		case 'A', 'X':
			if len(stack) == 0 {
				return fmt.Sprintf("event %d (%s): %c without an open Before", k, e, e.Kind)
			}
			top := stack[len(stack)-1]
			if top.ID != e.ID {
				return fmt.Sprintf("event %d (%s): closes %s while the innermost open call is %s (not properly nested)", k, e, e.ID, top.ID)
			}
			stack = stack[:len(stack)-1]
			if e.Kind == 'X' && !failed {
				// an inner failure can only be swallowed by a host function; ours propagate
				return fmt.Sprintf("event %d (%s): Abort although the outermost call returned normally", k, e)
			}
		}
	}
	if len(stack) != 0 {
		var open []string
		for _, e := range stack {
			open = append(open, e.ID)
		}
		return fmt.Sprintf("%d Before event(s) never matched by After/Abort when the outermost call returned (failed=%v): %s", len(stack), failed, strings.Join(open, ","))
	}
	if failed {
		// once unwinding starts (first Abort), no After may follow at a shallower depth... each
		// frame that was open at the failure must be closed by Abort: After events following an
		// Abort are only legal for calls opened after it (none here since the failure propagates).
		seenX := false
		for k, e := range ev {
			if e.Kind == 'X' {
				seenX = true
			} else if seenX && e.Kind == 'A' {
				return fmt.Sprintf("event %d (%s): After during unwinding of a failed call", k, e)
			}
		}
	}
	return ""
}

// groundTruth compares the events with the enter() reports and the host log deltas.
func groundTruth(c *Case, ev []Event, enter []string, hostlog []string, listened func(string) bool, allHost bool) string {
	var gotW []string
	var gotH []string
	var pendingH []Event
	for _, e := range ev {
		if e.Kind == 'B' && !e.Host {
			gotW = append(gotW, e.ID)
		}
		if e.Host && (strings.HasSuffix(e.ID, ".grow") || strings.HasSuffix(e.ID, ".callback")) {
			continue
		}
		if e.Host && e.Kind == 'B' {
			pendingH = append(pendingH, e)
		}
		if e.Host && e.Kind == 'A' && len(pendingH) > 0 {
			b := pendingH[len(pendingH)-1]
			pendingH = pendingH[:len(pendingH)-1]
			var sb strings.Builder
			sb.WriteString(b.ID[strings.Index(b.ID, ".")+1:] + "(")
			for _, v := range b.Vals {
				fmt.Fprintf(&sb, "%x,", v)
			}
			sb.WriteString(")->")
			for _, v := range e.Vals {
				fmt.Fprintf(&sb, "%x,", v)
			}
			gotH = append(gotH, sb.String())
		}
	}
	var wantW []string
	for _, f := range enter {
		if listened(f) {
			wantW = append(wantW, f)
		}
	}
	// a function whose fuel check trapped before reaching the hook produces a Before without
	// an enter report: only the last Before may be unreported, and only then
	if len(gotW) == len(wantW)+1 {
		gotW = gotW[:len(gotW)-1]
	}
	if strings.Join(gotW, " ") != strings.Join(wantW, " ") {
		return fmt.Sprintf("Before events of wasm functions [%s] differ from the functions actually entered [%s]", strings.Join(gotW, " "), strings.Join(wantW, " "))
	}
	if allHost {
		var wantH []string
		for _, l := range hostlog {
			if strings.HasPrefix(l, "grow(") || strings.HasPrefix(l, "callback(") {
				continue
			}
			wantH = append(wantH, l)
		}
		if strings.Join(gotH, " ") != strings.Join(wantH, " ") {
			return fmt.Sprintf("Before/After pairs of host functions %v differ from the host's own record of calls %v", gotH, wantH)
		}
	}
	return ""
}

func deltaS(all [][]string, i int) []string { return all[i][len(all[i-1]):] }

// RunCase returns a violation message, labels, non-triviality.
func RunCase(c *Case) (string, []string, bool) {
	listenedIdx := func(f uint32) bool {
		if c.Subset == nil {
			return true
		}
		for _, s := range c.Subset {
			if s == f {
				return true
			}
		}
		return false
	}
	listened := func(id string) bool { // "<module>.<index>"
		if c.Subset == nil || strings.HasPrefix(id, "lib.") {
			return true
		}
		var f uint32
		fmt.Sscanf(id, ".%d", &f)
		return listenedIdx(f)
	}
	all := c.Subset == nil
	var labels []string
	maxDepth := 0
	unwound := 0
	var results [2]runResult
	for ei, eng := range wz.Engines {
		r := run(eng, c, true)
		results[ei] = r
		if r.tr.Inst.Kind == "lib-failed" {
			return "", []string{"discarded-lib-start-failed"}, false
		}
		if r.tr.Inst.Kind == wz.KOther {
			return "valid-by-construction module rejected: " + r.tr.Inst.Detail, nil, false
		}
		if r.tr.HasKind(wz.KInternal) {
			return fmt.Sprintf("internal failure with listeners on the %s: %v %v", eng, r.tr.Inst, r.tr.Steps), nil, false
		}
		if r.tr.HasKind(wz.KStack) {
			return "", []string{"discarded-stack-overflow"}, false
		}
		if r.multiMsg != "" {
			return fmt.Sprintf("%s: %s", eng, r.multiMsg), nil, false
		}
		plain := run(eng, c, false)
		if d := runner.Diff(&plain.tr, &r.tr, "without-listeners", "with-listeners"); d != "" {
			return fmt.Sprintf("listeners change the guest's behaviour on the %s: %s", eng, d), nil, false
		}
		for i, ev := range r.perCal {
			failed := false
			if i == 0 {
				failed = r.tr.Inst.Kind != wz.KOK
			} else if i-1 < len(r.tr.Steps) {
				failed = r.tr.Steps[i-1].Kind != wz.KOK
			}
			if msg := checkStream(ev, failed, all); msg != "" {
				return fmt.Sprintf("%s, call #%d: %s", eng, i, msg), nil, false
			}
			var en, hl []string
			if i == 0 {
				en, hl = r.enter[0], r.hostlg[0]
			} else {
				en, hl = deltaS(r.enter, i), deltaS(r.hostlg, i)
			}
			if r.tr.Inst.Kind == wz.KOK || i > 0 {
				if msg := groundTruth(c, ev, en, hl, listened, all); msg != "" {
					return fmt.Sprintf("%s, call #%d: %s", eng, i, msg), nil, false
				}
			}
			// outermost params/results
			if i > 0 && len(ev) > 0 && listenedExport(c, c.Script[i-1].Fn, listenedIdx) {
				want := maskSig(c, c.Script[i-1].Fn, true, c.Script[i-1].Args)
				if ev[0].Kind != 'B' || fmt.Sprint(ev[0].Vals) != fmt.Sprint(want) {
					return fmt.Sprintf("%s, call #%d: first event %s does not carry the arguments passed %x", eng, i, ev[0], want), nil, false
				}
				if !failed {
					last := ev[len(ev)-1]
					if last.Kind != 'A' || fmt.Sprint(last.Vals) != fmt.Sprint(r.tr.Steps[i-1].Results) {
						return fmt.Sprintf("%s, call #%d: last event %s does not carry the results returned %x", eng, i, last, r.tr.Steps[i-1].Results), nil, false
					}
				}
			}
			d := 0
			for _, e := range ev {
				if e.Kind == 'B' {
					d++
					if d > maxDepth {
						maxDepth = d
					}
				} else {
					d--
					if e.Kind == 'X' {
						unwound++
					}
				}
			}
		}
	}
	// differential: identical event sequences
	a, b := results[0], results[1]
	for i := range a.perCal {
		if i >= len(b.perCal) {
			break
		}
		x, y := a.perCal[i], b.perCal[i]
		n := len(x)
		if len(y) < n {
			n = len(y)
		}
		for k := 0; k < n; k++ {
			if x[k].String() != y[k].String() {
				return fmt.Sprintf("call #%d event %d differs between engines: interpreter %s, compiler %s", i, k, x[k], y[k]), nil, false
			}
		}
		if len(x) != len(y) {
			return fmt.Sprintf("call #%d: interpreter produced %d events, compiler %d", i, len(x), len(y)), nil, false
		}
	}
	st := c.Module.Stats
	if st["call_indirect"] > 0 {
		labels = append(labels, "has-call_indirect")
	}
	if len(a.tr.HostLog) > 0 {
		labels = append(labels, "host-calls")
	}
	if unwound >= 4 {
		labels = append(labels, "trap-unwinding>=2-frames")
	}
	if !all {
		labels = append(labels, "subset-listener")
	}
	if c.Lib != nil {
		labels = append(labels, "cross-module-calls")
	}
	if c.CloseCtx {
		labels = append(labels, "close-on-context-done")
	}
	if c.Multi {
		labels = append(labels, "multi-listener-factory")
	}
	if c.FromBytes {
		labels = append(labels, "instantiated-from-bytes")
	}
	for _, l := range a.tr.HostLog {
		if strings.HasPrefix(l, "closer(") {
			labels = append(labels, "module-closed-by-host-mid-call")
			break
		}
	}
	if c.Module.Start >= 0 {
		labels = append(labels, "start-function")
	}
	labels = append(labels, fmt.Sprintf("depth>=%d", min(maxDepth/3*3, 12)))
	nt := maxDepth >= 3 && (unwound >= 4 || st["call_indirect"] > 0 || len(a.tr.HostLog) > 0)
	return "", labels, nt
}

func listenedExport(c *Case, name string, listened func(uint32) bool) bool {
	for _, e := range c.Module.Exports() {
		if e.Export == name {
			return listened(e.Index)
		}
	}
	return false
}

func maskSig(c *Case, name string, params bool, vs []uint64) []uint64 {
	for _, e := range c.Module.Exports() {
		if e.Export == name {
			ts := e.Sig.P
			if !params {
				ts = e.Sig.R
			}
			return mask(ts, vs)
		}
	}
	return vs
}

func min(a, b int) int {
	if a < b {
		return a
	}
	return b
}

func drawArgs(t *rapid.T, p []byte) []uint64 {
	var a []uint64
	for _, ty := range p {
		switch ty {
		case wasmgen.V128:
			a = append(a, rapid.Uint64().Draw(t, "v"), rapid.Uint64().Draw(t, "v"))
		case wasmgen.I32, wasmgen.F32:
			a = append(a, uint64(rapid.Uint32().Draw(t, "a32")))
		case wasmgen.FuncRef:
			a = append(a, 0)
		case wasmgen.ExternRef:
			a = append(a, uint64(rapid.IntRange(0, 3).Draw(t, "ext")))
		default:
			a = append(a, rapid.Uint64().Draw(t, "a64"))
		}
	}
	return a
}

func prop(t *rapid.T) {
	cfg := wasmgen.DefaultConfig()
	cfg.Features = wasmgen.FeatAll &^ wasmgen.FeatTailCall // tail calls: known finding C20-tailcall-events
	cfg.MaxFuncs = rapid.IntRange(2, 8).Draw(t, "maxfuncs")
	cfg.MaxStmts = rapid.IntRange(4, 10).Draw(t, "maxstmts")
	cfg.MaxDepth = rapid.IntRange(2, 4).Draw(t, "maxdepth")
	cfg.HostImports = 3
	cfg.Enter = true
	cfg.CallRich = true
	cfg.FuelInit = 16 * 24 // at most 24 nested frames (the stack iterator / abort cap of 30 is a known finding)
	closeCtx := rapid.IntRange(0, 2).Draw(t, "closectx") == 0
	cfg.Closer = closeCtx || rapid.IntRange(0, 3).Draw(t, "closer") == 0
	var lib *wasmgen.Module
	if rapid.IntRange(0, 2).Draw(t, "withlib") == 0 {
		// two modules, each with its own fuel: half the budget each, so that the combined nesting
		// stays below the 30-frame cap of the known finding
		cfg.FuelInit = 16 * 12
		lcfg := cfg
		lcfg.HostModule = "env2"
		lcfg.ModuleName = "lib"
		lcfg.MaxFuncs = rapid.IntRange(1, 6).Draw(t, "libfuncs")
		lcfg.AllowStart = false
		lib = wasmgen.Generate(t, lcfg)
		cfg.Lib, cfg.LibName = lib, "lib"
	}
	m := wasmgen.Generate(t, cfg)
	c := &Case{Module: m, Lib: lib, Fuel: cfg.FuelInit, CloseCtx: closeCtx, Multi: rapid.IntRange(0, 3).Draw(t, "multi") == 0, MultiAllFirst: rapid.Bool().Draw(t, "multiallfirst"), FromBytes: rapid.IntRange(0, 2).Draw(t, "frombytes") == 0}
	ex := m.Exports()
	n := rapid.IntRange(1, 5).Draw(t, "ncalls")
	for i := 0; i < n; i++ {
		e := ex[rapid.IntRange(0, len(ex)-1).Draw(t, "export")]
		c.Script = append(c.Script, runner.Call{Fn: e.Export, Args: drawArgs(t, e.Sig.P)})
	}
	if rapid.IntRange(0, 2).Draw(t, "subsetmode") == 0 {
		c.Subset = []uint32{}
		for _, e := range ex {
			if rapid.Bool().Draw(t, "listen") {
				c.Subset = append(c.Subset, e.Index)
			}
		}
	}
	evid.Journal(c)
	msg, labels, nt := RunCase(c)
	if msg != "" {
		evid.Fail(t, c, "%s\n%s", msg, strings.Join(m.Text, "\n"))
	}
	evid.Case(evid.Hash64(m.Bytes, fmt.Sprint(c.Script), fmt.Sprint(c.Subset)), nt, labels...)
	if nt {
		evid.Sample("program", 2, map[string]any{"script": c.Script, "subset": c.Subset, "module_bytes": len(m.Bytes)})
	}
}

func TestListeners(t *testing.T) {
	if evid.ReplayPath() != "" {
		t.Skip()
	}
	evid.Check(t, "listeners", evid.Scale(10000, 400000), prop)
}

func TestReplay(t *testing.T) {
	p := evid.ReplayPath()
	if p == "" {
		t.Skip()
	}
	var dc struct {
		Deep *deepCase `json:"deep"`
	}
	if _, err := evid.LoadReplay(p, &dc); err == nil && dc.Deep != nil {
		if msg, _ := runDeep(dc.Deep); msg != "" {
			evid.Violation("replay", &dc, "%s", msg)
			t.Fatal(msg)
		}
		return
	}
	var c Case
	if _, err := evid.LoadReplay(p, &c); err != nil {
		t.Fatal(err)
	}
	if msg, _, _ := RunCase(&c); msg != "" {
		evid.Violation("replay", &c, "%s", msg)
		t.Fatal(msg)
	}
}
