package c20

import (
	"context"
	"fmt"
	"strings"
	"testing"

	"github.com/tetratelabs/wazero"
	"github.com/tetratelabs/wazero/api"
	"github.com/tetratelabs/wazero/experimental"
	"pgregory.net/rapid"

	"verif/internal/evid"
	"verif/internal/wasmenc"
	"verif/internal/wz"
)

// Deep-then-shallow histories on reused api.Function handles.
//
// The program generator keeps call chains below 25 frames because what happens beyond 30
// frames is a known finding (C20-frames-capped-at-30). That exclusion must not hide a different
// failure: state left behind by a deep call (a trap unwinding 100 frames, say) that corrupts
// the events of LATER, shallow calls made through the same api.Function. Here the deep calls are
// executed but not judged; every call with at most 26 frames is compared, event by event and
// stack snapshot by stack snapshot, with the sequence the program's definition dictates.

type deepCall struct {
	Fn   string `json:"fn"` // "a" | "b"
	N    uint32 `json:"n"`
	Mode uint32 `json:"mode"` // 0 return normally, 1 trap (unreachable) at the bottom, 2 host function fails at the bottom
}

type deepCase struct {
	Calls []deepCall `json:"calls"`
}

const deepLimit = 24 // n <= deepLimit: at most 26 frames incl. the host leaf

func deepModule() []byte {
	m := &wasmenc.Module{}
	I32 := []byte{wasmenc.I32}
	II := []byte{wasmenc.I32, wasmenc.I32}
	leaf := m.ImportFunc("env", "leaf", I32, I32)
	ty := m.AddType(II, I32)
	bottom := func(b *wasmenc.B) *wasmenc.B {
		// if mode==1 unreachable; return leaf(mode)
		return b.LocalGet(1).I32Const(1).Raw(0x46).If().Unreachable().End().LocalGet(1).Call(leaf)
	}
	// a = 1, b = 2
	aBody := wasmenc.NewB().LocalGet(0).Raw(0x45).If(wasmenc.I32)
	aBody = bottom(aBody).Else().LocalGet(0).I32Const(1).Raw(0x6b).LocalGet(1).Call(2).I32Const(1).Raw(0x6a).End()
	bBody := wasmenc.NewB().LocalGet(0).Raw(0x45).If(wasmenc.I32)
	bBody = bottom(bBody).Else().LocalGet(0).I32Const(1).Raw(0x6b).LocalGet(1).I32Const(0).CallIndirect(ty, 0).I32Const(1).Raw(0x6a).End()
	a := m.AddFunc(II, I32, nil, aBody.Bytes())
	b := m.AddFunc(II, I32, nil, bBody.Bytes())
	m.Tables = [][]byte{wasmenc.TableType(0x70, 1, 1)}
	m.Elems = [][]byte{wasmenc.ActiveElemFuncs(0, []uint32{a})}
	m.ExportFunc("a", a)
	m.ExportFunc("b", b)
	return m.Encode()
}

// deepExpect lists the events of call fn(n, mode) as Event.String() values.
func deepExpect(c deepCall) []string {
	ids := map[string]string{"a": ".1", "b": ".2"}
	other := map[string]string{"a": "b", "b": "a"}
	var chain []string // outermost first
	cur := c.Fn
	var out []string
	for k := uint32(0); k <= c.N; k++ {
		chain = append(chain, ids[cur])
		var st []string
		for i := len(chain) - 1; i >= 0; i-- {
			st = append(st, chain[i])
		}
		out = append(out, Event{Kind: 'B', ID: ids[cur], Vals: []uint64{uint64(c.N - k), uint64(c.Mode)}, Stack: st}.String())
		cur = other[cur]
	}
	closeAll := func(kind byte, base uint64) {
		for i := len(chain) - 1; i >= 0; i-- {
			e := Event{Kind: kind, ID: chain[i]}
			if kind == 'A' {
				e.Vals = []uint64{base + uint64(len(chain)-1-i)}
			}
			out = append(out, e.String())
		}
	}
	if c.Mode == 1 {
		closeAll('X', 0)
		return out
	}
	st := []string{"env.leaf"}
	for i := len(chain) - 1; i >= 0; i-- {
		st = append(st, chain[i])
	}
	out = append(out, Event{Kind: 'B', ID: "env.leaf", Host: true, Vals: []uint64{uint64(c.Mode)}, Stack: st}.String())
	if c.Mode == 0 {
		out = append(out, Event{Kind: 'A', ID: "env.leaf", Host: true, Vals: []uint64{7}}.String())
		closeAll('A', 7)
	} else {
		out = append(out, Event{Kind: 'X', ID: "env.leaf", Host: true}.String())
		closeAll('X', 0)
	}
	return out
}

func runDeep(c *deepCase) (string, bool) {
	nontrivial := false
	for _, eng := range wz.Engines {
		ctx := context.Background()
		rec := &recorder{max: 1 << 20}
		lctx := experimental.WithFunctionListenerFactory(ctx, rec)
		rt := wazero.NewRuntimeWithConfig(lctx, wz.Config(eng))
		_, err := rt.NewHostModuleBuilder("env").NewFunctionBuilder().WithFunc(func(mode uint32) uint32 {
			if mode == 2 {
				panic("leaf fails")
			}
			return 7
		}).Export("leaf").Instantiate(lctx)
		if err != nil {
			rt.Close(ctx)
			return "host module: " + err.Error(), false
		}
		mod, err := rt.InstantiateWithConfig(lctx, deepModule(), wazero.NewModuleConfig().WithName("d"))
		if err != nil {
			rt.Close(ctx)
			return "instantiate: " + err.Error(), false
		}
		handles := map[string]api.Function{"a": mod.ExportedFunction("a"), "b": mod.ExportedFunction("b")}
		deepFailedBefore := map[string]bool{}
		for i, call := range c.Calls {
			rec.ev = nil
			res, out := wz.SafeCall(lctx, handles[call.Fn], uint64(call.N), uint64(call.Mode))
			if out.Kind == wz.KInternal {
				rt.Close(ctx)
				return fmt.Sprintf("%s, call #%d %+v: internal failure: %s", eng, i, call, out), false
			}
			if (call.Mode == 0) != (out.Kind == wz.KOK) {
				rt.Close(ctx)
				return fmt.Sprintf("%s, call #%d %+v: outcome %s", eng, i, call, out), false
			}
			if call.Mode == 0 && (len(res) != 1 || uint32(res[0]) != 7+call.N) {
				rt.Close(ctx)
				return fmt.Sprintf("%s, call #%d %+v: result %v, want %d", eng, i, call, res, 7+call.N), false
			}
			if call.N > deepLimit {
				if call.Mode != 0 {
					deepFailedBefore[call.Fn] = true
				}
				continue // more than 26 frames: known finding C20-frames-capped-at-30, not judged
			}
			if deepFailedBefore[call.Fn] {
				nontrivial = true
			}
			want := deepExpect(call)
			var got []string
			for _, e := range rec.ev {
				got = append(got, e.String())
			}
			for k := 0; k < len(want) || k < len(got); k++ {
				g, w := "<none>", "<none>"
				if k < len(got) {
					g = got[k]
				}
				if k < len(want) {
					w = want[k]
				}
				if g != w {
					rt.Close(ctx)
					return fmt.Sprintf("%s, call #%d %s(%d, mode %d) on a reused handle: event %d is %q, the program dictates %q (%d events recorded, %d expected)",
						eng, i, call.Fn, call.N, call.Mode, k, g, w, len(got), len(want)), false
				}
			}
		}
		rt.Close(ctx)
	}
	return "", nontrivial
}

func TestDeepThenShallow(t *testing.T) {
	if evid.ReplayPath() != "" {
		t.Skip()
	}
	evid.Check(t, "deep-then-shallow", evid.Scale(400, 16000), func(t *rapid.T) {
		var c deepCase
		n := rapid.IntRange(2, 6).Draw(t, "ncalls")
		for i := 0; i < n; i++ {
			dc := deepCall{Fn: rapid.SampledFrom([]string{"a", "b"}).Draw(t, "fn"), Mode: uint32(rapid.IntRange(0, 2).Draw(t, "mode"))}
			if rapid.IntRange(0, 2).Draw(t, "deep") == 0 {
				dc.N = uint32(rapid.IntRange(deepLimit+1, 160).Draw(t, "n"))
			} else {
				dc.N = uint32(rapid.IntRange(0, deepLimit).Draw(t, "n"))
			}
			c.Calls = append(c.Calls, dc)
		}
		evid.Journal(map[string]any{"deep": c})
		msg, nt := runDeep(&c)
		if msg != "" {
			evid.Fail(t, map[string]any{"deep": c}, "%s", msg)
		}
		lbl := []string{"deep-then-shallow"}
		if nt {
			lbl = append(lbl, "shallow-call-after-deep-failure-on-same-handle")
		}
		evid.Case(evid.Hash64("deep", fmt.Sprint(c.Calls)), nt, lbl...)
		if nt {
			evid.Sample("deep-then-shallow", 2, c)
		}
	})
	_ = strings.Join
}
