package c20

import (
	"context"
	"fmt"
	"testing"

	"github.com/tetratelabs/wazero"
	"github.com/tetratelabs/wazero/experimental"

	"verif/internal/evid"
	"verif/internal/wasmenc"
	"verif/internal/wz"
)

// The generator excludes three classes by construction (more than 24 nested frames, call-stack
// exhaustion, tail calls). Their specific inputs are re-run here and reported through
// evid.Finding, so that they stay visible and anything else is still a violation.

func knownModule() []byte {
	m := &wasmenc.Module{}
	I32 := []byte{wasmenc.I32}
	// f0(n): if n==0 unreachable else f0(n-1)
	m.ExportFunc("deeptrap", m.AddFunc(I32, I32, nil, wasmenc.NewB().LocalGet(0).Raw(0x45).If().Unreachable().End().LocalGet(0).I32Const(1).Raw(0x6b).Call(0).Bytes()))
	// f1(n): f1(n)  (unbounded recursion)
	m.ExportFunc("overflow", m.AddFunc(I32, I32, nil, wasmenc.NewB().LocalGet(0).Call(1).Bytes()))
	// f2(x)=x+1 ; f3(x)=return_call f2 ; f4(x)=f3(x)+1
	m.ExportFunc("inc", m.AddFunc(I32, I32, nil, wasmenc.NewB().LocalGet(0).I32Const(1).Raw(0x6a).Bytes()))
	m.ExportFunc("tail", m.AddFunc(I32, I32, nil, wasmenc.NewB().LocalGet(0).ReturnCall(2).Bytes()))
	m.ExportFunc("viatail", m.AddFunc(I32, I32, nil, wasmenc.NewB().LocalGet(0).Call(3).I32Const(1).Raw(0x6a).Bytes()))
	// f5(n): if n==0 return 7 else f5(n-1)  (deep, returns normally)
	m.ExportFunc("deepok", m.AddFunc(I32, I32, nil, wasmenc.NewB().LocalGet(0).Raw(0x45).If(wasmenc.I32).I32Const(7).Else().LocalGet(0).I32Const(1).Raw(0x6b).Call(5).End().Bytes()))
	return m.Encode()
}

func runKnown(engine, fn string, arg uint64) ([]Event, bool) {
	ctx := context.Background()
	rec := &recorder{max: 1 << 20}
	lctx := experimental.WithFunctionListenerFactory(ctx, rec)
	rt := wazero.NewRuntimeWithConfig(lctx, wz.Config(engine))
	defer rt.Close(ctx)
	mod, err := rt.Instantiate(lctx, knownModule())
	if err != nil {
		panic(err)
	}
	_, out := wz.SafeCall(lctx, mod.ExportedFunction(fn), arg)
	return rec.ev, out.Kind != wz.KOK
}

func TestKnownFindings(t *testing.T) {
	if evid.ReplayPath() != "" {
		t.Skip()
	}
	if s, _ := evid.Shard(); s != 0 {
		t.Skip()
	}
	type probe struct {
		id, fn string
		arg    uint64
		what   string
	}
	probes := []probe{
		{"C20-frames-capped-at-30", "deeptrap", 100, "trap unwinding 101 frames"},
		{"C20-frames-capped-at-30", "deepok", 100, "101 nested frames returning normally (stack iterator depth)"},
		{"C20-stack-overflow-unmatched-before", "overflow", 1, "call-stack exhaustion"},
		{"C20-tailcall-events", "viatail", 5, "call -> return_call -> callee"},
	}
	for _, p := range probes {
		for _, eng := range wz.Engines {
			ev, failed := runKnown(eng, p.fn, p.arg)
			msg := checkStream(ev, failed, true)
			if msg == "" && p.fn == "viatail" {
				// the callee of the tail call must be reported as well
				seen := false
				for _, e := range ev {
					if e.Kind == 'B' && e.ID == ".2" {
						seen = true
					}
				}
				if !seen {
					msg = "the function reached through return_call produced no Before event"
				}
			}
			c := map[string]any{"known": p.fn, "arg": p.arg, "engine": eng}
			if msg != "" {
				if evid.Finding(p.id, "known-findings", c, "%s on the %s: %s", p.what, eng, msg) {
					t.Errorf("%s: %s", p.id, msg)
				}
			} else {
				evid.Note("known finding %s does not reproduce for %s on the %s", p.id, p.fn, eng)
			}
			evid.Case(evid.Hash64("known", p.fn, eng), true, "known-finding-input")
		}
	}
	_ = fmt.Sprint
}
