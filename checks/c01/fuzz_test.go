package c01

import (
	"crypto/sha256"
	"encoding/json"
	"fmt"
	"os"
	"path/filepath"
	"strings"
	"testing"

	"pgregory.net/rapid"

	"verif/internal/evid"
	"verif/internal/wasmgen"
)

// FuzzDifferential drives the same generator and oracle as TestDifferential from Go's native
// coverage-guided fuzzer: the fuzz input is the bit stream rapid draws from, so inputs that
// reach new code in the engines (instruction selection, register allocation, interpreter
// lowering) are kept and mutated further. Thorough tier only (check.json "fuzz").
func FuzzDifferential(f *testing.F) {
	// starting corpus: fixed pseudo-random bit streams long enough for whole programs (an empty
	// corpus makes the fuzzer spend its time discovering that longer inputs are needed)
	for i := 0; i < 48; i++ {
		b := make([]byte, 0, 16384)
		h := sha256.Sum256([]byte(fmt.Sprintf("c01-seed-%d", i)))
		for len(b) < 2048+i*256 {
			b = append(b, h[:]...)
			h = sha256.Sum256(h[:])
		}
		f.Add(b)
	}
	f.Fuzz(rapid.MakeFuzz(func(t *rapid.T) {
		cfg := drawConfig(t)
		var lib *wasmgen.Module
		if rapid.IntRange(0, 3).Draw(t, "withlib") == 0 {
			lcfg := cfg
			lcfg.HostModule, lcfg.ModuleName, lcfg.AllowStart = "env2", "lib", false
			lcfg.MaxFuncs = rapid.IntRange(1, 6).Draw(t, "libfuncs")
			lib = wasmgen.Generate(t, lcfg)
			cfg.Lib, cfg.LibName = lib, "lib"
		}
		m := wasmgen.Generate(t, cfg)
		c := &Case{Module: m, Lib: lib, Script: Script(t, m), Fuel: cfg.FuelInit}
		if msg, _, _ := RunCase(c); msg != "" {
			if dir := os.Getenv("VERIF_FUZZ_OUT"); dir != "" {
				b, _ := json.Marshal(map[string]any{"property": "C01", "check": "native-fuzz", "message": msg + "\n" + strings.Join(m.Text, "\n"), "case": c})
				os.WriteFile(filepath.Join(dir, fmt.Sprintf("C01-fuzz-%016x.json", evid.Hash64(m.Bytes, fmt.Sprint(c.Script)))), b, 0o644)
			}
			t.Fatalf("%s", msg)
		}
	}))
}
