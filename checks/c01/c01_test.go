// C01 — compiler and interpreter agree on every valid program.
//
// Generator: wasmgen modules over the full feature set + a call script with boundary-biased
// arguments. Oracle: differential — the canonical traces (result bits, trap kinds, host-call
// log, final memory/globals/tables) of the two engines must be equal; an internal failure on
// either engine is a violation by itself; cases where either engine reports call-stack
// exhaustion are discarded (the only divergence the property permits).
package c01

import (
	"context"
	"fmt"
	"time"

	"github.com/tetratelabs/wazero"
	"strings"
	"testing"

	"pgregory.net/rapid"

	"verif/internal/evid"
	"verif/internal/runner"
	"verif/internal/wasmgen"
	"verif/internal/wz"
)

func TestMain(m *testing.M) { evid.Main(m, "C01") }

// Case is the replayable form of one differential case.
type Case struct {
	Lib    *wasmgen.Module `json:"lib,omitempty"` // second module instantiated as "lib"; Module imports some of its exports
	Module *wasmgen.Module `json:"module"`
	Script []runner.Call   `json:"script"`
	Fuel   int32           `json:"fuel"`
	// Mutant: Module.Bytes is a generated program after one instruction-level edit (deleted,
	// duplicated, swapped, replaced, inserted or copied instruction). Most such programs are
	// invalid and rejected (discarded); the ones the validator accepts are valid programs of
	// unusual shape (dead code, stack-polymorphic typing, lost fuel accounting), run on both
	// engines under close-on-context-done with a deadline (a case that reaches it is discarded).
	Mutant bool `json:"mutant,omitempty"`
}

func drawConfig(t *rapid.T) wasmgen.Config {
	cfg := wasmgen.DefaultConfig()
	switch rapid.IntRange(0, 9).Draw(t, "featset") {
	case 0:
		cfg.Features = wasmgen.FeatV1
	case 1, 2:
		cfg.Features = wasmgen.FeatV2
	case 3:
		cfg.Features = wasmgen.FeatV2&^wasmgen.FeatSIMD | wasmgen.FeatTailCall
	default:
		cfg.Features = wasmgen.FeatAll
	}
	cfg.MaxFuncs = rapid.IntRange(1, 10).Draw(t, "maxfuncs")
	cfg.MaxStmts = rapid.IntRange(2, 8).Draw(t, "maxstmts")
	cfg.MaxDepth = rapid.IntRange(2, 7).Draw(t, "maxdepth")
	return cfg
}

// ArgsFor draws an argument vector for a signature (v128 = two entries).
func ArgsFor(t *rapid.T, p []byte) []uint64 {
	var a []uint64
	for _, ty := range p {
		switch ty {
		case wasmgen.I32, wasmgen.F32:
			a = append(a, uint64(drawU32(t)))
		case wasmgen.I64, wasmgen.F64:
			a = append(a, drawU64(t))
		case wasmgen.V128:
			a = append(a, drawU64(t), drawU64(t))
		case wasmgen.ExternRef:
			a = append(a, uint64(rapid.IntRange(0, 3).Draw(t, "extern")))
		default: // funcref: null
			a = append(a, 0)
		}
	}
	return a
}

var b32 = []uint32{0, 1, 0xffffffff, 0x7fffffff, 0x80000000, 0xffff, 0x10000, 0x7fc00000, 0x7f800001, 0x3f800000, 0xbf800000, 0x4f000000, 0xcf000000, 31, 32, 64}
var b64 = []uint64{0, 1, 0xffffffffffffffff, 0x7fffffffffffffff, 0x8000000000000000, 0xffffffff, 0x100000000, 0x80000000, 0x7ff8000000000000, 0x7ff0000000000001, 0x3ff0000000000000, 0x41e0000000000000, 0x43e0000000000000, 63, 64}

func drawU32(t *rapid.T) uint32 {
	if rapid.Bool().Draw(t, "b32") {
		return b32[rapid.IntRange(0, len(b32)-1).Draw(t, "b32i")]
	}
	return rapid.Uint32().Draw(t, "u32")
}

func drawU64(t *rapid.T) uint64 {
	if rapid.Bool().Draw(t, "b64") {
		return b64[rapid.IntRange(0, len(b64)-1).Draw(t, "b64i")]
	}
	return rapid.Uint64().Draw(t, "u64")
}

// Script draws 1-12 calls to exports of m.
func Script(t *rapid.T, m *wasmgen.Module) []runner.Call {
	ex := m.Exports()
	n := rapid.IntRange(1, 12).Draw(t, "ncalls")
	var s []runner.Call
	for i := 0; i < n; i++ {
		e := ex[rapid.IntRange(0, len(ex)-1).Draw(t, "export")]
		s = append(s, runner.Call{Fn: e.Export, Args: ArgsFor(t, e.Sig.P)})
	}
	return s
}

func prop(t *rapid.T) {
	cfg := drawConfig(t)
	var lib *wasmgen.Module
	if rapid.IntRange(0, 3).Draw(t, "withlib") == 0 {
		lcfg := cfg
		lcfg.HostModule, lcfg.ModuleName, lcfg.AllowStart = "env2", "lib", false
		lcfg.MaxFuncs = rapid.IntRange(1, 6).Draw(t, "libfuncs")
		lib = wasmgen.Generate(t, lcfg)
		cfg.Lib, cfg.LibName = lib, "lib"
	}
	m := wasmgen.Generate(t, cfg)
	c := &Case{Module: m, Lib: lib, Script: Script(t, m), Fuel: cfg.FuelInit}
	evid.Journal(c)
	if msg, labels, nt := RunCase(c); msg != "" {
		evid.Fail(t, c, "%s\n%s", msg, strings.Join(m.Text, "\n"))
	} else {
		evid.Case(evid.Hash64(m.Bytes, fmt.Sprint(c.Script)), nt, labels...)
		if nt && evid.WantSample("program", 2) {
			txt := m.Text
			if len(txt) > 60 {
				txt = append(append([]string{}, txt[:60]...), "...")
			}
			evid.Sample("program", 2, map[string]any{"script": c.Script, "module_bytes": len(m.Bytes), "wat": txt})
		}
	}
}

// RunCase executes the case on both engines; it returns a violation message (or ""),
// generator-health labels and whether the case is non-trivial.
func RunCase(c *Case) (msg string, labels []string, nontrivial bool) {
	opt := runner.Options{FuelPerCall: c.Fuel, Lib: c.Lib}
	ci, cc := wz.Config("interpreter"), wz.Config("compiler")
	if c.Mutant {
		ci, cc = ci.WithCloseOnContextDone(true), cc.WithCloseOnContextDone(true)
	}
	run := func(cfg wazero.RuntimeConfig) runner.Trace {
		o := opt
		if c.Mutant {
			ctx, cancel := context.WithTimeout(context.Background(), 3*time.Second)
			defer cancel()
			o.Ctx = ctx
			tr := runner.Run(cfg, c.Module, c.Script, o)
			if ctx.Err() != nil {
				tr.Inst.Kind = "deadline"
			}
			return tr
		}
		return runner.Run(cfg, c.Module, c.Script, o)
	}
	ti := run(ci)
	tc := run(cc)
	if c.Mutant {
		if ti.Inst.Kind == "deadline" || tc.Inst.Kind == "deadline" {
			return "", []string{"mutant-discarded-deadline"}, false
		}
		if ti.Inst.Kind == wz.KOther && tc.Inst.Kind == wz.KOther {
			return "", []string{"mutant-rejected"}, false
		}
		if ti.Inst.Kind == wz.KOther || tc.Inst.Kind == wz.KOther {
			return fmt.Sprintf("one engine accepts the program and the other rejects it: interpreter=%v compiler=%v", ti.Inst, tc.Inst), nil, false
		}
		labels = append(labels, "mutant-accepted")
	}
	for _, x := range []struct {
		n string
		t *runner.Trace
	}{{"interpreter", &ti}, {"compiler", &tc}} {
		if x.t.HasKind(wz.KInternal) {
			return fmt.Sprintf("internal failure on the %s: inst=%v steps=%v", x.n, x.t.Inst, x.t.Steps), nil, false
		}
		if x.t.Inst.Kind == wz.KOther {
			return fmt.Sprintf("valid-by-construction module rejected by the %s: %v", x.n, x.t.Inst), nil, false
		}
	}
	if ti.HasKind(wz.KStack) || tc.HasKind(wz.KStack) {
		return "", []string{"discarded-stack-overflow"}, false
	}
	if ti.Inst.Kind == "lib-failed" && tc.Inst.Kind == "lib-failed" {
		return "", []string{"discarded-lib-start-failed"}, false
	}
	if d := runner.Diff(&ti, &tc, "interpreter", "compiler"); d != "" {
		return "engines disagree: " + d, nil, false
	}
	okCalls, traps := 0, 0
	for _, s := range ti.Steps {
		if s.Kind == wz.KOK {
			okCalls++
		} else {
			traps++
		}
	}
	st := c.Module.Stats
	rich := st["load"]+st["store"]+st["call"]+st["call_indirect"]+st["loop"]+st["simd-mem"]+st["atomic"] > 0
	nontrivial = okCalls > 0 && rich
	if okCalls > 0 {
		labels = append(labels, "some-call-ok")
	}
	if traps > 0 {
		labels = append(labels, "some-call-traps")
	}
	if ti.Inst.Kind != wz.KOK {
		labels = append(labels, "inst-fails")
	}
	if len(ti.HostLog) > 0 {
		labels = append(labels, "host-calls")
	}
	if c.Lib != nil {
		labels = append(labels, "cross-module-calls")
	}
	for _, k := range []string{"simd", "atomic", "tailcall", "memory.grow", "call_indirect", "br_table", "loop", "table.set", "memory.init"} {
		if st[k] > 0 {
			labels = append(labels, "has-"+k)
		}
	}
	return "", labels, nontrivial
}

func propMutant(t *rapid.T) {
	cfg := drawConfig(t)
	cfg.MaxFuncs = rapid.IntRange(1, 5).Draw(t, "mutfuncs")
	// an edit can take the generator's NaN canonicalisation apart (observed: swapping the
	// canonical-NaN constant with the local.set/local.get next to it lets the raw payload of
	// f32x4.min/max reach the sink, which the specification leaves open): the edited programs
	// contain no instruction with an unspecified NaN result
	cfg.NoNaNOps = true
	m := wasmgen.Generate(t, cfg)
	script := Script(t, m)
	mm := *m
	var op string
	mm.Bytes, op = wasmgen.MutateIns(t, m, true)
	c := &Case{Module: &mm, Script: script, Fuel: cfg.FuelInit, Mutant: true}
	evid.Journal(c)
	msg, labels, nt := RunCase(c)
	if msg != "" {
		evid.Fail(t, c, "%s (instruction-level mutant: %s)\n%s", msg, op, strings.Join(m.Text, "\n"))
	}
	accepted := false
	for _, l := range labels {
		if l == "mutant-accepted" {
			accepted = true
		}
	}
	evid.Case(evid.Hash64(mm.Bytes, fmt.Sprint(c.Script)), nt && accepted, append(labels, "mutant:"+op)...)
}

func TestMutantDifferential(t *testing.T) {
	if evid.ReplayPath() != "" {
		t.Skip()
	}
	evid.Check(t, "mutant-differential", evid.Scale(4000, 300000), propMutant)
}

func TestDifferential(t *testing.T) {
	if evid.ReplayPath() != "" {
		t.Skip()
	}
	evid.Check(t, "differential", evid.Scale(16000, 1200000), prop)
}

func TestReplay(t *testing.T) {
	p := evid.ReplayPath()
	if p == "" {
		t.Skip()
	}
	var c Case
	if _, err := evid.LoadReplay(p, &c); err != nil {
		t.Fatal(err)
	}
	if msg, _, _ := RunCase(&c); msg != "" {
		evid.Violation("replay", &c, "%s", msg)
		t.Fatal(msg)
	}
}
